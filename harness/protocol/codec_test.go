package protocol

// Binding of spec/Codec.tla to the real wire codecs (C05).
//
//   TestZZVCodec reads the VEC records TLC printed (one per boundary shape: skeleton, byte layout as runs,
//   total length) and for every shape
//     * builds the concrete Go message (content bytes from a seeded stream, consumed in wire order),
//     * concretises the spec layout with the same stream and compares it byte by byte with the real
//       Encode(m)                                  (binding: the grammar describes the real encoder),
//     * checks Decode(Encode(m)) == m and that re-encoding the decoded message gives the same bytes (verdict),
//     * decodes every strict prefix: error, or a message d with Decode(Encode(d)) == d,
//     * overwrites every length / count / tag cell of the layout with boundary values and applies seeded
//       byte mutations: no panic, allocation <= 1 MiB + 64*len(input), accepted inputs re-encode stably,
//   then feeds seeded random byte strings to every decoder and runs the HOSTILE count vectors of the spec.
//
// Verdict records: {"k":"viol", "cls":..., "ty":..., ...}; the python side turns them into findings.

import (
	"bytes"
	"crypto/sha256"
	"encoding/binary"
	"encoding/hex"
	"fmt"
	mrand "math/rand"
	"reflect"
	"runtime"
	"runtime/metrics"
	"sort"
	"testing"
	"testing/iotest"
	"unsafe"

	"github.com/postalsys/muti-metroo/internal/identity"
)

// ---------------------------------------------------------------------------------------------- input

type zzvRun struct {
	C  string `json:"c"`
	N  int    `json:"n"`
	V  int64  `json:"v"`
	ID string `json:"id"`
}

type zzvVec struct {
	Ty    string   `json:"ty"`
	Sk    []any    `json:"sk"`
	Len   int      `json:"len"`
	Runs  []zzvRun `json:"runs"`
	Parse string   `json:"parse"`
	// Legacy: the layout is the encoding an older protocol version produced (node info without its newest
	// fields); the current encoder cannot produce it, the decoder must accept it
	Legacy bool `json:"legacy"`
}

type zzvHostile struct {
	H struct {
		List    int `json:"list"`
		Claimed int `json:"claimed"`
		NBytes  int `json:"nbytes"`
	} `json:"h"`
	PreAlloc int64 `json:"prealloc"`
	Bound    int64 `json:"bound"`
}

// zzvStreamVec: a hostile frame header offered to both frame decode paths (spec section "streaming frame path")
type zzvStreamVec struct {
	H struct {
		Claim struct {
			C string `json:"c"`
		} `json:"claim"`
		Hdr   int    `json:"hdr"`
		Avail string `json:"avail"`
	} `json:"h"`
	AvailBytes int    `json:"availbytes"`
	Slice      string `json:"slice"`
	Stream     string `json:"stream"`
	AllocKiB   int64  `json:"allockib"`
	BoundKiB   int64  `json:"boundkib"`
	EncodeOK   bool   `json:"encodeok"`
}

var zzvClaims = map[string]uint32{"0": 0, "1": 1, "Max-1": MaxPayloadSize - 1, "Max": MaxPayloadSize,
	"Max+1": MaxPayloadSize + 1, "2^31": 1 << 31, "2^32-1": 1<<32 - 1}

type zzvCodecIn struct {
	Vecs    []zzvVec       `json:"vecs"`
	Hostile []zzvHostile   `json:"hostile"`
	Streams []zzvStreamVec `json:"streams"`
}

// ---------------------------------------------------------------------------------------------- content stream

// zzvStream yields the content bytes of a message; all bytes are non-zero (the spec's run class "x").
type zzvStream struct{ r *mrand.Rand }

func zzvNewStream(seed int64) *zzvStream { return &zzvStream{r: mrand.New(mrand.NewSource(seed))} }
func (s *zzvStream) next() byte          { return byte(1 + s.r.Intn(255)) }
func (s *zzvStream) bytes(n int) []byte {
	b := make([]byte, n)
	for i := range b {
		b[i] = s.next()
	}
	return b
}
func (s *zzvStream) u8() uint8        { return s.next() }
func (s *zzvStream) u16() uint16      { return binary.BigEndian.Uint16(s.bytes(2)) }
func (s *zzvStream) u64() uint64      { return binary.BigEndian.Uint64(s.bytes(8)) }
func (s *zzvStream) flag() bool       { return s.next()&1 == 1 }
func (s *zzvStream) str(n int) string { return string(s.bytes(n)) }
func (s *zzvStream) id() identity.AgentID {
	var id identity.AgentID
	copy(id[:], s.bytes(16))
	return id
}
func (s *zzvStream) key() [EphemeralKeySize]byte {
	var k [EphemeralKeySize]byte
	copy(k[:], s.bytes(EphemeralKeySize))
	return k
}

// skeleton accessors (JSON: numbers are float64, sequences []any, records map[string]any)
func skInt(v any) int            { return int(v.(float64)) }
func skSeq(v any) []any          { return v.([]any) }
func skRec(v any) map[string]any { return v.(map[string]any) }
func skList(v any) (int, []any) {
	m := skRec(v)
	return skInt(m["c"]), skSeq(m["e"])
}
func skUnion(v any) (int, []any) {
	m := skRec(v)
	return skInt(m["tag"]), skSeq(m["val"])
}

func (s *zzvStream) ids(sk any) []identity.AgentID {
	n, _ := skList(sk)
	out := make([]identity.AgentID, n)
	for i := range out {
		out[i] = s.id()
	}
	return out
}

func (s *zzvStream) strs(sk any) []string {
	n, e := skList(sk)
	out := make([]string, n)
	for i := range out {
		out[i] = s.str(skInt(e[0]))
	}
	return out
}

// domain-style address / prefix: [len][bytes]
func (s *zzvStream) lenPrefixed(n int) []byte {
	return append([]byte{byte(n)}, s.bytes(n)...)
}

func (s *zzvStream) addr(sk any) (uint8, []byte) {
	tag, val := skUnion(sk)
	switch tag {
	case 1:
		return AddrTypeIPv4, s.bytes(4)
	case 4:
		return AddrTypeIPv6, s.bytes(16)
	case 3:
		return AddrTypeDomain, s.lenPrefixed(skInt(val[0]))
	case 0:
		return 0, []byte{}
	}
	panic(fmt.Sprintf("zzv: unknown address tag %d", tag))
}

// ---------------------------------------------------------------------------------------------- builders (wire order)

func zzvBuildOpen(sk []any, s *zzvStream) (uint64, uint8, []byte, uint16, uint8, []identity.AgentID, [EphemeralKeySize]byte) {
	rid := s.u64()
	at, a := s.addr(sk[1])
	port := s.u16()
	ttl := s.u8()
	path := s.ids(sk[4])
	key := s.key()
	return rid, at, a, port, ttl, path, key
}

func zzvBuildRoute(e []any, s *zzvStream) Route {
	tag, val := skUnion(e[0])
	r := Route{AddressFamily: uint8(tag)}
	r.PrefixLength = s.u8()
	switch tag {
	case 1:
		r.Prefix = s.bytes(4)
	case 2, 5:
		r.Prefix = s.bytes(16)
	case 3:
		r.Prefix = s.lenPrefixed(skInt(val[1]))
	case 4:
		r.Prefix = append(s.lenPrefixed(skInt(val[1])), s.lenPrefixed(skInt(val[2]))...)
	default:
		panic("zzv: route family")
	}
	r.Metric = s.u16()
	return r
}

func zzvBuildRoutes(sk any, s *zzvStream) []Route {
	n, e := skList(sk)
	out := make([]Route, n)
	for i := range out {
		out[i] = zzvBuildRoute(e, s)
	}
	return out
}

func zzvBuildRouteAdvertise(sk []any, s *zzvStream) *RouteAdvertise {
	ra := &RouteAdvertise{}
	ra.OriginAgent = s.id()
	ra.OriginDisplayName = s.str(skInt(sk[1]))
	ra.Sequence = s.u64()
	ra.Routes = zzvBuildRoutes(sk[3], s)
	tag, val := skUnion(sk[4])
	if tag == 1 {
		ra.EncPath = &EncryptedData{Encrypted: true, Data: s.bytes(skInt(val[0]))}
	} else {
		ra.Path = s.ids(skSeq(val[0])[0]) // val = << Path skeleton >>, Path = << ids >>
	}
	ra.SeenBy = s.ids(sk[5])
	return ra
}

func zzvBuildRouteWithdraw(sk []any, s *zzvStream) *RouteWithdraw {
	rw := &RouteWithdraw{}
	rw.OriginAgent = s.id()
	rw.Sequence = s.u64()
	rw.Routes = zzvBuildRoutes(sk[2], s)
	rw.SeenBy = s.ids(sk[3])
	return rw
}

func zzvBuildNodeInfo(sk []any, s *zzvStream) NodeInfo {
	var n NodeInfo
	n.DisplayName = s.str(skInt(sk[0]))
	n.Hostname = s.str(skInt(sk[1]))
	n.OS = s.str(skInt(sk[2]))
	n.Arch = s.str(skInt(sk[3]))
	n.Version = s.str(skInt(sk[4]))
	n.StartTime = int64(s.u64())
	n.IPAddresses = s.strs(sk[6])
	np, pe := skList(sk[7])
	n.Peers = make([]PeerConnectionInfo, np)
	for i := range n.Peers {
		copy(n.Peers[i].PeerID[:], s.bytes(16))
		n.Peers[i].Transport = s.str(skInt(pe[1]))
		n.Peers[i].RTTMs = int64(s.u64())
		n.Peers[i].IsDialer = s.flag()
	}
	n.PublicKey = s.key()
	// the remaining fields were appended in later protocol versions; a legacy skeleton ends before some of them
	if len(sk) > 9 {
		n.UDPEnabled = s.flag()
	}
	if len(sk) > 10 {
		nl, le := skList(sk[10])
		n.ForwardListeners = make([]ForwardListenerInfo, nl)
		for i := range n.ForwardListeners {
			n.ForwardListeners[i].Key = s.str(skInt(le[0]))
			n.ForwardListeners[i].Address = s.str(skInt(le[1]))
		}
	}
	if len(sk) > 11 {
		n.Shells = s.strs(sk[11])
	}
	if len(sk) > 12 {
		n.FileTransferEnabled = s.flag()
	}
	if len(sk) > 13 {
		n.ShellEnabled = s.flag()
	}
	if len(sk) > 14 {
		n.IcmpEnabled = s.flag()
	}
	return n
}

func zzvBuildNodeInfoAdvertise(sk []any, s *zzvStream) *NodeInfoAdvertise {
	n := &NodeInfoAdvertise{}
	n.OriginAgent = s.id()
	n.Sequence = s.u64()
	tag, val := skUnion(sk[2])
	if tag == 1 {
		n.EncInfo = &EncryptedData{Encrypted: true, Data: s.bytes(skInt(val[0]))}
	} else {
		n.Info = zzvBuildNodeInfo(skSeq(val[0]), s)
	}
	n.SeenBy = s.ids(sk[3])
	return n
}

func zzvBuildCmd(sk []any, s *zzvStream) (identity.AgentID, uint64, uint64, [SignatureSize]byte, []identity.AgentID) {
	origin := s.id()
	id := s.u64()
	ts := s.u64()
	var sig [SignatureSize]byte
	if sk[3].(string) == "x" {
		copy(sig[:], s.bytes(SignatureSize))
	}
	return origin, id, ts, sig, s.ids(sk[4])
}

func zzvBuildErr(sk []any, s *zzvStream) (uint64, uint16, string) {
	return s.u64(), s.u16(), s.str(skInt(sk[2]))
}

func zzvData(s *zzvStream, n int) []byte {
	if n == 0 {
		return nil
	}
	return s.bytes(n)
}

type zzvCodec struct {
	build func(sk []any, s *zzvStream) any
	enc   func(m any) []byte
	dec   func(b []byte) (any, error)
}

var zzvCodecs = map[string]zzvCodec{
	"Frame": {
		build: func(sk []any, s *zzvStream) any {
			f := &Frame{Type: s.u8(), Flags: s.u8()}
			f.StreamID = s.u64()
			f.Payload = s.bytes(skInt(sk[2]))
			return f
		},
		enc: func(m any) []byte {
			b, err := m.(*Frame).Encode()
			if err != nil {
				panic(err)
			}
			return b
		},
		dec: func(b []byte) (any, error) { return zzvNil(Decode(b)) },
	},
	"PeerHello": {
		build: func(sk []any, s *zzvStream) any {
			p := &PeerHello{Version: s.u16(), AgentID: s.id(), Timestamp: s.u64()}
			p.DisplayName = s.str(skInt(sk[3]))
			p.Capabilities = s.strs(sk[4])
			return p
		},
		enc: func(m any) []byte { return m.(*PeerHello).Encode() },
		dec: func(b []byte) (any, error) { return zzvNil(DecodePeerHello(b)) },
	},
	"StreamOpen": {
		build: func(sk []any, s *zzvStream) any {
			rid, at, a, port, ttl, path, key := zzvBuildOpen(sk, s)
			return &StreamOpen{RequestID: rid, AddressType: at, Address: a, Port: port, TTL: ttl, RemainingPath: path, EphemeralPubKey: key}
		},
		enc: func(m any) []byte { return m.(*StreamOpen).Encode() },
		dec: func(b []byte) (any, error) { return zzvNil(DecodeStreamOpen(b)) },
	},
	"UDPOpen": {
		build: func(sk []any, s *zzvStream) any {
			rid, at, a, port, ttl, path, key := zzvBuildOpen(sk, s)
			return &UDPOpen{RequestID: rid, AddressType: at, Address: a, Port: port, TTL: ttl, RemainingPath: path, EphemeralPubKey: key}
		},
		enc: func(m any) []byte { return m.(*UDPOpen).Encode() },
		dec: func(b []byte) (any, error) { return zzvNil(DecodeUDPOpen(b)) },
	},
	"StreamOpenAck": {
		build: func(sk []any, s *zzvStream) any {
			a := &StreamOpenAck{RequestID: s.u64()}
			a.BoundAddrType, a.BoundAddr = s.addr(sk[1])
			a.BoundPort = s.u16()
			a.EphemeralPubKey = s.key()
			return a
		},
		enc: func(m any) []byte { return m.(*StreamOpenAck).Encode() },
		dec: func(b []byte) (any, error) { return zzvNil(DecodeStreamOpenAck(b)) },
	},
	"UDPOpenAck": {
		build: func(sk []any, s *zzvStream) any {
			a := &UDPOpenAck{RequestID: s.u64()}
			a.BoundAddrType, a.BoundAddr = s.addr(sk[1])
			a.BoundPort = s.u16()
			a.EphemeralPubKey = s.key()
			return a
		},
		enc: func(m any) []byte { return m.(*UDPOpenAck).Encode() },
		dec: func(b []byte) (any, error) { return zzvNil(DecodeUDPOpenAck(b)) },
	},
	"StreamOpenErr": {
		build: func(sk []any, s *zzvStream) any {
			id, code, msg := zzvBuildErr(sk, s)
			return &StreamOpenErr{RequestID: id, ErrorCode: code, Message: msg}
		},
		enc: func(m any) []byte { return m.(*StreamOpenErr).Encode() },
		dec: func(b []byte) (any, error) { return zzvNil(DecodeStreamOpenErr(b)) },
	},
	"UDPOpenErr": {
		build: func(sk []any, s *zzvStream) any {
			id, code, msg := zzvBuildErr(sk, s)
			return &UDPOpenErr{RequestID: id, ErrorCode: code, Message: msg}
		},
		enc: func(m any) []byte { return m.(*UDPOpenErr).Encode() },
		dec: func(b []byte) (any, error) { return zzvNil(DecodeUDPOpenErr(b)) },
	},
	"ICMPOpenErr": {
		build: func(sk []any, s *zzvStream) any {
			id, code, msg := zzvBuildErr(sk, s)
			return &ICMPOpenErr{RequestID: id, ErrorCode: code, Message: msg}
		},
		enc: func(m any) []byte { return m.(*ICMPOpenErr).Encode() },
		dec: func(b []byte) (any, error) { return zzvNil(DecodeICMPOpenErr(b)) },
	},
	"StreamReset": {
		build: func(sk []any, s *zzvStream) any { return &StreamReset{ErrorCode: s.u16()} },
		enc:   func(m any) []byte { return m.(*StreamReset).Encode() },
		dec:   func(b []byte) (any, error) { return zzvNil(DecodeStreamReset(b)) },
	},
	"Keepalive": {
		build: func(sk []any, s *zzvStream) any { return &Keepalive{Timestamp: s.u64()} },
		enc:   func(m any) []byte { return m.(*Keepalive).Encode() },
		dec:   func(b []byte) (any, error) { return zzvNil(DecodeKeepalive(b)) },
	},
	"RouteAdvertise": {
		build: func(sk []any, s *zzvStream) any { return zzvBuildRouteAdvertise(sk, s) },
		enc:   func(m any) []byte { return m.(*RouteAdvertise).Encode() },
		dec:   func(b []byte) (any, error) { return zzvNil(DecodeRouteAdvertise(b)) },
	},
	"RouteWithdraw": {
		build: func(sk []any, s *zzvStream) any { return zzvBuildRouteWithdraw(sk, s) },
		enc:   func(m any) []byte { return m.(*RouteWithdraw).Encode() },
		dec:   func(b []byte) (any, error) { return zzvNil(DecodeRouteWithdraw(b)) },
	},
	"NodeInfoAdvertise": {
		build: func(sk []any, s *zzvStream) any { return zzvBuildNodeInfoAdvertise(sk, s) },
		enc:   func(m any) []byte { return m.(*NodeInfoAdvertise).Encode() },
		dec:   func(b []byte) (any, error) { return zzvNil(DecodeNodeInfoAdvertise(b)) },
	},
	"ControlRequest": {
		build: func(sk []any, s *zzvStream) any {
			c := &ControlRequest{RequestID: s.u64(), ControlType: s.u8(), TargetAgent: s.id()}
			c.Path = s.ids(sk[3])
			c.Data = zzvData(s, skInt(sk[4]))
			return c
		},
		enc: func(m any) []byte { return m.(*ControlRequest).Encode() },
		dec: func(b []byte) (any, error) { return zzvNil(DecodeControlRequest(b)) },
	},
	"ControlResponse": {
		build: func(sk []any, s *zzvStream) any {
			c := &ControlResponse{RequestID: s.u64(), ControlType: s.u8(), Success: s.flag()}
			c.Data = zzvData(s, skInt(sk[3]))
			return c
		},
		enc: func(m any) []byte { return m.(*ControlResponse).Encode() },
		dec: func(b []byte) (any, error) { return zzvNil(DecodeControlResponse(b)) },
	},
	"UDPDatagram": {
		build: func(sk []any, s *zzvStream) any {
			u := &UDPDatagram{}
			u.AddressType, u.Address = s.addr(sk[0])
			u.Port = s.u16()
			u.Data = zzvData(s, skInt(sk[2]))
			return u
		},
		enc: func(m any) []byte { return m.(*UDPDatagram).Encode() },
		dec: func(b []byte) (any, error) { return zzvNil(DecodeUDPDatagram(b)) },
	},
	"UDPClose": {
		build: func(sk []any, s *zzvStream) any { return &UDPClose{Reason: s.u8()} },
		enc:   func(m any) []byte { return m.(*UDPClose).Encode() },
		dec:   func(b []byte) (any, error) { return zzvNil(DecodeUDPClose(b)) },
	},
	"ICMPClose": {
		build: func(sk []any, s *zzvStream) any { return &ICMPClose{Reason: s.u8()} },
		enc:   func(m any) []byte { return m.(*ICMPClose).Encode() },
		dec:   func(b []byte) (any, error) { return zzvNil(DecodeICMPClose(b)) },
	},
	"ICMPOpen": {
		build: func(sk []any, s *zzvStream) any {
			i := &ICMPOpen{RequestID: s.u64()}
			i.DestIP = s.bytes(skInt(sk[1]))
			i.TTL = s.u8()
			i.RemainingPath = s.ids(sk[3])
			i.EphemeralPubKey = s.key()
			return i
		},
		enc: func(m any) []byte { return m.(*ICMPOpen).Encode() },
		dec: func(b []byte) (any, error) { return zzvNil(DecodeICMPOpen(b)) },
	},
	"ICMPOpenAck": {
		build: func(sk []any, s *zzvStream) any { return &ICMPOpenAck{RequestID: s.u64(), EphemeralPubKey: s.key()} },
		enc:   func(m any) []byte { return m.(*ICMPOpenAck).Encode() },
		dec:   func(b []byte) (any, error) { return zzvNil(DecodeICMPOpenAck(b)) },
	},
	"ICMPEcho": {
		build: func(sk []any, s *zzvStream) any {
			e := &ICMPEcho{Identifier: s.u16(), Sequence: s.u16(), IsReply: s.flag()}
			e.SrcIP = zzvData(s, skInt(sk[3]))
			e.Data = zzvData(s, skInt(sk[4]))
			return e
		},
		enc: func(m any) []byte { return m.(*ICMPEcho).Encode() },
		dec: func(b []byte) (any, error) { return zzvNil(DecodeICMPEcho(b)) },
	},
	"SleepCommand": {
		build: func(sk []any, s *zzvStream) any {
			o, id, ts, sig, seen := zzvBuildCmd(sk, s)
			return &SleepCommand{OriginAgent: o, CommandID: id, Timestamp: ts, Signature: sig, SeenBy: seen}
		},
		enc: func(m any) []byte { return m.(*SleepCommand).Encode() },
		dec: func(b []byte) (any, error) { return zzvNil(DecodeSleepCommand(b)) },
	},
	"WakeCommand": {
		build: func(sk []any, s *zzvStream) any {
			o, id, ts, sig, seen := zzvBuildCmd(sk, s)
			return &WakeCommand{OriginAgent: o, CommandID: id, Timestamp: ts, Signature: sig, SeenBy: seen}
		},
		enc: func(m any) []byte { return m.(*WakeCommand).Encode() },
		dec: func(b []byte) (any, error) { return zzvNil(DecodeWakeCommand(b)) },
	},
	"QueuedState": {
		build: func(sk []any, s *zzvStream) any {
			q := &QueuedState{}
			n, e := skList(sk[0])
			q.Routes = make([]RouteAdvertise, n)
			for i := range q.Routes {
				q.Routes[i] = *zzvBuildRouteAdvertise(skSeq(e[0]), s)
			}
			n, e = skList(sk[1])
			q.Withdraws = make([]RouteWithdraw, n)
			for i := range q.Withdraws {
				q.Withdraws[i] = *zzvBuildRouteWithdraw(skSeq(e[0]), s)
			}
			n, e = skList(sk[2])
			q.NodeInfos = make([]NodeInfoAdvertise, n)
			for i := range q.NodeInfos {
				q.NodeInfos[i] = *zzvBuildNodeInfoAdvertise(skSeq(e[0]), s)
			}
			if c := skSeq(sk[3]); len(c) == 1 {
				o, id, ts, sig, seen := zzvBuildCmd(skSeq(c[0]), s)
				q.SleepCmd = &SleepCommand{OriginAgent: o, CommandID: id, Timestamp: ts, Signature: sig, SeenBy: seen}
			}
			if c := skSeq(sk[4]); len(c) == 1 {
				o, id, ts, sig, seen := zzvBuildCmd(skSeq(c[0]), s)
				q.WakeCmd = &WakeCommand{OriginAgent: o, CommandID: id, Timestamp: ts, Signature: sig, SeenBy: seen}
			}
			return q
		},
		enc: func(m any) []byte { return m.(*QueuedState).Encode() },
		dec: func(b []byte) (any, error) { return zzvNil(DecodeQueuedState(b)) },
	},
}

// zzvNil turns a typed nil pointer with an error into (nil, err) and keeps the message otherwise.
func zzvNil[T any](p *T, err error) (any, error) {
	if err != nil {
		return nil, err
	}
	if p == nil {
		return nil, fmt.Errorf("zzv: decoder returned nil without error")
	}
	return p, nil
}

// ---------------------------------------------------------------------------------------------- equivalence

// zzvNormalize returns a canonical rendering of a message: nil and empty slices are the same; a route / node
// info advertisement without explicit EncryptedData wrapper equals the one whose wrapper holds the plaintext
// encoding (that is what Decode always produces).
func zzvNormalize(m any) string {
	switch x := m.(type) {
	case *RouteAdvertise:
		c := *x
		zzvNormRA(&c)
		return zzvCanon(reflect.ValueOf(c))
	case *NodeInfoAdvertise:
		c := *x
		zzvNormNIA(&c)
		return zzvCanon(reflect.ValueOf(c))
	case *QueuedState:
		c := *x
		c.Routes = append([]RouteAdvertise(nil), x.Routes...)
		for i := range c.Routes {
			zzvNormRA(&c.Routes[i])
		}
		c.NodeInfos = append([]NodeInfoAdvertise(nil), x.NodeInfos...)
		for i := range c.NodeInfos {
			zzvNormNIA(&c.NodeInfos[i])
		}
		return zzvCanon(reflect.ValueOf(c))
	}
	return zzvCanon(reflect.ValueOf(m))
}

func zzvNormRA(r *RouteAdvertise) {
	if r.EncPath == nil {
		r.EncPath = &EncryptedData{Encrypted: false, Data: EncodePath(r.Path)}
	}
}

func zzvNormNIA(n *NodeInfoAdvertise) {
	if n.EncInfo == nil {
		n.EncInfo = &EncryptedData{Encrypted: false, Data: EncodeNodeInfo(&n.Info)}
	}
}

func zzvCanon(v reflect.Value) string {
	var b bytes.Buffer
	zzvCanonTo(&b, v)
	return b.String()
}

func zzvCanonTo(b *bytes.Buffer, v reflect.Value) {
	switch v.Kind() {
	case reflect.Ptr, reflect.Interface:
		if v.IsNil() {
			b.WriteString("nil")
			return
		}
		b.WriteString("&")
		zzvCanonTo(b, v.Elem())
	case reflect.Struct:
		b.WriteString("{")
		for i := 0; i < v.NumField(); i++ {
			b.WriteString(v.Type().Field(i).Name + ":")
			zzvCanonTo(b, v.Field(i))
			b.WriteString(" ")
		}
		b.WriteString("}")
	case reflect.Slice, reflect.Array:
		if v.Type().Elem().Kind() == reflect.Uint8 {
			bs := make([]byte, v.Len())
			for i := range bs {
				bs[i] = byte(v.Index(i).Uint())
			}
			b.WriteString("h'" + hex.EncodeToString(bs) + "'")
			return
		}
		b.WriteString("[")
		for i := 0; i < v.Len(); i++ {
			zzvCanonTo(b, v.Index(i))
			b.WriteString(",")
		}
		b.WriteString("]")
	case reflect.String:
		b.WriteString("s'" + hex.EncodeToString([]byte(v.String())) + "'")
	default:
		fmt.Fprintf(b, "%v", v.Interface())
	}
}

// ---------------------------------------------------------------------------------------------- measured calls

const zzvAllocConst = 1 << 20
const zzvAllocPerByte = 64

func zzvAllocBound(n int) uint64 { return zzvAllocConst + zzvAllocPerByte*uint64(n) }

type zzvOutcome struct {
	msg    any
	err    error
	panicv any
	alloc  uint64
}

var zzvConfirmed, zzvUnconfirmed int

var zzvHeapSample = []metrics.Sample{{Name: "/gc/heap/allocs:bytes"}}

// cumulative bytes allocated on the heap, without stopping the world (large objects are accounted
// immediately, small ones when their span is refilled)
func zzvHeapAllocs() uint64 {
	metrics.Read(zzvHeapSample)
	return zzvHeapSample[0].Value.Uint64()
}

// zzvDecode runs a decoder under recover; with measure it reports the bytes allocated during the call
// (single goroutine).  Fast measurement with runtime/metrics; a value above the bound is confirmed with
// the exact runtime.MemStats.TotalAlloc (minimum of repeated calls) before it can become a verdict.
func zzvDecode(c zzvCodec, in []byte, measure bool) (o zzvOutcome) {
	defer func() {
		if r := recover(); r != nil {
			o.panicv = r
		}
	}()
	var a uint64
	if measure {
		a = zzvHeapAllocs()
	}
	o.msg, o.err = c.dec(in)
	if measure {
		o.alloc = zzvHeapAllocs() - a
		// the fast metric may lag by the partly used spans of the small size classes: confirm from half the constant on
		if o.alloc+zzvAllocConst/2 > zzvAllocBound(len(in)) {
			if zzvConfirmed < 40 { // enough confirmed examples; further ones are counted unconfirmed and not reported
				zzvConfirmed++
				o.alloc = zzvExactAlloc(c, in)
			} else if o.alloc > zzvAllocBound(len(in)) {
				zzvUnconfirmed++
				o.alloc = 0
			}
		}
	}
	return o
}

func zzvExactAlloc(c zzvCodec, in []byte) uint64 {
	min := ^uint64(0)
	for i := 0; i < 3; i++ {
		func() {
			defer func() { recover() }()
			var a, b runtime.MemStats
			runtime.ReadMemStats(&a)
			c.dec(in)
			runtime.ReadMemStats(&b)
			if d := b.TotalAlloc - a.TotalAlloc; d < min {
				min = d
			}
		}()
	}
	return min
}

func zzvEncode(c zzvCodec, m any) (out []byte, panicv any) {
	defer func() {
		if r := recover(); r != nil {
			panicv = r
		}
	}()
	return c.enc(m), nil
}

func zzvHex(b []byte) string {
	if len(b) <= 160 {
		return hex.EncodeToString(b)
	}
	return hex.EncodeToString(b[:96]) + "..." + hex.EncodeToString(b[len(b)-32:])
}

type zzvStats struct {
	evals, accepted, measured int
	streamEvals               int
	distinct                  map[[32]byte]struct{}
	viol                      map[string]int
	maxAlloc                  uint64
	maxAllocTy                string
}

func (st *zzvStats) report(cls, ty, what string, in []byte, extra map[string]any) {
	key := cls + "/" + ty + "/" + what
	st.viol[key]++
	if st.viol[key] > 3 { // a few examples per class are enough
		return
	}
	rec := map[string]any{"cls": cls, "ty": ty, "what": what, "len": len(in), "input": zzvHex(in)}
	for k, v := range extra {
		rec[k] = v
	}
	zzvEmit("viol", rec)
}

// the streaming decode path of a frame: FrameReader.Read over the bytes (EOF where the input ends)
var zzvStreamCodec = zzvCodec{
	enc: func(m any) []byte {
		var buf bytes.Buffer
		if err := NewFrameWriter(&buf).Write(m.(*Frame)); err != nil {
			panic(err)
		}
		return buf.Bytes()
	},
	dec: func(b []byte) (any, error) { return zzvNil(NewFrameReader(bytes.NewReader(b)).Read()) },
}

// after a few violations of the streaming path it is no longer exercised (a reader that allocates what a
// hostile header claims would otherwise allocate gigabytes for every random input)
var zzvStreamViol int

// zzvFramePaths offers the same bytes to FrameReader.Read; slice is the outcome of Decode on them.  Both paths
// must agree on accept / reject and on the frame, the streaming path must not panic and must stay within the
// allocation bound, also when the reader delivers one byte per Read call.
func zzvFramePaths(st *zzvStats, in []byte, slice zzvOutcome, measure bool, origin string) {
	if zzvStreamViol >= 3 {
		return
	}
	st.streamEvals++
	o := zzvDecode(zzvStreamCodec, in, measure)
	bad := func(what string, extra map[string]any) {
		zzvStreamViol++
		if extra == nil {
			extra = map[string]any{}
		}
		extra["origin"] = origin
		extra["path"] = "FrameReader.Read"
		if len(in) >= HeaderSize {
			extra["claimed_length"] = binary.BigEndian.Uint32(in[2:6])
		}
		st.report("stream", "Frame", what, in, extra)
	}
	if measure && o.alloc > zzvAllocBound(len(in)) {
		bad("allocation out of proportion", map[string]any{"alloc": o.alloc, "bound": zzvAllocBound(len(in))})
		return
	}
	if o.panicv != nil {
		bad(fmt.Sprintf("FrameReader.Read panics: %v", o.panicv), nil)
		return
	}
	if slice.panicv != nil {
		return // reported by the caller
	}
	if (o.err == nil) != (slice.err == nil) {
		bad(fmt.Sprintf("decode paths disagree: Decode(slice) err=%v, FrameReader.Read err=%v", slice.err, o.err), nil)
		return
	}
	if o.err == nil {
		if zzvNormalize(o.msg) != zzvNormalize(slice.msg) {
			bad("decode paths return different frames", nil)
			return
		}
		// the writer side: FrameWriter.Write and WriteFrame produce exactly Frame.Encode
		f := o.msg.(*Frame)
		e1, _ := f.Encode()
		var b2 bytes.Buffer
		err2 := NewFrameWriter(&b2).WriteFrame(f.Type, f.Flags, f.StreamID, f.Payload)
		if e3, pv := zzvEncode(zzvStreamCodec, f); pv != nil || err2 != nil || !bytes.Equal(e1, e3) || !bytes.Equal(e1, b2.Bytes()) {
			bad(fmt.Sprintf("FrameWriter.Write / WriteFrame differ from Frame.Encode (panic=%v err=%v)", pv, err2), nil)
			return
		}
	}
	// the same bytes, one byte per Read call
	if len(in) <= 600 || st.streamEvals%16 == 0 {
		var o1 zzvOutcome
		func() {
			defer func() {
				if r := recover(); r != nil {
					o1.panicv = r
				}
			}()
			o1.msg, o1.err = zzvNil(NewFrameReader(iotest.OneByteReader(bytes.NewReader(in))).Read())
		}()
		if o1.panicv != nil || (o1.err == nil) != (o.err == nil) || (o.err == nil && zzvNormalize(o1.msg) != zzvNormalize(o.msg)) {
			bad(fmt.Sprintf("FrameReader.Read depends on how the stream is chunked (whole: err=%v, byte-wise: err=%v panic=%v)", o.err, o1.err, o1.panicv), nil)
		}
	}
}

// zzvHostileInput checks the second and third sentence of the property on one arbitrary input.
func zzvHostileInput(st *zzvStats, ty string, c zzvCodec, in []byte, measure bool, origin string) {
	st.evals++
	o := zzvDecode(c, in, measure)
	if ty == "Frame" {
		zzvFramePaths(st, in, o, measure, origin)
	}
	if measure {
		st.measured++
		if o.alloc > st.maxAlloc {
			st.maxAlloc, st.maxAllocTy = o.alloc, ty
		}
		if o.alloc > zzvAllocBound(len(in)) {
			st.report("alloc", ty, "allocation out of proportion", in,
				map[string]any{"alloc": o.alloc, "bound": zzvAllocBound(len(in)), "origin": origin})
		}
	}
	if o.panicv != nil {
		st.report("panic", ty, fmt.Sprintf("decoder panics: %v", o.panicv), in, map[string]any{"origin": origin})
		return
	}
	if o.err != nil {
		return
	}
	st.accepted++
	h := sha256.Sum256(append([]byte(ty+"\x00"), in...))
	st.distinct[h] = struct{}{}
	e1, pv := zzvEncode(c, o.msg)
	if pv != nil {
		st.report("reencode", ty, fmt.Sprintf("re-encoding the decoded message panics: %v", pv), in, map[string]any{"origin": origin})
		return
	}
	o2 := zzvDecode(c, e1, false)
	if o2.panicv != nil || o2.err != nil {
		st.report("reencode", ty, fmt.Sprintf("decoded message re-encodes to bytes the decoder rejects: %v%v", o2.err, o2.panicv),
			in, map[string]any{"origin": origin, "reencoded": zzvHex(e1)})
		return
	}
	if !reflect.DeepEqual(o.msg, o2.msg) && zzvNormalize(o.msg) != zzvNormalize(o2.msg) {
		st.report("reencode", ty, "decoded message re-encodes to a different message", in,
			map[string]any{"origin": origin, "reencoded": zzvHex(e1)})
	}
}

// concretise the spec layout with the content stream
func zzvConcretise(runs []zzvRun, s *zzvStream) ([]byte, []int) {
	var out []byte
	var cells []int // indexes of structural runs: offsets
	for _, r := range runs {
		switch r.C {
		case "n":
			cells = append(cells, len(out))
			for i := r.N - 1; i >= 0; i-- {
				out = append(out, byte(uint64(r.V)>>(8*uint(i))))
			}
		case "u", "x":
			out = append(out, s.bytes(r.N)...)
		case "b":
			out = append(out, s.next()&1)
		case "z":
			out = append(out, make([]byte, r.N)...)
		default:
			panic("zzv: run class " + r.C)
		}
	}
	return out, cells
}

func zzvPut(b []byte, off, w int, v uint64) {
	for i := 0; i < w; i++ {
		b[off+w-1-i] = byte(v >> (8 * uint(i)))
	}
}

func zzvWakeOutcome(orig, got *QueuedState) string {
	if got.WakeCmd == nil {
		return "wake-lost"
	}
	if orig.WakeCmd != nil && zzvNormalize(orig.WakeCmd) == zzvNormalize(got.WakeCmd) {
		return "wake-same"
	}
	return "wake-garbled"
}

func TestZZVCodec(t *testing.T) {
	var in zzvCodecIn
	zzvLoad(t, "ZZV_IN", &in)
	seed := zzvSeed()
	rng := mrand.New(mrand.NewSource(seed*7919 + 17))
	st := &zzvStats{distinct: map[[32]byte]struct{}{}, viol: map[string]int{}}
	nMut := zzvEnvInt("ZZV_MUT", 40)                // random mutations per shape
	nRand := zzvEnvInt("ZZV_RAND", 400)             // random inputs per decoder
	fullPrefix := zzvEnvInt("ZZV_PREFIX_FULL", 160) // encodings up to this length: every strict prefix
	samplePrefix := zzvEnvInt("ZZV_PREFIX_SAMPLE", 40)

	zzvEmit("sizes", map[string]any{"elem": []int{int(unsafe.Sizeof(RouteAdvertise{})), int(unsafe.Sizeof(RouteWithdraw{})),
		int(unsafe.Sizeof(NodeInfoAdvertise{}))}})

	// ---- hostile frame headers through both decode paths (spec: Streams), smallest claimed length first
	frameCodec := zzvCodecs["Frame"]
	sort.SliceStable(in.Streams, func(i, j int) bool {
		return zzvClaims[in.Streams[i].H.Claim.C] < zzvClaims[in.Streams[j].H.Claim.C]
	})
	var streamRecs []map[string]any
	streamBind := 0
	allocBroken := false
	encChecked := map[string]bool{}
	for si, sv := range in.Streams {
		claim, ok := zzvClaims[sv.H.Claim.C]
		if !ok {
			t.Fatalf("zzv: unknown length class %q", sv.H.Claim.C)
		}
		sr := mrand.New(mrand.NewSource(seed*31 + int64(si)))
		hdr := make([]byte, HeaderSize)
		hdr[0], hdr[1] = byte(sr.Intn(256)), byte(sr.Intn(256))
		binary.BigEndian.PutUint32(hdr[2:6], claim)
		binary.BigEndian.PutUint64(hdr[6:14], sr.Uint64())
		input := append([]byte(nil), hdr[:sv.H.Hdr]...)
		pay := make([]byte, sv.AvailBytes)
		sr.Read(pay)
		input = append(input, pay...)
		st.evals++
		slice := zzvDecode(frameCodec, input, false)
		rec := map[string]any{"claim": sv.H.Claim.C, "hdr": sv.H.Hdr, "avail": sv.H.Avail, "bytes": len(input),
			"spec_slice": sv.Slice, "spec_stream": sv.Stream}
		res := func(o zzvOutcome) string {
			switch {
			case o.panicv != nil:
				return "panic"
			case o.err != nil:
				return "err"
			}
			return "ok"
		}
		rec["slice"] = res(slice)
		if slice.panicv != nil {
			st.report("panic", "Frame", fmt.Sprintf("Decode panics: %v", slice.panicv), input, map[string]any{"origin": "stream-vector"})
		}
		if allocBroken && claim > MaxPayloadSize {
			rec["stream"] = "skipped" // the reader already allocated what a smaller hostile header claimed
			streamRecs = append(streamRecs, rec)
			continue
		}
		// exact measurement around the FrameReader call
		var a, b runtime.MemStats
		var so zzvOutcome
		func() {
			defer func() {
				if r := recover(); r != nil {
					so.panicv = r
				}
			}()
			rd := NewFrameReader(bytes.NewReader(input))
			runtime.ReadMemStats(&a)
			so.msg, so.err = zzvNil(rd.Read())
			runtime.ReadMemStats(&b)
			so.alloc = b.TotalAlloc - a.TotalAlloc
		}()
		st.streamEvals++
		rec["stream"], rec["alloc"] = res(so), so.alloc
		streamRecs = append(streamRecs, rec)
		extra := map[string]any{"origin": "stream-vector", "path": "FrameReader.Read", "claimed_length": claim,
			"header_bytes": sv.H.Hdr, "payload_bytes": sv.AvailBytes}
		switch {
		case so.panicv != nil:
			zzvStreamViol++
			st.report("stream", "Frame", fmt.Sprintf("FrameReader.Read panics: %v", so.panicv), input, extra)
		case so.alloc > zzvAllocBound(len(input)):
			zzvStreamViol++
			allocBroken = true
			extra["alloc"], extra["bound"] = so.alloc, zzvAllocBound(len(input))
			st.report("stream", "Frame", "allocation out of proportion", input, extra)
		case res(so) != res(slice):
			zzvStreamViol++
			st.report("stream", "Frame", fmt.Sprintf("decode paths disagree: Decode(slice) err=%v, FrameReader.Read err=%v", slice.err, so.err), input, extra)
		case so.err == nil && zzvNormalize(so.msg) != zzvNormalize(slice.msg):
			zzvStreamViol++
			st.report("stream", "Frame", "decode paths return different frames", input, extra)
		default:
			// binding: both real paths behave as the transcription says
			if res(slice) != sv.Slice || res(so) != sv.Stream {
				streamBind++
				if streamBind <= 3 {
					zzvEmit("streambind", rec)
				}
			}
		}
		// encoder side, once per length class a test can materialise
		if !encChecked[sv.H.Claim.C] && claim <= MaxPayloadSize+1 {
			encChecked[sv.H.Claim.C] = true
			f := &Frame{Type: hdr[0], Flags: hdr[1], StreamID: binary.BigEndian.Uint64(hdr[6:14]), Payload: make([]byte, claim)}
			_, e1 := f.Encode()
			var w1, w2 bytes.Buffer
			e2 := NewFrameWriter(&w1).Write(f)
			e3 := NewFrameWriter(&w2).WriteFrame(f.Type, f.Flags, f.StreamID, f.Payload)
			okAll := e1 == nil && e2 == nil && e3 == nil
			noneOK := e1 != nil && e2 != nil && e3 != nil && w1.Len() == 0 && w2.Len() == 0
			if (sv.EncodeOK && !okAll) || (!sv.EncodeOK && !noneOK) {
				st.report("stream", "Frame", fmt.Sprintf("encoders disagree with the maximum payload size: Encode err=%v Write err=%v WriteFrame err=%v (payload %d bytes)", e1, e2, e3, claim),
					nil, map[string]any{"origin": "stream-vector", "path": "FrameWriter"})
			}
		}
	}

	shapes, prefixes, cellmuts, bytemuts, bindErr, legacy, framed := 0, 0, 0, 0, 0, 0, 0
	perType := map[string]int{}
	var sample []map[string]any
	for vi, v := range in.Vecs {
		c, ok := zzvCodecs[v.Ty]
		if !ok {
			t.Fatalf("zzv: no codec for type %s", v.Ty)
		}
		shapes++
		perType[v.Ty]++
		st.evals++
		cseed := seed*1000003 + int64(vi)
		m := c.build(v.Sk, zzvNewStream(cseed))
		want, cells := zzvConcretise(v.Runs, zzvNewStream(cseed))
		enc, pv := zzvEncode(c, m)
		for variant := 3; v.Legacy && pv == nil && variant >= 0; variant-- {
			// the bytes under test are the spec's legacy layout; m (missing fields zero) is what must come out.
			// Several content streams, so that the flag bytes around the cut take both values.
			if variant > 0 {
				m = c.build(v.Sk, zzvNewStream(cseed+int64(variant)*7777))
				want, cells = zzvConcretise(v.Runs, zzvNewStream(cseed+int64(variant)*7777))
			} else {
				m = c.build(v.Sk, zzvNewStream(cseed))
				want, cells = zzvConcretise(v.Runs, zzvNewStream(cseed))
				legacy++
			}
			st.evals++
			enc = want
			o := zzvDecode(c, enc, false)
			ok := o.panicv == nil && o.err == nil
			if ok {
				if dn, isN := o.msg.(*NodeInfoAdvertise); isN {
					mm := *m.(*NodeInfoAdvertise)
					mm.EncInfo = dn.EncInfo // raw input bytes of the wrapper; the decoded Info is what is compared
					ok = zzvNormalize(&mm) == zzvNormalize(dn)
				} else {
					ok = zzvNormalize(o.msg) == zzvNormalize(m)
				}
			}
			if !ok {
				st.report("roundtrip", v.Ty, fmt.Sprintf("legacy encoding not decoded to the message with zero-valued new fields (err=%v panic=%v)", o.err, o.panicv),
					enc, map[string]any{"vec": vi, "sk": v.Sk, "outcome": "legacy"})
			}
			m = nil
		}
		if pv != nil {
			st.report("roundtrip", v.Ty, fmt.Sprintf("Encode panics on a message within the wire limits: %v", pv), nil,
				map[string]any{"vec": vi, "sk": v.Sk})
			continue
		}
		// binding: the real encoder produces exactly the spec layout (reported below, with the round-trip result)
		bindOK := len(enc) == v.Len && bytes.Equal(enc, want)
		if m != nil {
			// verdict: lossless
			o := zzvDecode(c, enc, true)
			st.measured++
			if o.alloc > zzvAllocBound(len(enc)) {
				st.report("alloc", v.Ty, "allocation out of proportion", enc, map[string]any{"alloc": o.alloc, "origin": "valid"})
			}
			switch {
			case o.panicv != nil:
				st.report("roundtrip", v.Ty, fmt.Sprintf("decoder panics on a valid encoding: %v", o.panicv), enc, map[string]any{"vec": vi, "sk": v.Sk})
			case o.err != nil:
				st.report("roundtrip", v.Ty, "valid encoding rejected: "+o.err.Error(), enc, map[string]any{"vec": vi, "sk": v.Sk, "outcome": "error"})
			case zzvNormalize(o.msg) != zzvNormalize(m):
				extra := map[string]any{"vec": vi, "sk": v.Sk, "outcome": "differs"}
				if q, ok := m.(*QueuedState); ok {
					extra["outcome"] = zzvWakeOutcome(q, o.msg.(*QueuedState))
					extra["sleep_same"] = (q.SleepCmd == nil) == (o.msg.(*QueuedState).SleepCmd == nil) &&
						(q.SleepCmd == nil || zzvNormalize(q.SleepCmd) == zzvNormalize(o.msg.(*QueuedState).SleepCmd))
				}
				st.report("roundtrip", v.Ty, "Decode(Encode(m)) differs from m", enc, extra)
			default:
				h := sha256.Sum256(append([]byte(v.Ty+"\x00"), enc...))
				st.distinct[h] = struct{}{}
				st.accepted++
				e2, pv2 := zzvEncode(c, o.msg)
				if pv2 != nil || !bytes.Equal(e2, enc) {
					st.report("roundtrip", v.Ty, "re-encoding the decoded message gives different bytes", enc, map[string]any{"vec": vi, "sk": v.Sk})
				}
			}
			if !bindOK {
				bindErr++
				if bindErr <= 5 {
					d := 0
					for d < len(enc) && d < len(want) && enc[d] == want[d] {
						d++
					}
					rtOK := o.panicv == nil && o.err == nil && zzvNormalize(o.msg) == zzvNormalize(m)
					zzvEmit("bind", map[string]any{"ty": v.Ty, "vec": vi, "sk": v.Sk, "speclen": v.Len, "reallen": len(enc),
						"firstdiff": d, "real": zzvHex(enc), "spec": zzvHex(want), "roundtrip_ok": rtOK})
				}
			}
		} // m != nil
		// the payload inside a frame, through both frame decode paths
		if v.Ty != "Frame" && len(enc) <= MaxPayloadSize {
			f := &Frame{Type: byte(rng.Intn(256)), Flags: byte(rng.Intn(4)), StreamID: rng.Uint64(), Payload: enc}
			fb, ferr := f.Encode()
			if ferr != nil {
				st.report("stream", "Frame", "Frame.Encode rejects a payload within the maximum: "+ferr.Error(), enc, nil)
			} else {
				framed++
				so := zzvDecode(frameCodec, fb, false)
				if so.err != nil || so.panicv != nil || !bytes.Equal(so.msg.(*Frame).Payload, enc) {
					st.report("roundtrip", "Frame", fmt.Sprintf("framed %s payload not returned by Decode (err=%v panic=%v)", v.Ty, so.err, so.panicv), fb, nil)
				}
				zzvFramePaths(st, fb, so, true, "framed-"+v.Ty)
			}
		}
		if len(sample) < 4 && (vi%97 == 3 || v.Ty == "QueuedState" && len(enc) > 200 && len(enc) < 400 && len(sample) < 2) {
			sample = append(sample, map[string]any{"ty": v.Ty, "sk": v.Sk, "len": len(enc), "bytes": zzvHex(enc)})
		}
		// strict prefixes
		if len(enc) <= fullPrefix {
			for k := 0; k < len(enc); k++ {
				zzvHostileInput(st, v.Ty, c, enc[:k], k%4 == 0, "prefix")
				prefixes++
			}
		} else {
			// every prefix ending at, one before and one after a structural cell, plus a seeded sample
			seen := map[int]bool{}
			try := func(k int) {
				if k >= 0 && k < len(enc) && !seen[k] {
					seen[k] = true
					zzvHostileInput(st, v.Ty, c, enc[:k], len(seen)%8 == 0, "prefix")
					prefixes++
				}
			}
			step := 1
			if maxc := zzvEnvInt("ZZV_PREFIX_CELLS", 60); len(cells) > maxc {
				step = len(cells) / maxc
			}
			for i := 0; i < len(cells); i += step {
				try(cells[i] - 1)
				try(cells[i])
				try(cells[i] + 1)
			}
			for i := 0; i < samplePrefix; i++ {
				try(rng.Intn(len(enc)))
			}
			try(len(enc) - 1)
		}
		// structural cells overwritten with boundary values
		ci := 0
		for _, r := range v.Runs {
			if r.C != "n" {
				continue
			}
			off := cells[ci]
			ci++
			if len(cells) > 40 && ci > 16 && ci < len(cells)-8 && rng.Intn(len(cells)/12+1) != 0 {
				continue // long lists: all cells near both ends, a seeded sample of the rest
			}
			max := uint64(1)<<(8*uint(r.N)) - 1
			vals := []uint64{0, 1, uint64(r.V) - 1, uint64(r.V) + 1, max}
			if zzvThorough() {
				vals = append(vals, uint64(r.V)*2, max-1, max/2, 0x80<<(8*uint(r.N-1)))
			}
			for _, nv := range vals {
				nv &= max
				if nv == uint64(r.V) {
					continue
				}
				mut := append([]byte(nil), enc...)
				zzvPut(mut, off, r.N, nv)
				zzvHostileInput(st, v.Ty, c, mut, true, "cell")
				cellmuts++
			}
		}
		// seeded byte mutations
		for i := 0; i < nMut && len(enc) > 0; i++ {
			mut := append([]byte(nil), enc...)
			switch rng.Intn(6) {
			case 0:
				mut[rng.Intn(len(mut))] ^= byte(1 << uint(rng.Intn(8)))
			case 1:
				mut[rng.Intn(len(mut))] = byte(rng.Intn(256))
			case 2:
				mut[rng.Intn(len(mut))] = []byte{0, 0xff, 0x7f, 0x80, 1}[rng.Intn(5)]
			case 3: // cut and append garbage
				mut = mut[:rng.Intn(len(mut))]
				extra := make([]byte, rng.Intn(40))
				rng.Read(extra)
				mut = append(mut, extra...)
			case 4: // several random bytes
				for j := 0; j < 1+rng.Intn(4); j++ {
					mut[rng.Intn(len(mut))] = byte(rng.Intn(256))
				}
			case 5: // 0xff run
				p := rng.Intn(len(mut))
				for j := p; j < len(mut) && j < p+1+rng.Intn(4); j++ {
					mut[j] = 0xff
				}
			}
			zzvHostileInput(st, v.Ty, c, mut, true, "mutation")
			bytemuts++
		}
	}

	// random byte strings for every decoder
	randoms := 0
	names := make([]string, 0, len(zzvCodecs))
	for n := range zzvCodecs {
		names = append(names, n)
	}
	sort.Strings(names)
	for _, ty := range names {
		c := zzvCodecs[ty]
		for i := 0; i < nRand; i++ {
			var n int
			switch rng.Intn(10) {
			case 0:
				n = rng.Intn(MaxPayloadSize + 1)
			case 1, 2:
				n = rng.Intn(600)
			default:
				n = rng.Intn(140)
			}
			buf := make([]byte, n)
			switch rng.Intn(4) {
			case 0: // sparse: mostly zero
				for j := 0; j < n/8+1 && n > 0; j++ {
					buf[rng.Intn(n)] = byte(rng.Intn(256))
				}
			case 1: // mostly 0xff
				for j := range buf {
					buf[j] = 0xff
				}
				for j := 0; j < n/8+1 && n > 0; j++ {
					buf[rng.Intn(n)] = byte(rng.Intn(256))
				}
			default:
				rng.Read(buf)
			}
			zzvHostileInput(st, ty, c, buf, true, "random")
			randoms++
		}
	}

	// the spec's hostile count vectors for the queued state
	qs := zzvCodecs["QueuedState"]
	var hostile []map[string]any
	for _, h := range in.Hostile {
		buf := make([]byte, h.H.NBytes)
		off := 2 * (h.H.List - 1)
		if off+2 <= len(buf) {
			binary.BigEndian.PutUint16(buf[off:], uint16(h.H.Claimed))
		}
		o := zzvDecode(qs, buf, false)
		o.alloc = zzvExactAlloc(qs, buf)
		st.evals++
		rec := map[string]any{"list": h.H.List, "claimed": h.H.Claimed, "nbytes": h.H.NBytes, "alloc": o.alloc,
			"bound": h.Bound, "spec_prealloc": h.PreAlloc, "panic": o.panicv != nil, "err": o.err != nil}
		hostile = append(hostile, rec)
		if o.panicv != nil {
			st.report("panic", "QueuedState", fmt.Sprintf("decoder panics: %v", o.panicv), buf, map[string]any{"origin": "hostile"})
		}
		if o.alloc > uint64(h.Bound) {
			st.report("alloc", "QueuedState", "allocation out of proportion", buf,
				map[string]any{"alloc": o.alloc, "bound": h.Bound, "origin": "hostile", "list": h.H.List, "claimed": h.H.Claimed})
		}
	}

	viol := 0
	for _, n := range st.viol {
		viol += n
	}
	zzvEmit("summary", map[string]any{"shapes": shapes, "per_type": perType, "prefixes": prefixes, "cell_mutations": cellmuts,
		"byte_mutations": bytemuts, "random_inputs": randoms, "legacy_shapes": legacy,
		"stream_vectors": len(in.Streams), "stream_results": streamRecs, "stream_path_evaluations": st.streamEvals,
		"framed_shapes": framed, "stream_bind_errors": streamBind, "stream_violations": zzvStreamViol, "hostile": hostile, "evaluations": st.evals,
		"accepted": st.accepted, "distinct_accepted": len(st.distinct), "alloc_measured": st.measured,
		"max_alloc": st.maxAlloc, "max_alloc_type": st.maxAllocTy, "bind_errors": bindErr, "violations": viol,
		"alloc_over_bound_unconfirmed": zzvUnconfirmed,
		"violation_classes":            st.viol, "samples": sample})
}
