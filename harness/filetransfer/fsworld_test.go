package filetransfer

// Shared by the C26 / C27 harnesses: materialise an abstract file system of spec/FsCore.tla in a private
// temp directory and project the real directory tree back to the abstract form.
//
// Abstract paths are component lists below the abstract root; the abstract root is bound to a fresh
// temp directory T.  Abstract absolute link targets ("/a/b") are bound to T/a/b.

import (
	"fmt"
	"os"
	"path/filepath"
	"sort"
	"strings"
	"syscall"
)

type zzvNode struct {
	P   []string `json:"p"`
	K   string   `json:"k"`   // dir | file | link
	I   int      `json:"i"`   // inode number (files; hard links share it)
	Abs bool     `json:"abs"` // link: absolute target
	T   []string `json:"t"`   // link: target components
	M   string   `json:"m"`   // mode class: "d" default, "c" changed by chmod
	C   string   `json:"c"`   // file content
}

const (
	zzvDirMode   = 0o755
	zzvFileMode  = 0o644
	zzvDirModeC  = 0o750 // after chmod ("c")
	zzvFileModeC = 0o750
)

func zzvReal(root string, p []string) string {
	if len(p) == 0 {
		return root
	}
	return filepath.Join(append([]string{root}, p...)...)
}

func zzvLinkText(root string, abs bool, t []string) string {
	if abs {
		return zzvReal(root, t)
	}
	if len(t) == 0 {
		return "."
	}
	return strings.Join(t, "/")
}

// zzvMaterialise creates the nodes below root (which must exist and be empty).
func zzvMaterialise(root string, nodes []zzvNode) error {
	ns := append([]zzvNode(nil), nodes...)
	sort.SliceStable(ns, func(i, j int) bool { return len(ns[i].P) < len(ns[j].P) })
	first := map[int]string{}
	for _, n := range ns {
		rp := zzvReal(root, n.P)
		switch n.K {
		case "dir":
			if err := os.Mkdir(rp, zzvDirMode); err != nil {
				return err
			}
			if n.M == "c" {
				if err := os.Chmod(rp, zzvDirModeC); err != nil {
					return err
				}
			}
		case "file":
			if prev, ok := first[n.I]; ok && n.I != 0 {
				if err := os.Link(prev, rp); err != nil {
					return err
				}
				continue
			}
			mode := os.FileMode(zzvFileMode)
			if n.M == "c" {
				mode = zzvFileModeC
			}
			if err := os.WriteFile(rp, []byte(n.C), mode); err != nil {
				return err
			}
			if err := os.Chmod(rp, mode); err != nil {
				return err
			}
			first[n.I] = rp
		case "link":
			if err := os.Symlink(zzvLinkText(root, n.Abs, n.T), rp); err != nil {
				return err
			}
		default:
			return fmt.Errorf("zzv: unknown node kind %q", n.K)
		}
	}
	return nil
}

// zzvSnapEntry is the projection of one real node.
type zzvSnapEntry struct {
	K     string `json:"k"`
	T     string `json:"t,omitempty"` // link text with the temp root replaced by "/"
	C     string `json:"c,omitempty"`
	G     string `json:"g,omitempty"` // files: smallest path sharing the inode
	M     string `json:"m,omitempty"` // "d" default mode, "c" chmod-ed mode, else octal
	Nlink uint64 `json:"-"`
}

// zzvSnapshot walks root without following links: abstract path ("a/b") -> entry.
func zzvSnapshot(root string) (map[string]zzvSnapEntry, error) {
	out := map[string]zzvSnapEntry{}
	inoFirst := map[uint64]string{}
	var paths []string
	err := filepath.Walk(root, func(p string, info os.FileInfo, err error) error {
		if err != nil {
			return err
		}
		if p == root {
			return nil
		}
		rel, _ := filepath.Rel(root, p)
		paths = append(paths, rel)
		e := zzvSnapEntry{}
		st, _ := info.Sys().(*syscall.Stat_t)
		switch {
		case info.Mode()&os.ModeSymlink != 0:
			e.K = "link"
			txt, err := os.Readlink(p)
			if err != nil {
				return err
			}
			if txt == root {
				txt = "/"
			} else if strings.HasPrefix(txt, root+"/") {
				txt = txt[len(root):]
			}
			e.T = txt
		case info.IsDir():
			e.K = "dir"
			e.M = zzvModeClass(info.Mode().Perm(), zzvDirMode, zzvDirModeC)
		case info.Mode().IsRegular():
			e.K = "file"
			b, err := os.ReadFile(p)
			if err != nil {
				// unreadable after a chmod to an odd mode: restore and retry
				os.Chmod(p, 0o600)
				b, err = os.ReadFile(p)
				if err != nil {
					return err
				}
			}
			e.C = string(b)
			e.M = zzvModeClass(info.Mode().Perm(), zzvFileMode, zzvFileModeC)
			if st != nil {
				e.Nlink = uint64(st.Nlink)
				if f, ok := inoFirst[st.Ino]; ok {
					e.G = f
				} else {
					inoFirst[st.Ino] = rel
					e.G = rel
				}
			}
		default:
			e.K = "other:" + info.Mode().String()
		}
		out[rel] = e
		return nil
	})
	// filepath.Walk visits in lexical order, so the first path of an inode is the smallest
	return out, err
}

func zzvModeClass(m os.FileMode, def, changed os.FileMode) string {
	switch m {
	case def:
		return "d"
	case changed:
		return "c"
	}
	return fmt.Sprintf("%04o", m)
}

// zzvExpect converts the spec's node list to the snapshot form.
func zzvExpect(nodes []zzvNode) map[string]zzvSnapEntry {
	out := map[string]zzvSnapEntry{}
	group := map[int]string{}
	ns := append([]zzvNode(nil), nodes...)
	sort.Slice(ns, func(i, j int) bool { return strings.Join(ns[i].P, "/") < strings.Join(ns[j].P, "/") })
	for _, n := range ns {
		p := strings.Join(n.P, "/")
		e := zzvSnapEntry{K: n.K}
		switch n.K {
		case "link":
			if n.Abs {
				e.T = "/" + strings.Join(n.T, "/")
			} else if len(n.T) == 0 {
				e.T = "."
			} else {
				e.T = strings.Join(n.T, "/")
			}
		case "file":
			e.C = n.C
			e.M = n.M
			if g, ok := group[n.I]; ok {
				e.G = g
			} else {
				group[n.I] = p
				e.G = p
			}
		case "dir":
			e.M = n.M
		}
		out[p] = e
	}
	return out
}

// zzvDiff lists the paths whose entries differ (ignoring Nlink); under: only paths inside (true) / outside (false)
// the given prefix are considered when prefix != "".
func zzvDiff(a, b map[string]zzvSnapEntry, filter func(string) bool) []string {
	var d []string
	for p, ea := range a {
		if filter != nil && !filter(p) {
			continue
		}
		eb, ok := b[p]
		if !ok {
			d = append(d, "-"+p)
			continue
		}
		if ea.K != eb.K || ea.T != eb.T || ea.C != eb.C || ea.G != eb.G || ea.M != eb.M {
			d = append(d, "~"+p)
		}
	}
	for p := range b {
		if filter != nil && !filter(p) {
			continue
		}
		if _, ok := a[p]; !ok {
			d = append(d, "+"+p)
		}
	}
	sort.Strings(d)
	return d
}

func zzvUnder(p, prefix string) bool { return p == prefix || strings.HasPrefix(p, prefix+"/") }
