package filetransfer

// C27: replay of the archives enumerated by TLC (spec/FileAccess.tla, part X) on the real UntarDirectory.
// Every case = one archive; it is built as a real tar.gz, extracted into <tmp>/w/o next to the sentinel
// files of the spec's world, and the resulting real tree (inside and outside the destination) is compared with the
// spec's post-state.  Independently of the spec, the harness reports whether anything outside the destination
// changed (the property itself).

import (
	"archive/tar"
	"bytes"
	"compress/gzip"
	"fmt"
	"os"
	"path/filepath"
	"strings"
	"sync"
	"syscall"
	"testing"
)

type zzvEntry struct {
	Kind   string   `json:"kind"`
	Name   []string `json:"name"`
	Target []string `json:"target"`
}

type zzvUntarCase struct {
	ID   int        `json:"id"`
	Arch []zzvEntry `json:"arch"`
	St   string     `json:"st"` // "open": extraction succeeded, "err": UntarDirectory must return an error
	T    []zzvNode  `json:"t"`
}

type zzvUntarIn struct {
	World []zzvNode      `json:"world"`
	Dest  []string       `json:"dest"`
	Cases []zzvUntarCase `json:"cases"`
	// binding self-test: corrupt the expectation of this case id (-1: none)
	Corrupt int `json:"corrupt"`
}

func zzvBuildTar(gzw *gzip.Writer, root string, arch []zzvEntry) ([]byte, error) {
	var buf bytes.Buffer
	gzw.Reset(&buf) // a fresh gzip.Writer per archive costs ~1 MB of allocation
	tw := tar.NewWriter(gzw)
	for _, e := range arch {
		name := strings.Join(e.Name, "/")
		h := &tar.Header{Name: name, Format: tar.FormatPAX}
		switch e.Kind {
		case "dir":
			h.Typeflag = tar.TypeDir
			h.Mode = zzvDirMode
			h.Name = name + "/"
		case "file":
			h.Typeflag = tar.TypeReg
			h.Mode = zzvFileMode
			h.Size = 1
		case "sym":
			h.Typeflag = tar.TypeSymlink
			h.Mode = 0o777
			h.Linkname = zzvLinkText(root, e.Target[0] == "abs", e.Target[1:])
		case "hard":
			h.Typeflag = tar.TypeLink
			h.Mode = zzvFileMode
			h.Linkname = strings.Join(e.Target, "/")
		default:
			return nil, fmt.Errorf("zzv: unknown entry kind %q", e.Kind)
		}
		if err := tw.WriteHeader(h); err != nil {
			return nil, err
		}
		if e.Kind == "file" {
			if _, err := tw.Write([]byte("n")); err != nil {
				return nil, err
			}
		}
	}
	if err := tw.Close(); err != nil {
		return nil, err
	}
	if err := gzw.Close(); err != nil {
		return nil, err
	}
	return buf.Bytes(), nil
}

func zzvArchString(a []zzvEntry) string {
	var s []string
	for _, e := range a {
		switch e.Kind {
		case "sym":
			t := strings.Join(e.Target[1:], "/")
			if e.Target[0] == "abs" {
				t = "/" + t
			}
			s = append(s, strings.Join(e.Name, "/")+" -> "+t)
		case "hard":
			s = append(s, strings.Join(e.Name, "/")+" => "+strings.Join(e.Target, "/"))
		case "dir":
			s = append(s, strings.Join(e.Name, "/")+"/")
		default:
			s = append(s, strings.Join(e.Name, "/"))
		}
	}
	return strings.Join(s, ", ")
}

func TestZZVUntarReplay(t *testing.T) {
	var in zzvUntarIn
	zzvLoad(t, "ZZV_IN", &in)
	syscall.Umask(0o022)
	base, err := os.MkdirTemp(os.Getenv("ZZV_WORK"), "untar-")
	if err != nil {
		t.Fatal(err)
	}
	defer os.RemoveAll(base)
	base, _ = filepath.EvalSymlinks(base)
	dest := strings.Join(in.Dest, "/")

	var mu sync.Mutex
	var nm, nesc, nerrs, nok int
	sample := map[string]any{}
	jobs := make(chan zzvUntarCase)
	var wg sync.WaitGroup
	infra := ""
	for w := 0; w < zzvEnvInt("ZZV_WORKERS", 4); w++ {
		wg.Add(1)
		go func() {
			defer wg.Done()
			gzw, _ := gzip.NewWriterLevel(nil, gzip.BestSpeed)
			for c := range jobs {
				root := filepath.Join(base, fmt.Sprintf("c%d", c.ID))
				fail := func(err error) {
					mu.Lock()
					infra = fmt.Sprintf("case %d: %v", c.ID, err)
					mu.Unlock()
				}
				if err := os.Mkdir(root, 0o755); err != nil {
					fail(err)
					continue
				}
				if err := zzvMaterialise(root, in.World); err != nil {
					fail(err)
					continue
				}
				before, err := zzvSnapshot(root)
				if err != nil {
					fail(err)
					continue
				}
				tgz, err := zzvBuildTar(gzw, root, c.Arch)
				if err != nil {
					fail(err)
					continue
				}
				xerr := UntarDirectory(bytes.NewReader(tgz), zzvReal(root, in.Dest))
				after, err := zzvSnapshot(root)
				if err != nil {
					fail(err)
					continue
				}
				want := zzvExpect(c.T)
				if c.ID == in.Corrupt { // binding self-test: the spec "predicts" one more file
					want[dest+"/zz-corrupt"] = zzvSnapEntry{K: "file", C: "n", G: dest + "/zz-corrupt", M: "d"}
				}
				realSt := "open"
				errText := ""
				if xerr != nil {
					realSt = "err"
					errText = xerr.Error()
					if len(errText) > 160 {
						errText = errText[:160]
					}
				}
				outside := func(p string) bool { return !zzvUnder(p, dest) }
				esc := zzvDiff(before, after, outside)
				for p, e := range before { // hard link into an outside file
					if a, ok := after[p]; ok && outside(p) && e.K == "file" && a.K == "file" && a.Nlink != e.Nlink {
						esc = append(esc, "nlink:"+p)
					}
				}
				diff := zzvDiff(want, after, nil)
				mu.Lock()
				if realSt == "err" {
					nerrs++
				} else {
					nok++
				}
				if len(esc) > 0 {
					nesc++
					zzvEmit("escape", map[string]any{"id": c.ID, "arch": c.Arch, "archs": zzvArchString(c.Arch),
						"outside_changes": esc, "real_st": realSt, "real_err": errText, "real": after})
				}
				if len(diff) > 0 || realSt != c.St {
					nm++
					zzvEmit("mismatch", map[string]any{"id": c.ID, "arch": c.Arch, "archs": zzvArchString(c.Arch),
						"diff": diff, "want_st": c.St, "real_st": realSt, "real_err": errText, "real": after,
						"escape": len(esc) > 0})
				}
				if len(sample) == 0 && len(c.Arch) >= 2 && realSt == "open" {
					sample["archs"] = zzvArchString(c.Arch)
					sample["real"] = after
				}
				mu.Unlock()
				os.RemoveAll(root)
			}
		}()
	}
	for _, c := range in.Cases {
		jobs <- c
	}
	close(jobs)
	wg.Wait()
	if infra != "" {
		t.Fatalf("zzv infrastructure: %s", infra)
	}
	zzvEmit("summary", map[string]any{"cases": len(in.Cases), "mismatches": nm, "escapes": nesc,
		"extract_errors": nerrs, "extract_ok": nok, "sample": sample})
}
