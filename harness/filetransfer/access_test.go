package filetransfer

// C26: replay of the cases enumerated by TLC (spec/FileAccess.tla, part A) on the real StreamHandler.
// A case = directory tree + allowed-path configuration + one request.  The tree is materialised in a private temp
// directory (allowed root r/, sentinel tree o/ outside it), the real functions are called in the order agent.go calls
// them, and
//   * the result, the returned content / listing and the complete real tree afterwards are compared with the spec;
//   * independently of the spec, the set of REAL paths read / listed / modified is derived from the before / after
//     snapshots and the returned content, and each is checked against the allowed-path configuration (the property).

import (
	"archive/tar"
	"bytes"
	"compress/gzip"
	"fmt"
	"io"
	"os"
	"path/filepath"
	"sort"
	"strings"
	"sync"
	"syscall"
	"testing"
)

type zzvEnt struct {
	Link bool     `json:"link"`
	Lt   []string `json:"lt"`
	Dir  bool     `json:"dir"`
}

type zzvRetEnt struct {
	P    []string `json:"p"`
	K    string   `json:"k"`
	Lt   []string `json:"lt"`
	C    string   `json:"c"`
	Name string   `json:"name"`
	E    *zzvEnt  `json:"e"`
}

type zzvRet struct {
	Kind string      `json:"kind"`
	C    string      `json:"c"`
	Ents []zzvRetEnt `json:"ents"`
	E    *zzvEnt     `json:"e"`
}

type zzvTouch struct {
	V       string   `json:"v"`
	P       []string `json:"p"`
	Allowed bool     `json:"allowed"`
}

type zzvAccAct struct {
	Op    string   `json:"op"`
	Req   []string `json:"req"`
	Valid bool     `json:"valid"`
	Ok    bool     `json:"ok"`
	Ret   zzvRet   `json:"ret"`
}

type zzvAccCase struct {
	ID   int        `json:"id"`
	Tree []zzvNode  `json:"tree"`
	Pats [][]string `json:"pats"`
	A    zzvAccAct  `json:"a"`
	T    []zzvNode  `json:"t"`
	Same bool       `json:"same"`
	Tch  []zzvTouch `json:"tch"`
}

type zzvAccIn struct {
	Cases   []zzvAccCase `json:"cases"`
	Corrupt int          `json:"corrupt"`
}

func zzvEntStr(e *zzvEnt) string {
	if e == nil {
		return "-"
	}
	return fmt.Sprintf("link=%v lt=%s dir=%v", e.Link, strings.Join(e.Lt, "/"), e.Dir)
}

func (r zzvRet) String() string {
	var lines []string
	for _, e := range r.Ents {
		lines = append(lines, fmt.Sprintf("%s|%s|%s|%s|%s|%s", strings.Join(e.P, "/"), e.Name, e.K, strings.Join(e.Lt, "/"), e.C, zzvEntStr(e.E)))
	}
	sort.Strings(lines)
	return fmt.Sprintf("%s c=%q e=[%s] ents=[%s]", r.Kind, r.C, zzvEntStr(r.E), strings.Join(lines, "; "))
}

func zzvReqString(root string, req []string) string {
	comps := make([]string, len(req)-1)
	for i, c := range req[1:] {
		if c == "^A" {
			c = "\x01"
		}
		comps[i] = c
	}
	if req[0] == "abs" {
		return root + "/" + strings.Join(comps, "/")
	}
	return strings.Join(comps, "/")
}

func zzvPatString(root string, pat []string) string {
	if pat[0] == "abs" {
		return root + "/" + strings.Join(pat[1:], "/")
	}
	return strings.Join(pat[1:], "/")
}

// link text -> ["abs"|"rel", components...]
func zzvLt(root, txt string) []string {
	if txt == root {
		return []string{"abs"}
	}
	if strings.HasPrefix(txt, root+"/") {
		return append([]string{"abs"}, strings.Split(txt[len(root)+1:], "/")...)
	}
	if txt == "." || txt == "" {
		return []string{"rel"}
	}
	return append([]string{"rel"}, strings.Split(txt, "/")...)
}

func zzvEntOf(root string, fe *FileEntry) *zzvEnt {
	e := &zzvEnt{Link: fe.IsSymlink, Dir: fe.IsDir, Lt: []string{}}
	if fe.IsSymlink {
		e.Lt = zzvLt(root, fe.LinkTarget)
	}
	return e
}

// abstract path ("r/a") of a real path below root; "" for root itself
func zzvAbs(root, real string) string {
	if real == root {
		return ""
	}
	return strings.TrimPrefix(real, root+"/")
}

// ---- the oracle of the property, independent of the code under test ------------------------------------------
func zzvSplit(p string) []string {
	if p == "" {
		return nil
	}
	return strings.Split(p, "/")
}

func zzvHasPrefix(pre, p []string) bool {
	if len(pre) > len(p) {
		return false
	}
	for i := range pre {
		if pre[i] != p[i] {
			return false
		}
	}
	return true
}

func zzvMatchPat(pc, path []string) bool {
	if len(pc) > 0 && pc[len(pc)-1] == "**" {
		return zzvHasPrefix(pc[:len(pc)-1], path)
	}
	glob := false
	for _, c := range pc {
		if c == "*" {
			glob = true
		}
	}
	if !glob {
		return zzvHasPrefix(pc, path)
	}
	for k := 1; k <= len(path); k++ {
		if len(pc) != k {
			continue
		}
		ok := true
		for i := range pc {
			if pc[i] != "*" && pc[i] != path[i] {
				ok = false
			}
		}
		if ok {
			return true
		}
	}
	return false
}

// zzvOracle: does the real (abstract) path lie inside the allowed paths?  An allowed pattern also stands for the
// pattern with the symbolic links of its base directory resolved (resolved: base -> real base, computed before the op).
type zzvOracle struct {
	pats [][]string // component patterns, absolute
	wild bool
}

func zzvNewOracle(root string, pats [][]string) *zzvOracle {
	o := &zzvOracle{}
	for _, p := range pats {
		if p[0] != "abs" {
			if len(p) == 2 && p[1] == "*" {
				o.wild = true
			}
			continue
		}
		pc := p[1:]
		o.pats = append(o.pats, pc)
		nb := len(pc)
		for i, c := range pc {
			if c == "*" || c == "**" {
				nb = i
				break
			}
		}
		if real, err := filepath.EvalSymlinks(root + "/" + strings.Join(pc[:nb], "/")); err == nil {
			rb := zzvSplit(zzvAbs(root, real))
			o.pats = append(o.pats, append(append([]string{}, rb...), pc[nb:]...))
		}
	}
	return o
}

func (o *zzvOracle) allowed(p string) bool {
	if o.wild {
		return true
	}
	for _, pc := range o.pats {
		if zzvMatchPat(pc, zzvSplit(p)) {
			return true
		}
	}
	return false
}

// zzvResolveTarget: where the OS will put the requested path (abstract form): the real path of its deepest existing
// ancestor plus the missing rest.  Not resolvable (dangling or looping link, file in the way): false.
func zzvResolveTarget(root, path string) (string, bool) {
	if !filepath.IsAbs(path) || strings.ContainsRune(path, 1) {
		return "", false
	}
	p := filepath.Clean(path)
	var rest []string
	for {
		real, err := filepath.EvalSymlinks(p)
		if err == nil {
			full := filepath.Join(append([]string{real}, rest...)...)
			if full != root && !strings.HasPrefix(full, root+"/") {
				return "", false
			}
			return zzvAbs(root, full), true
		}
		if _, lerr := os.Lstat(p); lerr == nil || !os.IsNotExist(err) || p == "/" {
			return "", false // exists but does not resolve
		}
		rest = append([]string{filepath.Base(p)}, rest...)
		p = filepath.Dir(p)
	}
}

// ---- one request, executed the way agent.go / health server execute it ---------------------------------------
type zzvAccResult struct {
	ok      bool
	errText string
	ret     zzvRet
	touched map[string]bool // "read:o/a", "list:o", "stat:..." derived from returned content
	anomaly string
}

func zzvPerform(root string, h *StreamHandler, op, path string, before map[string]zzvSnapEntry) zzvAccResult {
	res := zzvAccResult{ret: zzvRet{Kind: "none"}, touched: map[string]bool{}}
	// where the OS will take the request (used only to attribute returned content to a real path)
	realOf := func() (string, bool) {
		real, err := filepath.EvalSymlinks(filepath.Clean(path))
		if err != nil || !(real == root || strings.HasPrefix(real, root+"/")) {
			return "", false
		}
		return zzvAbs(root, real), true
	}
	preReal, preOK := realOf()
	fail := func(err string) zzvAccResult { res.errText = err; return res }
	switch op {
	case "upload":
		meta := &TransferMetadata{Path: path, Mode: zzvFileMode, Size: 1}
		if err := h.ValidateUploadMetadata(meta); err != nil {
			return fail(err.Error())
		}
		if _, err := h.WriteUploadedFile(meta.Path, strings.NewReader("n"), meta.Mode, false, false); err != nil {
			return fail(err.Error())
		}
		res.ok = true
	case "download":
		meta := &TransferMetadata{Path: path}
		if err := h.ValidateDownloadMetadata(meta); err != nil {
			return fail(err.Error())
		}
		rd, _, _, isDir, err := h.ReadFileForDownload(meta.Path, false)
		if err != nil {
			return fail(err.Error())
		}
		data, err := io.ReadAll(rd)
		if c, ok := rd.(io.Closer); ok {
			c.Close()
		}
		if err != nil {
			return fail("read: " + err.Error())
		}
		res.ok = true
		if !isDir {
			res.ret = zzvRet{Kind: "file", C: string(data)}
			if !preOK || before[preReal].K != "file" || before[preReal].C != string(data) {
				res.anomaly = "downloaded content is not the content of the resolved file"
			}
			res.touched["read:"+preReal] = true
			return res
		}
		res.ret = zzvRet{Kind: "dir"}
		gz, err := gzip.NewReader(bytes.NewReader(data))
		if err != nil {
			res.anomaly = "directory download is not gzip: " + err.Error()
			return res
		}
		tr := tar.NewReader(gz)
		if !preOK {
			res.anomaly = "directory download of an unresolvable path"
			return res
		}
		linfo, lerr := os.Lstat(filepath.Clean(path))
		walked := lerr == nil && linfo.Mode()&os.ModeSymlink == 0 // filepath.Walk does not descend into a link root
		if walked {
			res.touched["list:"+preReal] = true
		}
		for {
			hd, err := tr.Next()
			if err == io.EOF {
				break
			}
			if err != nil {
				res.anomaly = "tar: " + err.Error()
				return res
			}
			e := zzvRetEnt{P: strings.Split(strings.TrimSuffix(hd.Name, "/"), "/"), Lt: []string{}}
			ap := strings.TrimPrefix(preReal+"/"+strings.TrimSuffix(hd.Name, "/"), "/")
			switch hd.Typeflag {
			case tar.TypeDir:
				e.K = "dir"
				res.touched["list:"+ap] = true
			case tar.TypeSymlink:
				e.K = "link"
				e.Lt = zzvLt(root, hd.Linkname)
			default:
				e.K = "file"
				b, _ := io.ReadAll(tr)
				e.C = string(b)
				res.touched["read:"+ap] = true
				if before[ap].C != e.C {
					res.anomaly = "archived content of " + ap + " differs from the file"
				}
			}
			res.ret.Ents = append(res.ret.Ents, e)
		}
	case "list", "stat", "chmod", "delete", "rdelete":
		req := &BrowseRequest{Action: op, Path: path}
		if op == "chmod" {
			req.Mode = fmt.Sprintf("%04o", zzvDirModeC)
		}
		if op == "rdelete" {
			req.Action = "delete"
			req.Recursive = true
		}
		resp := h.Browse(req)
		if resp.Error != "" {
			return fail(resp.Error)
		}
		res.ok = true
		switch op {
		case "list":
			res.ret = zzvRet{Kind: "list"}
			for i := range resp.Entries {
				fe := resp.Entries[i]
				res.ret.Ents = append(res.ret.Ents, zzvRetEnt{Name: fe.Name, Lt: []string{}, P: []string{}, E: zzvEntOf(root, &fe)})
			}
			if !preOK || before[preReal].K != "dir" && preReal != "" {
				res.anomaly = "listing of a path that does not resolve to a directory"
			}
			// the entries must be the children of the resolved directory
			want := map[string]bool{}
			for p := range before {
				if filepath.Dir(p) == preReal || (preReal == "" && !strings.Contains(p, "/")) {
					want[filepath.Base(p)] = true
				}
			}
			if len(want) != len(resp.Entries) {
				res.anomaly = "listing does not match the resolved directory"
			}
			for _, fe := range resp.Entries {
				if !want[fe.Name] {
					res.anomaly = "listing does not match the resolved directory"
				}
			}
			res.touched["list:"+preReal] = true
		case "stat":
			res.ret = zzvRet{Kind: "entry", E: zzvEntOf(root, resp.Entry)}
			res.touched["stat"] = true
		case "chmod":
			res.ret = zzvRet{Kind: "entry", E: zzvEntOf(root, resp.Entry)}
		}
	default:
		res.anomaly = "unknown op " + op
	}
	return res
}

func TestZZVAccessReplay(t *testing.T) {
	var in zzvAccIn
	zzvLoad(t, "ZZV_IN", &in)
	syscall.Umask(0o022)
	base, err := os.MkdirTemp(os.Getenv("ZZV_WORK"), "acc-")
	if err != nil {
		t.Fatal(err)
	}
	defer os.RemoveAll(base)
	base, _ = filepath.EvalSymlinks(base)

	var mu sync.Mutex
	var nm, nesc, nokops, nrej int
	perOp := map[string]int{}
	var sample map[string]any
	infra := ""
	jobs := make(chan zzvAccCase)
	var wg sync.WaitGroup
	for w := 0; w < zzvEnvInt("ZZV_WORKERS", 4); w++ {
		wg.Add(1)
		go func() {
			defer wg.Done()
			for c := range jobs {
				root := filepath.Join(base, fmt.Sprintf("c%d", c.ID))
				fail := func(err error) {
					mu.Lock()
					infra = fmt.Sprintf("case %d: %v", c.ID, err)
					mu.Unlock()
				}
				if err := os.Mkdir(root, 0o755); err != nil {
					fail(err)
					continue
				}
				if err := zzvMaterialise(root, c.Tree); err != nil {
					fail(err)
					continue
				}
				before, err := zzvSnapshot(root)
				if err != nil {
					fail(err)
					continue
				}
				var allowed []string
				for _, p := range c.Pats {
					allowed = append(allowed, zzvPatString(root, p))
				}
				oracle := zzvNewOracle(root, c.Pats)
				h := NewStreamHandler(StreamConfig{Enabled: true, AllowedPaths: allowed})
				realTarget, realTargetOK := zzvResolveTarget(root, zzvReqString(root, c.A.Req))
				r := zzvPerform(root, h, c.A.Op, zzvReqString(root, c.A.Req), before)
				after, err := zzvSnapshot(root)
				if err != nil {
					fail(err)
					continue
				}
				// real touched set
				implied := map[string]bool{}
				for _, d := range zzvDiff(before, after, nil) {
					r.touched["mod:"+d[1:]] = true
					// creating the missing parent directories of an allowed destination is part of creating it
					if d[0] == '+' && after[d[1:]].K == "dir" && realTargetOK && zzvUnder(realTarget, d[1:]) && realTarget != d[1:] &&
						oracle.allowed(realTarget) {
						implied["mod:"+d[1:]] = true
					}
				}
				var outside []string
				for tp := range r.touched {
					if tp == "stat" {
						if len(c.Pats) == 0 {
							outside = append(outside, tp)
						}
						continue
					}
					i := strings.Index(tp, ":")
					if len(c.Pats) == 0 || !(oracle.allowed(tp[i+1:]) || implied[tp]) {
						outside = append(outside, tp)
					}
				}
				sort.Strings(outside)
				// comparison with the spec
				want := zzvExpect(c.Tree)
				if !c.Same {
					want = zzvExpect(c.T)
				}
				specT := map[string]bool{}
				for _, x := range c.Tch {
					if x.V != "stat" {
						specT[x.V+":"+strings.Join(x.P, "/")] = true
					}
				}
				if c.ID == in.Corrupt {
					c.A.Ok = !c.A.Ok
				}
				var diffs []string
				if r.ok != c.A.Ok {
					diffs = append(diffs, fmt.Sprintf("ok: spec %v real %v (%s)", c.A.Ok, r.ok, r.errText))
				}
				if r.ret.String() != c.A.Ret.String() {
					diffs = append(diffs, "ret: spec "+c.A.Ret.String()+" real "+r.ret.String())
				}
				if d := zzvDiff(want, after, nil); len(d) > 0 {
					diffs = append(diffs, "tree: "+strings.Join(d, " "))
				}
				var realT []string
				for tp := range r.touched {
					if tp != "stat" {
						realT = append(realT, tp)
						if !specT[tp] {
							diffs = append(diffs, "touched only by the code: "+tp)
						}
					}
				}
				for tp := range specT {
					if !r.touched[tp] {
						diffs = append(diffs, "touched only in the spec: "+tp)
					}
				}
				sort.Strings(realT)
				if r.anomaly != "" {
					diffs = append(diffs, "anomaly: "+r.anomaly)
				}
				desc := map[string]any{"id": c.ID, "op": c.A.Op, "req": strings.Join(c.A.Req, "/"), "pats": c.Pats,
					"tree": zzvExpect(c.Tree), "real_ok": r.ok, "real_err": r.errText, "real_ret": r.ret.String(),
					"real_touched": realT, "real_tree": after}
				mu.Lock()
				perOp[c.A.Op]++
				if r.ok {
					nokops++
				} else {
					nrej++
				}
				if len(outside) > 0 {
					nesc++
					desc["outside"] = outside
					zzvEmit("escape", desc)
				}
				if len(diffs) > 0 {
					nm++
					d2 := map[string]any{}
					for k, v := range desc {
						d2[k] = v
					}
					d2["diffs"] = diffs
					d2["spec_ok"] = c.A.Ok
					d2["escape"] = len(outside) > 0
					zzvEmit("mismatch", d2)
				}
				if sample == nil && r.ok && len(realT) > 0 && len(c.Tree) > 6 {
					sample = desc
				}
				mu.Unlock()
				os.Chmod(root, 0o755)
				os.RemoveAll(root)
			}
		}()
	}
	for _, c := range in.Cases {
		jobs <- c
	}
	close(jobs)
	wg.Wait()
	if infra != "" {
		t.Fatalf("zzv infrastructure: %s", infra)
	}
	zzvEmit("summary", map[string]any{"cases": len(in.Cases), "mismatches": nm, "escapes": nesc, "ops_ok": nokops,
		"ops_failed": nrej, "per_op": perOp, "sample": sample})
}
