package filetransfer

import "io"

// C27 site bound by harness/filetransfer/untar_test.go.tmpl
const zzvSite = "UntarDirectory"

func zzvExtract(r io.Reader, dest string) error { return UntarDirectory(r, dest) }
