//go:build !windows

package shell

// Binding of spec/Shell.tla to internal/shell (C25).
//   TestZZVShellDecision : every case of the decision table enumerated by TLC (VEC records) against the real
//                          Executor.NewSession (+Start) and NewPTYSession, with harmless stub executables on a private
//                          PATH; reports whether a process was started.
//   TestZZVShellTrace    : concurrent shell streams through the real Handler (encrypted frames, real processes);
//                          emits call / return events as an ndjson trace for TraceShell.tla.

import (
	"context"
	"encoding/json"
	"fmt"
	"io"
	"log/slog"
	mrand "math/rand"
	"os"
	osexec "os/exec"
	"path/filepath"
	"regexp"
	"strconv"
	"strings"
	"sync"
	"testing"
	"time"

	"golang.org/x/crypto/bcrypt"

	"github.com/postalsys/muti-metroo/internal/crypto"
	"github.com/postalsys/muti-metroo/internal/identity"
)

const zzvPassword = "correct horse"

type zzvShellCase struct {
	Enabled bool       `json:"enabled"`
	PwCfg   string     `json:"pwcfg"`
	Pw      string     `json:"pw"`
	Wl      [][]string `json:"wl"`
	Cmd     []string   `json:"cmd"`
	Args    [][]string `json:"args"`
}

type zzvShellVec struct {
	ID     int          `json:"id"`
	C      zzvShellCase `json:"c"`
	Oracle bool         `json:"oracle"`
	Impl   bool         `json:"impl"`
	Why    string       `json:"why"`
	PTY    bool         `json:"pty"`
}

type zzvShellIn struct {
	Cases []zzvShellVec `json:"cases"`
}

// abstract string (list of characters) -> concrete; a leading "/" is bound to the private temp root
func zzvStr(chars []string) string { return strings.Join(chars, "") }

func zzvCmdStr(root string, chars []string) string {
	s := zzvStr(chars)
	if strings.HasPrefix(s, "/") {
		return root + s
	}
	return s
}

// zzvSandbox prepares <root>/bin as the only PATH entry and makes <root> the working directory.
func zzvSandbox(t *testing.T) (root, mark string) {
	base, err := os.MkdirTemp(os.Getenv("ZZV_WORK"), "shell-")
	if err != nil {
		t.Fatal(err)
	}
	t.Cleanup(func() { os.RemoveAll(base) })
	root, _ = filepath.EvalSymlinks(base)
	if err := os.Mkdir(filepath.Join(root, "bin"), 0o755); err != nil {
		t.Fatal(err)
	}
	mark = filepath.Join(root, "started.log")
	os.WriteFile(mark, nil, 0o644)
	os.Setenv("PATH", filepath.Join(root, "bin"))
	os.Setenv("ZZV_MARK", mark)
	if err := os.Chdir(root); err != nil {
		t.Fatal(err)
	}
	return root, mark
}

// the stubs find the shell by absolute path (PATH is private)
const zzvStubRecord = "#!/bin/sh\necho \"$ZZV_CASE $$\" >> \"$ZZV_MARK\"\n"
const zzvStubHold = "#!/bin/sh\necho \"hold $$\" >> \"$ZZV_MARK\"\necho \"pid $$\"\nread x\n"

func zzvStub(path, body string) bool {
	if strings.HasSuffix(path, "/") || path == "" {
		return false
	}
	if err := os.MkdirAll(filepath.Dir(path), 0o755); err != nil {
		return false
	}
	if fi, err := os.Stat(path); err == nil && fi.IsDir() {
		return false
	}
	return os.WriteFile(path, []byte(body), 0o755) == nil
}

func TestZZVShellDecision(t *testing.T) {
	var in zzvShellIn
	zzvLoad(t, "ZZV_IN", &in)
	root, mark := zzvSandbox(t)
	hash, err := bcrypt.GenerateFromPassword([]byte(zzvPassword), bcrypt.MinCost)
	if err != nil {
		t.Fatal(err)
	}
	// one stub per distinct command string of the domain, so that an authorisation mistake really starts a process
	stub := map[string]bool{}
	for _, v := range in.Cases {
		cmd := zzvCmdStr(root, v.C.Cmd)
		if _, done := stub[cmd]; done {
			continue
		}
		switch {
		case cmd == "":
			stub[cmd] = false
		case strings.Contains(cmd, "/"):
			p := cmd
			if !filepath.IsAbs(p) {
				p = filepath.Join(root, cmd)
			}
			stub[cmd] = zzvStub(p, zzvStubRecord)
		default:
			stub[cmd] = zzvStub(filepath.Join(root, "bin", cmd), zzvStubRecord)
		}
	}
	// "stub present" = the exact command string resolves to an executable the way os/exec resolves it
	for cmd := range stub {
		_, lerr := osexec.LookPath(cmd)
		stub[cmd] = cmd != "" && lerr == nil
	}
	nstart := 0
	var mu sync.Mutex
	var wg sync.WaitGroup
	jobs := make(chan zzvShellVec)
	one := func(v zzvShellVec) {
		cfg := Config{Enabled: v.C.Enabled}
		for _, w := range v.C.Wl {
			cfg.Whitelist = append(cfg.Whitelist, zzvCmdStr(root, w))
		}
		if v.C.PwCfg == "set" {
			cfg.PasswordHash = string(hash)
		}
		// the case id reaches the stub through the request's environment (per process, so cases can run in parallel)
		meta := func(tag string) *ShellMeta {
			m := &ShellMeta{Command: zzvCmdStr(root, v.C.Cmd), Env: map[string]string{"ZZV_CASE": fmt.Sprintf("c%d-%s", v.ID, tag)}}
			for _, a := range v.C.Args {
				m.Args = append(m.Args, zzvStr(a))
			}
			switch v.C.Pw {
			case "match":
				m.Password = zzvPassword
			case "wrong":
				m.Password = zzvPassword + "x"
			case "given":
				m.Password = "anything"
			}
			return m
		}
		rec := map[string]any{"id": v.ID, "stub": stub[zzvCmdStr(root, v.C.Cmd)]}
		ex := NewExecutor(cfg)
		s, err := ex.NewSession(context.Background(), meta("s"))
		started := false
		if err == nil {
			if serr := s.Start(); serr == nil {
				started = true
				select {
				case <-s.Done():
				case <-time.After(60 * time.Second):
					t.Errorf("zzv: stub of case %d did not exit", v.ID)
				}
			} else {
				rec["start_err"] = serr.Error()
			}
			s.Close()
			ex.ReleaseSession()
		} else {
			rec["err"] = err.Error()
		}
		rec["session"] = started
		rec["active_after"] = ex.ActiveSessions()
		if v.PTY {
			m := meta("p")
			m.TTY = &TTYSettings{Rows: 24, Cols: 80}
			ex2 := NewExecutor(cfg)
			p, perr := ex2.NewPTYSession(context.Background(), m)
			ptyStarted := perr == nil
			if perr == nil {
				done := make(chan struct{})
				go func() { io.Copy(io.Discard, p); p.Wait(); close(done) }()
				select {
				case <-done:
				case <-time.After(60 * time.Second):
					t.Errorf("zzv: pty stub of case %d did not exit", v.ID)
				}
				p.Close()
				ex2.ReleaseSession()
			} else {
				rec["pty_err"] = perr.Error()
			}
			rec["pty"] = ptyStarted
			rec["pty_active_after"] = ex2.ActiveSessions()
		}
		mu.Lock()
		if started {
			nstart++
		}
		mu.Unlock()
		zzvEmit("case", rec)
	}
	for w := 0; w < zzvEnvInt("ZZV_WORKERS", 6); w++ {
		wg.Add(1)
		go func() {
			defer wg.Done()
			for v := range jobs {
				one(v)
			}
		}()
	}
	for _, v := range in.Cases {
		jobs <- v
	}
	close(jobs)
	wg.Wait()
	// processes that really ran, as recorded by the stubs themselves
	b, _ := os.ReadFile(mark)
	ran := map[string]int{}
	for _, line := range strings.Split(string(b), "\n") {
		if f := strings.Fields(line); len(f) == 2 {
			ran[f[0]]++
		}
	}
	zzvEmit("summary", map[string]any{"cases": len(in.Cases), "started": nstart, "ran": ran})
}

// ---------------------------------------------------------------------------------------------------------------
// request sequences on ONE live executor (Shell.tla part H): the decision must not depend on earlier requests

type zzvHistStep struct {
	A struct {
		Pw string `json:"pw"`
		Ok bool   `json:"ok"`
	} `json:"a"`
}

type zzvHistIn struct {
	Paths []struct {
		Steps []zzvHistStep `json:"steps"`
	} `json:"paths"`
}

func zzvHistPassword(class string) string {
	switch class {
	case "match":
		return zzvPassword
	case "prefix":
		return zzvPassword[:7]
	case "suffix":
		return zzvPassword[8:]
	case "longer":
		return zzvPassword + "x"
	case "wrong":
		return "nope"
	}
	return ""
}

func TestZZVShellHistory(t *testing.T) {
	var in zzvHistIn
	zzvLoad(t, "ZZV_IN", &in)
	root, mark := zzvSandbox(t)
	zzvStub(filepath.Join(root, "bin", "ls"), zzvStubRecord)
	hash, err := bcrypt.GenerateFromPassword([]byte(zzvPassword), bcrypt.MinCost)
	if err != nil {
		t.Fatal(err)
	}
	var wg sync.WaitGroup
	jobs := make(chan int)
	steps := 0
	var mu sync.Mutex
	for w := 0; w < zzvEnvInt("ZZV_WORKERS", 6); w++ {
		wg.Add(1)
		go func() {
			defer wg.Done()
			for pi := range jobs {
				ex := NewExecutor(Config{Enabled: true, Whitelist: []string{"ls"}, PasswordHash: string(hash)})
				var seq []string
				for si, st := range in.Paths[pi].Steps {
					seq = append(seq, st.A.Pw)
					tag := fmt.Sprintf("h%d-%d", pi, si)
					meta := &ShellMeta{Command: "ls", Password: zzvHistPassword(st.A.Pw), Env: map[string]string{"ZZV_CASE": tag}}
					s, err := ex.NewSession(context.Background(), meta)
					started := false
					if err == nil {
						if serr := s.Start(); serr == nil {
							started = true
							select {
							case <-s.Done():
							case <-time.After(60 * time.Second):
								t.Errorf("zzv: stub of %s did not exit", tag)
							}
						}
						s.Close()
						ex.ReleaseSession()
					}
					mu.Lock()
					steps++
					mu.Unlock()
					zzvEmit("step", map[string]any{"tag": tag, "seq": append([]string(nil), seq...), "pw": st.A.Pw, "started": started, "want": st.A.Ok})
				}
			}
		}()
	}
	for i := range in.Paths {
		jobs <- i
	}
	close(jobs)
	wg.Wait()
	b, _ := os.ReadFile(mark)
	ran := map[string]int{}
	for _, line := range strings.Split(string(b), "\n") {
		if f := strings.Fields(line); len(f) == 2 {
			ran[f[0]]++
		}
	}
	zzvEmit("summary", map[string]any{"paths": len(in.Paths), "steps": steps, "ran": ran})
}

// ---------------------------------------------------------------------------------------------------------------
// concurrent streams through the real Handler

type zzvRecorder struct {
	mu  sync.Mutex
	enc *json.Encoder
	n   int
}

func (r *zzvRecorder) log(ev map[string]any) {
	r.mu.Lock()
	r.enc.Encode(ev)
	r.n++
	r.mu.Unlock()
}

type zzvClientStream struct {
	name   string
	key    *crypto.SessionKey
	mu     sync.Mutex
	acked  bool
	res    string        // "", "ok", "max", "err"
	errs   string        // error text
	closed chan struct{} // WriteStreamClose seen
	once   sync.Once
	pid    chan int // the stub announced its process id on stdout
	out    string
}

type zzvWriter struct {
	mu      sync.Mutex
	streams map[uint64]*zzvClientStream
	rec     *zzvRecorder
}

func (w *zzvWriter) get(id uint64) *zzvClientStream {
	w.mu.Lock()
	defer w.mu.Unlock()
	return w.streams[id]
}

func (w *zzvWriter) WriteStreamData(peerID identity.AgentID, streamID uint64, data []byte, flags uint8) error {
	cs := w.get(streamID)
	if cs == nil {
		return nil
	}
	cs.mu.Lock()
	defer cs.mu.Unlock()
	pt, err := cs.key.Decrypt(data)
	if err != nil {
		return nil
	}
	mt, payload, err := DecodeMessage(pt)
	if err != nil {
		return nil
	}
	switch mt {
	case MsgStdout:
		cs.out += string(payload)
		if m := zzvPidRe.FindStringSubmatch(cs.out); m != nil && cs.pid != nil {
			n, _ := strconv.Atoi(m[1])
			select {
			case cs.pid <- n:
			default:
			}
		}
	case MsgAck:
		if a, err := DecodeAck(payload); err == nil && a.Success {
			cs.acked = true
			cs.res = "ok"
		}
	case MsgError:
		if e, err := DecodeError(payload); err == nil && cs.res == "" {
			cs.errs = e.Message
			if strings.Contains(e.Message, "max sessions") {
				cs.res = "max"
			} else {
				cs.res = "err"
			}
		}
	}
	return nil
}

func (w *zzvWriter) WriteStreamClose(peerID identity.AgentID, streamID uint64) error {
	cs := w.get(streamID)
	if cs == nil {
		return nil
	}
	cs.mu.Lock()
	acked := cs.acked
	cs.mu.Unlock()
	if acked {
		w.rec.log(map[string]any{"ev": "StreamClosed", "t": cs.name})
	}
	cs.once.Do(func() { close(cs.closed) })
	return nil
}

var zzvPidRe = regexp.MustCompile(`pid (\d+)\r?\n`)

// zzvPids: the process ids announced by the stubs of all streams
type zzvPids struct {
	mu   sync.Mutex
	pids []int
}

func (p *zzvPids) add(pid int) { p.mu.Lock(); p.pids = append(p.pids, pid); p.mu.Unlock() }

// live: number of announced stub processes that are really alive (not zombies)
func (p *zzvPids) live() int {
	p.mu.Lock()
	pids := append([]int(nil), p.pids...)
	p.mu.Unlock()
	n := 0
	for _, pid := range pids {
		st, err := os.ReadFile("/proc/" + strconv.Itoa(pid) + "/stat")
		if err != nil {
			continue
		}
		i := strings.LastIndex(string(st), ")") // pid (comm) state ...
		if i < 0 || i+2 >= len(st) {
			continue
		}
		if c := st[i+2]; c != 'Z' && c != 'X' {
			n++
		}
	}
	return n
}

func TestZZVShellTrace(t *testing.T) {
	root, _ := zzvSandbox(t)
	pids := &zzvPids{}
	zzvStub(filepath.Join(root, "bin", "hold"), zzvStubHold)
	max := zzvEnvInt("ZZV_MAX", 2)
	workers := zzvEnvInt("ZZV_THREADS", 4)
	rounds := zzvEnvInt("ZZV_ROUNDS", 3)
	perRound := zzvEnvInt("ZZV_STREAMS", 6)
	out, err := os.Create(os.Getenv("ZZV_OUT"))
	if err != nil {
		t.Fatal(err)
	}
	defer out.Close()
	rec := &zzvRecorder{enc: json.NewEncoder(out)}
	logger := slog.New(slog.NewTextHandler(io.Discard, nil))
	ex := NewExecutor(Config{Enabled: true, Whitelist: []string{"hold", "nothere"}, MaxSessions: max})
	wr := &zzvWriter{streams: map[uint64]*zzvClientStream{}, rec: rec}
	h := NewHandler(ex, wr, logger)
	var peer identity.AgentID
	peer[0] = 7
	var nextID uint64
	var idMu sync.Mutex
	stats := map[string]int{}
	var stMu sync.Mutex
	count := func(k string) { stMu.Lock(); stats[k]++; stMu.Unlock() }
	overLimit := 0

	// openStream opens one shell stream (scripted: a plain streaming "hold" session); when the session was
	// acknowledged it returns the function that ends it (how: 0 own exit, 1 client close, 2 both), else nil
	// scripted: 0 random, 1 plain "hold", 2 whitelisted command missing from PATH, 3 "hold" with a bad work dir
	openStream := func(rng *mrand.Rand, scripted int) func(how int) {
		idMu.Lock()
		nextID++
		sid := nextID
		idMu.Unlock()
		name := "s" + strconv.FormatUint(sid, 10)
		priv, pub, err := crypto.GenerateEphemeralKeypair()
		if err != nil {
			t.Error(err)
			return nil
		}
		interactive := scripted == 0 && rng.Intn(3) == 0
		code, hpub := h.HandleStreamOpen(peer, sid, sid+1000, interactive, pub)
		if code != 0 {
			t.Errorf("zzv: stream open refused: %d", code)
			return nil
		}
		shared, err := crypto.ComputeECDH(priv, hpub)
		if err != nil {
			t.Error(err)
			return nil
		}
		cs := &zzvClientStream{name: name, key: crypto.DeriveSessionKey(shared, sid+1000, pub, hpub, true), closed: make(chan struct{}), pid: make(chan int, 1)}
		wr.mu.Lock()
		wr.streams[sid] = cs
		wr.mu.Unlock()
		send := func(msg []byte) {
			cs.mu.Lock()
			ct, err := cs.key.Encrypt(msg)
			cs.mu.Unlock()
			if err != nil {
				t.Error(err)
				return
			}
			h.HandleStreamData(peer, sid, ct, 0)
		}
		meta := &ShellMeta{Command: "hold"}
		sel := 7
		switch scripted {
		case 0:
			sel = rng.Intn(9)
		case 2:
			sel = 0
		case 3:
			sel = 8
		}
		switch sel {
		case 8:
			meta.WorkDir = filepath.Join(root, "no-such-dir") // passes validation, takes a slot, exec fails
		case 0:
			meta.Command = "nothere" // whitelisted, but no such executable: slot taken, start fails, slot returned
		case 1:
			meta.Command = "denied" // not whitelisted: rejected before the counter
		case 2:
			meta.Args = []string{"a;b"}
		}
		if interactive {
			meta.TTY = &TTYSettings{Rows: 24, Cols: 80}
		}
		mb, _ := EncodeMeta(meta)
		rec.log(map[string]any{"ev": "OpenCall", "t": name})
		send(mb)
		cs.mu.Lock()
		res, errs := cs.res, cs.errs
		cs.mu.Unlock()
		switch res {
		case "ok":
			// the process really runs once its stub has announced its pid on stdout
			select {
			case pid := <-cs.pid:
				pids.add(pid)
			case <-time.After(20 * time.Second):
				t.Errorf("zzv: the process of %s never announced itself", name)
				return nil
			}
			live := pids.live()
			for dl := time.Now().Add(3 * time.Second); max > 0 && live > max && time.Now().Before(dl); {
				time.Sleep(20 * time.Millisecond) // one-sided slack: a killed process may take a moment to disappear
				live = pids.live()
			}
			if max > 0 && live > max {
				stMu.Lock()
				overLimit++
				stMu.Unlock()
			}
			rec.log(map[string]any{"ev": "OpenRetOk", "t": name, "live": live, "pty": interactive})
			count("ok")
		case "max":
			rec.log(map[string]any{"ev": "OpenRetMax", "t": name})
			count("max")
			h.HandleStreamClose(sid)
			return nil
		case "err":
			rec.log(map[string]any{"ev": "OpenRetErr", "t": name, "err": errs})
			count("err:" + meta.Command)
			h.HandleStreamClose(sid)
			return nil
		default:
			t.Errorf("zzv: no answer to the metadata frame of %s", name)
			return nil
		}
		return func(how int) {
			var wg sync.WaitGroup
			if how == 0 || how == 2 { // let the process end by itself: the line it is waiting for
				wg.Add(1)
				go func() {
					defer wg.Done()
					rec.log(map[string]any{"ev": "ExitSent", "t": name})
					send(EncodeStdin([]byte("\n")))
				}()
			}
			if how == 1 || how == 2 { // the client closes the stream
				wg.Add(1)
				go func() {
					defer wg.Done()
					if how == 2 {
						time.Sleep(time.Duration(rng.Intn(3)) * time.Millisecond)
					}
					rec.log(map[string]any{"ev": "CloseCall", "t": name})
					h.HandleStreamClose(sid)
					rec.log(map[string]any{"ev": "CloseRet", "t": name})
				}()
			}
			wg.Wait()
			// the stream's own exit path always ends with WriteStreamClose (also after HandleStreamClose killed the process)
			select {
			case <-cs.closed:
			case <-time.After(20 * time.Second):
				t.Errorf("zzv: stream %s never closed (how=%d)", name, how)
			}
		}
	}

	oneStream := func(rng *mrand.Rand) {
		if finish := openStream(rng, 0); finish != nil {
			time.Sleep(time.Duration(rng.Intn(16)) * time.Millisecond)
			finish(rng.Intn(3))
		}
	}
	observe := func() {
		rec.log(map[string]any{"ev": "ObsCall", "w": "w1"})
		n := ex.ActiveSessions()
		rec.log(map[string]any{"ev": "ObsRet", "w": "w1", "n": n})
	}
	// scripted prologue of every round (max >= 2): fill all slots, let the client close one stream and wait until
	// both of its release paths are through, then ask for two more sessions: only one slot is free
	prologue := func(rng *mrand.Rand, round int) {
		if max < 2 {
			return
		}
		// (a) a failed start WHILE another session holds a slot: the slot it took must come back exactly once; then
		//     sessions up to the limit, and one more that must be refused (judged on the counter and on live processes)
		var fs []func(int)
		fs = append(fs, openStream(rng, 1))
		observe()
		openStream(rng, 2+round%2) // whitelisted but not startable: missing executable / bad work dir
		observe()
		for i := 1; i < max; i++ {
			fs = append(fs, openStream(rng, 1))
		}
		observe()
		fs = append(fs, openStream(rng, 1)) // beyond the limit
		observe()
		// (b) the client closes one stream; when both of its release paths are through exactly one slot is free
		if fs[0] != nil {
			fs[0](1)
			time.Sleep(20 * time.Millisecond)
		}
		observe()
		fs = append(fs[1:], openStream(rng, 1), openStream(rng, 1))
		observe()
		for i, f := range fs {
			if f != nil {
				f(i % 2)
			}
		}
		observe()
	}

	seed := zzvSeed()
	for round := 0; round < rounds; round++ {
		prologue(mrand.New(mrand.NewSource(seed*7919+int64(round))), round)
		var wg sync.WaitGroup
		stop := make(chan struct{})
		var owg sync.WaitGroup
		owg.Add(1)
		go func() { // observer
			defer owg.Done()
			for i := 0; ; i++ {
				select {
				case <-stop:
					return
				default:
				}
				rec.log(map[string]any{"ev": "ObsCall", "w": "w1"})
				n := ex.ActiveSessions()
				rec.log(map[string]any{"ev": "ObsRet", "w": "w1", "n": n})
				time.Sleep(10 * time.Millisecond)
			}
		}()
		for w := 0; w < workers; w++ {
			wg.Add(1)
			go func(w int) {
				defer wg.Done()
				rng := mrand.New(mrand.NewSource(seed*1000 + int64(round)*100 + int64(w)))
				for i := 0; i < perRound; i++ {
					oneStream(rng)
				}
			}(w)
		}
		wg.Wait()
		close(stop)
		owg.Wait()
		// quiescence: every stream was closed or exited; late closeStream calls of exit paths may still be running
		for dl := time.Now().Add(10 * time.Second); h.ActiveStreams() > 0 && time.Now().Before(dl); {
			time.Sleep(5 * time.Millisecond)
		}
		time.Sleep(30 * time.Millisecond)
		rec.log(map[string]any{"ev": "Reset", "n": ex.ActiveSessions()})
		// forget the finished streams (late StreamClosed callbacks after the reset would belong to the old round)
		wr.mu.Lock()
		wr.streams = map[uint64]*zzvClientStream{}
		wr.mu.Unlock()
	}
	zzvEmit("summary", map[string]any{"events": rec.n, "max": max, "stats": stats, "over_limit_observations": overLimit,
		"traces": rounds})
}
