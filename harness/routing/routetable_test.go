package routing

// Binding of spec/RouteTable.tla to the real routing.Manager and its four tables (C08, C09, C10).
//   TestZZVRouteWalk  : spec -> code.  Walks TLC's transition graph on a real Manager: executes every
//                       (state, action) pair of the bounded model, compares the full projection of the real state
//                       and the call result with the spec's successors after every step, and looks up every query
//                       of the model (every leaf address incl. IPv4-mapped forms, every name in every letter-case
//                       variant, every forward key, every agent) against the spec's acceptable-answer sets.
//   TestZZVRouteTrace : code -> spec.  Seeded random histories over a larger universe, written as ndjson events
//                       (arguments, result, projected table after the call; lookups as events) for validation by
//                       TLC with spec/TraceRouteTable.tla.
//
// Abstract <-> real.  Agents: names -> random AgentIDs ("L" = the manager's own id).  CIDR keys [fam,bits]: every
// abstract symbol is expanded to a block of real address bits (random cut points and block values per world, so
// the real prefixes are e.g. 0.0.0.0/0, 83.0.0.0/7, 83.44.128.0/19, host addresses /32 and /128).  Domain names:
// label sequences joined by dots, letter-case variant cv (0 lower, 1 upper, 2 alternating).  Sequences: abstract
// values are mapped ORDER-PRESERVINGLY into {0, 1, 2, 2^63-1, 2^63, 2^63+1, 2^64-2, 2^64-1} (zzvSeqPoints): the walk
// draws a random increasing injection of the model's small sequence domain per world, the traces use all eight in
// one history, so far-apart values (differences above 2^63, both ends of the uint64 range) meet in one table.
// `old` <=> LastUpdate more than an hour ago (AgeAll rewinds LastUpdate by two hours).

import (
	"bufio"
	"encoding/json"
	"fmt"
	mrand "math/rand"
	"net"
	"os"
	"sort"
	"strings"
	"testing"
	"time"
	"unicode"

	"github.com/postalsys/muti-metroo/internal/identity"
	"github.com/postalsys/muti-metroo/internal/protocol"
)

// ---------------------------------------------------------------------------------- abstract values

type zzvCidrKey struct {
	Fam  string `json:"fam"`
	Bits []int  `json:"bits"`
}
type zzvAddr struct {
	Form string `json:"form"`
	Bits []int  `json:"bits"`
}
type zzvDomKey struct {
	Wild bool     `json:"wild"`
	Name []string `json:"name"`
}

// zzvEntry is a table entry in the shape of the spec's records (Key is table specific).
type zzvEntry struct {
	Key    json.RawMessage `json:"key"`
	Origin string          `json:"origin"`
	Nh     string          `json:"nh"`
	Metric int             `json:"metric"`
	Seq    int             `json:"seq"`
	Path   []string        `json:"path"`
	Old    bool            `json:"old"`
	Cv     *int            `json:"cv,omitempty"`
}
type zzvLoc struct {
	Key    json.RawMessage `json:"key"`
	Cv     *int            `json:"cv,omitempty"`
	Metric int             `json:"metric"`
}
type zzvState struct {
	Cidr  []zzvEntry `json:"cidr"`
	Dom   []zzvEntry `json:"dom"`
	Fwd   []zzvEntry `json:"fwd"`
	Agt   []zzvEntry `json:"agt"`
	Lseq  int        `json:"lseq"`
	Lcidr []zzvLoc   `json:"lcidr"`
	Ldyn  []zzvLoc   `json:"ldyn"`
	Ldom  []zzvLoc   `json:"ldom"`
	Lfwd  []zzvLoc   `json:"lfwd"`
}
type zzvAct struct {
	Act    string          `json:"act"`
	Tbl    string          `json:"tbl,omitempty"`
	Key    json.RawMessage `json:"key,omitempty"`
	Origin string          `json:"origin,omitempty"`
	Nh     string          `json:"nh,omitempty"`
	M      int             `json:"m"`
	Seq    int             `json:"seq"`
	Path   []string        `json:"path,omitempty"`
	Cv     int             `json:"cv"`
	P      string          `json:"p,omitempty"`
}

func zzvCidrKeyStr(k zzvCidrKey) string {
	var b strings.Builder
	b.WriteString(k.Fam + "/")
	for _, x := range k.Bits {
		fmt.Fprintf(&b, "%d", x)
	}
	return b.String()
}
func zzvDomKeyStr(k zzvDomKey) string {
	s := strings.Join(k.Name, ".")
	if k.Wild {
		return "*." + s
	}
	return s
}

// keyStr renders the table specific key of an abstract entry/action canonically.
func zzvKeyStr(tbl string, raw json.RawMessage) string {
	switch tbl {
	case "cidr":
		var k zzvCidrKey
		if json.Unmarshal(raw, &k) != nil {
			return "?" + string(raw)
		}
		return zzvCidrKeyStr(k)
	case "dom":
		var k zzvDomKey
		if json.Unmarshal(raw, &k) != nil {
			return "?" + string(raw)
		}
		return zzvDomKeyStr(k)
	default:
		var s string
		if json.Unmarshal(raw, &s) != nil {
			return "?" + string(raw)
		}
		return s
	}
}

func zzvEntryStr(tbl string, e zzvEntry, withOld bool) string {
	cv := 0
	if e.Cv != nil {
		cv = *e.Cv
	}
	s := fmt.Sprintf("%s|%s|o=%s|nh=%s|m=%d|s=%d|path=%s|cv=%d", tbl, zzvKeyStr(tbl, e.Key), e.Origin, e.Nh, e.Metric,
		e.Seq, strings.Join(e.Path, ">"), cv)
	if withOld {
		s += fmt.Sprintf("|old=%v", e.Old)
	}
	return s
}

func zzvCanonEntries(tbl string, es []zzvEntry) []string {
	out := make([]string, 0, len(es))
	for _, e := range es {
		out = append(out, zzvEntryStr(tbl, e, true))
	}
	sort.Strings(out)
	return out
}

func zzvCanonLocs(tbl string, ls []zzvLoc) []string {
	out := make([]string, 0, len(ls))
	for _, l := range ls {
		cv := 0
		if l.Cv != nil {
			cv = *l.Cv
		}
		out = append(out, fmt.Sprintf("%s|cv=%d|m=%d", zzvKeyStr(tbl, l.Key), cv, l.Metric))
	}
	sort.Strings(out)
	return out
}

// canonical text of a whole state (tables + manager-local maps)
func zzvCanonState(s *zzvState) string {
	parts := []string{
		"cidr:" + strings.Join(zzvCanonEntries("cidr", s.Cidr), ","),
		"dom:" + strings.Join(zzvCanonEntries("dom", s.Dom), ","),
		"fwd:" + strings.Join(zzvCanonEntries("fwd", s.Fwd), ","),
		"agt:" + strings.Join(zzvCanonEntries("agt", s.Agt), ","),
		fmt.Sprintf("lseq:%d", s.Lseq),
		"lcidr:" + strings.Join(zzvCanonLocs("cidr", s.Lcidr), ","),
		"ldyn:" + strings.Join(zzvCanonLocs("cidr", s.Ldyn), ","),
		"ldom:" + strings.Join(zzvCanonLocs("dom", s.Ldom), ","),
		"lfwd:" + strings.Join(zzvCanonLocs("fwd", s.Lfwd), ","),
	}
	return strings.Join(parts, " ; ")
}

// ---------------------------------------------------------------------------------- the world: abstract <-> real

type zzvWorld struct {
	rng     *mrand.Rand
	w       int // symbols per address
	ids     map[string]identity.AgentID
	names   map[identity.AgentID]string
	cut     map[string][]int      // fam -> cut points (len w+1), cut[0]=0, cut[w]=32|128
	val     map[string][][3][]byte // fam -> per position -> per symbol: bit block (one byte per bit)
	netKey  map[string]string     // real network string -> canonical abstract key "4/01"
	seqReal map[int]uint64 // abstract sequence -> real sequence (advertised routes)
	seqAbs  map[uint64]int
	labels  map[string]bool
	m       *Manager
	targets map[string]string // forward: "key|origin|seq|metric" -> target passed
}

// real sequence values the abstract ones are mapped to (order preserved)
var zzvSeqPoints = []uint64{0, 1, 2, 1<<63 - 1, 1 << 63, 1<<63 + 1, ^uint64(0) - 1, ^uint64(0)}

// spreadSeq: map the abstract sequences 0..nseq-1 to a random increasing selection of zzvSeqPoints (otherwise, and
// always when advertisements with origin = local agent meet the manager's own small counter, the identity on the
// first points: 0, 1, 2 are mapped to themselves).
func zzvNewWorld(rng *mrand.Rand, w int, agents []string, spreadSeq bool, nseq int) *zzvWorld {
	wd := &zzvWorld{rng: rng, w: w, ids: map[string]identity.AgentID{}, names: map[identity.AgentID]string{},
		cut: map[string][]int{}, val: map[string][][3][]byte{}, netKey: map[string]string{}, targets: map[string]string{}}
	for _, a := range append([]string{"L"}, agents...) {
		if _, ok := wd.ids[a]; ok {
			continue
		}
		var id identity.AgentID
		for {
			rng.Read(id[:])
			if _, dup := wd.names[id]; !dup && !id.IsZero() {
				break
			}
		}
		wd.ids[a] = id
		wd.names[id] = a
	}
	wd.seqReal, wd.seqAbs = map[int]uint64{}, map[uint64]int{}
	idx := make([]int, len(zzvSeqPoints))
	for i := range idx {
		idx[i] = i
	}
	if spreadSeq && nseq > 0 && nseq < len(zzvSeqPoints) {
		idx = rng.Perm(len(zzvSeqPoints))[:nseq]
		sort.Ints(idx)
	}
	for a, i := range idx {
		wd.seqReal[a] = zzvSeqPoints[i]
		wd.seqAbs[zzvSeqPoints[i]] = a
	}
	for _, fam := range []string{"4", "6"} {
		total := 32
		if fam == "6" {
			total = 128
		}
		// random cut points 0 = c0 < c1 < ... < cw = total, every block at least 2 bits wide
		for {
			cs := map[int]bool{0: true, total: true}
			for len(cs) < w+1 {
				cs[2+rng.Intn(total-3)] = true
			}
			var cut []int
			for c := range cs {
				cut = append(cut, c)
			}
			sort.Ints(cut)
			ok := true
			for i := 1; i < len(cut); i++ {
				if cut[i]-cut[i-1] < 2 {
					ok = false
				}
			}
			if ok {
				wd.cut[fam] = cut
				break
			}
		}
		vals := make([][3][]byte, w)
		for i := 0; i < w; i++ {
			width := wd.cut[fam][i+1] - wd.cut[fam][i]
			seen := map[string]bool{}
			for s := 0; s < 3; s++ {
				for {
					blk := make([]byte, width)
					nz := false
					for j := range blk {
						blk[j] = byte(rng.Intn(2))
						nz = nz || blk[j] == 1
					}
					// IPv6: the first block is never all zero, so no abstract IPv6 prefix with >= 1 symbol lies in
					// ::/96 (the IPv4-mapped / compatible range)
					if fam == "6" && i == 0 && !nz {
						continue
					}
					if !seen[string(blk)] {
						seen[string(blk)] = true
						vals[i][s] = blk
						break
					}
				}
			}
		}
		wd.val[fam] = vals
		// reverse map of every abstract prefix over {0,1}
		var rec func(bits []int)
		rec = func(bits []int) {
			n := wd.net(zzvCidrKey{Fam: fam, Bits: bits})
			wd.netKey[n.String()] = zzvCidrKeyStr(zzvCidrKey{Fam: fam, Bits: bits})
			if len(bits) < w {
				rec(append(append([]int{}, bits...), 0))
				rec(append(append([]int{}, bits...), 1))
			}
		}
		rec(nil)
	}
	wd.m = NewManager(wd.ids["L"])
	return wd
}

func (wd *zzvWorld) rawBits(fam string, bits []int) []byte {
	total := 32
	if fam == "6" {
		total = 128
	}
	out := make([]byte, total)
	for i, s := range bits {
		copy(out[wd.cut[fam][i]:], wd.val[fam][i][s])
	}
	return out
}

func zzvPack(bits []byte) []byte {
	out := make([]byte, len(bits)/8)
	for i, b := range bits {
		if b == 1 {
			out[i/8] |= 0x80 >> uint(i%8)
		}
	}
	return out
}

// net builds the real network of an abstract prefix the way the code base builds them (flood.protocolRouteToIPNet
// and net.ParseCIDR): 4-byte IP and mask for IPv4, 16-byte for IPv6, host bits zero.
func (wd *zzvWorld) net(k zzvCidrKey) *net.IPNet {
	total := 32
	if k.Fam == "6" {
		total = 128
	}
	ip := net.IP(zzvPack(wd.rawBits(k.Fam, k.Bits)))
	return &net.IPNet{IP: ip, Mask: net.CIDRMask(wd.cut[k.Fam][len(k.Bits)], total)}
}

// ip builds the real address of an abstract address; form "m" is the 16-byte IPv4-mapped form (what net.ParseIP
// returns for dotted-quad text).
func (wd *zzvWorld) ip(a zzvAddr) net.IP {
	fam := a.Form
	if fam == "m" {
		fam = "4"
	}
	ip := net.IP(zzvPack(wd.rawBits(fam, a.Bits)))
	if a.Form == "m" {
		return ip.To16()
	}
	return ip
}

func zzvCase(s string, cv int) string {
	switch cv {
	case 1:
		return strings.ToUpper(s)
	case 2:
		r := []rune(s)
		for i := range r {
			if i%2 == 0 {
				r[i] = unicode.ToUpper(r[i])
			}
		}
		return string(r)
	}
	return s
}

func (wd *zzvWorld) domText(k zzvDomKey, cv int) string {
	s := zzvCase(strings.Join(k.Name, "."), cv)
	if k.Wild {
		return "*." + s
	}
	return s
}

// abstract (key, cv) of a stored pattern text
func zzvDomAbs(text string) (string, int, bool) {
	base, wild := text, false
	if strings.HasPrefix(text, "*.") {
		base, wild = text[2:], true
	}
	low := strings.ToLower(base)
	cv := -1
	for c := 0; c <= 2; c++ {
		if zzvCase(low, c) == base {
			cv = c
			break
		}
	}
	key := low
	if wild {
		key = "*." + low
	}
	return key, cv, cv >= 0
}

func (wd *zzvWorld) id(name string) identity.AgentID {
	id, ok := wd.ids[name]
	if !ok {
		panic("zzv: unknown agent " + name)
	}
	return id
}

func (wd *zzvWorld) name(id identity.AgentID) string {
	if n, ok := wd.names[id]; ok {
		return n
	}
	return "?" + id.ShortString()
}

func (wd *zzvWorld) path(p []string) []identity.AgentID {
	if len(p) == 0 {
		return nil
	}
	out := make([]identity.AgentID, len(p))
	for i, n := range p {
		out[i] = wd.id(n)
	}
	return out
}

func (wd *zzvWorld) pathNames(p []identity.AgentID) []string {
	out := []string{}
	for _, id := range p {
		out = append(out, wd.name(id))
	}
	return out
}

func (wd *zzvWorld) realSeq(origin string, s int) uint64 {
	r, ok := wd.seqReal[s]
	if !ok {
		panic(fmt.Sprintf("zzv: abstract sequence %d has no real value in this world", s))
	}
	return r
}

func (wd *zzvWorld) absSeq(origin, nh string, s uint64) int {
	if nh == "L" { // stored by a local add: the manager's own counter
		return int(s)
	}
	if a, ok := wd.seqAbs[s]; ok {
		return a
	}
	return -1
}

const zzvMaxAge = time.Hour

func zzvRaw(v any) json.RawMessage {
	b, _ := json.Marshal(v)
	return b
}

// ---------------------------------------------------------------------------------- projection of the real state

func (wd *zzvWorld) mkEntry(key json.RawMessage, origin, nh identity.AgentID, metric uint16, seq uint64,
	path []identity.AgentID, last time.Time, cv *int) zzvEntry {
	o, n := wd.name(origin), wd.name(nh)
	return zzvEntry{Key: key, Origin: o, Nh: n, Metric: int(metric), Seq: wd.absSeq(o, n, seq), Path: wd.pathNames(path),
		Old: time.Since(last) > zzvMaxAge, Cv: cv}
}

func (wd *zzvWorld) cidrEntry(r *Route) zzvEntry {
	ks, ok := wd.netKey[r.Network.String()]
	var key json.RawMessage
	if ok {
		k := zzvCidrKey{Fam: ks[:1], Bits: []int{}}
		for _, c := range ks[2:] {
			k.Bits = append(k.Bits, int(c-'0'))
		}
		key = zzvRaw(k)
	} else {
		key = zzvRaw("unknown-network " + r.Network.String())
	}
	return wd.mkEntry(key, r.OriginAgent, r.NextHop, r.Metric, r.Sequence, r.Path, r.LastUpdate, nil)
}

func (wd *zzvWorld) domEntry(r *DomainRoute) zzvEntry {
	ks, cv, ok := zzvDomAbs(r.Pattern)
	var key json.RawMessage
	if ok {
		k := zzvDomKey{Wild: strings.HasPrefix(ks, "*."), Name: strings.Split(strings.TrimPrefix(ks, "*."), ".")}
		// the parsed fields of the stored route must agree with its text
		if r.IsWildcard != k.Wild || strings.ToLower(r.BaseDomain) != strings.Join(k.Name, ".") {
			key = zzvRaw(fmt.Sprintf("inconsistent-pattern %q wild=%v base=%q", r.Pattern, r.IsWildcard, r.BaseDomain))
		} else {
			key = zzvRaw(k)
		}
	} else {
		key = zzvRaw("unknown-pattern " + r.Pattern)
	}
	return wd.mkEntry(key, r.OriginAgent, r.NextHop, r.Metric, r.Sequence, r.Path, r.LastUpdate, &cv)
}

func (wd *zzvWorld) fwdEntry(r *ForwardRoute) zzvEntry {
	return wd.mkEntry(zzvRaw(r.Key), r.OriginAgent, r.NextHop, r.Metric, r.Sequence, r.Path, r.LastUpdate, nil)
}

func (wd *zzvWorld) agtEntry(r *AgentRoute) zzvEntry {
	return wd.mkEntry(zzvRaw(wd.name(r.AgentID)), r.OriginAgent, r.NextHop, r.Metric, r.Sequence, r.Path, r.LastUpdate, nil)
}

func (wd *zzvWorld) table(tbl string) []zzvEntry {
	out := []zzvEntry{}
	switch tbl {
	case "cidr":
		for _, r := range wd.m.Table().GetAllRoutes() {
			out = append(out, wd.cidrEntry(r))
		}
	case "dom":
		for _, r := range wd.m.DomainTable().GetAllRoutes() {
			out = append(out, wd.domEntry(r))
		}
	case "fwd":
		for _, r := range wd.m.ForwardTable().GetAllRoutes() {
			out = append(out, wd.fwdEntry(r))
		}
	case "agt":
		for _, r := range wd.m.AgentTable().GetAllRoutes() {
			out = append(out, wd.agtEntry(r))
		}
	}
	sort.Slice(out, func(i, j int) bool { return zzvEntryStr(tbl, out[i], true) < zzvEntryStr(tbl, out[j], true) })
	return out
}

func (wd *zzvWorld) locCidr(rs []*LocalRoute) []zzvLoc {
	out := []zzvLoc{}
	for _, r := range rs {
		ks, ok := wd.netKey[r.Network.String()]
		if !ok {
			out = append(out, zzvLoc{Key: zzvRaw("unknown-network " + r.Network.String()), Metric: int(r.Metric)})
			continue
		}
		k := zzvCidrKey{Fam: ks[:1], Bits: []int{}}
		for _, c := range ks[2:] {
			k.Bits = append(k.Bits, int(c-'0'))
		}
		out = append(out, zzvLoc{Key: zzvRaw(k), Metric: int(r.Metric)})
	}
	sort.Slice(out, func(i, j int) bool { return string(out[i].Key) < string(out[j].Key) })
	return out
}

func (wd *zzvWorld) state() *zzvState {
	s := &zzvState{Cidr: wd.table("cidr"), Dom: wd.table("dom"), Fwd: wd.table("fwd"), Agt: wd.table("agt"),
		Lseq: int(wd.m.GetCurrentSequence()), Lcidr: wd.locCidr(wd.m.GetLocalRoutes()), Ldyn: wd.locCidr(wd.m.GetDynamicRoutes()),
		Ldom: []zzvLoc{}, Lfwd: []zzvLoc{}}
	for _, r := range wd.m.GetLocalDomainRoutes() {
		ks, cv, ok := zzvDomAbs(r.Pattern)
		if !ok {
			s.Ldom = append(s.Ldom, zzvLoc{Key: zzvRaw("unknown-pattern " + r.Pattern), Metric: int(r.Metric)})
			continue
		}
		c := cv
		s.Ldom = append(s.Ldom, zzvLoc{Key: zzvRaw(zzvDomKey{Wild: strings.HasPrefix(ks, "*."),
			Name: strings.Split(strings.TrimPrefix(ks, "*."), ".")}), Cv: &c, Metric: int(r.Metric)})
	}
	sort.Slice(s.Ldom, func(i, j int) bool {
		if string(s.Ldom[i].Key) != string(s.Ldom[j].Key) {
			return string(s.Ldom[i].Key) < string(s.Ldom[j].Key)
		}
		return *s.Ldom[i].Cv < *s.Ldom[j].Cv
	})
	for _, r := range wd.m.GetLocalForwardRoutes() {
		s.Lfwd = append(s.Lfwd, zzvLoc{Key: zzvRaw(r.Key), Metric: int(r.Metric)})
	}
	sort.Slice(s.Lfwd, func(i, j int) bool { return string(s.Lfwd[i].Key) < string(s.Lfwd[j].Key) })
	return s
}

// ---------------------------------------------------------------------------------- actions on the real manager

func (wd *zzvWorld) enc(path []identity.AgentID) *protocol.EncryptedData {
	if len(path) == 0 {
		return nil
	}
	return &protocol.EncryptedData{Encrypted: false, Data: protocol.EncodePath(path)}
}

func (wd *zzvWorld) ageAll() {
	past := time.Now().Add(-2 * zzvMaxAge)
	t := wd.m.Table()
	t.mu.Lock()
	for _, rs := range t.routes {
		for _, r := range rs {
			r.LastUpdate = past
		}
	}
	t.mu.Unlock()
	d := wd.m.DomainTable()
	d.mu.Lock()
	for _, mp := range d.allRouteMaps() {
		for _, rs := range mp {
			for _, r := range rs {
				r.LastUpdate = past
			}
		}
	}
	d.mu.Unlock()
	f := wd.m.ForwardTable()
	f.mu.Lock()
	for _, rs := range f.routes {
		for _, r := range rs {
			r.LastUpdate = past
		}
	}
	f.mu.Unlock()
	a := wd.m.AgentTable()
	a.mu.Lock()
	for _, rs := range a.routes {
		for _, r := range rs {
			r.LastUpdate = past
		}
	}
	a.mu.Unlock()
}

// text used to remove a domain pattern: the stored text of that origin's entry when there is one (the statement
// says nothing about letter case of removals), lower case otherwise
func (wd *zzvWorld) removalText(k zzvDomKey, origin identity.AgentID) string {
	low := wd.domText(k, 0)
	for _, r := range wd.m.DomainTable().GetAllRoutes() {
		if r.OriginAgent == origin && strings.EqualFold(r.Pattern, low) {
			return r.Pattern
		}
	}
	return low
}

func (wd *zzvWorld) fwdTarget(key string) string {
	return fmt.Sprintf("10.%d.%d.%d:%d", wd.rng.Intn(250), wd.rng.Intn(250), 1+wd.rng.Intn(250), 1+wd.rng.Intn(60000))
}

// apply executes one abstract action on the real manager and returns its result as a JSON literal.
func (wd *zzvWorld) apply(a *zzvAct) string {
	m := wd.m
	b := func(v bool) string { return fmt.Sprintf("%v", v) }
	switch a.Act {
	case "Advert":
		nh, o, seq, path := wd.id(a.Nh), wd.id(a.Origin), wd.realSeq(a.Origin, a.Seq), wd.path(a.Path)
		switch a.Tbl {
		case "cidr":
			var k zzvCidrKey
			json.Unmarshal(a.Key, &k)
			acc := m.ProcessRouteAdvertise(nh, o, seq, []RouteEntry{{Network: wd.net(k), Metric: uint16(a.M)}}, path, wd.enc(path))
			return b(len(acc) == 1)
		case "dom":
			var k zzvDomKey
			json.Unmarshal(a.Key, &k)
			acc := m.ProcessDomainRouteAdvertise(nh, o, seq, []DomainRouteEntry{{Pattern: wd.domText(k, a.Cv), IsWildcard: k.Wild,
				Metric: uint16(a.M)}}, path, wd.enc(path))
			return b(len(acc) == 1)
		case "fwd":
			var k string
			json.Unmarshal(a.Key, &k)
			tg := wd.fwdTarget(k)
			acc := m.ProcessForwardRouteAdvertise(nh, o, seq, []ForwardRouteEntry{{Key: k, Target: tg, Metric: uint16(a.M)}}, path, wd.enc(path))
			if len(acc) == 1 {
				wd.targets[fmt.Sprintf("%s|%s|%s", k, a.Origin, a.Nh)] = tg
			}
			return b(len(acc) == 1)
		case "agt":
			var k string
			json.Unmarshal(a.Key, &k)
			return b(m.ProcessAgentRouteAdvertise(nh, o, seq, wd.id(k), path, wd.enc(path), uint16(a.M)))
		}
	case "Withdraw":
		o := wd.id(a.Origin)
		switch a.Tbl {
		case "cidr":
			var k zzvCidrKey
			json.Unmarshal(a.Key, &k)
			return b(m.ProcessRouteWithdraw(o, []RouteEntry{{Network: wd.net(k)}}))
		case "dom":
			var k zzvDomKey
			json.Unmarshal(a.Key, &k)
			return b(m.DomainTable().RemoveRoute(wd.removalText(k, o), o))
		case "fwd":
			var k string
			json.Unmarshal(a.Key, &k)
			return b(m.ForwardTable().RemoveRoute(k, o))
		case "agt":
			var k string
			json.Unmarshal(a.Key, &k)
			return b(m.AgentTable().RemoveRoute(wd.id(k), o))
		}
	case "Disconnect":
		p := wd.id(a.P)
		switch a.Tbl {
		case "cidr":
			return fmt.Sprint(m.HandlePeerDisconnect(p))
		case "dom":
			return fmt.Sprint(m.HandlePeerDisconnectDomain(p))
		case "fwd":
			return fmt.Sprint(m.HandlePeerDisconnectForward(p))
		case "agt":
			return fmt.Sprint(m.HandlePeerDisconnectAgent(p))
		}
	case "AgeAll":
		wd.ageAll()
		return "true"
	case "Cleanup":
		switch a.Tbl {
		case "cidr":
			return fmt.Sprint(m.CleanupStaleRoutes(zzvMaxAge))
		case "dom":
			return fmt.Sprint(m.CleanupStaleDomainRoutes(zzvMaxAge))
		case "fwd":
			return fmt.Sprint(m.CleanupStaleForwardRoutes(zzvMaxAge))
		case "agt":
			return fmt.Sprint(m.CleanupStaleAgentRoutes(zzvMaxAge))
		}
	case "AddLocalCidr", "AddDynamic", "RemoveLocalCidr", "RemoveDynamic":
		var k zzvCidrKey
		json.Unmarshal(a.Key, &k)
		errStr := func(err error) string {
			switch {
			case err == nil:
				return `"ok"`
			case strings.Contains(err.Error(), "config route"):
				return `"config"`
			case strings.Contains(err.Error(), "not found"):
				return `"notfound"`
			}
			return fmt.Sprintf("%q", "error: "+err.Error())
		}
		switch a.Act {
		case "AddLocalCidr":
			return b(m.AddLocalRoute(wd.net(k), uint16(a.M)))
		case "RemoveLocalCidr":
			return b(m.RemoveLocalRoute(wd.net(k)))
		case "AddDynamic":
			return errStr(m.AddDynamicRoute(wd.net(k), uint16(a.M)))
		case "RemoveDynamic":
			return errStr(m.RemoveDynamicRoute(wd.net(k)))
		}
	case "AddLocalDom", "RemoveLocalDom":
		var k zzvDomKey
		json.Unmarshal(a.Key, &k)
		if a.Act == "AddLocalDom" {
			return b(m.AddLocalDomainRoute(wd.domText(k, a.Cv), uint16(a.M)))
		}
		return b(m.RemoveLocalDomainRoute(wd.domText(k, a.Cv)))
	case "AddLocalFwd", "RemoveLocalFwd":
		var k string
		json.Unmarshal(a.Key, &k)
		if a.Act == "AddLocalFwd" {
			return b(m.AddLocalForwardRoute(k, wd.fwdTarget(k), uint16(a.M)))
		}
		return b(m.RemoveLocalForwardRoute(k))
	}
	panic("zzv: unknown action " + a.Act + "/" + a.Tbl)
}

// lookup performs the real lookup; hit=false when the code returns nothing.
func (wd *zzvWorld) lookup(tbl string, q json.RawMessage, cv int) (zzvEntry, bool, string) {
	switch tbl {
	case "cidr":
		var a zzvAddr
		json.Unmarshal(q, &a)
		ip := wd.ip(a)
		r := wd.m.Lookup(ip)
		if r == nil {
			return zzvEntry{}, false, ip.String()
		}
		// Manager.LookupNextHop must agree with Manager.Lookup
		if nh, ok := wd.m.LookupNextHop(ip); !ok || nh != r.NextHop {
			e := wd.cidrEntry(r)
			e.Nh = "lookup-nexthop-disagrees"
			return e, true, ip.String()
		}
		return wd.cidrEntry(r), true, ip.String()
	case "dom":
		var n []string
		json.Unmarshal(q, &n)
		text := zzvCase(strings.Join(n, "."), cv)
		r := wd.m.LookupDomain(text)
		if r == nil {
			return zzvEntry{}, false, text
		}
		return wd.domEntry(r), true, text
	case "fwd":
		var k string
		json.Unmarshal(q, &k)
		r := wd.m.LookupForward(k)
		if r == nil {
			return zzvEntry{}, false, k
		}
		return wd.fwdEntry(r), true, k
	case "agt":
		var k string
		json.Unmarshal(q, &k)
		r := wd.m.LookupAgent(wd.id(k))
		if r == nil {
			return zzvEntry{}, false, k
		}
		return wd.agtEntry(r), true, k
	}
	panic("zzv: lookup table " + tbl)
}

// ---------------------------------------------------------------------------------- spec -> code: graph walk

type zzvAlt struct {
	Res json.RawMessage `json:"res"`
	T   int             `json:"t"`
}
type zzvGroup struct {
	A    zzvAct   `json:"a"`
	Alts []zzvAlt `json:"alts"`
}
type zzvQ struct {
	Q  json.RawMessage `json:"q"`
	Ok []zzvEntry      `json:"ok"`
}
type zzvLk struct {
	Cidr []zzvQ `json:"cidr"`
	Dom  []zzvQ `json:"dom"`
	Fwd  []zzvQ `json:"fwd"`
	Agt  []zzvQ `json:"agt"`
}
type zzvGraph struct {
	Name     string       `json:"name"`
	W        int          `json:"w"`
	Agents   []string     `json:"agents"`
	OrigHasL bool         `json:"orig_has_l"`
	NSeq     int          `json:"nseq"` // abstract sequences of the model are 0..nseq-1
	CaseVars []int        `json:"casevars"`
	Nodes    []zzvState   `json:"nodes"`
	Init     int          `json:"init"`
	Out      [][]zzvGroup `json:"out"`
	Lk       []zzvLk      `json:"lk"`
}
type zzvWalkIn struct {
	Graphs []zzvGraph `json:"graphs"`
	MaxLen int        `json:"maxlen"`
}

func (g *zzvGraph) queries(n int, tbl string) []zzvQ {
	switch tbl {
	case "cidr":
		return g.Lk[n].Cidr
	case "dom":
		return g.Lk[n].Dom
	case "fwd":
		return g.Lk[n].Fwd
	}
	return g.Lk[n].Agt
}

// checkLookups looks up every query of node n on the real manager and compares with the acceptable sets.
func zzvCheckLookups(wd *zzvWorld, g *zzvGraph, n int, rep func(rec map[string]any)) (done int) {
	for _, tbl := range []string{"cidr", "dom", "fwd", "agt"} {
		for _, q := range g.queries(n, tbl) {
			cvs := []int{0}
			if tbl == "dom" {
				cvs = []int{0, 1, 2}
			}
			for _, cv := range cvs {
				e, hit, text := wd.lookup(tbl, q.Q, cv)
				done++
				ok := false
				if !hit {
					ok = len(q.Ok) == 0
				} else {
					for _, x := range q.Ok {
						if zzvEntryStr(tbl, x, true) == zzvEntryStr(tbl, e, true) {
							ok = true
						}
					}
				}
				if !ok {
					real := "nothing"
					if hit {
						real = zzvEntryStr(tbl, e, true)
					}
					rep(map[string]any{"graph": g.Name, "node": n, "tbl": tbl, "q": q.Q, "cv": cv, "text": text, "real": real,
						"acceptable": zzvCanonEntries(tbl, q.Ok), "state": zzvCanonState(&g.Nodes[n])})
				}
			}
		}
	}
	return
}

func TestZZVRouteWalk(t *testing.T) {
	var in zzvWalkIn
	zzvLoad(t, "ZZV_IN", &in)
	if in.MaxLen == 0 {
		in.MaxLen = 60
	}
	rng := mrand.New(mrand.NewSource(zzvSeed()))
	for gi := range in.Graphs {
		g := &in.Graphs[gi]
		canon := make([]string, len(g.Nodes))
		for i := range g.Nodes {
			canon[i] = zzvCanonState(&g.Nodes[i])
		}
		covered := make([][]bool, len(g.Out))
		total := 0
		for i := range g.Out {
			covered[i] = make([]bool, len(g.Out[i]))
			total += len(g.Out[i])
		}
		remaining, budget := total, 40*total+2000
		exhibited := map[[3]int]bool{}
		steps, walks, mism, lkmism, lookups := 0, 0, 0, 0, 0
		var sample []any
		// first group on a shortest route from `from` to a node that still has an uncovered group
		bfs := func(from int) int {
			type pred struct{ node, first int }
			seen := map[int]int{from: -1} // node -> first group index taken at `from`
			q := []int{from}
			for len(q) > 0 {
				var nq []int
				for _, u := range q {
					if u != from {
						for j := range g.Out[u] {
							if !covered[u][j] {
								return seen[u]
							}
						}
					}
					for j, grp := range g.Out[u] {
						for _, alt := range grp.Alts {
							if _, ok := seen[alt.T]; !ok {
								f := seen[u]
								if u == from {
									f = j
								}
								seen[alt.T] = f
								nq = append(nq, alt.T)
							}
						}
					}
				}
				q = nq
			}
			return -1
		}
		stuck := false
		for remaining > 0 && budget > 0 && !stuck {
			walks++
			wd := zzvNewWorld(rng, g.W, g.Agents, !g.OrigHasL && rng.Intn(4) > 0, g.NSeq)
			cur := g.Init
			if c := zzvCanonState(wd.state()); c != canon[cur] {
				t.Fatalf("graph %s: a fresh manager does not project to the initial state: %s", g.Name, c)
			}
			var trail []any
			for n := 0; n < in.MaxLen && budget > 0; n++ {
				gidx := -1
				for j := range g.Out[cur] {
					if !covered[cur][j] {
						gidx = j
						break
					}
				}
				if gidx < 0 {
					gidx = bfs(cur)
					if gidx < 0 {
						if n == 0 {
							stuck = true
						}
						break
					}
				}
				grp := &g.Out[cur][gidx]
				res := wd.apply(&grp.A)
				st := wd.state()
				c := zzvCanonState(st)
				steps++
				budget--
				if !covered[cur][gidx] {
					covered[cur][gidx] = true
					remaining--
				}
				trail = append(trail, grp.A)
				next := -1
				for ai, alt := range grp.Alts {
					if strings.TrimSpace(string(alt.Res)) == res && canon[alt.T] == c {
						next = alt.T
						exhibited[[3]int{cur, gidx, ai}] = true
						break
					}
				}
				if next < 0 {
					mism++
					var alts []any
					for _, alt := range grp.Alts {
						alts = append(alts, map[string]any{"res": alt.Res, "t": canon[alt.T]})
					}
					if mism <= 40 {
						zzvEmit("mismatch", map[string]any{"graph": g.Name, "node": cur, "s": canon[cur], "a": grp.A, "real_res": res,
							"real_t": c, "spec": alts, "trail": trail,
							"real_sequence_of_abstract": fmt.Sprint(wd.seqReal)})
					}
					break
				}
				cur = next
				lookups += zzvCheckLookups(wd, g, cur, func(rec map[string]any) {
					lkmism++
					if lkmism <= 40 {
						rec["trail"] = trail
						zzvEmit("lkmismatch", rec)
					}
				})
			}
			if len(sample) < 2 && len(trail) > 3 {
				sample = append(sample, trail[:minIntRT(len(trail), 8)])
			}
		}
		edges := 0
		for i := range g.Out {
			for j := range g.Out[i] {
				edges += len(g.Out[i][j].Alts)
			}
		}
		zzvEmit("summary", map[string]any{"graph": g.Name, "nodes": len(g.Nodes), "groups": total, "uncovered": remaining,
			"edges": edges, "edges_exhibited": len(exhibited), "steps": steps, "walks": walks, "mismatches": mism,
			"lkmismatches": lkmism, "lookups": lookups, "sample": sample})
	}
}

func minIntRT(a, b int) int {
	if a < b {
		return a
	}
	return b
}

// ---------------------------------------------------------------------------------- code -> spec: random histories

type zzvTraceW struct {
	w   *bufio.Writer
	n   int
	err error
}

func (tw *zzvTraceW) ev(rec map[string]any) {
	b, err := json.Marshal(rec)
	if err != nil && tw.err == nil {
		tw.err = err
	}
	tw.w.Write(b)
	tw.w.WriteByte('\n')
	tw.n++
}

func TestZZVRouteTrace(t *testing.T) {
	ntraces := zzvEnvInt("ZZV_TRACES", 20)
	nops := zzvEnvInt("ZZV_OPS", 200)
	tables := strings.Split(os.Getenv("ZZV_TABLES"), ",")
	if os.Getenv("ZZV_TABLES") == "" {
		tables = []string{"cidr", "dom", "fwd", "agt"}
	}
	corrupt := zzvEnvInt("ZZV_CORRUPT", 0) // self-test of the binding: falsify one logged field of the n-th event
	fn := os.Getenv("ZZV_OUT")
	f, err := os.Create(fn)
	if err != nil {
		t.Fatal(err)
	}
	defer f.Close()
	tw := &zzvTraceW{w: bufio.NewWriterSize(f, 1<<20)}
	defer tw.w.Flush()
	rng := mrand.New(mrand.NewSource(zzvSeed()*7919 + 11 + int64(zzvEnvInt("ZZV_CHUNK", 0))*104729))
	const W = 3
	agents := []string{"a", "b", "c", "p", "q", "r"}
	peers := []string{"p", "q", "r"}
	metrics := []int{0, 0, 1, 1, 2, 3, 7, 300, 65000}
	fwdKeys := []string{"web", "WEB", "db", "cache-1", "Web"}
	agtKeys := []string{"a", "b", "c", "p"}
	bases := [][]string{{"x", "com"}, {"y", "org"}, {"x-1", "com"}}
	counts := map[string]int{}
	hits, misses, tie := 0, 0, 0
	var sample []any
	pick := func(xs []string) string { return xs[rng.Intn(len(xs))] }
	for tr := 0; tr < ntraces; tr++ {
		wd := zzvNewWorld(rng, W, agents, false, 0) // abstract sequence i = i-th point of zzvSeqPoints, all in one history
		tw.ev(map[string]any{"ev": "Reset", "trace": tr})
		// this trace's universe
		var pfx []zzvCidrKey
		for len(pfx) < 9 {
			fam := "4"
			if rng.Intn(3) == 0 {
				fam = "6"
			}
			k := zzvCidrKey{Fam: fam, Bits: []int{}}
			for i, n := 0, rng.Intn(W+1); i < n; i++ {
				// mostly symbol 0: nested chains
				s := 0
				if rng.Intn(3) == 0 {
					s = 1
				}
				k.Bits = append(k.Bits, s)
			}
			pfx = append(pfx, k)
		}
		var names [][]string
		for _, b := range bases {
			names = append(names, b)
			for _, l := range []string{"a", "b"} {
				n1 := append([]string{l}, b...)
				names = append(names, n1)
				for _, l2 := range []string{"a", "b"} {
					names = append(names, append([]string{l2}, n1...))
				}
			}
		}
		names = append(names, []string{"com"}, []string{"z", "com"})
		randKey := func(tbl string) any {
			switch tbl {
			case "cidr":
				return pfx[rng.Intn(len(pfx))]
			case "dom":
				n := names[rng.Intn(len(names))]
				for len(n) > 3 {
					n = n[1:]
				}
				return zzvDomKey{Wild: rng.Intn(2) == 0, Name: n}
			case "fwd":
				return pick(fwdKeys)
			}
			return pick(agtKeys)
		}
		stOf := func(tbl string) []zzvEntry { return wd.table(tbl) }
		for op := 0; op < nops; op++ {
			tbl := tables[rng.Intn(len(tables))]
			r := rng.Intn(100)
			var rec map[string]any
			switch {
			case r < 42: // advertisement
				o, p := pick(agents), pick(peers)
				seq := rng.Intn(len(zzvSeqPoints))
				if rng.Intn(25) == 0 {
					// an advertisement claiming the local agent as origin competes with the manager's own small
					// counter: keep it in the range where abstract = real
					o = "L"
					seq = rng.Intn(3)
				}
				if tbl == "agt" && rng.Intn(4) > 0 {
					// normally the advertised agent is the origin
				}
				var path []string
				switch x := rng.Intn(20); {
				case x == 0:
					path = []string{}
				case x == 1:
					path = []string{p, "L", o}
				case x == 2:
					path = []string{p, pick(agents), "L"}
				case x < 6:
					path = []string{p, pick(agents), o}
				case o == p:
					path = []string{p}
				default:
					path = []string{p, o}
				}
				key := randKey(tbl)
				if tbl == "agt" && rng.Intn(4) > 0 {
					key = o
					if o == "L" {
						key = "a"
					}
				}
				a := &zzvAct{Act: "Advert", Tbl: tbl, Key: zzvRaw(key), Origin: o, Nh: p, M: metrics[rng.Intn(len(metrics))],
					Seq: seq, Path: path, Cv: 0}
				if tbl == "dom" {
					a.Cv = rng.Intn(3)
				}
				res := wd.apply(a)
				rec = map[string]any{"ev": "Advert", "tbl": tbl, "key": key, "origin": o, "nh": p, "m": a.M, "seq": a.Seq,
					"path": path, "cv": a.Cv, "res": res == "true", "st": stOf(tbl)}
			case r < 50: // withdrawal / removal
				o := pick(append(agents, "L"))
				key := randKey(tbl)
				if es := stOf(tbl); len(es) > 0 && rng.Intn(3) > 0 { // mostly an existing entry
					e := es[rng.Intn(len(es))]
					o = e.Origin
					var kv any
					json.Unmarshal(e.Key, &kv)
					key = kv
				}
				a := &zzvAct{Act: "Withdraw", Tbl: tbl, Key: zzvRaw(key), Origin: o}
				res := wd.apply(a)
				rec = map[string]any{"ev": "Withdraw", "tbl": tbl, "key": key, "origin": o, "res": res == "true", "st": stOf(tbl)}
			case r < 54:
				p := pick(peers)
				var n int
				fmt.Sscan(wd.apply(&zzvAct{Act: "Disconnect", Tbl: tbl, P: p}), &n)
				rec = map[string]any{"ev": "Disconnect", "tbl": tbl, "p": p, "res": n, "st": stOf(tbl)}
			case r < 57:
				wd.apply(&zzvAct{Act: "AgeAll"})
				rec = map[string]any{"ev": "AgeAll", "cidr": stOf("cidr"), "dom": stOf("dom"), "fwd": stOf("fwd"), "agt": stOf("agt")}
			case r < 62:
				var n int
				fmt.Sscan(wd.apply(&zzvAct{Act: "Cleanup", Tbl: tbl}), &n)
				rec = map[string]any{"ev": "Cleanup", "tbl": tbl, "res": n, "st": stOf(tbl)}
			case r < 74: // local routes
				m := []int{0, 0, 1, 5}[rng.Intn(4)]
				switch tbl {
				case "cidr":
					key := pfx[rng.Intn(len(pfx))]
					act := []string{"AddLocalCidr", "AddLocalCidr", "AddDynamic", "AddDynamic", "RemoveLocalCidr", "RemoveDynamic"}[rng.Intn(6)]
					res := wd.apply(&zzvAct{Act: act, Key: zzvRaw(key), M: m})
					var rv any
					json.Unmarshal([]byte(res), &rv)
					s := wd.state()
					rec = map[string]any{"ev": act, "key": key, "m": m, "res": rv, "st": s.Cidr, "lseq": s.Lseq, "lcidr": s.Lcidr, "ldyn": s.Ldyn}
				case "dom":
					key := randKey("dom")
					cv := rng.Intn(3)
					act := []string{"AddLocalDom", "AddLocalDom", "RemoveLocalDom"}[rng.Intn(3)]
					if act == "RemoveLocalDom" && rng.Intn(3) > 0 {
						if s := wd.state(); len(s.Ldom) > 0 {
							l := s.Ldom[rng.Intn(len(s.Ldom))]
							var k zzvDomKey
							json.Unmarshal(l.Key, &k)
							key, cv = k, *l.Cv
						}
					}
					res := wd.apply(&zzvAct{Act: act, Key: zzvRaw(key), M: m, Cv: cv})
					s := wd.state()
					rec = map[string]any{"ev": act, "key": key, "cv": cv, "m": m, "res": res == "true", "st": s.Dom, "lseq": s.Lseq, "ldom": s.Ldom}
				case "fwd":
					key := pick(fwdKeys)
					act := []string{"AddLocalFwd", "AddLocalFwd", "RemoveLocalFwd"}[rng.Intn(3)]
					res := wd.apply(&zzvAct{Act: act, Key: zzvRaw(key), M: m})
					s := wd.state()
					rec = map[string]any{"ev": act, "key": key, "m": m, "res": res == "true", "st": s.Fwd, "lseq": s.Lseq, "lfwd": s.Lfwd}
				default:
					continue
				}
			default: // lookup
				var q any
				cv := 0
				switch tbl {
				case "cidr":
					a := zzvAddr{Form: []string{"4", "4", "m", "6"}[rng.Intn(4)], Bits: []int{}}
					for i := 0; i < W; i++ {
						s := 0
						switch x := rng.Intn(10); {
						case x < 3:
							s = 1
						case x == 3:
							s = 2
						}
						a.Bits = append(a.Bits, s)
					}
					q = a
				case "dom":
					q = names[rng.Intn(len(names))]
					cv = rng.Intn(3)
				case "fwd":
					q = pick(append(fwdKeys, "nope"))
				case "agt":
					q = pick(agents)
				}
				e, hit, _ := wd.lookup(tbl, zzvRaw(q), cv)
				if hit {
					hits++
					// how often did the lookup have to break a metric tie or choose among several candidates
					n := 0
					for _, x := range stOf(tbl) {
						if string(x.Key) == string(e.Key) {
							n++
						}
					}
					if n > 1 {
						tie++
					}
				} else {
					misses++
					e = zzvEntry{Key: zzvRaw(""), Path: []string{}}
				}
				rec = map[string]any{"ev": "Lookup", "tbl": tbl, "q": q, "cv": cv, "hit": hit,
					"res": map[string]any{"key": e.Key, "origin": e.Origin, "nh": e.Nh, "metric": e.Metric, "seq": e.Seq}}
			}
			counts[rec["ev"].(string)]++
			if corrupt > 0 && tw.n == corrupt {
				// falsify the event: a different result for calls, a different metric for lookups
				switch v := rec["res"].(type) {
				case bool:
					rec["res"] = !v
				case int:
					rec["res"] = v + 1
				case map[string]any:
					v["metric"] = v["metric"].(int) + 1
					rec["hit"] = true
				default:
					rec["ev"] = "Cleanup"
					rec["tbl"] = "cidr"
					rec["res"] = 77
					rec["st"] = []zzvEntry{}
				}
			}
			tw.ev(rec)
			if tr == 0 && op < 6 {
				sample = append(sample, rec)
			}
		}
	}
	if tw.err != nil {
		t.Fatal(tw.err)
	}
	zzvEmit("summary", map[string]any{"traces": ntraces, "events": tw.n, "counts": counts, "lookup_hits": hits,
		"lookup_misses": misses, "lookup_multi_candidate": tie, "sample": sample})
}
