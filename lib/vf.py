# Core library of the /verif framework (python3 stdlib only).
#
# A check module (checks/Cxx.py) defines  run(ctx)  and uses:
#   ctx.tlc(...)        run TLC on a module of /verif/spec in a scratch copy
#   ctx.gotest(...)     run an overlay-injected Go harness inside $VERIF_REPO
#   ctx.finding(...)    report a property violation observed on the REAL code
#   ctx.evidence(...)   describe what the run covered
# Exit codes: 0 held (KNOWN-FINDING lines allowed), 1 VIOLATION, 2 infrastructure.
import json, os, re, shutil, subprocess, sys, tempfile, time, random, hashlib, glob

VERIF = os.path.dirname(os.path.dirname(os.path.abspath(__file__)))
SPEC = os.path.join(VERIF, "spec")
HARNESS = os.path.join(VERIF, "harness")
EVID = os.path.join(VERIF, "evidence")
REPLAY = os.path.join(VERIF, "out", "replay")
KNOWN = os.path.join(VERIF, "known_findings.json")
TLA_CP = "/opt/veriftools/tla/tla2tools.jar:/opt/veriftools/tla/CommunityModules-deps.jar"
NCPU = os.cpu_count() or 4


class Infra(Exception):
    """Infrastructure problem: never a verdict (exit 2)."""


def goenv(extra=None):
    env = dict(os.environ)
    # /repo needs the cached go1.24 auto toolchain switch: GOTOOLCHAIN=local and
    # GOSUMDB=off both break it in this sandbox.
    for k in ("GOTOOLCHAIN", "GOSUMDB", "GONOSUMDB", "GONOSUMCHECK", "GOFLAGS"):
        env.pop(k, None)
    env["GOFLAGS"] = "-mod=mod"
    env["GOPROXY"] = "off"
    if extra:
        env.update({k: str(v) for k, v in extra.items()})
    return env


class TLCResult:
    def __init__(self):
        self.rc = None
        self.out = ""
        self.generated = 0
        self.distinct = 0
        self.ok = False           # finished, no error
        self.violated = None      # name of violated invariant / property, or "deadlock"
        self.trace = None         # counterexample (list of states as dicts) if dumped
        self.edges = []           # decoded EDGE records
        self.prints = []          # other decoded PrintT JSON records: (tag, obj)
        self.coverage = {}        # action name -> count (when coverage=True)
        self.wall = 0.0
        self.depth = 0

    def __repr__(self):
        return "TLC(rc=%s gen=%d distinct=%d ok=%s violated=%s edges=%d)" % (
            self.rc, self.generated, self.distinct, self.ok, self.violated, len(self.edges))


_tagline = re.compile(r'^"([A-Z][A-Z0-9_]*) (.*)"$')


def _unquote_tla(s):
    # TLC prints strings with \" and \\ escapes; that is also valid JSON string syntax
    try:
        return json.loads('"' + s + '"')
    except Exception:
        return s.replace('\\"', '"').replace("\\\\", "\\")


def parse_tlc_output(text, res, tags=("EDGE",)):
    for line in text.splitlines():
        m = _tagline.match(line)
        if m:
            tag, body = m.group(1), _unquote_tla(m.group(2))
            try:
                obj = json.loads(body)
            except Exception:
                continue
            if tag == "EDGE":
                res.edges.append(obj)
            else:
                res.prints.append((tag, obj))
            continue
        m = re.match(r"^(\d+) states generated, (\d+) distinct states found", line)
        if m:
            res.generated, res.distinct = int(m.group(1)), int(m.group(2))
        m = re.match(r"^The depth of the complete state graph search is (\d+)", line)
        if m:
            res.depth = int(m.group(1))
        m = re.match(r"^Error: Invariant (\S+) is violated", line)
        if m:
            res.violated = m.group(1)
        m = re.match(r"^Error: Action property (\S+) is violated", line)
        if m:
            res.violated = m.group(1)
        if line.startswith("Error: Deadlock reached"):
            res.violated = "deadlock"
        if line.startswith("Error: Temporal properties were violated"):
            res.violated = res.violated or "temporal"
        if line.startswith("Error: Postcondition"):
            res.violated = res.violated or "postcondition"
        m = re.match(r"^<(\w+) line \d+, col \d+ to line \d+, col \d+ of module \w+>: (\d+):(\d+)", line)
        if m:
            res.coverage[m.group(1)] = res.coverage.get(m.group(1), 0) + int(m.group(3))
    if "Model checking completed. No error has been found." in text or \
       ("Finished in" in text and "Error:" not in text and res.violated is None):
        res.ok = res.violated is None


class GoResult:
    def __init__(self):
        self.rc = None
        self.out = ""
        self.records = []   # decoded "ZZV {json}" lines
        self.wall = 0.0

    def of(self, kind):
        return [r for r in self.records if r.get("k") == kind]


class Ctx:
    def __init__(self, pid, tier, seed, replay=None):
        self.pid = pid
        self.tier = tier
        self.seed = seed
        self.replay = replay
        self.repo = os.environ.get("VERIF_REPO", "/repo")
        self.t0 = time.time()
        self.work = tempfile.mkdtemp(prefix="vf-%s-" % pid, dir=os.environ.get("VERIF_TMP", "/tmp"))
        self.rng = random.Random(seed)
        self.violations = []     # (key, what, path)
        self.known_hits = []     # (key, what)
        self.cov = {}
        self.level = None
        self.assumptions = []
        self.notes = []
        self._n = 0
        self.known = self._load_known()

    # ---------------------------------------------------------------- misc
    def quick(self):
        return self.tier == "quick"

    def log(self, *a):
        print("[%s %6.1fs]" % (self.pid, time.time() - self.t0), *a, flush=True)

    def scratch(self, name):
        d = os.path.join(self.work, name)
        os.makedirs(d, exist_ok=True)
        return d

    def cleanup(self):
        if os.environ.get("VERIF_KEEP"):
            self.log("keeping scratch", self.work)
            return
        shutil.rmtree(self.work, ignore_errors=True)

    def _load_known(self):
        out = []
        for fn in [KNOWN] + sorted(glob.glob(os.path.join(VERIF, "known_findings.d", "*.json"))):
            try:
                with open(fn) as f:
                    out.extend(json.load(f).get("findings", []))
            except FileNotFoundError:
                pass
        return out

    # ---------------------------------------------------------------- TLC
    def tlc(self, module, cfg=None, *, files=None, workers=None, timeout=900, simulate=None,
            depth=None, coverage=False, deadlock=False, env=None, tags=("EDGE",), view_check=True,
            dfid=None, heap=None, expect_violation=False, name=None, dump_trace=True, queue_dfs=False):
        """Run TLC on spec/<module>.tla with cfg (file name in spec/, or None -> <module>.cfg).
        files: {name: text} extra/generated files written into the scratch copy
        simulate: e.g. "num=1000" -> -simulate num=1000 ; depth for -depth
        Returns TLCResult. Raises Infra on parse errors / timeouts / OOM."""
        self._n += 1
        d = self.scratch("tlc%d" % self._n)
        for f in glob.glob(os.path.join(SPEC, "*")):
            if os.path.isfile(f):
                shutil.copy(f, d)
        for fn, text in (files or {}).items():
            with open(os.path.join(d, fn), "w") as f:
                f.write(text)
        cfgname = cfg or (module + ".cfg")
        if workers is None:
            workers = min(NCPU, 8) if not self.quick() else min(NCPU, 4)
        jopts = ["-XX:+UseParallelGC", "-Xss64m"]
        jopts.append("-Xmx%s" % (heap or "6g"))
        if queue_dfs:
            jopts.append("-Dtlc2.tool.queue.IStateQueue=StateDeque")
        cmd = ["java"] + jopts + ["-cp", TLA_CP, "tlc2.TLC", "-config", cfgname,
                                  "-metadir", os.path.join(d, "states"), "-workers", str(workers),
                                  "-noGenerateSpecTE"]
        if not deadlock:
            cmd.append("-deadlock")   # -deadlock = do NOT check for deadlock
        if coverage:
            cmd += ["-coverage", "1"]
        if simulate:
            cmd += ["-simulate", simulate]
            if depth:
                cmd += ["-depth", str(depth)]
            cmd += ["-seed", str(self.seed)]
        if dfid:
            cmd += ["-dfid", str(dfid)]
        tracefile = os.path.join(d, "cex.json")
        if dump_trace and not simulate:
            cmd += ["-dumpTrace", "json", tracefile]
        cmd.append(module + ".tla")
        e = dict(os.environ)
        e.pop("JAVA_TOOL_OPTIONS", None)
        if env:
            e.update({k: str(v) for k, v in env.items()})
        t = time.time()
        try:
            p = subprocess.run(cmd, cwd=d, env=e, stdout=subprocess.PIPE, stderr=subprocess.STDOUT,
                               timeout=timeout, text=True, errors="replace")
        except subprocess.TimeoutExpired:
            raise Infra("TLC timeout after %ss on %s/%s" % (timeout, module, cfgname))
        res = TLCResult()
        res.rc, res.out, res.wall = p.returncode, p.stdout, time.time() - t
        parse_tlc_output(p.stdout, res, tags)
        if os.path.exists(tracefile):
            try:
                with open(tracefile) as f:
                    res.trace = json.load(f)
            except Exception:
                res.trace = None
        bad = None
        for pat in ("Parsing or semantic analysis failed", "java.lang.OutOfMemoryError", "StackOverflowError",
                    "TLC threw an unexpected exception", "Error: TLC encountered", "was not found",
                    "Error: Evaluating", "Error: The configuration file", "Error: In evaluation",
                    "Error: Attempted to", "Error: The invariant", "Error: TLC was unable",
                    "Unknown operator", "Error: Parsing"):
            if pat in p.stdout:
                bad = pat
                break
        if bad and res.violated is None:
            self._keep_log(d, p.stdout, name or module)
            raise Infra("TLC failure (%s) on %s/%s:\n%s" % (bad, module, cfgname, _tail(p.stdout, 40)))
        if not res.ok and res.violated is None and not simulate:
            self._keep_log(d, p.stdout, name or module)
            raise Infra("TLC did not finish cleanly on %s/%s rc=%s:\n%s" % (module, cfgname, p.returncode, _tail(p.stdout, 40)))
        if simulate and res.violated is None:
            res.ok = True
        self.log("TLC %s/%s: %d generated, %d distinct, %d edges, %.1fs%s" % (
            module, cfgname, res.generated, res.distinct, len(res.edges), res.wall,
            (" VIOLATED " + str(res.violated)) if res.violated else ""))
        if res.violated and not expect_violation:
            self._keep_log(d, p.stdout, name or module)
        return res

    def _keep_log(self, d, text, name):
        os.makedirs(os.path.join(VERIF, "out", "logs"), exist_ok=True)
        fn = os.path.join(VERIF, "out", "logs", "%s-%s-tlc.log" % (self.pid, name))
        with open(fn, "w") as f:
            f.write(text[-400000:])
        return fn

    def validate_trace(self, module, cfg, tracefile, *, name=None, timeout=900, queue_dfs=False, env=None):
        """Trace validation (code -> spec).  <module>.tla must follow the convention of spec/TraceSession.tla:
        reads IOEnv.TRACE_FILE, keeps the high-water mark of consumed events in TLCSet(1, ..) and its POSTCONDITION
        prints "HW <n>" and "LEN <n>".  Returns dict(accepted, hw, len, violated, event, context, res)."""
        e = {"TRACE_FILE": tracefile}
        e.update(env or {})
        res = self.tlc(module, cfg, workers=1, env=e, expect_violation=True, name=name or module, timeout=timeout,
                       queue_dfs=queue_dfs, dump_trace=False)
        hw = [o for t, o in res.prints if t == "HW"]
        ln = [o for t, o in res.prints if t == "LEN"]
        events = []
        with open(tracefile) as f:
            for line in f:
                line = line.strip()
                if line:
                    events.append(json.loads(line))
        if res.violated and res.violated != "postcondition":
            # an invariant failed on a state of the recorded execution
            return {"accepted": False, "hw": hw[-1] if hw else None, "len": len(events), "violated": res.violated,
                    "event": None, "context": None, "res": res, "events": events}
        if not hw or not ln:
            raise Infra("trace validation did not reach its postcondition:\n" + _tail(res.out, 40))
        h, n = hw[-1], ln[-1]
        ok = (h == n + 1)
        ev = events[h - 1] if (not ok and 0 < h <= len(events)) else None
        return {"accepted": ok, "hw": h, "len": n, "violated": None if ok else "rejected", "event": ev,
                "context": events[max(0, h - 10):h] if not ok else None, "res": res, "events": events}

    # --------------------------------------------------------------- Go harness
    def overlay(self, pkg_files, extra_replace=None):
        """pkg_files: {pkg (dir under internal/, or path rel. to repo): [harness file paths rel. to /verif/harness
        or absolute]}.  Returns path of overlay json."""
        rep = {}
        for pkg, files in pkg_files.items():
            pdir = pkg if "/" in pkg and not pkg.startswith("internal/") and os.path.isabs(pkg) else os.path.join(
                self.repo, pkg if pkg.startswith(("internal/", "cmd/")) else "internal/" + pkg)
            pkgname = os.path.basename(pdir)
            for f in files:
                src = f if os.path.isabs(f) else os.path.join(HARNESS, f)
                base = os.path.basename(src)
                if base.endswith(".tmpl"):
                    # template: substitute the package name
                    base = base[:-5]
                    with open(src) as fh:
                        text = fh.read().replace("package PKG", "package " + pkgname, 1)
                    gen = os.path.join(self.scratch("gen-" + pkgname), base)
                    with open(gen, "w") as fh:
                        fh.write(text)
                    src = gen
                rep[os.path.join(pdir, "zz_verif_" + base)] = src
        if extra_replace:
            rep.update(extra_replace)
        self._n += 1
        ov = os.path.join(self.work, "overlay%d.json" % self._n)
        with open(ov, "w") as f:
            json.dump({"Replace": rep}, f)
        return ov

    def gotest(self, pkg, files, run, *, env=None, race=False, timeout=900, tags="verif", extra_pkgs=None,
               count=1, args=None, allow_fail=False, extra_replace=None):
        """Run `go test` for internal/<pkg> of $VERIF_REPO with harness files injected by -overlay.
        files: list of harness files for <pkg>; extra_pkgs: {pkg: [files]} for further injected packages.
        The harness prints records as lines 'ZZV {json}'. Returns GoResult.
        A non-zero exit that is a build failure or a timeout raises Infra; a test FAIL is returned
        (harnesses report verdicts through records, and t.Fatal only for infrastructure)."""
        pf = {pkg: list(files)}
        for k, v in (extra_pkgs or {}).items():
            pf.setdefault(k, []).extend(v)
        ov = self.overlay(pf, extra_replace)
        pdir = "./" + (pkg if pkg.startswith(("internal/", "cmd/")) else "internal/" + pkg) + "/"
        cmd = ["go", "test", "-v", "-overlay", ov, "-vet=off", "-count=%d" % count, "-run", run,
               "-timeout", "%ds" % timeout]
        if tags:
            cmd += ["-tags", tags]
        if race:
            cmd.append("-race")
        cmd.append(pdir)
        if args:
            cmd += ["-args"] + list(args)
        e = goenv(env)
        e["VERIF_SEED"] = str(self.seed)
        e["VERIF_TIER"] = self.tier
        e["ZZV_WORK"] = self.work
        t = time.time()
        try:
            p = subprocess.run(cmd, cwd=self.repo, env=e, stdout=subprocess.PIPE, stderr=subprocess.STDOUT,
                               timeout=timeout + 120, text=True, errors="replace")
        except subprocess.TimeoutExpired:
            raise Infra("go test timeout (%s %s)" % (pkg, run))
        r = GoResult()
        r.rc, r.out, r.wall = p.returncode, p.stdout, time.time() - t
        for line in p.stdout.splitlines():
            i = line.find("ZZV {")
            if i >= 0:
                try:
                    r.records.append(json.loads(line[i + 4:]))
                except Exception:
                    pass
        self.log("go test %s -run %s: rc=%d, %d records, %.1fs" % (pkg, run, r.rc, len(r.records), r.wall))
        if p.returncode != 0:
            if "[build failed]" in p.stdout or "[setup failed]" in p.stdout or "cannot find package" in p.stdout:
                raise Infra("go build failed for %s:\n%s" % (pkg, _tail(p.stdout, 60)))
            if "panic: test timed out" in p.stdout:
                raise Infra("go test timed out in %s %s:\n%s" % (pkg, run, _tail(p.stdout, 60)))
            if not allow_fail:
                raise Infra("go harness failed (%s %s) rc=%d:\n%s" % (pkg, run, p.returncode, _tail(p.stdout, 80)))
        elif "no tests to run" in p.stdout:
            raise Infra("harness test %s not found in %s" % (run, pkg))
        return r

    # --------------------------------------------------------------- verdicts
    def finding(self, key, what, artefact=None):
        """A violation of the property observed on the real code.
        key: stable identifier of the failing input / site / history class
             (matched against known_findings.json)."""
        for k in self.known:
            if k.get("property") == self.pid and k.get("status") == "known" and k.get("key") == key:
                if key not in [x[0] for x in self.known_hits]:
                    self.known_hits.append((key, what))
                return False
        if key in [v[0] for v in self.violations]:
            return True
        os.makedirs(REPLAY, exist_ok=True)
        path = os.path.join(REPLAY, "%s-%s.json" % (self.pid, re.sub(r"[^A-Za-z0-9_.-]+", "_", key)[:80]))
        with open(path, "w") as f:
            json.dump({"property": self.pid, "key": key, "what": what, "tier": self.tier, "seed": self.seed,
                       "artefact": artefact,
                       "rerun": "VERIF_SEED=%d bin/check %s %s" % (self.seed, self.pid, self.tier)}, f, indent=1,
                      default=str)
        self.violations.append((key, what, path))
        return True

    def evidence(self, level, assumptions=None, **coverage):
        self.level = level
        self.cov.update(coverage)
        if assumptions:
            self.assumptions = list(assumptions)

    def add(self, key, n=1):
        self.cov[key] = self.cov.get(key, 0) + n

    def write_evidence(self):
        # evidence/<id>.json is only written by runs against the real repository; runs against a scratch copy
        # (VERIF_REPO=..., bin/selftest) write to out/evidence-alt/ so that they never overwrite it
        evid = EVID if os.path.realpath(self.repo) == "/repo" else os.path.join(VERIF, "out", "evidence-alt")
        os.makedirs(evid, exist_ok=True)
        cov = dict(self.cov)
        ev = {
            "property_id": self.pid, "tier": self.tier, "seed": self.seed,
            "level": self.level or "model_checking", "coverage": cov,
            "assumptions": self.assumptions, "wall_s": round(time.time() - self.t0, 2),
            "violations": len(self.violations),
            "known_findings_hit": [k for k, _ in self.known_hits],
        }
        with open(os.path.join(evid, self.pid + ".json"), "w") as f:
            json.dump(ev, f, indent=1, default=str)
            f.write("\n")


def _tail(s, n):
    return "\n".join(s.splitlines()[-n:])


# --------------------------------------------------------------------- graph / path cover
def canon(o):
    return json.dumps(o, sort_keys=True, separators=(",", ":"))


def path_cover(edges, init_pred=None, max_len=400):
    """edges: list of {"s":state, "a":action record, "t":state}.  Returns (paths, nodes, nedges) where each path
    is a list of {"a":..., "t":...} steps starting from an initial state ("init" field of the path record).
    Every distinct edge appears in at least one path.  Greedy walk: follow uncovered edges, BFS to the closest
    state with an uncovered out-edge, restart from an initial state when none is reachable or the path is long."""
    nodes = {}
    out = {}
    uniq = {}
    for e in edges:
        ks, kt = canon(e["s"]), canon(e["t"])
        nodes.setdefault(ks, e["s"])
        nodes.setdefault(kt, e["t"])
        ek = (ks, canon(e["a"]), kt)
        if ek in uniq:
            continue
        uniq[ek] = e
        out.setdefault(ks, []).append((e["a"], kt, ek))
    has_in = set(k[2] for k in uniq if k[0] != k[2])
    if init_pred:
        inits = [k for k, s in nodes.items() if init_pred(s)]
    else:
        inits = [k for k in nodes if k not in has_in]
    if not inits:
        raise Infra("path_cover: no initial state identified")
    covered = set()
    paths = []
    total = len(uniq)

    def bfs_to_uncovered(start):
        # shortest path (list of edge keys) from start to a node having an uncovered out-edge
        seen = {start: None}
        q = [start]
        while q:
            nq = []
            for u in q:
                if any(ek not in covered for (_, _, ek) in out.get(u, [])):
                    # rebuild
                    p = []
                    x = u
                    while seen[x] is not None:
                        pu, ek = seen[x]
                        p.append(ek)
                        x = pu
                    p.reverse()
                    return p
                for (_, v, ek) in out.get(u, []):
                    if v not in seen:
                        seen[v] = (u, ek)
                        nq.append(v)
            q = nq
        return None

    while len(covered) < total:
        progressed = False
        for init in inits:
            pre = bfs_to_uncovered(init)
            if pre is None:
                continue
            cur = init
            steps = []
            for ek in pre:
                steps.append(ek)
                cur = ek[2]
            while len(steps) < max_len:
                nxt = [x for x in out.get(cur, []) if x[2] not in covered]
                if nxt:
                    a, v, ek = nxt[0]
                    covered.add(ek)
                    steps.append(ek)
                    cur = v
                    progressed = True
                    continue
                more = bfs_to_uncovered(cur)
                if more is None or len(steps) + len(more) >= max_len:
                    break
                for ek in more:
                    steps.append(ek)
                    cur = ek[2]
            paths.append({"init": nodes[init], "steps": [{"a": uniq[ek]["a"], "t": nodes[ek[2]]} for ek in steps]})
        if not progressed:
            break
    if len(covered) < total:
        raise Infra("path_cover: %d of %d edges unreachable from the initial states" % (total - len(covered), total))
    return paths, len(nodes), total


def write_json(path, obj):
    with open(path, "w") as f:
        json.dump(obj, f)
    return path


def write_ndjson(path, recs):
    with open(path, "w") as f:
        for r in recs:
            f.write(json.dumps(r, separators=(",", ":")) + "\n")
    return path


# --------------------------------------------------------------------- main
def main(argv):
    import importlib.util
    if len(argv) < 3:
        print("usage: check <Cxx> quick|thorough [--replay file]")
        return 2
    pid, tier = argv[1], argv[2]
    replay = None
    if "--replay" in argv:
        replay = argv[argv.index("--replay") + 1]
    if tier not in ("quick", "thorough"):
        print("tier must be quick or thorough")
        return 2
    seed = int(os.environ.get("VERIF_SEED", "1") or "1")
    os.environ["VERIF_TIER"] = tier
    modpath = os.path.join(VERIF, "checks", pid + ".py")
    if not os.path.exists(modpath):
        print("no check for", pid)
        return 2
    sys.path.insert(0, os.path.join(VERIF, "checks"))
    sys.path.insert(0, os.path.join(VERIF, "lib"))
    spec = importlib.util.spec_from_file_location("check_" + pid, modpath)
    mod = importlib.util.module_from_spec(spec)
    ctx = Ctx(pid, tier, seed, replay)
    rc = 0
    try:
        spec.loader.exec_module(mod)
        mod.run(ctx)
        if ctx.level is None:
            raise Infra("check did not record evidence")
        ctx.write_evidence()
        for key, what in ctx.known_hits:
            print("KNOWN-FINDING: property=%s %s [%s]" % (pid, what, key))
        for key, what, path in ctx.violations:
            print("VIOLATION property=%s replay=%s" % (pid, path))
            print("  what: %s [%s]" % (what, key))
        rc = 1 if ctx.violations else 0
        ctx.log("done: %s (violations=%d known=%d)" % ("HELD" if rc == 0 else "VIOLATED", len(ctx.violations),
                                                       len(ctx.known_hits)))
    except Infra as e:
        print("INFRA-ERROR property=%s: %s" % (pid, e))
        rc = 2
    except Exception:
        import traceback
        traceback.print_exc()
        print("INFRA-ERROR property=%s: internal error in check" % pid)
        rc = 2
    finally:
        ctx.cleanup()
    return rc
