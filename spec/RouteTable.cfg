\* Stand-alone example (the checks generate their cfgs from checks/_routetable.py:CFGS):
\*   java -cp tla2tools.jar:CommunityModules-deps.jar tlc2.TLC -config RouteTable.cfg -deadlock MCRouteTable.tla
\* CIDR table, lookup-centred universe, no edge emission.
CONSTANTS
 Tables = {"cidr"} FwdKeys = {} AgtKeys = {}
 CidrKeys <- K_cidr_lk DomKeys <- None CidrQ <- Q_cidr DomQ <- None
 Orig = {"a","b"} Peer = {"p"} Metrics = {0,1} Seqs = {0} PathKinds = {"clean"} CaseVars = {0}
 LocalMetrics = {0} MaxLSeq = 0 MaxEntries = 3 Aging = FALSE
 Dev = {} Emit = FALSE
INIT Init
NEXT Next
VIEW view
INVARIANTS TypeOK SlotUnique NoLoopStored LocalShape LookupCidrOK LookupDomOK LookupKeyOK
PROPERTIES ReplaceRule DisconnectExact CleanupKeepsLocal CleanupExact RejectedChangesNothing AcceptedIsStored AdvertKeepsOthers
