--------------------------- MODULE TraceStreamId ---------------------------
(* Trace validation for C38: identifiers handed out by the real allocators   *)
(* (sequential calls with the counter projected after every call, and the    *)
(* identifiers of many concurrent callers ordered per end by value = the     *)
(* order of the atomic steps) must be a behaviour of StreamId with k free.   *)
(* Rounds are separated by Reset events.                                     *)
EXTENDS StreamId, IOUtils, Sequences, Integers

VARIABLE l
Trace == ndJsonDeserialize(IOEnv.TRACE_FILE)
ev == Trace[l]

TraceInit == Init /\ l = 1 /\ TLCSet(1, 1)

Consume(name) == l <= Len(Trace) /\ ev.ev = name /\ l' = l + 1

\* "nx" = projected counter after the call when the caller was alone (-1 = not observed)
TraceAlloc ==
  /\ Consume("Next")
  /\ ev.e \in End
  /\ ev.id >= next[ev.e] /\ (ev.id - next[ev.e]) % Step = 0
  /\ Next(ev.e, (ev.id - next[ev.e]) \div Step)
  /\ (ev.nx >= 0 => next'[ev.e] = ev.nx)

\* the end was closed (at some point before the identifiers that follow in the log were allocated, or while
\* they were: closing does not change what the allocator may hand out)
TraceClose == Consume("Close") /\ ev.e \in End /\ Close(ev.e)

TraceReset ==
  /\ Consume("Reset")
  /\ next' = [e \in End |-> First(e)] /\ ids' = [e \in End |-> {}] /\ cnt' = [e \in End |-> 0]
  /\ open' = [e \in End |-> TRUE]
  /\ UNCHANGED loc /\ last' = [act |-> "Init"]

TraceNext == TraceAlloc \/ TraceClose \/ TraceReset

HighWater == TLCSet(1, IF l > TLCGet(1) THEN l ELSE TLCGet(1))
TraceAccepted == /\ PrintT("HW " \o ToString(TLCGet(1)))
                 /\ PrintT("LEN " \o ToString(Len(Trace)))
                 /\ TLCGet(1) = Len(Trace) + 1
=============================================================================
