------------------------------ MODULE PeerReg ------------------------------
(***************************************************************************)
(* Registration of peer connections and their teardown                     *)
(* (internal/peer/manager.go: connectWithTransport / Accept ->             *)
(* registerConnection, readLoop, keepaliveLoop, handleDisconnect,          *)
(* Disconnect; internal/agent/agent.go: handlePeerConnected,               *)
(* handlePeerDisconnect -> cleanupRelaysForPeer + the four                 *)
(* routeMgr.HandlePeerDisconnect... calls).                                *)
(*                                                                         *)
(* Two agents "a" and "b" (one identity each) and a bounded number of      *)
(* transport links between them; link l is connection GENERATION l of the  *)
(* pair.  Either agent may dial at any time (first connection, reconnect,  *)
(* simultaneous dials).  "b" originates a route (it is an exit), "a"       *)
(* learns it from b's announcements and relays a third agent's stream to   *)
(* b; what "a" holds for identity b is tagged with the generation that     *)
(* created it (rt, rl).                                                    *)
(*                                                                         *)
(* One action = one critical section / scheduling unit of the code:        *)
(*   Dial(x)            the dialer wrote PEER_HELLO on a fresh link        *)
(*   AcceptHello(l)     acceptor: AcceptHandshake (PEER_HELLO_ACK written) *)
(*                      then registerConnection                            *)
(*   DeliverAck(l)      dialer: handshake completes, registerConnection    *)
(*       registerConnection: slot free -> registered, read-loop and        *)
(*       keepalive threads start, OnPeerConnected sends the full table;    *)
(*       slot taken -> the new connection is closed (rejected duplicate)   *)
(*       With SplitRegister the duplicate check (RegCheck, part of the two *)
(*       actions above) and the insertion (RegInsert) are separate         *)
(*       critical sections; the ideal design decides again under the lock  *)
(*       that protects the insertion.                                      *)
(*   KaBegin(x, l)      keepalive thread: the timer fired, the connection  *)
(*                      is still connected, the iteration goes on to its   *)
(*                      timeout check / keepalive write (which can be      *)
(*                      stuck on a dead link for a long time)              *)
(*   KaFail(x, l)       ... the check / write fails:                       *)
(*                      conn.Close(); handleDisconnect(conn)               *)
(*   KaOk(x, l)         ... the write succeeds: next iteration (the loop   *)
(*                      ends if the connection was closed meanwhile)       *)
(*   ReadTeardown(x,l)  read-loop thread: its read failed (it is parked at *)
(*                      the hook point peer.read.disconnect, after its own *)
(*                      conn.Close()), now it runs handleDisconnect        *)
(*   ApiDisconnect(x)   Manager.Disconnect / DisconnectAll (sleep): the    *)
(*                      slot is cleared and the connection closed WITHOUT  *)
(*                      the disconnect callback; the connection is now     *)
(*                      "awaiting teardown" (await)                        *)
(*   Announce           b announces its routes on its registered connection*)
(*   Learn(l)           a processes an announcement that arrived on l      *)
(*   DropDead(l)        frames still in flight on a closed link are never  *)
(*                      processed                                          *)
(*   RelayOpen          a third agent (which knows b's route from an       *)
(*                      earlier session) opens a stream through a to b     *)
(* Closing a link wakes the read loops of both ends at once (in-memory     *)
(* links; half-open links are not modelled): they close their own          *)
(* connection object (keepalive thread ends) and park before Teardown.     *)
(*                                                                         *)
(* Teardown(x, l) = handleDisconnect + the agent's callback, as ONE step:  *)
(* remove the registration if l is the registered connection; unless       *)
(* ANOTHER connection of the same identity is registered, clean up what    *)
(* the agent holds for that identity (the code keys that by identity).     *)
(*                                                                         *)
(* What the agent holds for an identity belongs to one connection          *)
(* generation; the clean-up of a dead generation must happen exactly once  *)
(* and before the next generation is in use: a connection that was         *)
(* unregistered without the callback gets its callback either from its own *)
(* late teardown (nothing registered meanwhile) or from registerConnection *)
(* of the next generation, before that one is inserted.                    *)
(*                                                                         *)
(* Deviations:                                                             *)
(*   DevCleanupByIdentityOnStaleCallback  cleanup by identity also when a  *)
(*        newer connection is registered (the pinned code)                 *)
(*   DevTeardownDeregistersByIdentity     the slot is cleared without      *)
(*        comparing the connection                                         *)
(*   DevRegisterReplaces                  a second connection is registered*)
(*        next to the existing one                                         *)
(*   DevRejectedStillReads                a rejected duplicate is neither  *)
(*        closed nor kept from reading                                     *)
(*   DevKeepaliveDisconnectsByIdentity    the keepalive thread's failure   *)
(*        path calls Manager.Disconnect(identity): it unregisters and      *)
(*        closes whatever connection is registered for that identity       *)
(*   DevSkipCleanupWhenSuperseded         registerConnection does not run  *)
(*        the outstanding callback of a connection awaiting teardown; its  *)
(*        late teardown is then "superseded" and skipped: what was created *)
(*        over the old generation stays for ever (side effect of the       *)
(*        repair of DevCleanupByIdentityOnStaleCallback)                   *)
(*   DevRegisterCheckThenAct              (SplitRegister) the insertion    *)
(*        trusts the earlier duplicate check: two registrations that both  *)
(*        saw a free slot both insert; the displaced connection stays      *)
(*        live, unregistered and reading                                   *)
(***************************************************************************)
EXTENDS Naturals, Sequences, FiniteSets, TLC, Json

CONSTANTS MaxLink,   \* connection generations
          MaxAnn,    \* explicit announcements by b
          MaxApi,    \* Manager.Disconnect calls
          ApiOf,     \* agents on which Manager.Disconnect / DisconnectAll is called
          MaxRelay,  \* streams opened through a
          KaOf,      \* agents whose keepalive thread may declare a connection dead
          MaxKa,     \* keepalive iterations that get as far as the check / write while the schedule goes on
          SplitRegister, \* TRUE: duplicate check and insertion of registerConnection are separate steps
          Dev, Emit

Agent == {"a", "b"}
Other(x) == IF x = "a" THEN "b" ELSE "a"
Links == 1..MaxLink
DevNames == {"DevCleanupByIdentityOnStaleCallback", "DevTeardownDeregistersByIdentity",
             "DevRegisterReplaces", "DevRejectedStillReads", "DevKeepaliveDisconnectsByIdentity",
             "DevRegisterCheckThenAct", "DevSkipCleanupWhenSuperseded"}
ASSUME Dev \subseteq DevNames /\ KaOf \subseteq Agent /\ SplitRegister \in BOOLEAN

VARIABLES nl,       \* links dialed so far
          dialer,   \* [Links -> {"-","a","b"}]
          hs,       \* [Links -> {"none","hello","ack","done","failed"}]  handshake frame in flight / outcome at the dialer
          alive,    \* [Links -> BOOLEAN]   neither end has closed the link
          reg,      \* [Agent -> SUBSET Links]   Manager.peers[identity of the other]
          st,       \* [Agent -> [Links -> {"none","free","dup","up","rej"}]]  registerConnection: check result / decision
          rd,       \* [Agent -> [Links -> {"none","run","gate","done"}]]   read-loop thread
          ka,       \* [Agent -> [Links -> {"none","run","busy","done"}]]   keepalive thread
          advq,     \* [Links -> Nat]  announcements of b in flight towards a
          rt,       \* 0 or the generation through which a learned b's route
          rl,       \* 0 or the generation over which a relays a stream to b
          await,    \* [Agent -> SUBSET Links]  unregistered by Disconnect / DisconnectAll, disconnect callback not yet run
          early,    \* [Agent -> SUBSET Links]  ... callback already run by a later registerConnection; the
                    \*                          connection's own late teardown is then a no-op
          nann, napi, nrel, nka,
          last

vars == <<nl, dialer, hs, alive, reg, st, rd, ka, advq, rt, rl, await, early, nann, napi, nrel, nka, last>>
view == <<nl, dialer, hs, alive, reg, st, rd, ka, advq, rt, rl, await, early, nann, napi, nrel, nka>>

Init ==
  /\ nl = 0
  /\ dialer = [l \in Links |-> "-"]
  /\ hs = [l \in Links |-> "none"]
  /\ alive = [l \in Links |-> FALSE]
  /\ reg = [x \in Agent |-> {}]
  /\ st = [x \in Agent |-> [l \in Links |-> "none"]]
  /\ rd = [x \in Agent |-> [l \in Links |-> "none"]]
  /\ ka = [x \in Agent |-> [l \in Links |-> "none"]]
  /\ advq = [l \in Links |-> 0]
  /\ rt = 0 /\ rl = 0
  /\ await = [x \in Agent |-> {}]
  /\ early = [x \in Agent |-> {}]
  /\ nann = 0 /\ napi = 0 /\ nrel = 0 /\ nka = 0
  /\ last = [act |-> "Init"]

(* ---- closing a link ------------------------------------------------------*)
RdKill(r, l) == [x \in Agent |-> [r[x] EXCEPT ![l] = IF @ = "run" THEN "gate" ELSE @]]
KaKill(k, l) == [x \in Agent |-> [k[x] EXCEPT ![l] = IF @ = "run" THEN "done" ELSE @]]   \* a thread inside its
                                                           \* check / write ("busy") only notices at its next iteration
HsKill(h, l) == [h EXCEPT ![l] = IF @ \in {"hello", "ack"} THEN "failed" ELSE @]

(* ---- handleDisconnect + agent callback ------------------------------------*)
Stale(x, l) == reg[x] \ {l} # {}
RegAfterTeardown(x, l) ==
  IF "DevTeardownDeregistersByIdentity" \in Dev THEN [reg EXCEPT ![x] = {}] ELSE [reg EXCEPT ![x] = @ \ {l}]
Cleans(x, l) == x = "a" /\ l \notin early[x] /\ (~Stale(x, l) \/ "DevCleanupByIdentityOnStaleCallback" \in Dev)

(* ---- registerConnection ---------------------------------------------------*)
\* the decision of registerConnection for connection l at y; keep = the slot is (believed to be) free;
\* h = handshake status function to continue with
Decide(y, l, keep, h) ==
  IF keep THEN
    \* connections of this identity still awaiting their teardown: their callback runs now, before l is inserted
    /\ IF await[y] # {} /\ "DevSkipCleanupWhenSuperseded" \notin Dev
         THEN /\ await' = [await EXCEPT ![y] = {}]
              /\ early' = [early EXCEPT ![y] = @ \cup await[y]]
              /\ rt' = IF y = "a" THEN 0 ELSE rt
              /\ rl' = IF y = "a" THEN 0 ELSE rl
         ELSE UNCHANGED <<await, early, rt, rl>>
    /\ reg' = IF "DevRegisterReplaces" \in Dev THEN [reg EXCEPT ![y] = @ \cup {l}] ELSE [reg EXCEPT ![y] = {l}]
    /\ st' = [st EXCEPT ![y][l] = "up"]
    /\ rd' = [rd EXCEPT ![y][l] = "run"]
    /\ ka' = [ka EXCEPT ![y][l] = "run"]
    /\ advq' = IF y = "b" THEN [advq EXCEPT ![l] = @ + 1] ELSE advq   \* OnPeerConnected: SendFullTable
    /\ hs' = h
    /\ UNCHANGED alive
  ELSE IF "DevRejectedStillReads" \in Dev THEN
    /\ st' = [st EXCEPT ![y][l] = "rej"]
    /\ rd' = [rd EXCEPT ![y][l] = "run"]
    /\ hs' = h
    /\ UNCHANGED <<reg, ka, advq, alive, await, early, rt, rl>>
  ELSE
    /\ st' = [st EXCEPT ![y][l] = "rej"]          \* conn.Close(): no threads, the link dies
    /\ alive' = [alive EXCEPT ![l] = FALSE]
    /\ rd' = RdKill(rd, l)
    /\ ka' = KaKill(ka, l)
    /\ hs' = HsKill(h, l)
    /\ UNCHANGED <<reg, advq, await, early, rt, rl>>

SlotFree(y) == reg[y] = {} \/ "DevRegisterReplaces" \in Dev

\* y finished the handshake on l (newHs = handshake status from now on) and enters registerConnection
Register(y, l, newHs) ==
  IF SplitRegister THEN
    /\ st' = [st EXCEPT ![y][l] = IF SlotFree(y) THEN "free" ELSE "dup"]      \* RegCheck
    /\ hs' = [hs EXCEPT ![l] = newHs]
    /\ UNCHANGED <<reg, rd, ka, advq, alive, await, early, rt, rl>>
  ELSE
    Decide(y, l, SlotFree(y), [hs EXCEPT ![l] = newHs])

\* second critical section of registerConnection (only with SplitRegister)
RegInsert(y, l) ==
  /\ SplitRegister
  /\ st[y][l] \in {"free", "dup"}
  /\ LET keep == IF "DevRegisterCheckThenAct" \in Dev THEN st[y][l] = "free"
                 ELSE st[y][l] = "free" /\ SlotFree(y)          \* decided again under the write lock
     IN /\ Decide(y, l, keep, hs)
        /\ last' = [act |-> "RegInsert", x |-> y, l |-> l, kept |-> keep]
  /\ UNCHANGED <<nl, dialer, nann, napi, nrel, nka>>

Dial(x) ==
  /\ nl < MaxLink
  /\ \A l \in Links : dialer[l] = x => hs[l] \notin {"hello", "ack"}    \* one dial in progress per agent
  /\ LET l == nl + 1 IN
     /\ nl' = l
     /\ dialer' = [dialer EXCEPT ![l] = x]
     /\ hs' = [hs EXCEPT ![l] = "hello"]
     /\ alive' = [alive EXCEPT ![l] = TRUE]
     /\ last' = [act |-> "Dial", x |-> x, l |-> l]
  /\ UNCHANGED <<reg, st, rd, ka, advq, rt, rl, await, early, nann, napi, nrel, nka>>

AcceptHello(l) ==
  /\ hs[l] = "hello"
  /\ LET y == Other(dialer[l]) IN
     /\ Register(y, l, "ack")
     /\ last' = [act |-> "AcceptHello", x |-> y, l |-> l, kept |-> (reg[y] = {} \/ "DevRegisterReplaces" \in Dev)]
  /\ UNCHANGED <<nl, dialer, nann, napi, nrel, nka>>

DeliverAck(l) ==
  /\ hs[l] = "ack"
  /\ LET x == dialer[l] IN
     /\ Register(x, l, "done")
     /\ last' = [act |-> "DeliverAck", x |-> x, l |-> l, kept |-> (reg[x] = {} \/ "DevRegisterReplaces" \in Dev)]
  /\ UNCHANGED <<nl, dialer, nann, napi, nrel, nka>>

TeardownVars(x, l) ==
  /\ reg' = RegAfterTeardown(x, l)
  /\ rt' = IF Cleans(x, l) THEN 0 ELSE rt
  /\ rl' = IF Cleans(x, l) THEN 0 ELSE rl
  /\ await' = [await EXCEPT ![x] = @ \ {l}]
  /\ early' = [early EXCEPT ![x] = @ \ {l}]

KaBegin(x, l) ==
  /\ x \in KaOf
  /\ nka < MaxKa
  /\ ka[x][l] = "run"
  /\ ka' = [ka EXCEPT ![x][l] = "busy"]
  /\ nka' = nka + 1
  /\ last' = [act |-> "KaBegin", x |-> x, l |-> l]
  /\ UNCHANGED <<nl, dialer, hs, alive, reg, st, rd, advq, rt, rl, await, early, nann, napi, nrel>>

KaOk(x, l) ==
  /\ ka[x][l] = "busy"
  /\ alive[l]                                   \* a write on a closed link can only fail (KaFail)
  /\ ka' = [ka EXCEPT ![x][l] = "run"]
  /\ last' = [act |-> "KaOk", x |-> x, l |-> l]
  /\ UNCHANGED <<nl, dialer, hs, alive, reg, st, rd, advq, rt, rl, await, early, nann, napi, nrel, nka>>

KaFail(x, l) ==
  /\ ka[x][l] = "busy"
  /\ IF "DevKeepaliveDisconnectsByIdentity" \in Dev THEN
       \* Manager.Disconnect(identity): whatever is registered is unregistered and closed; no callback from here
       /\ reg' = [reg EXCEPT ![x] = {}]
       /\ alive' = [k \in Links |-> IF k \in reg[x] THEN FALSE ELSE alive[k]]
       /\ rd' = [y \in Agent |-> [k \in Links |-> IF k \in reg[x] /\ rd[y][k] = "run" THEN "gate" ELSE rd[y][k]]]
       /\ ka' = [y \in Agent |-> [k \in Links |-> IF y = x /\ k = l THEN "done"
                                                  ELSE IF k \in reg[x] /\ ka[y][k] = "run" THEN "done" ELSE ka[y][k]]]
       /\ hs' = [k \in Links |-> IF k \in reg[x] /\ hs[k] \in {"hello", "ack"} THEN "failed" ELSE hs[k]]
       /\ UNCHANGED <<rt, rl, await, early>>
     ELSE
       /\ alive' = [alive EXCEPT ![l] = FALSE]
       /\ rd' = RdKill(rd, l)
       /\ ka' = [KaKill(ka, l) EXCEPT ![x][l] = "done"]
       /\ hs' = HsKill(hs, l)
       /\ TeardownVars(x, l)
  /\ last' = [act |-> "KaFail", x |-> x, l |-> l, stale |-> Stale(x, l)]
  /\ UNCHANGED <<nl, dialer, st, advq, nann, napi, nrel, nka>>

ReadTeardown(x, l) ==
  /\ rd[x][l] = "gate"
  /\ rd' = [rd EXCEPT ![x][l] = "done"]
  /\ TeardownVars(x, l)
  /\ last' = [act |-> "ReadTeardown", x |-> x, l |-> l, stale |-> Stale(x, l)]
  /\ UNCHANGED <<nl, dialer, hs, alive, st, ka, advq, nann, napi, nrel, nka>>

ApiDisconnect(x) ==
  /\ x \in ApiOf
  /\ napi < MaxApi
  /\ \E l \in reg[x] :
       /\ reg' = [reg EXCEPT ![x] = @ \ {l}]
       /\ await' = [await EXCEPT ![x] = @ \cup {l}]
       /\ alive' = [alive EXCEPT ![l] = FALSE]
       /\ rd' = RdKill(rd, l)
       /\ ka' = KaKill(ka, l)
       /\ hs' = HsKill(hs, l)
       /\ last' = [act |-> "ApiDisconnect", x |-> x, l |-> l]
  /\ napi' = napi + 1
  /\ UNCHANGED <<nl, dialer, st, advq, rt, rl, early, nann, nrel, nka>>

Announce ==
  /\ nann < MaxAnn
  /\ \E l \in reg["b"] :
       /\ alive[l]
       /\ ka["b"][l] # "busy"          \* a stuck keepalive write holds the connection's write lock
       /\ advq' = [advq EXCEPT ![l] = @ + 1]
       /\ last' = [act |-> "Announce", l |-> l]
  /\ nann' = nann + 1
  /\ UNCHANGED <<nl, dialer, hs, alive, reg, st, rd, ka, rt, rl, await, early, napi, nrel, nka>>

Learn(l) ==
  /\ advq[l] > 0
  /\ rd["a"][l] = "run"
  /\ advq' = [advq EXCEPT ![l] = @ - 1]
  /\ rt' = l
  /\ last' = [act |-> "Learn", l |-> l, registered |-> (l \in reg["a"])]
  /\ UNCHANGED <<nl, dialer, hs, alive, reg, st, rd, ka, rl, await, early, nann, napi, nrel, nka>>

DropDead(l) ==
  /\ advq[l] > 0
  /\ ~alive[l]
  /\ advq' = [advq EXCEPT ![l] = 0]
  /\ last' = [act |-> "DropDead", l |-> l, n |-> advq[l]]
  /\ UNCHANGED <<nl, dialer, hs, alive, reg, st, rd, ka, rt, rl, await, early, nann, napi, nrel, nka>>

RelayOpen ==
  /\ nrel < MaxRelay
  /\ rl = 0
  /\ \E l \in Links :
       /\ reg["a"] = {l} /\ reg["b"] = {l} /\ alive[l] /\ advq[l] = 0
       /\ ka["a"][l] # "busy" /\ ka["b"][l] # "busy"
       /\ rl' = l
       /\ last' = [act |-> "RelayOpen", l |-> l]
  /\ nrel' = nrel + 1
  /\ UNCHANGED <<nl, dialer, hs, alive, reg, st, rd, ka, advq, rt, await, early, nann, napi, nka>>

Next ==
  \/ \E x \in Agent : Dial(x) \/ ApiDisconnect(x)
  \/ \E l \in Links : AcceptHello(l) \/ DeliverAck(l) \/ Learn(l) \/ DropDead(l)
  \/ \E x \in Agent, l \in Links : KaBegin(x, l) \/ KaOk(x, l) \/ KaFail(x, l) \/ ReadTeardown(x, l) \/ RegInsert(x, l)
  \/ Announce \/ RelayOpen

Spec == Init /\ [][Next]_vars

(* ---- properties ----------------------------------------------------------*)
TypeOK ==
  /\ nl \in 0..MaxLink /\ rt \in 0..MaxLink /\ rl \in 0..MaxLink
  /\ \A x \in Agent : reg[x] \subseteq 1..nl
  /\ \A l \in Links : advq[l] \in 0..(MaxAnn + 1)

\* C32(1): at most one registered connection per identity
AtMostOneRegistered == \A x \in Agent : Cardinality(reg[x]) <= 1
\* only connections that registerConnection kept ever run threads
ThreadsOnlyWhenKept == \A x \in Agent, l \in Links : rd[x][l] # "none" => st[x][l] = "up"
\* ... and a connection whose threads run (it is open and reading) is the registered one: no second live connection
RunningImpliesRegistered == \A x \in Agent, l \in Links : rd[x][l] = "run" => l \in reg[x]
\* C32(2): a rejected duplicate never delivers frames
RejectedDeliversNothing == [][last'.act = "Learn" => st["a"][last'.l] = "up"]_vars
\* C32(3): tearing down a connection that is not the registered one removes nothing of the registered one
StaleTeardownHarmless ==
  [][(last'.act \in {"KaFail", "ReadTeardown"} /\ reg[last'.x] # {last'.l}) =>
        /\ reg'[last'.x] = reg[last'.x]
        /\ (last'.x = "a" /\ rt \in reg["a"]) => rt' = rt
        /\ (last'.x = "a" /\ rl \in reg["a"]) => rl' = rl]_vars
\* what was created over a dead generation never survives the registration of the next generation
NoDeadGenerationItems ==
  reg["a"] # {} => (rt = 0 \/ rt \in reg["a"]) /\ (rl = 0 \/ rl \in reg["a"])
\* what a holds for b was created over a connection a kept
ItemsFromKept == (rt # 0 => st["a"][rt] = "up") /\ (rl # 0 => st["a"][rl] = "up")

State(n, d, h, al, rg, s, r, k, aq, t, rr, aw, ea, na, np, nr, nk) ==
  [nl |-> n, dialer |-> d, hs |-> h, alive |-> al, reg |-> rg, st |-> s, rd |-> r, ka |-> k, advq |-> aq,
   rt |-> t, rl |-> rr, await |-> aw, early |-> ea, nann |-> na, napi |-> np, nrel |-> nr, nka |-> nk]

EmitEdge ==
  Emit => PrintT("EDGE " \o ToJson([
     s |-> State(nl, dialer, hs, alive, reg, st, rd, ka, advq, rt, rl, await, early, nann, napi, nrel, nka),
     a |-> last',
     t |-> State(nl', dialer', hs', alive', reg', st', rd', ka', advq', rt', rl', await', early', nann', napi', nrel', nka')]))
=============================================================================
