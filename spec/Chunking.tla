------------------------------ MODULE Chunking ------------------------------
(***************************************************************************)
(* How application bytes become STREAM_DATA frames on each data path, and  *)
(* how the far end turns frames back into bytes (C07).                     *)
(*                                                                         *)
(* Every tunnel is end-to-end encrypted: the sender seals a piece of       *)
(* plaintext into ONE ciphertext (plaintext + Ovh bytes: nonce and tag),   *)
(* the receiver opens the payload of EACH FRAME on its own.  A ciphertext  *)
(* therefore has to travel in exactly one frame, and a frame carries at    *)
(* most Max payload bytes (protocol.Frame.Encode rejects more).            *)
(*                                                                         *)
(* The chunkers are transcribed from the code, one per data path:          *)
(*  mesh-write  agent.go meshConn.Write (ingress side of TCP streams and   *)
(*              port forwards): a Write of n bytes is cut into pieces of   *)
(*              Max-Ovh bytes, each sealed and sent as one frame through   *)
(*              peer.SendToPeer (no further splitting).                    *)
(*  sock-read   exit.Handler.readLoop / forward.Handler.readLoop (return   *)
(*              path): Read into a buffer of Max-Ovh bytes returns any     *)
(*              1..Max-Ovh bytes; sealed; Agent.WriteStreamData.           *)
(*  shell-out   shell.Handler.pumpOutput: Read into a buffer of ShellBuf   *)
(*              bytes; the message type byte (MsgHdr) is put in front;     *)
(*              sealed; Agent.WriteStreamData.                             *)
(*  shell-in    shell client pumpStdin (buffer ClientBuf) -> one message   *)
(*              per read -> Agent.forwardShellClientData: MsgHdr + data    *)
(*              sealed and sent as one frame through SendToPeer.           *)
(*  file-send   Agent.streamFileContent (upload) / sendFileDownload:       *)
(*              buffer of Max-Slack-Ovh bytes; sealed; WriteStreamData.    *)
(* Agent.WriteStreamData is the GENERIC splitter: it cuts whatever it is   *)
(* given into frames of Max bytes, knowing nothing about ciphertexts.      *)
(*                                                                         *)
(* Bytes are positions 1..n of the application write; a ciphertext is the  *)
(* interval of positions it seals.  One action per loop iteration of the   *)
(* sender (Produce) and per frame handled by the receiver (Deliver).       *)
(*                                                                         *)
(* Deviations: DevChunkBeforeOverhead (the shell pump reads Max bytes: the *)
(* pinned code, ciphertext Max+Ovh+1 split over two frames),               *)
(* DevMeshChunkIsMax (meshConn.Write forgets the overhead: the encoder     *)
(* refuses the frame), DevFileNoSlackNoOverhead (file chunk of Max bytes). *)
(* DevBalancedLastChunk: meshConn.Write spreads the n bytes evenly over    *)
(* the minimum number of frames (chunk = n div frames) and lets the last   *)
(* chunk take the remainder, which exceeds Max-Ovh for particular n only   *)
(* (n = 3*(Max-Ovh)-1, ...): the encoder refuses that frame.               *)
(* The stall of a shell session under back pressure is in ShellPipes.tla.  *)
(***************************************************************************)
EXTENDS Integers, Sequences, FiniteSets, TLC, Json

CONSTANTS Max,       \* frame payload limit            (real: 16384, scaled: 8)
          Ovh,       \* encryption overhead            (real: 28,    scaled: 3)
          Slack,     \* head room of the file chunker  (real: 100,   scaled: 1)
          MsgHdr,    \* shell message type prefix      (real: 1)
          ClientBuf, \* stdin buffer of the shell client (real: 4096, scaled: 2)
          MaxWrite,  \* application writes of 0..MaxWrite bytes
          Window,    \* frames in flight
          Big,       \* large sizes for the vector run
          Dev, Emit

PathNames == {"mesh-write", "sock-read", "shell-out", "shell-in", "file-send"}
DevNames  == {"DevChunkBeforeOverhead", "DevMeshChunkIsMax", "DevFileNoSlackNoOverhead", "DevBalancedLastChunk"}
ASSUME Dev \subseteq DevNames /\ Ovh + MsgHdr < Max /\ Slack + Ovh < Max

Min(a, b) == IF a < b THEN a ELSE b
CeilDiv(a, b) == (a + b - 1) \div b

\* size of the buffer the sender reads application bytes into
ReadLimit(p) ==
  CASE p = "mesh-write" -> IF "DevMeshChunkIsMax" \in Dev THEN Max ELSE Max - Ovh
    [] p = "sock-read"  -> Max - Ovh
    [] p = "shell-out"  -> IF "DevChunkBeforeOverhead" \in Dev
                             THEN Max                   \* make([]byte, 16*1024): chunk of Max plaintext bytes
                             ELSE Max - Ovh - MsgHdr
    [] p = "shell-in"   -> ClientBuf
    [] p = "file-send"  -> IF "DevFileNoSlackNoOverhead" \in Dev THEN Max ELSE Max - Slack - Ovh
Hdr(p) == IF p \in {"shell-out", "shell-in"} THEN MsgHdr ELSE 0
\* does the ciphertext go through the generic splitter (WriteStreamData) or straight to SendToPeer?
Generic(p) == p \in {"sock-read", "shell-out", "file-send"}
\* meshConn.Write takes exactly the next Max-Ovh bytes; a Read returns any non-empty prefix of what is there
Deterministic(p) == p = "mesh-write"
\* the piece meshConn.Write takes next, for a write of sz bytes of which `done` are already sent
MeshChunk(sz, done) ==
  IF "DevBalancedLastChunk" \in Dev
    THEN LET frames == CeilDiv(sz, Max - Ovh)            \* minimum number of frames
             even   == sz \div frames                    \* "balanced" chunk size
         IN IF done \div even >= frames - 1 THEN sz - done ELSE even     \* the last chunk takes the remainder
    ELSE Min(ReadLimit("mesh-write"), sz - done)

VARIABLES path, n,   \* the data path and the size of the application write
          sent,      \* bytes the sender has consumed
          wire,      \* frames in flight (FIFO)
          rcv,       \* bytes the receiver has handed to its application, in order
          bad,       \* "" | "encode-error" (sender: frame larger than Max refused) | "decrypt-error" (receiver)
          last

vars == <<path, n, sent, wire, rcv, bad, last>>
view == <<path, n, sent, wire, rcv, bad>>

Init ==
  /\ path \in PathNames /\ n \in 0..MaxWrite
  /\ sent = 0 /\ wire = <<>> /\ rcv = 0 /\ bad = ""
  /\ last = [act |-> "Init"]

\* frames of one ciphertext sealing positions lo..hi on path p
CtLen(p, k) == Hdr(p) + k + Ovh
Pieces(p, k) == IF Generic(p) THEN CeilDiv(CtLen(p, k), Max) ELSE 1
FrameLen(p, k, i) == IF Generic(p) THEN Min(Max, CtLen(p, k) - (i - 1) * Max) ELSE CtLen(p, k)
FramesOf(p, lo, k) == [i \in 1..Pieces(p, k) |-> [lo |-> lo, hi |-> lo + k - 1, part |-> i, of |-> Pieces(p, k),
                                                 len |-> FrameLen(p, k, i)]]

(* one iteration of the sender's loop: take k bytes, seal, hand to the frame writer *)
Produce(k) ==
  /\ bad = "" /\ sent < n /\ Len(wire) < Window
  /\ IF Deterministic(path) THEN k = MeshChunk(n, sent)
                            ELSE k \in 1..Min(ReadLimit(path), n - sent)
  /\ IF ~Generic(path) /\ CtLen(path, k) > Max
       THEN \* Frame.Encode: payload too large -> the write fails, nothing is sent
            /\ bad' = "encode-error"
            /\ UNCHANGED <<sent, wire>>
            /\ last' = [act |-> "Produce", k |-> k, lens |-> <<>>, err |-> "encode-error"]
       ELSE /\ wire' = wire \o FramesOf(path, sent + 1, k)
            /\ sent' = sent + k
            /\ UNCHANGED bad
            /\ last' = [act |-> "Produce", k |-> k, lens |-> [i \in 1..Pieces(path, k) |-> FrameLen(path, k, i)], err |-> ""]
  /\ UNCHANGED <<path, n, rcv>>

(* the receiver handles one frame: it opens the payload as a ciphertext of its own *)
Deliver ==
  /\ wire # <<>> /\ bad # "decrypt-error"
  /\ LET f == Head(wire) IN
       IF f.of = 1 /\ f.lo = rcv + 1
         THEN rcv' = f.hi /\ UNCHANGED bad /\ last' = [act |-> "Deliver", len |-> f.len, res |-> "ok"]
         ELSE \* a piece of a ciphertext (or one out of order) does not authenticate
              bad' = "decrypt-error" /\ UNCHANGED rcv /\ last' = [act |-> "Deliver", len |-> f.len, res |-> "decrypt-error"]
  /\ wire' = Tail(wire)
  /\ UNCHANGED <<path, n, sent>>

Next == (\E k \in 1..(2 * Max) : Produce(k)) \/ Deliver
Spec == Init /\ [][Next]_vars

(* ---- C07 ---------------------------------------------------------------------------------------------------*)
TypeOK == path \in PathNames /\ n \in 0..MaxWrite /\ sent \in 0..n /\ rcv \in 0..n /\ bad \in {"", "encode-error", "decrypt-error"}
\* every frame handed to the peer writer carries at most Max payload bytes
FrameLimit == \A i \in 1..Len(wire) : wire[i].len <= Max
\* a ciphertext is never spread over several frames
WholeCiphertexts == \A i \in 1..Len(wire) : wire[i].of = 1
\* nothing is refused by the frame encoder, nothing fails to decrypt
NoLoss == bad = ""
\* the receiver's bytes are always a prefix of the sender's, and everything arrives
InOrderPrefix == rcv <= sent
Complete == (sent = n /\ wire = <<>> /\ bad = "") => rcv = n
\* the write can always be finished (no state other than completion is stuck)
Finished == sent = n /\ wire = <<>>
Progress == (bad = "" /\ ~Finished) => ENABLED Next

EmitEdge ==
  Emit => PrintT("EDGE " \o ToJson([s |-> [path |-> path, n |-> n, sent |-> sent, inflight |-> Len(wire), rcv |-> rcv, bad |-> bad],
                                     a |-> last',
                                     t |-> [path |-> path', n |-> n', sent |-> sent', inflight |-> Len(wire'), rcv |-> rcv', bad |-> bad']]))

(* ---- vectors for the real constants (evaluated with Max = 16384, Ovh = 28, ...) ---------------------------*)
P == Max - Ovh                                  \* largest plaintext of one frame
\* around every multiple of P up to 10 frames: a chunker may break for particular lengths only
NearMultiples == {m * P + d : m \in 1..10, d \in -4..4}
BoundarySizes == {0, 1, P - 1, P, P + 1, 2 * P - 1, 2 * P, 2 * P + 1} \cup NearMultiples \cup Big
\* the exact payload lengths of the data frames of one meshConn.Write(n)
MeshWriteLens(sz) == [i \in 1..CeilDiv(sz, ReadLimit("mesh-write")) |->
                        Min(ReadLimit("mesh-write"), sz - (i - 1) * ReadLimit("mesh-write")) + Ovh]
\* per path: the largest payload a data frame can have and the fewest frames a write of sz bytes needs
ChunkVecs ==
  {[path |-> p, n |-> sz,
    maxframe  |-> Min(Max, CtLen(p, ReadLimit(p))),
    whole     |-> CtLen(p, ReadLimit(p)) <= Max,             \* the largest ciphertext fits one frame
    minframes |-> CeilDiv(sz, ReadLimit(p)),
    exact     |-> IF Deterministic(p) THEN MeshWriteLens(sz) ELSE <<>>,
    det       |-> Deterministic(p)] : p \in PathNames, sz \in BoundarySizes}
VecOK == \A v \in ChunkVecs : v.whole /\ v.maxframe <= Max /\ \A i \in 1..Len(v.exact) : v.exact[i] <= Max

VecInit == /\ Init /\ path = "mesh-write" /\ n = 0
           /\ (Dev = {}) => \A v \in ChunkVecs : PrintT("VEC " \o ToJson(v))
           /\ PrintT("VSUM " \o ToJson([vecs |-> Cardinality(ChunkVecs), max |-> Max, ovh |-> Ovh, p |-> P, ok |-> VecOK]))
VecNext == FALSE /\ UNCHANGED vars
VecInv == path \in PathNames /\ VecOK
=============================================================================
