------------------------------- MODULE Socks5 -------------------------------
(***************************************************************************)
(* SOCKS5 ingress of one agent (internal/socks5 + the authenticator        *)
(* construction in internal/agent/agent.go): one client connection from    *)
(* the (optional) WebSocket upgrade through greeting / method selection,   *)
(* the username-password sub-negotiation (RFC 1929), the request and the   *)
(* executed command, and - after UDP ASSOCIATE - the life of the UDP       *)
(* association: datagrams arriving at the relay socket from the owner and  *)
(* from strangers, replies coming back from the mesh, and the end of the   *)
(* TCP control connection.                                                 *)
(*                                                                         *)
(* The client is a TOKEN PROGRAM: every step the client sends one message  *)
(* (complete, malformed or truncated); the server consumes it in one       *)
(* action (= one read phase of Handler.Handle: authenticate's greeting,    *)
(* UserPassAuthenticator.Authenticate, readRequest + dispatch, one         *)
(* iteration of UDPAssociation.ReadLoop, one WriteToClient).  `last`       *)
(* records what the server wrote and which command it executed in that     *)
(* step (hidden by VIEW).                                                  *)
(*                                                                         *)
(* Configuration (cfg, chosen in Init, constant afterwards):               *)
(*   tr    "raw" (TCP / net.Pipe) | "ws" (WebSocket listener in front)     *)
(*   auth  socks5.auth.enabled                                             *)
(*   users class of the configured user list                               *)
(*           none      no users                                            *)
(*           unusable  one user with neither password nor password_hash    *)
(*           plain     one user with a plaintext password                  *)
(*           hashed    one user with a bcrypt hash                         *)
(*           mixed     a plaintext user and an unusable user               *)
(*           both      a hashed user and a plaintext user (the hashed      *)
(*                     store takes precedence: the plaintext user cannot   *)
(*                     log in - fail closed, allowed by the property)      *)
(*   udp, icmp   the mesh handlers report the command as enabled           *)
(*   dial  outcome of the mesh dial: ok|refused|timeout|dns|err            *)
(*                                                                         *)
(* Deviations (constant Dev) reproduce designs the property excludes:      *)
(*   DevEmptyListDefaultsToNoAuth  auth enabled but no usable user: the    *)
(*        authenticator list is empty and the handler falls back to        *)
(*        "no authentication"                                              *)
(*   DevEmptyPasswordMatches  a user without a usable password is put in   *)
(*        the plaintext store with an empty password, which then matches   *)
(*        a client sending that name and an empty password                 *)
(*   DevFirstSenderBecomesClient  the association records the first        *)
(*        datagram's source as the reply address before any filtering and  *)
(*        filters only against the address declared in the request         *)
(***************************************************************************)
EXTENDS Naturals, Sequences, FiniteSets, TLC, Json

CONSTANTS Scope,       \* which bounded instance (alphabets / configurations), see below
          Dev,         \* enabled deviations
          Emit,        \* TRUE: print every transition as JSON
          MaxDgrams,   \* datagrams per association
          MaxReplies   \* mesh replies per association

DevNames == {"DevEmptyListDefaultsToNoAuth", "DevEmptyPasswordMatches", "DevFirstSenderBecomesClient"}
ASSUME Dev \subseteq DevNames

Range(s) == {s[i] : i \in DOMAIN s}

(* ---- configurations ---------------------------------------------------- *)
UserClasses == {"none", "unusable", "plain", "hashed", "mixed", "both"}
Usable(u) == u \in {"plain", "hashed", "mixed", "both"}
Cfg(tr, a, u, udp, icmp, d) == [tr |-> tr, auth |-> a, users |-> u, udp |-> udp, icmp |-> icmp, dial |-> d]

(* ---- client tokens ----------------------------------------------------- *)
G(k, m)    == [t |-> "G", k |-> k, m |-> m]          \* greeting: k ok|badver|trunc1|trunc, m offered methods
A(k)       == [t |-> "A", k |-> k]                   \* RFC 1929 credentials
R(c, a, k) == [t |-> "R", cmd |-> c, addr |-> a, k |-> k]
W(k)       == [t |-> "WS", k |-> k]                  \* WebSocket upgrade with HTTP basic credentials none|valid|invalid
D(s, k)    == [t |-> "DG", s |-> s, k |-> k]         \* datagram at the relay socket from sender s, header ok|bad
MR         == [t |-> "MR"]                           \* a reply for the client arrives from the mesh
EOF        == [t |-> "EOF"]                          \* the client closes the TCP / WebSocket connection

CredKinds == {"valid",     \* name and password of the user of the effective credential store
              "shadowed",  \* name and password of the plaintext user when a hashed user exists (class both)
              "wrongpw", "unknown",
              "emptypw",   \* name of the unusable user (or an unknown name) with an empty password
              "nouser",    \* ULEN = 0
              "badver",    \* sub-negotiation version 2
              "trunc1", "truncu", "truncp"}   \* cut after VER / inside UNAME / inside PASSWD
Cmds  == {"connect", "bind", "udp", "icmp", "badcmd"}
Addrs == {"ip4", "ip6", "dom", "zero4", "zero6", "dom0", "badatyp"}
ReqKinds == {"full", "thdr", "taddr", "tport", "badver"}   \* cut inside header / address / port; VER = 4

Senders == {"own1", "own2", "str1", "str2"}   \* own* : source IP of the TCP control connection; str* : another IP
IpOf(s) == IF s \in {"own1", "own2"} THEN "own" ELSE "str"

\* sensible request tokens: a truncation point must exist in the encoding
ReqOK(c, a, k) ==
  /\ (a \in {"badatyp", "dom0"}) => k \in {"full", "thdr", "badver"}
AllRequests == {r \in [t : {"R"}, cmd : Cmds, addr : Addrs, k : ReqKinds] : ReqOK(r.cmd, r.addr, r.k)}

(* ---- bounded instances -------------------------------------------------- *)
Configs ==
  CASE Scope = "hs-quick" ->
         {Cfg("raw", a, u, TRUE, TRUE, "ok") : a \in BOOLEAN, u \in UserClasses}
         \cup {Cfg("raw", a, u, FALSE, FALSE, "refused") : a \in BOOLEAN, u \in {"none", "plain"}}
    [] Scope = "hs-thorough" ->
         {Cfg("raw", a, u, TRUE, TRUE, d) : a \in BOOLEAN, u \in UserClasses,
                                             d \in {"ok", "refused", "timeout", "dns", "err"}}
         \cup {Cfg("raw", a, u, x, y, "ok") : a \in BOOLEAN, u \in UserClasses, x \in BOOLEAN, y \in BOOLEAN}
    [] Scope = "ws" ->
         {Cfg("ws", a, u, TRUE, TRUE, "ok") : a \in BOOLEAN, u \in UserClasses}
    [] Scope \in {"udp-quick", "udp-thorough"} ->
         {Cfg("raw", FALSE, "none", TRUE, TRUE, "ok")}

Greetings ==
  CASE Scope = "hs-quick" ->
         {G("ok", <<0>>), G("ok", <<2>>), G("ok", <<0, 2>>), G("ok", <<2, 0>>), G("ok", <<1>>), G("ok", <<>>),
          G("badver", <<0>>), G("trunc1", <<>>), G("trunc", <<0>>)}
    [] Scope = "hs-thorough" ->
         {G("ok", <<0>>), G("ok", <<2>>), G("ok", <<0, 2>>), G("ok", <<2, 0>>), G("ok", <<1>>), G("ok", <<>>),
          G("ok", <<1, 3, 128, 255>>), G("ok", <<255, 0>>), G("ok", <<0, 0, 0>>), G("ok", <<1, 2, 2>>),
          G("badver", <<0>>), G("badver", <<2>>), G("trunc1", <<>>), G("trunc", <<0>>), G("trunc", <<2>>),
          G("trunc", <<>>)}
    [] Scope = "ws" -> {G("ok", <<0>>), G("ok", <<2>>), G("ok", <<0, 2>>), G("trunc1", <<>>)}
    [] OTHER -> {G("ok", <<0>>)}

Creds ==
  CASE Scope \in {"hs-quick", "hs-thorough"} -> {A(k) : k \in CredKinds}
    [] Scope = "ws" -> {A(k) : k \in {"valid", "wrongpw", "emptypw", "truncu"}}
    [] OTHER -> {}

Requests ==
  CASE Scope = "hs-quick" ->
         {R(c, "ip4", "full") : c \in Cmds}
         \cup {R("connect", a, "full") : a \in Addrs}
         \cup {R("udp", a, "full") : a \in {"zero4", "dom"}}
         \cup {R("icmp", a, "full") : a \in {"zero4", "dom", "ip6"}}
         \cup {R("connect", "ip4", k) : k \in ReqKinds}
         \cup {R("udp", "ip4", "tport"), R("icmp", "dom", "taddr"), R("bind", "badatyp", "full")}
    [] Scope = "hs-thorough" -> AllRequests
    [] Scope = "ws" -> {R(c, "ip4", "full") : c \in Cmds} \cup {R("connect", "dom", "full"), R("connect", "ip4", "tport")}
    [] OTHER -> {R("udp", a, "full") : a \in {"zero4", "ip4", "dom"}}

WsTokens == IF Scope = "ws" THEN {W("none"), W("valid"), W("invalid")} ELSE {}

DgSenders == CASE Scope = "udp-quick" -> {"own1", "str1"}
               [] Scope = "udp-thorough" -> {"own1", "own2", "str1", "str2"}
               [] OTHER -> {}
DgKinds == {"ok", "bad"}

(* ---- state ---------------------------------------------------------------*)
VARIABLES cfg,        \* configuration record
          phase,      \* http | greet | auth | req | relay | udp | icmp | stuck | closed
          method,     \* none | noauth | userpass   (method selected by the server)
          authed,     \* the server accepted credentials
          sentValid,  \* ghost: the client presented credentials matching a configured user
          exec,       \* command executed for this client: "" | connect | udp | icmp
          nrep,       \* ghost: number of SOCKS5 replies (REP messages) written
          assoc,      \* UDP association: none | open | closed
          declared,   \* the ASSOCIATE request carried a client address
          client,     \* reply address recorded by the association: "none" or a sender
          relayed,    \* senders whose datagrams were relayed into the mesh, in order
          replies,    \* destinations of the replies sent from the relay socket, in order
          ndg, nmr,   \* bounds
          last        \* observation of the last step

vars == <<cfg, phase, method, authed, sentValid, exec, nrep, assoc, declared, client, relayed, replies, ndg, nmr, last>>
view == <<cfg, phase, method, authed, sentValid, exec, nrep, assoc, declared, client, relayed, replies, ndg, nmr>>

Fresh(c) ==
  /\ cfg = c
  /\ phase = IF c.tr = "ws" THEN "http" ELSE "greet"
  /\ method = "none" /\ authed = FALSE /\ sentValid = FALSE /\ exec = "" /\ nrep = 0
  /\ assoc = "none" /\ declared = FALSE /\ client = "none" /\ relayed = <<>> /\ replies = <<>>
  /\ ndg = 0 /\ nmr = 0
  /\ last = [act |-> "Init"]

Init == \E c \in Configs : Fresh(c)

udpVars == <<assoc, declared, client, relayed, replies, ndg, nmr>>
hsVars  == <<method, authed, sentValid, exec, nrep>>

\* dev: name of the deviation this step relied on ("" for a step of the ideal design)
ObsD(tok, rep, ex, res, d) == last' = [tok |-> tok, rep |-> rep, ex |-> ex, res |-> res, dev |-> d]
Obs(tok, rep, ex, res) == ObsD(tok, rep, ex, res, "")
Stay(tok, ph, rep) ==   \* a step that only changes the phase
  /\ phase' = ph /\ UNCHANGED <<cfg, hsVars, udpVars>> /\ Obs(tok, rep, "", "")

(* ---- the authenticator list built from the configuration ------------------*)
(* agent.buildSOCKS5Auth -> socks5.CreateAuthenticators -> socks5.NewServer/NewHandler.            *)
(* Ideal: authentication enabled => username/password is the only method, whatever the user list.  *)
AuthMethod(c) ==
  IF ~c.auth THEN "noauth"
  ELSE IF ~Usable(c.users) /\ "DevEmptyListDefaultsToNoAuth" \in Dev THEN "noauth"
  ELSE "userpass"
MethodNo(a) == IF a = "noauth" THEN 0 ELSE 2

\* the credential store accepts (server side)
Accepts(c, k) ==
  \/ k = "valid" /\ Usable(c.users)
  \/ k = "emptypw" /\ c.users \in {"unusable", "mixed"} /\ "DevEmptyPasswordMatches" \in Dev
\* ground truth of the property: the credentials match a configured user
Matches(c, k) ==
  \/ k = "valid" /\ Usable(c.users)
  \/ k = "shadowed" /\ c.users = "both"

(* ---- WebSocket front (ws_listener.go handleWebSocket) ---------------------*)
WsUpgrade(tok) ==
  /\ phase = "http" /\ tok.t = "WS"
  /\ LET ok == tok.k = "valid" /\ Usable(cfg.users) IN
     IF cfg.auth /\ ~ok
       THEN Stay(tok, "closed", <<"H401">>)
       ELSE /\ phase' = "greet" /\ sentValid' = (sentValid \/ ok)
            /\ UNCHANGED <<cfg, method, authed, exec, nrep, udpVars>>
            /\ Obs(tok, <<"H101">>, "", "")

(* ---- greeting / method selection (Handler.authenticate) -------------------*)
Greet(tok) ==
  /\ phase = "greet" /\ tok.t = "G"
  /\ CASE tok.k \in {"trunc1", "trunc"} -> Stay(tok, "stuck", <<>>)
       [] tok.k = "badver" -> Stay(tok, "closed", <<>>)
       [] OTHER ->
          LET a == AuthMethod(cfg) IN
          IF MethodNo(a) \notin Range(tok.m)
            THEN Stay(tok, "closed", <<"M255">>)
            ELSE /\ method' = a
                 /\ phase' = IF a = "noauth" THEN "req" ELSE "auth"
                 /\ UNCHANGED <<cfg, authed, sentValid, exec, nrep, udpVars>>
                 /\ ObsD(tok, <<IF a = "noauth" THEN "M0" ELSE "M2">>, "", "",
                         IF cfg.auth /\ a = "noauth" THEN "DevEmptyListDefaultsToNoAuth" ELSE "")

(* ---- username / password (UserPassAuthenticator.Authenticate) -------------*)
Auth(tok) ==
  /\ phase = "auth"
  /\ \/ /\ tok.t = "A"
        /\ CASE tok.k \in {"trunc1", "truncu", "truncp"} -> Stay(tok, "stuck", <<>>)
             [] tok.k \in {"badver", "nouser"} -> Stay(tok, "closed", <<>>)
             [] OTHER ->
                /\ sentValid' = (sentValid \/ Matches(cfg, tok.k))
                /\ IF Accepts(cfg, tok.k)
                     THEN phase' = "req" /\ authed' = TRUE
                          /\ ObsD(tok, <<"A0">>, "", "", IF tok.k = "emptypw" THEN "DevEmptyPasswordMatches" ELSE "")
                     ELSE phase' = "closed" /\ authed' = authed /\ Obs(tok, <<"A1">>, "", "")
                /\ UNCHANGED <<cfg, method, exec, nrep, udpVars>>
     \* a request sent instead of credentials: first byte 5 is not sub-negotiation version 1
     \/ /\ tok.t = "R" /\ tok.k = "full" /\ Stay(tok, "closed", <<>>)

(* ---- request (Handler.readRequest + dispatch) ----------------------------*)
DialReply(d) == CASE d = "ok" -> "R0" [] d = "refused" -> "R4" [] d = "timeout" -> "R6" [] d = "dns" -> "R4"
                  [] OTHER -> "R1"

Reply(tok, ph, r) ==   \* a SOCKS5 reply without executing anything
  /\ phase' = ph /\ nrep' = nrep + 1 /\ UNCHANGED <<cfg, method, authed, sentValid, exec, udpVars>>
  /\ Obs(tok, <<r>>, "", "")

Execute(tok, c, ph, r) ==
  /\ exec' = c /\ phase' = ph /\ nrep' = nrep + 1
  /\ UNCHANGED <<cfg, method, authed, sentValid, ndg, nmr, client, relayed, replies>>
  /\ IF c = "udp" /\ ph = "udp"
       THEN assoc' = "open" /\ declared' = (tok.addr \in {"ip4", "ip6"})
       ELSE UNCHANGED <<assoc, declared>>
  /\ Obs(tok, <<r>>, c, "")

Req(tok) ==
  /\ phase = "req"
  /\ \/ /\ tok.t = "R"
        /\ CASE tok.k = "thdr" -> Stay(tok, "stuck", <<>>)
             [] tok.k = "badver" -> Stay(tok, "closed", <<>>)
             [] tok.addr = "badatyp" -> Reply(tok, "closed", "R8")
             [] tok.addr = "dom0" -> Reply(tok, "closed", "R1")
             [] tok.k \in {"taddr", "tport"} -> Stay(tok, "stuck", <<>>)
             [] tok.cmd = "connect" ->
                  IF cfg.dial = "ok" THEN Execute(tok, "connect", "relay", "R0")
                  ELSE Execute(tok, "connect", "closed", DialReply(cfg.dial))
             [] tok.cmd = "udp" ->
                  IF cfg.udp THEN Execute(tok, "udp", "udp", "R0") ELSE Reply(tok, "closed", "R7")
             [] tok.cmd = "icmp" ->
                  IF ~cfg.icmp THEN Reply(tok, "closed", "R7")
                  ELSE IF tok.addr \in {"dom", "zero4", "zero6"} THEN Reply(tok, "closed", "R8")
                  ELSE Execute(tok, "icmp", "icmp", "R0")
             [] OTHER -> Reply(tok, "closed", "R7")
     \* credentials sent where a request is expected: first byte 1 is not version 5
     \/ /\ tok.t = "A" /\ tok.k \in {"valid", "wrongpw"} /\ Stay(tok, "closed", <<>>)

(* ---- end of the connection -------------------------------------------------*)
Eof(tok) ==
  /\ tok.t = "EOF" /\ phase # "closed"
  /\ phase' = "closed"
  /\ assoc' = IF assoc = "open" THEN "closed" ELSE assoc
  /\ UNCHANGED <<cfg, hsVars, declared, client, relayed, replies, ndg, nmr>>
  /\ Obs(tok, <<>>, "", "")

(* ---- UDP association (UDPAssociation.ReadLoop / WriteToClient) -------------*)
(* Ideal: a datagram is considered only if its source IP is the source IP of   *)
(* the TCP control connection (which is also the only address a client may     *)
(* sensibly declare).  The first such datagram fixes the reply address.        *)
Datagram(tok) ==
  /\ tok.t = "DG" /\ assoc # "none" /\ ndg < MaxDgrams
  /\ ndg' = ndg + 1
  /\ UNCHANGED <<cfg, phase, hsVars, assoc, declared, replies, nmr>>
  /\ IF assoc = "closed"
       THEN UNCHANGED <<client, relayed>> /\ Obs(tok, <<>>, "", "gone")
       ELSE IF "DevFirstSenderBecomesClient" \in Dev
         THEN LET d == IF IpOf(tok.s) # "own" THEN "DevFirstSenderBecomesClient" ELSE "" IN
              /\ client' = IF client = "none" THEN tok.s ELSE client
              /\ IF (~declared \/ IpOf(tok.s) = "own") /\ tok.k = "ok"
                   THEN relayed' = Append(relayed, tok.s) /\ ObsD(tok, <<>>, "", "relayed", d)
                   ELSE relayed' = relayed
                        /\ ObsD(tok, <<>>, "", "ignored", IF client = "none" THEN d ELSE "")
         ELSE IF IpOf(tok.s) # "own"
           THEN UNCHANGED <<client, relayed>> /\ Obs(tok, <<>>, "", "ignored")
           ELSE /\ client' = IF client = "none" THEN tok.s ELSE client
                /\ IF tok.k = "ok"
                     THEN relayed' = Append(relayed, tok.s) /\ Obs(tok, <<>>, "", "relayed")
                     ELSE relayed' = relayed /\ Obs(tok, <<>>, "", "ignored")

MeshReply(tok) ==
  /\ tok.t = "MR" /\ assoc # "none" /\ nmr < MaxReplies
  /\ nmr' = nmr + 1
  /\ UNCHANGED <<cfg, phase, hsVars, assoc, declared, client, relayed, ndg>>
  /\ IF assoc = "closed" THEN replies' = replies /\ Obs(tok, <<>>, "", "closed")
     ELSE IF client = "none" THEN replies' = replies /\ Obs(tok, <<>>, "", "noclient")
     ELSE replies' = Append(replies, client)
          /\ ObsD(tok, <<>>, "", "sent", IF IpOf(client) # "own" THEN "DevFirstSenderBecomesClient" ELSE "")

(* ---- one server step for one client token ---------------------------------*)
Step(tok) == WsUpgrade(tok) \/ Greet(tok) \/ Auth(tok) \/ Req(tok) \/ Eof(tok) \/ Datagram(tok) \/ MeshReply(tok)

Next ==
  \/ \E tok \in WsTokens : Step(tok)
  \/ \E tok \in Greetings : Step(tok)
  \/ \E tok \in Creds : Step(tok)
  \/ \E tok \in Requests : Step(tok)
  \/ \E s \in DgSenders, k \in DgKinds : Step(D(s, k))
  \/ Step(MR)
  \/ Step(EOF)

Spec == Init /\ [][Next]_vars

(* ---- properties ------------------------------------------------------------*)
TypeOK ==
  /\ phase \in {"http", "greet", "auth", "req", "relay", "udp", "icmp", "stuck", "closed"}
  /\ method \in {"none", "noauth", "userpass"} /\ exec \in {"", "connect", "udp", "icmp"}
  /\ assoc \in {"none", "open", "closed"} /\ client \in {"none"} \cup Senders

\* C21: a command is executed only if authentication is off or the client presented credentials
\* matching a configured user (and the server accepted them)
ExecRequiresAuth == exec # "" => (~cfg.auth \/ (authed /\ sentValid))
\* ... so "no authentication" is never selected while authentication is enabled
NoAuthOnlyWhenOff == method = "noauth" => ~cfg.auth
\* the server believes a client authenticated only if it really presented matching credentials
AuthedIsGenuine == authed => sentValid

\* C22: only the owner's datagrams are relayed; replies go only to the owner
OnlyOwnerRelayed == \A i \in DOMAIN relayed : IpOf(relayed[i]) = "own"
RepliesOnlyToOwner == \A i \in DOMAIN replies : IpOf(replies[i]) = "own"
ClientIsOwner == client # "none" => IpOf(client) = "own"

\* C23 (state-machine part): at most one SOCKS5 reply per connection, and an executed command was replied to
OneReply == nrep <= 1 /\ (exec # "" => nrep = 1)

EmitEdge ==
  Emit => PrintT("EDGE " \o ToJson(
     [s |-> [cfg |-> cfg, phase |-> phase, method |-> method, authed |-> authed, sentValid |-> sentValid,
             exec |-> exec, assoc |-> assoc,
             declared |-> declared, client |-> client, relayed |-> relayed, replies |-> replies,
             ndg |-> ndg, nmr |-> nmr],
      a |-> last',
      t |-> [cfg |-> cfg', phase |-> phase', method |-> method', authed |-> authed', sentValid |-> sentValid',
             exec |-> exec', assoc |-> assoc', declared |-> declared', client |-> client', relayed |-> relayed',
             replies |-> replies', ndg |-> ndg', nmr |-> nmr']]))
=============================================================================
