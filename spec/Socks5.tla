------------------------------- MODULE Socks5 -------------------------------
(***************************************************************************)
(* SOCKS5 ingress of one agent (internal/socks5 + the authenticator        *)
(* construction in internal/agent/agent.go): one client connection from    *)
(* the (optional) WebSocket upgrade through greeting / method selection,   *)
(* the username-password sub-negotiation (RFC 1929), the request and the   *)
(* executed command, and - after UDP ASSOCIATE - the life of the UDP       *)
(* association: datagrams arriving at the relay socket from the owner and  *)
(* from strangers, replies coming back from the mesh, and the end of the   *)
(* TCP control connection.                                                 *)
(*                                                                         *)
(* The client is a TOKEN PROGRAM: every step the client sends one message  *)
(* (complete, malformed or truncated); the server consumes it in one       *)
(* action (= one read phase of Handler.Handle: authenticate's greeting,    *)
(* UserPassAuthenticator.Authenticate, readRequest + dispatch, one         *)
(* iteration of UDPAssociation.ReadLoop, one WriteToClient).  `last`       *)
(* records what the server wrote and which command it executed in that     *)
(* step (hidden by VIEW).                                                  *)
(*                                                                         *)
(* Configuration (cfg, chosen in Init, constant afterwards):               *)
(*   tr    "raw" (TCP / net.Pipe) | "ws" (WebSocket listener in front)     *)
(*   auth  socks5.auth.enabled                                             *)
(*   users class of the configured user list                               *)
(*           none      no users                                            *)
(*           unusable  one user with neither password nor password_hash    *)
(*           plain     one user with a plaintext password                  *)
(*           hashed    one user with a bcrypt hash                         *)
(*           mixed     a plaintext user and an unusable user               *)
(*           both      a hashed user and a plaintext user (the hashed      *)
(*                     store takes precedence: the plaintext user cannot   *)
(*                     log in - fail closed, allowed by the property)      *)
(*   udp, icmp   the mesh handlers report the command as enabled           *)
(*   dial  outcome of the mesh dial: ok|refused|timeout|dns|err            *)
(*                                                                         *)
(* Deviations (constant Dev) reproduce designs the property excludes:      *)
(*   DevEmptyListDefaultsToNoAuth  auth enabled but no usable user: the    *)
(*        authenticator list is empty and the handler falls back to        *)
(*        "no authentication"                                              *)
(*   DevEmptyPasswordMatches  a user without a usable password is put in   *)
(*        the plaintext store with an empty password, which then matches   *)
(*        a client sending that name and an empty password                 *)
(*   DevFirstSenderBecomesClient  the association records the first        *)
(*        datagram's source as the reply address before any filtering and  *)
(*        filters only against the address declared in the request         *)
(*   DevDeclaredOverridesPeer  a declared address replaces (instead of     *)
(*        adding to) the check against the control connection's peer       *)
(*   DevDeclaredDroppedWhenPeerUnknown  the handler keeps a declared       *)
(*        address only if it equals the control peer's - and drops it too  *)
(*        when the peer is unknown (WebSocket), leaving no filter at all   *)
(*   DevCredentialCacheCollision  verified credentials are cached under a  *)
(*        key that does not separate name and password: after a valid      *)
(*        login on this server the same bytes split differently pass       *)
(*   DevUnknownUserDummyPassword  an unknown user name is compared against *)
(*        a constant of the source code and the result is returned         *)
(*                                                                         *)
(* Owner of a UDP association (C22): the source IP of the control          *)
(* connection, whatever the request declares.  Behind the WebSocket        *)
(* listener the handler cannot see that IP (wsConn.RemoteAddr() is nil):   *)
(* there the owner is the address declared in the request, and if nothing  *)
(* is declared the statement leaves no identity to check (anything goes).  *)
(*                                                                         *)
(* Several connections can follow each other on one running server         *)
(* (NewConn): the server keeps cfg and whatever it learned (`warm`).       *)
(***************************************************************************)
EXTENDS Naturals, Sequences, FiniteSets, TLC, Json

CONSTANTS Scope,       \* which bounded instance (alphabets / configurations), see below
          Dev,         \* enabled deviations
          Emit,        \* TRUE: print every transition as JSON
          MaxDgrams,   \* datagrams per association
          MaxReplies   \* mesh replies per association

DevNames == {"DevEmptyListDefaultsToNoAuth", "DevEmptyPasswordMatches", "DevFirstSenderBecomesClient",
             "DevDeclaredOverridesPeer", "DevDeclaredDroppedWhenPeerUnknown",
             "DevCredentialCacheCollision", "DevUnknownUserDummyPassword"}
ASSUME Dev \subseteq DevNames

Range(s) == {s[i] : i \in DOMAIN s}

(* ---- configurations ---------------------------------------------------- *)
UserClasses == {"none", "unusable", "plain", "hashed", "mixed", "both"}
Usable(u) == u \in {"plain", "hashed", "mixed", "both"}
Cfg(tr, a, u, udp, icmp, d) == [tr |-> tr, auth |-> a, users |-> u, udp |-> udp, icmp |-> icmp, dial |-> d]

(* ---- client tokens ----------------------------------------------------- *)
G(k, m)    == [t |-> "G", k |-> k, m |-> m]          \* greeting: k ok|badver|trunc1|trunc, m offered methods
A(k)       == [t |-> "A", k |-> k]                   \* RFC 1929 credentials
R(c, a, k) == [t |-> "R", cmd |-> c, addr |-> a, k |-> k]
W(k)       == [t |-> "WS", k |-> k]                  \* WebSocket upgrade with HTTP basic credentials none|valid|invalid
D(s, k)    == [t |-> "DG", s |-> s, k |-> k]         \* datagram at the relay socket from sender s, header ok|bad
MR         == [t |-> "MR"]                           \* a reply for the client arrives from the mesh
NC         == [t |-> "NC"]                           \* a new client connection to the same running server
EOF        == [t |-> "EOF"]                          \* the client closes the TCP / WebSocket connection

CredKinds == {"valid",     \* name and password of the user of the effective credential store
              "shadowed",  \* name and password of the plaintext user when a hashed user exists (class both)
              "wrongpw", "unknown",
              "shiftl", "shiftr",   \* the valid name and password with the boundary moved: alic / ewonderland
              "magic",     \* a string literal of the implementation's source used as credential (the harness tries
                           \* every literal as unknown-user password, known-user password and as both)
              "emptypw",   \* name of the unusable user (or an unknown name) with an empty password
              "nouser",    \* ULEN = 0
              "badver",    \* sub-negotiation version 2
              "trunc1", "truncu", "truncp"}   \* cut after VER / inside UNAME / inside PASSWD
Cmds  == {"connect", "bind", "udp", "icmp", "badcmd"}
Addrs == {"ip4", "ip6", "dom", "zero4", "zero6", "dom0", "badatyp",
          "ip4str"}    \* (UDP ASSOCIATE) declares a stranger's address instead of the client's own ("ip4")
DeclOf(a) == CASE a \in {"ip4", "ip6"} -> "own" [] a = "ip4str" -> "str" [] OTHER -> "none"
ReqKinds == {"full", "thdr", "taddr", "tport", "badver"}   \* cut inside header / address / port; VER = 4

Senders == {"own1", "own2", "str1", "str2"}   \* own* : source IP of the control connection; str1, str2 : two other IPs
                                               \* ("str" = str1's IP is the one a request may name instead of its own)
IpOf(s) == CASE s \in {"own1", "own2"} -> "own" [] s = "str1" -> "str" [] OTHER -> "oth"   \* three distinct IPs

\* sensible request tokens: a truncation point must exist in the encoding
ReqOK(c, a, k) ==
  /\ (a \in {"badatyp", "dom0"}) => k \in {"full", "thdr", "badver"}
AllRequests == {r \in [t : {"R"}, cmd : Cmds, addr : Addrs, k : ReqKinds] : ReqOK(r.cmd, r.addr, r.k)}

(* ---- bounded instances -------------------------------------------------- *)
Configs ==
  CASE Scope = "hs-quick" ->
         {Cfg("raw", a, u, TRUE, TRUE, "ok") : a \in BOOLEAN, u \in UserClasses}
         \cup {Cfg("raw", a, u, FALSE, FALSE, "refused") : a \in BOOLEAN, u \in {"none", "plain"}}
    [] Scope = "hs-thorough" ->
         {Cfg("raw", a, u, TRUE, TRUE, d) : a \in BOOLEAN, u \in UserClasses,
                                             d \in {"ok", "refused", "timeout", "dns", "err"}}
         \cup {Cfg("raw", a, u, x, y, "ok") : a \in BOOLEAN, u \in UserClasses, x \in BOOLEAN, y \in BOOLEAN}
    [] Scope = "ws" ->
         {Cfg("ws", a, u, TRUE, TRUE, "ok") : a \in BOOLEAN, u \in UserClasses}
    [] Scope \in {"udp-quick", "udp-thorough"} ->
         {Cfg("raw", FALSE, "none", TRUE, TRUE, "ok"), Cfg("ws", FALSE, "none", TRUE, TRUE, "ok")}
    [] Scope \in {"hs-session", "hs-session3"} ->
         {Cfg("raw", TRUE, u, TRUE, TRUE, "ok") : u \in {"none", "plain", "hashed", "mixed", "both"}}

Greetings ==
  CASE Scope = "hs-quick" ->
         {G("ok", <<0>>), G("ok", <<2>>), G("ok", <<0, 2>>), G("ok", <<2, 0>>), G("ok", <<1>>), G("ok", <<>>),
          G("badver", <<0>>), G("trunc1", <<>>), G("trunc", <<0>>)}
    [] Scope = "hs-thorough" ->
         {G("ok", <<0>>), G("ok", <<2>>), G("ok", <<0, 2>>), G("ok", <<2, 0>>), G("ok", <<1>>), G("ok", <<>>),
          G("ok", <<1, 3, 128, 255>>), G("ok", <<255, 0>>), G("ok", <<0, 0, 0>>), G("ok", <<1, 2, 2>>),
          G("badver", <<0>>), G("badver", <<2>>), G("trunc1", <<>>), G("trunc", <<0>>), G("trunc", <<2>>),
          G("trunc", <<>>)}
    [] Scope = "ws" -> {G("ok", <<0>>), G("ok", <<2>>), G("ok", <<0, 2>>), G("trunc1", <<>>)}
    [] Scope \in {"hs-session", "hs-session3"} -> {G("ok", <<2>>)}
    [] OTHER -> {G("ok", <<0>>)}

Creds ==
  CASE Scope \in {"hs-quick", "hs-thorough"} -> {A(k) : k \in CredKinds}
    [] Scope = "ws" -> {A(k) : k \in {"valid", "wrongpw", "emptypw", "truncu"}}
    [] Scope \in {"hs-session", "hs-session3"} ->
         {A(k) : k \in {"valid", "shadowed", "wrongpw", "unknown", "shiftl", "shiftr", "magic", "emptypw"}}
    [] OTHER -> {}

Requests ==
  CASE Scope = "hs-quick" ->
         {R(c, "ip4", "full") : c \in Cmds}
         \cup {R("connect", a, "full") : a \in Addrs}
         \cup {R("udp", a, "full") : a \in {"zero4", "dom"}}
         \cup {R("icmp", a, "full") : a \in {"zero4", "dom", "ip6"}}
         \cup {R("connect", "ip4", k) : k \in ReqKinds}
         \cup {R("udp", "ip4", "tport"), R("icmp", "dom", "taddr"), R("bind", "badatyp", "full")}
    [] Scope = "hs-thorough" -> AllRequests
    [] Scope = "ws" -> {R(c, "ip4", "full") : c \in Cmds} \cup {R("connect", "dom", "full"), R("connect", "ip4", "tport")}
    [] Scope \in {"hs-session", "hs-session3"} -> {R("connect", "ip4", "full")}
    [] OTHER -> {R("udp", a, "full") : a \in {"zero4", "ip4", "dom", "ip4str"}}

WsTokens == CASE Scope = "ws" -> {W("none"), W("valid"), W("invalid")}
              [] Scope \in {"udp-quick", "udp-thorough"} -> {W("none")}
              [] OTHER -> {}
MaxConns == CASE Scope = "hs-session" -> 2 [] Scope = "hs-session3" -> 3 [] Scope = "trace" -> 1000000 [] OTHER -> 1

DgSenders == CASE Scope = "udp-quick" -> {"own1", "str1"}
               [] Scope = "udp-thorough" -> {"own1", "own2", "str1", "str2"}
               [] OTHER -> {}
DgKinds == {"ok", "bad"}

(* ---- state ---------------------------------------------------------------*)
VARIABLES cfg,        \* configuration record
          phase,      \* http | greet | auth | req | relay | udp | icmp | stuck | closed
          method,     \* none | noauth | userpass   (method selected by the server)
          authed,     \* the server accepted credentials
          sentValid,  \* ghost: the client presented credentials matching a configured user
          exec,       \* command executed for this client: "" | connect | udp | icmp
          nrep,       \* ghost: number of SOCKS5 replies (REP messages) written
          assoc,      \* UDP association: none | open | closed
          declared,   \* client address the association filters on: none | own | str
          reqdecl,    \* ghost: client address named in the ASSOCIATE request: none | own | str
          warm,       \* a valid login already happened on this server (earlier connection included)
          nconn,      \* connections opened on this server so far
          client,     \* reply address recorded by the association: "none" or a sender
          relayed,    \* senders whose datagrams were relayed into the mesh, in order
          replies,    \* destinations of the replies sent from the relay socket, in order
          ndg, nmr,   \* bounds
          last        \* observation of the last step

vars == <<cfg, phase, method, authed, sentValid, exec, nrep, assoc, declared, reqdecl, warm, nconn, client, relayed,
          replies, ndg, nmr, last>>
view == <<cfg, phase, method, authed, sentValid, exec, nrep, assoc, declared, reqdecl, warm, nconn, client, relayed,
          replies, ndg, nmr>>

Fresh(c) ==
  /\ cfg = c
  /\ phase = IF c.tr = "ws" THEN "http" ELSE "greet"
  /\ method = "none" /\ authed = FALSE /\ sentValid = FALSE /\ exec = "" /\ nrep = 0
  /\ assoc = "none" /\ declared = "none" /\ reqdecl = "none" /\ client = "none" /\ relayed = <<>> /\ replies = <<>>
  /\ ndg = 0 /\ nmr = 0 /\ warm = FALSE /\ nconn = 1
  /\ last = [act |-> "Init"]

Init == \E c \in Configs : Fresh(c)

udpVars == <<assoc, declared, reqdecl, client, relayed, replies, ndg, nmr>>
hsVars  == <<method, authed, sentValid, exec, nrep, warm, nconn>>

\* dev: name of the deviation this step relied on ("" for a step of the ideal design)
ObsD(tok, rep, ex, res, d) == last' = [tok |-> tok, rep |-> rep, ex |-> ex, res |-> res, dev |-> d]
Obs(tok, rep, ex, res) == ObsD(tok, rep, ex, res, "")
Stay(tok, ph, rep) ==   \* a step that only changes the phase
  /\ phase' = ph /\ UNCHANGED <<cfg, hsVars, udpVars>> /\ Obs(tok, rep, "", "")

(* ---- the authenticator list built from the configuration ------------------*)
(* agent.buildSOCKS5Auth -> socks5.CreateAuthenticators -> socks5.NewServer/NewHandler.            *)
(* Ideal: authentication enabled => username/password is the only method, whatever the user list.  *)
AuthMethod(c) ==
  IF ~c.auth THEN "noauth"
  ELSE IF ~Usable(c.users) /\ "DevEmptyListDefaultsToNoAuth" \in Dev THEN "noauth"
  ELSE "userpass"
MethodNo(a) == IF a = "noauth" THEN 0 ELSE 2

\* the credential store accepts (server side)
Accepts(c, k) ==
  \/ k = "valid" /\ Usable(c.users)
  \/ k = "emptypw" /\ c.users \in {"unusable", "mixed"} /\ "DevEmptyPasswordMatches" \in Dev
  \/ k \in {"shiftl", "shiftr"} /\ Usable(c.users) /\ warm /\ "DevCredentialCacheCollision" \in Dev
  \/ k = "magic" /\ c.users \notin {"hashed", "both"} /\ "DevUnknownUserDummyPassword" \in Dev
AcceptDev(k) == CASE k = "emptypw" -> "DevEmptyPasswordMatches"
                  [] k \in {"shiftl", "shiftr"} -> "DevCredentialCacheCollision"
                  [] k = "magic" -> "DevUnknownUserDummyPassword"
                  [] OTHER -> ""
\* ground truth of the property: the credentials match a configured user
Matches(c, k) ==
  \/ k = "valid" /\ Usable(c.users)
  \/ k = "shadowed" /\ c.users = "both"

(* ---- WebSocket front (ws_listener.go handleWebSocket) ---------------------*)
WsUpgrade(tok) ==
  /\ phase = "http" /\ tok.t = "WS"
  /\ LET ok == tok.k = "valid" /\ Usable(cfg.users) IN
     IF cfg.auth /\ ~ok
       THEN Stay(tok, "closed", <<"H401">>)
       ELSE /\ phase' = "greet" /\ sentValid' = (sentValid \/ ok)
            /\ UNCHANGED <<cfg, method, authed, exec, nrep, warm, nconn, udpVars>>
            /\ Obs(tok, <<"H101">>, "", "")

(* ---- greeting / method selection (Handler.authenticate) -------------------*)
Greet(tok) ==
  /\ phase = "greet" /\ tok.t = "G"
  /\ CASE tok.k \in {"trunc1", "trunc"} -> Stay(tok, "stuck", <<>>)
       [] tok.k = "badver" -> Stay(tok, "closed", <<>>)
       [] OTHER ->
          LET a == AuthMethod(cfg) IN
          IF MethodNo(a) \notin Range(tok.m)
            THEN Stay(tok, "closed", <<"M255">>)
            ELSE /\ method' = a
                 /\ phase' = IF a = "noauth" THEN "req" ELSE "auth"
                 /\ UNCHANGED <<cfg, authed, sentValid, exec, nrep, warm, nconn, udpVars>>
                 /\ ObsD(tok, <<IF a = "noauth" THEN "M0" ELSE "M2">>, "", "",
                         IF cfg.auth /\ a = "noauth" THEN "DevEmptyListDefaultsToNoAuth" ELSE "")

(* ---- username / password (UserPassAuthenticator.Authenticate) -------------*)
Auth(tok) ==
  /\ phase = "auth"
  /\ \/ /\ tok.t = "A"
        /\ CASE tok.k \in {"trunc1", "truncu", "truncp"} -> Stay(tok, "stuck", <<>>)
             [] tok.k \in {"badver", "nouser"} -> Stay(tok, "closed", <<>>)
             [] OTHER ->
                /\ sentValid' = (sentValid \/ Matches(cfg, tok.k))
                /\ IF Accepts(cfg, tok.k)
                     THEN phase' = "req" /\ authed' = TRUE /\ warm' = (warm \/ tok.k = "valid")
                          /\ ObsD(tok, <<"A0">>, "", "", AcceptDev(tok.k))
                     ELSE phase' = "closed" /\ authed' = authed /\ warm' = warm /\ Obs(tok, <<"A1">>, "", "")
                /\ UNCHANGED <<cfg, method, exec, nrep, nconn, udpVars>>
     \* a request sent instead of credentials: first byte 5 is not sub-negotiation version 1
     \/ /\ tok.t = "R" /\ tok.k = "full" /\ Stay(tok, "closed", <<>>)

(* ---- request (Handler.readRequest + dispatch) ----------------------------*)
DialReply(d) == CASE d = "ok" -> "R0" [] d = "refused" -> "R4" [] d = "timeout" -> "R6" [] d = "dns" -> "R4"
                  [] OTHER -> "R1"

Reply(tok, ph, r) ==   \* a SOCKS5 reply without executing anything
  /\ phase' = ph /\ nrep' = nrep + 1 /\ UNCHANGED <<cfg, method, authed, sentValid, exec, warm, nconn, udpVars>>
  /\ Obs(tok, <<r>>, "", "")

Execute(tok, c, ph, r) ==
  /\ exec' = c /\ phase' = ph /\ nrep' = nrep + 1
  /\ UNCHANGED <<cfg, method, authed, sentValid, warm, nconn, ndg, nmr, client, relayed, replies>>
  /\ IF c = "udp" /\ ph = "udp"
       THEN LET d == DeclOf(tok.addr)
                \* handleUDPAssociate stores the address named in the request (0.0.0.0 / a domain name: none)
                kept == IF "DevDeclaredDroppedWhenPeerUnknown" \in Dev /\ (cfg.tr = "ws" \/ d # "own") THEN "none" ELSE d
            IN assoc' = "open" /\ reqdecl' = d /\ declared' = kept
               /\ ObsD(tok, <<r>>, c, "", IF kept # d THEN "DevDeclaredDroppedWhenPeerUnknown" ELSE "")
       ELSE UNCHANGED <<assoc, declared, reqdecl>> /\ Obs(tok, <<r>>, c, "")

Req(tok) ==
  /\ phase = "req"
  /\ \/ /\ tok.t = "R"
        /\ CASE tok.k = "thdr" -> Stay(tok, "stuck", <<>>)
             [] tok.k = "badver" -> Stay(tok, "closed", <<>>)
             [] tok.addr = "badatyp" -> Reply(tok, "closed", "R8")
             [] tok.addr = "dom0" -> Reply(tok, "closed", "R1")
             [] tok.k \in {"taddr", "tport"} -> Stay(tok, "stuck", <<>>)
             [] tok.cmd = "connect" ->
                  IF cfg.dial = "ok" THEN Execute(tok, "connect", "relay", "R0")
                  ELSE Execute(tok, "connect", "closed", DialReply(cfg.dial))
             [] tok.cmd = "udp" ->
                  IF cfg.udp THEN Execute(tok, "udp", "udp", "R0") ELSE Reply(tok, "closed", "R7")
             [] tok.cmd = "icmp" ->
                  IF ~cfg.icmp THEN Reply(tok, "closed", "R7")
                  ELSE IF tok.addr \in {"dom", "zero4", "zero6"} THEN Reply(tok, "closed", "R8")
                  ELSE Execute(tok, "icmp", "icmp", "R0")
             [] OTHER -> Reply(tok, "closed", "R7")
     \* credentials sent where a request is expected: first byte 1 is not version 5
     \/ /\ tok.t = "A" /\ tok.k \in {"valid", "wrongpw"} /\ Stay(tok, "closed", <<>>)

(* ---- end of the connection -------------------------------------------------*)
Eof(tok) ==
  /\ tok.t = "EOF" /\ phase # "closed"
  /\ phase' = "closed"
  /\ assoc' = IF assoc = "open" THEN "closed" ELSE assoc
  /\ UNCHANGED <<cfg, hsVars, declared, reqdecl, client, relayed, replies, ndg, nmr>>
  /\ Obs(tok, <<>>, "", "")

(* ---- the next client connects to the same server (Server.acceptLoop) -------*)
NewConn(tok) ==
  /\ tok.t = "NC" /\ phase = "closed" /\ assoc # "open" /\ nconn < MaxConns
  /\ nconn' = nconn + 1
  /\ phase' = IF cfg.tr = "ws" THEN "http" ELSE "greet"
  /\ method' = "none" /\ authed' = FALSE /\ sentValid' = FALSE /\ exec' = "" /\ nrep' = 0
  /\ assoc' = "none" /\ declared' = "none" /\ reqdecl' = "none" /\ client' = "none" /\ relayed' = <<>> /\ replies' = <<>>
  /\ ndg' = 0 /\ nmr' = 0
  /\ UNCHANGED <<cfg, warm>>
  /\ Obs(tok, <<>>, "", "")

(* ---- UDP association (UDPAssociation.ReadLoop / WriteToClient) -------------*)
(* Ideal (UDPAssociation.isFromClient): a datagram is considered only if its   *)
(* source IP is the control connection's peer IP - when the handler can see    *)
(* it (plain TCP) - AND equals the declared address if one was declared.  The   *)
(* first datagram that passes fixes the reply address.                          *)
PeerKnown == cfg.tr = "raw"
IdealAccept(s) == (PeerKnown => IpOf(s) = "own") /\ (declared = "none" \/ declared = IpOf(s))
Accept(s) ==
  IF "DevDeclaredOverridesPeer" \in Dev
    THEN (IF declared # "none" THEN declared = IpOf(s) ELSE (PeerKnown => IpOf(s) = "own"))
    ELSE IdealAccept(s)
\* whose datagrams the statement allows to be served: see the header (OwnerIp = "any": nothing to check)
OwnerIp == IF PeerKnown THEN "own" ELSE IF reqdecl # "none" THEN reqdecl ELSE "any"
Foreign(s) == OwnerIp # "any" /\ IpOf(s) # OwnerIp
DgDev(s) == IF ~Foreign(s) THEN ""
            ELSE IF "DevFirstSenderBecomesClient" \in Dev THEN "DevFirstSenderBecomesClient"
            ELSE IF declared # reqdecl THEN "DevDeclaredDroppedWhenPeerUnknown"
            ELSE "DevDeclaredOverridesPeer"

Datagram(tok) ==
  /\ tok.t = "DG" /\ assoc # "none" /\ ndg < MaxDgrams
  /\ ndg' = ndg + 1
  /\ UNCHANGED <<cfg, phase, hsVars, assoc, declared, reqdecl, replies, nmr>>
  /\ IF assoc = "closed"
       THEN UNCHANGED <<client, relayed>> /\ Obs(tok, <<>>, "", "gone")
       ELSE IF "DevFirstSenderBecomesClient" \in Dev
         THEN \* reply address recorded before any filtering; filter only against a declared address
              /\ client' = IF client = "none" THEN tok.s ELSE client
              /\ IF (declared = "none" \/ declared = IpOf(tok.s)) /\ tok.k = "ok"
                   THEN relayed' = Append(relayed, tok.s) /\ ObsD(tok, <<>>, "", "relayed", DgDev(tok.s))
                   ELSE relayed' = relayed
                        /\ ObsD(tok, <<>>, "", "ignored", IF client = "none" THEN DgDev(tok.s) ELSE "")
         ELSE IF ~Accept(tok.s)
           THEN UNCHANGED <<client, relayed>> /\ Obs(tok, <<>>, "", "ignored")
           ELSE /\ client' = IF client = "none" THEN tok.s ELSE client
                /\ IF tok.k = "ok"
                     THEN relayed' = Append(relayed, tok.s) /\ ObsD(tok, <<>>, "", "relayed", DgDev(tok.s))
                     ELSE relayed' = relayed
                          /\ ObsD(tok, <<>>, "", "ignored", IF client = "none" THEN DgDev(tok.s) ELSE "")

MeshReply(tok) ==
  /\ tok.t = "MR" /\ assoc # "none" /\ nmr < MaxReplies
  /\ nmr' = nmr + 1
  /\ UNCHANGED <<cfg, phase, hsVars, assoc, declared, reqdecl, client, relayed, ndg>>
  /\ IF assoc = "closed" THEN replies' = replies /\ Obs(tok, <<>>, "", "closed")
     ELSE IF client = "none" THEN replies' = replies /\ Obs(tok, <<>>, "", "noclient")
     ELSE replies' = Append(replies, client)
          /\ ObsD(tok, <<>>, "", "sent", DgDev(client))

(* ---- one server step for one client token ---------------------------------*)
Step(tok) == WsUpgrade(tok) \/ Greet(tok) \/ Auth(tok) \/ Req(tok) \/ Eof(tok) \/ Datagram(tok) \/ MeshReply(tok)
             \/ NewConn(tok)

Next ==
  \/ \E tok \in WsTokens : Step(tok)
  \/ \E tok \in Greetings : Step(tok)
  \/ \E tok \in Creds : Step(tok)
  \/ \E tok \in Requests : Step(tok)
  \/ \E s \in DgSenders, k \in DgKinds : Step(D(s, k))
  \/ Step(MR)
  \/ Step(EOF)
  \/ Step(NC)

Spec == Init /\ [][Next]_vars

(* ---- properties ------------------------------------------------------------*)
TypeOK ==
  /\ phase \in {"http", "greet", "auth", "req", "relay", "udp", "icmp", "stuck", "closed"}
  /\ method \in {"none", "noauth", "userpass"} /\ exec \in {"", "connect", "udp", "icmp"}
  /\ assoc \in {"none", "open", "closed"} /\ client \in {"none"} \cup Senders

\* C21: a command is executed only if authentication is off or the client presented credentials
\* matching a configured user (and the server accepted them)
ExecRequiresAuth == exec # "" => (~cfg.auth \/ (authed /\ sentValid))
\* ... so "no authentication" is never selected while authentication is enabled
NoAuthOnlyWhenOff == method = "noauth" => ~cfg.auth
\* the server believes a client authenticated only if it really presented matching credentials
AuthedIsGenuine == authed => sentValid

\* C22: only the owner's datagrams are relayed; replies go only to the owner
OnlyOwnerRelayed == \A i \in DOMAIN relayed : ~Foreign(relayed[i])
RepliesOnlyToOwner == \A i \in DOMAIN replies : ~Foreign(replies[i])
ClientIsOwner == client # "none" => ~Foreign(client)

\* C23 (state-machine part): at most one SOCKS5 reply per connection, and an executed command was replied to
OneReply == nrep <= 1 /\ (exec # "" => nrep = 1)

EmitEdge ==
  Emit => PrintT("EDGE " \o ToJson(
     [s |-> [cfg |-> cfg, phase |-> phase, method |-> method, authed |-> authed, sentValid |-> sentValid,
             exec |-> exec, assoc |-> assoc,
             declared |-> declared, reqdecl |-> reqdecl, warm |-> warm, nconn |-> nconn,
             client |-> client, relayed |-> relayed, replies |-> replies, ndg |-> ndg, nmr |-> nmr],
      a |-> last',
      t |-> [cfg |-> cfg', phase |-> phase', method |-> method', authed |-> authed', sentValid |-> sentValid',
             exec |-> exec', assoc |-> assoc', declared |-> declared', reqdecl |-> reqdecl', warm |-> warm',
             nconn |-> nconn', client |-> client', relayed |-> relayed', replies |-> replies', ndg |-> ndg',
             nmr |-> nmr']]))
=============================================================================
