------------------------------ MODULE FloodInfo ------------------------------
(***************************************************************************)
(* The two other flooded message kinds of internal/flood (growth G01):     *)
(*   NODE_INFO_ADVERTISE  AnnounceLocalNodeInfo / HandleNodeInfoAdvertise /*)
(*                        SendNodeInfoToNewPeer, the node-info seen cache, *)
(*                        the node-info sequence counter and the store of  *)
(*                        the newest node info per origin                  *)
(*                        (routing.Manager.nodeInfos),                     *)
(*   ROUTE_WITHDRAW       WithdrawLocalRoutes / HandleRouteWithdraw, and    *)
(*                        its interplay with ROUTE_ADVERTISE of the same   *)
(*                        origin and with the full-table replay            *)
(*                        (SendFullTable) to a new peer.                   *)
(* Route announcements are modelled as far as the withdraw interplay needs *)
(* them (one frame per announcement, no hop limit, no ageing: Flood.tla    *)
(* owns those).                                                            *)
(*                                                                         *)
(* Agents are strings, `Links` the potential links.  One connection = one  *)
(* FIFO queue per direction that carries ALL frame kinds (net[<<s,d>>]); a *)
(* scenario with fifo = FALSE lets any queued frame be delivered (bags,    *)
(* more general than the transports).  Frames have one shape               *)
(*   [k, src, dst, o, seq, path, sb, rs],  k in {"info","adv","wd"},       *)
(* path = <<>> for info/wd, rs = set of [r, m] (route id, metric), {} for  *)
(* info.  Route ids: "p" presence, "r1" CIDR, "r2" domain, "r3" forward.   *)
(*                                                                         *)
(* Per agent                                                               *)
(*   iseq   Flooder.nodeInfoSeq           iseen  Flooder.nodeInfoSeenCache *)
(*   info   Manager.nodeInfos: origin -> sequence of the stored info       *)
(*          (0 = none; the content of an info is a function of <<o,seq>>)  *)
(*   ctr    Manager.sequence (route announcements AND withdrawals)         *)
(*   seen   Flooder.seenCache (shared by ROUTE_ADVERTISE and _WITHDRAW)    *)
(*   tbl    learned routes [o, r, nh, m, path, seq] as in Flood.tla        *)
(*   wd     tombstones [o, r, seq]: the newest withdrawal of <<o, r>> this *)
(*          agent has processed.  The IDEAL design consults them when it   *)
(*          stores an announcement; the code has no such memory (see       *)
(*          DevReplayResurrectsWithdrawn), for it `wd` is a ghost.         *)
(*                                                                         *)
(* One action = one call into the flooder:                                 *)
(*   AnnounceInfo(o)        AnnounceLocalNodeInfo                          *)
(*   DeliverInfo(l, i)      HandleNodeInfoAdvertise (seen / seenby / new)  *)
(*   ReplayInfo(n, p)       SendNodeInfoToNewPeer   (second half of        *)
(*   ReplayRoutes(n, p)     SendFullTable            handlePeerConnected)  *)
(*   Announce(o)            AnnounceLocalRoutes                            *)
(*   DeliverAdv(l, i)       HandleRouteAdvertise (seen/seenby/loop/new)    *)
(*   Withdraw(o)            WithdrawLocalRoutes                            *)
(*   DeliverWithdraw(l, i)  HandleRouteWithdraw (seen / seenby / new)      *)
(*   ExpireSeen, ExpireISeen  Flooder.cleanup dropping one cache entry     *)
(*   ForgetInfo(n, o)       Manager.CleanupStaleNodeInfo dropping one entry*)
(*   Connect, Disconnect, PeerGone   as in Flood.tla                       *)
(*                                                                         *)
(* The set-up and the budgets of the environment actions come from a       *)
(* scenario record chosen in Init (constant Scen; one TLC run covers many  *)
(* scenarios, recorded executions carry their own).                        *)
(*                                                                         *)
(* Assumption: the sequence numbers of an origin never decrease (an agent  *)
(* restart with its counters reset is not modelled).                       *)
(***************************************************************************)
EXTENDS Integers, Sequences, FiniteSets, TLC, Json

CONSTANTS Agent,   \* set of agent names
          Links,   \* potential links: set of two-element sets of agents
          Scen,    \* scenarios: [name, up, links, dlinks, loc, ia, ra, wn, conn, disc, exp, expat, forget, fifo, script]
                   \*   up     links connected initially     links / dlinks  links that may be connected / lost
                   \*   loc    agent -> exit route ids it originates
                   \*   ia, ra, wn  agent -> number of node-info announcements / route announcements / withdrawals
                   \*   conn, disc, exp, forget  budgets of the environment actions;  fifo  links deliver in order
                   \*   expat  agents whose seen caches may lose entries
                   \*   script when not <<>>: the environment actions ("ia" AnnounceInfo, "ra" Announce, "wd" Withdraw,
                   \*          "conn", "disc", "exp", "forget") happen in this order (deliveries, replays and PeerGone
                   \*          interleave freely) - keeps scenarios with many environment steps small
          Dev, Emit

DevNames == {"DevInfoNoSeenMark", "DevInfoStoresOlder", "DevInfoForwardsToSeenBy", "DevInfoReplaySkipsOwn",
             "DevInfoNotForwarded",
             "DevWithdrawIgnoresSequence", "DevReplayResurrectsWithdrawn", "DevWithdrawOnlyCidr",
             "DevWithdrawNoSeenMark", "DevWithdrawNotForwarded"}

ASSUME /\ Dev \subseteq DevNames
       /\ \A l \in Links : l \subseteq Agent /\ Cardinality(l) = 2

VARIABLES up, pendR, pendI, gone,    \* connected links; <<n,p>>: n still has to replay routes / node info to p; to drop p's routes
          ctr, seen, tbl, wd,        \* route side
          iseq, iseen, info,         \* node-info side
          net,                       \* directed link -> queue of frames
          cfg,                       \* the scenario (never changes)
          proc,   \* ghost: <<c,n,o,seq>> passed n's seen check of cache c ("i" / "r") in the current epoch
          fwd,    \* ghost: <<c,n,q,o,seq>> n forwarded it to q in the current epoch
          sent,   \* ghost: <<c,o,seq>> -> frames sent by announcing and forwarding (replays not counted)
          hi,     \* ghost: agent -> origin -> newest info sequence stored since the entry was last forgotten
          wseq,   \* ghost: origin -> sequence of its latest withdrawal (0 = none)
          rclean, \* ghost: origin announced its routes after the last topology change and has not withdrawn since
          viol,   \* ghost: flags
          bud, last

topoVars == <<up, pendR, pendI, gone>>
routeVars == <<ctr, seen, tbl, wd>>
infoVars == <<iseq, iseen, info>>
vars == <<up, pendR, pendI, gone, ctr, seen, tbl, wd, iseq, iseen, info, net, cfg, proc, fwd, sent, hi, wseq,
          rclean, viol, bud, last>>
view == <<up, pendR, pendI, gone, ctr, seen, tbl, wd, iseq, iseen, info, net, cfg, proc, fwd, sent, hi, wseq,
          rclean, viol, bud>>

(* ---- helpers ------------------------------------------------------------*)
SeqToSet(s) == {s[i] : i \in 1..Len(s)}
NoDup(s) == Cardinality(SeqToSet(s)) = Len(s)
Max(S) == CHOOSE x \in S : \A y \in S : y <= x
DLinks == {l \in Agent \X Agent : {l[1], l[2]} \in Links}
Nbr(n) == {q \in Agent \ {n} : {n, q} \in up}
Locals(o) == cfg.loc[o]
Kind(r) == IF r = "p" THEN "p" ELSE IF r = "r1" THEN "c" ELSE IF r = "r2" THEN "d" ELSE "f"
Cidr(S) == {r \in S : Kind(r) = "c"}

RECURSIVE SetToSeq(_)
SetToSeq(S) == IF S = {} THEN <<>> ELSE LET x == CHOOSE x \in S : TRUE IN <<x>> \o SetToSeq(S \ {x})
RECURSIVE Perms(_)
Perms(S) == IF S = {} THEN {<<>>} ELSE UNION {{<<x>> \o p : p \in Perms(S \ {x})} : x \in S}
RECURSIVE ReachFrom(_)
ReachFrom(S) == LET S2 == S \cup {q \in Agent : \E x \in S : {x, q} \in up} IN IF S2 = S THEN S ELSE ReachFrom(S2)

Frame(k, src, dst, o, seq, path, sb, rs) ==
  [k |-> k, src |-> src, dst |-> dst, o |-> o, seq |-> seq, path |-> path, sb |-> sb, rs |-> rs]
\* the frames fs (a sequence, in sending order) are appended to the queues of base
PushTo(base, fs) == [l \in DLinks |-> base[l] \o SelectSeq(fs, LAMBDA f : f.src = l[1] /\ f.dst = l[2])]
Take(l, i) == l \in DLinks /\ i \in 1..Len(net[l]) /\ (cfg.fifo => i = 1)
Rest(l, i) == [net EXCEPT ![l] = SubSeq(@, 1, i - 1) \o SubSeq(@, i + 1, Len(@))]
Lbl(l, i, m, res) == [act |-> "Deliver", k |-> m.k, src |-> m.src, dst |-> m.dst, i |-> i, o |-> m.o, seq |-> m.seq,
                      path |-> m.path, sb |-> m.sb, rs |-> m.rs, res |-> res]
Bump(f, k, c) == IF c = 0 THEN f ELSE
                 IF k \in DOMAIN f THEN [f EXCEPT ![k] = @ + c] ELSE [y \in DOMAIN f \cup {k} |-> IF y = k THEN c ELSE f[y]]
EmptyFn == [x \in {} |-> 0]

Key(e) == IF e.r = "p" THEN <<e.o, "p", e.nh>> ELSE <<e.o, e.r, "-">>
\* update rule of Table/DomainTable/ForwardTable/AgentTable.AddRoute
Accept(c, e) == c.seq > e.seq \/ (c.seq = e.seq /\ c.m < e.m)
WdSeq(n, o, r) == LET S == {x.seq : x \in {y \in wd[n] : y.o = o /\ y.r = r}} IN IF S = {} THEN 0 ELSE Max(S)

ZeroBud == [ia |-> [a \in Agent |-> 0], ra |-> [a \in Agent |-> 0], wn |-> [a \in Agent |-> 0],
            conn |-> 0, disc |-> 0, exp |-> 0, forget |-> 0, step |-> 0]
Scripted(kind) == cfg.script = <<>> \/ (bud.step < Len(cfg.script) /\ cfg.script[bud.step + 1] = kind)
NoViol == [ipr |-> FALSE, ifw |-> FALSE, rpr |-> FALSE, rfw |-> FALSE, wnewer |-> FALSE]

InitWith(sc) ==
  /\ cfg = sc
  /\ up = sc.up /\ pendR = {} /\ pendI = {} /\ gone = {}
  /\ ctr = [a \in Agent |-> Cardinality(sc.loc[a])]     \* AddLocal*Route advances it once per route
  /\ seen = [a \in Agent |-> {}] /\ tbl = [a \in Agent |-> {}] /\ wd = [a \in Agent |-> {}]
  /\ iseq = [a \in Agent |-> 0] /\ iseen = [a \in Agent |-> {}]
  /\ info = [a \in Agent |-> [o \in Agent |-> 0]]
  /\ net = [l \in DLinks |-> <<>>]
  /\ proc = {} /\ fwd = {} /\ sent = EmptyFn
  /\ hi = [a \in Agent |-> [o \in Agent |-> 0]]
  /\ wseq = [a \in Agent |-> 0] /\ rclean = [a \in Agent |-> FALSE]
  /\ viol = NoViol /\ bud = ZeroBud
  /\ last = [act |-> "Init"]
Init == \E sc \in Scen : InitWith(sc)

(* ======================= NODE INFO ========================================*)
(* AnnounceLocalNodeInfo: next own sequence number, the own entry is stored *)
(* (SetNodeInfo), one frame with seen-by <<o>> to every connected peer.     *)
AnnounceInfo(o) ==
  /\ bud.ia[o] < cfg.ia[o] /\ Scripted("ia")
  /\ LET s == iseq[o] + 1
         F == {Frame("info", o, q, o, s, <<>>, <<o>>, {}) : q \in Nbr(o)}
     IN /\ iseq' = [iseq EXCEPT ![o] = s]
        /\ info' = [info EXCEPT ![o][o] = s]
        /\ hi' = [hi EXCEPT ![o][o] = s]
        /\ net' = PushTo(net, SetToSeq(F))
        /\ sent' = Bump(sent, <<"i", o, s>>, Cardinality(F))
  /\ bud' = [bud EXCEPT !.ia[o] = @ + 1, !.step = @ + 1]
  /\ last' = [act |-> "AnnounceInfo", n |-> o]
  /\ UNCHANGED <<topoVars, routeVars, iseen, cfg, proc, fwd, wseq, rclean, viol>>

(* HandleNodeInfoAdvertise.  Seen check and mark (one critical section);    *)
(* a frame whose seen-by list contains the receiver is dropped after the    *)
(* mark; otherwise the info is stored if it is about another agent and      *)
(* NEWER than the stored one (SetNodeInfoEncrypted), and - stored or not -  *)
(* forwarded with the receiver appended to the seen-by list to every peer   *)
(* except the sender and the members of that list.                          *)
DeliverInfo(l, i) ==
  /\ Take(l, i) /\ net[l][i].k = "info"
  /\ LET m == net[l][i]
         n == m.dst
         key == <<m.o, m.seq>>
     IN IF key \in iseen[n]
        THEN /\ net' = Rest(l, i) /\ last' = Lbl(l, i, m, "seen")
             /\ UNCHANGED <<infoVars, proc, fwd, sent, hi, viol>>
        ELSE LET inSb == n \in SeqToSet(m.sb)
                 store == ~inSb /\ m.o # n /\ (m.seq > info[n][m.o] \/ "DevInfoStoresOlder" \in Dev)
                 sb2 == Append(m.sb, n)
                 tgt == IF inSb \/ "DevInfoNotForwarded" \in Dev THEN {}
                        ELSE Nbr(n) \ ({m.src} \cup (IF "DevInfoForwardsToSeenBy" \in Dev THEN {} ELSE SeqToSet(sb2)))
                 F == {Frame("info", n, q, m.o, m.seq, <<>>, sb2, {}) : q \in tgt}
                 fk == {<<"i", n, q, m.o, m.seq>> : q \in tgt}
             IN /\ iseen' = IF "DevInfoNoSeenMark" \in Dev THEN iseen ELSE [iseen EXCEPT ![n] = @ \cup {key}]
                /\ iseq' = iseq
                /\ info' = IF store THEN [info EXCEPT ![n][m.o] = m.seq] ELSE info
                /\ hi' = IF store /\ m.seq > hi[n][m.o] THEN [hi EXCEPT ![n][m.o] = m.seq] ELSE hi
                /\ net' = PushTo(Rest(l, i), SetToSeq(F))
                /\ proc' = proc \cup {<<"i", n, m.o, m.seq>>}
                /\ fwd' = fwd \cup fk
                /\ sent' = Bump(sent, <<"i", m.o, m.seq>>, Cardinality(F))
                /\ viol' = [viol EXCEPT !.ipr = @ \/ <<"i", n, m.o, m.seq>> \in proc, !.ifw = @ \/ fk \cap fwd # {}]
                /\ last' = Lbl(l, i, m, IF inSb THEN "seenby" ELSE "new")
  /\ UNCHANGED <<topoVars, routeVars, cfg, wseq, rclean, bud>>

(* SendNodeInfoToNewPeer(p) at n: every stored entry - the own one too, and *)
(* those learned from p - under its ORIGINAL sequence number with a fresh   *)
(* seen-by list <<n>>; the order is the iteration order of a map.           *)
ReplayInfoFrames(n, p) ==
  {Frame("info", n, p, o, info[n][o], <<>>, <<n>>, {})
     : o \in {x \in Agent : info[n][x] > 0 /\ ~("DevInfoReplaySkipsOwn" \in Dev /\ x = n)}}
ReplayInfoOrd(n, p, fs) ==
  /\ <<n, p>> \in pendI /\ <<n, p>> \notin pendR
  /\ SeqToSet(fs) = ReplayInfoFrames(n, p) /\ NoDup(fs)
  /\ net' = PushTo(net, fs)
  /\ pendI' = pendI \ {<<n, p>>}
  /\ last' = [act |-> "ReplayInfo", n |-> n, p |-> p]
  /\ UNCHANGED <<up, pendR, gone, routeVars, infoVars, cfg, proc, fwd, sent, hi, wseq, rclean, viol, bud>>
ReplayInfo(n, p) == \E fs \in Perms(ReplayInfoFrames(n, p)) : ReplayInfoOrd(n, p, fs)

(* Flooder.cleanup dropping one entry of the node-info seen cache           *)
ExpireISeen(n, k) ==
  /\ k \in iseen[n] /\ bud.exp < cfg.exp /\ n \in cfg.expat /\ Scripted("exp")
  /\ iseen' = [iseen EXCEPT ![n] = @ \ {k}]
  /\ proc' = proc \ {<<"i", n, k[1], k[2]>>}
  /\ fwd' = {x \in fwd : ~(x[1] = "i" /\ x[2] = n /\ x[4] = k[1] /\ x[5] = k[2])}
  /\ bud' = [bud EXCEPT !.exp = @ + 1, !.step = @ + 1]
  /\ last' = [act |-> "ExpireISeen", n |-> n, o |-> k[1], seq |-> k[2]]
  /\ UNCHANGED <<topoVars, routeVars, iseq, info, net, cfg, sent, hi, wseq, rclean, viol>>

(* Manager.CleanupStaleNodeInfo dropping one entry (never the own one)      *)
ForgetInfo(n, o) ==
  /\ o # n /\ info[n][o] > 0 /\ bud.forget < cfg.forget /\ Scripted("forget")
  /\ info' = [info EXCEPT ![n][o] = 0]
  /\ hi' = [hi EXCEPT ![n][o] = 0]
  /\ bud' = [bud EXCEPT !.forget = @ + 1, !.step = @ + 1]
  /\ last' = [act |-> "ForgetInfo", n |-> n, o |-> o]
  /\ UNCHANGED <<topoVars, routeVars, iseq, iseen, net, cfg, proc, fwd, sent, wseq, rclean, viol>>

(* ======================= ROUTES AND WITHDRAWALS ==========================*)
(* AnnounceLocalRoutes: all exit routes plus the presence route, metric 0,  *)
(* path <<o>>, seen-by <<o>>, next sequence number, to every peer.          *)
Announce(o) ==
  /\ bud.ra[o] < cfg.ra[o] /\ Scripted("ra")
  /\ LET s == ctr[o] + 1
         F == {Frame("adv", o, q, o, s, <<o>>, <<o>>, {[r |-> x, m |-> 0] : x \in Locals(o) \cup {"p"}}) : q \in Nbr(o)}
     IN /\ ctr' = [ctr EXCEPT ![o] = s]
        /\ net' = PushTo(net, SetToSeq(F))
        /\ sent' = Bump(sent, <<"r", o, s>>, Cardinality(F))
  /\ rclean' = [rclean EXCEPT ![o] = TRUE]
  /\ bud' = [bud EXCEPT !.ra[o] = @ + 1, !.step = @ + 1]
  /\ last' = [act |-> "Announce", n |-> o]
  /\ UNCHANGED <<topoVars, seen, tbl, wd, infoVars, cfg, proc, fwd, hi, wseq, viol>>

(* WithdrawLocalRoutes.  IDEAL: every exit route of the agent is withdrawn  *)
(* ("floods withdrawal of all local routes").  The local routes stay        *)
(* configured: a later Announce / table replay announces them again.        *)
(* DevWithdrawOnlyCidr (the code): only CIDR routes are listed, and nothing *)
(* at all happens when the agent has no CIDR route.                         *)
WithdrawSet(o) == IF "DevWithdrawOnlyCidr" \in Dev THEN Cidr(Locals(o)) ELSE Locals(o)
Withdraw(o) ==
  /\ bud.wn[o] < cfg.wn[o] /\ Scripted("wd")
  /\ bud' = [bud EXCEPT !.wn[o] = @ + 1, !.step = @ + 1]
  /\ IF WithdrawSet(o) = {}
     THEN /\ last' = [act |-> "Withdraw", n |-> o, res |-> "none"]
          /\ UNCHANGED <<ctr, net, sent, wseq, rclean>>
     ELSE LET s == ctr[o] + 1
              F == {Frame("wd", o, q, o, s, <<>>, <<o>>, {[r |-> x, m |-> 0] : x \in WithdrawSet(o)}) : q \in Nbr(o)}
          IN /\ ctr' = [ctr EXCEPT ![o] = s]
             /\ net' = PushTo(net, SetToSeq(F))
             /\ sent' = Bump(sent, <<"r", o, s>>, Cardinality(F))
             /\ wseq' = [wseq EXCEPT ![o] = s]
             /\ rclean' = [rclean EXCEPT ![o] = FALSE]
             /\ last' = [act |-> "Withdraw", n |-> o, res |-> "sent"]
  /\ UNCHANGED <<topoVars, seen, tbl, wd, infoVars, cfg, proc, fwd, hi, viol>>

Looped(m) == m.o = m.dst \/ m.dst \in SeqToSet(m.path)
MarkR(m, dev) ==
  /\ seen' = IF dev \in Dev THEN seen ELSE [seen EXCEPT ![m.dst] = @ \cup {<<m.o, m.seq>>}]
  /\ proc' = proc \cup {<<"r", m.dst, m.o, m.seq>>}

Cands(m) == {[o |-> m.o, r |-> x.r, nh |-> m.src, m |-> x.m + 1, path |-> m.path, seq |-> m.seq] : x \in m.rs}
(* IDEAL: an announcement older than a withdrawal of the same route that    *)
(* this agent has already processed does not bring the route back           *)
(* (tombstone).  DevReplayResurrectsWithdrawn (the code): no such memory.   *)
Store(T, n, m) ==
  LET C0 == Cands(m)
      C == IF "DevReplayResurrectsWithdrawn" \in Dev THEN C0
           ELSE {c \in C0 : c.r = "p" \/ c.seq > WdSeq(n, c.o, c.r)}
      \* (only the presence route can occur several times in one announcement: a replay of several next hops)
      best == {c \in C : c.r # "p" \/ \A d \in C : d.r = "p" => c.m <= d.m}
      acc == {c \in best : \A e \in T : Key(e) = Key(c) => Accept(c, e)}
  IN {e \in T : \A c \in acc : Key(c) # Key(e)} \cup acc

(* HandleRouteAdvertise as in Flood.tla (without hop limit and count fields)*)
DeliverAdv(l, i) ==
  /\ Take(l, i) /\ net[l][i].k = "adv"
  /\ LET m == net[l][i]
         n == m.dst
     IN IF <<m.o, m.seq>> \in seen[n]
        THEN /\ net' = Rest(l, i) /\ last' = Lbl(l, i, m, "seen")
             /\ UNCHANGED <<seen, tbl, proc, fwd, sent, viol>>
        ELSE /\ MarkR(m, "DevNone")
             /\ IF n \in SeqToSet(m.sb) \/ Looped(m)
                THEN /\ net' = Rest(l, i)
                     /\ last' = Lbl(l, i, m, IF n \in SeqToSet(m.sb) THEN "seenby" ELSE "loop")
                     /\ viol' = [viol EXCEPT !.rpr = @ \/ <<"r", n, m.o, m.seq>> \in proc]
                     /\ UNCHANGED <<tbl, fwd, sent>>
                ELSE LET sb2 == Append(m.sb, n)
                         tgt == Nbr(n) \ ({m.src} \cup SeqToSet(sb2))
                         F == {Frame("adv", n, q, m.o, m.seq, <<n>> \o m.path, sb2, {[r |-> x.r, m |-> x.m + 1] : x \in m.rs})
                                 : q \in tgt}
                         fk == {<<"r", n, q, m.o, m.seq>> : q \in tgt}
                     IN /\ tbl' = [tbl EXCEPT ![n] = Store(@, n, m)]
                        /\ net' = PushTo(Rest(l, i), SetToSeq(F))
                        /\ fwd' = fwd \cup fk
                        /\ sent' = Bump(sent, <<"r", m.o, m.seq>>, Cardinality(F))
                        /\ viol' = [viol EXCEPT !.rpr = @ \/ <<"r", n, m.o, m.seq>> \in proc, !.rfw = @ \/ fk \cap fwd # {}]
                        /\ last' = Lbl(l, i, m, "new")
  /\ UNCHANGED <<topoVars, ctr, wd, infoVars, cfg, hi, wseq, rclean, bud>>

(* HandleRouteWithdraw.  Seen check and mark in the cache it shares with    *)
(* ROUTE_ADVERTISE, seen-by check, removal, forward (seen-by extended).     *)
(* IDEAL: only entries OLDER than the withdrawal are removed, and the       *)
(* withdrawal is remembered (tombstone).                                    *)
(* DevWithdrawIgnoresSequence (the code): the listed routes of the origin   *)
(* are removed whatever their sequence number.                              *)
(* DevWithdrawOnlyCidr (the code): only CIDR routes are looked at.          *)
DeliverWithdraw(l, i) ==
  /\ Take(l, i) /\ net[l][i].k = "wd"
  /\ LET m == net[l][i]
         n == m.dst
     IN IF <<m.o, m.seq>> \in seen[n]
        THEN /\ net' = Rest(l, i) /\ last' = Lbl(l, i, m, "seen")
             /\ UNCHANGED <<seen, tbl, wd, proc, fwd, sent, viol>>
        ELSE /\ MarkR(m, "DevWithdrawNoSeenMark")
             /\ IF n \in SeqToSet(m.sb)
                THEN /\ net' = Rest(l, i) /\ last' = Lbl(l, i, m, "seenby")
                     /\ viol' = [viol EXCEPT !.rpr = @ \/ <<"r", n, m.o, m.seq>> \in proc]
                     /\ UNCHANGED <<tbl, wd, fwd, sent>>
                ELSE LET rids == {x.r : x \in m.rs}
                         rem == IF "DevWithdrawOnlyCidr" \in Dev THEN Cidr(rids) ELSE rids
                         out == {e \in tbl[n] : e.o = m.o /\ e.r \in rem
                                                 /\ ("DevWithdrawIgnoresSequence" \in Dev \/ e.seq < m.seq)}
                         sb2 == Append(m.sb, n)
                         tgt == IF "DevWithdrawNotForwarded" \in Dev THEN {} ELSE Nbr(n) \ ({m.src} \cup SeqToSet(sb2))
                         F == {Frame("wd", n, q, m.o, m.seq, <<>>, sb2, m.rs) : q \in tgt}
                         fk == {<<"r", n, q, m.o, m.seq>> : q \in tgt}
                     IN /\ tbl' = [tbl EXCEPT ![n] = @ \ out]
                        /\ wd' = [wd EXCEPT ![n] = {x \in @ : ~(x.o = m.o /\ x.r \in rids)} \cup
                                                   {[o |-> m.o, r |-> r, seq |-> IF WdSeq(n, m.o, r) > m.seq
                                                                                 THEN WdSeq(n, m.o, r) ELSE m.seq] : r \in rids}]
                        /\ net' = PushTo(Rest(l, i), SetToSeq(F))
                        /\ fwd' = fwd \cup fk
                        /\ sent' = Bump(sent, <<"r", m.o, m.seq>>, Cardinality(F))
                        /\ viol' = [viol EXCEPT !.rpr = @ \/ <<"r", n, m.o, m.seq>> \in proc, !.rfw = @ \/ fk \cap fwd # {},
                                                !.wnewer = @ \/ \E e \in out : e.seq > m.seq]
                        /\ last' = Lbl(l, i, m, "new")
  /\ UNCHANGED <<topoVars, ctr, infoVars, cfg, hi, wseq, rclean, bud>>

(* SendFullTable(p) at n (see Flood.tla): the own exit routes as a genuine  *)
(* announcement under a fresh own sequence number (never the own presence   *)
(* route); learned routes with next hop # p per original announcement under *)
(* the ORIGIN's sequence, path <<n>> \o stored path, seen-by <<n>>, stored  *)
(* metrics; of several presence entries only the best; the path from the    *)
(* first of: a CIDR entry, the best presence entry, a forward entry, a      *)
(* domain entry.  The frames go out in the iteration order of a map.        *)
KindPri == <<"c", "p", "f", "d">>
PathSrc(E) == LET i == CHOOSE i \in 1..4 : (\E e \in E : Kind(e.r) = KindPri[i])
                                            /\ \A j \in 1..(i - 1) : \A e \in E : Kind(e.r) # KindPri[j]
                  S == {e \in E : Kind(e.r) = KindPri[i]}
                  B == IF KindPri[i] = "p" THEN {e \in S : \A d \in S : e.m <= d.m} ELSE S
              IN {e.path : e \in B}
ReplayRs(E) == {[r |-> e.r, m |-> e.m] : e \in {x \in E : x.r # "p" \/ \A d \in E : d.r = "p" => x.m <= d.m}}
ReplayEnts(n, p) == {e \in tbl[n] : e.nh # p}
ReplayGroups(n, p) == {<<e.o, e.seq>> : e \in ReplayEnts(n, p)}
GroupEnts(n, p, g) == {e \in ReplayEnts(n, p) : e.o = g[1] /\ e.seq = g[2]}
ReplayOwn(n, p) == IF Locals(n) = {} THEN {}
                   ELSE {Frame("adv", n, p, n, ctr[n] + 1, <<n>>, <<n>>, {[r |-> x, m |-> 0] : x \in Locals(n)})}
GroupFrame(n, p, g, q) == Frame("adv", n, p, g[1], g[2], <<n>> \o q, <<n>>, ReplayRs(GroupEnts(n, p, g)))
\* all frame sets SendFullTable(p) can produce at n (a choice of path where best presence entries tie)
ReplayRouteSets(n, p) ==
  LET G == ReplayGroups(n, p)
      Ch == {c \in [G -> UNION {PathSrc(GroupEnts(n, p, g)) : g \in G}] : \A g \in G : c[g] \in PathSrc(GroupEnts(n, p, g))}
  IN {ReplayOwn(n, p) \cup {GroupFrame(n, p, g, c[g]) : g \in G} : c \in Ch}
\* the same as a test (no enumeration: used for recorded executions with many groups)
IsReplayRouteSet(n, p, S) ==
  LET G == ReplayGroups(n, p)
  IN /\ ReplayOwn(n, p) \subseteq S
     /\ \A g \in G : \E q \in PathSrc(GroupEnts(n, p, g)) : GroupFrame(n, p, g, q) \in S
     /\ \A f \in S : f \in ReplayOwn(n, p) \/ \E g \in G : \E q \in PathSrc(GroupEnts(n, p, g)) : f = GroupFrame(n, p, g, q)
     /\ Cardinality(S) = Cardinality(ReplayOwn(n, p)) + Cardinality(G)
ReplayRoutesOrd(n, p, fs) ==
  /\ <<n, p>> \in pendR
  /\ IsReplayRouteSet(n, p, SeqToSet(fs)) /\ NoDup(fs)
  /\ net' = PushTo(net, fs)
  /\ ctr' = [ctr EXCEPT ![n] = @ + (IF Locals(n) = {} THEN 0 ELSE 1)]
  /\ pendR' = pendR \ {<<n, p>>}
  /\ last' = [act |-> "ReplayRoutes", n |-> n, p |-> p]
  /\ UNCHANGED <<up, pendI, gone, seen, tbl, wd, infoVars, cfg, proc, fwd, sent, hi, wseq, rclean, viol, bud>>
ReplayRoutes(n, p) == \E F \in ReplayRouteSets(n, p) : \E fs \in Perms(F) : ReplayRoutesOrd(n, p, fs)

(* Flooder.cleanup dropping one entry of the route seen cache               *)
ExpireSeen(n, k) ==
  /\ k \in seen[n] /\ bud.exp < cfg.exp /\ n \in cfg.expat /\ Scripted("exp")
  /\ seen' = [seen EXCEPT ![n] = @ \ {k}]
  /\ proc' = proc \ {<<"r", n, k[1], k[2]>>}
  /\ fwd' = {x \in fwd : ~(x[1] = "r" /\ x[2] = n /\ x[4] = k[1] /\ x[5] = k[2])}
  /\ bud' = [bud EXCEPT !.exp = @ + 1, !.step = @ + 1]
  /\ last' = [act |-> "ExpireSeen", n |-> n, o |-> k[1], seq |-> k[2]]
  /\ UNCHANGED <<topoVars, ctr, tbl, wd, infoVars, net, cfg, sent, hi, wseq, rclean, viol>>

(* ======================= TOPOLOGY =========================================*)
Connect(l) ==
  /\ l \in cfg.links \ up /\ bud.conn < cfg.conn /\ Scripted("conn")
  /\ \A x \in gone : {x[1], x[2]} # l
  /\ up' = up \cup {l}
  /\ LET P == {<<a, b>> : a \in l, b \in l} \ {<<a, a>> : a \in l}
     IN pendR' = pendR \cup P /\ pendI' = pendI \cup P
  /\ rclean' = [a \in Agent |-> FALSE]
  /\ bud' = [bud EXCEPT !.conn = @ + 1, !.step = @ + 1]
  /\ last' = [act |-> "Connect", l |-> l]
  /\ UNCHANGED <<gone, routeVars, infoVars, net, cfg, proc, fwd, sent, hi, wseq, viol>>

\* the connection is lost: frames in flight on it are lost, both ends still hold the routes
Disconnect(l) ==
  /\ l \in up \cap cfg.dlinks /\ bud.disc < cfg.disc /\ Scripted("disc")
  /\ up' = up \ {l}
  /\ net' = [x \in DLinks |-> IF {x[1], x[2]} = l THEN <<>> ELSE net[x]]
  /\ pendR' = {x \in pendR : {x[1], x[2]} # l} /\ pendI' = {x \in pendI : {x[1], x[2]} # l}
  /\ gone' = gone \cup ({<<a, b>> : a \in l, b \in l} \ {<<a, a>> : a \in l})
  /\ rclean' = [a \in Agent |-> FALSE]
  /\ bud' = [bud EXCEPT !.disc = @ + 1, !.step = @ + 1]
  /\ last' = [act |-> "Disconnect", l |-> l]
  /\ UNCHANGED <<routeVars, infoVars, cfg, proc, fwd, sent, hi, wseq, viol>>

\* handlePeerDisconnect at n: the routes whose next hop was p are removed (node info is kept)
PeerGone(n, p) ==
  /\ <<n, p>> \in gone
  /\ gone' = gone \ {<<n, p>>}
  /\ tbl' = [tbl EXCEPT ![n] = {e \in @ : e.nh # p}]
  /\ last' = [act |-> "PeerGone", n |-> n, p |-> p]
  /\ UNCHANGED <<up, pendR, pendI, ctr, seen, wd, infoVars, net, cfg, proc, fwd, sent, hi, wseq, rclean, viol, bud>>

Next ==
  \/ \E o \in Agent : AnnounceInfo(o) \/ Announce(o) \/ Withdraw(o)
  \/ \E l \in DLinks : \E i \in 1..Len(net[l]) : DeliverInfo(l, i) \/ DeliverAdv(l, i) \/ DeliverWithdraw(l, i)
  \/ \E x \in pendR : ReplayRoutes(x[1], x[2])
  \/ \E x \in pendI : ReplayInfo(x[1], x[2])
  \/ \E n \in Agent : (\E k \in iseen[n] : ExpireISeen(n, k)) \/ (\E k \in seen[n] : ExpireSeen(n, k))
  \/ \E n \in Agent, o \in Agent : ForgetInfo(n, o)
  \/ \E l \in Links : Connect(l) \/ Disconnect(l)
  \/ \E x \in gone : PeerGone(x[1], x[2])

Spec == Init /\ [][Next]_vars

(* ======================= PROPERTIES ======================================*)
Msgs == UNION {SeqToSet(net[l]) : l \in DLinks}
Quiescent == Msgs = {} /\ pendR = {} /\ pendI = {} /\ gone = {}

TypeOK ==
  /\ up \subseteq Links
  /\ \A l \in DLinks : net[l] # <<>> => {l[1], l[2]} \in up
  /\ \A l \in DLinks : \A i \in 1..Len(net[l]) : net[l][i].src = l[1] /\ net[l][i].dst = l[2]
  /\ \A a \in Agent : \A e \in tbl[a] : e.o \in Agent \ {a} /\ e.nh \in Agent \ {a} /\ e.r \in Locals(e.o) \cup {"p"}
  /\ \A a \in Agent : \A e, f \in tbl[a] : Key(e) = Key(f) => e = f
  /\ \A a \in Agent : \A x, y \in wd[a] : x.o = y.o /\ x.r = y.r => x = y

\* termination: while its cache entry is live a message passes the seen check of an agent at most once and is
\* forwarded at most once per neighbour - node info, and route announcements / withdrawals (one shared cache)
InfoProcessedOnce == ~viol.ipr
InfoForwardedOnce == ~viol.ifw
RouteProcessedOnce == ~viol.rpr
RouteForwardedOnce == ~viol.rfw
\* termination, with or without the caches: the seen-by list of a frame is duplicate-free, never contains the
\* receiver, and every forward extends it, so a forwarding chain visits at most |Agent| agents
ChainsSimple == \A m \in Msgs : NoDup(m.sb) /\ m.dst \notin SeqToSet(m.sb) /\ Len(m.sb) <= Cardinality(Agent)
                                 /\ NoDup(m.path) /\ Len(m.path) <= Cardinality(Agent)
\* hence at most one frame per direction of every link per announcement / withdrawal (no expiry, stable links)
MsgBound == bud.exp = 0 /\ bud.conn = 0 /\ bud.disc = 0 => \A k \in DOMAIN sent : sent[k] <= 2 * Cardinality(up)

\* the stored node info of an origin never goes back to an older one (while the entry exists), nobody holds an info
\* the origin has not issued, and every agent holds its own current info
InfoMonotone == \A n \in Agent, o \in Agent : info[n][o] = hi[n][o]
InfoSane == \A n \in Agent, o \in Agent : info[n][o] <= iseq[o] /\ info[n][n] = iseq[n]
\* at quiescence every agent holds the NEWEST node info of every agent it is connected to (directly or not) - as
\* long as no entry was dropped by the TTL (an agent that forgot an entry cannot replay it to a new peer, and a
\* late copy of an older info may then be stored again: the next periodic announcement repairs both)
InfoConverged == Quiescent /\ bud.forget = 0 => \A o \in Agent : iseq[o] > 0 =>
                    \A a \in ReachFrom({o}) : info[a][o] = iseq[o]

\* an agent that has processed a withdrawal never (again) holds an older copy of the withdrawn route:
\* no resurrection by late or replayed announcements
NoResurrection == \A n \in Agent : \A e \in tbl[n] : e.r # "p" => e.seq > WdSeq(n, e.o, e.r)
\* a withdrawal never removes what the origin announced after it
WithdrawRespectsSequence == ~viol.wnewer
\* once a withdrawal has reached quiescence (no link was ever lost) nobody routes to the origin's routes any more,
\* unless the origin announced them again later
Withdrawn == Quiescent /\ bud.disc = 0 =>
               \A o \in Agent : wseq[o] > 0 =>
                 \A a \in Agent \ {o} : \A e \in tbl[a] : e.o = o /\ e.r \in Locals(o) => e.seq > wseq[o]
\* and an origin that announced after its last withdrawal is known everywhere (a late withdrawal did no harm)
Learned(a, o) == /\ \E e \in tbl[a] : e.o = o /\ e.r = "p"
                 /\ \A r \in Locals(o) : \E e \in tbl[a] : e.o = o /\ e.r = r
RouteConverged == Quiescent => \A o \in Agent : rclean[o] => \A a \in ReachFrom({o}) \ {o} : Learned(a, o)

(* ---- edge emission ---------------------------------------------------------*)
Proj(s_up, s_pendR, s_pendI, s_gone, s_ctr, s_seen, s_tbl, s_wd, s_iseq, s_iseen, s_info, s_net) ==
  [sc |-> cfg.name, loc |-> cfg.loc,
   up |-> s_up, pendR |-> s_pendR, pendI |-> s_pendI, gone |-> s_gone, ctr |-> s_ctr, seen |-> s_seen, tbl |-> s_tbl,
   wd |-> s_wd, iseq |-> s_iseq, iseen |-> s_iseen, info |-> s_info,
   net |-> {[src |-> l[1], dst |-> l[2], q |-> s_net[l]] : l \in {x \in DLinks : s_net[x] # <<>>}}]
EmitEdge ==
  Emit => PrintT("EDGE " \o ToJson([s |-> Proj(up, pendR, pendI, gone, ctr, seen, tbl, wd, iseq, iseen, info, net),
                                     a |-> last',
                                     t |-> Proj(up', pendR', pendI', gone', ctr', seen', tbl', wd', iseq', iseen', info', net')]))
=============================================================================
