CONSTANTS
 Tables = {"cidr","dom","fwd","agt"}
 CidrKeys <- None DomKeys <- None CidrQ <- None DomQ <- None FwdKeys = {} AgtKeys = {}
 Orig = {} Peer = {} Metrics = {} Seqs = {} PathKinds = {} CaseVars = {0,1,2} LocalMetrics = {}
 MaxLSeq = 1000000000 MaxEntries = 1000000000 Aging = TRUE Dev = {} Emit = FALSE
INIT TraceInit
NEXT TraceNext
CONSTRAINT HighWater
INVARIANTS SlotUnique NoLoopStored LocalShape
PROPERTIES ReplaceRule DisconnectExact CleanupKeepsLocal CleanupExact
POSTCONDITION TraceAccepted
