------------------------------- MODULE Codec -------------------------------
(***************************************************************************)
(* Wire grammar of internal/protocol (frame.go, types.go)          (C05)   *)
(*                                                                         *)
(* Every message type is a sequence of FIELD DESCRIPTORS.  From a grammar  *)
(* and an abstract message the module derives                              *)
(*   Lay(g, m)       the byte layout of the encoding: a sequence of RUNS   *)
(*                   (structural numbers with their value: lengths, counts,*)
(*                   tags, flags; content runs with the identity of the    *)
(*                   field they carry) and hence the total length, and     *)
(*   Parse(ty, L)    a TRANSCRIPTION OF THE DECODERS: a reader with an     *)
(*                   offset and a limit that walks the bytes the way the   *)
(*                   Go code does (min-length guard first, count then      *)
(*                   elements, length-prefixed sub-buffers, sub-decoding   *)
(*                   of the optional commands on "the rest of the buffer"  *)
(*                   followed by an explicitly computed advance).          *)
(* The property (oracle) is  Parse(ty, Lay(ty, m)) = m  for every message  *)
(* within the wire limits; TLC checks it on the enumerated boundary        *)
(* shapes and prints one VEC record per shape for the Go harness, which    *)
(* builds the concrete message, compares the real encoding byte by byte    *)
(* with the concretised layout and the real decoding with m.               *)
(*                                                                         *)
(* Content bytes are abstract: a content run only knows which field it     *)
(* belongs to (id) and whether its bytes are zero ("z", unsigned command   *)
(* signature) or not ("x", "u" numbers; "b" = 0/1).  A read that does not  *)
(* coincide with one run returns the id "?" (garbage) - this is how a      *)
(* wrong offset becomes visible as a garbled field.                        *)
(*                                                                         *)
(* Legacy encodings: the node info grew over protocol versions; its newer  *)
(* fields are optional at the end (decoded only while bytes remain).  The  *)
(* shapes include node infos cut after each such field; the decoder must   *)
(* return the same message with the missing fields at their zero value.    *)
(*                                                                         *)
(* Frames travel through two decode paths: Decode on a byte slice and the  *)
(* streaming FrameReader.Read (header, then payload, from an io.Reader).    *)
(* Section "streaming frame path" transcribes both for HOSTILE HEADERS     *)
(* (length field in {0,1,Max-1,Max,Max+1,2^31,2^32-1} x how much of header *)
(* and payload the stream delivers before EOF): both must agree on accept  *)
(* or reject, and the streaming path must not allocate out of proportion   *)
(* to the bytes it was given.  The encoder side (Frame.Encode,             *)
(* FrameWriter.Write/WriteFrame) refuses payloads above the maximum.       *)
(*                                                                         *)
(* Deviations (constant Dev):                                              *)
(*   DevQueuedOffset33     DecodeQueuedState advances 33+16*|SeenBy| past  *)
(*                         the sleep command instead of its real size      *)
(*                         97+16*|SeenBy|                                  *)
(*   DevAckMinLen44        DecodeStreamOpenAck/DecodeUDPOpenAck demand 44  *)
(*                         bytes although an acknowledgement without bound *)
(*                         address (type 0) encodes to 43                  *)
(*   DevPreallocFromCount  DecodeQueuedState pre-allocates capacity from   *)
(*                         the unchecked 16-bit count fields               *)
(*   DevNoLegacyTail       the node-info decoder insists on the fields     *)
(*                         appended in later versions (legacy encodings    *)
(*                         rejected); not observed, guards the legacy path *)
(*   DevStreamNoMaxCheck   FrameReader.Read takes the length of the header *)
(*                         without comparing it with MaxPayloadSize and    *)
(*                         allocates that many bytes (up to 4 GiB)         *)
(***************************************************************************)
EXTENDS Integers, Sequences, FiniteSets, TLC, Json

CONSTANTS Types,   \* message types whose shapes are enumerated
          Dev,     \* enabled deviations
          Emit,    \* TRUE: print VEC / HOSTILE records
          Wide     \* TRUE: more boundary values and pairs of varied fields (thorough tier)

DevNames == {"DevQueuedOffset33", "DevAckMinLen44", "DevPreallocFromCount", "DevNoLegacyTail", "DevStreamNoMaxCheck"}
ASSUME Dev \subseteq DevNames

(* ------------------------------------------------------------------ *)
(* Field descriptors                                                   *)
(* ------------------------------------------------------------------ *)
U(nm, w)            == [k |-> "U",    name |-> nm, n |-> w]     \* big-endian number, content
B(nm)               == [k |-> "Bool", name |-> nm, n |-> 1]     \* content flag, one byte 0/1
Fix(nm, n)          == [k |-> "Fix",  name |-> nm, n |-> n]     \* n opaque bytes
Sig(nm)             == [k |-> "Sig",  name |-> nm, n |-> 64]    \* signature: all zero (unsigned) or not
\* w-byte length, `gap` content bytes (only the frame header has them), then that many bytes
VarG(nm, w, gap, ls, d) == [k |-> "Var", name |-> nm, w |-> w, gap |-> gap, lens |-> ls, def |-> d]
Var(nm, w, ls, d)   == VarG(nm, w, 0, ls, d)
\* w-byte count, then count elements of grammar g
Lst(nm, w, g, cs)   == [k |-> "List", name |-> nm, w |-> w, g |-> g, counts |-> cs, deep |-> TRUE]
\* the same, but the element is varied field by field only in the thorough tier (its grammar is a top-level type
\* whose shapes are enumerated anyway)
LstT(nm, w, g, cs)  == [k |-> "List", name |-> nm, w |-> w, g |-> g, counts |-> cs, deep |-> Wide]
\* w-byte length, then a nested message of grammar g occupying exactly that many bytes
Nest(nm, w, g)      == [k |-> "Nest", name |-> nm, w |-> w, g |-> g]
\* one tag byte selecting the grammar of what follows; flag = TRUE: any non-zero byte means 1
Un(nm, alts, flag)  == [k |-> "Union", name |-> nm, alts |-> alts, flag |-> flag]
\* presence byte; if set, grammar g is decoded from the REST of the buffer and the reader advanced explicitly
Opt(nm, g)          == [k |-> "Opt",  name |-> nm, g |-> g]
\* fields appended to a message in later protocol versions: decoded only "if r.remaining() > 0", otherwise they
\* keep their zero value (an encoding that ends before them is a LEGACY encoding)
OB(nm)              == [k |-> "Bool", name |-> nm, n |-> 1, opt |-> TRUE]
OLst(nm, w, g, cs)  == [k |-> "List", name |-> nm, w |-> w, g |-> g, counts |-> cs, deep |-> TRUE, opt |-> TRUE]
IsOpt(f)            == "opt" \in DOMAIN f

L8  == IF Wide THEN {0, 1, 2, 127, 128, 254, 255} ELSE {0, 1, 254, 255}
C8  == IF Wide THEN {0, 1, 2, 3, 4, 254, 255} ELSE {0, 1, 2, 255}
Str8(nm)      == Var(nm, 1, L8, 3)
Ids(nm)       == Lst(nm, 1, "ID", C8)
MaxPayload    == 16384

AddrAlts  == (1 :> "A4" @@ 4 :> "A16" @@ 3 :> "ADom")
BoundAlts == (1 :> "A4" @@ 4 :> "A16" @@ 0 :> "Empty")
EncPath   == (1 :> "Blob16" @@ 0 :> "NPath")
EncInfo   == (1 :> "Blob16" @@ 0 :> "NInfo")
OpenG     == << U("requestID", 8), Un("addr", AddrAlts, FALSE), U("port", 2), U("ttl", 1),
                Ids("remainingPath"), Fix("ephemeralPubKey", 32) >>
AckG      == << U("requestID", 8), Un("boundAddr", BoundAlts, FALSE), U("boundPort", 2),
                Fix("ephemeralPubKey", 32) >>
ErrG      == << U("requestID", 8), U("errorCode", 2), Str8("message") >>
CmdG      == << Fix("originAgent", 16), U("commandID", 8), U("timestamp", 8), Sig("signature"), Ids("seenBy") >>

GNames == {"Frame", "PeerHello", "StreamOpen", "StreamOpenAck", "StreamOpenErr", "StreamReset", "Keepalive",
           "RouteAdvertise", "RouteWithdraw", "NodeInfoAdvertise", "ControlRequest", "ControlResponse",
           "UDPOpen", "UDPOpenAck", "UDPOpenErr", "UDPDatagram", "UDPClose",
           "ICMPOpen", "ICMPOpenAck", "ICMPOpenErr", "ICMPEcho", "ICMPClose",
           "SleepCommand", "WakeCommand", "QueuedState",
           \* sub-grammars
           "Empty", "ID", "StrE", "A4", "A16", "ADom", "Path", "Route", "WRoute", "P4", "P16", "PDom", "PFwd",
           "PAgent", "Blob16", "NPath", "NInfo", "NodeInfo", "Peer", "Listener", "Cmd", "NRA", "NRW", "NNI"}

G == [g \in GNames |->
  CASE g = "Frame"      -> << U("type", 1), U("flags", 1),
                              VarG("payload", 4, 8, {0, 1, MaxPayload - 1, MaxPayload}, 5) >>
    [] g = "PeerHello"  -> << U("version", 2), Fix("agentID", 16), U("timestamp", 8), Str8("displayName"),
                              Lst("capabilities", 1, "StrE", C8) >>
    [] g = "StreamOpen" -> OpenG
    [] g = "UDPOpen"    -> OpenG
    [] g = "StreamOpenAck" -> AckG
    [] g = "UDPOpenAck"    -> AckG
    [] g = "StreamOpenErr" -> ErrG
    [] g = "UDPOpenErr"    -> ErrG
    [] g = "ICMPOpenErr"   -> ErrG
    [] g = "StreamReset" -> << U("errorCode", 2) >>
    [] g = "Keepalive"   -> << U("timestamp", 8) >>
    [] g = "RouteAdvertise" -> << Fix("originAgent", 16), Str8("originDisplayName"), U("sequence", 8),
                                  Lst("routes", 1, "Route", C8), Un("encPath", EncPath, TRUE), Ids("seenBy") >>
    [] g = "RouteWithdraw"  -> << Fix("originAgent", 16), U("sequence", 8), Lst("routes", 1, "WRoute", C8),
                                  Ids("seenBy") >>
    [] g = "NodeInfoAdvertise" -> << Fix("originAgent", 16), U("sequence", 8), Un("encInfo", EncInfo, TRUE),
                                     Ids("seenBy") >>
    [] g = "ControlRequest"  -> << U("requestID", 8), U("controlType", 1), Fix("targetAgent", 16), Ids("path"),
                                   Var("data", 4, {0, 1, 255, 256, MaxPayload - 31, MaxPayload - 30}, 4) >>
    [] g = "ControlResponse" -> << U("requestID", 8), U("controlType", 1), B("success"),
                                   Var("data", 2, {0, 1, 255, 256, MaxPayload - 13, MaxPayload - 12}, 4) >>
    [] g = "UDPDatagram" -> << Un("addr", AddrAlts, FALSE), U("port", 2),
                               Var("data", 2, {0, 1, 255, 256, 1471, 1472}, 4) >>
    [] g = "UDPClose"    -> << U("reason", 1) >>
    [] g = "ICMPClose"   -> << U("reason", 1) >>
    [] g = "ICMPOpen"    -> << U("requestID", 8), Var("destIP", 1, {0, 4, 16, 255}, 4), U("ttl", 1),
                               Ids("remainingPath"), Fix("ephemeralPubKey", 32) >>
    [] g = "ICMPOpenAck" -> << U("requestID", 8), Fix("ephemeralPubKey", 32) >>
    [] g = "ICMPEcho"    -> << U("identifier", 2), U("sequence", 2), B("isReply"),
                               Var("srcIP", 1, {0, 4, 16, 255}, 4), Var("data", 2, {0, 1, 255, 256, 1471, 1472}, 4) >>
    [] g = "SleepCommand" -> CmdG
    [] g = "WakeCommand"  -> CmdG
    [] g = "Cmd"          -> CmdG
    [] g = "QueuedState"  -> << LstT("routes", 2, "NRA", {0, 1, 2, 300}), LstT("withdraws", 2, "NRW", {0, 1, 2, 300}),
                                LstT("nodeInfos", 2, "NNI", {0, 1, 2, 40}), Opt("sleepCmd", "Cmd"), Opt("wakeCmd", "Cmd") >>
    \* ---- sub-grammars
    [] g = "Empty" -> << >>
    [] g = "ID"    -> << Fix("id", 16) >>
    [] g = "StrE"  -> << Str8("s") >>
    [] g = "A4"    -> << Fix("ip", 4) >>
    [] g = "A16"   -> << Fix("ip", 16) >>
    [] g = "ADom"  -> << Str8("domain") >>
    [] g = "Path"  -> << Ids("ids") >>                                                \* EncodePath
    [] g = "Route" -> << Un("family", (1 :> "P4" @@ 2 :> "P16" @@ 3 :> "PDom" @@ 4 :> "PFwd" @@ 5 :> "PAgent"), FALSE),
                         U("metric", 2) >>
    \* ROUTE_WITHDRAW carries fixed-length prefixes only (the encoder cuts every prefix to the family's fixed size)
    [] g = "WRoute" -> << Un("family", (1 :> "P4" @@ 2 :> "P16" @@ 5 :> "PAgent"), FALSE), U("metric", 2) >>
    [] g = "P4"     -> << U("prefixLength", 1), Fix("prefix", 4) >>
    [] g = "P16"    -> << U("prefixLength", 1), Fix("prefix", 16) >>
    [] g = "PDom"   -> << U("prefixLength", 1), Str8("pattern") >>
    [] g = "PFwd"   -> << U("prefixLength", 1), Str8("key"), Str8("target") >>
    [] g = "PAgent" -> << U("prefixLength", 1), Fix("agent", 16) >>
    [] g = "Blob16" -> << Var("data", 2, {0, 1, 255, 256, 4000}, 40) >>              \* EncryptedData, sealed blob
    [] g = "NPath"  -> << Nest("path", 2, "Path") >>                                  \* EncryptedData, plaintext path
    [] g = "NInfo"  -> << Nest("info", 2, "NodeInfo") >>                              \* EncryptedData, plaintext info
    [] g = "NodeInfo" -> << Str8("displayName"), Str8("hostname"), Str8("os"), Str8("arch"), Str8("version"),
                            U("startTime", 8), Lst("ipAddresses", 1, "StrE", C8),
                            Lst("peers", 1, "Peer", {0, 1, 2, 50}), Fix("publicKey", 32), OB("udpEnabled"),
                            OLst("forwardListeners", 1, "Listener", {0, 1, 2, 20}),
                            OLst("shells", 1, "StrE", {0, 1, 2, 10}),
                            OB("fileTransferEnabled"), OB("shellEnabled"), OB("icmpEnabled") >>
    [] g = "Peer"     -> << Fix("peerID", 16), Str8("transport"), U("rttMs", 8), B("isDialer") >>
    [] g = "Listener" -> << Str8("key"), Str8("address") >>
    [] g = "NRA" -> << Nest("e", 2, "RouteAdvertise") >>
    [] g = "NRW" -> << Nest("e", 2, "RouteWithdraw") >>
    [] g = "NNI" -> << Nest("e", 2, "NodeInfoAdvertise") >> ]

(* the length guards at the top of the decoders, transcribed; 0 = none *)
AckMin == IF "DevAckMinLen44" \in Dev THEN 44 ELSE 43
MinLen(g) ==
  CASE g = "Frame" -> 14 [] g = "PeerHello" -> 28 [] g \in {"StreamOpen", "UDPOpen"} -> 45
    [] g \in {"StreamOpenAck", "UDPOpenAck"} -> AckMin
    [] g \in {"StreamOpenErr", "UDPOpenErr", "ICMPOpenErr"} -> 11
    [] g = "StreamReset" -> 2 [] g = "Keepalive" -> 8 [] g = "RouteAdvertise" -> 28 [] g = "RouteWithdraw" -> 26
    [] g = "NodeInfoAdvertise" -> 28 [] g = "NodeInfo" -> 37 [] g = "ControlRequest" -> 30
    [] g = "ControlResponse" -> 12 [] g = "UDPDatagram" -> 6 [] g \in {"UDPClose", "ICMPClose"} -> 1
    [] g = "ICMPOpen" -> 43 [] g = "ICMPOpenAck" -> 40 [] g = "ICMPEcho" -> 8
    [] g \in {"SleepCommand", "WakeCommand", "Cmd"} -> 97 [] g = "QueuedState" -> 8 [] g = "Path" -> 1
    [] OTHER -> 0

(* ------------------------------------------------------------------ *)
(* Shapes (path-free skeletons) and abstract messages (with ids)       *)
(*                                                                     *)
(* skeleton of a field:  U/Bool/Fix: 0     Sig: "z" | "x"              *)
(*   Var: length     List: [c |-> count, e |-> element skeleton]       *)
(*   Nest: skeleton of the nested grammar   Union: [tag, val]          *)
(*   Opt: << >> or << skeleton >>                                      *)
(* Boundary policy: one field at a time around a default message, plus *)
(* all-minimal and all-maximal; list elements all share one skeleton;  *)
(* the element skeleton is varied (one field at a time) at count 1.    *)
(* ------------------------------------------------------------------ *)
Max(S) == CHOOSE x \in S : \A y \in S : y <= x
Min(S) == CHOOSE x \in S : \A y \in S : x <= y
MinI(a, b) == IF a <= b THEN a ELSE b

RECURSIVE DefSk(_), DefField(_), MinSk(_), MinField(_), MaxSk(_), MaxField(_), SkAlts(_), FieldAlts(_)

FirstTag(f) == Min(DOMAIN f.alts)
DefField(f) ==
  CASE f.k \in {"U", "Bool", "Fix"} -> 0
    [] f.k = "Sig"   -> "x"
    [] f.k = "Var"   -> f.def
    [] f.k = "List"  -> [c |-> 1, e |-> DefSk(f.g)]
    [] f.k = "Nest"  -> DefSk(f.g)
    [] f.k = "Union" -> LET t == IF f.flag THEN 0 ELSE Max(DOMAIN f.alts) IN [tag |-> t, val |-> DefSk(f.alts[t])]
    [] f.k = "Opt"   -> << DefSk(f.g) >>
DefSk(g) == [i \in 1..Len(G[g]) |-> DefField(G[g][i])]

MinField(f) ==
  CASE f.k \in {"U", "Bool", "Fix"} -> 0
    [] f.k = "Sig"   -> "z"
    [] f.k = "Var"   -> Min(f.lens)
    [] f.k = "List"  -> [c |-> Min(f.counts), e |-> MinSk(f.g)]
    [] f.k = "Nest"  -> MinSk(f.g)
    [] f.k = "Union" -> [tag |-> FirstTag(f), val |-> MinSk(f.alts[FirstTag(f)])]
    [] f.k = "Opt"   -> << >>
MinSk(g) == [i \in 1..Len(G[g]) |-> MinField(G[g][i])]

\* all-maximal: every length and count at its largest boundary value, but nested elements minimal so that the
\* encoding stays near one frame
MaxField(f) ==
  CASE f.k \in {"U", "Bool", "Fix"} -> 0
    [] f.k = "Sig"   -> "x"
    [] f.k = "Var"   -> Max(f.lens)
    [] f.k = "List"  -> [c |-> Max(f.counts), e |-> MinSk(f.g)]
    [] f.k = "Nest"  -> MaxSk(f.g)
    [] f.k = "Union" -> LET t == Max(DOMAIN f.alts) IN [tag |-> t, val |-> MaxSk(f.alts[t])]
    [] f.k = "Opt"   -> << MaxSk(f.g) >>
MaxSk(g) == [i \in 1..Len(G[g]) |-> MaxField(G[g][i])]

FieldAlts(f) ==
  CASE f.k \in {"U", "Bool", "Fix"} -> {0}
    [] f.k = "Sig"   -> {"x", "z"}
    [] f.k = "Var"   -> f.lens
    \* (the largest count with minimal elements, so that the encoding stays near one frame)
    [] f.k = "List"  -> {[c |-> n, e |-> DefSk(f.g)] : n \in f.counts \ {1, Max(f.counts)}}
                        \cup {[c |-> 1, e |-> e] : e \in IF f.deep THEN SkAlts(f.g) ELSE {DefSk(f.g), MinSk(f.g), MaxSk(f.g)}}
                        \cup {[c |-> Max(f.counts), e |-> MinSk(f.g)]}
    [] f.k = "Nest"  -> SkAlts(f.g)
    [] f.k = "Union" -> UNION {{[tag |-> t, val |-> v] : v \in SkAlts(f.alts[t])} : t \in DOMAIN f.alts}
    [] f.k = "Opt"   -> {<< >>} \cup {<< v >> : v \in SkAlts(f.g)}

\* one field at a time around the default, plus all-min and all-max
SkAlts(g) ==
  LET fs == G[g] d == DefSk(g) IN
  {d, MinSk(g), MaxSk(g)} \cup
  UNION {{[d EXCEPT ![i] = a] : a \in FieldAlts(fs[i])} : i \in 1..Len(fs)}

\* pairs of fields varied together (thorough tier; top level only)
SkPairs(g) ==
  LET fs == G[g] d == DefSk(g) IN
  UNION {{[d EXCEPT ![i] = a, ![j] = b] : a \in FieldAlts(fs[i]), b \in FieldAlts(fs[j])} :
         i \in 1..Len(fs), j \in 1..Len(fs)}

(* the optional commands of the queued state interact through the reader offset: all combinations *)
CmdSk(z, n) == << 0, 0, 0, z, [c |-> n, e |-> << 0 >>] >>
CmdAlts == {<< >>} \cup {<< CmdSk(z, n) >> : z \in {"x", "z"}, n \in C8}
QueuedCross ==
  LET d == DefSk("QueuedState") IN
  {[d EXCEPT ![4] = s, ![5] = w] : s \in CmdAlts, w \in CmdAlts}
  \cup (IF Wide THEN {[MinSk("QueuedState") EXCEPT ![4] = s, ![5] = w] : s \in CmdAlts, w \in CmdAlts} ELSE {})

(* legacy encodings of the node info: the record of an older agent ends after the public key or after any of the
   fields appended since; skeleton = the NodeInfo skeleton cut to its first 15-k fields *)
NOptInfo == Cardinality({i \in 1..Len(G["NodeInfo"]) : IsOpt(G["NodeInfo"][i])})
LegacyInfo ==
  LET d == DefSk("NodeInfoAdvertise") IN
  {[d EXCEPT ![3] = [tag |-> 0, val |-> << SubSeq(info, 1, Len(info) - k) >>]] :
       info \in {DefSk("NodeInfo"), MinSk("NodeInfo")}, k \in 1..NOptInfo}

ShapesOf(ty) ==
  SkAlts(ty) \cup (IF ty = "QueuedState" THEN QueuedCross ELSE {})
             \cup (IF ty = "NodeInfoAdvertise" THEN LegacyInfo ELSE {})
             \cup (IF Wide /\ ty \notin {"QueuedState", "NodeInfoAdvertise", "RouteAdvertise"} THEN SkPairs(ty) ELSE {})

(* abstract message = skeleton + identity of every content field (its path) *)
RECURSIVE Annot(_, _, _), AnnotField(_, _, _)
AnnotField(f, sk, p) ==
  LET q == p \o "." \o f.name IN
  CASE f.k \in {"U", "Bool", "Fix"} -> [id |-> q]
    [] f.k = "Sig"   -> [id |-> q, z |-> (sk = "z")]
    [] f.k = "Var"   -> [len |-> sk, id |-> IF sk = 0 THEN "" ELSE q, gid |-> IF f.gap = 0 THEN "" ELSE q \o "~"]
    [] f.k = "List"  -> [j \in 1..sk.c |-> Annot(f.g, sk.e, q \o "[" \o ToString(j) \o "]")]
    [] f.k = "Nest"  -> Annot(f.g, sk, q)
    [] f.k = "Union" -> [tag |-> sk.tag, val |-> Annot(f.alts[sk.tag], sk.val, q)]
    [] f.k = "Opt"   -> IF sk = << >> THEN << >> ELSE << Annot(f.g, sk[1], q) >>
Annot(g, sk, p) == [i \in 1..Len(sk) |-> AnnotField(G[g][i], sk[i], p)]      \* (Len(sk) < Len(G[g]): legacy)

(* ------------------------------------------------------------------ *)
(* Layout (the encoders)                                               *)
(* ------------------------------------------------------------------ *)
Run(c, n, v, id) == [c |-> c, n |-> n, v |-> v, id |-> id]
RECURSIVE SumN(_, _)
SumN(L, i) == IF i > Len(L) THEN 0 ELSE L[i].n + SumN(L, i + 1)
Bytes(L) == SumN(L, 1)

RECURSIVE Lay(_, _), LayFields(_, _, _), LayField(_, _), LayElems(_, _, _)
LayElems(g, es, j) == IF j > Len(es) THEN << >> ELSE Lay(g, es[j]) \o LayElems(g, es, j + 1)
LayField(f, v) ==
  CASE f.k = "U"     -> << Run("u", f.n, 0, v.id) >>
    [] f.k = "Bool"  -> << Run("b", 1, 0, v.id) >>
    [] f.k = "Fix"   -> << Run("x", f.n, 0, v.id) >>
    [] f.k = "Sig"   -> << Run(IF v.z THEN "z" ELSE "x", 64, 0, v.id) >>
    [] f.k = "Var"   -> << Run("n", f.w, v.len, "") >>
                        \o (IF f.gap = 0 THEN << >> ELSE << Run("u", f.gap, 0, v.gid) >>)
                        \o (IF v.len = 0 THEN << >> ELSE << Run("x", v.len, 0, v.id) >>)
    [] f.k = "List"  -> << Run("n", f.w, Len(v), "") >> \o LayElems(f.g, v, 1)
    [] f.k = "Nest"  -> LET inner == Lay(f.g, v) IN << Run("n", f.w, Bytes(inner), "") >> \o inner
    [] f.k = "Union" -> << Run("n", 1, v.tag, "") >> \o Lay(f.alts[v.tag], v.val)
    [] f.k = "Opt"   -> IF v = << >> THEN << Run("n", 1, 0, "") >> ELSE << Run("n", 1, 1, "") >> \o Lay(f.g, v[1])
LayFields(fs, vs, i) == IF i > Len(vs) THEN << >> ELSE LayField(fs[i], vs[i]) \o LayFields(fs, vs, i + 1)
Lay(g, m) == LayFields(G[g], m, 1)

(* ------------------------------------------------------------------ *)
(* Reader over a layout (the bufferReader), total over byte offsets    *)
(* ------------------------------------------------------------------ *)
RECURSIVE StartsFrom(_, _, _)
StartsFrom(L, i, off) == IF i > Len(L) THEN << >> ELSE << off >> \o StartsFrom(L, i + 1, off + L[i].n)
Load(L) == [runs |-> L, st |-> StartsFrom(L, 1, 0), len |-> Bytes(L)]

\* index of the run starting at byte offset off, 0 if none
RunAt(LL, off) ==
  LET I == {i \in 1..Len(LL.runs) : LL.st[i] = off} IN IF I = {} THEN 0 ELSE CHOOSE i \in I : TRUE
\* index of the run containing byte offset off (off < LL.len)
RunOver(LL, off) == CHOOSE i \in 1..Len(LL.runs) : LL.st[i] <= off /\ off < LL.st[i] + LL.runs[i].n
RECURSIVE Pow256(_)
Pow256(k) == IF k = 0 THEN 1 ELSE 256 * Pow256(k - 1)
\* what is known about one byte: [kn |-> "known", v] | [kn |-> "nz"] (some non-zero value) | [kn |-> "any"]
ByteAt(LL, off) ==
  LET i == RunOver(LL, off) r == LL.runs[i] IN
  CASE r.c = "z" -> [kn |-> "known", v |-> 0]
    [] r.c = "n" -> [kn |-> "known", v |-> (r.v \div Pow256(r.n - 1 - (off - LL.st[i]))) % 256]
    [] r.c = "b" -> [kn |-> "any", v |-> 0]
    [] OTHER     -> [kn |-> "nz", v |-> 0]

\* reader state: st "ok" | "err" (the decoder returns an error) | "unk" (outcome depends on content bytes)
Cursor(off, idx, lim) == [st |-> "ok", off |-> off, idx |-> idx, lim |-> lim, vals |-> << >>]
Idx(LL, s) == IF s.idx > 0 THEN s.idx ELSE RunAt(LL, s.off)

\* read a w-byte number: [st, kn, v, idx']
ReadNum(LL, s, w) ==
  IF s.off + w > s.lim THEN [st |-> "err", kn |-> "known", v |-> 0, idx |-> 0]
  ELSE LET i == Idx(LL, s) IN
    IF i > 0 /\ i <= Len(LL.runs) /\ LL.runs[i].c = "n" /\ LL.runs[i].n = w
      THEN [st |-> "ok", kn |-> "known", v |-> LL.runs[i].v, idx |-> i + 1]
    ELSE IF w = 1 THEN LET b == ByteAt(LL, s.off) IN [st |-> "ok", kn |-> b.kn, v |-> b.v, idx |-> 0]
    ELSE [st |-> "ok", kn |-> "any", v |-> 0, idx |-> 0]

\* read n content bytes: [st, id, c, idx']   (id "?" = not exactly one field's bytes)
ReadBytes(LL, s, n) ==
  IF s.off + n > s.lim THEN [st |-> "err", id |-> "", c |-> "", idx |-> 0]
  ELSE IF n = 0 THEN [st |-> "ok", id |-> "", c |-> "", idx |-> s.idx]
  ELSE LET i == Idx(LL, s) IN
    IF i > 0 /\ i <= Len(LL.runs) /\ LL.runs[i].c # "n" /\ LL.runs[i].n = n
      THEN [st |-> "ok", id |-> LL.runs[i].id, c |-> LL.runs[i].c, idx |-> i + 1]
      ELSE [st |-> "ok", id |-> "?", c |-> "?", idx |-> 0]

Fail(s, how) == [s EXCEPT !.st = how]
Push(s, v, n, idx) == [s EXCEPT !.vals = Append(@, v), !.off = @ + n, !.idx = idx]

(* ------------------------------------------------------------------ *)
(* Parse (the decoders)                                                *)
(* ------------------------------------------------------------------ *)
\* DecodeQueuedState: "r.offset += 33 + len(sleepCmd.SeenBy)*16" -- the real size of the command is `used`
CmdAdvance(cmd, used) == IF "DevQueuedOffset33" \in Dev THEN 33 + 16 * Len(cmd[5]) ELSE used

RECURSIVE ParseFields(_, _, _, _), ParseField(_, _, _), ParseElems(_, _, _, _, _)
\* value of an optional field the input ends before
Absent(f) == IF f.k = "List" THEN << >> ELSE [id |-> "-"]
ParseFields(fs, i, LL, s) ==
  IF s.st # "ok" \/ i > Len(fs) THEN s
  ELSE IF IsOpt(fs[i]) /\ s.off >= s.lim /\ "DevNoLegacyTail" \notin Dev     \* "if r.remaining() > 0 { ... }"
         THEN ParseFields(fs, i + 1, LL, [s EXCEPT !.vals = Append(@, Absent(fs[i]))])
  ELSE ParseFields(fs, i + 1, LL, ParseField(fs[i], LL, s))

\* sub-parse of grammar g in [off, lim): fresh value list, same cursor
SubParse(g, LL, off, idx, lim) ==
  IF lim - off < MinLen(g) THEN Fail(Cursor(off, idx, lim), "err")
  ELSE ParseFields(G[g], 1, LL, Cursor(off, idx, lim))

\* count elements of grammar g; acc = values so far
ParseElems(g, LL, s, k, acc) ==
  IF s.st # "ok" THEN s
  ELSE IF k = 0 THEN [s EXCEPT !.vals = Append(@, acc)]
  ELSE LET e == ParseFields(G[g], 1, LL, Cursor(s.off, s.idx, s.lim)) IN
       IF e.st # "ok" THEN Fail(s, e.st)
       ELSE ParseElems(g, LL, [s EXCEPT !.off = e.off, !.idx = e.idx], k - 1, Append(acc, e.vals))

ParseField(f, LL, s) ==
  CASE f.k \in {"U", "Bool", "Fix"} ->
         LET r == ReadBytes(LL, s, f.n) IN
         IF r.st # "ok" THEN Fail(s, "err") ELSE Push(s, [id |-> r.id], f.n, r.idx)
    [] f.k = "Sig" ->
         LET r == ReadBytes(LL, s, 64) IN
         IF r.st # "ok" THEN Fail(s, "err") ELSE Push(s, [id |-> r.id, z |-> (r.c = "z")], 64, r.idx)
    [] f.k = "Var" ->
         LET rn == ReadNum(LL, s, f.w) IN
         IF rn.st # "ok" THEN Fail(s, "err")
         ELSE IF rn.kn # "known" THEN Fail(s, "unk")
         ELSE LET s1 == [s EXCEPT !.off = @ + f.w, !.idx = rn.idx]
                  rg == ReadBytes(LL, s1, f.gap)
                  s2 == [s1 EXCEPT !.off = @ + f.gap, !.idx = rg.idx]
                  rd == ReadBytes(LL, s2, rn.v) IN
              IF rg.st # "ok" \/ rd.st # "ok" THEN Fail(s, "err")
              ELSE Push(s2, [len |-> rn.v, id |-> rd.id, gid |-> rg.id], rn.v, rd.idx)
    [] f.k = "List" ->
         LET rn == ReadNum(LL, s, f.w) IN
         IF rn.st # "ok" THEN Fail(s, "err")
         ELSE IF rn.kn # "known" THEN Fail(s, "unk")
         ELSE ParseElems(f.g, LL, [s EXCEPT !.off = @ + f.w, !.idx = rn.idx], rn.v, << >>)
    [] f.k = "Nest" ->
         LET rn == ReadNum(LL, s, f.w) IN
         IF rn.st # "ok" THEN Fail(s, "err")
         ELSE IF rn.kn # "known" THEN Fail(s, "unk")
         ELSE LET from == s.off + f.w  to == from + rn.v IN
              IF to > s.lim THEN Fail(s, "err")
              ELSE LET e == SubParse(f.g, LL, from, rn.idx, to) IN
                   IF e.st # "ok" THEN Fail(s, e.st)
                   ELSE [s EXCEPT !.vals = Append(@, e.vals), !.off = to,
                                  !.idx = IF e.off = to THEN e.idx ELSE 0]      \* trailing bytes are ignored
    [] f.k = "Union" ->
         LET rn == ReadNum(LL, s, 1) IN
         IF rn.st # "ok" THEN Fail(s, "err")
         ELSE IF rn.kn = "any" \/ (rn.kn = "nz" /\ ~f.flag) THEN Fail(s, "unk")
         ELSE LET t == IF f.flag /\ (rn.kn = "nz" \/ rn.v # 0) THEN 1 ELSE rn.v IN
              IF t \notin DOMAIN f.alts THEN Fail(s, "err")      \* (unknown tags: only valid tags are encoded)
              ELSE LET e == ParseFields(G[f.alts[t]], 1, LL, Cursor(s.off + 1, rn.idx, s.lim)) IN
                   IF e.st # "ok" THEN Fail(s, e.st)
                   ELSE [s EXCEPT !.vals = Append(@, [tag |-> t, val |-> e.vals]), !.off = e.off, !.idx = e.idx]
    [] f.k = "Opt" ->
         \* if r.readBool() { cmd, err := Decode(rest); if err == nil { q.Cmd = cmd; r.offset += ADVANCE } }
         LET rn == ReadNum(LL, s, 1) IN
         IF rn.st # "ok" THEN Fail(s, "err")
         ELSE IF rn.kn = "any" THEN Fail(s, "unk")
         ELSE IF rn.kn = "known" /\ rn.v = 0 THEN Push(s, << >>, 1, rn.idx)
         ELSE LET e == SubParse(f.g, LL, s.off + 1, rn.idx, s.lim) IN
              IF e.st = "unk" THEN Fail(s, "unk")
              ELSE IF e.st = "err" THEN Push(s, << >>, 1, rn.idx)               \* command dropped, offset not advanced
              ELSE LET used == e.off - (s.off + 1)  adv == CmdAdvance(e.vals, used) IN
                   [s EXCEPT !.vals = Append(@, << e.vals >>), !.off = s.off + 1 + adv,
                             !.idx = IF adv = used THEN e.idx ELSE 0]

Parse(ty, L) ==
  LET LL == Load(L) e == SubParse(ty, LL, 0, 1, LL.len) IN
  IF e.st = "ok" THEN [st |-> "ok", val |-> e.vals] ELSE [st |-> e.st, val |-> << >>]

(* ------------------------------------------------------------------ *)
(* Allocation before validation (DecodeQueuedState)                    *)
(* ------------------------------------------------------------------ *)
\* Go sizes of RouteAdvertise / RouteWithdraw / NodeInfoAdvertise values (checked against unsafe.Sizeof by the harness)
ElemSize == << 120, 72, 288 >>
\* smallest number of input bytes one decodable entry occupies: 2-byte length + min-length guard of the entry decoder
MinEntry == << 2 + 28, 2 + 26, 2 + 28 >>
AllocBound(nbytes) == 1048576 + 64 * nbytes
\* a hostile queued-state input of nbytes bytes whose list number `list` claims `claimed` entries; lists before it
\* are empty, `before` = bytes consumed before the count field
Hostile == [list : 1..3, claimed : {0, 1, 300, 65535}, nbytes : {8, 64, MaxPayload}]
PreAlloc(h) ==
  LET remaining == h.nbytes - 2 * h.list IN
  IF "DevPreallocFromCount" \in Dev THEN h.claimed * ElemSize[h.list]
  ELSE MinI(h.claimed, remaining \div MinEntry[h.list]) * ElemSize[h.list]
\* every 8-bit count pre-allocates at most 255 elements: constant, far below the bound
ASSUME 255 * 400 < 1048576

(* ------------------------------------------------------------------ *)
(* Streaming frame path (FrameReader.Read / Decode / DecodeHeader /    *)
(* Frame.Encode / FrameWriter.Write, WriteFrame)                       *)
(* ------------------------------------------------------------------ *)
HeaderSize == 14
\* classes of the 32-bit length field; b = the value when a stream can deliver that many bytes, -1 beyond;
\* kib = the value in KiB rounded down (TLC integers are 32 bit)
Claims == { [c |-> "0", b |-> 0, kib |-> 0], [c |-> "1", b |-> 1, kib |-> 0],
            [c |-> "Max-1", b |-> MaxPayload - 1, kib |-> 15], [c |-> "Max", b |-> MaxPayload, kib |-> 16],
            [c |-> "Max+1", b |-> MaxPayload + 1, kib |-> 16],
            [c |-> "2^31", b |-> -1, kib |-> 2097152], [c |-> "2^32-1", b |-> -1, kib |-> 4194303] }
TooLarge(cl) == cl.b < 0 \/ cl.b > MaxPayload
\* a byte stream offered to a frame decoder: `hdr` header bytes arrive (14 = complete header), its length field
\* claims cl, then `avail` payload bytes arrive before EOF
Streams == [claim : Claims, hdr : {0, 13, HeaderSize}, avail : {"none", "one", "short", "exact", "extra"}]
Deliverable(cl) == IF cl.b < 0 THEN MaxPayload + 2 ELSE cl.b
AvailBytes(h) ==
  IF h.hdr < HeaderSize THEN 0
  ELSE CASE h.avail = "none"  -> 0
         [] h.avail = "one"   -> 1
         [] h.avail = "short" -> IF Deliverable(h.claim) = 0 THEN 0 ELSE Deliverable(h.claim) - 1
         [] h.avail = "exact" -> Deliverable(h.claim)
         [] h.avail = "extra" -> Deliverable(h.claim) + 3
Enough(h) == h.claim.b >= 0 /\ AvailBytes(h) >= h.claim.b
\* Decode(buf): header complete, length within the maximum, buffer holds the payload (trailing bytes ignored)
SliceDecode(h) == IF h.hdr = HeaderSize /\ ~TooLarge(h.claim) /\ Enough(h) THEN "ok" ELSE "err"
\* FrameReader.Read: io.ReadFull(header); DecodeHeader (length check); make([]byte, length); io.ReadFull(payload)
StreamRead(h) ==
  IF h.hdr < HeaderSize THEN [res |-> "err", kib |-> 0]
  ELSE IF TooLarge(h.claim) /\ "DevStreamNoMaxCheck" \notin Dev THEN [res |-> "err", kib |-> 0]
  ELSE [res |-> IF Enough(h) THEN "ok" ELSE "err", kib |-> h.claim.kib]
\* 1 MiB + 64 * bytes delivered, in KiB (rounded up)
StreamBoundKiB(h) == 1024 + (64 * (h.hdr + AvailBytes(h))) \div 1024 + 1
\* Frame.Encode / FrameWriter.Write / WriteFrame accept a payload iff it is within the maximum
EncodeOK(cl) == ~TooLarge(cl)

(* ------------------------------------------------------------------ *)
(* The enumeration as a one-step state machine                         *)
(* ------------------------------------------------------------------ *)
VARIABLE vec
vars == << vec >>

Init == \/ \E h \in Streams : "Frame" \in Types /\ vec = [t |-> "stream", ty |-> "Frame", sk |-> h]
        \/ \E h \in Hostile : "QueuedState" \in Types /\ vec = [t |-> "hostile", ty |-> "QueuedState", sk |-> h]
        \/ \E ty \in Types : \E sk \in ShapesOf(ty) : vec = [t |-> "shape", ty |-> ty, sk |-> sk]
Next == UNCHANGED vec
Spec == Init /\ [][Next]_vars

Msg == Annot(vec.ty, vec.sk, vec.ty)
\* the message a decoder must produce: fields a legacy encoding does not carry are absent (zero value)
RECURSIVE Complete(_, _), CompleteField(_, _)
CompleteField(f, v) ==
  CASE f.k = "List"  -> [j \in 1..Len(v) |-> Complete(f.g, v[j])]
    [] f.k = "Nest"  -> Complete(f.g, v)
    [] f.k = "Union" -> [tag |-> v.tag, val |-> Complete(f.alts[v.tag], v.val)]
    [] f.k = "Opt"   -> IF v = << >> THEN << >> ELSE << Complete(f.g, v[1]) >>
    [] OTHER         -> v
Complete(g, m) == [i \in 1..Len(G[g]) |-> IF i <= Len(m) THEN CompleteField(G[g][i], m[i]) ELSE Absent(G[g][i])]
Same(p, m) == p = [st |-> "ok", val |-> Complete(vec.ty, m)]

(* what the transcribed decoder makes of the optional wake command (classification of replay mismatches) *)
Outcome(ty, p, m) ==
  IF Same(p, m) THEN "same"
  ELSE IF p.st = "err" THEN "error"
  ELSE IF ty # "QueuedState" THEN p.st
  ELSE IF p.st = "unk" THEN "wake-lost-or-garbled"
  ELSE IF p.val[5] = << >> THEN "wake-lost" ELSE "wake-garbled"

VecRecord(L, p, m) ==
  PrintT("VEC " \o ToJson([ty |-> vec.ty, sk |-> vec.sk, len |-> Bytes(L), runs |-> L,
                           legacy |-> (Complete(vec.ty, m) # m), parse |-> Outcome(vec.ty, p, m)]))
HostileRecord ==
  PrintT("HOSTILE " \o ToJson([h |-> vec.sk, prealloc |-> PreAlloc(vec.sk), bound |-> AllocBound(vec.sk.nbytes)]))

\* C05, first sentence, on the model
RoundTrip == vec.t = "shape" => Same(Parse(vec.ty, Lay(vec.ty, Msg)), Msg)
\* C05, last sentence, on the model
AllocProportional == vec.t = "hostile" => PreAlloc(vec.sk) <= AllocBound(vec.sk.nbytes)

\* C05 on the model, both frame decode paths
StreamAgrees == vec.t = "stream" => StreamRead(vec.sk).res = SliceDecode(vec.sk)
StreamAllocBounded == vec.t = "stream" => StreamRead(vec.sk).kib <= StreamBoundKiB(vec.sk)
StreamRecord ==
  PrintT("STREAM " \o ToJson([h |-> vec.sk, availbytes |-> AvailBytes(vec.sk), slice |-> SliceDecode(vec.sk),
                               stream |-> StreamRead(vec.sk).res, allockib |-> StreamRead(vec.sk).kib,
                               boundkib |-> StreamBoundKiB(vec.sk), encodeok |-> EncodeOK(vec.sk.claim)]))

\* emission only (always TRUE): used with Dev = {d} to obtain the deviating decoder's outcome for every shape
EmitVec ==
  IF vec.t = "shape" THEN LET m == Msg  L == Lay(vec.ty, m) IN VecRecord(L, Parse(vec.ty, L), m)
  ELSE IF vec.t = "stream" THEN StreamRecord ELSE HostileRecord
\* check and emission with one evaluation of layout and parse
RoundTripEmit ==
  vec.t = "shape" => LET m == Msg  L == Lay(vec.ty, m)  p == Parse(vec.ty, L) IN
                     (Emit => VecRecord(L, p, m)) /\ Same(p, m)
AllocEmit == vec.t = "hostile" => (Emit => HostileRecord) /\ PreAlloc(vec.sk) <= AllocBound(vec.sk.nbytes)
StreamEmit == vec.t = "stream" => (Emit => StreamRecord) /\ StreamRead(vec.sk).res = SliceDecode(vec.sk)
                                  /\ StreamRead(vec.sk).kib <= StreamBoundKiB(vec.sk)
=============================================================================
