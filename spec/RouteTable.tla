----------------------------- MODULE RouteTable -----------------------------
(***************************************************************************)
(* The four route tables of one agent (internal/routing: Table,            *)
(* DomainTable, ForwardTable, AgentTable) and the part of routing.Manager  *)
(* that maintains them (local routes, advertisements, withdrawals, peer    *)
(* disconnects, stale-route cleanup).            Properties C08, C09, C10. *)
(*                                                                         *)
(* A table is a SET of entries                                             *)
(*    [key, origin, nh, metric, seq, path, old]   (+ cv in the domain table)*)
(* The code keeps, per key, a slice sorted by metric; "the first element   *)
(* of the slice" is therefore "some entry of that key with minimal metric" *)
(* (sort.Slice is not stable, ties are resolved arbitrarily), which is how *)
(* the implementation transcriptions (..Impl) below read it.               *)
(*                                                                         *)
(* Identity ("slot") of an entry, as implemented:                          *)
(*    cidr : (network string, origin)                                      *)
(*    dom  : (exact|wildcard, lower-cased name, origin)                    *)
(*    fwd  : (key string, origin)            -- case-sensitive             *)
(*    agt  : (agent, origin, next hop)       -- one entry per next hop     *)
(*                                                                         *)
(* Keys.  cidr: [fam, bits]  fam in {"4","6"}, bits a sequence over {0,1}  *)
(* (an abstract prefix; the harness expands every abstract bit to a block  *)
(* of real address bits, <<>> is the default route of the family).         *)
(* Addresses: [form, bits] with form "4", "6" or "m" (an IPv4 address      *)
(* written as IPv4-mapped IPv6, ::ffff:a.b.c.d, which IS that IPv4         *)
(* address); address symbols range over {0,1,2}, 2 = "a block that equals  *)
(* neither expansion".  dom: [wild, name], name a sequence of lower-case   *)
(* labels, leftmost label first; the text of a pattern / queried name is   *)
(* (name, cv) where cv is a letter-case variant: matching never looks at   *)
(* cv = case-insensitive.                                                  *)
(*                                                                         *)
(* `old` abstracts LastUpdate: AgeAll = "more than maxAge passes".         *)
(*                                                                         *)
(* One action = one critical section of the code.  The oracles (..Oracle)  *)
(* are written from the property statements and return the SET of          *)
(* acceptable answers; the ..Impl operators transcribe the code; the       *)
(* invariants say Impl \subseteq Oracle.  Deviations (constant Dev) are    *)
(* named wrong variants used for the sensitivity check.                    *)
(***************************************************************************)
EXTENDS Integers, Sequences, FiniteSets, TLC, Json

CONSTANTS
  Tables,       \* tables driven in this run, subset of {"cidr","dom","fwd","agt"}
  CidrKeys, DomKeys, FwdKeys, AgtKeys,      \* key universes of the bounded model
  CidrQ, DomQ,  \* lookup queries: addresses / names (fwd and agt are queried with their key universe)
  Orig,         \* origins of advertisements (may contain peers and "L")
  Peer,         \* neighbours = next hops
  Metrics, Seqs,\* advertised metrics / sequences
  PathKinds,    \* subset of {"clean","none","loop"}
  CaseVars,     \* letter-case variants of a domain text, 0 = lower case
  LocalMetrics, \* metrics of local routes
  MaxLSeq,      \* bound of the manager's sequence counter (0: no local operations)
  MaxEntries,   \* bound on the number of entries of a table
  Aging,        \* TRUE: time passes (AgeAll) and stale cleanup runs
  Dev,          \* enabled deviations
  Emit          \* TRUE: print every transition / every state's lookup answers as JSON

Local == "L"
TableNames == {"cidr", "dom", "fwd", "agt"}
DevNames == {"DevReplaceEqual", "DevReplaceOlder", "DevStoreLoop", "DevDisconnectByOrigin",
             "DevDisconnectWholeKey", "DevCleanupLocal", "DevAgentSlotNoNextHop",
             "DevLookupAnyPrefix", "DevLookupIgnoreMetric", "DevWildcardDeep", "DevWildcardFirst",
             "DevCaseSensitive", "DevKeyIgnoreMetric"}
ASSUME Tables \subseteq TableNames /\ Dev \subseteq DevNames

VARIABLES cidr, dom, fwd, agt,  \* the four tables
          lseq,                 \* Manager.sequence
          lcidr, ldyn,          \* Manager.localRoutes / dynamicRoutes : sets of [key, metric]
          ldom,                 \* Manager.localDomains : set of [key, cv, metric] (keyed by the pattern TEXT)
          lfwd,                 \* Manager.localForwards : set of [key, metric]
          last                  \* observation of the last step (hidden by VIEW)

tables == <<cidr, dom, fwd, agt>>
locals == <<lseq, lcidr, ldyn, ldom, lfwd>>
vars == <<cidr, dom, fwd, agt, lseq, lcidr, ldyn, ldom, lfwd, last>>
view == <<cidr, dom, fwd, agt, lseq, lcidr, ldyn, ldom, lfwd>>

T(tb) == CASE tb = "cidr" -> cidr [] tb = "dom" -> dom [] tb = "fwd" -> fwd [] tb = "agt" -> agt
SetT(tb, v) == /\ cidr' = IF tb = "cidr" THEN v ELSE cidr
               /\ dom'  = IF tb = "dom"  THEN v ELSE dom
               /\ fwd'  = IF tb = "fwd"  THEN v ELSE fwd
               /\ agt'  = IF tb = "agt"  THEN v ELSE agt
TN(tb) == CASE tb = "cidr" -> cidr' [] tb = "dom" -> dom' [] tb = "fwd" -> fwd' [] tb = "agt" -> agt'   \* next-state value
KeysOf(tb) == CASE tb = "cidr" -> CidrKeys [] tb = "dom" -> DomKeys [] tb = "fwd" -> FwdKeys [] tb = "agt" -> AgtKeys

Min(S) == CHOOSE x \in S : \A y \in S : x <= y
Max(S) == CHOOSE x \in S : \A y \in S : x >= y
MinMetric(S) == {e \in S : \A f \in S : e.metric <= f.metric}
HasKey(S, k) == \E x \in S : x.key = k
SeqToSet(s) == {s[i] : i \in 1..Len(s)}

Init ==
  /\ cidr = {} /\ dom = {} /\ fwd = {} /\ agt = {}
  /\ lseq = 0 /\ lcidr = {} /\ ldyn = {} /\ ldom = {} /\ lfwd = {}
  /\ last = [act |-> "Init"]

(* ======================= maintenance (C10) ============================= *)
Loops(r) == Local \in SeqToSet(r.path)

\* the slot an added route r competes for
Slot(tb, S, r) ==
  {e \in S : /\ e.key = r.key /\ e.origin = r.origin
             /\ (tb = "agt" /\ "DevAgentSlotNoNextHop" \notin Dev) => e.nh = r.nh}

\* the update rule: newer sequence, or same sequence and strictly lower metric
Better(r, e) ==
  \/ r.seq > e.seq
  \/ r.seq = e.seq /\ r.metric < e.metric
  \/ "DevReplaceEqual" \in Dev /\ r.seq = e.seq /\ r.metric = e.metric /\ r # e
  \/ "DevReplaceOlder" \in Dev /\ r.seq < e.seq

(* <Table>.AddRoute(r): loop check (outside the lock, no state read), then one critical section *)
AddResult(tb, S, r) ==
  IF Loops(r) /\ "DevStoreLoop" \notin Dev THEN [ok |-> FALSE, S |-> S]
  ELSE LET sl == Slot(tb, S, r) IN
       IF sl = {} THEN [ok |-> TRUE, S |-> S \cup {r}]
       ELSE LET e == CHOOSE x \in sl : TRUE IN
            IF Better(r, e) THEN [ok |-> TRUE, S |-> (S \ {e}) \cup {r}]
            ELSE [ok |-> FALSE, S |-> S]

\* room in the bounded model (only a bound of the model, not of the code)
Room(tb, S, r) == Slot(tb, S, r) # {} \/ Cardinality(S) < MaxEntries

\* <Table>.RemoveRoute(key, origin): removes the first element of the key's slice with that origin.
\* cidr/dom/fwd hold at most one such entry; the agent table may hold one per next hop, the first of
\* the metric-sorted slice is one with minimal metric (any of them on ties).
RemoveCands(S, k, o) == MinMetric({e \in S : e.key = k /\ e.origin = o})

\* <Table>.RemoveRoutesFromPeer(p)
AfterDisconnect(S, p) ==
  IF "DevDisconnectByOrigin" \in Dev THEN {e \in S : e.origin # p}
  ELSE IF "DevDisconnectWholeKey" \in Dev THEN {e \in S : ~\E f \in S : f.key = e.key /\ f.nh = p}
  ELSE {e \in S : e.nh # p}

\* <Table>.CleanupStaleRoutes(maxAge)
AfterCleanup(S) ==
  IF "DevCleanupLocal" \in Dev THEN {e \in S : ~e.old}
  ELSE {e \in S : e.origin = Local \/ ~e.old}

Inc(tb) == IF tb = "agt" THEN 0 ELSE 1   \* Manager.Process*Advertise stores metric+1 (the flooder does it for agents)

MkEntry(tb, k, o, p, m, s, path, cv) ==
  IF tb = "dom"
    THEN [key |-> k, origin |-> o, nh |-> p, metric |-> m, seq |-> s, path |-> path, old |-> FALSE, cv |-> cv]
    ELSE [key |-> k, origin |-> o, nh |-> p, metric |-> m, seq |-> s, path |-> path, old |-> FALSE]

(* Manager.Process{Route,DomainRoute,ForwardRoute,AgentRoute}Advertise for ONE entry, received from   *)
(* neighbour p, originated by o with sequence s and advertised metric m, path as decoded by the flooder. *)
Advert(tb, k, o, p, m, s, path, cv) ==
  LET r == MkEntry(tb, k, o, p, m + Inc(tb), s, path, cv)
      res == AddResult(tb, T(tb), r) IN
  /\ Room(tb, T(tb), r)
  /\ SetT(tb, res.S)
  /\ UNCHANGED locals
  /\ last' = [act |-> "Advert", tbl |-> tb, key |-> k, origin |-> o, nh |-> p, m |-> m, seq |-> s,
              path |-> path, cv |-> cv, res |-> res.ok]

(* Manager.ProcessRouteWithdraw (cidr) / <Table>.RemoveRoute for ONE (key, origin) *)
Withdraw(tb, k, o) ==
  LET c == RemoveCands(T(tb), k, o) IN
  /\ IF c = {} THEN SetT(tb, T(tb)) ELSE \E e \in c : SetT(tb, T(tb) \ {e})
  /\ UNCHANGED locals
  /\ last' = [act |-> "Withdraw", tbl |-> tb, key |-> k, origin |-> o, res |-> (c # {})]

(* Manager.HandlePeerDisconnect{,Domain,Forward,Agent}(p) *)
Disconnect(tb, p) ==
  LET S == AfterDisconnect(T(tb), p) IN
  /\ SetT(tb, S)
  /\ UNCHANGED locals
  /\ last' = [act |-> "Disconnect", tbl |-> tb, p |-> p, res |-> Cardinality(T(tb)) - Cardinality(S)]

(* more than maxAge passes without any refresh *)
Age(S) == {[e EXCEPT !.old = TRUE] : e \in S}
AgeAll ==
  /\ Aging
  /\ \E tb \in Tables : \E e \in T(tb) : ~e.old
  /\ cidr' = Age(cidr) /\ dom' = Age(dom) /\ fwd' = Age(fwd) /\ agt' = Age(agt)
  /\ UNCHANGED locals
  /\ last' = [act |-> "AgeAll", res |-> TRUE]

(* Manager.CleanupStale{,Domain,Forward,Agent}Routes(maxAge) *)
Cleanup(tb) ==
  LET S == AfterCleanup(T(tb)) IN
  /\ Aging
  /\ SetT(tb, S)
  /\ UNCHANGED locals
  /\ last' = [act |-> "Cleanup", tbl |-> tb, res |-> Cardinality(T(tb)) - Cardinality(S)]

(* ---- local routes (Manager) ------------------------------------------- *)
Put(S, k, m) == {x \in S : x.key # k} \cup {[key |-> k, metric |-> m]}
Del(S, k) == {x \in S : x.key # k}
LocalEntry(tb, k, m, s, cv) == MkEntry(tb, k, Local, Local, m, s, <<>>, cv)
RemoveLocalEntry(S, k) == LET c == RemoveCands(S, k, Local) IN IF c = {} THEN S ELSE S \ {CHOOSE e \in c : TRUE}

\* Manager.AddLocalRoute: bump the sequence, remember the route, AddRoute with origin = next hop = self, no path
AddLocalCidr(k, m) ==
  LET r == LocalEntry("cidr", k, m, lseq + 1, 0)
      res == AddResult("cidr", cidr, r) IN
  /\ lseq < MaxLSeq /\ Room("cidr", cidr, r)
  /\ lseq' = lseq + 1 /\ lcidr' = Put(lcidr, k, m) /\ cidr' = res.S
  /\ UNCHANGED <<dom, fwd, agt, ldyn, ldom, lfwd>>
  /\ last' = [act |-> "AddLocalCidr", key |-> k, m |-> m, res |-> res.ok]

\* Manager.RemoveLocalRoute (does not touch dynamicRoutes)
RemoveLocalCidr(k) ==
  /\ IF HasKey(lcidr, k)
       THEN /\ lcidr' = Del(lcidr, k) /\ cidr' = RemoveLocalEntry(cidr, k)
            /\ last' = [act |-> "RemoveLocalCidr", key |-> k, res |-> (RemoveCands(cidr, k, Local) # {})]
       ELSE /\ UNCHANGED <<lcidr, cidr>>
            /\ last' = [act |-> "RemoveLocalCidr", key |-> k, res |-> FALSE]
  /\ UNCHANGED <<dom, fwd, agt, lseq, ldyn, ldom, lfwd>>

\* Manager.AddDynamicRoute: refused when the key is a config (non-dynamic) local route
AddDynamic(k, m) ==
  IF HasKey(lcidr, k) /\ ~HasKey(ldyn, k)
    THEN /\ UNCHANGED <<tables, locals>>
         /\ last' = [act |-> "AddDynamic", key |-> k, m |-> m, res |-> "config"]
    ELSE LET r == LocalEntry("cidr", k, m, lseq + 1, 0)
             res == AddResult("cidr", cidr, r) IN
         /\ lseq < MaxLSeq /\ Room("cidr", cidr, r)
         /\ lseq' = lseq + 1 /\ lcidr' = Put(lcidr, k, m) /\ ldyn' = Put(ldyn, k, m) /\ cidr' = res.S
         /\ UNCHANGED <<dom, fwd, agt, ldom, lfwd>>
         /\ last' = [act |-> "AddDynamic", key |-> k, m |-> m, res |-> "ok"]

\* Manager.RemoveDynamicRoute
RemoveDynamic(k) ==
  IF ~HasKey(ldyn, k)
    THEN /\ UNCHANGED <<tables, locals>>
         /\ last' = [act |-> "RemoveDynamic", key |-> k, res |-> IF HasKey(lcidr, k) THEN "config" ELSE "notfound"]
    ELSE /\ ldyn' = Del(ldyn, k) /\ lcidr' = Del(lcidr, k) /\ cidr' = RemoveLocalEntry(cidr, k)
         /\ UNCHANGED <<dom, fwd, agt, lseq, ldom, lfwd>>
         /\ last' = [act |-> "RemoveDynamic", key |-> k, res |-> "ok"]

\* Manager.AddLocalDomainRoute: validated (needs a dot), localDomains keyed by the pattern text
AddLocalDom(k, cv, m) ==
  IF Len(k.name) < 2
    THEN /\ UNCHANGED <<tables, locals>>
         /\ last' = [act |-> "AddLocalDom", key |-> k, cv |-> cv, m |-> m, res |-> FALSE]
    ELSE LET r == LocalEntry("dom", k, m, lseq + 1, cv)
             res == AddResult("dom", dom, r) IN
         /\ lseq < MaxLSeq /\ Room("dom", dom, r)
         /\ lseq' = lseq + 1
         /\ ldom' = {x \in ldom : ~(x.key = k /\ x.cv = cv)} \cup {[key |-> k, cv |-> cv, metric |-> m]}
         /\ dom' = res.S
         /\ UNCHANGED <<cidr, fwd, agt, lcidr, ldyn, lfwd>>
         /\ last' = [act |-> "AddLocalDom", key |-> k, cv |-> cv, m |-> m, res |-> res.ok]

\* Manager.RemoveLocalDomainRoute: the text must be known; the table entry is found case-insensitively
RemoveLocalDom(k, cv) ==
  /\ IF \E x \in ldom : x.key = k /\ x.cv = cv
       THEN /\ ldom' = {x \in ldom : ~(x.key = k /\ x.cv = cv)} /\ dom' = RemoveLocalEntry(dom, k)
            /\ last' = [act |-> "RemoveLocalDom", key |-> k, cv |-> cv, res |-> (RemoveCands(dom, k, Local) # {})]
       ELSE /\ UNCHANGED <<ldom, dom>>
            /\ last' = [act |-> "RemoveLocalDom", key |-> k, cv |-> cv, res |-> FALSE]
  /\ UNCHANGED <<cidr, fwd, agt, lseq, lcidr, ldyn, lfwd>>

\* Manager.AddLocalForwardRoute / RemoveLocalForwardRoute
AddLocalFwd(k, m) ==
  LET r == LocalEntry("fwd", k, m, lseq + 1, 0)
      res == AddResult("fwd", fwd, r) IN
  /\ lseq < MaxLSeq /\ Room("fwd", fwd, r)
  /\ lseq' = lseq + 1 /\ lfwd' = Put(lfwd, k, m) /\ fwd' = res.S
  /\ UNCHANGED <<cidr, dom, agt, lcidr, ldyn, ldom>>
  /\ last' = [act |-> "AddLocalFwd", key |-> k, m |-> m, res |-> res.ok]

RemoveLocalFwd(k) ==
  /\ IF HasKey(lfwd, k)
       THEN /\ lfwd' = Del(lfwd, k) /\ fwd' = RemoveLocalEntry(fwd, k)
            /\ last' = [act |-> "RemoveLocalFwd", key |-> k, res |-> (RemoveCands(fwd, k, Local) # {})]
       ELSE /\ UNCHANGED <<lfwd, fwd>>
            /\ last' = [act |-> "RemoveLocalFwd", key |-> k, res |-> FALSE]
  /\ UNCHANGED <<cidr, dom, agt, lseq, lcidr, ldyn, ldom>>

(* ============================ lookups ================================== *)
AFam(a) == IF a.form = "m" THEN "4" ELSE a.form
IsPrefix(b, c) == Len(b) <= Len(c) /\ \A i \in 1..Len(b) : b[i] = c[i]
Contains(k, a) == k.fam = AFam(a) /\ IsPrefix(k.bits, a.bits)

(* C08, from the statement: a route whose network contains the address, with the longest prefix among *)
(* all stored routes containing it, and among those the lowest metric; nothing iff none contains it.   *)
CidrOracle(S, a) ==
  LET cont == {e \in S : Contains(e.key, a)}
      longest == {e \in cont : \A f \in cont : Len(f.key.bits) <= Len(e.key.bits)} IN
  MinMetric(longest)

\* transcription of Table.lookupUnlocked: scan the keys, look at the first element of each slice, keep `ones > best`
FirstOf(S, k) == IF "DevLookupIgnoreMetric" \in Dev THEN {e \in S : e.key = k} ELSE MinMetric({e \in S : e.key = k})
CidrImpl(S, a) ==
  LET match == {k \in {e.key : e \in S} : Contains(k, a)} IN
  IF match = {} THEN {}
  ELSE IF "DevLookupAnyPrefix" \in Dev THEN UNION {FirstOf(S, k) : k \in match}
  ELSE FirstOf(S, CHOOSE k \in match : \A j \in match : Len(j.bits) <= Len(k.bits))

(* C09, from the statement.  A pattern matches a name when it is exact and equal, or a wildcard whose   *)
(* base is the name without its first label (exactly one label deep); letter case (cv) is ignored.     *)
Matches(k, n) == IF k.wild THEN Len(n) = Len(k.name) + 1 /\ Tail(n) = k.name ELSE k.name = n
DomOracle(S, n) ==
  LET cand == {e \in S : Matches(e.key, n)}
      exact == {e \in cand : ~e.key.wild} IN
  IF exact # {} THEN MinMetric(exact) ELSE MinMetric(cand)

\* transcription of DomainTable.lookupUnlocked: exactRoutes[lower(name)] first, then wildcardBase[after first dot]
IsSuffix(b, n) == Len(b) < Len(n) /\ \A i \in 1..Len(b) : b[i] = n[Len(n) - Len(b) + i]
DomImpl(S, n, cv) ==
  LET cs(X) == IF "DevCaseSensitive" \in Dev THEN {e \in X : e.cv = cv} ELSE X
      exact == cs({e \in S : ~e.key.wild /\ e.key.name = n})
      wild == cs({e \in S : e.key.wild /\ IF "DevWildcardDeep" \in Dev THEN IsSuffix(e.key.name, n)
                                           ELSE Len(n) >= 2 /\ e.key.name = Tail(n)}) IN
  IF "DevWildcardFirst" \in Dev THEN (IF wild # {} THEN MinMetric(wild) ELSE MinMetric(exact))
  ELSE IF exact # {} THEN MinMetric(exact) ELSE MinMetric(wild)

\* forward-key and agent-presence lookups: the lowest metric stored for the key, nothing when none
KeyOracle(S, k) == MinMetric({e \in S : e.key = k})
KeyImpl(S, k) == IF "DevKeyIgnoreMetric" \in Dev THEN {e \in S : e.key = k} ELSE MinMetric({e \in S : e.key = k})

Oracle(tb, q) == CASE tb = "cidr" -> CidrOracle(cidr, q) [] tb = "dom" -> DomOracle(dom, q)
                   [] tb = "fwd" -> KeyOracle(fwd, q) [] tb = "agt" -> KeyOracle(agt, q)

\* a lookup as an action (used by trace validation; it changes nothing)
Lookup(tb, q, cv, hit, r) ==
  /\ UNCHANGED <<tables, locals>>
  /\ IF hit THEN \E e \in Oracle(tb, q) : /\ e.key = r.key /\ e.origin = r.origin /\ e.nh = r.nh
                                          /\ e.metric = r.metric /\ e.seq = r.seq
            ELSE Oracle(tb, q) = {}
  /\ last' = [act |-> "Lookup", tbl |-> tb, q |-> q, cv |-> cv, res |-> hit]

(* ============================== Next =================================== *)
PathOf(pk, o, p) == CASE pk = "clean" -> (IF o = p THEN <<p>> ELSE <<p, o>>)
                      [] pk = "none" -> <<>>
                      [] pk = "loop" -> <<p, Local, o>>
CV(tb) == IF tb = "dom" THEN CaseVars ELSE {0}

Next ==
  \/ \E tb \in Tables, o \in Orig, p \in Peer, m \in Metrics, s \in Seqs, pk \in PathKinds :
       \E k \in KeysOf(tb), cv \in CV(tb) :
          \* unusual paths only with the most competitive metric/sequence (bounds the fan-out of the model)
          /\ pk # "clean" => m = Min(Metrics) /\ s = Max(Seqs) /\ cv = 0
          /\ Advert(tb, k, o, p, m, s, PathOf(pk, o, p), cv)
  \/ \E tb \in Tables, o \in Orig \cup {Local} : \E k \in KeysOf(tb) : Withdraw(tb, k, o)
  \/ \E tb \in Tables, p \in Peer : Disconnect(tb, p)
  \/ AgeAll
  \/ \E tb \in Tables : Cleanup(tb)
  \/ /\ MaxLSeq > 0
     /\ \/ /\ "cidr" \in Tables
           /\ \E k \in CidrKeys : \/ \E m \in LocalMetrics : AddLocalCidr(k, m) \/ AddDynamic(k, m)
                                  \/ RemoveLocalCidr(k) \/ RemoveDynamic(k)
        \/ /\ "dom" \in Tables
           /\ \E k \in DomKeys, cv \in CaseVars : \/ \E m \in LocalMetrics : AddLocalDom(k, cv, m)
                                                  \/ RemoveLocalDom(k, cv)
        \/ /\ "fwd" \in Tables
           /\ \E k \in FwdKeys : \/ \E m \in LocalMetrics : AddLocalFwd(k, m)
                                 \/ RemoveLocalFwd(k)

Spec == Init /\ [][Next]_vars

(* =========================== properties ================================ *)
Core(e) == [e EXCEPT !.old = FALSE]

TypeOK ==
  /\ \A tb \in TableNames : \A e \in T(tb) : e.metric \in Nat /\ e.seq \in Nat /\ e.old \in BOOLEAN
  /\ lseq \in Nat
  /\ \A tb \in TableNames \ {"dom"} : \A e \in T(tb) : DOMAIN e = {"key", "origin", "nh", "metric", "seq", "path", "old"}
  /\ \A e \in dom : DOMAIN e = {"key", "origin", "nh", "metric", "seq", "path", "old", "cv"}

\* at most one entry per slot
SlotUnique == \A tb \in TableNames : \A e, f \in T(tb) :
                 (e.key = f.key /\ e.origin = f.origin /\ (tb = "agt" => e.nh = f.nh)) => e = f

\* C10: a route whose path contains the local agent is never stored
NoLoopStored == \A tb \in TableNames : \A e \in T(tb) : ~Loops(e)

\* C10: a stored route from an origin is replaced only by a newer sequence, or the same sequence and a
\* strictly lower metric (replacement = the slot is occupied before and after, with different content)
StrictlyBetter(f, e) == f.seq > e.seq \/ (f.seq = e.seq /\ f.metric < e.metric)
ReplaceRule ==
  [][\A tb \in TableNames : \A e \in T(tb) : \A f \in TN(tb) :
        (e.key = f.key /\ e.origin = f.origin /\ (tb = "agt" => e.nh = f.nh) /\ Core(e) # Core(f))
           => StrictlyBetter(f, e)]_vars

\* C10: a peer disconnect removes exactly the routes learned through that peer
DisconnectExact ==
  [][last'.act = "Disconnect" =>
        /\ TN(last'.tbl) = {e \in T(last'.tbl) : e.nh # last'.p}
        /\ \A tb \in TableNames \ {last'.tbl} : TN(tb) = T(tb)]_vars

\* C10: stale cleanup never removes locally originated routes (and removes exactly the stale foreign ones)
CleanupKeepsLocal ==
  [][last'.act = "Cleanup" => \A e \in T(last'.tbl) : e.origin = Local => e \in TN(last'.tbl)]_vars
CleanupExact ==
  [][last'.act = "Cleanup" => TN(last'.tbl) = {e \in T(last'.tbl) : e.origin = Local \/ ~e.old}]_vars

\* a rejected advertisement changes nothing (in particular it does not refresh the entry)
RejectedChangesNothing ==
  [][(last'.act = "Advert" /\ ~last'.res) => UNCHANGED <<tables, locals>>]_vars
\* an accepted advertisement is stored fresh, under the advertised next hop
AcceptedIsStored ==
  [][(last'.act = "Advert" /\ last'.res) =>
        \E e \in TN(last'.tbl) : /\ e.key = last'.key /\ e.origin = last'.origin /\ e.nh = last'.nh
                                 /\ e.seq = last'.seq /\ e.metric = last'.m + Inc(last'.tbl) /\ ~e.old]_vars
\* an advertisement touches nothing but its own slot
AdvertKeepsOthers ==
  [][last'.act = "Advert" =>
        \A e \in T(last'.tbl) :
           ~(e.key = last'.key /\ e.origin = last'.origin /\ (last'.tbl = "agt" => e.nh = last'.nh)) => e \in TN(last'.tbl)]_vars
\* local routes never come from a neighbour: next hop is the agent itself, no path; the table copy of a local
\* route never carries a sequence above the manager's counter
LocalShape == \A tb \in TableNames : \A e \in T(tb) : e.nh = Local => (e.origin = Local /\ e.path = <<>> /\ e.seq <= lseq)

\* C08: the lookup algorithm answers inside the acceptable set, nothing exactly when nothing contains the address
LookupCidrOK == \A a \in CidrQ :
                  /\ CidrImpl(cidr, a) \subseteq CidrOracle(cidr, a)
                  /\ (CidrImpl(cidr, a) = {}) <=> ~\E e \in cidr : Contains(e.key, a)
\* C09
LookupDomOK == \A n \in DomQ, cv \in CaseVars :
                  /\ DomImpl(dom, n, cv) \subseteq DomOracle(dom, n)
                  /\ (DomImpl(dom, n, cv) = {}) <=> ~\E e \in dom : Matches(e.key, n)
LookupKeyOK == /\ \A k \in FwdKeys : KeyImpl(fwd, k) \subseteq KeyOracle(fwd, k) /\ (KeyImpl(fwd, k) = {} <=> ~HasKey(fwd, k))
               /\ \A k \in AgtKeys : KeyImpl(agt, k) \subseteq KeyOracle(agt, k) /\ (KeyImpl(agt, k) = {} <=> ~HasKey(agt, k))

(* ============================ emission ================================= *)
Proj == [cidr |-> cidr, dom |-> dom, fwd |-> fwd, agt |-> agt, lseq |-> lseq,
         lcidr |-> lcidr, ldyn |-> ldyn, ldom |-> ldom, lfwd |-> lfwd]
ProjN == [cidr |-> cidr', dom |-> dom', fwd |-> fwd', agt |-> agt', lseq |-> lseq',
          lcidr |-> lcidr', ldyn |-> ldyn', ldom |-> ldom', lfwd |-> lfwd']
EmitEdge == Emit => PrintT("EDGE " \o ToJson([s |-> Proj, a |-> last', t |-> ProjN]))

\* per distinct state: the acceptable answers of every query (evaluated as an invariant)
Answers ==
  [cidr |-> IF "cidr" \in Tables THEN {[q |-> a, ok |-> CidrOracle(cidr, a)] : a \in CidrQ} ELSE {},
   dom  |-> IF "dom" \in Tables THEN {[q |-> n, ok |-> DomOracle(dom, n)] : n \in DomQ} ELSE {},
   fwd  |-> IF "fwd" \in Tables THEN {[q |-> k, ok |-> KeyOracle(fwd, k)] : k \in FwdKeys} ELSE {},
   agt  |-> IF "agt" \in Tables THEN {[q |-> k, ok |-> KeyOracle(agt, k)] : k \in AgtKeys} ELSE {}]
EmitAnswers == Emit => PrintT("LK " \o ToJson([s |-> Proj, lk |-> Answers]))
=============================================================================
