------------------------------ MODULE SleepCmd ------------------------------
(***************************************************************************)
(* Signed sleep / wake commands of one agent (C28, C29).                   *)
(*                                                                         *)
(* Code: internal/flood/flood.go  HandleSleepCommand / HandleWakeCommand,  *)
(* verifySleepCommand / verifyWakeCommand, markSleepCmdSeen, cleanup() ->  *)
(* cleanupSleepCmdCache, OnPeerConnected (pending wake), FloodSleepCommand *)
(* / FloodWakeCommand; internal/agent/agent.go handleSleepCommand,         *)
(* handleWakeCommand, handleQueuedState.                                   *)
(*                                                                         *)
(* A command is <<id, ts, sig>>: `id` stands for the pair (origin agent,   *)
(* command id) that keys the seen cache, `ts` is the signed timestamp,     *)
(* `sig` the class of its signature: "valid" (Ed25519 signature of the     *)
(* operator over origin, id, ts), "zero" (unsigned), "bad" (anything else: *)
(* random bytes, signature of another key, signature of another command,   *)
(* a genuine command whose id / timestamp was rewritten).  The signed      *)
(* bytes do NOT contain the command kind: the same signed triple can be    *)
(* delivered as a SLEEP frame, as a WAKE frame or inside QUEUED_STATE, so  *)
(* the kind belongs to the arrival path, not to the command.               *)
(*                                                                         *)
(* Genuine = the commands the operator really signed (constant).  The      *)
(* adversary may deliver them any number of times, on any path, from any   *)
(* peer, at any clock value, with or without the receiver in the unsigned  *)
(* SeenBy list, interleaved with forged frames (every id incl. the genuine *)
(* ones, zero / bad signature, timestamp now or stale), with cache         *)
(* maintenance, with new peers connecting and with locally issued          *)
(* commands.                                                               *)
(*                                                                         *)
(* Time is a discrete clock 0..MaxClock.  A timestamp is inside the window *)
(* iff |clock - ts| <= W.  A cache entry is TTL-expired iff                 *)
(* clock - at > TTL.  One action = one critical section of the code:       *)
(*   Receive   verification + seen-cache test-and-set + SeenBy test +      *)
(*             forwarding + (agent) sleep-manager call                     *)
(*   Cleanup   cleanupSleepCmdCache under sleepCmdMu =                     *)
(*             CleanupExpired followed by EvictBySize                      *)
(*   Tick, PeerConnected (pending wake forwarded to a new peer),           *)
(*   LocalIssue (operator command entered at this agent).                  *)
(*                                                                         *)
(* The module describes the IDEAL design (what the repaired code does);    *)
(* the Dev... actions reproduce the behaviours of the pinned tree that the *)
(* ideal design excludes:                                                  *)
(*   DevQueuedPathUnverified      QUEUED_STATE commands bypass the flooder *)
(*   DevMarkSeenBeforeVerify      cache entry made before verification     *)
(*   DevCacheForgetsInsideWindow  TTL expiry of a still verifiable command *)
(*   DevSizeEviction              size limit evicts such an entry          *)
(*   DevPendingBeforeVerify       pending wake stored before verification  *)
(*   DevRelayUnverified           the signing key reaches the flooder only *)
(*                                when sleep mode is enabled: a relay      *)
(*                                accepts and forwards anything            *)
(*   DevCleanupLosesConcurrentInsert  cleanup rebuilds the cache in two    *)
(*                                critical sections; a command handled in  *)
(*                                between is inserted into the old map     *)
(*                                                                         *)
(* Configuration dimensions chosen at Init: key (signing public key        *)
(* configured) and sleepon (sleep mode enabled: without it the agent has   *)
(* no sleep manager, its sleep state never changes, but it still verifies, *)
(* deduplicates and forwards commands - a relay).                          *)
(* SplitCleanup: cleanup as two steps CleanupScan / CleanupSwap, to state  *)
(* what its atomicity is needed for: in the ideal design no command is     *)
(* handled between them (one critical section under sleepCmdMu).           *)
(*                                                                         *)
(* Instances (checks/_sleepcmd.py generates MC module + cfg; a runnable    *)
(* sample is MCSleepCmd.tla / MCSleepCmd.cfg):                             *)
(*   flood  Paths = {sleep, wake}, clock 0..MaxClock, Maintenance          *)
(*   aux    + unsigned mode, LocalIds, NewPeers (pending wake)             *)
(*   agent  all four paths, one clock value, no Maintenance (a whole agent *)
(*          offers no way to call cleanup())                               *)
(* OneDev: a behaviour stops after its first deviation step; with all      *)
(* deviations enabled this yields "ideal relation + one deviation step     *)
(* from every ideal state", the relation replay mismatches are looked up   *)
(* in.  Ghost variables (acted, bad, poisoned, suppressed, devsteps) never *)
(* influence the other variables.                                          *)
(***************************************************************************)
EXTENDS Integers, Sequences, FiniteSets, TLC, Json

CONSTANTS MaxClock,   \* the clock runs 0..MaxClock
          W,          \* timestamp window
          TTL,        \* seen-cache TTL
          Cap,        \* MaxSeenCacheSize
          Genuine,    \* set of [id, ts]: the commands the operator signed (ids pairwise distinct)
          ForgedIds,  \* further ids, used by forged frames only
          LocalIds,   \* ids of commands the operator enters at this very agent (subset of genuine ids)
          KeyModes,   \* subset of BOOLEAN: is a signing public key configured? (chosen at Init)
          SleepModes, \* subset of BOOLEAN: is sleep mode enabled on the agent? (chosen at Init)
          Paths,      \* subset of {"sleep","wake","qsleep","qwake"}: arrival paths of the instance
          Peers,      \* connected peers (senders and forwarding targets)
          NewPeers,   \* peers that may connect later (pending-wake forwarding)
          Maintenance,\* TRUE: cleanup() is a step of the instance (FALSE where the binding cannot call it: whole agents)
          SplitCleanup,\* TRUE: cleanup() as CleanupScan + CleanupSwap (concurrency with Receive), FALSE: one atomic step
          Dev,        \* enabled deviations
          OneDev,     \* TRUE: a behaviour stops after its first deviation step (relation used to classify mismatches)
          Emit        \* TRUE: print every transition as JSON

DevNames == {"DevQueuedPathUnverified", "DevMarkSeenBeforeVerify", "DevCacheForgetsInsideWindow", "DevSizeEviction",
             "DevPendingBeforeVerify", "DevCleanupLosesConcurrentInsert", "DevRelayUnverified"}
AllPaths == {"sleep", "wake", "qsleep", "qwake"}
GenuineIds == {g.id : g \in Genuine}
AllIds == GenuineIds \cup ForgedIds
GTs(id) == (CHOOSE g \in Genuine : g.id = id).ts

ASSUME /\ Dev \subseteq DevNames /\ Paths \subseteq AllPaths /\ KeyModes \subseteq BOOLEAN /\ SleepModes \subseteq BOOLEAN
       /\ LocalIds \subseteq GenuineIds /\ GenuineIds \cap ForgedIds = {}
       /\ Cardinality(GenuineIds) = Cardinality(Genuine)

VARIABLES key,      \* signing public key configured?  (never changes)
          sleepon,  \* sleep mode enabled?  (never changes)
          scanning, \* SplitCleanup: a cleanup has scanned the cache and not yet swapped
          snap,     \* SplitCleanup: the cache the scan kept
          clock,
          cache,    \* [AllIds -> [at, from]]   at = -1: no entry
          st,       \* "awake" | "sleeping"   sleep state of the agent
          pend,     \* [id, at, ok] pending wake command kept for new peers (id = "none": nothing stored);
                    \* ok: it was authentic when stored
          acted,    \* ghost [AllIds -> 0..2]: times a VALID command with this id was acted on
          bad,      \* ghost 0..1: a command that is not valid was acted on / forwarded
          poisoned, \* ghost: ids whose cache entry was created by a frame that failed verification
          suppressed, \* ghost: an authentic, never acted-on command was refused because of such an entry
          devsteps, \* ghost: number of deviation steps taken (0..1, only counted when OneDev)
          last      \* observation of the last step (hidden by VIEW)

ghosts == <<acted, bad, poisoned, suppressed, devsteps>>
conf == <<key, sleepon>>
cl == <<scanning, snap>>
vars == <<conf, cl, clock, cache, st, pend, ghosts, last>>
view == <<conf, cl, clock, cache, st, pend, ghosts>>
viewCore == <<conf, cl, clock, cache, st, pend, devsteps>>

NoEntry == [at |-> -1, from |-> "none"]
NoPend == [id |-> "none", at |-> -1, ok |-> TRUE]
TrackPend == NewPeers # {}   \* instances without new peers do not track the pending wake
Present(id) == cache[id].at >= 0
Size(c) == Cardinality({i \in AllIds : c[i].at >= 0})
Min(a, b) == IF a < b THEN a ELSE b

InWin(ts) == clock - ts <= W /\ ts - clock <= W
\* what the verifier must establish when a key is configured
Authentic(c) == c.sig = "valid" /\ InWin(c.ts)
Verified(c) == ~key \/ Authentic(c)
IsSleep(path) == path \in {"sleep", "qsleep"}
Effect(path) == IF IsSleep(path) THEN "sleeping" ELSE "awake"
\* the command of this id can still pass verification now or later (its window has not closed)
StillValid(id) == key /\ id \in GenuineIds /\ clock <= GTs(id) + W

Init ==
  /\ key \in KeyModes
  /\ sleepon \in SleepModes
  /\ scanning = FALSE
  /\ clock = 0
  /\ cache = [i \in AllIds |-> NoEntry]
  /\ snap = [i \in AllIds |-> NoEntry]
  /\ st = "awake"
  /\ pend = NoPend
  /\ acted = [i \in AllIds |-> 0]
  /\ bad = 0
  /\ poisoned = {}
  /\ suppressed = FALSE
  /\ devsteps = 0
  /\ last = [act |-> "Init"]

Obs(path, from, c, loop, res, fwd) ==
  [act |-> "Receive", path |-> path, from |-> from, id |-> c.id, sig |-> c.sig, ts |-> c.ts, loop |-> loop,
   res |-> res, fwd |-> fwd]

\* bookkeeping of an acceptance (ghosts + agent state + pending wake)
Stored(c) == [id |-> c.id, at |-> clock, ok |-> Authentic(c)]
Act(path, c) ==
  /\ st' = IF sleepon THEN Effect(path) ELSE st      \* no sleep manager: the command is only forwarded
  /\ IF ~key THEN UNCHANGED <<acted, bad>>
     ELSE IF Authentic(c) THEN acted' = [acted EXCEPT ![c.id] = Min(@ + 1, 2)] /\ bad' = bad
                          ELSE acted' = acted /\ bad' = 1
  /\ pend' = IF IsSleep(path) \/ ~TrackPend THEN pend ELSE Stored(c)

Refresh(from, id) == [cache EXCEPT ![id].at = IF cache[id].from # from THEN clock ELSE @]
Insert(from, id) == [cache EXCEPT ![id] = [at |-> clock, from |-> from]]

(* One delivered command (flooded SLEEP / WAKE frame, or the command slot  *)
(* of a QUEUED_STATE frame, which the repaired agent hands to the same     *)
(* flooder functions): verify, then test-and-set the seen cache, then the  *)
(* SeenBy loop test, then forward to every other peer and act.             *)
\* storeFirst: the pinned-style order of HandleWakeCommand in which the pending wake is (re)stored on arrival
\* ver: the outcome of the verification the handler performs
ReceiveCore(path, from, c, loop, storeFirst, dev, ver) ==
  LET early == storeFirst /\ ~IsSleep(path) /\ TrackPend
      O(res, fwd) == IF dev = "" THEN Obs(path, from, c, loop, res, fwd)
                               ELSE Obs(path, from, c, loop, res, fwd) @@ [dev |-> dev] IN
  /\ IF ~ver
       THEN /\ UNCHANGED <<cache, st, acted, bad, suppressed>>
            /\ pend' = IF early THEN Stored(c) ELSE pend
            /\ last' = O("invalid", {})
       ELSE IF Present(c.id)
         THEN /\ cache' = Refresh(from, c.id)
              /\ UNCHANGED <<st, acted, bad>>
              /\ pend' = IF early THEN Stored(c) ELSE pend
              /\ suppressed' = (suppressed \/ (key /\ Authentic(c) /\ c.id \in poisoned /\ acted[c.id] = 0))
              /\ last' = O("dup", {})
         ELSE /\ cache' = Insert(from, c.id)
              /\ UNCHANGED suppressed
              /\ IF loop
                   THEN /\ UNCHANGED <<st, acted, bad>> /\ pend' = IF early THEN Stored(c) ELSE pend
                        /\ last' = O("loop", {})
                   ELSE Act(path, c) /\ last' = O("accept", Peers \ {from})
  /\ UNCHANGED <<conf, cl, clock, poisoned>>

\* ideal: no command is handled while a cleanup is between its scan and its swap (one critical section)
Receive(path, from, c, loop) ==
  /\ ~scanning
  /\ ReceiveCore(path, from, c, loop, FALSE, "", Verified(c))
  /\ UNCHANGED devsteps

Tick ==
  /\ clock < MaxClock
  /\ clock' = clock + 1
  /\ UNCHANGED <<conf, cl, cache, st, pend, ghosts>>
  /\ last' = [act |-> "Tick"]

(* cleanupSleepCmdCache, first loop: drop entries older than the TTL --    *)
(* but never one whose command could still be verified.                    *)
CleanupExpired(c, keepValid) ==
  [i \in AllIds |-> IF c[i].at >= 0 /\ clock - c[i].at > TTL /\ ~(keepValid /\ StillValid(i)) THEN NoEntry ELSE c[i]]
(* second loop: while the cache is larger than Cap remove entries (map     *)
(* iteration order: any victims), again never a still-valid one.           *)
Evictable(c, keepValid) == {i \in AllIds : c[i].at >= 0 /\ ~(keepValid /\ StillValid(i))}
EvictBySize(c, V) == [i \in AllIds |-> IF i \in V THEN NoEntry ELSE c[i]]
Victims(c, keepValid) ==
  LET excess == Size(c) - Cap
      ev == Evictable(c, keepValid)
      n == IF excess <= 0 THEN 0 ELSE Min(excess, Cardinality(ev))
  IN {V \in SUBSET ev : Cardinality(V) = n}

IdealCleanupResults ==
  LET c1 == CleanupExpired(cache, TRUE) IN {EvictBySize(c1, V) : V \in Victims(c1, TRUE)}

CleanupWith(keepTTL, keepSize, dev) ==
  LET c1 == CleanupExpired(cache, keepTTL) IN
  \E V \in Victims(c1, keepSize) :
    /\ cache' = EvictBySize(c1, V)
    /\ dev # "" => cache' \notin IdealCleanupResults   \* a deviation step is one the ideal design cannot take
    /\ poisoned' = {i \in poisoned : cache'[i].at >= 0}
    /\ devsteps' = IF dev # "" /\ OneDev THEN 1 ELSE devsteps
    /\ UNCHANGED <<conf, cl, clock, st, pend, acted, bad, suppressed>>
    /\ last' = IF dev = "" THEN [act |-> "Cleanup"] ELSE [act |-> "Cleanup", dev |-> dev]

Cleanup == ~SplitCleanup /\ CleanupWith(TRUE, TRUE, "")

(* cleanup() as two steps: the scan decides what is kept (first loop), the *)
(* swap installs the kept map and applies the size limit (second loop).    *)
CleanupScan ==
  /\ SplitCleanup /\ ~scanning
  /\ scanning' = TRUE /\ snap' = CleanupExpired(cache, TRUE)
  /\ UNCHANGED <<conf, clock, cache, st, pend, ghosts>>
  /\ last' = [act |-> "CleanupScan"]
CleanupSwap ==
  /\ SplitCleanup /\ scanning
  /\ \E V \in Victims(snap, TRUE) : cache' = EvictBySize(snap, V)
  /\ scanning' = FALSE /\ snap' = [i \in AllIds |-> NoEntry]
  /\ poisoned' = {i \in poisoned : cache'[i].at >= 0}
  /\ UNCHANGED <<conf, clock, st, pend, acted, bad, suppressed, devsteps>>
  /\ last' = [act |-> "CleanupSwap"]

(* A new peer connects: a pending wake command not older than the TTL is   *)
(* forwarded to it (OnPeerConnected); an older one is dropped.             *)
PeerConnected(p) ==
  /\ IF pend.id = "none"
       THEN UNCHANGED <<pend, bad>> /\ last' = [act |-> "PeerConnected", p |-> p, res |-> "none", fwd |-> {}]
       ELSE IF clock - pend.at > TTL
         THEN pend' = NoPend /\ UNCHANGED bad /\ last' = [act |-> "PeerConnected", p |-> p, res |-> "expired", fwd |-> {}]
         ELSE /\ UNCHANGED pend
              /\ bad' = IF key /\ ~pend.ok THEN 1 ELSE bad       \* a command that is not authentic is forwarded
              /\ last' = [act |-> "PeerConnected", p |-> p, res |-> pend.id, ok |-> pend.ok, fwd |-> {p}]
  /\ UNCHANGED <<conf, cl, clock, cache, st, acted, poisoned, suppressed, devsteps>>

(* The operator enters a (signed) command at this agent: FloodSleepCommand *)
(* / FloodWakeCommand mark it seen (from = the agent itself) and send it   *)
(* to every peer; when it comes back from the mesh it is a duplicate.      *)
LocalIssue(kind, id) ==
  /\ sleepon /\ ~scanning
  /\ id \in LocalIds /\ InWin(GTs(id)) /\ ~Present(id)
  /\ cache' = [cache EXCEPT ![id] = [at |-> clock, from |-> "self"]]
  /\ st' = IF kind = "sleep" THEN "sleeping" ELSE "awake"
  /\ pend' = IF kind = "sleep" \/ ~TrackPend THEN pend ELSE [id |-> id, at |-> clock, ok |-> TRUE]
  /\ acted' = IF key THEN [acted EXCEPT ![id] = Min(@ + 1, 2)] ELSE acted
  /\ UNCHANGED <<conf, cl, clock, bad, poisoned, suppressed, devsteps>>
  /\ last' = [act |-> "LocalIssue", kind |-> kind, id |-> id, ts |-> GTs(id), fwd |-> Peers]

(* ---- deviations ---------------------------------------------------------*)
(* pinned agent.handleQueuedState: a command inside QUEUED_STATE goes      *)
(* straight to the sleep manager: no verification, no cache, no forward.   *)
DevQueuedPathUnverified(path, from, c, loop) ==
  /\ "DevQueuedPathUnverified" \in Dev
  /\ path \in {"qsleep", "qwake"} /\ sleepon /\ ~scanning
  /\ st' = Effect(path)
  /\ IF ~key THEN UNCHANGED <<acted, bad>>
     ELSE IF Authentic(c) THEN acted' = [acted EXCEPT ![c.id] = Min(@ + 1, 2)] /\ bad' = bad
                          ELSE acted' = acted /\ bad' = 1
  /\ devsteps' = IF OneDev THEN 1 ELSE devsteps
  /\ UNCHANGED <<conf, cl, clock, cache, pend, poisoned, suppressed>>
  /\ last' = Obs(path, from, c, loop, "accept", {}) @@ [dev |-> "DevQueuedPathUnverified"]

(* pinned HandleSleepCommand / HandleWakeCommand: markSleepCmdSeen runs    *)
(* BEFORE verification, so a frame that fails verification still creates   *)
(* (or refreshes) the cache entry of its (origin, id).                     *)
DevMarkSeenBeforeVerify(path, from, c, loop) ==
  /\ "DevMarkSeenBeforeVerify" \in Dev
  /\ ~Verified(c) /\ ~scanning
  /\ IF Present(c.id) THEN cache' = Refresh(from, c.id) /\ poisoned' = poisoned
                      ELSE cache' = Insert(from, c.id) /\ poisoned' = poisoned \cup {c.id}
  /\ cache' # cache
  /\ devsteps' = IF OneDev THEN 1 ELSE devsteps
  /\ UNCHANGED <<conf, cl, clock, st, pend, acted, bad, suppressed>>
  /\ last' = Obs(path, from, c, loop, "invalid", {}) @@ [dev |-> "DevMarkSeenBeforeVerify"]

(* HandleWakeCommand stores the arriving command as pending wake BEFORE     *)
(* verification / deduplication: a frame that is then rejected stays behind *)
(* and is forwarded to the next peer that connects.                         *)
DevPendingBeforeVerify(path, from, c, loop) ==
  /\ "DevPendingBeforeVerify" \in Dev
  /\ ~IsSleep(path) /\ TrackPend /\ ~scanning
  /\ ReceiveCore(path, from, c, loop, TRUE, "DevPendingBeforeVerify", Verified(c))
  /\ pend' # (IF Verified(c) /\ ~Present(c.id) /\ ~loop THEN Stored(c) ELSE pend)   \* differs from the ideal step
  /\ devsteps' = IF OneDev THEN 1 ELSE devsteps

(* cleanup() rebuilt in two critical sections (scan under the read lock,   *)
(* swap under the write lock): a command handled in between is inserted    *)
(* into the map that the swap throws away.                                 *)
DevCleanupLosesConcurrentInsert(path, from, c, loop) ==
  /\ "DevCleanupLosesConcurrentInsert" \in Dev
  /\ scanning
  /\ ReceiveCore(path, from, c, loop, FALSE, "DevCleanupLosesConcurrentInsert", Verified(c))
  /\ devsteps' = IF OneDev THEN 1 ELSE devsteps

(* agent.initComponents hands the signing key to the flooder only when     *)
(* sleep mode is enabled: an agent without sleep mode (a relay) runs its   *)
(* flooder without a key and accepts, remembers and forwards every frame.  *)
DevRelayUnverified(path, from, c, loop) ==
  /\ "DevRelayUnverified" \in Dev
  /\ key /\ ~sleepon /\ ~scanning /\ ~Authentic(c)
  /\ ReceiveCore(path, from, c, loop, FALSE, "DevRelayUnverified", TRUE)
  /\ devsteps' = IF OneDev THEN 1 ELSE devsteps

(* pinned cleanupSleepCmdCache: the TTL alone decides (first loop)         *)
DevCacheForgetsInsideWindow ==
  /\ "DevCacheForgetsInsideWindow" \in Dev
  /\ CleanupWith(FALSE, TRUE, "DevCacheForgetsInsideWindow")
(* ... and the size limit evicts arbitrary entries (second loop)           *)
DevSizeEviction ==
  /\ "DevSizeEviction" \in Dev
  /\ CleanupWith(TRUE, FALSE, "DevSizeEviction")
\* both loops as in the pinned tree (only used to classify replay mismatches)
DevCleanupPinned ==
  /\ {"DevCacheForgetsInsideWindow", "DevSizeEviction"} \subseteq Dev
  /\ CleanupWith(FALSE, FALSE, "DevCacheForgetsInsideWindow+DevSizeEviction")

(* ---- the adversary's frames ---------------------------------------------*)
GenuineCmds == {[id |-> g.id, ts |-> g.ts, sig |-> "valid"] : g \in Genuine}
\* forged: every id (the genuine ones too) unsigned or with a bad signature and a current timestamp; a stale
\* timestamp under a bad signature for the forged ids (stale + valid signature: see Genuine)
ForgedCmds == {[id |-> i, ts |-> clock, sig |-> s] : i \in AllIds, s \in {"zero", "bad"}}
                \cup {[id |-> i, ts |-> clock - W - 1, sig |-> "bad"] : i \in ForgedIds}
\* the unsigned SeenBy list names the receiver (loop) or not; irrelevant for frames that fail verification
Deliveries == {[c |-> c, loop |-> l] : c \in GenuineCmds, l \in BOOLEAN}
                \cup {[c |-> c, loop |-> FALSE] : c \in ForgedCmds}

Step ==
  \/ \E path \in Paths, from \in Peers, d \in Deliveries :
        \/ Receive(path, from, d.c, d.loop)
        \/ DevQueuedPathUnverified(path, from, d.c, d.loop)
        \/ DevMarkSeenBeforeVerify(path, from, d.c, d.loop)
        \/ DevPendingBeforeVerify(path, from, d.c, d.loop)
        \/ DevCleanupLosesConcurrentInsert(path, from, d.c, d.loop)
        \/ DevRelayUnverified(path, from, d.c, d.loop)
  \/ Tick
  \/ Maintenance /\ (Cleanup \/ CleanupScan \/ CleanupSwap)
  \/ Maintenance /\ ~SplitCleanup /\ (DevCacheForgetsInsideWindow \/ DevSizeEviction \/ DevCleanupPinned)
  \/ \E p \in NewPeers : PeerConnected(p)
  \/ \E kind \in {"sleep", "wake"}, id \in LocalIds : LocalIssue(kind, id)

Next == devsteps = 0 /\ Step

Spec == Init /\ [][Next]_vars

(* ---- properties ----------------------------------------------------------*)
TypeOK ==
  /\ key \in BOOLEAN /\ sleepon \in BOOLEAN /\ scanning \in BOOLEAN /\ clock \in 0..MaxClock /\ st \in {"awake", "sleeping"}
  /\ (~sleepon => st = "awake") /\ (scanning => SplitCleanup)
  /\ \A i \in AllIds : cache[i].at \in -1..MaxClock
  /\ bad \in 0..1 /\ \A i \in AllIds : acted[i] \in 0..2
  /\ pend.id \in AllIds \cup {"none"} /\ poisoned \subseteq AllIds /\ suppressed \in BOOLEAN /\ devsteps \in 0..1

\* C28: with a key configured nothing but an authentic command (valid signature, timestamp inside the window)
\* is ever acted on or forwarded, on any path ...
OnlyAuthenticActs == key => bad = 0
\* ... as an action property over the observable effects of a step
OnlyAuthenticEffects ==
  [][(key /\ last'.act = "Receive" /\ (st' # st \/ last'.fwd # {}))
        => (last'.sig = "valid" /\ last'.ts - clock <= W /\ clock - last'.ts <= W)]_vars
\* ... and the pending wake kept for new peers is a verified one
PendingAuthentic == (key /\ pend.id # "none") => (pend.ok /\ pend.id \in GenuineIds /\ acted[pend.id] >= 1)

\* C29: every valid command is acted on at most once
AtMostOnce == key => \A i \in AllIds : acted[i] <= 1
\* a still-valid command that was acted on stays in the cache (the mechanism behind AtMostOnce)
RememberedWhileValid == \A i \in GenuineIds : (StillValid(i) /\ acted[i] >= 1) => Present(i)
\* frames that fail verification leave no trace: they cannot use up the single acceptance of a genuine command
NoPoisoning == key => poisoned = {}
\* ... in particular no authentic command is ever refused because a forged frame used its (origin, id) first
NeverSuppressed == key => ~suppressed
RejectedChangesNothing ==
  [][(key /\ last'.act = "Receive" /\ last'.res = "invalid") => UNCHANGED <<cache, st, pend>>]_vars
\* sleep mode off: the sleep state never changes (the agent only verifies, deduplicates and forwards)
RelayNeverSleeps == ~sleepon => st = "awake"

EmitEdge ==
  Emit => PrintT("EDGE " \o ToJson([s |-> [key |-> key, sleepon |-> sleepon, clock |-> clock, cache |-> cache, st |-> st,
                                           pend |-> pend],
                                     a |-> last',
                                     t |-> [key |-> key', sleepon |-> sleepon', clock |-> clock', cache |-> cache',
                                            st |-> st', pend |-> pend']]))
=============================================================================
