-------------------------- MODULE DatagramSession --------------------------
(***************************************************************************)
(* Life cycle of datagram sessions at the EXIT side: UDP associations      *)
(* (internal/udp Handler + Association) and ICMP echo sessions             *)
(* (internal/icmp Handler + Session).  One state machine, parametrised by  *)
(* Kind; the two handlers are the same code shape.                         *)
(*                                                                         *)
(* A session is addressed by a SLOT = (peer connection, stream id): stream *)
(* ids are allocated per connection, so two peers may use the same id.     *)
(* Slots are strings "A1", "B1", ... (Owner, IdOf below).                  *)
(*                                                                         *)
(* Handler state (what the code holds):                                    *)
(*   tab    the handler's table: key -> slot of the registered object.  In *)
(*          the ideal design the key is the slot (peer, id); the deviation *)
(*          DevKeyedByStreamIdOnly keys it by the bare id (what the code   *)
(*          does: known finding of C16/C17).                               *)
(*   byreq  the request-id index                                           *)
(*   obj    the session object: None / Opening / Open / Closed             *)
(*   sock   its socket is open;  rl  its read loop runs (udp only)         *)
(*   exp    LastActivity is older than the idle timeout                    *)
(*   pend   a HandleOpen call is inside the writer's WriteOpenAck          *)
(*          (registered, not yet SetOpen)                                  *)
(* One action = one critical section / call of the code:                   *)
(*   OpenBegin(s, m)   HandleOpen up to the call of WriteOpenAck: enabled  *)
(*                     check, limit check, socket, key exchange, register. *)
(*                     m = "enc" | "plain" (zero ephemeral key) |          *)
(*                     "badkey" (low-order point: ECDH fails) | "nosock"   *)
(*                     (socket creation fails).  Errors answer OPEN_ERR.   *)
(*   OpenAck(s)        WriteOpenAck returns: ok -> SetOpen, read loop;     *)
(*                     peer gone -> the write fails, the record is removed *)
(*   DgIn(s, rep)      DATAGRAM / ECHO frame of the owner peer: decrypted  *)
(*                     and sent to the destination (icmp: rep = the        *)
(*                     destination answers, the reply goes back as a frame *)
(*                     on the same session)                                *)
(*   DgOut(s)          udp: a datagram arrives at the session's socket and *)
(*                     is sent to the owner as an encrypted frame          *)
(*   IdleTick          time passes beyond the idle timeout                 *)
(*   Cleanup           cleanupExpired(): every expired registered session  *)
(*                     gets one CLOSE(timeout) to its owner and is removed *)
(*   CloseFromPeer(s)  CLOSE frame                                         *)
(*   HandlerClose      Handler.Close()                                     *)
(*   PeerGone(p)       the peer connection is gone: frames to it fail      *)
(*                     (the handler has no peer-disconnect entry point:    *)
(*                     the sessions of a gone peer live until idle expiry) *)
(* Ghosts: life (the life cycle the protocol prescribes for the slot),     *)
(* why (cause of the close).  Invariants compare the handler's tables,     *)
(* counters and emitted frames with the ghosts.                            *)
(***************************************************************************)
EXTENDS Naturals, Sequences, FiniteSets, TLC, Json

CONSTANTS Kind,     \* "udp" | "icmp"
          Slots,    \* subset of AllSlots
          Modes,    \* subset of {"enc","plain","badkey","nosock"}
          Max,      \* MaxAssociations / MaxSessions (> 0)
          MaxDg,    \* datagram actions (both directions, all slots)
          MaxErr,   \* failed opens (all slots)
          Worlds,   \* subset of BOOLEAN: values of config.Enabled
          FullSlots,\* slots that receive every kind of open and datagrams; the others are only opened ("enc"),
                    \* closed and expired: they are the "other session" of the counter / limit / isolation properties
          GoneP,    \* peers that may go away
          Split,    \* TRUE: the return path is two steps (datagram / echo reply read from the socket, then encrypted
                    \* and written as a frame) - the code has no lock across them; FALSE: one step (what a sequential
                    \* replay can drive)
          Dev, Emit

AllSlots == {"A1", "A2", "A3", "B1", "B2", "B3"}
Owner == [s \in AllSlots |-> IF s \in {"A1", "A2", "A3"} THEN "A" ELSE "B"]
IdOf  == [s \in AllSlots |-> IF s \in {"A1", "B1"} THEN "1" ELSE IF s \in {"A2", "B2"} THEN "2" ELSE "3"]
Peers == {"A", "B"}
NoSlot == "-"
Live == {"Opening", "Open"}
DevNames == {"DevKeyedByStreamIdOnly", "DevCounterNotDecrementedOnErr", "DevCloseTwiceNotifiesTwice",
             "DevIdleCleanupKeepsRecord", "DevDatagramAfterClose", "DevLimitCheckThenAct",
             "DevReplyToWrongAssociation", "DevCloseNotifiesWrongPeer", "DevErrKeepsSocket",
             "DevEmitAfterCloseInClear", "DevRemoveKeepsRequestIndex", "DevCloseAnsweredWithClose",
             "DevDatagramDoesNotRefreshActivity"}
ASSUME Dev \subseteq DevNames /\ Slots \subseteq AllSlots /\ FullSlots \subseteq Slots /\ GoneP \subseteq Peers /\ Kind \in {"udp", "icmp"} /\ Max > 0

ById == "DevKeyedByStreamIdOnly" \in Dev
\* the table key of a frame addressed to slot s
Key(s) == IF ById THEN IdOf[s] ELSE s
Keys == {Key(s) : s \in Slots}

VARIABLES enabled, hup, peerUp, tab, byreq, obj, sock, rl, exp, pend, enc,
          ackN, errN, closeN, din, dout,      \* frames / datagrams attributed to the slot (peer, id)
          ndg, nerr,                           \* budgets
          infl,                                \* the return path holds a datagram read from the socket (Split)
          clear,                               \* frames that carried a datagram in clear although the session is "enc"
          leak,                                \* sockets that belong to no session object any more and are still open
          life, why,                           \* ghosts
          fresh,                               \* ghost: the session relayed / was opened since the last IdleTick
          last

aux == <<infl, clear, leak>>
core == <<enabled, hup, peerUp, tab, byreq, obj, sock, rl, exp, pend, enc, ackN, errN, closeN, din, dout, ndg, nerr, aux>>
ghost == <<life, why, fresh>>
vars == <<core, ghost, last>>
view == <<core, ghost>>

Fn(v) == [s \in Slots |-> v]

Init ==
  /\ enabled \in Worlds /\ hup = TRUE /\ peerUp = [p \in Peers |-> TRUE]
  /\ tab = [k \in Keys |-> NoSlot] /\ byreq = Fn(FALSE) /\ obj = Fn("None") /\ sock = Fn(FALSE) /\ rl = Fn(FALSE)
  /\ exp = Fn(FALSE) /\ pend = Fn(FALSE) /\ enc = Fn(FALSE)
  /\ ackN = Fn(0) /\ errN = Fn(0) /\ closeN = Fn(0) /\ din = Fn(0) /\ dout = Fn(0) /\ ndg = 0 /\ nerr = 0
  /\ infl = Fn(FALSE) /\ clear = 0 /\ leak = 0
  /\ life = Fn("None") /\ why = Fn("-") /\ fresh = Fn(FALSE)
  /\ last = [act |-> "Init"]

Count == Cardinality({k \in Keys : tab[k] # NoSlot})
Look(s) == tab[Key(s)]              \* the object a frame addressed to slot s finds
CanSend(s) == hup /\ peerUp[Owner[s]]   \* the environment: the owner peer can still send frames

\* removeAssociation(key of s) + Association.Close of the object found there
RemoveAt(s, f) ==
  /\ tab' = [tab EXCEPT ![Key(s)] = NoSlot]
  /\ byreq' = IF "DevRemoveKeepsRequestIndex" \in Dev THEN byreq ELSE [byreq EXCEPT ![f] = FALSE]
  /\ obj' = [obj EXCEPT ![f] = "Closed"]
  /\ sock' = [sock EXCEPT ![f] = FALSE]
  /\ rl' = [rl EXCEPT ![f] = FALSE]

Act(a, s, m, res) == [act |-> a, s |-> s, m |-> m, res |-> res]

(* ---- HandleOpen, first part ------------------------------------------------ *)
OpenFail(s, m, res) ==
  /\ nerr < MaxErr /\ nerr' = nerr + 1
  /\ errN' = [errN EXCEPT ![s] = @ + 1]
  \* DevErrKeepsSocket: the key-exchange error path forgets to close the socket it created
  /\ leak' = IF "DevErrKeepsSocket" \in Dev /\ res = "err-badkey" THEN leak + 1 ELSE leak
  /\ UNCHANGED <<infl, clear, enabled, hup, peerUp, tab, byreq, obj, sock, rl, exp, pend, enc, ackN, closeN, din, dout, ndg,
                 ghost>>
  /\ last' = Act("OpenBegin", s, m, res)

OpenBegin(s, m) ==
  /\ CanSend(s) /\ obj[s] = "None" /\ life[s] = "None"
  /\ (s \in FullSlots \/ m = "enc")
  /\ IF ~enabled THEN OpenFail(s, m, "err-disabled")
     ELSE IF Count >= Max /\ "DevLimitCheckThenAct" \notin Dev THEN OpenFail(s, m, "err-limit")
     ELSE IF m = "nosock" THEN OpenFail(s, m, "err-dial")
     ELSE IF m = "badkey" THEN OpenFail(s, m, "err-badkey")
     ELSE /\ tab' = [tab EXCEPT ![Key(s)] = s]          \* by bare id: replaces whatever is registered there
          /\ byreq' = [byreq EXCEPT ![s] = TRUE]
          /\ obj' = [obj EXCEPT ![s] = "Opening"] /\ sock' = [sock EXCEPT ![s] = TRUE]
          /\ exp' = [exp EXCEPT ![s] = FALSE] /\ pend' = [pend EXCEPT ![s] = TRUE]
          /\ enc' = [enc EXCEPT ![s] = (m = "enc")]
          /\ life' = [life EXCEPT ![s] = "Opening"] /\ fresh' = [fresh EXCEPT ![s] = TRUE]
          /\ UNCHANGED <<aux, enabled, hup, peerUp, rl, ackN, errN, closeN, din, dout, ndg, nerr, why>>
          /\ last' = Act("OpenBegin", s, m, "pending")

(* ---- HandleOpen, second part: WriteOpenAck returns -------------------------- *)
OpenAck(s) ==
  /\ pend[s] /\ pend' = [pend EXCEPT ![s] = FALSE]
  /\ IF peerUp[Owner[s]]
       THEN /\ ackN' = [ackN EXCEPT ![s] = @ + 1]
            /\ obj' = [obj EXCEPT ![s] = IF @ = "Opening" THEN "Open" ELSE @]      \* SetOpen
            /\ exp' = [exp EXCEPT ![s] = IF obj[s] = "Opening" THEN FALSE ELSE @]
            /\ rl' = [rl EXCEPT ![s] = Kind = "udp" /\ sock[s] /\ hup]             \* read loop (exits when closed)
            /\ life' = [life EXCEPT ![s] = IF @ = "Opening" THEN "Open" ELSE @]
            /\ fresh' = [fresh EXCEPT ![s] = @ \/ obj[s] = "Opening"]
            /\ UNCHANGED <<tab, byreq, sock, why>>
            /\ last' = Act("OpenAck", s, "-", "ok")
       ELSE \* the write fails: removeAssociation(streamID)
            /\ UNCHANGED <<ackN, exp, fresh>>
            /\ life' = [life EXCEPT ![s] = IF @ \in Live THEN "Closed" ELSE @]
            /\ why' = [why EXCEPT ![s] = IF life[s] \in Live THEN "ackfail" ELSE @]
            /\ IF Look(s) = NoSlot \/ "DevCounterNotDecrementedOnErr" \in Dev
                 THEN UNCHANGED <<tab, byreq, obj, sock, rl>>
                 ELSE RemoveAt(s, Look(s))
            /\ last' = Act("OpenAck", s, "-", "err-ack")
  /\ UNCHANGED <<aux, enabled, hup, peerUp, enc, errN, closeN, din, dout, ndg, nerr>>

(* ---- DATAGRAM / ECHO frame from the owner peer ------------------------------ *)
\* the reply of an answered echo (icmp): one step, or - Split - read now by the waiting goroutine and emitted later
Reply(f, rep) ==
  IF ~rep THEN UNCHANGED <<dout, infl>>
  ELSE IF Split THEN infl' = [infl EXCEPT ![f] = TRUE] /\ UNCHANGED dout
  ELSE dout' = [dout EXCEPT ![f] = @ + 1] /\ UNCHANGED infl

DgIn(s, rep) ==
  /\ CanSend(s) /\ s \in FullSlots /\ ndg < MaxDg /\ ndg' = ndg + 1
  /\ (Kind = "udp" => ~rep)
  /\ (rep /\ Split /\ Look(s) # NoSlot => ~infl[Look(s)])
  /\ LET f == Look(s) IN
     IF f = NoSlot
       THEN IF "DevDatagramAfterClose" \in Dev /\ obj[s] = "Closed"
              THEN \* the closed object is still used (stale reference, socket not shut)
                   /\ din' = [din EXCEPT ![s] = @ + 1]
                   /\ dout' = IF rep THEN [dout EXCEPT ![s] = @ + 1] ELSE dout
                   /\ UNCHANGED <<exp, infl, fresh>>
                   /\ last' = Act("DgIn", s, IF rep THEN "rep" ELSE "-", "ok")
              ELSE /\ UNCHANGED <<din, dout, exp, infl, fresh>>
                   /\ last' = Act("DgIn", s, IF rep THEN "rep" ELSE "-", "unknown")
       ELSE /\ exp' = IF "DevDatagramDoesNotRefreshActivity" \in Dev THEN exp
                    ELSE [exp EXCEPT ![f] = FALSE]                  \* UpdateActivity precedes Decrypt
            /\ fresh' = [fresh EXCEPT ![f] = TRUE]
            /\ IF f = s \/ ~enc[f]
                 THEN /\ din' = [din EXCEPT ![f] = @ + 1]
                      /\ Reply(f, rep)
                      /\ last' = Act("DgIn", s, IF rep THEN "rep" ELSE "-", "ok")
                 ELSE \* another slot's object (bare-id keying): the ciphertext does not authenticate
                      /\ UNCHANGED <<din, dout, infl>>
                      /\ last' = Act("DgIn", s, IF rep THEN "rep" ELSE "-", "err-decrypt")
  /\ UNCHANGED <<enabled, hup, peerUp, tab, byreq, obj, sock, rl, pend, enc, ackN, errN, closeN, nerr, clear, leak, life, why>>

(* ---- udp: a datagram arrives at the session's socket ------------------------ *)
DgOut(s) ==
  /\ ~Split
  /\ Kind = "udp" /\ s \in FullSlots /\ ndg < MaxDg /\ ndg' = ndg + 1
  /\ obj[s] \in {"Open", "Closed"}                 \* the bound port is known; not while the open is pending
  /\ ~pend[s]
  /\ IF sock[s] /\ rl[s]
       THEN LET x == IF "DevReplyToWrongAssociation" \in Dev /\ \E y \in Slots : y # s /\ obj[y] = "Open"
                       THEN CHOOSE y \in Slots : y # s /\ obj[y] = "Open" ELSE s IN
            /\ dout' = [dout EXCEPT ![x] = @ + 1]
            /\ exp' = IF "DevDatagramDoesNotRefreshActivity" \in Dev THEN exp ELSE [exp EXCEPT ![s] = FALSE]
            /\ fresh' = [fresh EXCEPT ![s] = TRUE]
            /\ last' = Act("DgOut", s, "-", "relayed")
       ELSE IF "DevDatagramAfterClose" \in Dev /\ obj[s] = "Closed"
         THEN /\ dout' = [dout EXCEPT ![s] = @ + 1] /\ UNCHANGED <<exp, fresh>>
              /\ last' = Act("DgOut", s, "-", "relayed")
         ELSE /\ UNCHANGED <<dout, exp, fresh>>
              /\ last' = Act("DgOut", s, "-", "dropped")
  /\ UNCHANGED <<aux, enabled, hup, peerUp, tab, byreq, obj, sock, rl, pend, enc, ackN, errN, closeN, din, nerr, life, why>>

(* ---- the return path as two steps (Split) ----------------------------------- *)
\* udp read loop: ReadFromUDP returns a datagram (UpdateActivity follows at once)
DgArrive(s) ==
  /\ Split /\ Kind = "udp" /\ s \in FullSlots /\ ndg < MaxDg /\ ndg' = ndg + 1
  /\ sock[s] /\ rl[s] /\ ~infl[s]
  /\ infl' = [infl EXCEPT ![s] = TRUE] /\ exp' = [exp EXCEPT ![s] = FALSE] /\ fresh' = [fresh EXCEPT ![s] = TRUE]
  /\ UNCHANGED <<clear, leak, enabled, hup, peerUp, tab, byreq, obj, sock, rl, pend, enc, ackN, errN, closeN, din, dout, nerr,
                 life, why>>
  /\ last' = Act("DgArrive", s, "-", "ok")

\* Encrypt + WriteDatagram / WriteEcho.  The session may have been closed in between: its key is gone.  Ideal: nothing
\* is sent.  DevEmitAfterCloseInClear (the code: Encrypt returns its input when the key is nil): the frame is sent, in
\* clear.
DgEmit(s) ==
  /\ infl[s] /\ infl' = [infl EXCEPT ![s] = FALSE]
  /\ IF obj[s] \in Live
       THEN /\ dout' = [dout EXCEPT ![s] = @ + 1] /\ UNCHANGED clear
            /\ last' = Act("DgEmit", s, "-", "relayed")
       ELSE IF "DevEmitAfterCloseInClear" \in Dev
         THEN /\ dout' = [dout EXCEPT ![s] = @ + 1]
              /\ clear' = IF enc[s] THEN clear + 1 ELSE clear
              /\ last' = Act("DgEmit", s, "-", "relayed-after-close")
         ELSE /\ UNCHANGED <<dout, clear>>
              /\ last' = Act("DgEmit", s, "-", "dropped")
  /\ UNCHANGED <<leak, enabled, hup, peerUp, tab, byreq, obj, sock, rl, exp, pend, enc, ackN, errN, closeN, din, ndg, nerr,
                 ghost>>

(* ---- time ------------------------------------------------------------------- *)
IdleTick ==
  /\ hup
  /\ exp' = [s \in Slots |-> exp[s] \/ obj[s] \in Live]
  /\ fresh' = Fn(FALSE)
  /\ UNCHANGED <<aux, enabled, hup, peerUp, tab, byreq, obj, sock, rl, pend, enc, ackN, errN, closeN, din, dout, ndg, nerr,
                 life, why>>
  /\ last' = Act("IdleTick", "-", "-", "ok")

\* cleanupExpired(): the registered sessions that are expired
Expired == {k \in Keys : tab[k] # NoSlot /\ exp[tab[k]]}
Cleanup ==
  /\ hup
  /\ LET X == {tab[k] : k \in Expired}
         \* DevCloseTwiceNotifiesTwice: the scan walks every expired object ever created, not the table
         N == IF "DevCloseTwiceNotifiesTwice" \in Dev THEN {s \in Slots : exp[s] /\ obj[s] # "None"} ELSE X
         keep == "DevIdleCleanupKeepsRecord" \in Dev
         \* DevCloseNotifiesWrongPeer: the CLOSE is addressed with the id but sent to the other peer
         T(s) == IF "DevCloseNotifiesWrongPeer" \in Dev /\ \E y \in Slots : IdOf[y] = IdOf[s] /\ y # s
                   THEN CHOOSE y \in Slots : IdOf[y] = IdOf[s] /\ y # s ELSE s IN
     /\ closeN' = [s \in Slots |-> closeN[s] + Cardinality({x \in N : T(x) = s})]
     /\ tab' = IF keep THEN tab ELSE [k \in Keys |-> IF k \in Expired THEN NoSlot ELSE tab[k]]
     /\ byreq' = IF keep THEN byreq ELSE [s \in Slots |-> byreq[s] /\ s \notin X]
     /\ obj' = [s \in Slots |-> IF s \in X THEN "Closed" ELSE obj[s]]
     /\ sock' = [s \in Slots |-> sock[s] /\ s \notin X]
     /\ rl' = [s \in Slots |-> rl[s] /\ s \notin X]
     /\ life' = [s \in Slots |-> IF life[s] \in Live /\ exp[s] THEN "Closed" ELSE life[s]]
     /\ why' = [s \in Slots |-> IF life[s] \in Live /\ exp[s] THEN "idle" ELSE why[s]]
     /\ UNCHANGED fresh
     /\ last' = Act("Cleanup", "-", "-", IF X = {} THEN "none" ELSE "closed")
  /\ UNCHANGED <<aux, enabled, hup, peerUp, exp, pend, enc, ackN, errN, din, dout, ndg, nerr>>

(* ---- CLOSE frame ------------------------------------------------------------ *)
CloseFromPeer(s) ==
  /\ CanSend(s)
  /\ life' = [life EXCEPT ![s] = IF @ \in Live THEN "Closed" ELSE @]
  /\ why' = [why EXCEPT ![s] = IF life[s] \in Live THEN "peer" ELSE @]
  /\ UNCHANGED fresh
  /\ IF Look(s) = NoSlot
       THEN /\ UNCHANGED <<tab, byreq, obj, sock, rl, closeN>>
            /\ last' = Act("CloseFromPeer", s, "-", "noop")
       ELSE /\ RemoveAt(s, Look(s))
            \* DevCloseAnsweredWithClose: the peer's CLOSE is echoed back to the owner of the session
            /\ closeN' = IF "DevCloseAnsweredWithClose" \in Dev THEN [closeN EXCEPT ![Look(s)] = @ + 1] ELSE closeN
            /\ last' = Act("CloseFromPeer", s, "-", "ok")
  /\ UNCHANGED <<aux, enabled, hup, peerUp, exp, pend, enc, ackN, errN, din, dout, ndg, nerr>>

(* ---- Handler.Close ---------------------------------------------------------- *)
HandlerClose ==
  /\ hup /\ hup' = FALSE
  /\ LET X == {tab[k] : k \in {k \in Keys : tab[k] # NoSlot}} IN
     /\ tab' = [k \in Keys |-> NoSlot] /\ byreq' = Fn(FALSE)
     /\ obj' = [s \in Slots |-> IF s \in X THEN "Closed" ELSE obj[s]]
     /\ sock' = [s \in Slots |-> sock[s] /\ s \notin X]
     /\ rl' = Fn(FALSE)                                     \* every read loop ends with the handler's context
  /\ life' = [s \in Slots |-> IF life[s] \in Live THEN "Closed" ELSE life[s]]
  /\ why' = [s \in Slots |-> IF life[s] \in Live THEN "handler" ELSE why[s]]
  /\ UNCHANGED fresh
  /\ UNCHANGED <<aux, enabled, peerUp, exp, pend, enc, ackN, errN, closeN, din, dout, ndg, nerr>>
  /\ last' = Act("HandlerClose", "-", "-", "ok")

PeerGone(p) ==
  /\ p \in GoneP /\ peerUp[p] /\ peerUp' = [peerUp EXCEPT ![p] = FALSE]
  /\ UNCHANGED <<aux, enabled, hup, tab, byreq, obj, sock, rl, exp, pend, enc, ackN, errN, closeN, din, dout, ndg, nerr, ghost>>
  /\ last' = Act("PeerGone", p, "-", "ok")

Next ==
  \/ \E s \in Slots : \/ \E m \in Modes : OpenBegin(s, m)
                      \/ OpenAck(s) \/ DgOut(s) \/ DgArrive(s) \/ DgEmit(s) \/ CloseFromPeer(s)
                      \/ \E rep \in BOOLEAN : DgIn(s, rep)
  \/ IdleTick \/ Cleanup \/ HandlerClose
  \/ \E p \in Peers : PeerGone(p)

Spec == Init /\ [][Next]_vars

(* ---- properties --------------------------------------------------------------- *)
TypeOK ==
  /\ obj \in [Slots -> {"None", "Opening", "Open", "Closed"}] /\ tab \in [Keys -> Slots \cup {NoSlot}]
  /\ sock \in [Slots -> BOOLEAN] /\ byreq \in [Slots -> BOOLEAN] /\ ndg <= MaxDg /\ nerr <= MaxErr

\* the counter (= size of the table) is the number of live sessions and never exceeds the maximum
CountMatches ==
  /\ Count = Cardinality({s \in Slots : life[s] \in Live})
  /\ Count <= Max

\* a live session has exactly one record (found under its own key), one index entry, one open socket, an object in
\* the matching state; a session that is not live has none of them
OneRecordOneSocket ==
  /\ \A s \in Slots :
       /\ (life[s] \in Live) = (Look(s) = s)
       /\ (life[s] \in Live) = byreq[s]
       /\ (life[s] \in Live) = sock[s]
       /\ (life[s] \in Live) = (obj[s] \in Live)
       /\ (life[s] = "Open") = (obj[s] = "Open")
       /\ rl[s] => sock[s]
  /\ leak = 0

\* every history that ends with all sessions closed / expired leaves the handler empty
QuiescentEmpty ==
  (\A s \in Slots : life[s] \notin Live) =>
     /\ Count = 0 /\ \A s \in Slots : ~byreq[s] /\ ~sock[s] /\ ~rl[s] /\ obj[s] \in {"None", "Closed"}

\* a CLOSE notification is sent exactly for an idle expiry, once, to the owner (closeN is counted per (peer, id))
CloseNotifyOnce ==
  \A s \in Slots : closeN[s] = (IF why[s] = "idle" THEN 1 ELSE 0)

\* an open is answered by an ACK or an ERR; at most one ACK per session
OpenAnswered ==
  \A s \in Slots : ackN[s] <= 1 /\ (ackN[s] = 1 => life[s] # "None")

\* no datagram is relayed (either direction) for a session that is closed or unknown
NoRelayUnlessLive ==
  [][\A s \in Slots : (din'[s] > din[s] \/ dout'[s] > dout[s]) => life[s] \in Live]_vars

\* traffic keeps a session alive: a session that relayed a datagram (or was opened) since time last passed is not expired
FreshNotExpired == \A s \in Slots : fresh[s] /\ life[s] \in Live => ~exp[s]

\* a datagram relayed towards the peer is always encrypted under the session's key
NoClearText == clear = 0

\* a datagram is accounted to the session it was addressed to / whose socket it reached
ReplyToRequester ==
  [][\A s \in Slots : (last'.act \in {"DgIn", "DgOut", "DgEmit"} /\ last'.s = s)
        => \A x \in Slots \ {s} : din'[x] = din[x] /\ dout'[x] = dout[x]]_vars

State == [enabled |-> enabled, hup |-> hup, peerUp |-> peerUp, look |-> [s \in Slots |-> Look(s)], byreq |-> byreq,
          obj |-> obj, sock |-> sock, nsock |-> Cardinality({s \in Slots : sock[s]}) + leak, rl |-> rl, exp |-> exp, pend |-> pend, enc |-> enc, count |-> Count,
          ackN |-> ackN, errN |-> errN, closeN |-> closeN, din |-> din, dout |-> dout, ndg |-> ndg, nerr |-> nerr,
          life |-> life, why |-> why]
EmitEdge == Emit => PrintT("EDGE " \o ToJson([s |-> State, a |-> last', t |-> State']))
=============================================================================
