------------------------------- MODULE Relay -------------------------------
(***************************************************************************)
(* Tunnels through a mesh of agents (internal/agent relay paths,           *)
(* relay_table.go, stream.Manager, exit/forward/udp/icmp handlers).        *)
(* Properties C16 (isolation, byte exactness) and C17 (bookkeeping         *)
(* returns to empty).                                                      *)
(*                                                                         *)
(* Agents are joined by connections (Links: <<dialer, acceptor>>).  Each   *)
(* side of a connection allocates stream ids from its own allocator (odd   *)
(* for the dialer, even for the acceptor, step 2), so the same numeric id  *)
(* is in use on many connections at once.  A tunnel t runs along           *)
(* PathOf(t) = <<ingress, transit.., exit>>:                               *)
(*   ingress : table of own streams  (stream.Manager.streams; the UDP and  *)
(*             ICMP ingress maps), pending opens keyed by request id       *)
(*   transit : relay table with an upstream and a downstream index         *)
(*             (agent.relayTable, one per kind tcp/udp/icmp)               *)
(*   exit    : connection records + connection counter (exit.Handler,      *)
(*             forward.Handler; associations / sessions for udp / icmp)    *)
(* One action = processing of one frame by one agent (the body of          *)
(* Agent.processFrame) or one call of the application at an endpoint.      *)
(* Frames travel in per-direction FIFO queues and carry the ghost tunnel   *)
(* id of the endpoint that produced them.                                  *)
(*                                                                         *)
(* Keying = "peer+sid" is the ideal design: every table is keyed by        *)
(* (kind, peer connection, stream id).  Keying = "sid" is the deviation    *)
(* DevKeyedByStreamIdOnly: the tables named in SidSites are keyed by       *)
(* (kind, stream id) only and the peer is compared after the lookup the    *)
(* way the code does it (relayTable.LookupBoth / PopMatchingPeer /         *)
(* PopDownstreamFromPeer compare the peer; stream.Manager and the exit     *)
(* handlers do not).  With the bare id, inserts overwrite and deletes      *)
(* remove slots of other tunnels; an overwritten exit connection lives on  *)
(* as a zombie (its goroutine still owns the target connection).           *)
(*                                                                         *)
(* Behaviour that does not depend on colliding ids is part of the model as  *)
(* well, each with a named deviation:                                      *)
(*  - Split = TRUE: a transit handles a data frame in two steps            *)
(*    (RelayLookup under the table lock, RelaySend after it), so closes    *)
(*    and opens of other frame loops interleave (DevRelayEntryRecycled);   *)
(*  - closes that originate at the exit (TargetClose, ExitExpire) with     *)
(*    Burn-skewed allocators, i.e. different ids on the two hops           *)
(*    (DevCloseUpstreamWrongId);                                           *)
(*  - back-pressure: BufCap > 0 bounds an ingress stream's read buffer,    *)
(*    a full buffer blocks the frame loop, nothing is ever dropped         *)
(*    (DevPushTimeoutDrop);                                                *)
(*  - damaged data frames (Corrupt) end the tunnel and release its record  *)
(*    (DevDataErrorKeepsRecord); failing opens release the counter         *)
(*    (DevCounterLeakOnOpenFail);                                          *)
(*  - Ops "reconn": a link failure in two phases (LinkDown, then each      *)
(*    end's DiscCleanup) with a Reconnect in between                       *)
(*    (DevSkipCleanupIfReconnected, invariant NoStaleEntry).               *)
(*                                                                         *)
(* Bound: every agent plays one role per topology; one connection per      *)
(* pair, at most one reconnect per link and no new tunnel over a           *)
(* re-established connection; without "reconn" a link failure is one       *)
(* atomic step (both queues lost, both ends run their clean-up).           *)
(***************************************************************************)
EXTENDS Naturals, Sequences, FiniteSets, TLC, Json

CONSTANTS Topo,       \* "star" | "vee" | "fanin" | "fork" | "chain"
          NTun,       \* number of tunnels (1..3)
          Kind1, Kind2, Kind3,   \* kind of tunnel i: "tcp" | "udp" | "icmp"
          Keying,     \* "peer+sid" (ideal) | "sid" (DevKeyedByStreamIdOnly)
          SidSites,   \* subset of {"ingress","relay","exit"}: tables keyed by the bare id when Keying = "sid"
          Dev,        \* further deviations
          Ops,        \* optional operations: subset of {"fail","rev","reset","disc","cancel","tclose","xexpire","corrupt","reconn"}
          MaxF, MaxR, \* data frames per tunnel: ingress -> exit, exit -> ingress
          Split,      \* TRUE: a transit handles a data frame in two steps (RelayLookup, RelaySend), as the code does:
                      \*       the entry is looked up under the table lock and used after the lock is released
          BufCap,     \* capacity of an ingress stream's read buffer in frames (0 = the application reads at once)
          Burn,       \* sides "A>T" whose allocator has already handed out one id (ids of the two hops of a tunnel differ)
          Emit        \* TRUE: print every transition as JSON

DevNames == {"DevUdpIcmpRelayNotCleaned",     \* cleanupRelaysForPeer handles only the tcp table
             "DevNoReverseIndexDelete",       \* close/reset remove only the index that matched
             "DevCounterLeakOnOpenFail",      \* counter taken before the dial, not returned on failure
             "DevDataNoPeerCheck",            \* relay data routed by id without comparing the peer
             "DevRelayEntryRecycled",         \* a removed relay entry is re-initialised for the next tunnel while a handler still uses it
             "DevPushTimeoutDrop",            \* a full read buffer makes the ingress drop the frame instead of blocking the sender
             "DevCloseUpstreamWrongId",       \* udp/icmp close from the exit side forwarded upstream under the downstream id
             "DevSkipCleanupIfReconnected",   \* disconnect clean-up skipped when the peer is already connected again
             "DevDataErrorKeepsRecord"}       \* a data frame that fails authentication closes the socket but keeps the record
ASSUME Dev \subseteq DevNames /\ Keying \in {"peer+sid", "sid"}
ASSUME SidSites \subseteq {"ingress", "relay", "exit"}

Tunnels == 1..NTun
KindOf(t) == CASE t = 1 -> Kind1 [] t = 2 -> Kind2 [] OTHER -> Kind3

Links ==
  CASE Topo = "star"  -> {<<"A","X">>, <<"A","Y">>}
    [] Topo = "fanin" -> {<<"A","T">>, <<"B","T">>, <<"T","X">>}
    [] Topo = "fork"  -> {<<"A","T">>, <<"B","T">>, <<"T","X">>, <<"T","Y">>}
    [] Topo = "chain" -> {<<"A","T">>, <<"T","X">>}
    [] Topo = "vee"   -> {<<"A","X">>, <<"B","X">>}
PathOf(t) ==
  CASE Topo = "star"  -> (CASE t = 2 -> <<"A","Y">> [] OTHER -> <<"A","X">>)
    [] Topo = "fanin" -> (CASE t = 2 -> <<"B","T","X">> [] OTHER -> <<"A","T","X">>)
    [] Topo = "fork"  -> (CASE t = 1 -> <<"A","T","X">> [] t = 2 -> <<"B","T","Y">> [] OTHER -> <<"A","T","Y">>)
    [] Topo = "chain" -> <<"A","T","X">>
    [] Topo = "vee"   -> (CASE t = 2 -> <<"B","X">> [] OTHER -> <<"A","X">>)

Agents == {l[1] : l \in Links} \cup {l[2] : l \in Links}
Sides  == Links \cup {<<l[2], l[1]>> : l \in Links}     \* <<from, to>>
LinkOf(a, b) == IF <<a, b>> \in Links THEN <<a, b>> ELSE <<b, a>>
IsDialer(a, b) == <<a, b>> \in Links
Ingress(t) == PathOf(t)[1]
ExitOf(t)  == PathOf(t)[Len(PathOf(t))]
Pos(a, t)  == CHOOSE i \in 1..Len(PathOf(t)) : PathOf(t)[i] = a
OnPath(a, t) == \E i \in 1..Len(PathOf(t)) : PathOf(t)[i] = a
NextHop(a, t) == PathOf(t)[Pos(a, t) + 1]
FirstHop(t) == PathOf(t)[2]
LastPeer(t) == PathOf(t)[Len(PathOf(t)) - 1]           \* the exit's peer for t

(* ---- tables: sets of [k |-> key, v |-> value], at most one record per key *)
Has(tb, k) == \E r \in tb : r.k = k
Get(tb, k) == (CHOOSE r \in tb : r.k = k).v
Put(tb, k, v) == {r \in tb : r.k # k} \cup {[k |-> k, v |-> v]}
Del(tb, k) == {r \in tb : r.k # k}

\* key of (kind, peer, sid) in a table of the given site
K(site, kind, peer, sid) ==
  IF Keying = "sid" /\ site \in SidSites THEN <<kind, "*", sid>> ELSE <<kind, peer, sid>>

VARIABLES linkUp,   \* [Links -> BOOLEAN]
          alloc,    \* [Sides -> Nat]      next stream id of <<a,b>>[1] on its connection to <<a,b>>[2]
          net,      \* [Sides -> Seq(frame)]
          rup, rdn, \* [Agents -> table]   relay indices: key -> entry [tun, kind, upeer, usid, dpeer, dsid]
          ist,      \* [Agents -> table]   ingress stream table: key -> tunnel
          pend,     \* set of tunnels with a pending open at their ingress (keyed by request id)
          isid,     \* [Tunnels -> Nat]    stream id of the tunnel at its ingress (0 = none)
          xc,       \* [Agents -> table]   exit connection records: key -> [tun, peer, sid]
          zomb,     \* [Agents -> set of [tun, kind, peer, sid]]  overwritten, still running exit connections
          xcnt,     \* [Agents -> Nat]     exit connection counter
          ti, tx,   \* [Tunnels -> state]  ghost: state of the two endpoints
          nf, nr,   \* [Tunnels -> Nat]    ghost: data frames produced by the ingress / by the target
          rcvI, rcvX, \* [Tunnels -> Seq(<<tun, n>>)]  ghost: data handed to the ingress application / the target
          viol,     \* ghost: set of isolation violations seen so far
          hold,     \* [Sides -> NoHold | [tun, e, up]]  entry a transit's frame loop has looked up for the head frame
          freed,    \* [Agents -> set of entries]  removed entries waiting to be re-used (DevRelayEntryRecycled only)
          ibuf,     \* [Tunnels -> Nat]  frames in the ingress stream's read buffer, not yet read by the application
          gen,      \* [Links -> Nat]    generation of the connection (number of reconnects)
          dirty,    \* set of <<agent, peer>>: connection lost, disconnect clean-up not yet run (Ops "reconn")
          last      \* observation of the last step (hidden by VIEW)

ext == <<hold, freed, ibuf, gen, dirty>>
vars == <<linkUp, alloc, net, rup, rdn, ist, pend, isid, xc, zomb, xcnt, ti, tx, nf, nr, rcvI, rcvX, viol, ext, last>>
view == <<linkUp, alloc, net, rup, rdn, ist, pend, isid, xc, zomb, xcnt, ti, tx, nf, nr, rcvI, rcvX, viol, ext>>
viewCore == <<linkUp, alloc, net, rup, rdn, ist, pend, isid, xc, zomb, xcnt, ti, tx, nf, nr, rcvI, rcvX, ext>>
NoHold == [tun |-> 0]

Init ==
  /\ linkUp = [l \in Links |-> TRUE]
  /\ alloc = [s \in Sides |-> (IF IsDialer(s[1], s[2]) THEN 1 ELSE 2) + (IF (s[1] \o ">" \o s[2]) \in Burn THEN 2 ELSE 0)]
  /\ net = [s \in Sides |-> <<>>]
  /\ rup = [a \in Agents |-> {}] /\ rdn = [a \in Agents |-> {}]
  /\ ist = [a \in Agents |-> {}]
  /\ pend = {}
  /\ isid = [t \in Tunnels |-> 0]
  /\ xc = [a \in Agents |-> {}] /\ zomb = [a \in Agents |-> {}]
  /\ xcnt = [a \in Agents |-> 0]
  /\ ti = [t \in Tunnels |-> "idle"] /\ tx = [t \in Tunnels |-> "none"]
  /\ nf = [t \in Tunnels |-> 0] /\ nr = [t \in Tunnels |-> 0]
  /\ rcvI = [t \in Tunnels |-> <<>>] /\ rcvX = [t \in Tunnels |-> <<>>]
  /\ viol = {}
  /\ hold = [s \in Sides |-> NoHold] /\ freed = [a \in Agents |-> {}]
  /\ ibuf = [t \in Tunnels |-> 0]
  /\ gen = [l \in Links |-> 0] /\ dirty = {}
  /\ last = [act |-> "Init"]

Up(a, b) == linkUp[LinkOf(a, b)]
\* a connection of the tunnel's path has failed (it may have been replaced by a new one since)
Broken(t) == \E i \in 1..(Len(PathOf(t)) - 1) :
                ~Up(PathOf(t)[i], PathOf(t)[i + 1]) \/ gen[LinkOf(PathOf(t)[i], PathOf(t)[i + 1])] > 0

\* bad = the payload was damaged / forged on the way (it will not authenticate at the endpoint)
Frame(ty, kind, sid, tun, src, n) == [ty |-> ty, kind |-> kind, sid |-> sid, tun |-> tun, src |-> src, n |-> n, bad |-> FALSE]

Tail_(q, p, a) == [q EXCEPT ![<<p, a>>] = Tail(@)]     \* the head frame of p -> a is consumed

\* queue update: a list of <<from, to, frame>> sends appended in order; sends on a dead link are lost
RECURSIVE SendAll(_, _)
SendAll(q, sends) ==
  IF sends = <<>> THEN q
  ELSE LET s == Head(sends)
           q2 == IF Up(s[1], s[2]) THEN [q EXCEPT ![<<s[1], s[2]>>] = Append(@, s[3])] ELSE q
       IN SendAll(q2, Tail(sends))

(* ---------------------------------------------------------------------- *)
(* application at the ingress                                             *)
(* ---------------------------------------------------------------------- *)
\* Agent.Dial / DialForward / CreateUDPAssociation+first datagram / OpenICMPSession up to the frame write
IngressOpen(t) ==
  LET a == Ingress(t)  nh == FirstHop(t)  sid == alloc[<<a, nh>>] IN
  /\ ti[t] = "idle" /\ Up(a, nh)
  /\ \A i \in 1..(Len(PathOf(t)) - 1) : gen[LinkOf(PathOf(t)[i], PathOf(t)[i + 1])] = 0
       \* bound: no new tunnel over a re-established connection (its ids start again; connection generations in the
       \* keys would be needed to tell them from left-overs)
  /\ alloc' = [alloc EXCEPT ![<<a, nh>>] = @ + 2]
  /\ isid' = [isid EXCEPT ![t] = sid]
  /\ pend' = pend \cup {t}
  /\ ti' = [ti EXCEPT ![t] = "opening"]
  /\ net' = SendAll(net, << <<a, nh, Frame("OPEN", KindOf(t), sid, t, "i", 0)>> >>)
  /\ UNCHANGED <<linkUp, rup, rdn, ist, xc, zomb, xcnt, tx, nf, nr, rcvI, rcvX, viol>>
  /\ last' = [act |-> "IngressOpen", t |-> t, a |-> a, sid |-> sid]

\* the pending open is given up (context cancelled / timed out): no frame is sent
IngressAbort(t) ==
  /\ ti[t] = "opening" /\ t \in pend
  /\ ("cancel" \in Ops \/ ~Up(Ingress(t), FirstHop(t)))
  /\ pend' = pend \ {t}
  /\ ti' = [ti EXCEPT ![t] = "failed"]
  /\ UNCHANGED <<linkUp, alloc, net, rup, rdn, ist, isid, xc, zomb, xcnt, tx, nf, nr, rcvI, rcvX, viol>>
  /\ last' = [act |-> "IngressAbort", t |-> t, a |-> Ingress(t)]

\* meshConn.Write: needs only the stream object, not the table
IngressSend(t) ==
  LET a == Ingress(t)  nh == FirstHop(t) IN
  /\ ti[t] = "open" /\ nf[t] < MaxF /\ Up(a, nh)
  /\ nf' = [nf EXCEPT ![t] = @ + 1]
  /\ net' = SendAll(net, << <<a, nh, Frame("DATA", KindOf(t), isid[t], t, "i", nf[t] + 1)>> >>)
  /\ UNCHANGED <<linkUp, alloc, rup, rdn, ist, pend, isid, xc, zomb, xcnt, ti, tx, nr, rcvI, rcvX, viol>>
  /\ last' = [act |-> "IngressSend", t |-> t, a |-> a, n |-> nf[t] + 1]

\* meshConn.Close (ty = "CLOSE"), or an abort by the ingress peer (ty = "RESET"):
\* frame to the next hop, then RemoveStream(id) - which removes whatever stream the table holds under that key
IngressEnd(t, ty) ==
  LET a == Ingress(t)  nh == FirstHop(t)  k == K("ingress", KindOf(t), nh, isid[t])
      victim == IF Has(ist[a], k) THEN Get(ist[a], k) ELSE 0 IN
  /\ ti[t] \in {"open", "rclosed"}
  /\ ty = "RESET" => ("reset" \in Ops /\ KindOf(t) = "tcp")
  /\ net' = SendAll(net, << <<a, nh, Frame(ty, KindOf(t), isid[t], t, "i", 0)>> >>)
  /\ ist' = [ist EXCEPT ![a] = Del(@, k)]
  /\ ti' = [u \in Tunnels |-> IF u = t THEN "closed"
                              ELSE IF u = victim /\ ti[u] = "open" THEN "rclosed" ELSE ti[u]]
  /\ viol' = viol \cup (IF victim \notin {0, t} THEN {"clobber:ingress"} ELSE {})
  /\ UNCHANGED <<linkUp, alloc, rup, rdn, pend, isid, xc, zomb, xcnt, tx, nf, nr, rcvI, rcvX>>
  /\ last' = [act |-> "IngressEnd", t |-> t, a |-> a, ty |-> ty]

(* ---------------------------------------------------------------------- *)
(* target side of the exit (the exit's read loop on the target connection) *)
(* ---------------------------------------------------------------------- *)
ExitRec(t) == [tun |-> t, kind |-> KindOf(t), peer |-> LastPeer(t), sid |-> 0]   \* shape only

\* closeConnection(sid, ...) run by the connection object of tunnel t (record or zombie):
\* removes whatever record the table holds under its key
XClose(x, t, peer, sid, eof) ==
  LET k == K("exit", KindOf(t), peer, sid)
      hit == Has(xc[x], k)
      victim == IF hit THEN Get(xc[x], k).tun ELSE 0 IN
  /\ xc' = [xc EXCEPT ![x] = Del(@, k)]
  /\ zomb' = [zomb EXCEPT ![x] = {z \in @ : z.tun # t}]
  /\ xcnt' = [xcnt EXCEPT ![x] = IF hit /\ @ > 0 THEN @ - 1 ELSE @]
  /\ tx' = [u \in Tunnels |-> IF u = t \/ (u = victim /\ tx[u] = "open") THEN "closed" ELSE tx[u]]
  /\ viol' = viol \cup (IF victim \notin {0, t} THEN {"clobber:exit"} ELSE {})
  /\ net' = SendAll(net, (IF eof THEN << <<x, peer, Frame("DATA", KindOf(t), sid, t, "x", 0)>> >> ELSE <<>>)
                         \o (IF hit THEN << <<x, peer, Frame("CLOSE", KindOf(t), sid, t, "x", 0)>> >> ELSE <<>>))

\* the record (or zombie) of tunnel t at its exit: [peer, sid]
XConnOf(x, t) ==
  {[peer |-> r.v.peer, sid |-> r.v.sid] : r \in {q \in xc[x] : q.v.tun = t}}
  \cup {[peer |-> z.peer, sid |-> z.sid] : z \in {q \in zomb[x] : q.tun = t}}

\* the target sends data: read loop encrypts and writes to (RemoteID, StreamID) of its own connection object
TargetSend(t) ==
  LET x == ExitOf(t) IN
  /\ "rev" \in Ops /\ tx[t] = "open" /\ nr[t] < MaxR
  /\ \E c \in XConnOf(x, t) :
       IF Up(x, c.peer)
       THEN /\ nr' = [nr EXCEPT ![t] = @ + 1]
            /\ net' = SendAll(net, << <<x, c.peer, Frame("DATA", KindOf(t), c.sid, t, "x", nr[t] + 1)>> >>)
            /\ UNCHANGED <<xc, zomb, xcnt, tx, viol>>
       ELSE \* the write fails: the read loop ends and closes "its" connection
            /\ nr' = [nr EXCEPT ![t] = @ + 1]
            /\ XClose(x, t, c.peer, c.sid, FALSE)
  /\ UNCHANGED <<linkUp, alloc, rup, rdn, ist, pend, isid, ti, nf, rcvI, rcvX>>
  /\ last' = [act |-> "TargetSend", t |-> t, a |-> x, n |-> nr[t] + 1]

\* the target closes (EOF): FIN_WRITE data frame, then closeConnection
TargetClose(t) ==
  LET x == ExitOf(t) IN
  /\ "tclose" \in Ops /\ tx[t] = "open"
  /\ \E c \in XConnOf(x, t) : XClose(x, t, c.peer, c.sid, TRUE)
  /\ UNCHANGED <<linkUp, alloc, rup, rdn, ist, pend, isid, ti, nf, nr, rcvI, rcvX>>
  /\ last' = [act |-> "TargetClose", t |-> t, a |-> x]

(* ---------------------------------------------------------------------- *)
(* processing of one frame: agent a takes the head of the queue from p     *)
(* ---------------------------------------------------------------------- *)
\* relay entry deletion as the code does it: both index slots named by the entry
DelEntryUp(tb, a, e) == Del(tb, K("relay", e.kind, e.upeer, e.usid))
DelEntryDn(tb, a, e) == Del(tb, K("relay", e.kind, e.dpeer, e.dsid))
SlotIs(tb, k, e) == Has(tb, k) /\ Get(tb, k) = e
\* deleting entry e removes a slot that holds another entry?
ClobbersOnDelete(a, e) ==
  \/ (Has(rup[a], K("relay", e.kind, e.upeer, e.usid)) /\ Get(rup[a], K("relay", e.kind, e.upeer, e.usid)) # e)
  \/ (Has(rdn[a], K("relay", e.kind, e.dpeer, e.dsid)) /\ Get(rdn[a], K("relay", e.kind, e.dpeer, e.dsid)) # e)

\* the frame could not be attributed to anything: dropped.  It is a starvation when the endpoint it was meant for
\* is still waiting for it.
DropViol(f) ==
  IF Broken(f.tun) THEN {}
  ELSE IF f.ty \in {"OPEN"} THEN {}
  ELSE IF f.ty \in {"ACK", "ERR"} THEN (IF ti[f.tun] = "opening" THEN {"starve"} ELSE {})
  ELSE IF f.ty = "DATA" THEN
         (IF f.src = "i" /\ tx[f.tun] = "open" THEN {"starve"}
          ELSE IF f.src = "x" /\ ti[f.tun] = "open" /\ f.n > 0 THEN {"starve"} ELSE {})
  ELSE \* CLOSE / RESET
         (IF f.src = "i" /\ tx[f.tun] = "open" THEN {"lostclose"}
          ELSE IF f.src = "x" /\ ti[f.tun] = "open" THEN {"lostclose"} ELSE {})

RecvOpen(a, p, f) ==
  LET t == f.tun IN
  IF a = ExitOf(t)
  THEN \* exit: HandleStreamOpen; the dial succeeds or fails
       \E ok \in (IF "fail" \in Ops THEN {TRUE, FALSE} ELSE {TRUE}) :
         LET k == K("exit", f.kind, p, f.sid)
             old == IF Has(xc[a], k) THEN {Get(xc[a], k)} ELSE {} IN
         /\ IF ok
            THEN /\ xc' = [xc EXCEPT ![a] = Put(@, k, [tun |-> t, peer |-> p, sid |-> f.sid])]
                 /\ zomb' = [zomb EXCEPT ![a] = @ \cup {[tun |-> o.tun, kind |-> f.kind, peer |-> o.peer, sid |-> o.sid] : o \in old}]
                 /\ xcnt' = [xcnt EXCEPT ![a] = @ + 1]
                 /\ tx' = [tx EXCEPT ![t] = "open"]
                 /\ viol' = viol \cup (IF old # {} THEN {"clobber:exit"} ELSE {})
                 /\ net' = SendAll(Tail_(net, p, a), << <<a, p, Frame("ACK", f.kind, f.sid, t, "x", 0)>> >>)
            ELSE /\ tx' = [tx EXCEPT ![t] = "failed"]
                 /\ xcnt' = [xcnt EXCEPT ![a] = IF "DevCounterLeakOnOpenFail" \in Dev THEN @ + 1 ELSE @]
                 /\ net' = SendAll(Tail_(net, p, a), << <<a, p, Frame("ERR", f.kind, f.sid, t, "x", 0)>> >>)
                 /\ UNCHANGED <<xc, zomb, viol>>
         /\ UNCHANGED <<alloc, rup, rdn, ist, pend, ti, rcvI, rcvX>>
         /\ last' = [act |-> "Recv", a |-> a, p |-> p, ty |-> "OPEN", sid |-> f.sid, t |-> t, res |-> IF ok THEN "exit-ok" ELSE "exit-fail"]
  ELSE \* transit: handleStreamOpen relay branch
       LET nh == NextHop(a, t) IN
       IF ~Up(a, nh)
       THEN /\ net' = SendAll(Tail_(net, p, a), << <<a, p, Frame("ERR", f.kind, f.sid, t, "x", 0)>> >>)
            /\ UNCHANGED <<alloc, rup, rdn, ist, pend, xc, zomb, xcnt, ti, tx, rcvI, rcvX, viol>>
            /\ last' = [act |-> "Recv", a |-> a, p |-> p, ty |-> "OPEN", sid |-> f.sid, t |-> t, res |-> "no-next-hop"]
       ELSE LET ds == alloc[<<a, nh>>]
                e == [tun |-> t, kind |-> f.kind, upeer |-> p, usid |-> f.sid, dpeer |-> nh, dsid |-> ds,
                      ug |-> gen[LinkOf(a, p)], dg |-> gen[LinkOf(a, nh)]]
                ku == K("relay", f.kind, p, f.sid)
                kd == K("relay", f.kind, nh, ds) IN
            /\ alloc' = [alloc EXCEPT ![<<a, nh>>] = @ + 2]
            /\ rup' = [rup EXCEPT ![a] = Put(@, ku, e)]
            /\ rdn' = [rdn EXCEPT ![a] = Put(@, kd, e)]
            /\ viol' = viol \cup (IF Has(rup[a], ku) \/ Has(rdn[a], kd) THEN {"clobber:relay"} ELSE {})
            /\ net' = SendAll(Tail_(net, p, a), << <<a, nh, Frame("OPEN", f.kind, ds, t, "i", 0)>> >>)
            /\ UNCHANGED <<ist, pend, xc, zomb, xcnt, ti, tx, rcvI, rcvX>>
            /\ last' = [act |-> "Recv", a |-> a, p |-> p, ty |-> "OPEN", sid |-> f.sid, t |-> t, res |-> "relay"]

\* ACK / ERR: downstream index with peer comparison, else the ingress' pending request (by request id)
RecvAckErr(a, p, f) ==
  LET t == f.tun  kd == K("relay", f.kind, p, f.sid)
      hit == Has(rdn[a], kd) /\ Get(rdn[a], kd).dpeer = p IN
  IF hit
  THEN LET e == Get(rdn[a], kd) IN
       /\ net' = SendAll(Tail_(net, p, a), << <<a, e.upeer, Frame(f.ty, f.kind, e.usid, t, f.src, 0)>> >>)
       /\ IF f.ty = "ERR"
          THEN /\ rup' = [rup EXCEPT ![a] = DelEntryUp(@, a, e)]
               /\ rdn' = [rdn EXCEPT ![a] = DelEntryDn(@, a, e)]
               /\ viol' = viol \cup (IF e.tun # t THEN {"misroute:relay"} ELSE {})
                               \cup (IF ClobbersOnDelete(a, e) THEN {"clobber:relay"} ELSE {})
          ELSE /\ UNCHANGED <<rup, rdn>>
               /\ viol' = viol \cup (IF e.tun # t THEN {"misroute:relay"} ELSE {})
       /\ UNCHANGED <<alloc, ist, pend, xc, zomb, xcnt, ti, tx, rcvI, rcvX>>
       /\ last' = [act |-> "Recv", a |-> a, p |-> p, ty |-> f.ty, sid |-> f.sid, t |-> t, res |-> "relay"]
  ELSE IF a = Ingress(t) /\ t \in pend
  THEN /\ pend' = pend \ {t}
       /\ IF f.ty = "ACK"
          THEN LET k == K("ingress", f.kind, FirstHop(t), isid[t]) IN
               /\ ist' = [ist EXCEPT ![a] = Put(@, k, t)]
               /\ ti' = [ti EXCEPT ![t] = "open"]
               /\ viol' = viol \cup (IF Has(ist[a], k) THEN {"clobber:ingress"} ELSE {})
          ELSE /\ ti' = [ti EXCEPT ![t] = "failed"]
               /\ UNCHANGED <<ist, viol>>
       /\ net' = Tail_(net, p, a)
       /\ UNCHANGED <<alloc, rup, rdn, xc, zomb, xcnt, tx, rcvI, rcvX>>
       /\ last' = [act |-> "Recv", a |-> a, p |-> p, ty |-> f.ty, sid |-> f.sid, t |-> t, res |-> "ingress"]
  ELSE /\ net' = Tail_(net, p, a)
       /\ viol' = viol \cup DropViol(f)
       /\ UNCHANGED <<alloc, rup, rdn, ist, pend, xc, zomb, xcnt, ti, tx, rcvI, rcvX>>
       /\ last' = [act |-> "Recv", a |-> a, p |-> p, ty |-> f.ty, sid |-> f.sid, t |-> t, res |-> "drop"]

\* relay lookup of a data frame (relayTable.LookupBoth + peer comparison)
\* DevDataNoPeerCheck: the upstream index is consulted by id alone and the peer is not compared
RelayUpSet(a, p, f) ==
  IF "DevDataNoPeerCheck" \in Dev
  THEN {r \in rup[a] : r.v.kind = f.kind /\ r.v.usid = f.sid}
  ELSE {r \in rup[a] : r.k = K("relay", f.kind, p, f.sid) /\ r.v.upeer = p}
RelayDnHit(a, p, f) ==
  Has(rdn[a], K("relay", f.kind, p, f.sid)) /\ Get(rdn[a], K("relay", f.kind, p, f.sid)).dpeer = p
RelayHit(a, p, f) == RelayUpSet(a, p, f) # {} \/ RelayDnHit(a, p, f)
\* the data frame would go to an ingress stream whose read buffer is full: the frame loop blocks (back-pressure)
IngressFull(a, p, f) ==
  /\ BufCap > 0 /\ f.ty = "DATA" /\ f.n > 0 /\ ~RelayHit(a, p, f)
  /\ ~Has(xc[a], K("exit", f.kind, p, f.sid))
  /\ Has(ist[a], K("ingress", f.kind, p, f.sid))
  /\ ibuf[Get(ist[a], K("ingress", f.kind, p, f.sid))] >= BufCap

\* DATA: LookupBoth + peer comparison, then the exit handler (by id), then the stream manager (by id)
RecvData(a, p, f) ==
  LET t == f.tun
      kr == K("relay", f.kind, p, f.sid)
      upSet == RelayUpSet(a, p, f)
      upHit == upSet # {}
      dnHit == RelayDnHit(a, p, f)
      kx == K("exit", f.kind, p, f.sid)
      ki == K("ingress", f.kind, p, f.sid) IN
  IF upHit \/ dnHit
  THEN LET e == IF upHit THEN (CHOOSE r \in upSet : TRUE).v ELSE Get(rdn[a], kr)
           to == IF upHit THEN e.dpeer ELSE e.upeer
           sid == IF upHit THEN e.dsid ELSE e.usid IN
       /\ net' = SendAll(Tail_(net, p, a), << <<a, to, [Frame("DATA", f.kind, sid, t, f.src, f.n) EXCEPT !.bad = f.bad]>> >>)
       /\ viol' = viol \cup (IF e.tun # t \/ (upHit /\ f.src # "i") \/ (~upHit /\ f.src # "x") THEN {"misroute:relay"} ELSE {})
       /\ UNCHANGED <<alloc, rup, rdn, ist, pend, xc, zomb, xcnt, ti, tx, rcvI, rcvX>>
       /\ last' = [act |-> "Recv", a |-> a, p |-> p, ty |-> "DATA", sid |-> f.sid, t |-> t, res |-> IF upHit THEN "relay-down" ELSE "relay-up"]
  ELSE IF Has(xc[a], kx)
  THEN LET r == Get(xc[a], kx) IN
       IF r.tun = t /\ f.src = "i" /\ f.bad /\ "DevDataErrorKeepsRecord" \in Dev
       THEN \* the socket is closed, the record and its counter unit stay
            /\ tx' = [tx EXCEPT ![t] = "closed"]
            /\ net' = Tail_(net, p, a)
            /\ UNCHANGED <<alloc, rup, rdn, ist, pend, xc, zomb, xcnt, ti, rcvI, rcvX, viol>>
            /\ last' = [act |-> "Recv", a |-> a, p |-> p, ty |-> "DATA", sid |-> f.sid, t |-> t, res |-> "exit-bad-kept"]
       ELSE IF r.tun = t /\ f.src = "i" /\ ~f.bad
       THEN /\ rcvX' = [rcvX EXCEPT ![t] = IF f.n > 0 THEN Append(@, <<t, f.n>>) ELSE @]
            /\ net' = Tail_(net, p, a)
            /\ UNCHANGED <<alloc, rup, rdn, ist, pend, xc, zomb, xcnt, ti, tx, rcvI, viol>>
            /\ last' = [act |-> "Recv", a |-> a, p |-> p, ty |-> "DATA", sid |-> f.sid, t |-> t, res |-> "exit"]
       ELSE \* wrong session: decryption fails, closeConnection(sid, p) removes the record found
            /\ xc' = [xc EXCEPT ![a] = Del(@, kx)]
            /\ xcnt' = [xcnt EXCEPT ![a] = IF @ > 0 THEN @ - 1 ELSE @]
            /\ tx' = [tx EXCEPT ![r.tun] = IF @ = "open" THEN "closed" ELSE @]
            /\ viol' = viol \cup (IF r.tun = t /\ f.bad THEN {} ELSE {"misroute:exit"})   \* (a damaged frame of the tunnel itself)
            /\ net' = SendAll(Tail_(net, p, a), << <<a, p, Frame("CLOSE", f.kind, f.sid, r.tun, "x", 0)>> >>)
            /\ UNCHANGED <<alloc, rup, rdn, ist, pend, zomb, ti, rcvI, rcvX>>
            /\ last' = [act |-> "Recv", a |-> a, p |-> p, ty |-> "DATA", sid |-> f.sid, t |-> t, res |-> "exit-wrong"]
  ELSE IF Has(ist[a], ki)
  THEN LET u == Get(ist[a], ki) IN
       /\ rcvI' = [rcvI EXCEPT ![u] = IF f.n > 0 THEN Append(@, <<t, f.n>>) ELSE @]
       /\ viol' = viol \cup (IF u # t \/ f.src # "x" THEN {"misroute:ingress"} ELSE {})
       /\ net' = Tail_(net, p, a)
       /\ UNCHANGED <<alloc, rup, rdn, ist, pend, xc, zomb, xcnt, ti, tx, rcvX>>
       /\ last' = [act |-> "Recv", a |-> a, p |-> p, ty |-> "DATA", sid |-> f.sid, t |-> t, res |-> "ingress"]
  ELSE /\ net' = Tail_(net, p, a)
       /\ viol' = viol \cup DropViol(f)
       /\ UNCHANGED <<alloc, rup, rdn, ist, pend, xc, zomb, xcnt, ti, tx, rcvI, rcvX>>
       /\ last' = [act |-> "Recv", a |-> a, p |-> p, ty |-> "DATA", sid |-> f.sid, t |-> t, res |-> "drop"]

\* CLOSE / RESET: PopMatchingPeer, then the exit handler, then the stream manager
RecvEnd(a, p, f) ==
  LET t == f.tun
      kr == K("relay", f.kind, p, f.sid)
      upHit == Has(rup[a], kr) /\ Get(rup[a], kr).upeer = p
      dnHit == Has(rdn[a], kr) /\ Get(rdn[a], kr).dpeer = p
      kx == K("exit", f.kind, p, f.sid)
      ki == K("ingress", f.kind, p, f.sid) IN
  IF upHit \/ dnHit
  THEN LET e == IF upHit THEN Get(rup[a], kr) ELSE Get(rdn[a], kr)
           to == IF upHit THEN e.dpeer ELSE e.upeer
           sid == IF upHit \/ ("DevCloseUpstreamWrongId" \in Dev /\ f.kind # "tcp") THEN e.dsid ELSE e.usid
           half == "DevNoReverseIndexDelete" \in Dev IN
       /\ rup' = [rup EXCEPT ![a] = IF half /\ ~upHit THEN @ ELSE DelEntryUp(@, a, e)]
       /\ rdn' = [rdn EXCEPT ![a] = IF half /\ upHit THEN @ ELSE DelEntryDn(@, a, e)]
       /\ net' = SendAll(Tail_(net, p, a), << <<a, to, Frame(f.ty, f.kind, sid, t, f.src, 0)>> >>)
       /\ viol' = viol \cup (IF e.tun # t THEN {"misroute:relay"} ELSE {})
                       \cup (IF ClobbersOnDelete(a, e) THEN {"clobber:relay"} ELSE {})
       /\ UNCHANGED <<alloc, ist, pend, xc, zomb, xcnt, ti, tx, rcvI, rcvX>>
       /\ last' = [act |-> "Recv", a |-> a, p |-> p, ty |-> f.ty, sid |-> f.sid, t |-> t, res |-> IF upHit THEN "relay-down" ELSE "relay-up"]
  ELSE IF Has(xc[a], kx) /\ "DevDataErrorKeepsRecord" \in Dev /\ tx[Get(xc[a], kx).tun] = "closed"
  THEN \* "someone else owns the clean-up": the record of the already closed socket is left alone
       /\ net' = Tail_(net, p, a)
       /\ UNCHANGED <<alloc, rup, rdn, ist, pend, xc, zomb, xcnt, ti, tx, rcvI, rcvX, viol>>
       /\ last' = [act |-> "Recv", a |-> a, p |-> p, ty |-> f.ty, sid |-> f.sid, t |-> t, res |-> "exit-kept"]
  ELSE IF Has(xc[a], kx)
  THEN LET r == Get(xc[a], kx) IN
       /\ xc' = [xc EXCEPT ![a] = Del(@, kx)]
       /\ xcnt' = [xcnt EXCEPT ![a] = IF @ > 0 THEN @ - 1 ELSE @]
       /\ tx' = [tx EXCEPT ![r.tun] = IF @ = "open" THEN "closed" ELSE @]
       /\ viol' = viol \cup (IF r.tun # t THEN {"misroute:exit"} ELSE {})
       /\ net' = SendAll(Tail_(net, p, a), (IF f.kind = "tcp" THEN << <<a, p, Frame("CLOSE", f.kind, f.sid, r.tun, "x", 0)>> >> ELSE <<>>))
       /\ UNCHANGED <<alloc, rup, rdn, ist, pend, zomb, ti, rcvI, rcvX>>
       /\ last' = [act |-> "Recv", a |-> a, p |-> p, ty |-> f.ty, sid |-> f.sid, t |-> t, res |-> "exit"]
  ELSE IF Has(ist[a], ki)
  THEN LET u == Get(ist[a], ki) IN
       /\ ist' = [ist EXCEPT ![a] = Del(@, ki)]
       /\ ti' = [ti EXCEPT ![u] = IF @ = "open" THEN "rclosed" ELSE @]
       /\ viol' = viol \cup (IF u # t THEN {"misroute:ingress"} ELSE {})
       /\ net' = Tail_(net, p, a)
       /\ UNCHANGED <<alloc, rup, rdn, pend, xc, zomb, xcnt, tx, rcvI, rcvX>>
       /\ last' = [act |-> "Recv", a |-> a, p |-> p, ty |-> f.ty, sid |-> f.sid, t |-> t, res |-> "ingress"]
  ELSE /\ net' = Tail_(net, p, a)
       /\ viol' = viol \cup DropViol(f)
       /\ UNCHANGED <<alloc, rup, rdn, ist, pend, xc, zomb, xcnt, ti, tx, rcvI, rcvX>>
       /\ last' = [act |-> "Recv", a |-> a, p |-> p, ty |-> f.ty, sid |-> f.sid, t |-> t, res |-> "drop"]

Recv(a, p) ==
  /\ <<p, a>> \in Sides /\ net[<<p, a>>] # <<>>
  /\ hold[<<p, a>>].tun = 0                                   \* the frame loop is not inside a handler
  /\ LET f == Head(net[<<p, a>>]) IN
       /\ ~(Split /\ f.ty = "DATA" /\ RelayHit(a, p, f))      \* two-step handling: RelayLookup, RelaySend
       /\ ~IngressFull(a, p, f)                               \* back-pressure: the loop waits for the reader
  /\ LET f == Head(net[<<p, a>>]) IN
       CASE f.ty = "OPEN" -> RecvOpen(a, p, f)
         [] f.ty \in {"ACK", "ERR"} -> RecvAckErr(a, p, f)
         [] f.ty = "DATA" -> RecvData(a, p, f)
         [] OTHER -> RecvEnd(a, p, f)
  /\ UNCHANGED <<linkUp, isid, nf, nr>>

(* ---------------------------------------------------------------------- *)
(* a connection fails: both queues are lost, both ends run                 *)
(* handlePeerDisconnect -> cleanupRelaysForPeer (relayTable.DeleteByPeer   *)
(* walks the upstream index only)                                          *)
(* ---------------------------------------------------------------------- *)
CleanKinds == IF "DevUdpIcmpRelayNotCleaned" \in Dev THEN {"tcp"} ELSE {"tcp", "udp", "icmp"}
DeleteByPeer(a, peer) ==
  LET hit == {r \in rup[a] : r.v.kind \in CleanKinds /\ (r.v.upeer = peer \/ r.v.dpeer = peer)} IN
  [up |-> rup[a] \ hit,
   dn |-> {q \in rdn[a] : ~\E r \in hit : q.k = K("relay", r.v.kind, r.v.dpeer, r.v.dsid)}]

\* With "reconn" in Ops the failure is observed in two phases, as in the code: the peer manager drops the connection
\* (LinkDown), and later each end runs its disconnect callback (DiscCleanup); the peer may reconnect in between.
LinkDown(l) ==
  /\ "disc" \in Ops /\ linkUp[l]
  /\ linkUp' = [linkUp EXCEPT ![l] = FALSE]
  /\ net' = [net EXCEPT ![<<l[1], l[2]>>] = <<>>, ![<<l[2], l[1]>>] = <<>>]
  /\ IF "reconn" \in Ops
     THEN /\ dirty' = dirty \cup {<<l[1], l[2]>>, <<l[2], l[1]>>}
          /\ UNCHANGED <<rup, rdn>>
     ELSE /\ rup' = [a \in Agents |-> IF a = l[1] THEN DeleteByPeer(a, l[2]).up
                                      ELSE IF a = l[2] THEN DeleteByPeer(a, l[1]).up ELSE rup[a]]
          /\ rdn' = [a \in Agents |-> IF a = l[1] THEN DeleteByPeer(a, l[2]).dn
                                      ELSE IF a = l[2] THEN DeleteByPeer(a, l[1]).dn ELSE rdn[a]]
          /\ UNCHANGED dirty
  /\ UNCHANGED <<alloc, ist, pend, isid, xc, zomb, xcnt, ti, tx, nf, nr, rcvI, rcvX, viol, gen>>
  /\ last' = [act |-> "LinkDown", a |-> l[1], p |-> l[2]]

\* handlePeerDisconnect of agent a for peer p (Ops "reconn")
DiscCleanup(a, p) ==
  /\ <<a, p>> \in dirty
  /\ dirty' = dirty \ {<<a, p>>}
  /\ IF "DevSkipCleanupIfReconnected" \in Dev /\ Up(a, p)
     THEN UNCHANGED <<rup, rdn>>
     ELSE /\ rup' = [rup EXCEPT ![a] = DeleteByPeer(a, p).up]
          /\ rdn' = [rdn EXCEPT ![a] = DeleteByPeer(a, p).dn]
  /\ UNCHANGED <<linkUp, alloc, net, ist, pend, isid, xc, zomb, xcnt, ti, tx, nf, nr, rcvI, rcvX, viol, gen>>
  /\ last' = [act |-> "DiscCleanup", a |-> a, p |-> p]

\* the peer connects again (at most once per link): a new connection, new allocators
Reconnect(l) ==
  /\ "reconn" \in Ops /\ ~linkUp[l] /\ gen[l] = 0
  /\ \A t \in Tunnels : ti[t] = "opening" =>
        ~\E i \in 1..(Len(PathOf(t)) - 1) : LinkOf(PathOf(t)[i], PathOf(t)[i + 1]) = l     \* (same bound)
  /\ linkUp' = [linkUp EXCEPT ![l] = TRUE]
  /\ gen' = [gen EXCEPT ![l] = 1]
  /\ alloc' = [alloc EXCEPT ![<<l[1], l[2]>>] = 1, ![<<l[2], l[1]>>] = 2]
  /\ UNCHANGED <<net, rup, rdn, ist, pend, isid, xc, zomb, xcnt, ti, tx, nf, nr, rcvI, rcvX, viol, dirty>>
  /\ last' = [act |-> "Reconnect", a |-> l[1], p |-> l[2]]

\* the exit's idle timer ends a UDP association / ICMP session: close frame towards the ingress, no FIN
ExitExpire(t) ==
  LET x == ExitOf(t) IN
  /\ "xexpire" \in Ops /\ tx[t] = "open" /\ KindOf(t) # "tcp"
  /\ \E c \in XConnOf(x, t) : XClose(x, t, c.peer, c.sid, FALSE)
  /\ UNCHANGED <<linkUp, alloc, rup, rdn, ist, pend, isid, ti, nf, nr, rcvI, rcvX>>
  /\ last' = [act |-> "ExitExpire", t |-> t, a |-> x]

\* a data frame of the ingress is damaged / forged on a link
Corrupt(s) ==
  /\ "corrupt" \in Ops /\ net[s] # <<>>
  /\ Head(net[s]).ty = "DATA" /\ Head(net[s]).src = "i" /\ Head(net[s]).n > 0 /\ ~Head(net[s]).bad
  /\ \A q \in Sides : \A i \in 1..Len(net[q]) : ~net[q][i].bad      \* one damaged frame at a time
  /\ net' = [net EXCEPT ![s] = <<[Head(@) EXCEPT !.bad = TRUE]>> \o Tail(@)]
  /\ UNCHANGED <<linkUp, alloc, rup, rdn, ist, pend, isid, xc, zomb, xcnt, ti, tx, nf, nr, rcvI, rcvX, viol>>
  /\ last' = [act |-> "Corrupt", a |-> s[1], p |-> s[2]]

\* the actions above do not mention the extension variables: they follow from the step
ExtDerive ==
  LET ents(up, dn) == {r.v : r \in up \cup dn}
      popped(a) == ents(rup[a], rdn[a]) \ ents(rup'[a], rdn'[a])
      added(a)  == ents(rup'[a], rdn'[a]) \ ents(rup[a], rdn[a])
      recyc == "DevRelayEntryRecycled" \in Dev
      reused(a) == IF recyc /\ added(a) # {} /\ freed[a] # {} THEN {CHOOSE f \in freed[a] : TRUE} ELSE {} IN
  /\ freed' = [a \in Agents |-> IF recyc THEN (freed[a] \cup popped(a)) \ reused(a) ELSE {}]
  /\ hold' = [s \in Sides |-> IF ~linkUp'[LinkOf(s[1], s[2])] THEN NoHold
                               ELSE IF hold[s].tun # 0 /\ hold[s].e \in reused(s[2])
                               THEN [hold[s] EXCEPT !.e = CHOOSE n \in added(s[2]) : TRUE]   \* the struct now describes the new tunnel
                               ELSE hold[s]]
  /\ ibuf' = [t \in Tunnels |-> IF BufCap = 0 THEN 0 ELSE ibuf[t] + Len(rcvI'[t]) - Len(rcvI[t])]

\* first half of the transit's data handler: table lookup (+ peer comparison) under the table lock
RelayLookup(a, p) ==
  LET s == <<p, a>> IN
  /\ Split /\ s \in Sides /\ net[s] # <<>> /\ hold[s].tun = 0
  /\ LET f == Head(net[s])  upSet == RelayUpSet(a, p, f) IN
       /\ f.ty = "DATA" /\ RelayHit(a, p, f)
       /\ hold' = [hold EXCEPT ![s] = [tun |-> f.tun, up |-> upSet # {},
                                        e |-> IF upSet # {} THEN (CHOOSE r \in upSet : TRUE).v
                                              ELSE Get(rdn[a], K("relay", f.kind, p, f.sid))]]
       /\ last' = [act |-> "RelayLookup", a |-> a, p |-> p, sid |-> f.sid, t |-> f.tun]
  /\ UNCHANGED <<linkUp, alloc, net, rup, rdn, ist, pend, isid, xc, zomb, xcnt, ti, tx, nf, nr, rcvI, rcvX, viol, freed, ibuf, gen, dirty>>

\* second half: the forwarded frame is built from the entry that was looked up, and sent
RelaySend(a, p) ==
  LET s == <<p, a>> IN
  /\ s \in Sides /\ hold[s].tun # 0
  /\ LET h == hold[s]  f == Head(net[s])
         to == IF h.up THEN h.e.dpeer ELSE h.e.upeer
         sid == IF h.up THEN h.e.dsid ELSE h.e.usid IN
       /\ net' = SendAll(Tail_(net, p, a), << <<a, to, [Frame("DATA", f.kind, sid, f.tun, f.src, f.n) EXCEPT !.bad = f.bad]>> >>)
       /\ viol' = viol \cup (IF h.e.tun # f.tun THEN {"misroute:relay"} ELSE {})
       /\ last' = [act |-> "RelaySend", a |-> a, p |-> p, sid |-> f.sid, t |-> f.tun]
  /\ hold' = [hold EXCEPT ![s] = NoHold]
  /\ UNCHANGED <<linkUp, alloc, rup, rdn, ist, pend, isid, xc, zomb, xcnt, ti, tx, nf, nr, rcvI, rcvX, freed, ibuf, gen, dirty>>

\* the ingress application takes one frame out of its stream's read buffer
IngressRead(t) ==
  /\ BufCap > 0 /\ ibuf[t] > 0
  /\ ibuf' = [ibuf EXCEPT ![t] = @ - 1]
  /\ UNCHANGED <<linkUp, alloc, net, rup, rdn, ist, pend, isid, xc, zomb, xcnt, ti, tx, nf, nr, rcvI, rcvX, viol, hold, freed, gen, dirty>>
  /\ last' = [act |-> "IngressRead", t |-> t, a |-> Ingress(t)]

\* DevPushTimeoutDrop: the frame loop gives up waiting for the reader and the frame is lost
PushTimeout(a, p) ==
  /\ "DevPushTimeoutDrop" \in Dev /\ <<p, a>> \in Sides /\ net[<<p, a>>] # <<>> /\ hold[<<p, a>>].tun = 0
  /\ IngressFull(a, p, Head(net[<<p, a>>]))
  /\ net' = Tail_(net, p, a)
  /\ UNCHANGED <<linkUp, alloc, rup, rdn, ist, pend, isid, xc, zomb, xcnt, ti, tx, nf, nr, rcvI, rcvX, viol, hold, freed, ibuf, gen, dirty>>
  /\ last' = [act |-> "PushTimeout", a |-> a, p |-> p]

Base ==
  \/ \E t \in Tunnels : IngressOpen(t) \/ IngressAbort(t) \/ IngressSend(t) \/ TargetSend(t) \/ TargetClose(t) \/ ExitExpire(t)
  \/ \E t \in Tunnels, ty \in {"CLOSE", "RESET"} : IngressEnd(t, ty)
  \/ \E s \in Sides : Recv(s[2], s[1]) \/ Corrupt(s)

Next ==
  \/ Base /\ ExtDerive /\ UNCHANGED <<gen, dirty>>
  \/ (\E l \in Links : LinkDown(l)) /\ ExtDerive
  \/ (\E s \in Sides : DiscCleanup(s[1], s[2])) /\ ExtDerive
  \/ (\E l \in Links : Reconnect(l)) /\ ExtDerive
  \/ \E s \in Sides : RelayLookup(s[2], s[1]) \/ RelaySend(s[2], s[1]) \/ PushTimeout(s[2], s[1])
  \/ \E t \in Tunnels : IngressRead(t)

Spec == Init /\ [][Next]_vars

(* ---- properties -------------------------------------------------------- *)
\* C16: at every hop the table entry selected belongs to the frame's tunnel, no insert or delete touches
\* another tunnel's slot, nothing meant for a waiting endpoint is dropped
Isolation == viol = {}

\* finer views of Isolation (used to obtain counterexamples of a particular kind)
NoStarve   == viol \cap {"starve", "lostclose"} = {}
NoMisroute == viol \cap {"misroute:ingress", "misroute:relay", "misroute:exit"} = {}
NoClobber  == viol \cap {"clobber:ingress", "clobber:relay", "clobber:exit"} = {}

IsPrefixOf(s, n, t) == Len(s) <= n /\ \A i \in 1..Len(s) : s[i] = <<t, i>>
\* C16: each endpoint receives exactly the bytes of its own counterpart, in order
ByteExact == \A t \in Tunnels : IsPrefixOf(rcvX[t], nf[t], t) /\ IsPrefixOf(rcvI[t], nr[t], t)

\* C17: every relay entry is indexed under both keys
IndexConsistent ==
  \A a \in Agents :
    /\ \A r \in rup[a] : SlotIs(rdn[a], K("relay", r.v.kind, r.v.dpeer, r.v.dsid), r.v)
    /\ \A q \in rdn[a] : SlotIs(rup[a], K("relay", q.v.kind, q.v.upeer, q.v.usid), q.v)
\* C17: the counter counts the records
CounterExact == \A a \in Agents : xcnt[a] = Cardinality(xc[a]) + Cardinality(zomb[a])

Quiescent ==
  /\ \A s \in Sides : net[s] = <<>> /\ hold[s].tun = 0
  /\ dirty = {} /\ \A t \in Tunnels : ibuf[t] = 0
  /\ \A t \in Tunnels : ti[t] \in {"idle", "closed", "failed"} /\ tx[t] \in {"none", "closed", "failed"}
\* C17: once all tunnels are gone nothing is left
BookkeepingEmpty ==
  Quiescent => /\ \A a \in Agents : rup[a] = {} /\ rdn[a] = {} /\ ist[a] = {} /\ xc[a] = {} /\ zomb[a] = {} /\ xcnt[a] = 0
               /\ pend = {}
\* C17, disconnect part: a relay entry never refers to a peer whose connection is gone
NoEntryForDeadPeer ==
  \A a \in Agents : \A r \in rup[a] \cup rdn[a] :
     /\ (Up(a, r.v.upeer) \/ <<a, r.v.upeer>> \in dirty)
     /\ (Up(a, r.v.dpeer) \/ <<a, r.v.dpeer>> \in dirty)
\* C17, reconnect part: once the disconnect handling has run, no entry belongs to a connection that no longer exists
NoStaleEntry ==
  \A a \in Agents : \A r \in rup[a] \cup rdn[a] :
     /\ (<<a, r.v.upeer>> \notin dirty => r.v.ug = gen[LinkOf(a, r.v.upeer)])
     /\ (<<a, r.v.dpeer>> \notin dirty => r.v.dg = gen[LinkOf(a, r.v.dpeer)])

TypeOK ==
  /\ \A s \in Sides : Len(net[s]) <= 12
  /\ \A a \in Agents : xcnt[a] <= NTun + 1

State == [linkUp |-> {l \in Links : linkUp[l]},
          alloc |-> {[s |-> s, v |-> alloc[s]] : s \in Sides},
          net |-> {[s |-> s, q |-> net[s]] : s \in {x \in Sides : net[x] # <<>>}}, rup |-> rup, rdn |-> rdn, ist |-> ist, pend |-> pend,
          isid |-> isid, xc |-> xc, zomb |-> zomb, xcnt |-> xcnt, ti |-> ti, tx |-> tx, nf |-> nf, nr |-> nr,
          rcvI |-> rcvI, rcvX |-> rcvX,
          hold |-> {[s |-> s, h |-> hold[s]] : s \in {x \in Sides : hold[x].tun # 0}}, freed |-> freed, ibuf |-> ibuf,
          gen |-> {[s |-> l, v |-> gen[l]] : l \in Links}, dirty |-> dirty]
EmitEdge == Emit => PrintT("EDGE " \o ToJson([s |-> State, a |-> last', t |-> State', v |-> viol']))
=============================================================================
