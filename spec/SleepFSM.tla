------------------------------ MODULE SleepFSM ------------------------------
(***************************************************************************)
(* Sleep-mode state machine of internal/sleep (sleep.Manager).             *)
(*                                                                         *)
(* One action per critical section of the code:                            *)
(*   SleepCall, WakeCall   Manager.Sleep / Manager.Wake: the whole call,   *)
(*                   including its OnSleep / OnWake callback, runs under   *)
(*                   stateMu, so concurrent callers are interleavings of   *)
(*                   atomic calls (any number of callers, MaxCalls calls). *)
(*   TimerFire       the poll timer fires: its goroutine exists but has    *)
(*                   not reached stateMu yet (no visible effect).          *)
(*   PollBegin       Manager.Poll, first critical section: skip unless     *)
(*                   SLEEPING, else SLEEPING -> POLLING, unlock            *)
(*                   (scheduling point sleep.poll.unlocked).               *)
(*   PollCallback    the poll activity enters the OnPoll callback          *)
(*                   (reconnect; in the agent it lasts a poll window).     *)
(*   PollWait        the callback returns, the poll duration passes        *)
(*                   (scheduling point sleep.poll.relock).                 *)
(*   PollEnd         second critical section: OnPollEnd (disconnect),      *)
(*                   POLLING -> SLEEPING, re-arm the timer, persist.       *)
(* Several poll activities can be in flight (a timer that fired before a   *)
(* wake + a timer of the next sleep period).                               *)
(*                                                                         *)
(* `wakes` counts completed wakes; every poll activity remembers the count *)
(* at its PollBegin (`gen`): "a wake has completed since this activity     *)
(* started"  ==  gen # wakes.  The design that satisfies C30 abandons such *)
(* an activity: no OnPoll, no OnPollEnd, no POLLING->SLEEPING, no re-arm.  *)
(*                                                                         *)
(* Deviations (each REPLACES the ideal behaviour at its site):             *)
(*   DevPollCallbackAfterWake  OnPoll is invoked without looking at the    *)
(*                   state again after the unlock (sleep.Manager.Poll)     *)
(*   DevStalePollEnd the second critical section only tests "state is      *)
(*                   AWAKE": after Wake + Sleep the old activity           *)
(*                   disconnects, re-sleeps, re-arms and persists          *)
(*   DevWakeNoPersist        Wake does not write the state file            *)
(*   DevSleepWhilePolling    Sleep is accepted while POLLING               *)
(*   DevPollFromAwake        PollBegin does not test the state             *)
(***************************************************************************)
EXTENDS Naturals, Sequences, FiniteSets, TLC, Json

CONSTANTS MaxCalls,   \* Sleep/Wake calls (all callers together)
          MaxPolls,   \* timer firings / poll activities
          Dev, Emit

DevNames == {"DevPollCallbackAfterWake", "DevStalePollEnd", "DevWakeNoPersist", "DevSleepWhilePolling",
             "DevPollFromAwake"}
ASSUME Dev \subseteq DevNames
Polls == 1..MaxPolls

\* documented transitions
DocEdges == {<<"AWAKE", "SLEEPING">>, <<"SLEEPING", "POLLING">>, <<"POLLING", "SLEEPING">>,
             <<"SLEEPING", "AWAKE">>, <<"POLLING", "AWAKE">>}

VARIABLES st,       \* "AWAKE" | "SLEEPING" | "POLLING"
          file,     \* content of sleep_state.json: "none" (no file) | a state name
          armed,    \* a poll timer is pending (can fire)
          tset,     \* Manager.pollTimer # nil          (observable)
          nextSet,  \* Manager.nextPollTime is set       (observable)
          lp,       \* Manager.lastPollTime is set       (observable)
          pending,  \* timer goroutines that fired and have not entered Poll yet
          poll,     \* [Polls -> [pc : {"none","unlocked","inCallback","relock","done"}, gen : Nat]]
          npolls,   \* poll activities begun
          ncalls,   \* Sleep/Wake calls made
          wakes,    \* completed wakes
          stale,    \* ghost: a poll activity reconnected / disconnected / re-slept after a wake that completed
                    \*        after the activity had started
          last

core == <<st, file, armed, tset, nextSet, lp, pending, poll, npolls, ncalls, wakes>>
vars == <<core, stale, last>>
view == <<core, stale>>

NoCb == <<>>
Cb(name, at) == <<[cb |-> name, at |-> at]>>

Init ==
  /\ st = "AWAKE" /\ file = "none" /\ armed = FALSE /\ tset = FALSE /\ nextSet = FALSE /\ lp = FALSE
  /\ pending = 0 /\ poll = [p \in Polls |-> [pc |-> "none", gen |-> 0]] /\ npolls = 0 /\ ncalls = 0 /\ wakes = 0
  /\ stale = FALSE
  /\ last = [act |-> "Init"]

(* Manager.Sleep *)
SleepCall ==
  /\ ncalls < MaxCalls /\ ncalls' = ncalls + 1
  /\ IF st = "AWAKE" \/ ("DevSleepWhilePolling" \in Dev /\ st = "POLLING")
       THEN /\ st' = "SLEEPING" /\ armed' = TRUE /\ tset' = TRUE /\ nextSet' = TRUE /\ lp' = FALSE
            /\ file' = "SLEEPING"
            /\ last' = [act |-> "SleepCall", p |-> 0, res |-> "ok", cbs |-> Cb("OnSleep", st)]
       ELSE /\ UNCHANGED <<st, armed, tset, nextSet, lp, file>>
            /\ last' = [act |-> "SleepCall", p |-> 0, res |-> "refused", cbs |-> NoCb]
  /\ UNCHANGED <<pending, poll, npolls, wakes, stale>>

(* Manager.Wake *)
WakeCall ==
  /\ ncalls < MaxCalls /\ ncalls' = ncalls + 1
  /\ IF st # "AWAKE"
       THEN /\ st' = "AWAKE" /\ armed' = FALSE /\ tset' = FALSE /\ nextSet' = FALSE
            /\ file' = IF "DevWakeNoPersist" \in Dev THEN file ELSE "AWAKE"
            /\ wakes' = wakes + 1
            /\ last' = [act |-> "WakeCall", p |-> 0, res |-> "ok", cbs |-> Cb("OnWake", st)]
       ELSE /\ UNCHANGED <<st, armed, tset, nextSet, file, wakes>>
            /\ last' = [act |-> "WakeCall", p |-> 0, res |-> "refused", cbs |-> NoCb]
  /\ UNCHANGED <<lp, pending, poll, npolls, stale>>

(* the armed timer fires (one shot); the goroutine it starts has not reached Poll's lock yet *)
TimerFire ==
  /\ armed /\ npolls + pending < MaxPolls
  /\ armed' = FALSE /\ pending' = pending + 1
  /\ UNCHANGED <<st, file, tset, nextSet, lp, poll, npolls, ncalls, wakes, stale>>
  /\ last' = [act |-> "TimerFire", p |-> 0, res |-> "ok", cbs |-> NoCb]

(* Manager.Poll, first critical section *)
PollBegin ==
  /\ pending > 0 /\ pending' = pending - 1
  /\ npolls' = npolls + 1
  /\ LET p == npolls + 1 IN
     IF st = "SLEEPING" \/ ("DevPollFromAwake" \in Dev /\ st = "AWAKE")
       THEN /\ st' = "POLLING" /\ lp' = TRUE
            /\ poll' = [poll EXCEPT ![p] = [pc |-> "unlocked", gen |-> wakes]]
            /\ last' = [act |-> "PollBegin", p |-> p, res |-> "polling", cbs |-> NoCb]
       ELSE /\ UNCHANGED <<st, lp>>
            /\ poll' = [poll EXCEPT ![p] = [pc |-> "done", gen |-> wakes]]
            /\ last' = [act |-> "PollBegin", p |-> p, res |-> "skipped", cbs |-> NoCb]
  /\ UNCHANGED <<file, armed, tset, nextSet, ncalls, wakes, stale>>

(* the activity goes on to its reconnect callback - unless a wake completed meanwhile *)
PollCallback(p) ==
  /\ poll[p].pc = "unlocked"
  /\ IF poll[p].gen = wakes \/ "DevPollCallbackAfterWake" \in Dev
       THEN /\ poll' = [poll EXCEPT ![p].pc = "inCallback"]
            /\ stale' = (stale \/ poll[p].gen # wakes)
            /\ last' = [act |-> "PollCallback", p |-> p, res |-> "callback", cbs |-> Cb("OnPoll", st)]
       ELSE /\ poll' = [poll EXCEPT ![p].pc = "done"]
            /\ UNCHANGED stale
            /\ last' = [act |-> "PollCallback", p |-> p, res |-> "abandoned", cbs |-> NoCb]
  /\ UNCHANGED <<st, file, armed, tset, nextSet, lp, pending, npolls, ncalls, wakes>>

(* the callback returns and the poll duration passes *)
PollWait(p) ==
  /\ poll[p].pc = "inCallback"
  /\ poll' = [poll EXCEPT ![p].pc = "relock"]
  /\ UNCHANGED <<st, file, armed, tset, nextSet, lp, pending, npolls, ncalls, wakes, stale>>
  /\ last' = [act |-> "PollWait", p |-> p, res |-> "ok", cbs |-> NoCb]

(* Manager.Poll, second critical section *)
PollEnd(p) ==
  /\ poll[p].pc = "relock"
  /\ poll' = [poll EXCEPT ![p].pc = "done"]
  /\ IF (IF "DevStalePollEnd" \in Dev THEN st = "AWAKE" ELSE poll[p].gen # wakes)
       THEN /\ UNCHANGED <<st, file, armed, tset, nextSet, stale>>
            /\ last' = [act |-> "PollEnd", p |-> p, res |-> "woken", cbs |-> NoCb]
       ELSE /\ st' = "SLEEPING" /\ armed' = TRUE /\ tset' = TRUE /\ nextSet' = TRUE /\ file' = "SLEEPING"
            /\ stale' = (stale \/ poll[p].gen # wakes)
            /\ last' = [act |-> "PollEnd", p |-> p, res |-> "ok", cbs |-> Cb("OnPollEnd", st)]
  /\ UNCHANGED <<lp, pending, npolls, ncalls, wakes>>

Next ==
  \/ SleepCall \/ WakeCall \/ TimerFire \/ PollBegin
  \/ \E p \in Polls : PollCallback(p) \/ PollWait(p) \/ PollEnd(p)

Spec == Init /\ [][Next]_vars

(* ---- properties (C30) -------------------------------------------------- *)
TypeOK ==
  /\ st \in {"AWAKE", "SLEEPING", "POLLING"} /\ file \in {"none", "AWAKE", "SLEEPING", "POLLING"}
  /\ \A p \in Polls : poll[p].pc \in {"none", "unlocked", "inCallback", "relock", "done"}

\* the state moves only along the documented transitions
DocumentedEdges == [][st' # st => <<st, st'>> \in DocEdges]_vars

\* sleeping while asleep and waking while awake are refused (and change nothing)
RedundantRefused ==
  [][/\ (last'.act = "SleepCall" /\ st # "AWAKE") => (last'.res = "refused" /\ UNCHANGED <<st, file, armed>>)
     /\ (last'.act = "WakeCall" /\ st = "AWAKE") => (last'.res = "refused" /\ UNCHANGED <<st, file, armed>>)]_vars

\* once a wake has completed, no poll activity that started earlier reconnects, disconnects or re-sleeps
NoStalePollActivity == ~stale

\* the persisted state matches the state after every completed transition (POLLING is persisted as SLEEPING by design)
Equiv(x) == IF x = "POLLING" THEN "SLEEPING" ELSE x
PersistMatches == IF file = "none" THEN st = "AWAKE" /\ wakes = 0 ELSE Equiv(file) = Equiv(st)

(* ---- edge emission ------------------------------------------------------ *)
State == [st |-> st, file |-> file, armed |-> armed, tset |-> tset, nextSet |-> nextSet, lp |-> lp,
          pending |-> pending, poll |-> poll, npolls |-> npolls, ncalls |-> ncalls, wakes |-> wakes, stale |-> stale]
EmitEdge == Emit => PrintT("EDGE " \o ToJson([s |-> State, a |-> last', t |-> State']))
=============================================================================
