------------------------------ MODULE SleepFSM ------------------------------
(***************************************************************************)
(* Sleep-mode state machine of internal/sleep (sleep.Manager) and the      *)
(* agent-level poll cycle built on it (agent.doPoll).                      *)
(*                                                                         *)
(* One action per critical section of the code; a call is split wherever   *)
(* another thread can arrive while it runs:                                *)
(*   SleepBegin / SleepEnd, WakeBegin / WakeEnd                            *)
(*                   Manager.Sleep / Manager.Wake take stateMu, check the  *)
(*                   state (a redundant call is refused at once), run      *)
(*                   their OnSleep / OnWake callback UNDER THE LOCK (in    *)
(*                   the agent: disconnect / reconnect, seconds) and then  *)
(*                   store the new state, (re)arm the timer and persist.   *)
(*                   `lock` says who is inside its callback.               *)
(*   TimerFire       the poll timer fires: its goroutine exists but has    *)
(*                   not entered Poll yet (no visible effect).             *)
(*   PollEnter       the timer goroutine enters Manager.Poll while the     *)
(*                   lock is held by a Sleep / Wake callback: it waits for *)
(*                   the lock (`waiter`) and performs its first critical   *)
(*                   section as soon as the holder releases it, i.e. with  *)
(*                   the state the holder leaves behind (hand-off in       *)
(*                   SleepEnd / WakeEnd).                                  *)
(*   PollBegin       ... or with the lock free: first critical section at  *)
(*                   once: skip unless SLEEPING, else SLEEPING -> POLLING  *)
(*                   (scheduling point sleep.poll.unlocked).               *)
(*   PollCallback    the poll activity enters the OnPoll callback          *)
(*                   = agent.doPoll starts: poll listeners + reconnect     *)
(*                   (AgentPollStart).                                     *)
(*   PollWait        the callback returns = the agent's poll window ends   *)
(*                   (AgentPollEnd): still asleep -> DisconnectAll + close *)
(*                   the poll listeners; woken meanwhile -> keep them.     *)
(*                   Then the manager's poll duration passes (scheduling   *)
(*                   point sleep.poll.relock).                             *)
(*   PollEnd         second critical section: OnPollEnd, POLLING ->        *)
(*                   SLEEPING, re-arm the timer, persist.                  *)
(*   Restart         the process is replaced: a new Manager on the same    *)
(*                   state file + LoadState (what Agent.Start does).       *)
(* Several poll activities can be in flight (a timer that fired before a   *)
(* wake + a timer of the next sleep period).                               *)
(*                                                                         *)
(* `wakes` counts completed wakes; every poll activity remembers the count *)
(* at its first critical section (`gen`): "a wake has completed since this *)
(* activity started"  ==  gen # wakes.  The design that satisfies C30      *)
(* abandons such an activity: no OnPoll, no OnPollEnd, no                  *)
(* POLLING->SLEEPING, no re-arm, and the agent does not disconnect.        *)
(*                                                                         *)
(* Deviations (each REPLACES the ideal behaviour at its site):             *)
(*   DevPollCallbackAfterWake  OnPoll is invoked without looking at the    *)
(*                   state again after the unlock (sleep.Manager.Poll)     *)
(*   DevStalePollEnd the second critical section only tests "state is      *)
(*                   AWAKE": after Wake + Sleep the old activity           *)
(*                   disconnects, re-sleeps, re-arms and persists          *)
(*   DevWakeNoPersist        Wake does not write the state file            *)
(*   DevSleepWhilePolling    Sleep is accepted while POLLING               *)
(*   DevPollFromAwake        PollBegin does not test the state             *)
(*   DevPollFastPath         Poll tests the state BEFORE it takes the lock *)
(*                   and not again once it holds it                        *)
(*   DevAgentPollEndIgnoresWake  the agent's poll window ends with         *)
(*                   DisconnectAll although a wake completed meanwhile     *)
(***************************************************************************)
EXTENDS Naturals, Sequences, FiniteSets, TLC, Json

CONSTANTS MaxCalls,    \* Sleep/Wake calls (all callers together)
          MaxPolls,    \* timer firings / poll activities
          MaxRestarts, \* process restarts (new manager on the same state file)
          PollErr,     \* TRUE: the reconnect callback (OnPoll) may also return an error (bare-manager replay)
          Dev, Emit

DevNames == {"DevPollCallbackAfterWake", "DevStalePollEnd", "DevWakeNoPersist", "DevSleepWhilePolling",
             "DevPollFromAwake", "DevPollFastPath", "DevAgentPollEndIgnoresWake"}
ASSUME Dev \subseteq DevNames
Polls == 1..MaxPolls

\* documented transitions
DocEdges == {<<"AWAKE", "SLEEPING">>, <<"SLEEPING", "POLLING">>, <<"POLLING", "SLEEPING">>,
             <<"SLEEPING", "AWAKE">>, <<"POLLING", "AWAKE">>}

VARIABLES st,       \* "AWAKE" | "SLEEPING" | "POLLING"
          file,     \* content of sleep_state.json: "none" (no file) | a state name
          flp,      \* the last-poll time stored in the file is set
          lock,     \* "free" | "sleep" | "wake": a Sleep / Wake call is inside its callback, holding stateMu
          waiter,   \* poll activity waiting for stateMu (0 = none)
          armed,    \* a poll timer is pending (can fire)
          tset,     \* Manager.pollTimer # nil          (observable)
          nextSet,  \* Manager.nextPollTime is set       (observable)
          lp,       \* Manager.lastPollTime is set       (observable)
          pending,  \* timer goroutines that fired and have not entered Poll yet
          poll,     \* [Polls -> [pc : {"none","waiting","unlocked","inCallback","relock","done"}, gen : Nat,
                    \*            saw : BOOLEAN (DevPollFastPath: the state was SLEEPING at the unlocked test)]]
          npolls,   \* poll activities begun
          ncalls,   \* Sleep/Wake calls made
          nrestarts,
          wakes,    \* completed wakes
          conn,     \* agent level: listeners up and peers (re)connected
          stale,    \* ghost: a poll activity reconnected / disconnected / re-slept after a wake that completed
                    \*        after the activity had started
          undone,   \* ghost: the agent's poll window ended with a disconnect although the agent was AWAKE
          last

core == <<st, file, flp, lock, waiter, armed, tset, nextSet, lp, pending, poll, npolls, ncalls, nrestarts, wakes, conn>>
vars == <<core, stale, undone, last>>
view == <<core, stale, undone>>

NoCb == <<>>
Cb(name, at) == <<[cb |-> name, at |-> at]>>
PollRec(pc, gen, saw) == [pc |-> pc, gen |-> gen, saw |-> saw]

Init ==
  /\ st = "AWAKE" /\ file = "none" /\ flp = FALSE /\ lock = "free" /\ waiter = 0
  /\ armed = FALSE /\ tset = FALSE /\ nextSet = FALSE /\ lp = FALSE
  /\ pending = 0 /\ poll = [p \in Polls |-> PollRec("none", 0, FALSE)] /\ npolls = 0 /\ ncalls = 0 /\ nrestarts = 0
  /\ wakes = 0 /\ conn = TRUE /\ stale = FALSE /\ undone = FALSE
  /\ last = [act |-> "Init"]

\* does the waiting poll activity w start polling when the lock holder leaves state s behind ?
WaiterPolls(w, s) == w > 0 /\ (IF "DevPollFastPath" \in Dev THEN poll[w].saw
                               ELSE s = "SLEEPING" \/ ("DevPollFromAwake" \in Dev /\ s = "AWAKE"))
Handoff(w, s, g) == IF w = 0 THEN poll
                    ELSE [poll EXCEPT ![w] = PollRec(IF WaiterPolls(w, s) THEN "unlocked" ELSE "done", g, FALSE)]
HandoffRes(w, s) == IF w = 0 THEN "none" ELSE IF WaiterPolls(w, s) THEN "polling" ELSE "skipped"

(* Manager.Sleep up to (and inside) its OnSleep callback *)
SleepBegin ==
  /\ lock = "free" /\ ncalls < MaxCalls /\ ncalls' = ncalls + 1
  /\ IF st = "AWAKE" \/ ("DevSleepWhilePolling" \in Dev /\ st = "POLLING")
       THEN /\ lock' = "sleep" /\ conn' = FALSE
            /\ last' = [act |-> "SleepBegin", p |-> 0, res |-> "callback", cbs |-> Cb("OnSleep", st), handoff |-> "none"]
       ELSE /\ UNCHANGED <<lock, conn>>
            /\ last' = [act |-> "SleepBegin", p |-> 0, res |-> "refused", cbs |-> NoCb, handoff |-> "none"]
  /\ UNCHANGED <<st, file, flp, waiter, armed, tset, nextSet, lp, pending, poll, npolls, nrestarts, wakes, stale, undone>>

(* ... the callback returns: store SLEEPING, arm the timer, persist, unlock (a waiting poll goes on at once) *)
SleepEnd ==
  /\ lock = "sleep" /\ lock' = "free" /\ waiter' = 0
  /\ st' = IF WaiterPolls(waiter, "SLEEPING") THEN "POLLING" ELSE "SLEEPING"
  /\ lp' = WaiterPolls(waiter, "SLEEPING")
  /\ armed' = TRUE /\ tset' = TRUE /\ nextSet' = TRUE /\ file' = "SLEEPING" /\ flp' = FALSE
  /\ poll' = Handoff(waiter, "SLEEPING", wakes)
  /\ UNCHANGED <<pending, npolls, ncalls, nrestarts, wakes, conn, stale, undone>>
  /\ last' = [act |-> "SleepEnd", p |-> waiter, res |-> "ok", cbs |-> NoCb, handoff |-> HandoffRes(waiter, "SLEEPING")]

(* Manager.Wake up to (and inside) its OnWake callback; the timer is stopped before the callback *)
WakeBegin ==
  /\ lock = "free" /\ ncalls < MaxCalls /\ ncalls' = ncalls + 1
  /\ IF st # "AWAKE"
       THEN /\ lock' = "wake" /\ armed' = FALSE /\ tset' = FALSE /\ conn' = TRUE
            /\ last' = [act |-> "WakeBegin", p |-> 0, res |-> "callback", cbs |-> Cb("OnWake", st), handoff |-> "none"]
       ELSE /\ UNCHANGED <<lock, armed, tset, conn>>
            /\ last' = [act |-> "WakeBegin", p |-> 0, res |-> "refused", cbs |-> NoCb, handoff |-> "none"]
  /\ UNCHANGED <<st, file, flp, waiter, nextSet, lp, pending, poll, npolls, nrestarts, wakes, stale, undone>>

WakeEnd ==
  /\ lock = "wake" /\ lock' = "free" /\ waiter' = 0
  /\ st' = IF WaiterPolls(waiter, "AWAKE") THEN "POLLING" ELSE "AWAKE"
  /\ lp' = (lp \/ WaiterPolls(waiter, "AWAKE"))
  /\ nextSet' = FALSE
  /\ file' = IF "DevWakeNoPersist" \in Dev THEN file ELSE "AWAKE"
  /\ flp' = IF "DevWakeNoPersist" \in Dev THEN flp ELSE lp
  /\ wakes' = wakes + 1
  /\ poll' = Handoff(waiter, "AWAKE", wakes + 1)
  /\ UNCHANGED <<armed, tset, pending, npolls, ncalls, nrestarts, conn, stale, undone>>
  /\ last' = [act |-> "WakeEnd", p |-> waiter, res |-> "ok", cbs |-> NoCb, handoff |-> HandoffRes(waiter, "AWAKE")]

(* the armed timer fires (one shot); the goroutine it starts has not entered Poll yet *)
TimerFire ==
  /\ armed /\ npolls + pending < MaxPolls
  /\ armed' = FALSE /\ pending' = pending + 1
  /\ UNCHANGED <<st, file, flp, lock, waiter, tset, nextSet, lp, poll, npolls, ncalls, nrestarts, wakes, conn, stale, undone>>
  /\ last' = [act |-> "TimerFire", p |-> 0, res |-> "ok", cbs |-> NoCb, handoff |-> "none"]

(* the timer goroutine enters Manager.Poll while a Sleep / Wake call holds the lock in its callback *)
PollEnter ==
  /\ pending > 0 /\ lock # "free" /\ waiter = 0
  /\ pending' = pending - 1 /\ npolls' = npolls + 1
  /\ LET p == npolls + 1 IN
     IF "DevPollFastPath" \in Dev /\ st # "SLEEPING"
       THEN /\ poll' = [poll EXCEPT ![p] = PollRec("done", wakes, FALSE)] /\ UNCHANGED waiter
            /\ last' = [act |-> "PollEnter", p |-> p, res |-> "skipped", cbs |-> NoCb, handoff |-> "none"]
       ELSE /\ poll' = [poll EXCEPT ![p] = PollRec("waiting", 0, st = "SLEEPING")] /\ waiter' = p
            /\ last' = [act |-> "PollEnter", p |-> p, res |-> "waiting", cbs |-> NoCb, handoff |-> "none"]
  /\ UNCHANGED <<st, file, flp, lock, armed, tset, nextSet, lp, ncalls, nrestarts, wakes, conn, stale, undone>>

(* Manager.Poll, first critical section, lock free *)
PollBegin ==
  /\ pending > 0 /\ lock = "free" /\ pending' = pending - 1
  /\ npolls' = npolls + 1
  /\ LET p == npolls + 1 IN
     IF st = "SLEEPING" \/ ("DevPollFromAwake" \in Dev /\ st = "AWAKE")
       THEN /\ st' = "POLLING" /\ lp' = TRUE
            /\ poll' = [poll EXCEPT ![p] = PollRec("unlocked", wakes, FALSE)]
            /\ last' = [act |-> "PollBegin", p |-> p, res |-> "polling", cbs |-> NoCb, handoff |-> "none"]
       ELSE /\ UNCHANGED <<st, lp>>
            /\ poll' = [poll EXCEPT ![p] = PollRec("done", wakes, FALSE)]
            /\ last' = [act |-> "PollBegin", p |-> p, res |-> "skipped", cbs |-> NoCb, handoff |-> "none"]
  /\ UNCHANGED <<file, flp, lock, waiter, armed, tset, nextSet, ncalls, nrestarts, wakes, conn, stale, undone>>

(* the activity goes on to its reconnect callback (agent.doPoll starts) - unless a wake completed meanwhile *)
PollCallback(p) ==
  /\ poll[p].pc = "unlocked"
  /\ IF poll[p].gen = wakes \/ "DevPollCallbackAfterWake" \in Dev
       THEN /\ poll' = [poll EXCEPT ![p].pc = "inCallback"]
            /\ stale' = (stale \/ poll[p].gen # wakes)
            /\ conn' = TRUE
            /\ last' = [act |-> "PollCallback", p |-> p, res |-> "callback", cbs |-> Cb("OnPoll", st), handoff |-> "none"]
       ELSE /\ poll' = [poll EXCEPT ![p].pc = "done"]
            /\ UNCHANGED <<stale, conn>>
            /\ last' = [act |-> "PollCallback", p |-> p, res |-> "abandoned", cbs |-> NoCb, handoff |-> "none"]
  /\ UNCHANGED <<st, file, flp, lock, waiter, armed, tset, nextSet, lp, pending, npolls, ncalls, nrestarts, wakes, undone>>

(* the callback returns (the agent's poll window ends: disconnect unless woken) and the poll duration passes *)
PollWait(p) ==
  /\ poll[p].pc = "inCallback"
  /\ poll' = [poll EXCEPT ![p].pc = "relock"]
  /\ \E f \in (IF PollErr THEN BOOLEAN ELSE {FALSE}) :   \* f: OnPoll returns an error - logged by Poll, no other effect
     LET keep == st = "AWAKE" /\ "DevAgentPollEndIgnoresWake" \notin Dev IN
     /\ conn' = IF keep THEN conn ELSE FALSE
     /\ undone' = (undone \/ (st = "AWAKE" /\ lock = "free" /\ ~keep))
     /\ last' = [act |-> "PollWait", p |-> p, res |-> IF keep THEN "woken" ELSE "asleep", cbs |-> NoCb, handoff |-> "none",
                 fail |-> f]
  /\ UNCHANGED <<st, file, flp, lock, waiter, armed, tset, nextSet, lp, pending, npolls, ncalls, nrestarts, wakes, stale>>

(* Manager.Poll, second critical section *)
PollEnd(p) ==
  /\ poll[p].pc = "relock" /\ lock = "free"
  /\ poll' = [poll EXCEPT ![p].pc = "done"]
  /\ IF (IF "DevStalePollEnd" \in Dev THEN st = "AWAKE" ELSE poll[p].gen # wakes)
       THEN /\ UNCHANGED <<st, file, flp, armed, tset, nextSet, stale>>
            /\ last' = [act |-> "PollEnd", p |-> p, res |-> "woken", cbs |-> NoCb, handoff |-> "none"]
       ELSE /\ st' = "SLEEPING" /\ armed' = TRUE /\ tset' = TRUE /\ nextSet' = TRUE /\ file' = "SLEEPING" /\ flp' = lp
            /\ stale' = (stale \/ poll[p].gen # wakes)
            /\ last' = [act |-> "PollEnd", p |-> p, res |-> "ok", cbs |-> Cb("OnPollEnd", st), handoff |-> "none"]
  /\ UNCHANGED <<lock, waiter, lp, pending, npolls, ncalls, nrestarts, wakes, conn, undone>>

(* the process is replaced: new Manager on the same data dir, LoadState (no file / unreadable file = AWAKE) *)
Restart ==
  /\ nrestarts < MaxRestarts /\ lock = "free" /\ waiter = 0 /\ pending = 0
  /\ \A p \in Polls : poll[p].pc \in {"none", "done"}
  /\ nrestarts' = nrestarts + 1
  /\ st' = IF file = "none" THEN "AWAKE" ELSE file
  /\ lp' = (file # "none" /\ flp)
  /\ armed' = FALSE /\ tset' = FALSE /\ nextSet' = FALSE
  /\ conn' = TRUE
  /\ UNCHANGED <<file, flp, lock, waiter, pending, poll, npolls, ncalls, wakes, stale, undone>>
  /\ last' = [act |-> "Restart", p |-> 0, res |-> "ok", cbs |-> NoCb, handoff |-> "none"]

Next ==
  \/ SleepBegin \/ SleepEnd \/ WakeBegin \/ WakeEnd \/ TimerFire \/ PollEnter \/ PollBegin \/ Restart
  \/ \E p \in Polls : PollCallback(p) \/ PollWait(p) \/ PollEnd(p)

Spec == Init /\ [][Next]_vars

(* ---- properties (C30) -------------------------------------------------- *)
TypeOK ==
  /\ st \in {"AWAKE", "SLEEPING", "POLLING"} /\ file \in {"none", "AWAKE", "SLEEPING", "POLLING"}
  /\ lock \in {"free", "sleep", "wake"} /\ waiter \in 0..MaxPolls
  /\ \A p \in Polls : poll[p].pc \in {"none", "waiting", "unlocked", "inCallback", "relock", "done"}
  /\ (waiter > 0 => (lock # "free" /\ poll[waiter].pc = "waiting"))

\* the state moves only along the documented transitions (a restart re-reads the file: no transition)
\* SleepEnd / WakeEnd with a hand-off are two transitions in one step: the call's own and the waiting poll's
DocumentedEdges ==
  [][last'.act # "Restart" =>
       IF last'.act \in {"SleepEnd", "WakeEnd"} /\ last'.handoff = "polling"
         THEN LET mid == IF last'.act = "SleepEnd" THEN "SLEEPING" ELSE "AWAKE" IN
              (st = mid \/ <<st, mid>> \in DocEdges) /\ <<mid, st'>> \in DocEdges
         ELSE st' # st => <<st, st'>> \in DocEdges]_vars

\* sleeping while asleep and waking while awake are refused (and change nothing)
RedundantRefused ==
  [][/\ (last'.act = "SleepBegin" /\ st # "AWAKE") => (last'.res = "refused" /\ UNCHANGED <<st, file, armed, lock>>)
     /\ (last'.act = "WakeBegin" /\ st = "AWAKE") => (last'.res = "refused" /\ UNCHANGED <<st, file, armed, lock>>)]_vars

\* once a wake has completed, no poll activity that started earlier reconnects, disconnects or re-sleeps
NoStalePollActivity == ~stale
\* ... nor does the agent's poll cycle undo the wake at the end of its window
WakeNotUndone == ~undone

\* the persisted state matches the state after every completed transition (POLLING is persisted as SLEEPING by
\* design), also after a restart; while a Sleep / Wake call is still inside its callback nothing has been completed
Equiv(x) == IF x = "POLLING" THEN "SLEEPING" ELSE x
PersistMatches == IF file = "none" THEN st = "AWAKE" /\ wakes = 0 ELSE Equiv(file) = Equiv(st)

(* ---- edge emission ------------------------------------------------------ *)
State == [st |-> st, file |-> file, flp |-> flp, lock |-> lock, waiter |-> waiter, armed |-> armed, tset |-> tset,
          nextSet |-> nextSet, lp |-> lp, pending |-> pending, poll |-> poll, npolls |-> npolls, ncalls |-> ncalls,
          nrestarts |-> nrestarts, wakes |-> wakes, conn |-> conn, stale |-> stale, undone |-> undone]
EmitEdge == Emit => PrintT("EDGE " \o ToJson([s |-> State, a |-> last', t |-> State']))
=============================================================================
