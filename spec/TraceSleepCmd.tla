--------------------------- MODULE TraceSleepCmd ---------------------------
(* Trace validation: executions recorded from the real flood.Flooder under   *)
(* random adversarial schedules (ndjson, many traces concatenated, separated *)
(* by Reset events) must be behaviours of SleepCmd.  Every event carries the *)
(* arguments of the call, what was observed (accept / reject, the peers a    *)
(* frame was forwarded to) and the projected state after the call, so the    *)
(* search is linear in the trace length.  With Dev = {} the recorded         *)
(* execution must be one of the IDEAL design and every invariant of SleepCmd *)
(* is evaluated on every state of it; with Dev = {d} the same module tells   *)
(* whether deviation d explains a rejected execution.                        *)
EXTENDS SleepCmd, IOUtils

VARIABLE l
Trace == ndJsonDeserialize(IOEnv.TRACE_FILE)
ev == Trace[l]

TraceInit == Init /\ l = 1 /\ TLCSet(1, 1)

Consume(name) == l <= Len(Trace) /\ ev.ev = name /\ l' = l + 1

SetOf(seq) == {seq[i] : i \in DOMAIN seq}
ObsRes(a) == IF a.res = "accept" THEN "accept" ELSE "reject"
StateMatches ==
  /\ key' = ev.st.key /\ sleepon' = ev.st.sleepon /\ clock' = ev.st.clock /\ st' = ev.st.st
  /\ \A i \in AllIds : cache'[i] = ev.st.cache[i]
  /\ pend' = ev.st.pend

TraceReceive ==
  /\ Consume("Receive")
  /\ LET c == [id |-> ev.id, ts |-> ev.ts, sig |-> ev.sig] IN
       \/ Receive(ev.path, ev.from, c, ev.loop)
       \/ DevQueuedPathUnverified(ev.path, ev.from, c, ev.loop)
       \/ DevMarkSeenBeforeVerify(ev.path, ev.from, c, ev.loop)
       \/ DevPendingBeforeVerify(ev.path, ev.from, c, ev.loop)
  /\ ObsRes(last') = ev.res /\ last'.fwd = SetOf(ev.fwd)
  /\ StateMatches

TraceTick == Consume("Tick") /\ Tick /\ StateMatches

TraceCleanup ==
  /\ Consume("Cleanup")
  /\ (Cleanup \/ DevCacheForgetsInsideWindow \/ DevSizeEviction \/ DevCleanupPinned)
  /\ StateMatches

TracePeerConnected ==
  /\ Consume("PeerConnected")
  /\ PeerConnected(ev.p)
  /\ (IF last'.res = "expired" THEN "none" ELSE last'.res) = ev.res /\ last'.fwd = SetOf(ev.fwd)
  /\ StateMatches

TraceLocalIssue ==
  /\ Consume("LocalIssue")
  /\ LocalIssue(ev.kind, ev.id)
  /\ last'.fwd = SetOf(ev.fwd)
  /\ StateMatches

TraceReset ==
  /\ Consume("Reset")
  /\ key' = ev.key /\ sleepon' = TRUE /\ scanning' = FALSE /\ snap' = [i \in AllIds |-> NoEntry]
  /\ clock' = 0 /\ cache' = [i \in AllIds |-> NoEntry] /\ st' = "awake" /\ pend' = NoPend
  /\ acted' = [i \in AllIds |-> 0] /\ bad' = 0 /\ poisoned' = {} /\ suppressed' = FALSE /\ devsteps' = 0
  /\ last' = [act |-> "Init"]

TraceNext == TraceReceive \/ TraceTick \/ TraceCleanup \/ TracePeerConnected \/ TraceLocalIssue \/ TraceReset
TraceSpec == TraceInit /\ [][TraceNext]_<<vars, l>>

HighWater == TLCSet(1, IF l > TLCGet(1) THEN l ELSE TLCGet(1))
TraceAccepted == /\ PrintT("HW " \o ToString(TLCGet(1)))
                 /\ PrintT("LEN " \o ToString(Len(Trace)))
                 /\ TLCGet(1) = Len(Trace) + 1
=============================================================================
