------------------------------ MODULE Control ------------------------------
(***************************************************************************)
(* Control requests (management / status) across the mesh                  *)
(* (internal/agent/agent.go: SendControlRequestWithData,                   *)
(* handleControlRequest, handleControlResponse, pendingControl,            *)
(* forwardedControl, nextControlID).  Control-request part of the Relay    *)
(* model of DESIGN.md.                                                     *)
(*                                                                         *)
(* Topology: star around the transit T:  A, B - T - X, Y.  A, B and T      *)
(* itself originate requests for the targets X and Y (T is a direct peer   *)
(* of the targets, A and B reach them through T).  Every link direction is *)
(* a FIFO queue of frames; the scheduler delivers the head of any queue    *)
(* (frame-level interleaving, exactly what the cmesh harness controls).    *)
(*                                                                         *)
(* One action = one critical section of the code:                          *)
(*   CtlRequest(a, tg)   SendControlRequestWithData up to the frame write  *)
(*                       (id taken from the agent's counter, pending entry)*)
(*   Deliver(u, v)       processFrame of the head frame of u -> v at v:    *)
(*     CtlAnswer         request for v itself: answered on the same link   *)
(*     CtlForward        request for somebody else: forwarding entry +     *)
(*                       frame to the next hop                             *)
(*     CtlDeliver        response matching one of v's own pending requests *)
(*     CtlRelayResponse  response matching a forwarding entry              *)
(*     CtlDrop           response matching nothing                         *)
(*   CtlCancel(a, id)    the caller's context ends: pending entry removed  *)
(*                                                                         *)
(* IDEAL design (= the repaired code): a transit never forwards a foreign  *)
(* request id.  It takes a fresh id from ITS OWN counter (the one its own  *)
(* requests use), remembers (fresh id -> previous hop, original id) and    *)
(* restores the original id on the way back.  Ids in one agent's tables    *)
(* are therefore unique, whoever issued the request.                       *)
(*                                                                         *)
(* Deviations (constant Dev):                                              *)
(*   DevForwardTableKeyedByIdOnly   the transit forwards the id it received*)
(*       and keys its table by that bare id (the pinned code): two askers  *)
(*       using the same id overwrite each other's entry.                   *)
(*   DevOwnPendingSwallowsRelayed   the transit rewrites ids, but from a   *)
(*       counter separate from the one of its own requests; the dispatch   *)
(*       looks at the agent's own pending table first (as the code does),  *)
(*       so an own request with the same number swallows a response that   *)
(*       should have been relayed.                                         *)
(***************************************************************************)
EXTENDS Naturals, Sequences, FiniteSets, TLC, Json

CONSTANTS Askers,    \* subset of {"A","B","T"}: agents that originate requests
          MaxReq,    \* total number of requests
          MaxPer,    \* requests per asker
          Cancels,   \* number of caller cancellations
          Dev,       \* enabled deviations
          Emit       \* TRUE: print every transition as JSON

Hub == "T"
Targets == {"X", "Y"}
Agent == {"A", "B", "T", "X", "Y"}
Leaf == Agent \ {Hub}
Ln(u, v) == u \o v
LinkNames == {Ln(x, Hub) : x \in Leaf} \cup {Ln(Hub, x) : x \in Leaf}
DevNames == {"DevForwardTableKeyedByIdOnly", "DevOwnPendingSwallowsRelayed"}
NextHop(a, tg) == IF a = Hub THEN tg ELSE Hub

ASSUME Askers \subseteq {"A", "B", "T"} /\ Dev \subseteq DevNames

VARIABLES next,      \* [Agent -> Nat]            nextControlID
          fnext,     \* [Agent -> Nat]            separate forward counter (only under DevOwnPendingSwallowsRelayed)
          pend,      \* [Agent -> SUBSET [id, tgt]]          pendingControl (tgt is ghost)
          fwd,       \* [Agent -> SUBSET [fid, src, oid]]    forwardedControl: key, previous hop, id to restore
          q,         \* [LinkNames -> Seq(frame)]            frames written and not yet processed
          done,      \* set of [a, id, who, org]             results returned to callers (org is ghost)
          reqs,      \* ghost: set of [a, id, tgt]           every request ever issued
          cancelled, \* ghost: set of [a, id]
          lost,      \* ghost: requests whose response was consumed by somebody else or dropped while pending
          last

vars == <<next, fnext, pend, fwd, q, done, reqs, cancelled, lost, last>>
view == <<next, fnext, pend, fwd, q, done, reqs, cancelled, lost>>

Org(a, id) == [a |-> a, id |-> id]
Req(id, tg, org) == [k |-> "req", id |-> id, who |-> tg, org |-> org]
Resp(id, ans, org) == [k |-> "resp", id |-> id, who |-> ans, org |-> org]
Send(qq, u, v, m) == [qq EXCEPT ![Ln(u, v)] = Append(@, m)]
IsPending(o) == \E p \in pend[o.a] : p.id = o.id

Init ==
  /\ next = [a \in Agent |-> 0]
  /\ fnext = [a \in Agent |-> 0]
  /\ pend = [a \in Agent |-> {}]
  /\ fwd = [a \in Agent |-> {}]
  /\ q = [l \in LinkNames |-> <<>>]
  /\ done = {} /\ reqs = {} /\ cancelled = {} /\ lost = {}
  /\ last = [act |-> "Init"]

(* SendControlRequestWithData: controlMu section + frame write *)
CtlRequest(a, tg) ==
  /\ Cardinality(reqs) < MaxReq
  /\ Cardinality({r \in reqs : r.a = a}) < MaxPer
  /\ LET id == next[a] + 1 IN
     /\ next' = [next EXCEPT ![a] = id]
     /\ pend' = [pend EXCEPT ![a] = @ \cup {[id |-> id, tgt |-> tg]}]
     /\ q' = Send(q, a, NextHop(a, tg), Req(id, tg, Org(a, id)))
     /\ reqs' = reqs \cup {[a |-> a, id |-> id, tgt |-> tg]}
     /\ last' = [act |-> "CtlRequest", a |-> a, tgt |-> tg, id |-> id]
  /\ UNCHANGED <<fnext, fwd, done, cancelled, lost>>

(* the caller gives up (context cancelled / timed out): pending entry removed *)
CtlCancel(a, id) ==
  /\ Cardinality(cancelled) < Cancels
  /\ \E p \in pend[a] : p.id = id
  /\ pend' = [pend EXCEPT ![a] = {p \in @ : p.id # id}]
  /\ cancelled' = cancelled \cup {Org(a, id)}
  /\ last' = [act |-> "CtlCancel", a |-> a, id |-> id]
  /\ UNCHANGED <<next, fnext, fwd, q, done, reqs, lost>>

(* ---- processFrame(u -> v) ------------------------------------------------*)
CtlAnswer(u, v, m, rest) ==
  /\ q' = Send([q EXCEPT ![Ln(u, v)] = rest], v, u, Resp(m.id, v, m.org))
  /\ last' = [act |-> "CtlAnswer", from |-> u, at |-> v, id |-> m.id]
  /\ UNCHANGED <<next, fnext, pend, fwd, done, reqs, cancelled, lost>>

CtlForward(u, v, m, rest) ==
  LET keyed == "DevForwardTableKeyedByIdOnly" \in Dev
      sepctr == ~keyed /\ "DevOwnPendingSwallowsRelayed" \in Dev
      fid == IF keyed THEN m.id ELSE IF sepctr THEN fnext[v] + 1 ELSE next[v] + 1
  IN
  /\ next' = IF keyed \/ sepctr THEN next ELSE [next EXCEPT ![v] = fid]
  /\ fnext' = IF sepctr THEN [fnext EXCEPT ![v] = fid] ELSE fnext
  /\ fwd' = [fwd EXCEPT ![v] = {f \in @ : f.fid # fid} \cup {[fid |-> fid, src |-> u, oid |-> m.id]}]
  /\ q' = Send([q EXCEPT ![Ln(u, v)] = rest], v, m.who, Req(fid, m.who, m.org))
  /\ last' = [act |-> "CtlForward", from |-> u, at |-> v, id |-> m.id, fid |-> fid]
  /\ UNCHANGED <<pend, done, reqs, cancelled, lost>>

(* handleControlResponse: both tables are consulted (and cleaned) by the bare id, own pending wins *)
CtlResponse(u, v, m, rest) ==
  LET P == {p \in pend[v] : p.id = m.id}
      F == {f \in fwd[v] : f.fid = m.id}
  IN
  /\ pend' = [pend EXCEPT ![v] = @ \ P]
  /\ fwd' = [fwd EXCEPT ![v] = @ \ F]
  /\ IF P # {} THEN
       /\ done' = done \cup {[a |-> v, id |-> m.id, who |-> m.who, org |-> m.org]}
       /\ q' = [q EXCEPT ![Ln(u, v)] = rest]
       /\ lost' = IF m.org # Org(v, m.id) /\ IsPending(m.org) THEN lost \cup {m.org} ELSE lost
       /\ last' = [act |-> "CtlDeliver", from |-> u, at |-> v, id |-> m.id, who |-> m.who]
     ELSE IF F # {} THEN
       LET f == CHOOSE f \in F : TRUE IN
       /\ q' = Send([q EXCEPT ![Ln(u, v)] = rest], v, f.src, Resp(f.oid, m.who, m.org))
       /\ last' = [act |-> "CtlRelayResponse", from |-> u, at |-> v, id |-> m.id, to |-> f.src, oid |-> f.oid]
       /\ UNCHANGED <<done, lost>>
     ELSE
       /\ q' = [q EXCEPT ![Ln(u, v)] = rest]
       /\ lost' = IF IsPending(m.org) THEN lost \cup {m.org} ELSE lost
       /\ last' = [act |-> "CtlDrop", from |-> u, at |-> v, id |-> m.id]
       /\ UNCHANGED done
  /\ UNCHANGED <<next, fnext, reqs, cancelled>>

Deliver(u, v) ==
  /\ Ln(u, v) \in LinkNames
  /\ q[Ln(u, v)] # <<>>
  /\ LET m == Head(q[Ln(u, v)])
         rest == Tail(q[Ln(u, v)])
     IN IF m.k = "req"
          THEN IF m.who = v THEN CtlAnswer(u, v, m, rest) ELSE CtlForward(u, v, m, rest)
          ELSE CtlResponse(u, v, m, rest)

Next ==
  \/ \E a \in Askers, tg \in Targets : CtlRequest(a, tg)
  \/ \E a \in Askers, id \in 1..MaxReq : CtlCancel(a, id)
  \/ \E x \in Leaf : Deliver(x, Hub) \/ Deliver(Hub, x)

Spec == Init /\ [][Next]_vars

(* ---- properties ----------------------------------------------------------*)
TypeOK ==
  /\ next \in [Agent -> 0..(2 * MaxReq)]
  /\ \A a \in Agent : \A p \in pend[a] : p.id \in 1..(2 * MaxReq) /\ p.tgt \in Targets
  /\ \A a \in Agent : \A f \in fwd[a] : f.src \in Agent

\* C39: a response is delivered only to the issuer of the matching request and carries the answer of the
\* agent that request targeted
DeliveredToIssuerFromTarget ==
  \A d \in done : /\ d.org = Org(d.a, d.id)
                  /\ \E r \in reqs : r.a = d.a /\ r.id = d.id /\ r.tgt = d.who
\* ... and nobody else consumes or drops it while the issuer is still waiting
NoResponseLost == lost = {}
\* every request that was not cancelled is answered once the network is quiet
Quiet == \A l \in LinkNames : q[l] = <<>>
QuietComplete ==
  Quiet => \A r \in reqs : \/ Org(r.a, r.id) \in cancelled
                           \/ \E d \in done : d.a = r.a /\ d.id = r.id
\* ids inside one agent's tables are unique (what makes the dispatch by bare id sound)
TablesDisjoint == \A a \in Agent : \A p \in pend[a], f \in fwd[a] : p.id # f.fid
\* bookkeeping returns to empty
QuietClean == Quiet => \A a \in Agent : fwd[a] = {} /\ pend[a] = {}

Frames(s) == [i \in 1..Len(s) |-> [k |-> s[i].k, id |-> s[i].id, who |-> s[i].who]]
Proj(n, p, f, qq, d, rq, cn) ==
  [next |-> n,
   pend |-> [a \in Agent |-> {x.id : x \in p[a]}],
   fwd |-> f,
   q |-> [l \in LinkNames |-> Frames(qq[l])],
   done |-> {[a |-> x.a, id |-> x.id, who |-> x.who,
              tgt |-> (CHOOSE r \in rq : r.a = x.a /\ r.id = x.id).tgt] : x \in d},
   g |-> [reqs |-> rq, cancelled |-> cn]]   \* ghosts that bound the model (not compared with the code)

EmitEdge ==
  Emit => PrintT("EDGE " \o ToJson([s |-> Proj(next, pend, fwd, q, done, reqs, cancelled),
                                     a |-> last',
                                     t |-> Proj(next', pend', fwd', q', done', reqs', cancelled')]))
=============================================================================
