------------------------------- MODULE Embed -------------------------------
(***************************************************************************)
(* Embedded configuration trailer arithmetic (C36), internal/embed.        *)
(*                                                                         *)
(*   file = [original binary][XOR'd config: L bytes][L as 64-bit LE][magic]*)
(*                                                  \------ footer F -----/ *)
(*                                                                         *)
(* The readers take the file size S (a machine integer that is never       *)
(* negative), look for the magic in the last 8 bytes and read the length   *)
(* word L, an UNSIGNED W-bit word written by whoever produced the file.    *)
(* The model scales the 64-bit word down to W bits (W = 4: values 0..15,   *)
(* "2^63" is 8, "2^64-1" is 15) and enumerates every file size 0..MaxSize  *)
(* with and without magic and every value of L.                            *)
(*                                                                         *)
(* Oracle (from the statement): every reader returns a result or an error, *)
(* never crashes, never touches bytes outside [0, S); when the trailer is  *)
(* well formed (magic, 1 <= L <= S-F) the result is exactly the L bytes    *)
(* before the footer / the S-F-L bytes before those.  Where the statement  *)
(* leaves a choice the oracle is a SET of acceptable outcomes:             *)
(*   L = 0 with magic: error, or an empty config; original size S or S-F;  *)
(*   malformed trailer (L > S-F): an error, or any size inside the file.   *)
(*                                                                         *)
(* Impl*(v, D) operators transcribe the algorithm of embed.go (D = set of   *)
(* deviations in force; every VEC record carries the ideal result and the  *)
(* result with all deviations, used to classify a wrong real answer).  The ideal *)
(* transcription compares the length as an unsigned word; the deviations   *)
(* reproduce the conversions of the word to a signed integer:              *)
(*   DevSignedCast      ReadEmbeddedConfig: `int64(L) > S-F` lets L >= 2^(W-1)*)
(*                      through, then make([]byte, L) panics               *)
(*   DevNoLengthCheck   GetOriginalBinarySize: S-F-int64(L) unchecked      *)
(*                      (negative, or beyond the file) and                 *)
(*                      CopyBinaryWithoutConfig allocating that many bytes *)
(***************************************************************************)
EXTENDS Integers, Sequences, FiniteSets, TLC, Json

CONSTANTS W,        \* word size in bits
          MaxSize,  \* largest file size
          F,        \* footer size (16 in the code)
          Dev,
          Emit      \* TRUE: print one VEC record per vector

DevNames == {"DevSignedCast", "DevNoLengthCheck"}
ASSUME Dev \subseteq DevNames

RECURSIVE Pow2_(_)
Pow2_(n) == IF n = 0 THEN 1 ELSE 2 * Pow2_(n - 1)
WMax == Pow2_(W) - 1            \* 2^W - 1
Half == Pow2_(W - 1)            \* 2^(W-1): first word value that is negative after the cast
Signed(x) == IF x >= Half THEN x - (WMax + 1) ELSE x

\* A real file is smaller than 2^63 bytes, so a length word with the top bit set can never fit in
\* front of the footer; the scaled model keeps that separation (W = 4, F = 16: sizes 0..23).
ASSUME MaxSize - F < Half

Vectors == [size : 0..MaxSize, magic : BOOLEAN, len : 0..WMax]

VARIABLE vec
Init == vec \in Vectors
Next == UNCHANGED vec

(* ---- oracle ------------------------------------------------------------*)
\* outcomes:  [k |-> "err"] | [k |-> "ok", from |-> a, n |-> b]  (bytes [a, a+b) of the file)
\*            sizes: [k |-> "size", n |-> x]     crashes: [k |-> "panic"]
Err == [k |-> "err"]
Ok(a, n) == [k |-> "ok", from |-> a, n |-> n]
Size(n) == [k |-> "size", n |-> n]
Panic == [k |-> "panic"]

HasTrailer(v) == v.size >= F /\ v.magic
WellFormed(v) == HasTrailer(v) /\ v.len >= 1 /\ v.len <= v.size - F

OracleHas(v) == {HasTrailer(v)}

OracleRead(v) ==
  IF ~HasTrailer(v) THEN {Err}
  ELSE IF v.len = 0 THEN {Err, Ok(v.size - F, 0)}
  ELSE IF WellFormed(v) THEN {Ok(v.size - F - v.len, v.len)}
  ELSE {Err}

OracleOrig(v) ==
  IF ~HasTrailer(v) THEN {Size(v.size)}
  ELSE IF v.len = 0 THEN {Size(v.size), Size(v.size - F)}
  ELSE IF WellFormed(v) THEN {Size(v.size - F - v.len)}
  ELSE {Err} \cup {Size(n) : n \in 0..v.size}

\* stripping copies a prefix of the file: Ok(0, n) with n an acceptable original size
OracleCopy(v) == {IF o.k = "size" THEN Ok(0, o.n) ELSE o : o \in OracleOrig(v)}

\* a read is inside the file
Inside(v, o) == o.k = "ok" => (o.from >= 0 /\ o.n >= 0 /\ o.from + o.n <= v.size)

(* ---- transcription of embed.go -----------------------------------------*)
ImplHas(v) == IF v.size < F THEN FALSE ELSE v.magic

ImplRead(v, D) ==
  IF v.size < F THEN Err
  ELSE IF ~v.magic THEN Err
  ELSE IF v.len = 0 THEN Err
  ELSE IF "DevSignedCast" \in D
    THEN IF Signed(v.len) > v.size - F THEN Err
         ELSE IF v.len >= Half THEN Panic           \* make([]byte, L) with L >= 2^(W-1)
         ELSE Ok(v.size - F - Signed(v.len), v.len)
    ELSE IF v.len > v.size - F THEN Err            \* unsigned comparison
         ELSE Ok(v.size - F - v.len, v.len)

ImplOrig(v, D) ==
  IF v.size < F THEN Size(v.size)
  ELSE IF ~v.magic THEN Size(v.size)
  ELSE IF "DevNoLengthCheck" \in D THEN Size(v.size - F - Signed(v.len))
  ELSE IF v.len > v.size - F THEN Err
  ELSE Size(v.size - F - v.len)

ImplCopy(v, D) ==
  LET o == ImplOrig(v, D) IN
  IF o.k = "err" THEN Err
  ELSE IF o.n < 0 THEN Panic                        \* make([]byte, negative)
  ELSE IF o.n > v.size THEN Err                     \* io.ReadFull: unexpected EOF
  ELSE Ok(0, o.n)

(* ---- design-level verdict ----------------------------------------------*)
ReadOK == ImplRead(vec, Dev) \in OracleRead(vec) /\ Inside(vec, ImplRead(vec, Dev))
HasOK  == ImplHas(vec) \in OracleHas(vec)
OrigOK == ImplOrig(vec, Dev) \in OracleOrig(vec)
CopyOK == ImplCopy(vec, Dev) \in OracleCopy(vec) /\ Inside(vec, ImplCopy(vec, Dev))

EmitVec ==
  Emit => PrintT("VEC " \o ToJson([size |-> vec.size, magic |-> vec.magic, len |-> vec.len,
                                     signed |-> Signed(vec.len), wellformed |-> WellFormed(vec),
                                     has |-> ImplHas(vec),
                                     read |-> ImplRead(vec, {}), orig |-> ImplOrig(vec, {}), copy |-> ImplCopy(vec, {}),
                                     dread |-> ImplRead(vec, DevNames), dorig |-> ImplOrig(vec, DevNames),
                                     dcopy |-> ImplCopy(vec, DevNames),
                                     oread |-> OracleRead(vec),
                                     oorig_err |-> (Err \in OracleOrig(vec)),
                                     oorig |-> {o.n : o \in {x \in OracleOrig(vec) : x.k = "size"}}]))
=============================================================================
