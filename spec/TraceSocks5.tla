---------------------------- MODULE TraceSocks5 ----------------------------
(* Trace validation: executions recorded from the real SOCKS5 handler (one   *)
(* connection after the other, separated by Reset events that carry the      *)
(* configuration) must be behaviours of Socks5.  Every Tok event carries the  *)
(* client token (abstracted by the harness from the random bytes it sent),    *)
(* the server messages received in response, the command executed and whether *)
(* the server closed the connection.                                          *)
EXTENDS Socks5, IOUtils

VARIABLE l
Trace == ndJsonDeserialize(IOEnv.TRACE_FILE)
ev == Trace[l]

TraceInit == Fresh(Cfg("raw", FALSE, "none", TRUE, TRUE, "ok")) /\ l = 1 /\ TLCSet(1, 1)


Consume(name) == l <= Len(Trace) /\ ev.ev = name /\ l' = l + 1

TraceTok == /\ Consume("Tok")
            /\ Step(ev.tok)
            /\ last'.rep = ev.rep
            /\ last'.ex = ev.ex
            /\ (phase' = "closed") = ev.closed

\* datagram / mesh-reply events of a UDP association also carry the projected association state
TraceUdp == /\ Consume("Udp")
            /\ Step(ev.tok)
            /\ last'.res = ev.res
            /\ client' = ev.client /\ relayed' = ev.relayed /\ replies' = ev.replies /\ declared' = ev.declared

TraceReset == /\ Consume("Reset")
              /\ cfg' = ev.cfg
              /\ phase' = IF ev.cfg.tr = "ws" THEN "http" ELSE "greet"
              /\ method' = "none" /\ authed' = FALSE /\ sentValid' = FALSE /\ exec' = "" /\ nrep' = 0
              /\ assoc' = "none" /\ declared' = "none" /\ reqdecl' = "none" /\ client' = "none" /\ relayed' = <<>>
              /\ replies' = <<>> /\ ndg' = 0 /\ nmr' = 0 /\ warm' = FALSE /\ nconn' = 1
              /\ last' = [act |-> "Init"]

\* the next connection to the same running server (the server's memory - warm - is kept)
TraceConn == Consume("Conn") /\ Step(NC)

TraceNext == TraceTok \/ TraceUdp \/ TraceReset \/ TraceConn
TraceSpec == TraceInit /\ [][TraceNext]_<<vars, l>>

HighWater == TLCSet(1, IF l > TLCGet(1) THEN l ELSE TLCGet(1))
TraceAccepted == /\ PrintT("HW " \o ToString(TLCGet(1)))
                 /\ PrintT("LEN " \o ToString(Len(Trace)))
                 /\ TLCGet(1) = Len(Trace) + 1
=============================================================================
