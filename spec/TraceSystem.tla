---------------------------- MODULE TraceSystem ----------------------------
(***************************************************************************)
(* Trace validation of System.tla against executions recorded on real      *)
(* agents (harness/agent/system_test.go, controlled in-memory mesh).       *)
(*                                                                         *)
(* The recording is OPERATION-LEVEL: the harness performs one system       *)
(* operation, lets the mesh run to quiescence and logs one event with the  *)
(* operation, its arguments and the PROJECTED system state.  An event      *)
(* therefore corresponds to the system action followed by the silent       *)
(* steps the agents take by themselves (Deliver, PeerGone, Replay,         *)
(* WakeAnnounce, the target's echo, reconnects after a wake) until         *)
(* nothing is left to do:                                                  *)
(*     Begin   (phase idle -> settle)  the event's system action           *)
(*     Silent  (phase settle)          any internal step                   *)
(*     Settle  (phase settle -> idle)  quiescent and the projection of the *)
(*                                     state equals the logged one: the    *)
(*                                     event is consumed                   *)
(* TLC searches the orders of the silent steps; the high-water mark of     *)
(* consumed events (TLCSet/TLCGet 1) decides acceptance (POSTCONDITION).   *)
(* All invariants / action properties of System.tla are evaluated on every *)
(* state of the search, i.e. also on the intermediate states.              *)
(*                                                                         *)
(* Event fields: ev (Reset Connect Fail Announce Open Data Close Sleep     *)
(* Wake Release), arguments (l, a, t, i, x, res), links (Wake: links that  *)
(* may reconnect by themselves), parked (pairs <<a,b>> whose disconnect    *)
(* handling at a is held back by the harness: hook peer.read.disconnect),  *)
(* held (directions <<a,b>> whose frames the harness keeps in flight),     *)
(* st = projected state (rx / ri: per tunnel the unit numbers delivered to *)
(* the target / read back by the ingress application, in order).           *)
(***************************************************************************)
EXTENDS System, IOUtils

CONSTANT Lag     \* 0: the search covers every order of the silent steps.  n > 0: states that are more than n events
                 \* behind the furthest state found so far are not expanded (fast pass: an execution accepted this way
                 \* is accepted; a rejection is only final when the full search rejects it too)

VARIABLES l,      \* next event
          phase   \* "idle" | "settle"

Trace == ndJsonDeserialize(IOEnv.TRACE_FILE)
ev == Trace[l]

tvars == <<vars, l, phase>>
S(t) == Range(t)                        \* JSON array -> set
LinkOf(t) == {t[1], t[2]}
Parked == {<<p[1], p[2]>> : p \in S(ev.parked)}
Held == {<<p[1], p[2]>> : p \in S(ev.held)}     \* directions whose frames the harness holds back (in flight)

TraceInit == /\ InitWith([links |-> {}, exits |-> {}, sleepers |-> {}, ingress |-> {}])
             /\ l = 1 /\ phase = "idle" /\ TLCSet(1, 1)

Idle(name) == phase = "idle" /\ l <= Len(Trace) /\ ev.ev = name
Begin(name) == Idle(name) /\ phase' = "settle" /\ l' = l

TReset == /\ Idle("Reset")
          /\ ResetTo([links |-> {LinkOf(x) : x \in S(ev.links)}, exits |-> S(ev.exits),
                      sleepers |-> S(ev.sleepers), ingress |-> S(ev.ingress)])
          /\ l' = l + 1 /\ phase' = "idle"

TConnect  == Begin("Connect") /\ Connect(LinkOf(ev.l))
TFail     == Begin("Fail") /\ LinkFail(LinkOf(ev.l))
TAnnounce == Begin("Announce") /\ Announce(ev.a)
TSleep    == Begin("Sleep") /\ Sleep(ev.a)
TWake     == Begin("Wake") /\ Wake(ev.a)
TClose    == Begin("Close") /\ CloseTunnel(ev.t)
TRelease  == Begin("Release") /\ UNCHANGED vars

\* Agent.Dial: through the mesh when a route exists and its next hop is connected, else a direct dial (no tunnel)
NoMeshRoute(i, x) == RouteTo(i, x) = {} \/ \A e \in RouteTo(i, x) : reg[i][e.nh] = 0
TOpen == /\ Begin("Open")
         /\ IF ev.res = "direct" THEN NoMeshRoute(ev.i, ev.x) /\ UNCHANGED vars
            ELSE OpenTunnel(ev.t, ev.i, ev.x)
\* meshConn.Write: one unit; an error when the stream is closed or the next hop is not connected
TData == /\ Begin("Data")
         /\ IF ev.res = "werr"
            THEN (tun[ev.t].st # "open" \/ ~CanSend(tun[ev.t].i, tun[ev.t].nh)) /\ UNCHANGED vars
            ELSE DataFwd(ev.t)

Going == {x \in gone : <<x[1], x[2]>> \notin Parked}
Silent ==
  /\ phase = "settle"
  /\ \/ \E d \in Dirs \ Held : Deliver(d[1], d[2]) \/ DropStale(d[1], d[2])
     \/ \E x \in Going : PeerGone(x[1], x[2], x[3])
     \/ \E x \in pend : Replay(x[1], x[2])
     \/ \E a \in Agent : WakeAnnounce(a)
     \/ \E t \in Tunnels : DataRev(t)
     \/ ev.ev = "Wake" /\ \E x \in S(ev.links) : Connect(LinkOf(x))
     \/ ev.ev = "Open" /\ ev.res = "timeout" /\ OpenTimeout(ev.t)
  /\ UNCHANGED <<l, phase>>

\* quiescent, except for the disconnect handling the harness holds back
QuiescentP ==
  /\ \A d \in Dirs \ Held : q[d] = <<>>
  /\ pend = {} /\ {<<x[1], x[2]>> : x \in gone} = Parked
  /\ \A a \in Agent : ~wann[a]
  /\ \A t \in Tunnels : echoN[t] < Len(rcvX[t]) => ~\E x \in Agent : \E r \in exr[x] : r.t = t

Matches(st) ==
  /\ \A a \in Agent :
       /\ S(st.reg[a]) = {b \in Agent : reg[a][b] > 0}
       /\ S(st.rt[a]) = {<<e.o, e.r, e.nh, Len(e.path)>> : e \in tbl[a]}
       /\ st.relay[a] = Cardinality(relay[a])
       /\ st.ing[a] = Cardinality(ingr[a])
       /\ st.ex[a] = Cardinality(exr[a])
       /\ st.awake[a] = awake[a]
  /\ \A t \in 1..Len(st.rx) : st.rx[t] = rcvX[t] /\ st.ri[t] = rcvI[t]

Outcome ==
  /\ ev.ev = "Open" => /\ ev.res = "mesh" => tun[ev.t].st = "open"
                       /\ ev.res \in {"refused", "timeout"} => tun[ev.t].st = "failed"
  /\ ev.ev = "Wake" => \A x \in S(ev.links) : live[LinkOf(x)] > 0

Settle ==
  /\ phase = "settle" /\ QuiescentP /\ Matches(ev.st) /\ Outcome
  /\ l' = l + 1 /\ phase' = "idle"
  /\ UNCHANGED vars

TraceNext == TReset \/ TConnect \/ TFail \/ TAnnounce \/ TSleep \/ TWake \/ TClose \/ TRelease \/ TOpen \/ TData
             \/ Silent \/ Settle
TraceSpec == TraceInit /\ [][TraceNext]_tvars

HighWater == /\ TLCSet(1, IF l > TLCGet(1) THEN l ELSE TLCGet(1))
             /\ (Lag = 0 \/ l + Lag >= TLCGet(1))
TraceAccepted == /\ PrintT("HW " \o ToString(TLCGet(1)))
                 /\ PrintT("LEN " \o ToString(Len(Trace)))
                 /\ TLCGet(1) = Len(Trace) + 1
=============================================================================
