---------------------------- MODULE TraceSession ----------------------------
(* Trace validation: executions recorded from the real SessionKey (ndjson,   *)
(* many traces concatenated, separated by Reset events) must be behaviours   *)
(* of Session.  Every event carries its arguments and the projected state    *)
(* after the call, so the search is linear in the trace length.              *)
EXTENDS Session, IOUtils

VARIABLES l,      \* next event to consume
          pend    \* concurrent Decrypt calls that were invoked and have not returned: [id, e, dir, ctr, res]
Trace == ndJsonDeserialize(IOEnv.TRACE_FILE)
ev == Trace[l]

TraceInit == Init /\ l = 1 /\ pend = {} /\ TLCSet(1, 1)

Consume(name) == l <= Len(Trace) /\ ev.ev = name /\ l' = l + 1

StateMatches == send' = ev.st.send /\ recv' = ev.st.recv

TraceEncrypt == Consume("Encrypt") /\ UNCHANGED pend /\ Encrypt(ev.e)
                /\ last'.dir = ev.dir /\ last'.ctr = ev.ctr /\ StateMatches
\* concurrent senders: only the nonce was observed
TraceSeal    == Consume("Seal") /\ UNCHANGED pend /\ Encrypt(ev.e) /\ last'.dir = ev.dir /\ last'.ctr = ev.ctr
TraceDeliver == Consume("Deliver") /\ UNCHANGED pend /\ Deliver(ev.e, [dir |-> ev.dir, ctr |-> ev.ctr])
                /\ last'.res = ev.res /\ StateMatches
TraceForge   == Consume("Forge") /\ UNCHANGED pend /\ Forge(ev.e, ev.dir, ev.ctr, ev.kind)
                /\ last'.res = ev.res /\ StateMatches
TraceReset   == Consume("Reset") /\ pend' = {}
                /\ send' = [e \in End |-> 0] /\ recv' = [e \in End |-> 0] /\ wire' = {}
                /\ nsealed' = [e \in End |-> 0] /\ accepted' = [e \in End |-> <<>>]
                /\ last' = [act |-> "Init"]

(* Concurrent Decrypt calls (several goroutines on one SessionKey): the call and the return are logged   *)
(* (global sequence taken before the call and after the return); the linearisation point is an internal  *)
(* step (Lin) somewhere in between, at which the spec's atomic Deliver takes effect.  The Call event      *)
(* carries the result the call eventually returned (the harness writes the trace after the run), so Lin  *)
(* only explores linearisations consistent with the observed results.                                    *)
TraceCall == Consume("Call") /\ UNCHANGED vars
             /\ pend' = pend \cup {[id |-> ev.id, e |-> ev.e, dir |-> ev.dir, ctr |-> ev.ctr, want |-> ev.res, done |-> FALSE]}
Lin       == \E p \in pend :
                /\ ~p.done
                /\ Deliver(p.e, [dir |-> p.dir, ctr |-> p.ctr])
                /\ last'.res = p.want
                /\ pend' = (pend \ {p}) \cup {[p EXCEPT !.done = TRUE]}
                /\ UNCHANGED l
TraceRet  == Consume("Ret") /\ UNCHANGED vars
             /\ \E p \in pend : p.id = ev.id /\ p.done /\ pend' = pend \ {p}

TraceNext == TraceEncrypt \/ TraceSeal \/ TraceDeliver \/ TraceForge \/ TraceReset \/ TraceCall \/ Lin \/ TraceRet
TraceSpec == TraceInit /\ [][TraceNext]_<<vars, l, pend>>

HighWater == TLCSet(1, IF l > TLCGet(1) THEN l ELSE TLCGet(1))
TraceAccepted == /\ PrintT("HW " \o ToString(TLCGet(1)))
                 /\ PrintT("LEN " \o ToString(Len(Trace)))
                 /\ TLCGet(1) = Len(Trace) + 1
=============================================================================
