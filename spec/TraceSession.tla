---------------------------- MODULE TraceSession ----------------------------
(* Trace validation: executions recorded from the real SessionKey (ndjson,   *)
(* many traces concatenated, separated by Reset events) must be behaviours   *)
(* of Session.  Every event carries its arguments and the projected state    *)
(* after the call, so the search is linear in the trace length.              *)
EXTENDS Session, IOUtils

VARIABLE l
Trace == ndJsonDeserialize(IOEnv.TRACE_FILE)
ev == Trace[l]

TraceInit == Init /\ l = 1 /\ TLCSet(1, 1)

Consume(name) == l <= Len(Trace) /\ ev.ev = name /\ l' = l + 1

StateMatches == send' = ev.st.send /\ recv' = ev.st.recv

TraceEncrypt == Consume("Encrypt") /\ Encrypt(ev.e)
                /\ last'.dir = ev.dir /\ last'.ctr = ev.ctr /\ StateMatches
\* concurrent senders: only the nonce was observed
TraceSeal    == Consume("Seal") /\ Encrypt(ev.e) /\ last'.dir = ev.dir /\ last'.ctr = ev.ctr
TraceDeliver == Consume("Deliver") /\ Deliver(ev.e, [dir |-> ev.dir, ctr |-> ev.ctr])
                /\ last'.res = ev.res /\ StateMatches
TraceForge   == Consume("Forge") /\ Forge(ev.e, ev.dir, ev.ctr, ev.kind)
                /\ last'.res = ev.res /\ StateMatches
TraceReset   == Consume("Reset")
                /\ send' = [e \in End |-> 0] /\ recv' = [e \in End |-> 0] /\ wire' = {}
                /\ nsealed' = [e \in End |-> 0] /\ accepted' = [e \in End |-> <<>>]
                /\ last' = [act |-> "Init"]

TraceNext == TraceEncrypt \/ TraceSeal \/ TraceDeliver \/ TraceForge \/ TraceReset
TraceSpec == TraceInit /\ [][TraceNext]_<<vars, l>>

HighWater == TLCSet(1, IF l > TLCGet(1) THEN l ELSE TLCGet(1))
TraceAccepted == /\ PrintT("HW " \o ToString(TLCGet(1)))
                 /\ PrintT("LEN " \o ToString(Len(Trace)))
                 /\ TLCGet(1) = Len(Trace) + 1
=============================================================================
