------------------------------- MODULE Window -------------------------------
(***************************************************************************)
(* Deterministic listening windows (C33), internal/sleep/window.go.        *)
(*                                                                         *)
(* Time is an integer (the binding scales one unit to one second), the     *)
(* epoch is 0.  An agent with offset `off` owns exactly one window per     *)
(* cycle k (k any integer, also negative = before the epoch):              *)
(*        start(k) = k*C + off        end(k) = start(k) + W                *)
(* with 0 <= off and off + W <= C (the window fits inside its cycle; the   *)
(* code draws off from the agent identifier modulo C - W).                 *)
(*                                                                         *)
(* Oracle, from the statement:                                             *)
(*   next window  = the earliest window that has not yet ended: the least  *)
(*                  k with end(k) >= t;  at the instant t = end(k) the     *)
(*                  statement does not say whether the window "has ended", *)
(*                  so both k and k+1 are acceptable there;                *)
(*   in window    = some k has start(k) - tol <= t <= end(k) + tol; at the *)
(*                  two boundary instants of a tolerance interval both     *)
(*                  answers are acceptable (unless t is strictly inside    *)
(*                  another window's interval).                            *)
(* Also bound (surrounding behaviour, same arithmetic):                    *)
(*   previous window = the latest window that has started (start(k) <= t,  *)
(*                  either answer at t = start(k));                        *)
(*   time until   = 0 when in window, else the distance to the next        *)
(*                  start(k) - tol.                                        *)
(*                                                                         *)
(* Impl*(v, D) transcribe window.go; D is the set of deviations in force:  *)
(*   DevTruncDiv            cycleStart divides the elapsed time with Go's  *)
(*                          truncating `/`: before the epoch it returns    *)
(*                          the start of the FOLLOWING cycle               *)
(*   DevNoTrailingTolerance GetWindowInfo only looks at the next window,   *)
(*                          so the tolerance after a window's end is never *)
(*                          "in window"                                    *)
(***************************************************************************)
EXTENDS Integers, Sequences, FiniteSets, TLC, Json

CONSTANTS MinCycle, MaxCycle,  \* cycle lengths
          MaxTol,              \* tolerances 0..MaxTol
          Dev,
          Emit

\* DevMemoisedLastWindow only exists in the stateful wrapper WindowSeq.tla (a calculator that remembers its last answer)
DevNames == {"DevTruncDiv", "DevNoTrailingTolerance", "DevMemoisedLastWindow"}
ASSUME Dev \subseteq DevNames

Vectors == {v \in [c : MinCycle..MaxCycle, w : 1..MaxCycle, tol : 0..MaxTol, off : 0..MaxCycle,
                   t : (-2 * MaxCycle)..(3 * MaxCycle)] :
              /\ v.w < v.c
              /\ v.off < v.c - v.w                 \* every offset the code can draw: 0 .. C-W-1
              /\ v.t >= -2 * v.c /\ v.t <= 3 * v.c}

VARIABLE vec
Init == vec \in Vectors
Next == UNCHANGED vec

Start(v, k) == k * v.c + v.off
End(v, k) == Start(v, k) + v.w
K == -4..5         \* enough cycles around the instants -2C..3C

(* ---- oracle ------------------------------------------------------------*)
Min(S) == CHOOSE x \in S : \A y \in S : x <= y
Max(S) == CHOOSE x \in S : \A y \in S : x >= y

NextK(v) == Min({k \in K : End(v, k) >= v.t})
OracleNext(v) == {Start(v, NextK(v))} \cup (IF End(v, NextK(v)) = v.t THEN {Start(v, NextK(v) + 1)} ELSE {})

PrevK(v) == Max({k \in K : Start(v, k) <= v.t})
OraclePrev(v) == {Start(v, PrevK(v))} \cup (IF Start(v, PrevK(v)) = v.t THEN {Start(v, PrevK(v) - 1)} ELSE {})

StrictlyIn(v) == \E k \in K : Start(v, k) - v.tol < v.t /\ v.t < End(v, k) + v.tol
In(v) == \E k \in K : Start(v, k) - v.tol <= v.t /\ v.t <= End(v, k) + v.tol
OracleIn(v) == IF StrictlyIn(v) THEN {TRUE} ELSE IF In(v) THEN {TRUE, FALSE} ELSE {FALSE}

OracleUntil(v) == (IF TRUE \in OracleIn(v) THEN {0} ELSE {})
                  \cup (IF FALSE \in OracleIn(v)
                          THEN {Min({Start(v, k) - v.tol - v.t : k \in {j \in K : Start(v, j) - v.tol >= v.t}})}
                          ELSE {})

(* ---- transcription of window.go ----------------------------------------*)
\* Go's integer division truncates toward zero; TLA+'s \div rounds down
TruncDiv(a, b) == IF a >= 0 THEN a \div b ELSE -((-a) \div b)
CycleStart(v, t, D) == (IF "DevTruncDiv" \in D THEN TruncDiv(t, v.c) ELSE t \div v.c) * v.c

\* NextWindow: this cycle's window unless `now.After(windowEnd)`
ImplNext(v, D) ==
  LET ws == CycleStart(v, v.t, D) + v.off IN
  IF v.t > ws + v.w THEN ws + v.c ELSE ws

\* PreviousWindow: this cycle's window unless `now.Before(windowStart)`
ImplPrev(v, D) ==
  LET ws == CycleStart(v, v.t, D) + v.off IN
  IF v.t < ws THEN ws - v.c ELSE ws

\* GetWindowInfo: the window that is reported (start); in the trailing tolerance of the previous window
\* the ideal reports that window
ImplInfoStart(v, D) ==
  LET s == ImplNext(v, D) IN
  IF "DevNoTrailingTolerance" \notin D /\ v.t < s - v.tol /\ v.t < ImplPrev(v, D) + v.w + v.tol
    THEN ImplPrev(v, D) ELSE s

\* CurrentlyActive = !now.Before(safeStart) && now.Before(safeEnd)
ImplIn(v, D) == LET s == ImplInfoStart(v, D) IN v.t >= s - v.tol /\ v.t < s + v.w + v.tol
ImplUntil(v, D) == LET s == ImplInfoStart(v, D) IN IF v.t < s - v.tol THEN s - v.tol - v.t ELSE 0

(* ---- design-level verdict ----------------------------------------------*)
NextOK  == ImplNext(vec, Dev) \in OracleNext(vec)
InOK    == ImplIn(vec, Dev) \in OracleIn(vec)
PrevOK  == ImplPrev(vec, Dev) \in OraclePrev(vec)
UntilOK == ImplUntil(vec, Dev) \in OracleUntil(vec)
\* windows recur once per cycle and fit inside it (a property of the domain the code draws offsets from)
FitsOK  == \A k \in K : Start(vec, k) >= k * vec.c /\ End(vec, k) <= (k + 1) * vec.c

EmitVec ==
  Emit => PrintT("VEC " \o ToJson([c |-> vec.c, w |-> vec.w, tol |-> vec.tol, off |-> vec.off, t |-> vec.t,
                                     onext |-> OracleNext(vec), oin |-> OracleIn(vec), oprev |-> OraclePrev(vec),
                                     ountil |-> OracleUntil(vec),
                                     next |-> ImplNext(vec, {}), inw |-> ImplIn(vec, {}), prev |-> ImplPrev(vec, {}),
                                     until |-> ImplUntil(vec, {}), info |-> ImplInfoStart(vec, {}),
                                     dev |-> [d \in DevNames |->
                                               [next |-> ImplNext(vec, {d}), inw |-> ImplIn(vec, {d}),
                                                prev |-> ImplPrev(vec, {d}), until |-> ImplUntil(vec, {d})]]]))
=============================================================================
