CONSTANTS MaxC = 1073741824 MaxMsgs = 1073741824 Dev = {} Emit = FALSE
INIT TraceInit
NEXT TraceNext
CONSTRAINT HighWater
POSTCONDITION TraceAccepted
