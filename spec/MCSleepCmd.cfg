CONSTANTS MaxClock = 4 W = 2 TTL = 2 Cap = 1
 Genuine <- MCGenuine
 ForgedIds = {"f"} LocalIds = {}
 KeyModes = {TRUE} SleepModes = {TRUE}
 Paths = {"sleep","wake"} Peers = {"p1","p2"} NewPeers = {} Maintenance = TRUE SplitCleanup = FALSE
 Dev = {} OneDev = FALSE Emit = FALSE
INIT Init
NEXT Next
VIEW view
ACTION_CONSTRAINT EmitEdge
INVARIANTS TypeOK OnlyAuthenticActs PendingAuthentic AtMostOnce RememberedWhileValid NoPoisoning NeverSuppressed
PROPERTIES OnlyAuthenticEffects RejectedChangesNothing
