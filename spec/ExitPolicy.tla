----------------------------- MODULE ExitPolicy -----------------------------
(***************************************************************************)
(* Exit policy of one agent (C19) and the port-forward key map (C20).      *)
(*                                                                         *)
(* Part 1 (C19).  State that decides whether the exit handler dials:       *)
(*   cfg      the configuration (exit enabled?, configured networks in     *)
(*            order, domain patterns) -- chosen at Init, never changes     *)
(*   dyn      routing.Manager.dynamicRoutes: network -> metric (0 absent)  *)
(*   allow    exit.Handler.cfg.AllowedRoutes AS THE CODE KEEPS IT: a list  *)
(*            (append on add, delete first equal entry on remove)          *)
(*   handler  does a.exitHandler exist (created at start when exit is      *)
(*            enabled, or on demand by the first dynamic add)              *)
(* One action per call of Agent.ManageRoute (add / update = add of an      *)
(* existing dynamic route / remove / list / malformed) and one per         *)
(* STREAM_OPEN processed by Agent.handleStreamOpen -> exit.Handler.        *)
(*                                                                         *)
(* Networks, addresses and names are abstract identifiers; the real CIDRs, *)
(* addresses and names they stand for are carried in the records           *)
(* (NetCIDR, Dests[..].addr) so that the emitted edges are directly usable *)
(* by the Go harness.  Membership of an address in a network is the table  *)
(* Covers (checked against net.IPNet.Contains by the harness at start).    *)
(*                                                                         *)
(* Deviations (constant Dev; the ideal design is Dev = {}):                 *)
(*   DevDuplicateOnReAdd  re-adding a present dynamic route appends a      *)
(*                        second allow-list entry (the pinned code did     *)
(*                        this; remove then leaves one entry behind)       *)
(*   DevRemoveKeepsAllow  remove forgets the allow list                    *)
(*   DevWildcardNoDot     "*.x" compared as a plain string suffix          *)
(*   DevDefaultRouteAnyFamily  a /0 entry of either family permits every   *)
(*                        address of both families                         *)
(*   DevForwardPrefixMatch, DevForwardCaseFold  (part 2)                   *)
(*                                                                         *)
(* Part 2 (C20) is at the end: the forward key universe as VEC records.    *)
(***************************************************************************)
EXTENDS Integers, Sequences, FiniteSets, TLC, Json

CONSTANTS Dev,       \* enabled deviations
          Emit,      \* TRUE: print every transition as JSON
          Hist,      \* TRUE: the sequence of route operations is part of the state (all histories <= MaxOps)
          MaxOps,    \* bound on route-management operations when Hist
          Metrics,   \* metrics used by add / update
          CfgNames,  \* configurations explored (subset of DOMAIN Configs)
          MaxAllow,  \* bound on Len(allow) (only reached under deviations)
          ProbeOnly, \* TRUE: Open only for the probe destinations (history mode)
          NetSet     \* networks that can be added / removed dynamically (subset of AllNets)

DevNames == {"DevDuplicateOnReAdd", "DevRemoveKeepsAllow", "DevWildcardNoDot", "DevDefaultRouteAnyFamily",   \* C19
             "DevForwardPrefixMatch", "DevForwardCaseFold",                                                \* C20
             "DevPendingBySidOnly", "DevResolveCacheByHost"}                                               \* C20 (open steps)
ASSUME Dev \subseteq DevNames

\* n4 / n6 are the default routes of the two address families: a network contains addresses of ITS family only
AllNets == {"n1", "n2", "n3", "n4", "n6"}
ASSUME NetSet \subseteq AllNets
Nets == NetSet
NetCIDR == [n1 |-> "127.1.0.0/16", n2 |-> "127.1.2.0/24", n3 |-> "::1/128", n4 |-> "0.0.0.0/0", n6 |-> "::/0"]
\* address keys ("none" = the name does not resolve); i7 is an IPv6 address no listener can be bound to
IPAddr == [i2 |-> "127.1.2.3", i1 |-> "127.1.9.9", i0 |-> "127.9.9.9", i6 |-> "::1", il |-> "127.0.0.1", i7 |-> "fd00::9"]
Unbound == {"i7"}
\* membership table (family-aware: an IPv4 address -- also in its IPv4-mapped IPv6 form -- lies in IPv4 networks only)
Covers == [n1 |-> {"i1", "i2"}, n2 |-> {"i2"}, n3 |-> {"i6"}, n4 |-> {"i0", "i1", "i2", "il"}, n6 |-> {"i6", "i7"}]

\* domain patterns (labels are lower case; a pattern "*.wild.test" is [wild |-> TRUE, labels |-> <<"wild","test">>])
Patterns == [pApi   |-> [wild |-> FALSE, labels |-> <<"api", "corp", "test">>, text |-> "api.corp.test"],
             pWild  |-> [wild |-> TRUE,  labels |-> <<"wild", "test">>,        text |-> "*.wild.test"],
             pLocal |-> [wild |-> FALSE, labels |-> <<"localhost">>,           text |-> "localhost"]]

Configs ==
  [c0 |-> [enabled |-> TRUE,  nets |-> <<>>,           doms |-> {}],
   c1 |-> [enabled |-> FALSE, nets |-> <<>>,           doms |-> {}],
   c2 |-> [enabled |-> TRUE,  nets |-> <<"n1">>,       doms |-> {"pApi", "pWild", "pLocal"}],
   c3 |-> [enabled |-> TRUE,  nets |-> <<"n2", "n3">>, doms |-> {}],
   \* a default route of one address family only, alone and next to a narrow network of the other family
   c4 |-> [enabled |-> TRUE,  nets |-> <<"n4">>,       doms |-> {}],
   c5 |-> [enabled |-> TRUE,  nets |-> <<"n6">>,       doms |-> {}],
   c6 |-> [enabled |-> TRUE,  nets |-> <<"n4", "n3">>, doms |-> {}],
   c7 |-> [enabled |-> TRUE,  nets |-> <<"n6", "n2">>, doms |-> {}]]

(* Destinations of crafted STREAM_OPEN requests.                            *)
(*   kind  v4 / v6 : address type IPv4 / IPv6 (16 bytes; "mapped" = IPv4-mapped IPv6)                     *)
(*         dom     : address type domain; lit = the string is an IP literal; labels = lower-cased labels  *)
(*   ip    key of the address the destination denotes / resolves to                                       *)
(*   nodot the name ends with the text of a wildcard base without a label boundary ("xwild.test")         *)
Dests ==
  [d4in2   |-> [kind |-> "v4",  addr |-> "127.1.2.3",          ip |-> "i2",   lit |-> FALSE, labels |-> <<>>, nodot |-> FALSE],
   d4in1   |-> [kind |-> "v4",  addr |-> "127.1.9.9",          ip |-> "i1",   lit |-> FALSE, labels |-> <<>>, nodot |-> FALSE],
   d4out   |-> [kind |-> "v4",  addr |-> "127.9.9.9",          ip |-> "i0",   lit |-> FALSE, labels |-> <<>>, nodot |-> FALSE],
   d6lo    |-> [kind |-> "v6",  addr |-> "::1",                ip |-> "i6",   lit |-> FALSE, labels |-> <<>>, nodot |-> FALSE],
   d6map2  |-> [kind |-> "v6",  addr |-> "::ffff:127.1.2.3",   ip |-> "i2",   lit |-> FALSE, labels |-> <<>>, nodot |-> FALSE],
   d6map0  |-> [kind |-> "v6",  addr |-> "::ffff:127.9.9.9",   ip |-> "i0",   lit |-> FALSE, labels |-> <<>>, nodot |-> FALSE],
   d6ula   |-> [kind |-> "v6",  addr |-> "fd00::9",            ip |-> "i7",   lit |-> FALSE, labels |-> <<>>, nodot |-> FALSE],
   nV6only |-> [kind |-> "dom", addr |-> "v6only.test",        ip |-> "i6",   lit |-> FALSE, labels |-> <<"v6only", "test">>, nodot |-> FALSE],
   nLit6   |-> [kind |-> "dom", addr |-> "fd00::9",            ip |-> "i7",   lit |-> TRUE,  labels |-> <<>>, nodot |-> FALSE],
   nApi    |-> [kind |-> "dom", addr |-> "api.corp.test",      ip |-> "i0",   lit |-> FALSE, labels |-> <<"api", "corp", "test">>, nodot |-> FALSE],
   nApiUC  |-> [kind |-> "dom", addr |-> "API.Corp.Test",      ip |-> "i0",   lit |-> FALSE, labels |-> <<"api", "corp", "test">>, nodot |-> FALSE],
   nApiEv  |-> [kind |-> "dom", addr |-> "api.corp.test.evil.test", ip |-> "i0", lit |-> FALSE,
                labels |-> <<"api", "corp", "test", "evil", "test">>, nodot |-> FALSE],
   nW1     |-> [kind |-> "dom", addr |-> "x.wild.test",        ip |-> "i0",   lit |-> FALSE, labels |-> <<"x", "wild", "test">>, nodot |-> FALSE],
   nW2     |-> [kind |-> "dom", addr |-> "a.b.wild.test",      ip |-> "i0",   lit |-> FALSE, labels |-> <<"a", "b", "wild", "test">>, nodot |-> FALSE],
   nWbase  |-> [kind |-> "dom", addr |-> "wild.test",          ip |-> "i0",   lit |-> FALSE, labels |-> <<"wild", "test">>, nodot |-> FALSE],
   nWsfx   |-> [kind |-> "dom", addr |-> "xwild.test",         ip |-> "i0",   lit |-> FALSE, labels |-> <<"xwild", "test">>, nodot |-> TRUE],
   nWdot   |-> [kind |-> "dom", addr |-> ".wild.test",         ip |-> "none", lit |-> FALSE, labels |-> <<"", "wild", "test">>, nodot |-> FALSE],
   nPlain  |-> [kind |-> "dom", addr |-> "plain.test",         ip |-> "i2",   lit |-> FALSE, labels |-> <<"plain", "test">>, nodot |-> FALSE],
   nLocal  |-> [kind |-> "dom", addr |-> "localhost",          ip |-> "il",   lit |-> FALSE, labels |-> <<"localhost">>, nodot |-> FALSE],
   nNx     |-> [kind |-> "dom", addr |-> "nx.test",            ip |-> "none", lit |-> FALSE, labels |-> <<"nx", "test">>, nodot |-> FALSE],
   nEmpty  |-> [kind |-> "dom", addr |-> "",                   ip |-> "none", lit |-> FALSE, labels |-> <<>>, nodot |-> FALSE],
   nLit0   |-> [kind |-> "dom", addr |-> "127.9.9.9",          ip |-> "i0",   lit |-> TRUE,  labels |-> <<>>, nodot |-> FALSE],
   nLit2   |-> [kind |-> "dom", addr |-> "127.1.2.3",          ip |-> "i2",   lit |-> TRUE,  labels |-> <<>>, nodot |-> FALSE]]

DestIds  == DOMAIN Dests
ProbeIds == {"d4in2", "d4in1", "d4out", "d6lo", "d6map2", "d6ula", "nPlain"}
OpenIds  == IF ProbeOnly THEN ProbeIds ELSE DestIds

ASSUME CfgNames \subseteq DOMAIN Configs

VARIABLES cfg,      \* name of the configuration
          dyn,      \* [Nets -> 0 .. max metric]
          allow,    \* Seq(Nets)
          handler,  \* BOOLEAN
          hist,     \* route operations so far (only maintained when Hist)
          last,     \* observation of the last step (hidden by VIEW)
          fw        \* state of the forward handler's open steps (part 2; constant in part 1)

vars  == <<cfg, dyn, allow, handler, hist, last, fw>>
view  == <<cfg, dyn, allow, handler, hist>>

C == Configs[cfg]
CfgNets == {C.nets[i] : i \in 1..Len(C.nets)}
DynNets == {n \in Nets : dyn[n] # 0}
Range(s) == {s[i] : i \in 1..Len(s)}

Init ==
  /\ cfg \in CfgNames
  /\ dyn = [n \in Nets |-> 0]
  /\ allow = Configs[cfg].nets       \* exit.ParseAllowedRoutes(cfg.Exit.Routes), in order
  /\ handler = Configs[cfg].enabled
  /\ hist = <<>>
  /\ last = [act |-> "Init"]
  /\ fw = [pend |-> {}, tab |-> <<>>, cache |-> <<>>, conns |-> {}, n |-> 0]

RemoveFirst(s, x) ==
  IF \E i \in 1..Len(s) : s[i] = x
    THEN LET i == CHOOSE j \in 1..Len(s) : s[j] = x /\ \A k \in 1..(j-1) : s[k] # x
         IN SubSeq(s, 1, i-1) \o SubSeq(s, i+1, Len(s))
    ELSE s

Budget == (~Hist) \/ Len(hist) < MaxOps
Note(op) == IF Hist THEN Append(hist, op) ELSE hist

(* ManageRoute("add", n, m) -- n not yet a dynamic route *)
AddDyn(n, m) ==
  /\ Budget /\ dyn[n] = 0
  /\ hist' = Note(<<"add", n>>)
  /\ IF n \in CfgNets
       THEN \* routing.Manager.AddDynamicRoute: "exists as a config route"
            /\ UNCHANGED <<cfg, dyn, allow, handler>>
            /\ last' = [act |-> "Add", net |-> n, cidr |-> NetCIDR[n], metric |-> m, res |-> "err-config"]
       ELSE /\ dyn' = [dyn EXCEPT ![n] = m]
            /\ handler' = TRUE                       \* ensureExitHandler()
            /\ allow' = IF n \in Range(allow) THEN allow ELSE Append(allow, n)
            /\ UNCHANGED cfg
            /\ last' = [act |-> "Add", net |-> n, cidr |-> NetCIDR[n], metric |-> m, res |-> "ok"]

(* ManageRoute("add", n, m) -- n already a dynamic route: the metric is updated, the allow list must not change *)
UpdateDyn(n, m) ==
  /\ Budget /\ dyn[n] # 0
  /\ hist' = Note(<<"add", n>>)
  /\ dyn' = [dyn EXCEPT ![n] = m]
  /\ IF "DevDuplicateOnReAdd" \in Dev
       THEN allow' = Append(allow, n)      \* AddAllowedRoute appends unconditionally
       ELSE allow' = allow
  /\ UNCHANGED <<cfg, handler>>
  /\ last' = [act |-> "Add", net |-> n, cidr |-> NetCIDR[n], metric |-> m, res |-> "ok"]

(* ManageRoute("remove", n) *)
RemoveDyn(n) ==
  /\ Budget
  /\ hist' = Note(<<"remove", n>>)
  /\ IF dyn[n] = 0
       THEN /\ UNCHANGED <<cfg, dyn, allow, handler>>
            /\ last' = [act |-> "Remove", net |-> n, cidr |-> NetCIDR[n],
                        res |-> IF n \in CfgNets THEN "err-config" ELSE "err-notfound"]
       ELSE /\ dyn' = [dyn EXCEPT ![n] = 0]
            /\ allow' = IF "DevRemoveKeepsAllow" \in Dev THEN allow ELSE RemoveFirst(allow, n)
            /\ UNCHANGED <<cfg, handler>>
            /\ last' = [act |-> "Remove", net |-> n, cidr |-> NetCIDR[n], res |-> "ok"]

(* ManageRoute("list") *)
ListDyn ==
  /\ ~Hist
  /\ UNCHANGED <<cfg, dyn, allow, handler, hist>>
  /\ last' = [act |-> "List", res |-> "ok"]

(* malformed requests: bad CIDR for add / remove, unknown action *)
BadRequest(k) ==
  /\ ~Hist
  /\ UNCHANGED <<cfg, dyn, allow, handler, hist>>
  /\ last' = [act |-> "Bad", kind |-> k, res |-> "err-invalid"]

(* ---- the decision of the exit handler, transcribed from exit.Handler ------------------------------------*)
IsSuffix(suf, s) == Len(s) >= Len(suf) /\ SubSeq(s, Len(s) - Len(suf) + 1, Len(s)) = suf

\* isDomainAllowed: exact = equal after lower-casing; wildcard = exactly one more, non-empty, label
MatchImpl(d, p) ==
  IF p.wild
    THEN \/ Len(d.labels) = Len(p.labels) + 1 /\ IsSuffix(p.labels, d.labels) /\ d.labels[1] # ""
         \/ "DevWildcardNoDot" \in Dev /\ d.nodot     \* suffix compared without the leading "."
    ELSE d.labels = p.labels
DomainAllowedImpl(d) == d.kind = "dom" /\ ~d.lit /\ \E p \in C.doms : MatchImpl(d, Patterns[p])

\* isAllowed: some entry of the list contains the address (empty list -> deny)
DefaultRoutes == {"n4", "n6"}
ListAllows(ip) == \/ \E i \in 1..Len(allow) : ip \in Covers[allow[i]]
                  \/ "DevDefaultRouteAnyFamily" \in Dev /\ \E i \in 1..Len(allow) : allow[i] \in DefaultRoutes

\* outcome of HandleStreamOpen:  "none" no handler, no reply ;  "fail" resolution failed ;
\* "dial" outbound connection attempted ; "refuse" STREAM_OPEN_ERR not-allowed
OpenResult(d) ==
  IF ~handler THEN "none"
  ELSE IF d.ip = "none" THEN "fail"
  ELSE IF DomainAllowedImpl(d) \/ ListAllows(d.ip) THEN "dial"
  ELSE "refuse"

\* the statement's oracle, independent of the allow list:
\*   permitted = lies in a configured network, or in a currently present dynamic network, or matches a pattern.
\* Pattern matching is taken in its most liberal reading (any depth below a wildcard), so the oracle never
\* demands more than the statement.
MatchLiberal(d, p) ==
  IF p.wild THEN Len(d.labels) > Len(p.labels) /\ IsSuffix(p.labels, d.labels)
            ELSE d.labels = p.labels
PermittedNets == CfgNets \cup DynNets
Permitted(d) ==
  \/ d.ip # "none" /\ \E n \in PermittedNets : d.ip \in Covers[n]
  \/ d.kind = "dom" /\ ~d.lit /\ \E p \in C.doms : MatchLiberal(d, Patterns[p])

Open(id) ==
  /\ id \in OpenIds
  /\ UNCHANGED <<cfg, dyn, allow, handler, hist>>
  /\ last' = [act |-> "Open", dest |-> id, kind |-> Dests[id].kind, addr |-> Dests[id].addr,
              ip |-> Dests[id].ip, res |-> OpenResult(Dests[id]), permitted |-> Permitted(Dests[id])]

Next ==
  /\ \/ \E n \in Nets, m \in Metrics : AddDyn(n, m) \/ UpdateDyn(n, m)
     \/ \E n \in Nets : RemoveDyn(n)
     \/ ListDyn
     \/ \E k \in {"add-bad-cidr", "remove-bad-cidr", "unknown-action"} : BadRequest(k)
     \/ \E id \in DestIds : Open(id)
  /\ UNCHANGED fw

Spec == Init /\ [][Next]_vars

Bound == Len(allow) <= MaxAllow

(* ---- the property (C19) ---------------------------------------------------------------------------------*)
TypeOK ==
  /\ cfg \in CfgNames
  /\ dyn \in [Nets -> {0} \cup Metrics]
  /\ Range(allow) \subseteq AllNets
  /\ handler \in BOOLEAN

\* C19: a dial only to a permitted destination
OnlyPermitted == \A id \in DestIds : OpenResult(Dests[id]) = "dial" => Permitted(Dests[id])
\* the same as a property of the Open steps (counterexamples then end with the offending request)
DialOnlyPermitted == [][(last'.act = "Open" /\ last'.res = "dial") => last'.permitted]_vars
\* nothing configured -> nothing permitted
NothingConfigured == (PermittedNets = {} /\ C.doms = {}) => \A id \in DestIds : OpenResult(Dests[id]) # "dial"
\* the allow list is exactly the configured plus the present dynamic networks, each once
AllowMatchesRoutes == handler => (Range(allow) = PermittedNets /\ Len(allow) = Cardinality(Range(allow)))
\* a present dynamic network is usable (sanity of the model, not demanded by the statement)
PresentUsable == \A n \in DynNets : \A id \in DestIds :
                    (Dests[id].ip # "none" /\ Dests[id].ip \in Covers[n]) => OpenResult(Dests[id]) = "dial"

\* the concrete universe, for the harness
ASSUME Emit => PrintT("META " \o ToJson([nets |-> NetCIDR, covers |-> Covers, ips |-> IPAddr, unbound |-> Unbound, dests |-> Dests,
                                         patterns |-> Patterns, configs |-> Configs]))

EmitEdge ==
  Emit => PrintT("EDGE " \o ToJson(
            [s |-> [cfg |-> cfg, dyn |-> dyn, allow |-> allow, handler |-> handler, hist |-> hist],
             a |-> last',
             t |-> [cfg |-> cfg', dyn |-> dyn', allow |-> allow', handler |-> handler', hist |-> hist']]))

(***************************************************************************)
(* Part 2 (C20): the forward key map.                                      *)
(* forward.Handler.targets is a Go map key -> target built from the        *)
(* configured endpoints; Agent.handleStreamOpen dispatches a domain-typed  *)
(* STREAM_OPEN whose name starts with "forward:" to it, with the rest of   *)
(* the name as the requested key.                                          *)
(* Keys are byte strings, modelled as sequences of tokens: a token is a    *)
(* one-character string, or "NUL" (0x00), "xFF" (0xff, never valid UTF-8), *)
(* "xC3" (a lone UTF-8 lead byte).  The harness turns a token sequence     *)
(* into the real bytes; equality of keys is equality of sequences, decided *)
(* by TLC.  The universe of requested keys is generated from every         *)
(* configured key by the transformations below (all proper prefixes and    *)
(* suffixes, case variants, padding, nesting, ...) plus fixed strangers.   *)
(***************************************************************************)
Fill(n, c) == [i \in 1..n |-> c]
KWeb      == <<"w", "e", "b">>
KWebCap   == <<"W", "e", "b">>
KDb       == <<"d", "b">>
KWebAdmin == KWeb \o <<"-", "a", "d", "m", "i", "n">>
KUtf      == <<"k", "xC3", "xA9", "y">>      \* "kéy": a key with a two-byte UTF-8 character
K247      == Fill(247, "k")                  \* the longest key the wire format can carry (255 - len("forward:"))
FwdPrefix == <<"f", "o", "r", "w", "a", "r", "d", ":">>

FwdConfigs ==
  [f0 |-> {},                              \* no endpoint configured: the agent has no forward handler
   f1 |-> {KWeb, KDb},
   f2 |-> {KWeb, KWebCap, KWebAdmin, KUtf}, \* keys that are case variants / extensions of each other
   f3 |-> {K247}]

Lowers == <<"a", "b", "d", "e", "i", "k", "m", "n", "w", "y">>
Uppers == <<"A", "B", "D", "E", "I", "K", "M", "N", "W", "Y">>
Up(c)   == IF \E i \in 1..Len(Lowers) : Lowers[i] = c THEN Uppers[CHOOSE i \in 1..Len(Lowers) : Lowers[i] = c] ELSE c
Down(c) == IF \E i \in 1..Len(Uppers) : Uppers[i] = c THEN Lowers[CHOOSE i \in 1..Len(Uppers) : Uppers[i] = c] ELSE c
Upper(k) == [i \in 1..Len(k) |-> Up(k[i])]
Lower(k) == [i \in 1..Len(k) |-> Down(k[i])]
Swap1(k) == IF Len(k) = 0 THEN k ELSE <<IF Up(k[1]) = k[1] THEN Down(k[1]) ELSE Up(k[1])>> \o SubSeq(k, 2, Len(k))

Variants(k) ==
  {k, Upper(k), Lower(k), Swap1(k),
   k \o <<" ">>, <<" ">> \o k, k \o <<"NUL">>, <<"NUL">> \o k, k \o <<"xFF">>, k \o <<"xC3">>,
   k \o <<":">>, k \o <<".">>, k \o <<"/">>, k \o k,
   FwdPrefix \o k,                       \* nested "forward:" prefix inside the key
   k \o <<"-", "a", "d", "m", "i", "n">>}
  \cup {SubSeq(k, 1, n) : n \in 0..(Len(k) - 1)}    \* every proper prefix (incl. the empty key)
  \cup {SubSeq(k, n, Len(k)) : n \in 2..Len(k)}     \* every proper suffix

Strangers == {<<>>, <<"xFF">>, <<"xFF", "xFF", "xFF">>, <<"NUL">>, FwdPrefix, <<"*">>, <<"w", "*">>,
              Fill(255, "k"), Fill(248, "k"), Fill(246, "k"), Fill(247, "K"), Fill(255, "xFF")}

FwdRequests(f) == Strangers \cup UNION {Variants(k) : k \in UNION {FwdConfigs[g] : g \in DOMAIN FwdConfigs}}

\* oracle (statement): exact match -> connect to that key's target and only that; otherwise not-found, no connection
FwdOracle(f, key) == IF key \in FwdConfigs[f] THEN [found |-> TRUE, target |-> key] ELSE [found |-> FALSE, target |-> <<>>]
\* transcription of forward.Handler (NewHandler builds targets[ep.Key] = ep.Target; HandleStreamOpen looks the
\* requested string up).  The target of a configured key is identified with the key itself.
FwdTargets(f) == [k \in FwdConfigs[f] |-> k]
IsPrefix(p, k) == Len(p) <= Len(k) /\ SubSeq(k, 1, Len(p)) = p
FwdLookup(f, key) ==      \* set of configured keys the lookup may hit
  {k \in FwdConfigs[f] : \/ k = key
                         \/ "DevForwardPrefixMatch" \in Dev /\ IsPrefix(k, key)
                         \/ "DevForwardCaseFold" \in Dev /\ Lower(k) = Lower(key)}
FwdImpl(f, key) == IF FwdLookup(f, key) # {} THEN [found |-> TRUE, target |-> FwdTargets(f)[CHOOSE k \in FwdLookup(f, key) : TRUE]]
                                             ELSE [found |-> FALSE, target |-> <<>>]

FwdVecs == UNION {{[cfg |-> f, key |-> r, oracle |-> FwdOracle(f, r), impl |-> FwdImpl(f, r)] : r \in FwdRequests(f)}
                  : f \in DOMAIN FwdConfigs}
FwdAgree == \A v \in FwdVecs : v.oracle = v.impl
\* the universe is not vacuous: every configuration with endpoints has hits and near misses
FwdNonVacuous == \A f \in DOMAIN FwdConfigs \ {"f0"} :
                    /\ \E v \in FwdVecs : v.cfg = f /\ v.oracle.found
                    /\ \E v \in FwdVecs : v.cfg = f /\ ~v.oracle.found /\ Len(v.key) > 0

FwdInit == /\ Init
           /\ \A f \in DOMAIN FwdConfigs : PrintT("FCFG " \o ToJson([cfg |-> f, keys |-> FwdConfigs[f]]))
           /\ (Dev = {}) => \A v \in FwdVecs : PrintT("VEC " \o ToJson(v))
           /\ PrintT("FSUM " \o ToJson([vecs |-> Cardinality(FwdVecs), agree |-> FwdAgree, nonvacuous |-> FwdNonVacuous]))
FwdNext == FALSE /\ UNCHANGED vars

(***************************************************************************)
(* Part 2b (C20): a forward open is TWO steps of forward.Handler --         *)
(*   FAccept  HandleStreamOpen, on the peer's frame loop: the key is looked *)
(*            up, the request is accepted and a dial goroutine is started   *)
(*   FDial    the goroutine connects to the target and acknowledges         *)
(* and requests of DIFFERENT peers may carry the SAME stream id (stream ids *)
(* are allocated per peer connection), so a request is identified by        *)
(* <<peer, stream id>>.  Targets are <<host, port>>; several endpoints may  *)
(* share a host.  The handler lives on between requests (fw is its state),  *)
(* so sequences of requests on one handler are behaviours of this machine.  *)
(*   DevPendingBySidOnly    the accepted request is parked in a table keyed *)
(*                          by the bare stream id and the dial step reads   *)
(*                          key/target back from it                         *)
(*   DevResolveCacheByHost  the dial step caches host -> resolved host:port *)
(*                          and reuses it for every target on that host     *)
(***************************************************************************)
FPeers == {"p1", "p2"}
FSids  == {1, 2}
FEndpoints == [alpha |-> [host |-> "h1", port |-> 1], beta |-> [host |-> "h1", port |-> 2],
               gamma |-> [host |-> "h2", port |-> 1], delta |-> [host |-> "h2", port |-> 2]]
FKeys == DOMAIN FEndpoints
FReqKeys == FKeys \cup {"nokey"}
FMax == 3      \* requests per behaviour

FAccept(p, sid, k) ==
  /\ fw.n < FMax /\ k \in FKeys
  /\ ~\E r \in fw.pend : r.peer = p /\ r.sid = sid
  /\ fw' = [fw EXCEPT !.pend = @ \cup {[peer |-> p, sid |-> sid, key |-> k]},
                      !.tab = [x \in (DOMAIN fw.tab) \cup {sid} |-> IF x = sid THEN k ELSE fw.tab[x]],
                      !.n = @ + 1]
FRefuse(p, sid, k) ==         \* unknown key: not-found error, nothing else happens
  /\ fw.n < FMax /\ k \notin FKeys
  /\ fw' = [fw EXCEPT !.n = @ + 1]
FDial(r) ==
  /\ r \in fw.pend
  /\ LET k == IF "DevPendingBySidOnly" \in Dev
                 THEN (IF r.sid \in DOMAIN fw.tab THEN fw.tab[r.sid] ELSE "dropped")
                 ELSE r.key
     IN IF k = "dropped"
          THEN fw' = [fw EXCEPT !.pend = @ \ {r}]
          ELSE LET ep == FEndpoints[k]
                   cached == "DevResolveCacheByHost" \in Dev /\ ep.host \in DOMAIN fw.cache
                   port == IF cached THEN fw.cache[ep.host] ELSE ep.port
               IN fw' = [fw EXCEPT !.pend = @ \ {r},
                                   !.tab = [x \in (DOMAIN fw.tab) \ (IF "DevPendingBySidOnly" \in Dev THEN {r.sid} ELSE {}) |-> fw.tab[x]],
                                   !.cache = IF "DevResolveCacheByHost" \in Dev /\ ~cached
                                               THEN [h \in (DOMAIN fw.cache) \cup {ep.host} |-> IF h = ep.host THEN ep.port ELSE fw.cache[h]]
                                               ELSE @,
                                   !.conns = @ \cup {[peer |-> r.peer, sid |-> r.sid, key |-> r.key, host |-> ep.host, port |-> port]}]
FwdOpenNext ==
  /\ \/ \E p \in FPeers, sid \in FSids, k \in FReqKeys : FAccept(p, sid, k) \/ FRefuse(p, sid, k)
     \/ \E r \in fw.pend : FDial(r)
  /\ UNCHANGED <<cfg, dyn, allow, handler, hist, last>>
fwview == fw
\* C20: every connection made for a request goes to the target configured for the REQUESTED key
FwdConnOK == \A c \in fw.conns : c.host = FEndpoints[c.key].host /\ c.port = FEndpoints[c.key].port
\* request sequences for ONE live handler (executed in order by the harness): all sequences of <= FSeqLen requests
FSeqLen == 4
FwdSeqs == UNION {[1..m -> FReqKeys] : m \in 1..FSeqLen}
\* (the vectors of part 2 and the sequences are printed by one TLC run)
FwdSeqInit == /\ FwdInit
              /\ PrintT("FEND " \o ToJson(FEndpoints))
              /\ \A q \in FwdSeqs : PrintT("FSEQ " \o ToJson(q))
              /\ PrintT("FQSUM " \o ToJson([seqs |-> Cardinality(FwdSeqs)]))
\* (mentions a variable so that TLC treats it as a state invariant of the one-state behaviour FwdInit)
FwdOK == cfg \in CfgNames /\ FwdAgree /\ FwdNonVacuous
=============================================================================
