----------------------------- MODULE TraceFlood -----------------------------
(* Trace validation: executions of a harness network of REAL flood.Flooder +  *)
(* routing.Manager nodes (ndjson, many executions concatenated, separated by  *)
(* Reset events that also carry the set-up: links up, exit routes and hop     *)
(* limit of every agent) must be behaviours of Flood.  Every event carries    *)
(* its arguments and the projected state of the agent that acted after the    *)
(* call (counter, seen cache, learned routes, frames it put on the wire).     *)
EXTENDS Flood, IOUtils

VARIABLE l
Trace == ndJsonDeserialize(IOEnv.TRACE_FILE)
ev == Trace[l]

ToSet(s) == {s[i] : i \in 1..Len(s)}
TraceInit == Init /\ l = 1 /\ TLCSet(1, 1)
Consume(name) == l <= Len(Trace) /\ ev.ev = name /\ l' = l + 1

ProjE(e) == [o |-> e.o, r |-> e.r, nh |-> e.nh, m |-> e.m, path |-> e.path, seq |-> e.seq, old |-> e.old]
StripM(m) == [src |-> m.src, dst |-> m.dst, o |-> m.o, seq |-> m.seq, path |-> m.path, sb |-> m.sb, rs |-> m.rs]
EvM(x) == [src |-> x.src, dst |-> x.dst, o |-> x.o, seq |-> x.seq, path |-> x.path, sb |-> x.sb, rs |-> ToSet(x.rs)]
Added == {x \in DOMAIN net' : x \notin DOMAIN net \/ net'[x] > net[x]}

\* the acting agent's state after the call, as observed on the real objects
StateOK(n) ==
  /\ ctr'[n] = ev.st.ctr
  /\ seen'[n] = ToSet(ev.st.seen)
  /\ {ProjE(e) : e \in tbl'[n]} = ToSet(ev.st.tbl)
  /\ {StripM(x) : x \in Added} = {EvM(x) : x \in ToSet(ev.st.sent)}

TraceAnnounce == Consume("Announce") /\ AnnounceWith(ev.n, ev.chunks) /\ StateOK(ev.n)
TraceDeliver ==
  /\ Consume("Deliver")
  /\ \E m \in DOMAIN net :
       /\ StripM(m) = EvM(ev)
       /\ Deliver(m, ev.dup)
  \* from outside, the three ways of dropping a new announcement look alike (the call returns false)
  /\ IF ev.res = "dropped" THEN last'.res \in {"seenby", "loop", "hops"} ELSE last'.res = ev.res
  /\ StateOK(ev.dst)
\* a frame the receiving agent could not decode (the harness does not know what it was meant to carry)
TraceUndecodable ==
  /\ Consume("Undecodable")
  /\ \E m \in DOMAIN net : m.src = ev.src /\ m.dst = ev.dst /\ DeliverUndecodable(m, FALSE)
TraceExpire == Consume("ExpireSeen") /\ ExpireSeen(ev.n, <<ev.o, ev.seq>>) /\ StateOK(ev.n)
TraceConnect == Consume("Connect") /\ Connect(ToSet(ev.l))
TraceDisconnect == Consume("Disconnect") /\ Disconnect(ToSet(ev.l))
TraceReplay == Consume("Replay") /\ (ReplayWith(ev.n, ev.p, ev.own) \/ DevReplay(ev.n, ev.p)) /\ StateOK(ev.n)
TracePeerGone == Consume("PeerGone") /\ PeerGone(ev.n, ev.p) /\ StateOK(ev.n)
TraceAgeAll == Consume("AgeAll") /\ AgeAll
TraceCleanup == Consume("CleanupStale") /\ CleanupStale(ev.n) /\ StateOK(ev.n)

TraceReset ==
  /\ Consume("Reset")
  /\ up' = {ToSet(x) : x \in ToSet(ev.up)} /\ pend' = {} /\ gone' = {}
  /\ cfg' = [loc |-> [a \in Agent |-> ToSet(ev.loc[a])], hops |-> [a \in Agent |-> ev.hops[a]], kind |-> ev.kind]
  /\ ctr' = [a \in Agent |-> Cardinality(ToSet(ev.loc[a]))]
  /\ seen' = [a \in Agent |-> {}] /\ tbl' = [a \in Agent |-> {}] /\ net' = EmptyBag
  /\ nann' = [a \in Agent |-> 0] /\ proc' = {} /\ fwd' = {} /\ sent' = EmptyBag
  /\ viol' = [pr |-> FALSE, fw |-> FALSE, c06 |-> FALSE]
  /\ clean' = [a \in Agent |-> FALSE] /\ rejoin' = {}
  /\ bud' = [ann |-> [a \in Agent |-> 0], conn |-> 0, disc |-> 0, exp |-> 0, dup |-> 0, age |-> 0]
  /\ last' = [act |-> "Init"]

TraceNext == \/ TraceAnnounce \/ TraceDeliver \/ TraceUndecodable \/ TraceExpire \/ TraceConnect \/ TraceDisconnect
             \/ TraceReplay \/ TracePeerGone \/ TraceAgeAll \/ TraceCleanup \/ TraceReset
TraceSpec == TraceInit /\ [][TraceNext]_<<vars, l>>

HighWater == TLCSet(1, IF l > TLCGet(1) THEN l ELSE TLCGet(1))
TraceAccepted == /\ PrintT("HW " \o ToString(TLCGet(1)))
                 /\ PrintT("LEN " \o ToString(Len(Trace)))
                 /\ TLCGet(1) = Len(Trace) + 1
=============================================================================
