------------------------------- MODULE Flood -------------------------------
(***************************************************************************)
(* Route flooding of Muti-Metroo: internal/flood Flooder + the tables of   *)
(* internal/routing it stores into.  Properties C11 C12 C13 C14 C15 and    *)
(* the end-to-end part of C06.                                             *)
(*                                                                         *)
(* Agents are strings.  `Links` is the constant set of POTENTIAL links     *)
(* ({a,b} sets); `up` is the set of links currently connected.  Every      *)
(* agent has                                                               *)
(*   ctr    the announcement sequence counter (routing.Manager.sequence,   *)
(*          which also advances once per configured local route),          *)
(*   seen   the seen cache, a set of <<origin, sequence>>,                  *)
(*   tbl    its learned routes, a set of entries                            *)
(*          [o, r, nh, m, path, seq, ann, old]:                             *)
(*            r = "p"  agent-presence route, table key <<o, nh>>            *)
(*                     (AgentTable keeps one entry per origin AND next hop) *)
(*            r = "r1".. exit routes (CIDR / domain / forward tables), key  *)
(*                     <<o, r>> (one entry per origin),                     *)
(*            ann = ghost "renewed by the origin's ann-th announcement",    *)
(*            old = LastUpdate lies before the last AgeAll.                 *)
(* `net` is the bag of frames in flight [src,dst,o,seq,path,sb,rs,ann,d];   *)
(* rs = set of [r, m] (route, advertised metric), sb = seen-by list.        *)
(* Ghost d (frames and entries): the true number of hops the announcement   *)
(* has travelled from its origin to the receiver / storing agent.           *)
(*                                                                         *)
(* One action = one call into the flooder / route manager:                 *)
(*   Announce      AnnounceLocalRoutes                                     *)
(*   Deliver       HandleRouteAdvertise for one frame, split by outcome    *)
(*                 (undecodable / seen / dropped after marking / new);     *)
(*                 keep = TRUE: the network duplicated the frame           *)
(*   Connect, Replay          a link comes up; SendFullTable at each end   *)
(*   Disconnect, PeerGone     a link is lost; each end drops the routes    *)
(*                            through the lost peer                        *)
(*   ExpireSeen    Flooder.cleanup removing one seen-cache entry           *)
(*   AgeAll, CleanupStale     time passes; CleanupStale*Routes at an agent *)
(* Links deliver in any order (bags; the FIFO transports are a special     *)
(* case).                                                                  *)
(*                                                                         *)
(* The route-count field of the wire format is one byte; here it counts    *)
(* modulo CntMod (256 in the code): an announcement can carry at most      *)
(* Cap = CntMod-1 routes, larger sets are split.                           *)
(*                                                                         *)
(* The spec describes the design that satisfies the properties.  The       *)
(* deviations (constant Dev) reproduce what the pinned code did instead    *)
(* (first four + DevForwardLooped) or what a regression could do; each     *)
(* must be caught by an invariant (sensitivity), and they are used to      *)
(* classify differences observed on the real code.                         *)
(***************************************************************************)
EXTENDS Integers, Sequences, FiniteSets, TLC, Json

CONSTANTS Agent,      \* set of agent names
          Links,      \* potential links: set of two-element sets of agents
          InitUps,    \* alternatives for the set of links connected initially (no replay is modelled for them)
          Exits,      \* alternatives for the set of agents that originate exit routes (the others announce only
                      \* their presence)
          RouteIds,   \* exit route ids every exit agent originates, subset of {"r1","r2","r3"}
          HopsSet,    \* alternatives for routing.max_hops (the same at every agent)
          Announcers, \* agents that may announce
          MaxAnn,     \* announcements per announcer
          CntMod,     \* modulus of the route-count field
          ListMod,    \* modulus of the count field of the path and of the seen-by list (256 in the code): a list of
                      \* ListMod or more agents cannot be written
          MaxConn, MaxDisc, MaxExpire, MaxDup, MaxAge,  \* budgets of the environment actions
          Dev, Emit

DevNames == {"DevForwardKeepsReceivedMetric", "DevReplayUsesOwnSequence", "DevNoHopCheck", "DevCount8Wrap",
             "DevNoSeenMark", "DevForwardLooped", "DevNoPathPrepend", "DevPathCountWrap", "DevSeenBlocksResync"}

ASSUME /\ Dev \subseteq DevNames /\ Announcers \subseteq Agent
       /\ \A u \in InitUps : u \subseteq Links
       /\ \A x \in Exits : x \subseteq Agent
       /\ \A l \in Links : l \subseteq Agent /\ Cardinality(l) = 2
       /\ CntMod >= 2 /\ ListMod >= 2

VARIABLES up,     \* connected links
          pend,   \* <<n,p>>: n has still to replay its table to the new peer p (handlePeerConnected)
          gone,   \* <<n,p>>: n has still to drop the routes learned from the lost peer p (handlePeerDisconnect)
          ctr, seen, tbl, net,
          cfg,    \* [loc, hops, kind]: per agent the exit routes it originates and its routing.max_hops; per route id
                  \* its kind ("c" CIDR, "d" domain, "f" forward); never changes
                  \* (a variable only so that recorded executions with different set-ups can be validated in one run)
          nann,   \* ghost: number of announcements of each agent
          proc,   \* ghost: <<n,o,seq>> passed n's seen check in the current seen-cache epoch
          fwd,    \* ghost: <<n,q,o,seq>> n forwarded (o,seq) to q in the current epoch
          sent,   \* ghost: <<o,seq>> -> frames sent by Announce and forwarding (replays not counted)
          viol,   \* ghost: [pr, fw, c06] flags
          clean,  \* ghost: agent announced after the last topology change / ageing
          rejoin, \* ghost: the link whose connect was the last topology / ageing event ({} if none)
          bud,    \* budgets used
          last

vars == <<up, pend, gone, ctr, seen, tbl, net, cfg, nann, proc, fwd, sent, viol, clean, rejoin, bud, last>>
view == <<up, pend, gone, ctr, seen, tbl, net, cfg, nann, proc, fwd, sent, viol, clean, rejoin, bud>>

(* ---- helpers ------------------------------------------------------------*)
SeqToSet(s) == {s[i] : i \in 1..Len(s)}
NoDup(s) == Cardinality(SeqToSet(s)) = Len(s)
Nbr(n) == {q \in Agent \ {n} : {n, q} \in up}
Cap == CntMod - 1

\* the code lists CIDR (r1), domain (r2), forward (r3) routes, then the presence route
RouteOrder == <<"r1", "r2", "r3">>
Locals(o) == cfg.loc[o]
LocalList(o) == SelectSeq(RouteOrder, LAMBDA r : r \in Locals(o))
AnnList(o) == LocalList(o) \o <<"p">>

RECURSIVE Chunks(_)
Chunks(l) == IF Len(l) <= Cap THEN <<l>> ELSE <<SubSeq(l, 1, Cap)>> \o Chunks(SubSeq(l, Cap + 1, Len(l)))

EmptyBag == [x \in {} |-> 0]
BagAdd(b, S) == [x \in DOMAIN b \cup S |-> (IF x \in DOMAIN b THEN b[x] ELSE 0) + (IF x \in S THEN 1 ELSE 0)]
BagDel(b, x) == IF b[x] = 1 THEN [y \in DOMAIN b \ {x} |-> b[y]] ELSE [b EXCEPT ![x] = @ - 1]
Bump(f, k, c) == IF c = 0 THEN f ELSE
                 IF k \in DOMAIN f THEN [f EXCEPT ![k] = @ + c] ELSE [y \in DOMAIN f \cup {k} |-> IF y = k THEN c ELSE f[y]]

Key(e) == IF e.r = "p" THEN <<e.o, "p", e.nh>> ELSE <<e.o, e.r, "-">>
\* update rule of Table/DomainTable/ForwardTable/AgentTable.AddRoute
Accept(c, e) == c.seq > e.seq \/ (c.seq = e.seq /\ c.m < e.m)

RECURSIVE ReachFrom(_)
ReachFrom(S) == LET S2 == S \cup {q \in Agent : \E x \in S : {x, q} \in up} IN IF S2 = S THEN S ELSE ReachFrom(S2)

Init ==
  /\ up \in InitUps /\ pend = {} /\ gone = {}
  /\ \E x \in Exits, h \in HopsSet :
       /\ cfg = [loc |-> [a \in Agent |-> IF a \in x THEN RouteIds ELSE {}], hops |-> [a \in Agent |-> h],
                 kind |-> [r \in RouteIds |-> IF r = "r1" THEN "c" ELSE IF r = "r2" THEN "d" ELSE "f"]]
       /\ ctr = [a \in Agent |-> IF a \in x THEN Cardinality(RouteIds) ELSE 0]   \* AddLocal*Route bumps it once per route
  /\ seen = [a \in Agent |-> {}]
  /\ tbl = [a \in Agent |-> {}]
  /\ net = EmptyBag
  /\ nann = [a \in Agent |-> 0]
  /\ proc = {} /\ fwd = {} /\ sent = EmptyBag
  /\ viol = [pr |-> FALSE, fw |-> FALSE, c06 |-> FALSE]
  /\ clean = [a \in Agent |-> FALSE]
  /\ rejoin = {}
  /\ bud = [ann |-> [a \in Agent |-> 0], conn |-> 0, disc |-> 0, exp |-> 0, dup |-> 0, age |-> 0]
  /\ last = [act |-> "Init"]

(* ---- AnnounceLocalRoutes -------------------------------------------------*)
(* All local routes plus the presence route, metric 0, path <<o>>, seen-by  *)
(* <<o>>, to every connected peer.  A set that does not fit the count field *)
(* is split into several announcements (`chunks`, a sequence of sequences   *)
(* of route ids), each under its own sequence number.  Any split is allowed *)
(* as long as nothing is lost or duplicated and every part fits.            *)
IsChunking(chunks, S) ==
  /\ \A i \in 1..Len(chunks) : Len(chunks[i]) >= 1 /\ NoDup(chunks[i])
                                /\ ("DevCount8Wrap" \in Dev \/ Len(chunks[i]) <= Cap)
  /\ UNION {SeqToSet(chunks[i]) : i \in 1..Len(chunks)} = S
  /\ \A i, j \in 1..Len(chunks) : i # j => SeqToSet(chunks[i]) \cap SeqToSet(chunks[j]) = {}
ChunkMsgs(n, q, base, chunks, an) ==
  {[src |-> n, dst |-> q, o |-> n, seq |-> base + i, path |-> <<n>>, sb |-> <<n>>,
    rs |-> {[r |-> chunks[i][j], m |-> 0] : j \in 1..Len(chunks[i])}, ann |-> an, d |-> 1] : i \in 1..Len(chunks)}

AnnounceWith(o, chunks) ==
  /\ o \in Announcers /\ bud.ann[o] < MaxAnn
  /\ IsChunking(chunks, Locals(o) \cup {"p"}) = TRUE     \* ("= TRUE": evaluated as a plain expression by TLC)
  /\ LET k == Len(chunks)
     IN /\ net' = BagAdd(net, UNION {ChunkMsgs(o, q, ctr[o], chunks, nann[o] + 1) : q \in Nbr(o)})
        /\ ctr' = [ctr EXCEPT ![o] = @ + k]
        /\ sent' = [x \in DOMAIN sent \cup {<<o, ctr[o] + i>> : i \in 1..k} |->
                      IF x \in DOMAIN sent THEN sent[x] ELSE Cardinality(Nbr(o))]
        /\ last' = [act |-> "Announce", n |-> o, nseq |-> k]
  /\ nann' = [nann EXCEPT ![o] = @ + 1]
  /\ clean' = [clean EXCEPT ![o] = TRUE]
  /\ bud' = [bud EXCEPT !.ann[o] = @ + 1]
  /\ UNCHANGED <<rejoin, up, pend, gone, seen, tbl, cfg, proc, fwd, viol>>

\* the model checker uses the split the code makes for CIDR, domain, forward, presence in this order
CanonChunks(l) == IF l = <<>> THEN <<>> ELSE IF "DevCount8Wrap" \in Dev THEN <<l>> ELSE Chunks(l)
Announce(o) == AnnounceWith(o, CanonChunks(AnnList(o)))

(* ---- HandleRouteAdvertise ------------------------------------------------*)
Take(m, keep) == /\ m \in DOMAIN net
                 /\ keep => bud.dup < MaxDup
                 /\ bud' = IF keep THEN [bud EXCEPT !.dup = @ + 1] ELSE bud
Rest(m, keep) == IF keep THEN net ELSE BagDel(net, m)
Lbl(m, keep, res) == [act |-> "Deliver", src |-> m.src, dst |-> m.dst, o |-> m.o, seq |-> m.seq, path |-> m.path,
                      sb |-> m.sb, rs |-> m.rs, dup |-> keep, res |-> res]
Decodable(m) == Cardinality(m.rs) < CntMod
Looped(m) == m.o = m.dst \/ m.dst \in SeqToSet(m.path)
TooFar(m) == Len(m.path) > cfg.hops[m.dst] /\ "DevNoHopCheck" \notin Dev

\* the count byte wrapped: the receiver cannot decode the frame (or decodes another set); it is lost
DeliverUndecodable(m, keep) ==
  /\ Take(m, keep) /\ ~Decodable(m)
  /\ net' = Rest(m, keep)
  /\ viol' = [viol EXCEPT !.c06 = TRUE]
  /\ last' = Lbl(m, keep, "undecodable")
  /\ UNCHANGED <<rejoin, cfg, up, pend, gone, ctr, seen, tbl, nann, proc, fwd, sent, clean>>

DeliverSeen(m, keep) ==
  /\ Take(m, keep) /\ Decodable(m) /\ <<m.o, m.seq>> \in seen[m.dst]
  /\ net' = Rest(m, keep)
  /\ last' = Lbl(m, keep, "seen")
  /\ UNCHANGED <<rejoin, cfg, up, pend, gone, ctr, seen, tbl, nann, proc, fwd, sent, viol, clean>>

Mark(m) ==
  /\ seen' = IF "DevNoSeenMark" \in Dev THEN seen ELSE [seen EXCEPT ![m.dst] = @ \cup {<<m.o, m.seq>>}]
  /\ proc' = proc \cup {<<m.dst, m.o, m.seq>>}

\* marked as seen, then dropped: own id in the seen-by list / own announcement or own id in the path /
\* farther than max_hops from the origin
DeliverDropped(m, keep) ==
  /\ Take(m, keep) /\ Decodable(m) /\ <<m.o, m.seq>> \notin seen[m.dst]
  /\ \/ m.dst \in SeqToSet(m.sb) /\ last' = Lbl(m, keep, "seenby")
     \/ m.dst \notin SeqToSet(m.sb) /\ "DevForwardLooped" \notin Dev /\ Looped(m) /\ last' = Lbl(m, keep, "loop")
     \/ m.dst \notin SeqToSet(m.sb) /\ ("DevForwardLooped" \in Dev \/ ~Looped(m)) /\ TooFar(m)
        /\ last' = Lbl(m, keep, "hops")
  /\ Mark(m)
  /\ viol' = [viol EXCEPT !.pr = @ \/ <<m.dst, m.o, m.seq>> \in proc]
  /\ net' = Rest(m, keep)
  /\ UNCHANGED <<rejoin, cfg, up, pend, gone, ctr, tbl, nann, fwd, sent, clean>>

\* the count field of an agent list: a list that fits is written as it is; a longer one would be written with the
\* count wrapped, and the receiver reads that many agents and ignores the rest
Fits(l) == Len(l) < ListMod
Wire(l) == IF Fits(l) THEN l ELSE SubSeq(l, 1, Len(l) % ListMod)

Cands(m) == {[o |-> m.o, r |-> x.r, nh |-> m.src, m |-> x.m + 1, path |-> m.path, seq |-> m.seq,
              ann |-> m.ann, old |-> FALSE, d |-> m.d] : x \in m.rs}
\* every table rejects a path through the storing agent; otherwise the update rule decides per key
Store(T, m) ==
  IF m.dst \in SeqToSet(m.path) THEN T
  ELSE LET C == Cands(m)
           \* (only the presence route can occur several times in one announcement: a replay of several next hops)
           best == {c \in C : c.r # "p" \/ \A d \in C : d.r = "p" => c.m <= d.m}
           acc == {c \in best : \A e \in T : Key(e) = Key(c) => Accept(c, e)}
       IN {e \in T : \A c \in acc : Key(c) # Key(e)} \cup acc

FwdMsgs(m) ==
  LET n == m.dst
      sb2 == Append(m.sb, n)
      tgt == Nbr(n) \ ({m.src} \cup SeqToSet(sb2))
      rs2 == IF "DevForwardKeepsReceivedMetric" \in Dev THEN m.rs ELSE {[r |-> x.r, m |-> x.m + 1] : x \in m.rs}
      path2 == IF "DevNoPathPrepend" \in Dev THEN m.path ELSE <<n>> \o m.path
  IN \* a path or seen-by list that does not fit its count field is not sent at all (never wrapped)
     IF (~Fits(path2) \/ ~Fits(sb2)) /\ "DevPathCountWrap" \notin Dev THEN {}
     ELSE {[src |-> n, dst |-> q, o |-> m.o, seq |-> m.seq, path |-> Wire(path2), sb |-> Wire(sb2), rs |-> rs2,
            ann |-> m.ann, d |-> m.d + 1] : q \in tgt}

DeliverNew(m, keep) ==
  /\ Take(m, keep) /\ Decodable(m) /\ <<m.o, m.seq>> \notin seen[m.dst]
  /\ m.dst \notin SeqToSet(m.sb)
  /\ "DevForwardLooped" \in Dev \/ ~Looped(m)
  /\ ~TooFar(m)
  /\ Mark(m)
  /\ tbl' = [tbl EXCEPT ![m.dst] = Store(@, m)]
  /\ LET F == FwdMsgs(m)
         fk == {<<m.dst, x.dst, m.o, m.seq>> : x \in F}
     IN /\ net' = BagAdd(Rest(m, keep), F)
        /\ fwd' = fwd \cup fk
        /\ sent' = Bump(sent, <<m.o, m.seq>>, Cardinality(F))
        /\ viol' = [viol EXCEPT !.pr = @ \/ <<m.dst, m.o, m.seq>> \in proc, !.fw = @ \/ fk \cap fwd # {}]
  /\ last' = Lbl(m, keep, "new")
  /\ UNCHANGED <<rejoin, cfg, up, pend, gone, ctr, nann, clean>>

Deliver(m, keep) == DeliverUndecodable(m, keep) \/ DeliverSeen(m, keep) \/ DeliverDropped(m, keep) \/ DeliverNew(m, keep)

(* ---- seen-cache expiry (Flooder.cleanup), one key at a time ---------------*)
ExpireSeen(n, k) ==
  /\ k \in seen[n] /\ bud.exp < MaxExpire
  /\ seen' = [seen EXCEPT ![n] = @ \ {k}]
  /\ proc' = proc \ {<<n, k[1], k[2]>>}
  /\ fwd' = {x \in fwd : ~(x[1] = n /\ x[3] = k[1] /\ x[4] = k[2])}
  /\ bud' = [bud EXCEPT !.exp = @ + 1]
  /\ last' = [act |-> "ExpireSeen", n |-> n, o |-> k[1], seq |-> k[2]]
  /\ UNCHANGED <<rejoin, cfg, up, pend, gone, ctr, tbl, net, nann, sent, viol, clean>>

(* ---- topology -------------------------------------------------------------*)
Connect(l) ==
  /\ l \in Links \ up /\ bud.conn < MaxConn
  /\ \A x \in gone : {x[1], x[2]} # l
  /\ up' = up \cup {l}
  /\ pend' = pend \cup ({<<a, b>> : a \in l, b \in l} \ {<<a, a>> : a \in l})
  /\ clean' = [a \in Agent |-> FALSE]
  /\ rejoin' = l
  /\ bud' = [bud EXCEPT !.conn = @ + 1]
  /\ last' = [act |-> "Connect", l |-> l]
  /\ UNCHANGED <<cfg, gone, ctr, seen, tbl, net, nann, proc, fwd, sent, viol>>

(* SendFullTable(p) at n.  The own exit routes (never the own presence     *)
(* route) go out as a genuine announcement under fresh own sequence        *)
(* numbers.  Learned routes with next hop # p are replayed per original    *)
(* announcement <<origin, sequence>>, UNDER THE ORIGIN'S SEQUENCE, path    *)
(* <<n>> \o stored path, seen-by <<n>>, stored metrics.  The path is taken *)
(* from the first of: a CIDR entry, the best presence entry, a forward     *)
(* entry, a domain entry of the group.                                     *)
KindOf(r) == IF r = "p" THEN "p" ELSE cfg.kind[r]
KindPri == <<"c", "p", "f", "d">>
\* candidates [path, ann] for the path of a replayed group
PathSrc(E) == LET i == CHOOSE i \in 1..4 : (\E e \in E : KindOf(e.r) = KindPri[i])
                                            /\ \A j \in 1..(i - 1) : \A e \in E : KindOf(e.r) # KindPri[j]
                  S == {e \in E : KindOf(e.r) = KindPri[i]}
                  B == IF KindPri[i] = "p" THEN {e \in S : \A d \in S : e.m <= d.m} ELSE S
              IN {[path |-> e.path, ann |-> e.ann, d |-> e.d] : e \in B}
\* the routes of a replayed group: every exit route entry, and of the presence entries (one per next hop) only the best
ReplayRs(E) == {[r |-> e.r, m |-> e.m] : e \in {x \in E : x.r # "p" \/ \A d \in E : d.r = "p" => x.m <= d.m}}
ReplayWith(n, p, own) ==
  /\ <<n, p>> \in pend /\ "DevReplayUsesOwnSequence" \notin Dev
  /\ IsChunking(own, Locals(n)) = TRUE
  /\ LET E == {e \in tbl[n] : e.nh # p}
         G == {<<e.o, e.seq>> : e \in E}
         Ents(g) == {e \in E : e.o = g[1] /\ e.seq = g[2]}
         \* only groups whose best presence entries tie leave a choice (which of the equally long paths is sent)
         Amb == {g \in G : Cardinality(PathSrc(Ents(g))) > 1}
     IN \E amb \in [Amb -> UNION {PathSrc(Ents(g)) : g \in Amb}] :
          /\ \A g \in Amb : amb[g] \in PathSrc(Ents(g))
          /\ LET ch(g) == IF g \in Amb THEN amb[g] ELSE CHOOSE e \in PathSrc(Ents(g)) : TRUE
             IN net' = BagAdd(net, ChunkMsgs(n, p, ctr[n], own, nann[n]) \cup
                            {[src |-> n, dst |-> p, o |-> g[1], seq |-> g[2], path |-> Wire(<<n>> \o ch(g).path), sb |-> <<n>>,
                              rs |-> ReplayRs(Ents(g)), ann |-> ch(g).ann, d |-> ch(g).d + 1]
                               \* (a group whose path would not fit the count field is not replayed)
                               : g \in {x \in G : Fits(<<n>> \o ch(x).path) \/ "DevPathCountWrap" \in Dev}})
          /\ last' = [act |-> "Replay", n |-> n, p |-> p]
  /\ ctr' = [ctr EXCEPT ![n] = @ + Len(own)]
  /\ pend' = pend \ {<<n, p>>}
  /\ UNCHANGED <<rejoin, cfg, up, gone, seen, tbl, nann, proc, fwd, sent, viol, clean, bud>>
Replay(n, p) == ReplayWith(n, p, CanonChunks(LocalList(n)))

(* deviation: one announcement per ORIGIN (all sequences merged) under the *)
(* replaying agent's own counter, origins in arbitrary order               *)
DevReplay(n, p) ==
  /\ <<n, p>> \in pend /\ "DevReplayUsesOwnSequence" \in Dev
  /\ LET E == {e \in tbl[n] : e.nh # p}
         G == {e.o : e \in E} \cup (IF Locals(n) = {} THEN {} ELSE {n})
         Ents(g) == {e \in E : e.o = g}
         Amb == {g \in G \ {n} : Cardinality(PathSrc(Ents(g))) > 1}
     IN /\ \E ord \in [G -> 1..Cardinality(G)], amb \in [Amb -> UNION {PathSrc(Ents(g)) : g \in Amb}] :
             /\ \A g, h \in G : g # h => ord[g] # ord[h]
             /\ \A g \in Amb : amb[g] \in PathSrc(Ents(g))
             /\ LET ch(g) == IF g \in Amb THEN amb[g] ELSE CHOOSE e \in PathSrc(Ents(g)) : TRUE
                IN net' = BagAdd(net,
                  {[src |-> n, dst |-> p, o |-> g, seq |-> ctr[n] + ord[g], path |-> <<n>> \o ch(g).path, sb |-> <<n>>,
                    rs |-> {[r |-> e.r, m |-> e.m] : e \in Ents(g)}, ann |-> ch(g).ann, d |-> ch(g).d + 1] : g \in G \ {n}}
                  \cup (IF n \in G THEN {[src |-> n, dst |-> p, o |-> n, seq |-> ctr[n] + ord[n], path |-> <<n>>,
                                           sb |-> <<n>>, rs |-> {[r |-> x, m |-> 0] : x \in Locals(n)}, ann |-> nann[n], d |-> 1]}
                        ELSE {}))
        /\ ctr' = [ctr EXCEPT ![n] = @ + Cardinality(G)]
  /\ last' = [act |-> "Replay", n |-> n, p |-> p, dev |-> "DevReplayUsesOwnSequence"]
  /\ pend' = pend \ {<<n, p>>}
  /\ UNCHANGED <<rejoin, cfg, up, gone, seen, tbl, nann, proc, fwd, sent, viol, clean, bud>>

\* the connection is lost: frames in flight on it are lost, both ends still hold the routes
Disconnect(l) ==
  /\ l \in up /\ bud.disc < MaxDisc
  /\ up' = up \ {l}
  /\ net' = [x \in {y \in DOMAIN net : {y.src, y.dst} # l} |-> net[x]]
  /\ pend' = {x \in pend : {x[1], x[2]} # l}
  /\ gone' = gone \cup ({<<a, b>> : a \in l, b \in l} \ {<<a, a>> : a \in l})
  /\ clean' = [a \in Agent |-> FALSE]
  /\ rejoin' = {}
  /\ bud' = [bud EXCEPT !.disc = @ + 1]
  /\ last' = [act |-> "Disconnect", l |-> l]
  /\ UNCHANGED <<cfg, ctr, seen, tbl, nann, proc, fwd, sent, viol>>

\* handlePeerDisconnect at n: routes whose next hop was p are removed from all four tables, and the announcements
\* they came from are forgotten in the seen cache - otherwise the table replay of a peer that (re)connects within the
\* seen-cache lifetime, which carries the origin's sequence numbers, would be dropped as already seen
PeerGone(n, p) ==
  /\ <<n, p>> \in gone
  /\ gone' = gone \ {<<n, p>>}
  /\ tbl' = [tbl EXCEPT ![n] = {e \in @ : e.nh # p}]
  /\ LET K == IF "DevSeenBlocksResync" \in Dev THEN {} ELSE {<<e.o, e.seq>> : e \in {x \in tbl[n] : x.nh = p}}
     IN /\ seen' = [seen EXCEPT ![n] = @ \ K]
        /\ proc' = {x \in proc : ~(x[1] = n /\ <<x[2], x[3]>> \in K)}
        /\ fwd' = {x \in fwd : ~(x[1] = n /\ <<x[3], x[4]>> \in K)}
  /\ rejoin' = {}       \* (a teardown that is handled after a connect is a later topology event)
  /\ last' = [act |-> "PeerGone", n |-> n, p |-> p]
  /\ UNCHANGED <<cfg, up, pend, ctr, net, nann, sent, viol, clean, bud>>

(* ---- route ageing ----------------------------------------------------------*)
\* time passes: everything stored so far is older than the route TTL
AgeAll ==
  /\ bud.age < MaxAge /\ \E a \in Agent : \E e \in tbl[a] : ~e.old
  /\ tbl' = [a \in Agent |-> {[e EXCEPT !.old = TRUE] : e \in tbl[a]}]
  /\ clean' = [a \in Agent |-> FALSE]
  /\ rejoin' = {}
  /\ bud' = [bud EXCEPT !.age = @ + 1]
  /\ last' = [act |-> "AgeAll"]
  /\ UNCHANGED <<cfg, up, pend, gone, ctr, seen, net, nann, proc, fwd, sent, viol>>

\* CleanupStale*Routes at n (the periodic step of routeAdvertiseLoop)
CleanupStale(n) ==
  /\ \E e \in tbl[n] : e.old
  /\ tbl' = [tbl EXCEPT ![n] = {e \in @ : ~e.old}]
  /\ rejoin' = {}
  /\ last' = [act |-> "CleanupStale", n |-> n]
  /\ UNCHANGED <<cfg, up, pend, gone, ctr, seen, net, nann, proc, fwd, sent, viol, clean, bud>>

Next ==
  \/ \E o \in Agent : Announce(o)
  \/ \E m \in DOMAIN net, keep \in BOOLEAN : Deliver(m, keep)
  \/ \E n \in Agent : \E k \in seen[n] : ExpireSeen(n, k)
  \/ \E l \in Links : Connect(l) \/ Disconnect(l)
  \/ \E x \in pend : Replay(x[1], x[2]) \/ DevReplay(x[1], x[2])
  \/ \E x \in gone : PeerGone(x[1], x[2])
  \/ AgeAll
  \/ \E n \in Agent : CleanupStale(n)

Spec == Init /\ [][Next]_vars

(* ---- properties -------------------------------------------------------------*)
Msgs == DOMAIN net
Quiescent == Msgs = {} /\ pend = {} /\ gone = {}
Stable == bud.disc = 0                        \* no link was ever lost: every link used so far is still up
Reachable == \A a \in Agent : cfg.hops[a] >= Cardinality(Agent) - 1

TypeOK ==
  /\ up \subseteq Links
  /\ \A a \in Agent : \A e \in tbl[a] : e.o \in Agent \ {a} /\ e.nh \in Agent \ {a} /\ e.r \in Locals(e.o) \cup {"p"}
  /\ \A a \in Agent : \A e, f \in tbl[a] : Key(e) = Key(f) => e = f
  /\ \A m \in Msgs : net[m] >= 1 /\ {m.src, m.dst} \in up

\* C11 -- while the seen-cache entry is live an announcement passes the seen check of an agent at most once
\* and is forwarded at most once per neighbour
ProcessedOnce == ~viol.pr
ForwardedOnce == ~viol.fw
\* C11 -- hence at most one frame per direction of every link (no expiry: MaxExpire = 0 or none used yet)
MsgBound == bud.exp = 0 /\ bud.disc = 0 => \A k \in DOMAIN sent : sent[k] <= 2 * Cardinality(up)
\* C11 -- always, also across expiry and replays: stored paths are simple and do not contain the storing agent
PathsSimple == \A a \in Agent : \A e \in tbl[a] : NoDup(e.path) /\ a \notin SeqToSet(e.path)
\* C11 -- termination: the seen-by list of every frame is duplicate-free and a forward strictly extends it, so
\* every forwarding chain is a simple path of at most |Agent| agents, with or without the seen cache
ChainsSimple == \A m \in Msgs : NoDup(m.sb) /\ NoDup(m.path) /\ m.dst \notin SeqToSet(m.sb)
                                 /\ Len(m.sb) <= Cardinality(Agent) /\ Len(m.path) <= Cardinality(Agent)

\* the STREAM_OPEN forwarding rule: the ingress sends to nh with the rest of the path; every hop exits when the
\* remaining path is empty or is just itself, else pops the next agent (which must be a connected peer)
RECURSIVE Walk(_, _)
Walk(cur, rem) == IF rem = <<>> \/ rem = <<cur>> THEN cur
                  ELSE IF {cur, Head(rem)} \in up THEN Walk(Head(rem), Tail(rem)) ELSE "lost"
ChainOK(a, e) == /\ e.nh \in Nbr(a) /\ Len(e.path) >= 1 /\ e.path[1] = e.nh /\ e.path[Len(e.path)] = e.o
                 /\ \A i \in 1..(Len(e.path) - 1) : {e.path[i], e.path[i + 1]} \in up
                 /\ Walk(e.nh, Tail(e.path)) = e.o
\* C12 -- stable topology: next hop is a neighbour, the path is a chain of links ending at the origin, and a
\* stream opened along it reaches the origin
PathsValid == Stable /\ gone = {} => \A a \in Agent : \A e \in tbl[a] : ChainOK(a, e)
\* C12 -- at quiescence everyone has learned the presence and every route of every agent that announced
Learned(a, o) == /\ \E e \in tbl[a] : e.o = o /\ e.r = "p"
                 /\ \A r \in Locals(o) : \E e \in tbl[a] : e.o = o /\ e.r = r
Converged == Quiescent /\ Reachable => \A o \in Agent : clean[o] => \A a \in ReachFrom({o}) \ {o} : Learned(a, o)

\* C12/C14 -- a peer that (re)connects gets, by the table replay, every route the other end holds and could give it
\* (evaluated at quiescence while that connect is the last topology / ageing event)
Givable(n, p, o) == \A e \in tbl[n] : e.o = o => /\ e.nh # p /\ p \notin SeqToSet(e.path)
                                                   /\ Len(e.path) + 1 <= cfg.hops[p] /\ Fits(<<n>> \o e.path)
\* Not claimed once routes have been aged out: CleanupStale removes routes without telling the flooder, so a seen-cache
\* entry can outlive its routes when the route TTL is configured below the (fixed) seen-cache lifetime.
Resynced == Quiescent /\ rejoin # {} /\ bud.age = 0 =>
              \A n \in rejoin : \A p \in rejoin \ {n} : \A e \in tbl[n] :
                 e.o # p /\ Givable(n, p, e.o) => \E f \in tbl[p] : f.o = e.o /\ f.r = e.r

\* C13 -- metric = number of hops along the recorded path
MetricIsHops == \A a \in Agent : \A e \in tbl[a] : e.m = Len(e.path)
\* C13 -- so the best entry (lowest metric, what Lookup returns) is one with the fewest hops
NearestPreferred == \A a \in Agent : \A e, f \in tbl[a] : e.r = f.r /\ e.m <= f.m => Len(e.path) <= Len(f.path)

\* C14 -- after an announcement of o and quiescence every connected agent holds o's routes as renewed by that
\* announcement (whatever replays happened before)
Fresh(a, o) == /\ \E e \in tbl[a] : e.o = o /\ e.r = "p" /\ e.ann = nann[o] /\ ~e.old
               /\ \A r \in Locals(o) : \E e \in tbl[a] : e.o = o /\ e.r = r /\ e.ann = nann[o] /\ ~e.old
Refreshed == Quiescent /\ Reachable => \A o \in Agent : clean[o] => \A a \in ReachFrom({o}) \ {o} : Fresh(a, o)

\* C15 -- nothing is stored more than MaxHops from its origin, nothing is forwarded from there
HopLimit == /\ \A a \in Agent : \A e \in tbl[a] : Len(e.path) <= cfg.hops[a] /\ e.d <= cfg.hops[a]
            /\ \A m \in Msgs : Len(m.path) <= cfg.hops[m.src] + 1 /\ m.d <= cfg.hops[m.src] + 1
\* C15/C11 -- the recorded path is as long as the way the announcement really travelled (nothing is lost when a
\* path is written to the wire), and every list in flight fits its count field
PathIsDistance == /\ \A a \in Agent : \A e \in tbl[a] : Len(e.path) = e.d
                  /\ \A m \in Msgs : Len(m.path) = m.d /\ Len(m.path) < ListMod /\ Len(m.sb) < ListMod

\* C06 -- every frame fits its count field and every frame delivered so far was decoded as the set that was sent
CountFits == \A m \in Msgs : Cardinality(m.rs) < CntMod
DecodedIntact == ~viol.c06

(* ---- edge emission ---------------------------------------------------------*)
Proj(s_up, s_pend, s_gone, s_ctr, s_seen, s_tbl, s_net) ==
  [loc |-> cfg.loc, hops |-> cfg.hops,
   up |-> s_up, pend |-> s_pend, gone |-> s_gone, ctr |-> s_ctr, seen |-> s_seen, tbl |-> s_tbl,
   net |-> {[m |-> x, n |-> s_net[x]] : x \in DOMAIN s_net}]
EmitEdge ==
  Emit => PrintT("EDGE " \o ToJson([s |-> Proj(up, pend, gone, ctr, seen, tbl, net), a |-> last',
                                     t |-> Proj(up', pend', gone', ctr', seen', tbl', net')]))
=============================================================================
