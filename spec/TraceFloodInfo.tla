--------------------------- MODULE TraceFloodInfo ---------------------------
(* Trace validation: executions of a harness network of REAL flood.Flooder +  *)
(* routing.Manager nodes (ndjson, many executions concatenated, separated by  *)
(* Reset events that carry the set-up: links up, exit routes of every agent)  *)
(* must be behaviours of FloodInfo.  Every event carries its arguments, the   *)
(* projected state of the agent that acted after the call (node-info counter, *)
(* seen cache and store; route counter, seen cache and learned routes) and    *)
(* the frames the call put on the wire, in order.  Links are FIFO queues.     *)
EXTENDS FloodInfo, IOUtils

VARIABLE l
Trace == ndJsonDeserialize(IOEnv.TRACE_FILE)
ev == Trace[l]

ToSet(s) == {s[i] : i \in 1..Len(s)}
TraceInit == Init /\ l = 1 /\ TLCSet(1, 1)
Consume(name) == l <= Len(Trace) /\ ev.ev = name /\ l' = l + 1

EvF(x) == Frame(x.k, x.src, x.dst, x.o, x.seq, x.path, x.sb, ToSet(x.rs))
EvSent == [j \in 1..Len(ev.st.sent) |-> EvF(ev.st.sent[j])]
Pair(x) == <<x[1], x[2]>>

\* the acting agent's state after the call, as observed on the real objects
StateOK(n) ==
  /\ iseq'[n] = ev.st.iseq
  /\ iseen'[n] = {Pair(x) : x \in ToSet(ev.st.iseen)}
  /\ \A o \in Agent : info'[n][o] = ev.st.info[o]
  /\ ctr'[n] = ev.st.ctr
  /\ seen'[n] = {Pair(x) : x \in ToSet(ev.st.seen)}
  /\ tbl'[n] = ToSet(ev.st.tbl)
\* the queues afterwards: `base` plus the frames the call sent, in sending order
NetOK(base) == net' = PushTo(base, EvSent)

TraceAnnounceInfo == Consume("AnnounceInfo") /\ AnnounceInfo(ev.n) /\ StateOK(ev.n) /\ NetOK(net)
TraceAnnounce == Consume("Announce") /\ Announce(ev.n) /\ StateOK(ev.n) /\ NetOK(net)
TraceWithdraw == Consume("Withdraw") /\ Withdraw(ev.n) /\ last'.res = ev.res /\ StateOK(ev.n) /\ NetOK(net)
TraceDeliver ==
  /\ Consume("Deliver")
  /\ LET lk == <<ev.src, ev.dst>>
     IN /\ lk \in DLinks /\ ev.i \in 1..Len(net[lk])
        /\ net[lk][ev.i].k = ev.k /\ net[lk][ev.i].o = ev.o /\ net[lk][ev.i].seq = ev.seq
        /\ DeliverInfo(lk, ev.i) \/ DeliverAdv(lk, ev.i) \/ DeliverWithdraw(lk, ev.i)
        \* from outside, the ways of dropping a new frame look alike (the call returns false)
        /\ IF ev.res = "dropped" THEN last'.res \in {"seenby", "loop"} ELSE last'.res = ev.res
        /\ NetOK(Rest(lk, ev.i))
  /\ StateOK(ev.dst)
TraceReplayRoutes == Consume("ReplayRoutes") /\ ReplayRoutesOrd(ev.n, ev.p, EvSent) /\ StateOK(ev.n)
TraceReplayInfo == Consume("ReplayInfo") /\ ReplayInfoOrd(ev.n, ev.p, EvSent) /\ StateOK(ev.n)
TraceExpire == Consume("ExpireSeen") /\ ExpireSeen(ev.n, <<ev.o, ev.seq>>) /\ StateOK(ev.n)
TraceExpireI == Consume("ExpireISeen") /\ ExpireISeen(ev.n, <<ev.o, ev.seq>>) /\ StateOK(ev.n)
TraceForget == Consume("ForgetInfo") /\ ForgetInfo(ev.n, ev.o) /\ StateOK(ev.n)
TraceConnect == Consume("Connect") /\ Connect(ToSet(ev.l))
TraceDisconnect == Consume("Disconnect") /\ Disconnect(ToSet(ev.l))
TracePeerGone == Consume("PeerGone") /\ PeerGone(ev.n, ev.p) /\ StateOK(ev.n)

TraceReset ==
  /\ Consume("Reset")
  /\ \E sc \in Scen : cfg' = [sc EXCEPT !.up = {ToSet(x) : x \in ToSet(ev.up)}, !.loc = [a \in Agent |-> ToSet(ev.loc[a])]]
  /\ up' = {ToSet(x) : x \in ToSet(ev.up)} /\ pendR' = {} /\ pendI' = {} /\ gone' = {}
  /\ ctr' = [a \in Agent |-> Cardinality(ToSet(ev.loc[a]))]
  /\ seen' = [a \in Agent |-> {}] /\ tbl' = [a \in Agent |-> {}] /\ wd' = [a \in Agent |-> {}]
  /\ iseq' = [a \in Agent |-> 0] /\ iseen' = [a \in Agent |-> {}]
  /\ info' = [a \in Agent |-> [o \in Agent |-> 0]]
  /\ net' = [x \in DLinks |-> <<>>]
  /\ proc' = {} /\ fwd' = {} /\ sent' = EmptyFn
  /\ hi' = [a \in Agent |-> [o \in Agent |-> 0]]
  /\ wseq' = [a \in Agent |-> 0] /\ rclean' = [a \in Agent |-> FALSE]
  /\ viol' = NoViol /\ bud' = ZeroBud
  /\ last' = [act |-> "Init"]

TraceNext == \/ TraceAnnounceInfo \/ TraceAnnounce \/ TraceWithdraw \/ TraceDeliver \/ TraceReplayRoutes \/ TraceReplayInfo
             \/ TraceExpire \/ TraceExpireI \/ TraceForget \/ TraceConnect \/ TraceDisconnect \/ TracePeerGone \/ TraceReset
TraceSpec == TraceInit /\ [][TraceNext]_<<vars, l>>

HighWater == TLCSet(1, IF l > TLCGet(1) THEN l ELSE TLCGet(1))
TraceAccepted == /\ PrintT("HW " \o ToString(TLCGet(1)))
                 /\ PrintT("LEN " \o ToString(Len(Trace)))
                 /\ TLCGet(1) = Len(Trace) + 1
=============================================================================
