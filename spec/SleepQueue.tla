------------------------------ MODULE SleepQueue ------------------------------
(***************************************************************************)
(* The state queue an awake agent keeps for its sleeping peers, its        *)
(* delivery as QUEUED_STATE frames and what the receiver does with them    *)
(* (growth module G04).                                                    *)
(*                                                                         *)
(* Code: internal/sleep/queue.go  StateQueue.AddRoute / AddWithdraw /      *)
(* AddNodeInfo / GetAndClear / Clear / HasStateFor / Stats;                *)
(* internal/sleep/sleep.go  Manager.Queue*ForPeer, GetQueuedState, Wake    *)
(* (-> queue.Clear);  internal/protocol/frame.go  QueuedState.Encode /     *)
(* DecodeQueuedState, Frame.Encode (MaxPayloadSize);                       *)
(* internal/agent/agent.go  handleQueuedState (receiver), handlePeer-      *)
(* Connected (flooder.OnPeerConnected, SendFullTable, SendNodeInfoToNew-   *)
(* Peer), handlePeerDisconnect (routes via the lost peer are dropped);     *)
(* internal/flood/flood.go  HandleRouteAdvertise / HandleRouteWithdraw /   *)
(* HandleNodeInfoAdvertise / HandleWakeCommand as far as the receiver      *)
(* needs them.  Documentation: Architecture.md "State Queue", "QUEUED_-    *)
(* STATE (0x52)", "Poll Cycle".                                            *)
(*                                                                         *)
(* Agents: the holder A (awake neighbour, owns the queue), the peers p in  *)
(* Peers (each may sleep; "s" is the sleeper looked at, a second peer      *)
(* shows that queues are per peer), and "the mesh" behind A that produces  *)
(* the live frames.  A frame is [k, o, n]:                                 *)
(*   k = "adv"  ROUTE_ADVERTISE of origin o under the origin's sequence n  *)
(*       "wd"   ROUTE_WITHDRAW  of origin o under the origin's sequence n  *)
(*              (announcements and withdrawals of an origin draw from ONE  *)
(*              counter, so (o, n) fixes the kind: IsWd)                   *)
(*       "info" NODE_INFO_ADVERTISE of origin o, node-info sequence n      *)
(*       "cmd"  a sleep / wake command with identifier o (n = 0)           *)
(* One route per origin is followed (its exit route): adv installs it,     *)
(* wd removes it.                                                          *)
(*                                                                         *)
(* One action = one critical section / one processFrame of the code:       *)
(*   Live(f)        A's flooder handles a frame from the mesh (seen-cache  *)
(*                  test-and-set, own tables) and passes it on to every    *)
(*                  peer: SENT to a connected peer (which handles it at    *)
(*                  once), put into the peer's queue while it sleeps.  The *)
(*                  queue outcome per peer is one StateQueue.Add* call     *)
(*                  under q.mu:  enqueue | duplicate | supersede | stale | *)
(*                  overflow (bound reached, oldest item evicted)          *)
(*   PeerSleeps(p)  the peer disconnects (a sleeping agent sends nothing   *)
(*                  special: enterSleep = DisconnectAll)                   *)
(*   PeerPolls(p)   the peer reconnects (poll cycle or wake-up: the same   *)
(*                  for A); A owes it the queue                            *)
(*   Deliver(p)     GetAndClear + QueuedState.Encode + one QUEUED_STATE    *)
(*                  frame; a queue that does not fit one frame (FrameCap   *)
(*                  items) goes out as several frames, oldest part first   *)
(*   ReceiverApply(p)  handleQueuedState hands the next part of the frame  *)
(*                  to the flooder: all Routes, then all Withdraws, then   *)
(*                  all NodeInfos, then the command                        *)
(*   HolderSeenExpire  A's seen cache forgets (ClearSeenCache): replays of *)
(*                  old frames pass again -> duplicates reach the queue    *)
(*   HolderWakes    A itself slept and wakes: Manager.Wake clears every    *)
(*                  queue (what it queued before it slept is stale)        *)
(*                                                                         *)
(* The module describes the IDEAL design = the documented one              *)
(* (Architecture.md: "Awake agents queue state updates for sleeping peers: *)
(* route advertisements / withdrawals queued with deduplication (same      *)
(* origin + sequence), node info latest per origin only, sleep/wake        *)
(* commands latest command retained, queue limits; QUEUED_STATE sent to    *)
(* agents when they reconnect after sleeping") with a receiver that        *)
(* respects sequence numbers.  Route frames are NOT superseded per origin: *)
(* an origin's route set may be split over several advertisements          *)
(* (flood.splitRoutes) and a withdrawal names individual routes, so only   *)
(* node infos (whole-state messages) have a newest-per-origin rule.        *)
(*                                                                         *)
(* Deviations (constant Dev).  Mutations of the queue rules:               *)
(*   DevQueueOlderOvertakes     AddNodeInfo replaces whatever the sequence *)
(*   DevNotClearedAfterDelivery GetAndClear leaves the queue in place      *)
(*   DevOverflowDropsNewest     at the bound the NEW item is dropped       *)
(*   DevQueueForAwakePeer       a frame for a connected peer is queued     *)
(*                              instead of sent                            *)
(* As-built behaviour of the pinned tree (AS_BUILT in checks/_sleepqueue): *)
(*   DevAgentNeverQueues        agent.go never calls Queue*ForPeer /       *)
(*                              GetQueuedState and never sends QUEUED_-    *)
(*                              STATE: nothing is queued; a reconnecting   *)
(*                              peer gets the pending wake command, the    *)
(*                              full routing table under the origins'      *)
(*                              sequence numbers and all node infos        *)
(*   DevSleeperDropsTable       the sleeper drops every route learned via  *)
(*                              A when it disconnects (handlePeerDis-      *)
(*                              connect); a queue of CHANGES alone could   *)
(*                              not bring it back in sync                  *)
(*   DevSeenBlocksResync        ... but keeps its seen cache: a replayed   *)
(*                              announcement it saw before sleeping is     *)
(*                              refused although the route is gone (fix    *)
(*                              87c660f made replays keep the origin's     *)
(*                              sequence; repaired by forgetting the seen  *)
(*                              entries of the routes removed on           *)
(*                              disconnect - both variants are bound)      *)
(*   DevNoCommandSlot           StateQueue has no slot for commands        *)
(*                              (QueuedState.SleepCmd / WakeCmd are never  *)
(*                              filled)                                    *)
(*   DevNoFrameSplit            GetAndClear returns the whole queue as ONE *)
(*                              message whatever its size; beyond          *)
(*                              MaxPayloadSize Frame.Encode fails and the  *)
(*                              (already cleared) state is lost            *)
(*   DevWithdrawIgnoresSequence HandleRouteWithdraw removes the origin's   *)
(*                              route whatever its sequence (G01); because *)
(*                              QUEUED_STATE regroups by kind, a withdrawal*)
(*                              is applied AFTER a newer announcement even *)
(*                              when the live order was right              *)
(*   DevReplayResurrectsWithdrawn  no memory of processed withdrawals (G01)*)
(*                                                                         *)
(* Instances (checks/_sleepqueue.py generates the cfgs):                   *)
(*   replay   Peers {s}, Origins {o1,o2}, MaxSeq 2 (thorough 3), Bound 2,  *)
(*            FrameCap 2, MaxLive 3, MaxSleeps 2: relations emitted with   *)
(*            Ghost = FALSE for Dev = {} (ideal), AS_BUILT_Q (queue type,  *)
(*            codec, receiver) and AS_BUILT_A (whole agents, with and      *)
(*            without DevSeenBlocksResync; MaxHolderWake = 0)              *)
(*   sens     one origin, Bound 1, FrameCap 1, MaxLive 2, DevChoices = the *)
(*            ideal design, the full-table design, every deviation: Catch  *)
(*            / CatchStep report what catches each                         *)
(*   big      (thorough) two peers / MaxLive 4, model checking only        *)
(* Ghost variables (owed, lost, dlv, redelivered, counters) never          *)
(* influence the other variables.                                          *)
(***************************************************************************)
EXTENDS Integers, Sequences, FiniteSets, TLC, Json

CONSTANTS Peers,         \* peers of A (strings)
          Origins,       \* origins of route / node-info frames
          MaxSeq,        \* sequence numbers 1..MaxSeq
          WdOrigins,     \* (o, n) is a withdrawal iff o \in WdOrigins /\ n \in WdSeqs, else an announcement
          WdSeqs,
          InfoOrigins,   \* origins that also flood node info
          Cmds,          \* command identifiers
          Bound,         \* MaxQueuedMessages: items per kind per peer
          FrameCap,      \* items (of the sizes the binding uses) that fit one QUEUED_STATE frame
          MaxLive,       \* budget: live frames
          MaxSleeps,     \* budget: PeerSleeps steps
          MaxExpire,     \* budget: HolderSeenExpire steps
          MaxHolderWake, \* budget: HolderWakes steps
          Ghost,         \* TRUE: keep the ghost variables (needed by SleeperLearnsNewest, DeliveredOnce, NoNeedlessLoss);
                         \* FALSE: leave them at their initial values (smaller graph for the runs that emit edges)
          Dev,           \* enabled deviations (ordinary runs)
          DevChoices,    \* {} for ordinary runs; a set of deviation sets for the combined sensitivity run: one
                         \* behaviour family per choice (variable devv), violations are printed by Catch / CatchStep
          Emit

DevNames == {"DevQueueOlderOvertakes", "DevNotClearedAfterDelivery", "DevOverflowDropsNewest", "DevQueueForAwakePeer",
             "DevAgentNeverQueues", "DevSleeperDropsTable", "DevSeenBlocksResync", "DevNoCommandSlot", "DevNoFrameSplit",
             "DevWithdrawIgnoresSequence", "DevReplayResurrectsWithdrawn"}
ASSUME Dev \subseteq DevNames /\ WdOrigins \subseteq Origins /\ InfoOrigins \subseteq Origins /\ Bound >= 1 /\ FrameCap >= 1
       /\ \A c \in DevChoices : c \subseteq DevNames
Seqs == 1..MaxSeq
IsWd(o, n) == o \in WdOrigins /\ n \in WdSeqs
RouteFrames == {[k |-> IF IsWd(o, n) THEN "wd" ELSE "adv", o |-> o, n |-> n] : o \in Origins, n \in Seqs}
InfoFrames == {[k |-> "info", o |-> o, n |-> n] : o \in InfoOrigins, n \in Seqs}
CmdFrames == {[k |-> "cmd", o |-> c, n |-> 0] : c \in Cmds}
Universe == RouteFrames \cup InfoFrames \cup CmdFrames
Key(f) == [o |-> f.o, n |-> f.n]
Max(a, b) == IF a > b THEN a ELSE b

VARIABLES mode,        \* [Peers -> "awake" | "sleeping"]   connected / disconnected, as A sees it
          draining,    \* [Peers -> BOOLEAN]  the peer has reconnected and A still owes it queued state
          q,           \* [Peers -> [adv, wd, info : Seq([o, n]), cmd : "none" | command id]]
          msg,         \* [Peers -> Seq(frame)]  parts of the QUEUED_STATE frame the peer is processing
          rcv,         \* [Peers -> receiver state]  what the peer's flooder / tables hold
          hold,        \* A's own flooder / tables (+ pend: the pending wake command kept for new peers)
          owed,        \* ghost: frames that passed A's seen cache (what every peer should know in the end)
          lost,        \* ghost [Peers -> set of frames]: evicted at the bound / cleared by HolderWakes / unsendable
          dlv,         \* ghost [Peers -> set of frames]: delivered since they were last appended to the queue
          redelivered, \* ghost: a Deliver step contained an item that had been delivered already
          lastcmd,     \* ghost: the newest command that passed A ("none")
          nlive, nsleeps, nexp, nhw,   \* budgets
          devv,        \* the deviations of this behaviour (= Dev unless DevChoices is used; never changes)
          last         \* observation of the last step (hidden by VIEW)

D(x) == x \in devv

ghosts == <<owed, lost, dlv, redelivered, lastcmd>>
budgets == <<nlive, nsleeps, nexp, nhw>>
core == <<mode, draining, q, msg, rcv, hold>>
vars == <<core, ghosts, budgets, devv, last>>
view == <<core, ghosts, budgets, devv>>

(* ---- receiver (flooder + tables of one agent) ---------------------------*)
R0 == [tab |-> [o \in Origins |-> 0],    \* sequence of the stored route of origin o, 0 = none
       tomb |-> [o \in Origins |-> 0],   \* highest withdrawal sequence processed (ideal design only)
       info |-> [o \in Origins |-> 0],   \* sequence of the stored node info
       seen |-> {},                      \* seen cache shared by announcements and withdrawals: {[o, n]}
       iseen |-> {},                     \* node-info seen cache
       cseen |-> {}]                     \* command seen cache

\* HandleRouteAdvertise + Table.AddRoute: a newer sequence replaces, an absent route is installed
\* (ideal: unless a newer withdrawal was processed)
ApplyAdv(r, f) ==
  IF Key(f) \in r.seen THEN [r |-> r, res |-> "dup", dev |-> {}]
  ELSE LET r1 == [r EXCEPT !.seen = @ \cup {Key(f)}]
           newer == r.tab[f.o] = 0 \/ f.n > r.tab[f.o]
           alive == f.n > r.tomb[f.o]
           install == newer /\ (alive \/ D("DevReplayResurrectsWithdrawn"))
       IN [r |-> IF install THEN [r1 EXCEPT !.tab[f.o] = f.n] ELSE r1,
           res |-> IF install THEN "installed" ELSE "older",
           dev |-> IF install /\ ~alive THEN {"DevReplayResurrectsWithdrawn"} ELSE {}]

\* HandleRouteWithdraw + Table.RemoveRoute (ideal: only a route older than the withdrawal)
ApplyWd(r, f) ==
  IF Key(f) \in r.seen THEN [r |-> r, res |-> "dup", dev |-> {}]
  ELSE LET r1 == [r EXCEPT !.seen = @ \cup {Key(f)}, !.tomb[f.o] = Max(@, f.n)]
           present == r.tab[f.o] # 0
           older == r.tab[f.o] < f.n
           remove == present /\ (older \/ D("DevWithdrawIgnoresSequence"))
       IN [r |-> IF remove THEN [r1 EXCEPT !.tab[f.o] = 0] ELSE r1,
           res |-> IF remove THEN "removed" ELSE "kept",
           dev |-> IF remove /\ ~older THEN {"DevWithdrawIgnoresSequence"} ELSE {}]

\* HandleNodeInfoAdvertise + SetNodeInfoEncrypted: only a newer sequence is stored
ApplyInfo(r, f) ==
  IF Key(f) \in r.iseen THEN [r |-> r, res |-> "dup", dev |-> {}]
  ELSE LET r1 == [r EXCEPT !.iseen = @ \cup {Key(f)}]
       IN [r |-> IF f.n > r.info[f.o] THEN [r1 EXCEPT !.info[f.o] = f.n] ELSE r1,
           res |-> IF f.n > r.info[f.o] THEN "installed" ELSE "older", dev |-> {}]

\* HandleSleepCommand / HandleWakeCommand: deduplicated by command id, then acted on and forwarded (SleepCmd.tla)
ApplyCmd(r, f) ==
  IF f.o \in r.cseen THEN [r |-> r, res |-> "dup", dev |-> {}]
  ELSE [r |-> [r EXCEPT !.cseen = @ \cup {f.o}], res |-> "accept", dev |-> {}]

Apply(r, f) == CASE f.k = "adv" -> ApplyAdv(r, f) [] f.k = "wd" -> ApplyWd(r, f)
                 [] f.k = "info" -> ApplyInfo(r, f) [] OTHER -> ApplyCmd(r, f)
\* a frame that passes the seen cache is flooded on to the receiver's other peers
Fwd(res) == res # "dup"

(* ---- the queue of one peer ------------------------------------------------*)
Q0 == [adv |-> <<>>, wd |-> <<>>, info |-> <<>>, cmd |-> "none"]
Holds(L, it) == \E i \in 1..Len(L) : L[i] = it
IdxOf(L, o) == CHOOSE i \in 1..Len(L) : L[i].o = o
HasOrigin(L, o) == \E i \in 1..Len(L) : L[i].o = o
QEmpty(x) == x.adv = <<>> /\ x.wd = <<>> /\ x.info = <<>> /\ x.cmd = "none"
AsFrames(L, k) == [i \in 1..Len(L) |-> [k |-> k, o |-> L[i].o, n |-> L[i].n]]
\* wire order of QUEUED_STATE: Routes, Withdraws, NodeInfos, command
Flat(x) == AsFrames(x.adv, "adv") \o AsFrames(x.wd, "wd") \o AsFrames(x.info, "info")
             \o (IF x.cmd = "none" THEN <<>> ELSE <<[k |-> "cmd", o |-> x.cmd, n |-> 0]>>)
Items(F, k) == LET S == SelectSeq(F, LAMBDA f : f.k = k) IN [i \in 1..Len(S) |-> Key(S[i])]
Unflat(F) == [adv |-> Items(F, "adv"), wd |-> Items(F, "wd"), info |-> Items(F, "info"),
              cmd |-> IF \E i \in 1..Len(F) : F[i].k = "cmd" THEN (CHOOSE f \in {F[i] : i \in 1..Len(F)} : f.k = "cmd").o
                      ELSE "none"]
Range(F) == {F[i] : i \in 1..Len(F)}

\* one Add* call:  [q |-> new queue, out |-> outcome, lost |-> frames that fell out]
AddList(x, f) ==   \* AddRoute / AddWithdraw: deduplicate on (origin, sequence), evict the oldest at the bound
  LET L == x[f.k] IN
  IF Holds(L, Key(f)) THEN [q |-> x, out |-> "duplicate", lost |-> {}]
  ELSE IF Len(L) >= Bound
    THEN IF D("DevOverflowDropsNewest")
           THEN [q |-> x, out |-> "overflow", lost |-> {f}]
           ELSE [q |-> [x EXCEPT ![f.k] = Append(Tail(L), Key(f))], out |-> "overflow",
                 lost |-> {[k |-> f.k, o |-> Head(L).o, n |-> Head(L).n]}]
    ELSE [q |-> [x EXCEPT ![f.k] = Append(L, Key(f))], out |-> "enqueue", lost |-> {}]

AddInfo(x, f) ==   \* AddNodeInfo: one item per origin, replaced in place by a newer one
  LET L == x.info IN
  IF HasOrigin(L, f.o)
    THEN LET i == IdxOf(L, f.o) IN
         IF f.n > L[i].n \/ (D("DevQueueOlderOvertakes") /\ f.n # L[i].n)
           THEN [q |-> [x EXCEPT !.info[i] = Key(f)], out |-> "supersede", lost |-> {}]
           ELSE [q |-> x, out |-> "stale", lost |-> {}]
    ELSE AddList(x, f)

AddCmd(x, f) ==    \* documented: "latest command retained"
  IF D("DevNoCommandSlot") THEN [q |-> x, out |-> "nocmdslot", lost |-> {f}]
  ELSE [q |-> [x EXCEPT !.cmd = f.o], out |-> IF x.cmd = "none" THEN "enqueue" ELSE "supersede", lost |-> {}]

Add(x, f) == CASE f.k \in {"adv", "wd"} -> AddList(x, f) [] f.k = "info" -> AddInfo(x, f) [] OTHER -> AddCmd(x, f)

(* ---- steps ---------------------------------------------------------------*)
Quiet == \A p \in Peers : msg[p] = <<>> /\ ~draining[p]

Init ==
  /\ mode = [p \in Peers |-> "awake"]
  /\ draining = [p \in Peers |-> FALSE]
  /\ q = [p \in Peers |-> Q0]
  /\ msg = [p \in Peers |-> <<>>]
  /\ rcv = [p \in Peers |-> R0]
  /\ hold = R0 @@ [pend |-> "none"]
  /\ owed = {} /\ lost = [p \in Peers |-> {}] /\ dlv = [p \in Peers |-> {}] /\ redelivered = FALSE /\ lastcmd = "none"
  /\ nlive = 0 /\ nsleeps = 0 /\ nexp = 0 /\ nhw = 0
  /\ devv \in (IF DevChoices = {} THEN {Dev} ELSE DevChoices)
  /\ last = [act |-> "Init"]

HoldRcv == [tab |-> hold.tab, tomb |-> hold.tomb, info |-> hold.info, seen |-> hold.seen, iseen |-> hold.iseen,
            cseen |-> hold.cseen]

(* A frame from the mesh reaches A.  A duplicate (A's seen cache) goes no   *)
(* further.  Otherwise every peer gets it: connected -> sent and handled,   *)
(* sleeping -> queued.                                                      *)
Live(f) ==
  /\ Quiet /\ nlive < MaxLive
  /\ LET a == Apply(HoldRcv, f)
         pass == a.res # "dup"
         \* per peer: what happens to the frame
         queued(p) == IF mode[p] = "sleeping" THEN ~D("DevAgentNeverQueues")
                      ELSE D("DevQueueForAwakePeer")
         sent(p) == mode[p] = "awake" /\ ~D("DevQueueForAwakePeer")
         add(p) == Add(q[p], f)
         ap(p) == Apply(rcv[p], f)
         out(p) == IF ~pass THEN "none"
                   ELSE IF sent(p) THEN "sent"
                   ELSE IF queued(p) THEN add(p).out
                   ELSE "dropped"
         devs == a.dev \cup UNION {IF pass /\ sent(p) THEN ap(p).dev ELSE {} : p \in Peers}
                   \cup (IF pass /\ \E p \in Peers : out(p) = "dropped" THEN {"DevAgentNeverQueues"} ELSE {})
                   \cup (IF pass /\ \E p \in Peers : out(p) = "nocmdslot" THEN {"DevNoCommandSlot"} ELSE {})
     IN /\ hold' = a.r @@ [pend |-> IF pass /\ f.k = "cmd" THEN f.o ELSE hold.pend]
        /\ q' = [p \in Peers |-> IF pass /\ ~sent(p) /\ queued(p) THEN add(p).q ELSE q[p]]
        /\ rcv' = [p \in Peers |-> IF pass /\ sent(p) THEN ap(p).r ELSE rcv[p]]
        /\ owed' = IF Ghost /\ pass THEN owed \cup {f} ELSE owed
        /\ lastcmd' = IF Ghost /\ pass /\ f.k = "cmd" THEN f.o ELSE lastcmd
        \* a frame that is neither sent nor queued is not "lost" here: as built the resync on reconnect has to cover it
        /\ lost' = [p \in Peers |-> IF Ghost /\ pass /\ ~sent(p) /\ queued(p) THEN lost[p] \cup add(p).lost ELSE lost[p]]
        /\ dlv' = [p \in Peers |-> IF Ghost /\ pass /\ ~sent(p) /\ queued(p) /\ add(p).out \in {"enqueue", "overflow", "supersede"}
                                     THEN dlv[p] \ {f} ELSE dlv[p]]
        /\ last' = [act |-> "Live", f |-> f, hres |-> a.res, out |-> [p \in Peers |-> out(p)],
                    res |-> [p \in Peers |-> IF pass /\ sent(p) THEN ap(p).res ELSE "none"], dev |-> devs]
  /\ nlive' = nlive + 1
  /\ UNCHANGED <<mode, draining, msg, redelivered, nsleeps, nexp, nhw>>

PeerSleeps(p) ==
  /\ Quiet /\ mode[p] = "awake" /\ nsleeps < MaxSleeps
  /\ mode' = [mode EXCEPT ![p] = "sleeping"]
  \* as built the sleeper forgets every route it learned via A (handlePeerDisconnect).  Its seen cache: with
  \* DevSeenBlocksResync it is left alone; without (Flooder.OnPeerDisconnected of the repaired tree) the entries
  \* <origin, sequence> of exactly the removed routes are forgotten too, so that their replay can restore them
  /\ rcv' = IF D("DevSleeperDropsTable")
              THEN [rcv EXCEPT ![p].tab = [o \in Origins |-> 0],
                               ![p].seen = IF D("DevSeenBlocksResync") THEN @
                                           ELSE @ \ {[o |-> o, n |-> rcv[p].tab[o]] : o \in {x \in Origins : rcv[p].tab[x] # 0}}]
              ELSE rcv
  /\ nsleeps' = nsleeps + 1
  /\ last' = [act |-> "PeerSleeps", p |-> p,
              dev |-> IF D("DevSleeperDropsTable") /\ rcv'[p] # rcv[p] THEN {"DevSleeperDropsTable"} ELSE {}]
  /\ UNCHANGED <<draining, q, msg, hold, ghosts, nlive, nexp, nhw>>

\* as built: what handlePeerConnected sends to a (re)connected peer
ResyncFrames ==
  (IF hold.pend = "none" THEN {} ELSE {[k |-> "cmd", o |-> hold.pend, n |-> 0]})
  \cup {[k |-> "adv", o |-> o, n |-> hold.tab[o]] : o \in {x \in Origins : hold.tab[x] # 0}}
  \cup {[k |-> "info", o |-> o, n |-> hold.info[o]] : o \in {x \in Origins : hold.info[x] # 0}}

\* the sleeper handles the replayed frames (announcements only: their order does not matter)
RECURSIVE ApplyAll(_, _)
ApplyAll(r, F) == IF F = {} THEN r ELSE LET f == CHOOSE x \in F : TRUE IN ApplyAll(Apply(r, f).r, F \ {f})

PeerPolls(p) ==
  /\ Quiet /\ mode[p] = "sleeping"
  /\ mode' = [mode EXCEPT ![p] = "awake"]
  /\ IF D("DevAgentNeverQueues")
       THEN /\ rcv' = [rcv EXCEPT ![p] = ApplyAll(rcv[p], ResyncFrames)]
            /\ draining' = draining
            /\ last' = [act |-> "PeerPolls", p |-> p, sent |-> ResyncFrames, queued |-> FALSE,
                        dev |-> {"DevAgentNeverQueues"}
                                 \cup (IF \E f \in ResyncFrames : f.k = "adv" /\ rcv'[p].tab[f.o] = 0
                                         THEN {"DevSeenBlocksResync"} ELSE {})]
       ELSE /\ rcv' = rcv
            /\ draining' = [draining EXCEPT ![p] = ~QEmpty(q[p])]
            /\ last' = [act |-> "PeerPolls", p |-> p, sent |-> {}, queued |-> ~QEmpty(q[p]), dev |-> {}]
  /\ UNCHANGED <<q, msg, hold, ghosts, budgets>>

(* GetQueuedState + encode + send.  Ideal: the oldest FrameCap items (wire  *)
(* order) go out, the rest stays queued for the next frame.                 *)
Deliver(p) ==
  /\ draining[p] /\ msg[p] = <<>>
  /\ LET F == Flat(q[p])
         whole == D("DevNoFrameSplit") \/ Len(F) <= FrameCap
         chunk == IF whole THEN F ELSE SubSeq(F, 1, FrameCap)
         rest == IF whole THEN <<>> ELSE SubSeq(F, FrameCap + 1, Len(F))
         toolarge == Len(chunk) > FrameCap
         keep == D("DevNotClearedAfterDelivery")
     IN /\ msg' = [msg EXCEPT ![p] = IF toolarge THEN <<>> ELSE chunk]
        /\ q' = [q EXCEPT ![p] = IF keep THEN @ ELSE Unflat(rest)]
        /\ draining' = [draining EXCEPT ![p] = ~keep /\ rest # <<>>]
        /\ lost' = [lost EXCEPT ![p] = IF Ghost /\ toolarge THEN @ \cup Range(chunk) ELSE @]
        /\ redelivered' = (redelivered \/ (Ghost /\ ~toolarge /\ Range(chunk) \cap dlv[p] # {}))
        /\ dlv' = [dlv EXCEPT ![p] = IF ~Ghost \/ toolarge THEN @ ELSE @ \cup Range(chunk)]
        /\ last' = [act |-> "Deliver", p |-> p, frame |-> chunk, res |-> IF toolarge THEN "toolarge" ELSE "sent",
                    more |-> draining'[p],
                    dev |-> (IF toolarge \/ (D("DevNoFrameSplit") /\ Len(F) > FrameCap) THEN {"DevNoFrameSplit"} ELSE {})
                             \cup (IF keep THEN {"DevNotClearedAfterDelivery"} ELSE {})]
  /\ UNCHANGED <<mode, rcv, hold, owed, lastcmd, budgets>>

ReceiverApply(p) ==
  /\ msg[p] # <<>>
  /\ LET f == Head(msg[p])
         a == Apply(rcv[p], f)
     IN /\ rcv' = [rcv EXCEPT ![p] = a.r]
        /\ msg' = [msg EXCEPT ![p] = Tail(@)]
        /\ last' = [act |-> "ReceiverApply", p |-> p, part |-> f, res |-> a.res, fwd |-> Fwd(a.res), dev |-> a.dev]
  /\ UNCHANGED <<mode, draining, q, hold, ghosts, budgets>>

HolderSeenExpire ==
  /\ Quiet /\ nexp < MaxExpire /\ hold.seen # {}
  /\ hold' = [hold EXCEPT !.seen = {}]
  /\ nexp' = nexp + 1
  /\ last' = [act |-> "HolderSeenExpire", dev |-> {}]
  /\ UNCHANGED <<mode, draining, q, msg, rcv, ghosts, nlive, nsleeps, nhw>>

HolderWakes ==
  /\ Quiet /\ nhw < MaxHolderWake /\ \E p \in Peers : ~QEmpty(q[p])
  /\ q' = [p \in Peers |-> Q0]
  /\ lost' = [p \in Peers |-> IF Ghost THEN lost[p] \cup Range(Flat(q[p])) ELSE lost[p]]
  /\ nhw' = nhw + 1
  /\ last' = [act |-> "HolderWakes", dev |-> {}]
  /\ UNCHANGED <<mode, draining, msg, rcv, hold, owed, dlv, redelivered, lastcmd, nlive, nsleeps, nexp>>

Step ==
  \/ \E f \in Universe : Live(f)
  \/ \E p \in Peers : PeerSleeps(p) \/ PeerPolls(p) \/ Deliver(p) \/ ReceiverApply(p)
  \/ HolderSeenExpire
  \/ HolderWakes
Next == Step /\ UNCHANGED devv

Spec == Init /\ [][Next]_vars

(* ---- properties ------------------------------------------------------------*)
TypeOK ==
  /\ \A p \in Peers : /\ mode[p] \in {"awake", "sleeping"} /\ draining[p] \in BOOLEAN
                      /\ q[p].cmd \in Cmds \cup {"none"}
                      /\ \A k \in {"adv", "wd", "info"} : \A i \in 1..Len(q[p][k]) : q[p][k][i].o \in Origins /\ q[p][k][i].n \in Seqs
                      /\ Range(msg[p]) \subseteq Universe /\ lost[p] \subseteq Universe /\ dlv[p] \subseteq Universe
                      /\ \A o \in Origins : rcv[p].tab[o] \in 0..MaxSeq /\ rcv[p].info[o] \in 0..MaxSeq
  /\ owed \subseteq Universe /\ redelivered \in BOOLEAN

\* the queue never exceeds its bound (per kind, as the code counts)
QueueBounded == \A p \in Peers : Len(q[p].adv) <= Bound /\ Len(q[p].wd) <= Bound /\ Len(q[p].info) <= Bound

\* deduplication: no (origin, sequence) twice among announcements / withdrawals, one node info per origin;
\* announcements only in the Routes list, withdrawals only in the Withdraws list
WellFormed ==
  \A p \in Peers :
    /\ \A k \in {"adv", "wd"} : \A i, j \in 1..Len(q[p][k]) : i # j => q[p][k][i] # q[p][k][j]
    /\ \A i, j \in 1..Len(q[p].info) : i # j => q[p].info[i].o # q[p].info[j].o
    /\ \A i \in 1..Len(q[p].adv) : ~IsWd(q[p].adv[i].o, q[p].adv[i].n)
    /\ \A i \in 1..Len(q[p].wd) : IsWd(q[p].wd[i].o, q[p].wd[i].n)

\* nothing is queued for (or withheld from) a peer that is awake, except while its queue is being handed over
NothingQueuedForAwake == \A p \in Peers : (mode[p] = "awake" /\ ~draining[p]) => QEmpty(q[p])

\* every QUEUED_STATE frame fits one frame
FrameFits == \A p \in Peers : Len(msg[p]) <= FrameCap
FrameAlwaysSendableStep == last'.act = "Deliver" => last'.res = "sent"
FrameAlwaysSendable == [][FrameAlwaysSendableStep]_vars

\* a delivered queue is cleared exactly once: nothing is delivered twice unless it was queued again
DeliveredOnce == ~redelivered

\* per origin only the newest node info is kept: an older one never replaces a newer one
InfoNewestKeptStep ==
  \A p \in Peers, o \in Origins :
        (HasOrigin(q[p].info, o) /\ HasOrigin(q'[p].info, o) /\ last'.act = "Live")
          => q'[p].info[IdxOf(q'[p].info, o)].n >= q[p].info[IdxOf(q[p].info, o)].n
InfoNewestKept == [][InfoNewestKeptStep]_vars
\* ... and an item is never overtaken: queued announcements / withdrawals keep their arrival order
FifoKeptStep ==
  \A p \in Peers, k \in {"adv", "wd"} :
        last'.act = "Live" =>
          \/ q'[p][k] = q[p][k]
          \/ q'[p][k] = Append(q[p][k], Key(last'.f))
          \/ (Len(q[p][k]) = Bound /\ q'[p][k] = Append(Tail(q[p][k]), Key(last'.f)))
FifoKept == [][FifoKeptStep]_vars
\* at the bound the OLDEST item makes room: the frame just handled is in the queue afterwards
OverflowKeepsNewestStep ==
  \A p \in Peers : (last'.act = "Live" /\ last'.out[p] \in {"enqueue", "overflow", "supersede"})
        => (IF last'.f.k = "cmd" THEN q'[p].cmd = last'.f.o ELSE Holds(q'[p][last'.f.k], Key(last'.f)))
OverflowKeepsNewest == [][OverflowKeepsNewestStep]_vars
\* eviction only at the bound
EvictionOnlyAtBoundStep ==
  \A p \in Peers : (last'.act = "Live" /\ last'.out[p] = "overflow") => Len(q[p][last'.f.k]) = Bound
EvictionOnlyAtBound == [][EvictionOnlyAtBoundStep]_vars
\* queues are per peer: a delivery to one peer leaves the others' queues alone
PerPeerStep == \A p \in Peers : (last'.act = "Deliver" /\ last'.p # p) => q'[p] = q[p]
PerPeer == [][PerPeerStep]_vars

\* the receiver's table is what the frames it has handled say: per origin the newest statement wins
NewestOf(F) == CHOOSE f \in F : \A g \in F : g.n <= f.n
RoutesSeen(r, o) == {f \in RouteFrames : f.o = o /\ Key(f) \in r.seen}
TableOf(F) == IF F = {} THEN 0 ELSE IF NewestOf(F).k = "adv" THEN NewestOf(F).n ELSE 0
ReceiverExact == \A p \in Peers, o \in Origins : rcv[p].tab[o] = TableOf(RoutesSeen(rcv[p], o))
\* no resurrection: a stored route is never older than a withdrawal the receiver has handled
NoResurrection ==
  \A p \in Peers, o \in Origins :
    rcv[p].tab[o] # 0 => ~\E f \in RoutesSeen(rcv[p], o) : f.k = "wd" /\ f.n > rcv[p].tab[o]
\* a withdrawal never removes a newer announcement
WithdrawRespectsSequence ==
  \A p \in Peers, o \in Origins :
    (rcv[p].tab[o] = 0 /\ RoutesSeen(rcv[p], o) # {}) => NewestOf(RoutesSeen(rcv[p], o)).k = "wd"

\* What the sleeper knows once it is back in sync is what the newest live frames say - unless the bound (or the
\* holder's own sleep, or an unsendable frame) made that very frame fall out.
InSync(p) == mode[p] = "awake" /\ ~draining[p] /\ msg[p] = <<>>
OwedRoutes(o) == {f \in owed : f.k \in {"adv", "wd"} /\ f.o = o}
OwedInfos(o) == {f \in owed : f.k = "info" /\ f.o = o}
SleeperLearnsNewest ==
  \A p \in Peers : InSync(p) =>
    /\ \A o \in Origins :
         /\ (OwedRoutes(o) # {} /\ NewestOf(OwedRoutes(o)) \notin lost[p]) => rcv[p].tab[o] = TableOf(OwedRoutes(o))
         /\ (OwedInfos(o) # {} /\ NewestOf(OwedInfos(o)) \notin lost[p]) => rcv[p].info[o] = NewestOf(OwedInfos(o)).n
    /\ (lastcmd # "none" /\ [k |-> "cmd", o |-> lastcmd, n |-> 0] \notin lost[p]) => lastcmd \in rcv[p].cseen
\* nothing is lost except at the bound / by HolderWakes
NoNeedlessLossStep ==
  \A p \in Peers : lost'[p] # lost[p] =>
        \/ (last'.act = "Live" /\ last'.out[p] = "overflow")
        \/ last'.act = "HolderWakes"
NoNeedlessLoss == [][NoNeedlessLossStep]_vars

(* ---- the full-table design ------------------------------------------------*)
(* With DevAgentNeverQueues + DevSleeperDropsTable (and no seen-cache        *)
(* blocking) the as-built resync is a design of its own: the sleeper forgets *)
(* what it learned via A and A replays everything it knows.  ReceiverExact   *)
(* and WithdrawRespectsSequence speak about a receiver that keeps its table; *)
(* they do not apply between the sleeper's disconnect and its next resync.   *)
KeepsTable == ~D("DevSleeperDropsTable")

(* ---- combined sensitivity run ----------------------------------------------*)
(* DevChoices # {}: one TLC run explores every deviation set of DevChoices.  *)
(* Catch (CONSTRAINT) / CatchStep (ACTION_CONSTRAINT) print which invariant /*)
(* step property a state / transition violates and cut the search there, so  *)
(* the run reports, per deviation set, everything that catches it.           *)
StateInvs ==
  <<[n |-> "TypeOK", v |-> TypeOK], [n |-> "QueueBounded", v |-> QueueBounded], [n |-> "WellFormed", v |-> WellFormed],
    [n |-> "NothingQueuedForAwake", v |-> NothingQueuedForAwake], [n |-> "FrameFits", v |-> FrameFits],
    [n |-> "DeliveredOnce", v |-> DeliveredOnce], [n |-> "ReceiverExact", v |-> KeepsTable => ReceiverExact],
    [n |-> "NoResurrection", v |-> NoResurrection],
    [n |-> "WithdrawRespectsSequence", v |-> KeepsTable => WithdrawRespectsSequence],
    [n |-> "SleeperLearnsNewest", v |-> SleeperLearnsNewest]>>
Catch ==
  LET bad == {i \in 1..Len(StateInvs) : ~StateInvs[i].v} IN
  IF bad = {} THEN TRUE
  ELSE PrintT("CAUGHT " \o ToJson([dev |-> devv, by |-> {StateInvs[i].n : i \in bad}])) /\ FALSE
StepProps ==
  <<[n |-> "FrameAlwaysSendable", v |-> FrameAlwaysSendableStep], [n |-> "InfoNewestKept", v |-> InfoNewestKeptStep],
    [n |-> "FifoKept", v |-> FifoKeptStep], [n |-> "OverflowKeepsNewest", v |-> OverflowKeepsNewestStep],
    [n |-> "EvictionOnlyAtBound", v |-> EvictionOnlyAtBoundStep], [n |-> "PerPeer", v |-> PerPeerStep],
    [n |-> "NoNeedlessLoss", v |-> NoNeedlessLossStep]>>
CatchStep ==
  LET bad == {i \in 1..Len(StepProps) : ~StepProps[i].v} IN
  IF bad = {} THEN TRUE
  ELSE PrintT("CAUGHT " \o ToJson([dev |-> devv, by |-> {StepProps[i].n : i \in bad}])) /\ FALSE
\* how far each deviation set was explored (printed once per initial state by the sensitivity cfg's invariant)

EmitEdge ==
  Emit => PrintT("EDGE " \o ToJson([s |-> [mode |-> mode, draining |-> draining, q |-> q, msg |-> msg, rcv |-> rcv, hold |-> hold],
                                     a |-> last',
                                     t |-> [mode |-> mode', draining |-> draining', q |-> q', msg |-> msg', rcv |-> rcv',
                                            hold |-> hold']]))
=============================================================================
