---------------------------- MODULE KeyAgreement ----------------------------
(***************************************************************************)
(* End-to-end key agreement of one tunnel and the data it carries          *)
(* (C03, C04).  Symbolic model of the cryptography:                        *)
(*   ephemeral private keys are fresh identifiers x, Pub(x) the matching   *)
(*   public key, DH(x, P) the X25519 shared secret (commutative; the       *)
(*   all-zero secret ZSecret when P is a degenerate = zero / low-order /   *)
(*   non-canonical-low-order point, whatever the scalar),                  *)
(*   KDF(secret, rid, ipub, rpub) the HKDF output with                     *)
(*   salt = requestID || initiatorPub || responderPub (injective),         *)
(*   Sealed(K, c) an AEAD ciphertext under K.                              *)
(*                                                                         *)
(* Agents: ingress "I", NT transit agents "T1".."TNT", exit "X"; link h    *)
(* connects Path[h] and Path[h+1].  Every tunnel kind of the code          *)
(* (tcp-ip, tcp-domain, forward, udp, icmp, shell, file-upload,            *)
(* file-download) runs the same action chain, one action per code step:    *)
(*   IngressOpen    fresh ephemeral key, request id rid, OPEN[rid, ipub]   *)
(*                  with a per-hop stream id on the first link             *)
(*   RelayOpen      a transit allocates its own downstream stream id and   *)
(*                  forwards the payload (rid, ipub) unchanged             *)
(*   RespondDerive  exit: fresh key, K = KDF(DH, rid, ipub, rpub)          *)
(*   ExitAck        exit: ACK[rid, rpub]   (ExitOpenErr: dial failed)      *)
(*   RelayBack      transit maps the stream id back, payload unchanged     *)
(*   InitDerive     ingress: K = KDF(DH, own rid, own ipub, ACK's rpub)    *)
(*   SendData / RelayData / RecvData   Sealed(K, c) frames hop by hop      *)
(* Life cycle (Lifecycle = TRUE): IngressOpenTimeout / LateAck (the ingress *)
(* gave up waiting; it must not send data on that tunnel, the late ACK is  *)
(* dropped), IngressClose / ExitClose racing with the exit's return path   *)
(* ExitRead ; ExitSeal (bytes read before the close are still sealed under *)
(* the tunnel key, never under a wiped key).                               *)
(* Dishonest peers (Adversary = TRUE): a puppet ingress sends an OPEN      *)
(* whose key is degenerate, a puppet exit answers with a degenerate key;   *)
(* the honest end must refuse (no key).                                    *)
(*                                                                         *)
(* The kinds differ only in what they do with an ALL-ZERO remote key:      *)
(* shell / file responders test it explicitly, udp / icmp treat it as      *)
(* "peer does not encrypt" (DevPlaintextFallback: reachable only with a    *)
(* dishonest peer, outside C04's statement), everything else relies on     *)
(* ComputeECDH.  See ImplOutcome (transcription of the code).              *)
(***************************************************************************)
EXTENDS Naturals, Sequences, FiniteSets, TLC, Json

CONSTANTS NT,         \* number of transit agents (0, 1 or 2)
          Kinds1,     \* tunnel kinds the first / second tunnel may have
          Kinds2,
          RIDs,       \* request identifiers an ingress may pick
          MaxData,    \* data payloads per endpoint and tunnel
          Classes,    \* degenerate key classes used by dishonest peers in the state machine
          Adversary,  \* TRUE: puppet ingress / puppet exit enabled
          EphPool,    \* {} = every ephemeral key is fresh; otherwise private keys are drawn from this pool
          Lifecycle,  \* TRUE: open timeout / late ACK, close racing with return data (ExitRead, ExitSeal) enabled
          Dev,        \* enabled deviations
          EmitVec     \* TRUE: print the E4 vectors (VEC / VECD records) in the initial state

Tunnels == {"t1", "t2"}
KindsOf(t) == IF t = "t1" THEN Kinds1 ELSE Kinds2
AllKinds == {"tcp-ip", "tcp-domain", "forward", "udp", "icmp", "shell", "shell-tty", "file-upload", "file-download"}
DatagramKinds == {"udp", "icmp"}
ZeroPrecheckKinds == {"shell", "shell-tty", "file-upload", "file-download"}
DevNames == {"DevSwapPubOrder", "DevUsePerHopStreamId", "DevNoDegenerateCheck", "DevPlaintextFallback",
             "DevTransitDerives", "DevSaltOmitsRid", "DevDataBeforeKey", "DevSealAfterKeyWipe",
             "DevPlainAfterKeyCleared"}

ASSUME /\ NT \in 0..2 /\ Kinds1 \subseteq AllKinds /\ Kinds2 \subseteq AllKinds
       /\ Dev \subseteq DevNames /\ Adversary \in BOOLEAN /\ EmitVec \in BOOLEAN /\ Lifecycle \in BOOLEAN

Path == <<"I">> \o [i \in 1..NT |-> "T" \o ToString(i)] \o <<"X">>
Hops == 1..(NT + 1)          \* link h connects Path[h] and Path[h+1]
TransitPos == 2..(NT + 1)    \* positions of the transit agents in Path
LastHop == NT + 1
Transits == {Path[p] : p \in TransitPos}
Agents == {Path[p] : p \in 1..(NT + 2)}

(* ---- symbolic cryptography ---------------------------------------------*)
NoVal == [none |-> "none"]
Id(x) == [id |-> x]
Pub(x) == [pub |-> x]
Deg(c) == [deg |-> c]                   \* a degenerate public key of class c
IsDeg(P) == "deg" \in DOMAIN P
ZSecret == [z |-> "all-zero"]
DH(x, P) == IF IsDeg(P) THEN ZSecret ELSE [dh |-> {x, P.pub}]
KDF(s, r, ip, rp) ==
  IF "DevSaltOmitsRid" \in Dev THEN [s |-> s, rid |-> NoVal, ip |-> ip, rp |-> rp]
                               ELSE [s |-> s, rid |-> r, ip |-> ip, rp |-> rp]
WipedKey == [wiped |-> "all-zero key"]    \* what SessionKey.Zero() leaves behind: a usable, publicly known key
Sealed(K, c) == [k |-> K, c |-> c]
Plain(c) == [plain |-> c]
IsSealedUnder(b, K) == "k" \in DOMAIN b /\ b.k = K

VARIABLES tun,       \* per tunnel: both endpoints' view (see NoTunnel)
          links,     \* [Hops -> set of frames in flight on that link]
          relay,     \* [TransitPos -> set of [up, down, t]]  stream-id mapping of each transit
          usedSid,   \* [Hops -> set of stream ids allocated on the link]
          knows,     \* [Agents -> set of session keys the agent has derived / holds]
          derivs     \* ghost: set of [agent, t, role, key]  every key derivation

vars == <<tun, links, relay, usedSid, knows, derivs>>

NoTunnel == [kind |-> "none", mode |-> "none",
             ist |-> "idle",     \* ingress: idle, wait, open, plain, failed, timedout, closed
             xst |-> "none",     \* exit:    none, derived, open, plain, refused, failed, closed
             rid |-> NoVal,      \* request id chosen by the ingress
             ik |-> NoVal,       \* ingress' ephemeral private key        (Id)
             rk |-> NoVal,       \* exit's ephemeral private key          (Id)
             isid |-> NoVal,     \* stream id on the first link           (Id)
             xsid |-> NoVal,     \* stream id on the last link            (Id)
             xrid |-> NoVal,     \* request id / initiator key as received by the exit
             xipub |-> NoVal,
             ikey |-> NoVal,     \* session key held by the ingress
             xkey |-> NoVal,     \* session key held by the exit
             sentI |-> 0, sentX |-> 0,
             pendX |-> 0,        \* bytes the exit has read from the destination and not sealed yet
             earlyI |-> FALSE]   \* ghost: the ingress emitted application data while it held no key

Frame(typ, dir, sid, t, rid, pub, body) ==
  [typ |-> typ, dir |-> dir, sid |-> sid, t |-> t, rid |-> rid, pub |-> pub, body |-> body]

(* ---- ingress -----------------------------------------------------------*)
\* mode "honest": real exit;  "badX": the exit of this tunnel is a puppet
IngressOpen(t, k, r, s, x, mode) ==
  /\ tun[t].ist = "idle" /\ tun[t].mode = "none"
  /\ t = "t2" => tun["t1"].mode # "none"          \* "t1" is by definition the tunnel opened first
  /\ k \in KindsOf(t)
  /\ s \notin usedSid[1]
  /\ tun' = [tun EXCEPT ![t] = [@ EXCEPT !.kind = k, !.mode = mode, !.ist = "wait", !.rid = Id(r),
                                          !.ik = Id(x), !.isid = Id(s)]]
  /\ links' = [links EXCEPT ![1] = @ \cup {Frame("OPEN", "fwd", s, t, Id(r), Pub(x), NoVal)}]
  /\ usedSid' = [usedSid EXCEPT ![1] = @ \cup {s}]
  /\ UNCHANGED <<relay, knows, derivs>>

\* a dishonest ingress: the OPEN carries a degenerate key of class c; the puppet never derives
PuppetOpen(t, k, r, s, c) ==
  /\ Adversary
  /\ tun[t].ist = "idle" /\ tun[t].mode = "none"
  /\ t = "t2" => tun["t1"].mode # "none"
  /\ k \in KindsOf(t)
  /\ s \notin usedSid[1]
  /\ tun' = [tun EXCEPT ![t] = [@ EXCEPT !.kind = k, !.mode = "badI", !.ist = "wait", !.rid = Id(r), !.isid = Id(s)]]
  /\ links' = [links EXCEPT ![1] = @ \cup {Frame("OPEN", "fwd", s, t, Id(r), Deg(c), NoVal)}]
  /\ usedSid' = [usedSid EXCEPT ![1] = @ \cup {s}]
  /\ UNCHANGED <<relay, knows, derivs>>

(* ---- transit -----------------------------------------------------------*)
RelayOpen(p, f, s) ==
  /\ p \in TransitPos /\ f \in links[p - 1] /\ f.typ = "OPEN"
  /\ s \notin usedSid[p]
  /\ links' = [links EXCEPT ![p - 1] = @ \ {f}, ![p] = @ \cup {[f EXCEPT !.sid = s]}]   \* rid, ipub unchanged
  /\ relay' = [relay EXCEPT ![p] = @ \cup {[up |-> f.sid, down |-> s, t |-> f.t]}]
  /\ usedSid' = [usedSid EXCEPT ![p] = @ \cup {s}]
  /\ UNCHANGED <<tun, knows, derivs>>

\* ACK / ERR travelling back: stream id mapped, payload unchanged
RelayBack(p, f) ==
  /\ p \in TransitPos /\ f \in links[p] /\ f.dir = "bwd" /\ f.typ \in {"ACK", "ERR"}
  /\ \E e \in relay[p] :
       /\ e.down = f.sid
       /\ links' = [links EXCEPT ![p] = @ \ {f}, ![p - 1] = @ \cup {[f EXCEPT !.sid = e.up]}]
       /\ relay' = IF f.typ = "ERR" THEN [relay EXCEPT ![p] = @ \ {e}] ELSE relay
  /\ IF "DevTransitDerives" \in Dev /\ f.typ = "ACK" /\ tun[f.t].xkey # NoVal
       THEN /\ knows' = [knows EXCEPT ![Path[p]] = @ \cup {tun[f.t].xkey}]
            /\ derivs' = derivs \cup {[agent |-> Path[p], t |-> f.t, role |-> "transit", key |-> tun[f.t].xkey]}
       ELSE UNCHANGED <<knows, derivs>>
  /\ UNCHANGED <<tun, usedSid>>

RelayData(p, f) ==
  /\ p \in TransitPos
  /\ \/ /\ f \in links[p - 1] /\ f.typ \in {"DATA", "CLOSE"} /\ f.dir = "fwd"
        /\ \E e \in relay[p] : e.up = f.sid /\ e.t = f.t
              /\ links' = [links EXCEPT ![p - 1] = @ \ {f}, ![p] = @ \cup {[f EXCEPT !.sid = e.down]}]
     \/ /\ f \in links[p] /\ f.typ = "DATA" /\ f.dir = "bwd"
        /\ \E e \in relay[p] : e.down = f.sid /\ e.t = f.t
              /\ links' = [links EXCEPT ![p] = @ \ {f}, ![p - 1] = @ \cup {[f EXCEPT !.sid = e.up]}]
  /\ UNCHANGED <<tun, relay, usedSid, knows, derivs>>

(* ---- exit --------------------------------------------------------------*)
RespKey(f, y) ==
  LET r == IF "DevUsePerHopStreamId" \in Dev THEN Id(f.sid) ELSE f.rid
  IN IF "DevSwapPubOrder" \in Dev THEN KDF(DH(y, f.pub), r, Pub(y), f.pub)
                                  ELSE KDF(DH(y, f.pub), r, f.pub, Pub(y))

\* y: the exit's fresh ephemeral private key
RespondDerive(f, y) ==
  /\ f \in links[LastHop] /\ f.typ = "OPEN"
  /\ tun[f.t].xst = "none" /\ tun[f.t].mode # "badX"
  /\ ~IsDeg(f.pub) \/ "DevNoDegenerateCheck" \in Dev
  /\ LET key == RespKey(f, y) IN
       /\ tun' = [tun EXCEPT ![f.t] = [@ EXCEPT !.xst = "derived", !.rk = Id(y), !.xsid = Id(f.sid),
                                                !.xrid = f.rid, !.xipub = f.pub, !.xkey = key]]
       /\ knows' = [knows EXCEPT !["X"] = @ \cup {key}]
       /\ derivs' = derivs \cup {[agent |-> "X", t |-> f.t, role |-> "resp", key |-> key]}
  /\ links' = [links EXCEPT ![LastHop] = @ \ {f}]
  /\ UNCHANGED <<relay, usedSid>>

\* degenerate remote key: open error, no key
RespondRefuse(f) ==
  /\ f \in links[LastHop] /\ f.typ = "OPEN"
  /\ tun[f.t].xst = "none" /\ tun[f.t].mode # "badX"
  /\ IsDeg(f.pub) /\ "DevNoDegenerateCheck" \notin Dev
  /\ tun' = [tun EXCEPT ![f.t] = [@ EXCEPT !.xst = "refused", !.xsid = Id(f.sid)]]
  /\ links' = [links EXCEPT ![LastHop] = (@ \ {f}) \cup {Frame("ERR", "bwd", f.sid, f.t, f.rid, NoVal, NoVal)}]
  /\ UNCHANGED <<relay, usedSid, knows, derivs>>

\* the exit refuses for a reason unrelated to keys (destination not allowed, limits, feature disabled)
ExitReject(f) ==
  /\ f \in links[LastHop] /\ f.typ = "OPEN"
  /\ tun[f.t].xst = "none" /\ tun[f.t].mode # "badX"
  /\ tun' = [tun EXCEPT ![f.t] = [@ EXCEPT !.xst = "refused", !.xsid = Id(f.sid)]]
  /\ links' = [links EXCEPT ![LastHop] = (@ \ {f}) \cup {Frame("ERR", "bwd", f.sid, f.t, f.rid, NoVal, NoVal)}]
  /\ UNCHANGED <<relay, usedSid, knows, derivs>>

\* DEVIATION: udp / icmp exits read an all-zero key as "no encryption" and open a plaintext association
RespondNoKey(f) ==
  /\ "DevPlaintextFallback" \in Dev
  /\ f \in links[LastHop] /\ f.typ = "OPEN"
  /\ tun[f.t].xst = "none" /\ tun[f.t].mode # "badX"
  /\ tun[f.t].kind \in DatagramKinds /\ f.pub = Deg("zero")
  /\ tun' = [tun EXCEPT ![f.t] = [@ EXCEPT !.xst = "plain", !.xsid = Id(f.sid), !.xrid = f.rid, !.xipub = f.pub]]
  /\ links' = [links EXCEPT ![LastHop] = (@ \ {f}) \cup {Frame("ACK", "bwd", f.sid, f.t, f.rid, Deg("zero"), NoVal)}]
  /\ UNCHANGED <<relay, usedSid, knows, derivs>>

ExitAck(t) ==
  /\ tun[t].xst = "derived"
  /\ tun' = [tun EXCEPT ![t] = [@ EXCEPT !.xst = "open"]]
  /\ links' = [links EXCEPT ![LastHop] = @ \cup {Frame("ACK", "bwd", tun[t].xsid.id, t, tun[t].xrid, Pub(tun[t].rk.id), NoVal)}]
  /\ UNCHANGED <<relay, usedSid, knows, derivs>>

\* the key was derived but the destination could not be reached
ExitOpenErr(t) ==
  /\ tun[t].xst = "derived"
  /\ tun' = [tun EXCEPT ![t] = [@ EXCEPT !.xst = "failed"]]
  /\ links' = [links EXCEPT ![LastHop] = @ \cup {Frame("ERR", "bwd", tun[t].xsid.id, t, tun[t].xrid, NoVal, NoVal)}]
  /\ UNCHANGED <<relay, usedSid, knows, derivs>>

\* a dishonest exit answers with a degenerate key of class c
PuppetAck(f, c) ==
  /\ Adversary
  /\ f \in links[LastHop] /\ f.typ = "OPEN"
  /\ tun[f.t].mode = "badX" /\ tun[f.t].xst = "none"
  /\ tun' = [tun EXCEPT ![f.t] = [@ EXCEPT !.xst = "open", !.xsid = Id(f.sid)]]
  /\ links' = [links EXCEPT ![LastHop] = (@ \ {f}) \cup {Frame("ACK", "bwd", f.sid, f.t, f.rid, Deg(c), NoVal)}]
  /\ UNCHANGED <<relay, usedSid, knows, derivs>>

(* ---- ingress, second half ------------------------------------------------*)
InitKey(t, f) ==
  LET r == IF "DevUsePerHopStreamId" \in Dev THEN tun[t].isid ELSE tun[t].rid
  IN KDF(DH(tun[t].ik.id, f.pub), r, Pub(tun[t].ik.id), f.pub)

IsMyAck(t, f) == f \in links[1] /\ f.dir = "bwd" /\ tun[t].ist = "wait" /\ tun[t].isid = Id(f.sid) /\ f.t = t

InitDerive(t, f) ==
  /\ IsMyAck(t, f) /\ f.typ = "ACK" /\ tun[t].mode # "badI"
  /\ ~IsDeg(f.pub) \/ "DevNoDegenerateCheck" \in Dev
  /\ LET key == InitKey(t, f) IN
       /\ tun' = [tun EXCEPT ![t] = [@ EXCEPT !.ist = "open", !.ikey = key]]
       /\ knows' = [knows EXCEPT !["I"] = @ \cup {key}]
       /\ derivs' = derivs \cup {[agent |-> "I", t |-> t, role |-> "init", key |-> key]}
  /\ links' = [links EXCEPT ![1] = @ \ {f}]
  /\ UNCHANGED <<relay, usedSid>>

InitRefuse(t, f) ==
  /\ IsMyAck(t, f) /\ f.typ = "ACK" /\ tun[t].mode # "badI"
  /\ IsDeg(f.pub) /\ "DevNoDegenerateCheck" \notin Dev
  /\ tun' = [tun EXCEPT ![t] = [@ EXCEPT !.ist = "failed"]]
  /\ links' = [links EXCEPT ![1] = @ \ {f}]
  /\ UNCHANGED <<relay, usedSid, knows, derivs>>

\* DEVIATION: udp / icmp ingress reads an all-zero key in the ACK as "no encryption"
InitNoKey(t, f) ==
  /\ "DevPlaintextFallback" \in Dev
  /\ IsMyAck(t, f) /\ f.typ = "ACK" /\ tun[t].mode # "badI"
  /\ tun[t].kind \in DatagramKinds /\ f.pub = Deg("zero")
  /\ tun' = [tun EXCEPT ![t] = [@ EXCEPT !.ist = "plain"]]
  /\ links' = [links EXCEPT ![1] = @ \ {f}]
  /\ UNCHANGED <<relay, usedSid, knows, derivs>>

\* open error, or the puppet ingress receiving whatever the exit answered
InitFail(t, f) ==
  /\ IsMyAck(t, f) /\ (f.typ = "ERR" \/ tun[t].mode = "badI")
  /\ tun' = [tun EXCEPT ![t] = [@ EXCEPT !.ist = "failed"]]
  /\ links' = [links EXCEPT ![1] = @ \ {f}]
  /\ UNCHANGED <<relay, usedSid, knows, derivs>>

(* ---- open timeout, late ACK, close ----------------------------------------*)
\* the ingress stops waiting for the answer (deadline, cancellation); it holds no key for this tunnel
IngressOpenTimeout(t) ==
  /\ tun[t].ist = "wait" /\ tun[t].mode = "honest"
  /\ tun' = [tun EXCEPT ![t] = [@ EXCEPT !.ist = "timedout"]]
  /\ UNCHANGED <<links, relay, usedSid, knows, derivs>>

\* the ACK of an abandoned open arrives: dropped, no key
LateAck(t, f) ==
  /\ f \in links[1] /\ f.dir = "bwd" /\ f.typ = "ACK" /\ f.t = t
  /\ tun[t].ist = "timedout" /\ tun[t].isid = Id(f.sid)
  /\ IF "DevDataBeforeKey" \in Dev /\ ~IsDeg(f.pub)
       THEN LET key == KDF(DH(tun[t].ik.id, f.pub), tun[t].rid, Pub(tun[t].ik.id), f.pub) IN   \* DEVIATION: the abandoned association is revived
              /\ tun' = [tun EXCEPT ![t] = [@ EXCEPT !.ist = "open", !.ikey = key]]
              /\ knows' = [knows EXCEPT !["I"] = @ \cup {key}]
              /\ derivs' = derivs \cup {[agent |-> "I", t |-> t, role |-> "init", key |-> key]}
       ELSE UNCHANGED <<tun, knows, derivs>>
  /\ links' = [links EXCEPT ![1] = @ \ {f}]
  /\ UNCHANGED <<relay, usedSid>>

\* DEVIATION: application data leaves the ingress on a tunnel whose key exchange has not completed
EarlyData(t, c) ==
  /\ "DevDataBeforeKey" \in Dev
  /\ tun[t].ist \in {"wait", "timedout"} /\ tun[t].mode = "honest" /\ tun[t].sentI < MaxData
  /\ links' = [links EXCEPT ![1] = @ \cup {Frame("DATA", "fwd", tun[t].isid.id, t, NoVal, NoVal, Plain(c))}]
  /\ tun' = [tun EXCEPT ![t] = [@ EXCEPT !.sentI = @ + 1, !.earlyI = TRUE]]
  /\ UNCHANGED <<relay, usedSid, knows, derivs>>

\* the ingress closes / resets the tunnel: CLOSE travels to the exit
IngressClose(t) ==
  /\ tun[t].ist = "open" /\ tun[t].mode = "honest"
  /\ tun' = [tun EXCEPT ![t] = [@ EXCEPT !.ist = "closed"]]
  /\ links' = [links EXCEPT ![1] = @ \cup {Frame("CLOSE", "fwd", tun[t].isid.id, t, NoVal, NoVal, NoVal)}]
  /\ UNCHANGED <<relay, usedSid, knows, derivs>>

\* the exit handles the CLOSE: connection torn down (the session key object may be wiped from here on)
ExitClose(f) ==
  /\ f \in links[LastHop] /\ f.typ = "CLOSE"
  /\ tun' = [tun EXCEPT ![f.t] = [@ EXCEPT !.xst = IF @ = "open" THEN "closed" ELSE @]]
  /\ links' = [links EXCEPT ![LastHop] = @ \ {f}]
  /\ UNCHANGED <<relay, usedSid, knows, derivs>>

\* return path of the exit in two steps, as in readLoop: Read from the destination, then Encrypt + send
ExitRead(t) ==
  /\ tun[t].xst = "open" /\ tun[t].mode # "badX" /\ tun[t].pendX = 0 /\ tun[t].sentX < MaxData
  /\ tun' = [tun EXCEPT ![t] = [@ EXCEPT !.pendX = 1]]
  /\ UNCHANGED <<links, relay, usedSid, knows, derivs>>

\* the exit's idle timer expires the association / session (datagram kinds): same teardown as a CLOSE from the peer
ExitIdleExpire(t) ==
  /\ tun[t].xst = "open" /\ tun[t].kind \in DatagramKinds /\ tun[t].mode # "badX"
  /\ tun' = [tun EXCEPT ![t] = [@ EXCEPT !.xst = "closed"]]
  /\ UNCHANGED <<links, relay, usedSid, knows, derivs>>

\* An association that HAD a key never emits plaintext: after the teardown the bytes already read are either still
\* sealed under the tunnel key or dropped (ExitDrop).  Deviations: sealed under the wiped all-zero key (stream kinds,
\* the key object is zeroed), or - datagram kinds, the key reference is cleared and "no key" means "do not encrypt" -
\* sent in clear.
ExitBody(t, c) ==
  IF tun[t].xst = "closed" /\ "DevPlainAfterKeyCleared" \in Dev /\ tun[t].kind \in DatagramKinds THEN Plain(c)
  ELSE IF tun[t].xst = "closed" /\ "DevSealAfterKeyWipe" \in Dev THEN Sealed(WipedKey, c)
  ELSE Sealed(tun[t].xkey, c)

ExitSeal(t, c) ==
  /\ tun[t].pendX = 1 /\ tun[t].xst \in {"open", "closed"}
  /\ links' = [links EXCEPT ![LastHop] = @ \cup {Frame("DATA", "bwd", tun[t].xsid.id, t, NoVal, NoVal, ExitBody(t, c))}]
  /\ tun' = [tun EXCEPT ![t] = [@ EXCEPT !.pendX = 0, !.sentX = @ + 1]]
  /\ UNCHANGED <<relay, usedSid, knows, derivs>>

\* the bytes read before the teardown are discarded (Encrypt reports "association closed")
ExitDrop(t) ==
  /\ tun[t].pendX = 1 /\ tun[t].xst = "closed"
  /\ tun' = [tun EXCEPT ![t] = [@ EXCEPT !.pendX = 0]]
  /\ UNCHANGED <<links, relay, usedSid, knows, derivs>>

(* ---- data ----------------------------------------------------------------*)
\* c identifies the application payload / its ciphertext
SendData(t, side, c) ==
  /\ side \in {"I", "X"}
  /\ IF side = "I"
       THEN /\ tun[t].ist \in {"open", "plain"} /\ tun[t].mode # "badI" /\ tun[t].sentI < MaxData
            /\ links' = [links EXCEPT ![1] = @ \cup {Frame("DATA", "fwd", tun[t].isid.id, t, NoVal, NoVal,
                               IF tun[t].ist = "open" THEN Sealed(tun[t].ikey, c) ELSE Plain(c))}]
            /\ tun' = [tun EXCEPT ![t] = [@ EXCEPT !.sentI = @ + 1]]
       ELSE /\ tun[t].xst \in {"open", "plain"} /\ tun[t].mode # "badX" /\ tun[t].sentX < MaxData
            /\ links' = [links EXCEPT ![LastHop] = @ \cup {Frame("DATA", "bwd", tun[t].xsid.id, t, NoVal, NoVal,
                               IF tun[t].xst = "open" THEN Sealed(tun[t].xkey, c) ELSE Plain(c))}]
            /\ tun' = [tun EXCEPT ![t] = [@ EXCEPT !.sentX = @ + 1]]
  /\ UNCHANGED <<relay, usedSid, knows, derivs>>

\* the endpoint takes the frame off its link (it accepts the payload iff it is sealed under its own key)
RecvData(side, f) ==
  /\ f.typ = "DATA"
  /\ \/ side = "X" /\ f \in links[LastHop] /\ f.dir = "fwd" /\ links' = [links EXCEPT ![LastHop] = @ \ {f}]
     \/ side = "I" /\ f \in links[1] /\ f.dir = "bwd" /\ links' = [links EXCEPT ![1] = @ \ {f}]
  /\ UNCHANGED <<tun, relay, usedSid, knows, derivs>>

(* ---- specification ---------------------------------------------------------*)
(* E4: remote-key classes.  "zero" = 32 zero bytes; one / lo8a / lo8b / pm1 = the points of order 1, 8, 8, 2;    *)
(* p / pp1 = non-canonical encodings of 0 and 1; hb_* = the same seven with bit 255 set (ignored by X25519);      *)
(* "valid" = an honestly generated key.                                                                           *)
LowOrder == {"zero", "one", "lo8a", "lo8b", "pm1", "p", "pp1"}
AllClasses == LowOrder \cup {"hb_" \o c : c \in LowOrder} \cup {"valid"}
Degenerate(c) == c # "valid"
\* oracle (property statement): a degenerate remote key never yields a key; "refuse" = open error,
\* "nokey" = no key is produced and no key exchange happens (the open is not refused)
OracleOutcomes(c) == IF Degenerate(c) THEN {"refuse", "nokey"} ELSE {"derive"}
\* transcription of crypto.ComputeECDH: zero-key test, scalar multiplication, zero-result test
ImplECDH(c) ==
  IF "DevNoDegenerateCheck" \in Dev THEN "derive"
  ELSE IF c = "zero" THEN "refuse"                       \* remotePublicKey == zeroKey
  ELSE IF Degenerate(c) THEN "refuse"                    \* sharedSecret == zeroKey (low order, any encoding)
  ELSE "derive"
\* transcription of the call sites
ImplOutcome(kind, side, c) ==
  IF c = "zero" /\ kind \in DatagramKinds THEN "nokey"                    \* udp/icmp: hasEncryption == false
  ELSE IF c = "zero" /\ side = "resp" /\ kind \in ZeroPrecheckKinds THEN "refuse"   \* explicit zero-key test
  ELSE ImplECDH(c)
VecDomain == {<<k, s, c>> : k \in AllKinds, s \in {"resp", "init"}, c \in AllClasses}
VecOK == \A v \in VecDomain : ImplOutcome(v[1], v[2], v[3]) \in OracleOutcomes(v[3])
\* E4: distinctness.  Symbolic inputs (ipriv, rpriv, rid); the key of a tunnel is a function of exactly these.
VecKey(i, r, n) == KDF(DH(i, Pub(r)), Id(n), Pub(i), Pub(r))
VecDDomain == {<<i, r, n>> : i \in {"a", "b"}, r \in {"c", "d"}, n \in {1, 2}}
VecDistinctOK == \A u \in VecDDomain, v \in VecDDomain : (u # v) => VecKey(u[1], u[2], u[3]) # VecKey(v[1], v[2], v[3])
VecInit ==
  EmitVec =>
    /\ \A v \in VecDomain : PrintT("VEC " \o ToJson([kind |-> v[1], side |-> v[2], class |-> v[3],
                                                     impl |-> ImplOutcome(v[1], v[2], v[3]),
                                                     oracle |-> OracleOutcomes(v[3])]))
    /\ \A c \in AllClasses : PrintT("VECE " \o ToJson([class |-> c, ecdh |-> ImplECDH(c), degenerate |-> Degenerate(c)]))
    /\ \A u \in VecDDomain : PrintT("VECD " \o ToJson([ipriv |-> u[1], rpriv |-> u[2], rid |-> u[3]]))

Init ==
  /\ tun = [t \in Tunnels |-> NoTunnel]
  /\ links = [h \in Hops |-> {}]
  /\ relay = [p \in TransitPos |-> {}]
  /\ usedSid = [h \in Hops |-> {}]
  /\ knows = [a \in Agents |-> {}]
  /\ derivs = {}
  /\ VecInit

NextSid(h) == Cardinality(usedSid[h]) + 1
IPrivs(t) == IF EphPool = {} THEN {"i_" \o t} ELSE {"i_" \o x : x \in EphPool}
XPrivs(t) == IF EphPool = {} THEN {"x_" \o t} ELSE {"x_" \o x : x \in EphPool}

Next ==
  \/ \E t \in Tunnels : \E k \in KindsOf(t), r \in RIDs, x \in IPrivs(t) :
        \/ IngressOpen(t, k, r, NextSid(1), x, "honest")
        \/ Adversary /\ IngressOpen(t, k, r, NextSid(1), x, "badX")
  \/ \E t \in Tunnels : \E k \in KindsOf(t), r \in RIDs, c \in Classes : PuppetOpen(t, k, r, NextSid(1), c)
  \/ \E p \in TransitPos : \E f \in links[p - 1] : RelayOpen(p, f, NextSid(p)) \/ RelayData(p, f)
  \/ \E p \in TransitPos : \E f \in links[p] : RelayBack(p, f) \/ RelayData(p, f)
  \/ \E f \in links[LastHop] :
        \/ \E y \in XPrivs(f.t) : RespondDerive(f, y)
        \/ RespondRefuse(f) \/ RespondNoKey(f) \/ ExitReject(f)
        \/ \E c \in Classes : PuppetAck(f, c)
        \/ RecvData("X", f)
  \/ \E t \in Tunnels : ExitAck(t) \/ ExitOpenErr(t)
  \/ \E t \in Tunnels : \E f \in links[1] :
        InitDerive(t, f) \/ InitRefuse(t, f) \/ InitNoKey(t, f) \/ InitFail(t, f)
  \/ \E f \in links[1] : RecvData("I", f)
  \/ \E t \in Tunnels : \/ SendData(t, "I", <<t, "I", tun[t].sentI>>)
                        \/ ~Lifecycle /\ SendData(t, "X", <<t, "X", tun[t].sentX>>)
                        \/ EarlyData(t, <<t, "I", tun[t].sentI>>)
  \/ Lifecycle /\ \E t \in Tunnels :
        \/ IngressOpenTimeout(t) \/ IngressClose(t)
        \/ ExitRead(t) \/ ExitSeal(t, <<t, "X", tun[t].sentX>>) \/ ExitDrop(t) \/ ExitIdleExpire(t)
        \/ \E f \in links[1] : LateAck(t, f)
  \/ Lifecycle /\ \E f \in links[LastHop] : ExitClose(f)

Spec == Init /\ [][Next]_vars

(* ---- properties --------------------------------------------------------------*)
Honest(t) == tun[t].mode = "honest"
Established(t) == tun[t].ist = "open"

\* C03: when the ingress considers the tunnel open, the exit holds the same key
KeysAgree == \A t \in Tunnels : (Honest(t) /\ Established(t)) => (tun[t].xkey # NoVal /\ tun[t].ikey = tun[t].xkey)

\* C03: tunnels that differ in request id or in either ephemeral key have different keys (at both ends)
Inputs(t) == <<tun[t].rid, tun[t].ik, tun[t].rk>>
DistinctInputsDistinctKeys ==
  \A t1 \in Tunnels, t2 \in Tunnels :
     (t1 # t2 /\ Honest(t1) /\ Honest(t2) /\ Inputs(t1) # Inputs(t2)) =>
        /\ (tun[t1].ikey # NoVal /\ tun[t2].ikey # NoVal) => tun[t1].ikey # tun[t2].ikey
        /\ (tun[t1].xkey # NoVal /\ tun[t2].xkey # NoVal) => tun[t1].xkey # tun[t2].xkey

\* C03: a degenerate remote key never produces a key, and the honest end does not treat the tunnel as keyed
DegenerateRefused ==
  /\ \A a \in Agents : \A k \in knows[a] : k.s # ZSecret /\ ~IsDeg(k.ip) /\ ~IsDeg(k.rp)
  /\ \A t \in Tunnels : /\ tun[t].mode = "badI" => tun[t].xst \notin {"derived", "open"}
                        /\ tun[t].mode = "badX" => tun[t].ist # "open"

\* C04: every application payload on a link is sealed under the key of its tunnel
TunnelKeys(t) == {tun[t].ikey, tun[t].xkey} \ {NoVal}
TransitSeesOnlyCiphertext ==
  \A h \in Hops : \A f \in links[h] :
     f.typ = "DATA" => \E K \in TunnelKeys(f.t) : IsSealedUnder(f.body, K)

\* C04: an ingress never emits application data for a tunnel before it holds the tunnel key
NoDataBeforeKey == \A t \in Tunnels : ~tun[t].earlyI

\* C04: only the two endpoints ever derive / hold a tunnel key, each once
TransitNeverHoldsKey ==
  /\ \A a \in Transits : knows[a] = {}
  /\ \A d \in derivs : d.agent \in {"I", "X"} /\ d.role = (IF d.agent = "I" THEN "init" ELSE "resp")
  /\ \A t \in Tunnels : Cardinality({d \in derivs : d.t = t}) <= 2

TypeOK ==
  /\ \A t \in Tunnels : tun[t].ist \in {"idle", "wait", "open", "plain", "failed", "timedout", "closed"}
                        /\ tun[t].xst \in {"none", "derived", "open", "plain", "refused", "failed", "closed"}
  /\ \A h \in Hops : \A f \in links[h] : f.typ \in {"OPEN", "ACK", "ERR", "DATA", "CLOSE"} /\ f.dir \in {"fwd", "bwd"}

\* relays never alter the key-exchange payload: an OPEN / ACK in flight carries the endpoint's own values
PayloadIntact ==
  \A h \in Hops : \A f \in links[h] :
     /\ (f.typ = "OPEN" /\ tun[f.t].mode # "badI") => (f.rid = tun[f.t].rid /\ f.pub = Pub(tun[f.t].ik.id))
     /\ (f.typ = "ACK" /\ tun[f.t].mode = "honest" /\ tun[f.t].xst = "open") =>
             (f.rid = tun[f.t].rid /\ f.pub = Pub(tun[f.t].rk.id))
=============================================================================
