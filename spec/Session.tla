------------------------------ MODULE Session ------------------------------
(***************************************************************************)
(* End-to-end session of one tunnel (internal/crypto SessionKey).          *)
(* Two endpoints I (initiator/ingress) and R (responder/exit) share one    *)
(* key.  Each endpoint seals with nonce = <direction prefix, send counter> *)
(* and accepts only authentic frames of the opposite direction whose       *)
(* counter is not below its receive window.                                *)
(*                                                                         *)
(* The channel is fully adversarial: every honest ciphertext ever sealed   *)
(* stays in `wire` and can be delivered to either endpoint any number of   *)
(* times (drop, reorder, duplicate, reflect); the adversary can also       *)
(* deliver frames that do not authenticate, with any direction prefix and  *)
(* any counter (forged / bit-flipped / nonce rewritten / truncated).       *)
(*                                                                         *)
(* Counter domain 0..MaxC; MaxC stands for 2^64-1.  Honest senders only    *)
(* use counters < MaxMsgs <= MaxC (a sender exhausting its own 64-bit      *)
(* counter is outside the property statement).                             *)
(*                                                                         *)
(* One action = one critical section of the code: Encrypt (nonce taken +   *)
(* counter incremented under the mutex) and Decrypt.                       *)
(* Deviation actions (enabled by the constant Dev) reproduce behaviours    *)
(* the ideal design excludes; they are used for the sensitivity check of   *)
(* the invariants and to classify mismatches found by replay.              *)
(***************************************************************************)
EXTENDS Naturals, Sequences, FiniteSets, TLC, Json

CONSTANTS MaxC,      \* largest counter value (stands for 2^64-1)
          MaxMsgs,   \* honest encrypts per endpoint
          Dev,       \* enabled deviations
          Emit       \* TRUE: print every transition as JSON (edge emission for replay)

End == {"I", "R"}
Other(e) == IF e = "I" THEN "R" ELSE "I"
DevNames == {"DevAcceptReflected", "DevAdvanceWindowBeforeAuth"}
ForgeKinds == {"garbage", "flip", "renonce", "short"}

ASSUME MaxMsgs <= MaxC /\ Dev \subseteq DevNames

VARIABLES send,      \* [End -> 0..MaxC]      next send counter
          recv,      \* [End -> 0..MaxC]      lowest acceptable receive counter
          wire,      \* set of [dir, ctr]      honest ciphertexts sealed so far (dir = sealing endpoint)
          nsealed,   \* [End -> Nat]           ghost: number of Encrypt calls
          accepted,  \* [End -> Seq([dir,ctr])] ghost: payloads handed to the application, in order
          last       \* observation of the last step (hidden by VIEW)

vars == <<send, recv, wire, nsealed, accepted, last>>
view == <<send, recv, wire, nsealed, accepted>>
viewCore == <<send, recv, wire, nsealed>>   \* for the deviation relation (accepted grows without bound there)

Init ==
  /\ send = [e \in End |-> 0]
  /\ recv = [e \in End |-> 0]
  /\ wire = {}
  /\ nsealed = [e \in End |-> 0]
  /\ accepted = [e \in End |-> <<>>]
  /\ last = [act |-> "Init"]

(* Encrypt: one atomic step (the code holds the mutex while it reads and   *)
(* increments the counter); concurrent senders are interleavings.          *)
Encrypt(e) ==
  /\ send[e] < MaxMsgs
  /\ wire' = wire \cup {[dir |-> e, ctr |-> send[e]]}
  /\ send' = [send EXCEPT ![e] = @ + 1]
  /\ nsealed' = [nsealed EXCEPT ![e] = @ + 1]
  /\ UNCHANGED <<recv, accepted>>
  /\ last' = [act |-> "Encrypt", e |-> e, dir |-> e, ctr |-> send[e]]

Accept(e, c) ==
  /\ recv' = [recv EXCEPT ![e] = c.ctr + 1]
  /\ accepted' = [accepted EXCEPT ![e] = Append(@, c)]

(* Delivery of an honest ciphertext (possibly duplicated, reordered or     *)
(* reflected to its own sender).                                           *)
Deliver(e, c) ==
  /\ c \in wire
  /\ IF c.dir = Other(e) /\ c.ctr >= recv[e]
       THEN Accept(e, c) /\ last' = [act |-> "Deliver", e |-> e, dir |-> c.dir, ctr |-> c.ctr, res |-> "accept"]
       ELSE UNCHANGED <<recv, accepted>>
            /\ last' = [act |-> "Deliver", e |-> e, dir |-> c.dir, ctr |-> c.ctr, res |-> "reject"]
  /\ UNCHANGED <<send, wire, nsealed>>

\* "flip" needs the honest ciphertext with that nonce, "renonce" an honest ciphertext with another nonce
HasSource(d, k, kind) ==
  /\ kind = "flip" => [dir |-> d, ctr |-> k] \in wire
  /\ kind = "renonce" => \E c \in wire : c # [dir |-> d, ctr |-> k]

(* A frame that does not authenticate, with direction prefix d and counter *)
(* k: garbage bytes, a bit flip in an honest ciphertext's body, an honest  *)
(* body under a rewritten nonce, or a truncated frame.  Always rejected,   *)
(* nothing changes.                                                        *)
Forge(e, d, k, kind) ==
  /\ HasSource(d, k, kind)
  /\ UNCHANGED <<send, recv, wire, nsealed, accepted>>
  /\ last' = [act |-> "Forge", e |-> e, dir |-> d, ctr |-> k, kind |-> kind, res |-> "reject"]

(* ---- deviations --------------------------------------------------------*)
DevAcceptReflected(e, c) ==
  /\ "DevAcceptReflected" \in Dev
  /\ c \in wire /\ c.dir = e /\ c.ctr >= recv[e]
  /\ Accept(e, c)
  /\ UNCHANGED <<send, wire, nsealed>>
  /\ last' = [act |-> "Deliver", e |-> e, dir |-> c.dir, ctr |-> c.ctr, res |-> "accept", dev |-> "DevAcceptReflected"]

(* the window moves before authentication; counter MaxC wraps it to 0      *)
DevAdvanceWindowBeforeAuth(e, d, k, kind) ==
  /\ "DevAdvanceWindowBeforeAuth" \in Dev
  /\ kind # "short"
  /\ HasSource(d, k, kind)
  /\ k >= recv[e]
  /\ recv' = [recv EXCEPT ![e] = (k + 1) % (MaxC + 1)]
  /\ UNCHANGED <<send, wire, nsealed, accepted>>
  /\ last' = [act |-> "Forge", e |-> e, dir |-> d, ctr |-> k, kind |-> kind, res |-> "reject",
              dev |-> "DevAdvanceWindowBeforeAuth"]

Next ==
  \/ \E e \in End : Encrypt(e)
  \/ \E e \in End, c \in wire : Deliver(e, c) \/ DevAcceptReflected(e, c)
  \/ \E e \in End, d \in End, k \in 0..MaxC, kind \in ForgeKinds :
        Forge(e, d, k, kind) \/ DevAdvanceWindowBeforeAuth(e, d, k, kind)

Spec == Init /\ [][Next]_vars

(* ---- properties --------------------------------------------------------*)
TypeOK ==
  /\ send \in [End -> 0..MaxC] /\ recv \in [End -> 0..MaxC]
  /\ wire \subseteq [dir : End, ctr : 0..MaxC]

\* C01: only payloads sealed by the other end are accepted ...
Authentic == \A e \in End : \A i \in 1..Len(accepted[e]) :
                accepted[e][i] \in wire /\ accepted[e][i].dir = Other(e)
\* ... each at most once and in increasing send order
IncreasingOnce == \A e \in End : \A i, j \in 1..Len(accepted[e]) :
                     i < j => accepted[e][i].ctr < accepted[e][j].ctr
\* ... and rejected input never changes what the endpoint accepts afterwards
RejectedChangesNothing ==
  [][(last'.act \in {"Deliver", "Forge"} /\ last'.res = "reject") => UNCHANGED <<recv, accepted, send>>]_vars
\* a genuine, in-order, never-delivered frame of the other end is always acceptable:
\* nothing the adversary does can make an endpoint refuse honest traffic (window never
\* overtakes the sender's counter)
WindowBehindSender == \A e \in End : recv[e] <= send[Other(e)]

\* C02: no (direction, counter) pair is sealed twice; the direction prefix separates the two ends
NonceUnique == Cardinality(wire) = nsealed["I"] + nsealed["R"]
CountersConsecutive == \A e \in End : {c.ctr : c \in {w \in wire : w.dir = e}} = 0..(send[e] - 1)

EmitEdge ==
  Emit => PrintT("EDGE " \o ToJson([s |-> [send |-> send, recv |-> recv],
                                     a |-> last',
                                     t |-> [send |-> send', recv |-> recv']]))
=============================================================================
