--------------------------- MODULE TraceRouteTable ---------------------------
(* Trace validation: histories recorded from the real routing.Manager (ndjson, *)
(* many traces concatenated, separated by Reset events) must be behaviours of *)
(* RouteTable.  Every mutating event carries its arguments, the call result    *)
(* and the projection of the touched table(s) after the call; lookups are      *)
(* events whose answer must lie in the acceptable set of the statement's       *)
(* oracle evaluated on the spec's current table.                               *)
EXTENDS RouteTable, IOUtils

VARIABLE l
Trace == ndJsonDeserialize(IOEnv.TRACE_FILE)
ev == Trace[l]
None == {}

ToSet(s) == {s[i] : i \in 1..Len(s)}
TraceInit == Init /\ l = 1 /\ TLCSet(1, 1)
Consume(name) == l <= Len(Trace) /\ ev.ev = name /\ l' = l + 1

St(tb) == TN(tb) = ToSet(ev.st)
Res == last'.res = ev.res

TraceAdvert     == Consume("Advert") /\ Advert(ev.tbl, ev.key, ev.origin, ev.nh, ev.m, ev.seq, ev.path, ev.cv)
                   /\ Res /\ St(ev.tbl)
TraceWithdraw   == Consume("Withdraw") /\ Withdraw(ev.tbl, ev.key, ev.origin) /\ Res /\ St(ev.tbl)
TraceDisconnect == Consume("Disconnect") /\ Disconnect(ev.tbl, ev.p) /\ Res /\ St(ev.tbl)
TraceAgeAll     == Consume("AgeAll") /\ (AgeAll \/ (UNCHANGED <<tables, locals>> /\ last' = [act |-> "AgeAll", res |-> TRUE]))
                   /\ cidr' = ToSet(ev.cidr) /\ dom' = ToSet(ev.dom) /\ fwd' = ToSet(ev.fwd) /\ agt' = ToSet(ev.agt)
TraceCleanup    == Consume("Cleanup") /\ Cleanup(ev.tbl) /\ Res /\ St(ev.tbl)

LocC == lseq' = ev.lseq /\ lcidr' = ToSet(ev.lcidr) /\ ldyn' = ToSet(ev.ldyn) /\ St("cidr") /\ Res
TraceAddLocalCidr    == Consume("AddLocalCidr") /\ AddLocalCidr(ev.key, ev.m) /\ LocC
TraceRemoveLocalCidr == Consume("RemoveLocalCidr") /\ RemoveLocalCidr(ev.key) /\ LocC
TraceAddDynamic      == Consume("AddDynamic") /\ AddDynamic(ev.key, ev.m) /\ LocC
TraceRemoveDynamic   == Consume("RemoveDynamic") /\ RemoveDynamic(ev.key) /\ LocC
LocD == lseq' = ev.lseq /\ ldom' = ToSet(ev.ldom) /\ St("dom") /\ Res
TraceAddLocalDom     == Consume("AddLocalDom") /\ AddLocalDom(ev.key, ev.cv, ev.m) /\ LocD
TraceRemoveLocalDom  == Consume("RemoveLocalDom") /\ RemoveLocalDom(ev.key, ev.cv) /\ LocD
LocF == lseq' = ev.lseq /\ lfwd' = ToSet(ev.lfwd) /\ St("fwd") /\ Res
TraceAddLocalFwd     == Consume("AddLocalFwd") /\ AddLocalFwd(ev.key, ev.m) /\ LocF
TraceRemoveLocalFwd  == Consume("RemoveLocalFwd") /\ RemoveLocalFwd(ev.key) /\ LocF

TraceLookup == Consume("Lookup") /\ Lookup(ev.tbl, ev.q, ev.cv, ev.hit, ev.res)

TraceReset == /\ Consume("Reset")
              /\ cidr' = {} /\ dom' = {} /\ fwd' = {} /\ agt' = {}
              /\ lseq' = 0 /\ lcidr' = {} /\ ldyn' = {} /\ ldom' = {} /\ lfwd' = {}
              /\ last' = [act |-> "Init"]

TraceNext == \/ TraceAdvert \/ TraceWithdraw \/ TraceDisconnect \/ TraceAgeAll \/ TraceCleanup
             \/ TraceAddLocalCidr \/ TraceRemoveLocalCidr \/ TraceAddDynamic \/ TraceRemoveDynamic
             \/ TraceAddLocalDom \/ TraceRemoveLocalDom \/ TraceAddLocalFwd \/ TraceRemoveLocalFwd
             \/ TraceLookup \/ TraceReset
TraceSpec == TraceInit /\ [][TraceNext]_<<vars, l>>

HighWater == TLCSet(1, IF l > TLCGet(1) THEN l ELSE TLCGet(1))
TraceAccepted == /\ PrintT("HW " \o ToString(TLCGet(1)))
                 /\ PrintT("LEN " \o ToString(Len(Trace)))
                 /\ TLCGet(1) = Len(Trace) + 1
=============================================================================
