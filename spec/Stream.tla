------------------------------- MODULE Stream -------------------------------
(***************************************************************************)
(* Half-close / close state machine of internal/stream (Stream, Manager).  *)
(*                                                                         *)
(* Two streams "a" and "b" live in one stream.Manager:                     *)
(*   "a" is opened locally (Manager.OpenStream): it starts in Opening, is  *)
(*       not yet in the manager's table and becomes Open + registered by   *)
(*       OpenAck (Manager.HandleStreamOpenAck);                            *)
(*   "b" was accepted (Manager.AcceptStream): Open + registered.           *)
(* The open of "a" is PENDING in the manager's pending-request table,      *)
(* keyed by its request id, until OpenAck, OpenErr, the open timeout or a  *)
(* cancellation removes it (`pend`).  Frames, closes and resets can also   *)
(* arrive for a stream id that is not established at all: target "x" is    *)
(* such an id, and it is NUMERICALLY EQUAL TO THE REQUEST ID of a's        *)
(* pending open (request ids and stream ids are both small integers).      *)
(*                                                                         *)
(* Threads (each a real goroutine in the replay harness):                  *)
(*   frame handler  Manager.HandleStreamData(id, flags, data) is TWO steps *)
(*                  separated by the scheduling point `stream.data.mid`:   *)
(*                  FrameBegin = table lookup + data step (Stream.PushData)*)
(*                  FrameEnd   = FIN step (Stream.HandleRemoteFinWrite)    *)
(*                  Any frame (with/without data, with/without FIN) may    *)
(*                  arrive for either stream, also after a FIN, after a    *)
(*                  close and for an unknown stream.                       *)
(*   reader(s)      Stream.Read: `Read` returns at once when the buffer    *)
(*                  has data or the stream is finished/closed, otherwise   *)
(*                  the reader BLOCKS in the select.  A blocked reader is  *)
(*                  woken by the event that happens first: a pushed chunk  *)
(*                  is handed to it directly, a FIN / close gives EOF      *)
(*                  (the buffer is necessarily empty then).  `ReadReturn`  *)
(*                  is the woken reader returning to its caller.           *)
(*   writer(s)      Write (= the CanWrite guard every writer uses, see     *)
(*                  agent.meshConn.Write) and CloseWrite                   *)
(*   Close(s)       Manager.HandleStreamClose / RemoveStream               *)
(*   Reset(s)       Manager.HandleStreamReset                              *)
(*                                                                         *)
(* The module describes the design that satisfies C18.  Deviations:        *)
(*   DevFinBeforeData      the FIN step is performed BEFORE the data step  *)
(*                         of the same frame (FrameBegin = lookup + FIN,   *)
(*                         FrameEnd = push): a blocked reader sees EOF and *)
(*                         the data of the FIN-carrying frame is lost      *)
(*   DevCloseTearsAll      a close/reset tears down every stream           *)
(*   DevWriteAfterHalfClose the write guard ignores the local half-close   *)
(*   DevHalfCloseReopens   CloseWrite after a remote FIN moves to          *)
(*                         HalfClosedLocal (undocumented edge)             *)
(*   DevResetCancelsPending a reset for a stream id that is not            *)
(*                         established is looked up in the pending table   *)
(*                         (keyed by REQUEST id): it fails another         *)
(*                         stream's pending open                           *)
(* A deviation REPLACES the ideal behaviour at its site, so the relation   *)
(* with Dev = {d} describes exactly a code base that has defect d.         *)
(***************************************************************************)
EXTENDS Naturals, Sequences, FiniteSets, TLC, Json

CONSTANTS MaxFrames,   \* frames handled (all streams together)
          MaxReads,    \* Read calls per stream
          Dev,         \* enabled deviations
          Emit         \* TRUE: print every transition as JSON

Streams == {"a", "b"}
Other(s) == IF s = "a" THEN "b" ELSE "a"
Targets == Streams \cup {"x"}   \* "x": an id that is not established, numerically equal to the request id of a's open
DevNames == {"DevFinBeforeData", "DevCloseTearsAll", "DevWriteAfterHalfClose", "DevHalfCloseReopens",
             "DevResetCancelsPending"}
States == {"Opening", "Open", "HalfClosedLocal", "HalfClosedRemote", "Closed"}
ASSUME Dev \subseteq DevNames

\* documented transitions (Architecture.md 7.1) + teardown from any state
DocEdges == {<<"Opening", "Open">>, <<"Open", "HalfClosedLocal">>, <<"Open", "HalfClosedRemote">>,
             <<"HalfClosedLocal", "Closed">>, <<"HalfClosedRemote", "Closed">>}
            \cup {<<x, "Closed">> : x \in States}

VARIABLES st,        \* [Streams -> States]
          reg,       \* [Streams -> BOOLEAN]   in the manager's table
          pend,      \* BOOLEAN: the open of "a" is in the pending-request table
          buf,       \* [Streams -> Seq(Nat)]  read buffer (chunk numbers)
          lfin,      \* [Streams -> BOOLEAN]   localFinWrite
          rfin,      \* [Streams -> BOOLEAN]   remoteFinWrite (remoteFinCh closed)
          closed,    \* [Streams -> BOOLEAN]   `closed` channel closed
          rd,        \* [Streams -> [pc : {"idle","blocked","ready"}, chunk : Nat, eof, torn : BOOLEAN]]
          nreads,    \* [Streams -> 0..MaxReads]
          fh,        \* frame handler: [pc : {"idle","mid"}, s, k : chunk number (0 = no data), fin]
          nframes,   \* frames started so far
          nsent,     \* [Streams -> Nat]  chunks that reached a registered stream (numbers the chunks)
          \* ---- ghosts (property statement) ----
          arrived,   \* [Streams -> Seq(Nat)]  chunks that arrived before or together with the first FIN frame
          finSeen,   \* [Streams -> BOOLEAN]   a FIN-flagged frame has arrived
          delivered, \* [Streams -> Seq(Nat)]  chunks returned to the reader, in order
          lost,      \* [Streams -> BOOLEAN]   an end-of-stream was returned on a live (not torn down) stream
                     \*                        although a chunk that arrived before/with the FIN was not delivered
          last       \* observation of the last step (hidden by VIEW)

core == <<st, reg, pend, buf, lfin, rfin, closed, rd, nreads, fh, nframes, nsent>>
ghost == <<arrived, finSeen, delivered, lost>>
vars == <<core, ghost, last>>
view == <<core, ghost>>

Idle == [pc |-> "idle", chunk |-> 0, eof |-> FALSE, torn |-> FALSE]
Blocked == [pc |-> "blocked", chunk |-> 0, eof |-> FALSE, torn |-> FALSE]
ReadyData(k) == [pc |-> "ready", chunk |-> k, eof |-> FALSE, torn |-> FALSE]
ReadyEOF(t) == [pc |-> "ready", chunk |-> 0, eof |-> TRUE, torn |-> t]
FhIdle == [pc |-> "idle", s |-> "-", k |-> 0, fin |-> FALSE]

Init ==
  /\ st = [s \in Streams |-> IF s = "a" THEN "Opening" ELSE "Open"]
  /\ reg = [s \in Streams |-> s = "b"] /\ pend = TRUE
  /\ buf = [s \in Streams |-> <<>>]
  /\ lfin = [s \in Streams |-> FALSE] /\ rfin = [s \in Streams |-> FALSE] /\ closed = [s \in Streams |-> FALSE]
  /\ rd = [s \in Streams |-> Idle] /\ nreads = [s \in Streams |-> 0]
  /\ fh = FhIdle /\ nframes = 0 /\ nsent = [s \in Streams |-> 0]
  /\ arrived = [s \in Streams |-> <<>>] /\ finSeen = [s \in Streams |-> FALSE]
  /\ delivered = [s \in Streams |-> <<>>] /\ lost = [s \in Streams |-> FALSE]
  /\ last = [act |-> "Init"]

IsPrefix(p, q) == Len(p) <= Len(q) /\ \A i \in 1..Len(p) : p[i] = q[i]

(* ---- effects of the two steps of a data frame (functional style) ------ *)
\* Stream.PushData(k): fails on a closed stream; a blocked reader receives the chunk directly
PushOk(s) == ~closed[s]
PushBuf(s, k) == IF closed[s] \/ rd[s].pc = "blocked" THEN buf ELSE [buf EXCEPT ![s] = Append(@, k)]
PushRd(s, k) == IF ~closed[s] /\ rd[s].pc = "blocked" THEN [rd EXCEPT ![s] = ReadyData(k)] ELSE rd
\* Stream.HandleRemoteFinWrite: idempotent; wakes a blocked reader with EOF
FinRfin(s) == [rfin EXCEPT ![s] = TRUE]
FinSt(s) == IF rfin[s] THEN st
            ELSE [st EXCEPT ![s] = CASE @ = "Open" -> "HalfClosedRemote"
                                     [] @ = "HalfClosedLocal" -> "Closed"
                                     [] OTHER -> @]
FinRd(s) == IF ~rfin[s] /\ rd[s].pc = "blocked" THEN [rd EXCEPT ![s] = ReadyEOF(closed[s])] ELSE rd

FinFirst == "DevFinBeforeData" \in Dev

(* Manager.HandleStreamOpenAck: the pending open completes; without a pending request the ack is rejected *)
OpenAck(s) ==
  /\ s = "a" /\ st[s] = "Opening" /\ ~reg[s]
  /\ IF pend
       THEN /\ st' = [st EXCEPT ![s] = "Open"] /\ reg' = [reg EXCEPT ![s] = TRUE] /\ pend' = FALSE
            /\ last' = [act |-> "OpenAck", s |-> s, res |-> "ok"]
       ELSE /\ UNCHANGED <<st, reg, pend>>
            /\ last' = [act |-> "OpenAck", s |-> s, res |-> "nopending"]
  /\ UNCHANGED <<buf, lfin, rfin, closed, rd, nreads, fh, nframes, nsent, ghost>>

(* the pending open fails: HandleStreamOpenErr ("err"), the open timeout ("timeout"), CancelPendingRequest ("cancel"); *)
(* the dialer gets that error, the stream is never established                                                       *)
OpenFail(kind) ==
  /\ st["a"] = "Opening"
  /\ pend' = FALSE
  /\ UNCHANGED <<st, reg, buf, lfin, rfin, closed, rd, nreads, fh, nframes, nsent, ghost>>
  /\ last' = [act |-> "OpenFail", s |-> "a", kind |-> kind, res |-> IF pend THEN kind ELSE "nopending"]

(* Manager.HandleStreamData up to the scheduling point *)
Known(s) == s \in Streams /\ reg[s]
FrameBegin(s, hd, fin) ==
  /\ fh.pc = "idle" /\ nframes < MaxFrames
  /\ UNCHANGED pend
  /\ IF ~Known(s)
       THEN /\ UNCHANGED <<st, reg, buf, lfin, rfin, closed, rd, nreads, fh, nframes, nsent, ghost>>
            /\ last' = [act |-> "FrameBegin", s |-> s, hd |-> hd, fin |-> fin, res |-> "unknown"]
       ELSE LET k == IF hd THEN nsent[s] + 1 ELSE 0 IN
            /\ nframes' = nframes + 1
            /\ nsent' = [nsent EXCEPT ![s] = IF hd THEN @ + 1 ELSE @]
            /\ arrived' = IF hd /\ ~finSeen[s] THEN [arrived EXCEPT ![s] = Append(@, k)] ELSE arrived
            /\ finSeen' = [finSeen EXCEPT ![s] = @ \/ fin]
            /\ IF FinFirst
                 THEN /\ rfin' = IF fin THEN FinRfin(s) ELSE rfin
                      /\ st' = IF fin THEN FinSt(s) ELSE st
                      /\ rd' = IF fin THEN FinRd(s) ELSE rd
                      /\ UNCHANGED buf
                 ELSE /\ buf' = IF hd THEN PushBuf(s, k) ELSE buf
                      /\ rd' = IF hd THEN PushRd(s, k) ELSE rd
                      /\ UNCHANGED <<rfin, st>>
            /\ fh' = [pc |-> "mid", s |-> s, k |-> k, fin |-> fin]
            /\ UNCHANGED <<reg, lfin, closed, nreads, delivered, lost>>
            /\ last' = [act |-> "FrameBegin", s |-> s, hd |-> hd, fin |-> fin, res |-> "mid"]

(* ... and from the scheduling point to its return *)
FrameEnd ==
  /\ fh.pc = "mid"
  /\ LET s == fh.s IN
     IF FinFirst
       THEN /\ buf' = IF fh.k > 0 THEN PushBuf(s, fh.k) ELSE buf
            /\ rd' = IF fh.k > 0 THEN PushRd(s, fh.k) ELSE rd
            /\ UNCHANGED <<rfin, st>>
            /\ last' = [act |-> "FrameEnd", s |-> s, res |-> IF fh.k > 0 /\ ~PushOk(s) THEN "err" ELSE "ok"]
       ELSE /\ rfin' = IF fh.fin THEN FinRfin(s) ELSE rfin
            /\ st' = IF fh.fin THEN FinSt(s) ELSE st
            /\ rd' = IF fh.fin THEN FinRd(s) ELSE rd
            /\ UNCHANGED buf
            /\ last' = [act |-> "FrameEnd", s |-> s, res |-> "ok"]
  /\ fh' = FhIdle
  /\ UNCHANGED <<reg, pend, lfin, closed, nreads, nframes, nsent, ghost>>

\* bookkeeping of a Read result handed to the caller
GotData(s, k) == /\ delivered' = [delivered EXCEPT ![s] = Append(@, k)] /\ UNCHANGED lost
GotEOF(s, torn) == /\ lost' = [lost EXCEPT ![s] = @ \/ (~torn /\ ~IsPrefix(arrived[s], delivered[s]))]
                   /\ UNCHANGED delivered

(* Stream.Read: immediate result or block *)
Read(s) ==
  /\ rd[s].pc = "idle" /\ nreads[s] < MaxReads /\ st[s] # "Opening"
  /\ nreads' = [nreads EXCEPT ![s] = @ + 1]
  /\ IF buf[s] # <<>>
       THEN /\ buf' = [buf EXCEPT ![s] = Tail(@)] /\ GotData(s, Head(buf[s])) /\ UNCHANGED rd
            /\ last' = [act |-> "Read", s |-> s, res |-> "data", chunk |-> Head(buf[s])]
       ELSE IF closed[s] \/ rfin[s]
         THEN /\ GotEOF(s, closed[s]) /\ UNCHANGED <<buf, rd>>
              /\ last' = [act |-> "Read", s |-> s, res |-> "eof", chunk |-> 0]
         ELSE /\ rd' = [rd EXCEPT ![s] = Blocked] /\ UNCHANGED <<buf, delivered, lost>>
              /\ last' = [act |-> "Read", s |-> s, res |-> "block", chunk |-> 0]
  /\ UNCHANGED <<st, reg, pend, lfin, rfin, closed, fh, nframes, nsent, arrived, finSeen>>

(* the woken reader returns *)
ReadReturn(s) ==
  /\ rd[s].pc = "ready"
  /\ rd' = [rd EXCEPT ![s] = Idle]
  /\ IF rd[s].eof
       THEN GotEOF(s, rd[s].torn) /\ last' = [act |-> "ReadReturn", s |-> s, res |-> "eof", chunk |-> 0]
       ELSE GotData(s, rd[s].chunk) /\ last' = [act |-> "ReadReturn", s |-> s, res |-> "data", chunk |-> rd[s].chunk]
  /\ UNCHANGED <<st, reg, pend, buf, lfin, rfin, closed, nreads, fh, nframes, nsent, arrived, finSeen>>

(* the guard of every writer: Stream.CanWrite *)
Write(s) ==
  /\ st[s] # "Opening"
  /\ UNCHANGED <<core, ghost>>
  /\ last' = [act |-> "Write", s |-> s,
              res |-> IF st[s] \in {"Open", "HalfClosedRemote"}
                         \/ ("DevWriteAfterHalfClose" \in Dev /\ st[s] = "HalfClosedLocal")
                      THEN "ok" ELSE "refused"]

(* Stream.CloseWrite (the stream object is handed out only after the open completed) *)
CloseWrite(s) ==
  /\ st[s] # "Opening"
  /\ lfin' = [lfin EXCEPT ![s] = TRUE]
  /\ st' = IF lfin[s] THEN st
           ELSE [st EXCEPT ![s] = CASE @ = "Open" -> "HalfClosedLocal"
                                    [] @ = "HalfClosedRemote" ->
                                         IF "DevHalfCloseReopens" \in Dev THEN "HalfClosedLocal" ELSE "Closed"
                                    [] OTHER -> @]
  /\ UNCHANGED <<reg, pend, buf, rfin, closed, rd, nreads, fh, nframes, nsent, ghost>>
  /\ last' = [act |-> "CloseWrite", s |-> s, res |-> "ok"]

\* streams torn down by a close / reset addressed to s
Victims(s) == IF "DevCloseTearsAll" \in Dev THEN {x \in Streams : reg[x]} ELSE {s}

(* Manager.HandleStreamClose / RemoveStream (kind = "close"), HandleStreamReset (kind = "reset"), addressed to an   *)
(* established stream or to any other id                                                                           *)
Teardown(s, kind) ==
  /\ IF Known(s)
       THEN LET V == Victims(s) IN
            /\ reg' = [x \in Streams |-> reg[x] /\ x \notin V]
            /\ st' = [x \in Streams |-> IF x \in V THEN "Closed" ELSE st[x]]
            /\ closed' = [x \in Streams |-> closed[x] \/ x \in V]
            /\ rd' = [x \in Streams |-> IF x \in V /\ rd[x].pc = "blocked" THEN ReadyEOF(TRUE) ELSE rd[x]]
            /\ UNCHANGED pend
            \* callbacks: onStreamClose (and onReset for a reset) are invoked for exactly the victims
            /\ last' = [act |-> IF kind = "close" THEN "Close" ELSE "Reset", s |-> s, res |-> "ok",
                        torn |-> [x \in Streams |-> x \in V]]
       ELSE /\ UNCHANGED <<reg, st, closed, rd>>
            \* not established: nothing happens - in particular the pending open of another stream stays
            /\ pend' = IF "DevResetCancelsPending" \in Dev /\ kind = "reset" /\ s = "x" THEN FALSE ELSE pend
            /\ last' = [act |-> IF kind = "close" THEN "Close" ELSE "Reset", s |-> s, res |-> "noop",
                        torn |-> [x \in Streams |-> FALSE]]
  /\ UNCHANGED <<buf, lfin, rfin, nreads, fh, nframes, nsent, ghost>>

Next ==
  \/ \E s \in Streams : OpenAck(s) \/ Read(s) \/ ReadReturn(s) \/ Write(s) \/ CloseWrite(s)
  \/ \E kind \in {"err", "timeout", "cancel"} : OpenFail(kind)
  \/ \E s \in Targets : Teardown(s, "close") \/ Teardown(s, "reset")
  \/ \E s \in Targets, hd \in BOOLEAN, fin \in BOOLEAN : FrameBegin(s, hd, fin)
  \/ FrameEnd

Spec == Init /\ [][Next]_vars

(* ---- properties (C18) ------------------------------------------------- *)
TypeOK ==
  /\ st \in [Streams -> States] /\ reg \in [Streams -> BOOLEAN]
  /\ \A s \in Streams : rd[s].pc \in {"idle", "blocked", "ready"}
  /\ \A s \in Streams : rd[s].pc = "blocked" => (buf[s] = <<>> /\ ~closed[s] /\ ~rfin[s])
  /\ \A s \in Streams : reg[s] => ~closed[s]

\* data that arrived before or together with the end-of-write signal is delivered before end-of-stream
DataBeforeEOF == \A s \in Streams : ~lost[s]
\* delivery is in order, without gaps or duplicates
Fifo == \A s \in Streams : \A i \in 1..Len(delivered[s]) : delivered[s][i] = i
\* after the local half-close writes are refused ...
WritesRefused == [][(last'.act = "Write" /\ lfin[last'.s]) => last'.res = "refused"]_vars
\* ... while reads continue: buffered data is always handed out
ReadsContinue == [][(last'.act = "Read" /\ buf[last'.s] # <<>>) => last'.res = "data"]_vars
\* a close / reset touches only the addressed stream
PerStream(x) == <<st[x], reg[x], buf[x], lfin[x], rfin[x], closed[x], rd[x]>>
\* ... neither another established stream nor another stream's pending open (a close / reset never completes or fails
\* an open: the pending table is untouched by it)
Isolation == [][\A s \in Targets : (last'.act \in {"Close", "Reset"} /\ last'.s = s)
                   => /\ \A o \in Streams \ {s} : PerStream(o)' = PerStream(o) /\ ~last'.torn[o]
                      /\ pend' = pend]_vars
\* the state moves only along the documented transitions
DocumentedEdges == [][\A s \in Streams : st'[s] # st[s] => <<st[s], st'[s]>> \in DocEdges]_vars

(* ---- edge emission for the replay binding ------------------------------ *)
\* compact (positional) encoding of a state, unpacked by checks/_stream.py and harness/stream/stream_test.go:
\* per stream <<st, reg, buf, lfin, rfin, closed, rd.pc, rd.chunk, rd.eof, rd.torn, nreads, nsent,
\*              arrived, finSeen, delivered, lost>>, handler <<pc, s, k, fin>>, nframes, pend
PackS(x) == <<st[x], reg[x], buf[x], lfin[x], rfin[x], closed[x], rd[x].pc, rd[x].chunk, rd[x].eof, rd[x].torn,
              nreads[x], nsent[x], arrived[x], finSeen[x], delivered[x], lost[x]>>
Packed == [a |-> PackS("a"), b |-> PackS("b"), fh |-> <<fh.pc, fh.s, fh.k, fh.fin>>, nf |-> nframes, pend |-> pend]
EmitEdge == Emit => PrintT("EDGE " \o ToJson([s |-> Packed, a |-> last', t |-> Packed']))
=============================================================================
