----------------------------- MODULE FileStream -----------------------------
(***************************************************************************)
(* The FILE-TRANSFER STREAM PROTOCOL between two agents (growth module     *)
(* G05): the RESPONDER side in internal/agent/agent.go                     *)
(* (handleFileTransferStreamOpen / handleFileTransferStreamData /          *)
(* completeFileUpload / sendFileDownload / closeFileTransferStream /       *)
(* cleanupFileTransferStream, table Agent.fileStreams) with                *)
(* internal/filetransfer/stream.go (ValidateUpload/DownloadMetadata,       *)
(* WriteUploadedFile, ReadFileForDownload), and the obligations of the     *)
(* INITIATOR side (Agent.UploadFile / DownloadFile / DownloadFileStream).  *)
(*                                                                         *)
(* One transfer per behaviour.  Its set-up is a record of Cfgs:            *)
(*   kind    "up" | "down"                                                 *)
(*   enabled file transfer enabled at the responder                        *)
(*   dest    upload: what is under the final name: "absent" | "old" (a     *)
(*           file with other content) | "dir" (a directory: the final      *)
(*           write must fail)                                              *)
(*   fsize   download: size of the requested file in units (-1: missing)   *)
(*   honest  TRUE: the initiator is the project's own code and the         *)
(*           behaviour ends with the return of its API call (IReturn)      *)
(*   ldest   download by the honest initiator: "absent" | "old" local file *)
(* Sizes are counted in units; Max = the responder's max_file_size, Chunk  *)
(* = the sender's read buffer (one STREAM_DATA frame).                     *)
(*                                                                         *)
(* Roles and phases.  Responder (rph): Idle -> Opened -> MetaReceived ->   *)
(* Transferring -> (Finishing) -> Done | Failed(why).  Finishing - the     *)
(* goroutine that copies the staged upload to the final name / serves the  *)
(* download - is folded into the step that starts it: the step's reply is  *)
(* the complete frame sequence the responder sends (the replay waits for   *)
(* it).  Initiator (ist): none -> active -> ok | err.                      *)
(*                                                                         *)
(* Every step is ONE frame delivered to the responder (or an environment   *)
(* event) together with the responder's complete reaction:                 *)
(*   Open            STREAM_OPEN "file:upload" / "file:download" with the  *)
(*                   initiator's ephemeral key -> OPEN_ACK with the        *)
(*                   responder's key (both derive the session key)         *)
(*   Meta(cls)       the first sealed data frame: metadata record; cls =   *)
(*                   valid | badpw | denied | toolarge (announced size) |  *)
(*                   malformed                                             *)
(*   Data(n)         a sealed data frame of n units                        *)
(*   Fin(n)          the same with FIN_WRITE: end of the upload            *)
(*   Garbled         a data frame that does not open under the session key *)
(*   Close, Reset    STREAM_CLOSE / STREAM_RESET from the initiator        *)
(*   PeerGone        the initiator's connection dies                       *)
(*   XOpen, XClose,  a STRANGER (another peer connection) sends frames     *)
(*   XData           that carry the same stream id                         *)
(*   IReturn(res,d)  the honest initiator's API call returns (its own      *)
(*                   timeout / cancellation = IReturn("err") while the     *)
(*                   transfer is running; the ideal initiator resets the   *)
(*                   stream first)                                         *)
(* reply  = frames to the initiator:  "ack", "errmeta:<why>+fin" (sealed   *)
(* metadata record with Error set, FIN flag), "respmeta:<size>",           *)
(* "data:<units>", "close", "operr:<why>" (a STREAM_OPEN_ERR).             *)
(* xreply = frames to the stranger.                                        *)
(*                                                                         *)
(* What the code does with the bytes: an accepted upload is STAGED in a    *)
(* temp file (os.CreateTemp("", "upload-stream-*"), variable tmp) and      *)
(* copied to the final name when the FIN arrives (O_TRUNC + io.Copy with   *)
(* the size limit on the ACTUAL bytes); the staging file is removed with   *)
(* the table entry.                                                        *)
(*                                                                         *)
(* Deviations (Dev): what the pinned code does instead (AS-BUILT, see      *)
(* checks/G05.py) and further ones for the sensitivity of the invariants.  *)
(*   DevPartialFileLeftOnAbort   an upload whose actual size exceeds Max   *)
(*        is copied up to Max+1 bytes to the final name and left there     *)
(*        (the previous file is destroyed)                  [as built]     *)
(*   DevResultAsOpenErr          a failure while finishing is reported as  *)
(*        STREAM_OPEN_ERR on the established stream, without STREAM_CLOSE: *)
(*        the initiator's stream never ends                 [as built]     *)
(*   DevEntryLeakOnPeerGone      the disconnect handling does not touch    *)
(*        fileStreams: entry and staging file stay for ever [as built]     *)
(*   DevKeyedByStreamIdOnly      fileStreams is keyed by the bare stream   *)
(*        id: frames of another peer act on the transfer    [as built]     *)
(*   DevDownloadIgnoresRemoteError  DownloadFile does not look at the      *)
(*        Error of the response metadata: a rejected download returns      *)
(*        success with an empty local file                  [as built]     *)
(*   DevAbortNotSignalled        a cancelled / timed-out transfer returns  *)
(*        without STREAM_CLOSE / RESET: the responder keeps entry and      *)
(*        staging file                                      [as built]     *)
(*   DevDownloadTruncatesLocalFirst  DownloadFile truncates the local file *)
(*        before the first data byte arrives: a failed download leaves it  *)
(*        empty                                             [as built]     *)
(*   DevWriteBeforeAuth          the staging file is created before the    *)
(*        metadata passed the checks (and stays after the rejection)       *)
(*   DevSizeLimitOnAnnouncedOnly the limit is checked on the announced     *)
(*        size only                                                        *)
(*   DevEntryLeakOnReset         a STREAM_RESET does not remove the entry  *)
(***************************************************************************)
EXTENDS Integers, Sequences, FiniteSets, TLC, Json

CONSTANTS Max, Chunk, MaxRecv,  \* units
          DataN, FinN,          \* sizes of data / FIN frames the initiator may send
          Cfgs,                 \* set of set-up records
          Dev, Emit

DevNames == {"DevPartialFileLeftOnAbort", "DevResultAsOpenErr", "DevEntryLeakOnPeerGone", "DevKeyedByStreamIdOnly",
             "DevDownloadIgnoresRemoteError", "DevAbortNotSignalled", "DevDownloadTruncatesLocalFirst",
             "DevWriteBeforeAuth", "DevSizeLimitOnAnnouncedOnly", "DevEntryLeakOnReset"}
ASSUME Dev \subseteq DevNames
D(x) == x \in Dev

MetaClasses == {"valid", "badpw", "denied", "toolarge", "malformed"}
\* reasons with which the metadata frame is rejected
MetaReasons == {"badpw", "denied", "toolarge", "malformed", "disabled", "missing"}

VARIABLES cfg,
          \* ---- responder
          rph,      \* phase
          why,      \* reason of Failed
          owner,    \* who owns the table entry of the stream id: "none" | "p" (the initiator) | "q" (the stranger: only
                    \*   when the table is keyed by the bare id)
          xentry,   \* the stranger's OWN entry (a table keyed by <<peer, id>>): 0 | 1
          tmp,      \* units in the staging file of the entry, -1 = no staging file
          orphan,   \* units in a staging file that no entry refers to any more, -1 = none
          final,    \* [st, n] the file under the final name: st = "absent" | "old" | "dir" | "new" (the first n units sent)
                    \*   | "trunc" (n units and one byte) | "na" (download)
          \* ---- ghosts
          sent,     \* units the initiator sent after its metadata was accepted
          authOK,   \* a metadata frame passed all checks
          nclose,   \* result + STREAM_CLOSE sequences sent to the initiator
          nlate,    \* STREAM_OPEN_ERR frames sent on the established stream
          opens, removals,
          palive,   \* the initiator's connection is up
          xopened,
          \* ---- initiator
          ist,      \* "none" | "active" | "ok" | "err"
          istream,  \* the initiator's stream table still holds the stream: 0 | 1
          idst,     \* honest download: the local file "absent" | "old" | "complete" | "empty"; "na" otherwise
          last

rvars == <<rph, why, owner, xentry, tmp, orphan, final, sent, authOK, nclose, nlate, opens, removals, palive, xopened>>
ivars == <<ist, istream, idst>>
vars == <<cfg, rvars, ivars, last>>
view == <<cfg, rvars, ivars>>

St == [rph |-> rph, why |-> why, owner |-> owner, xentry |-> xentry, tmp |-> tmp, orphan |-> orphan, final |-> final,
       sent |-> sent, authOK |-> authOK, nclose |-> nclose, nlate |-> nlate, opens |-> opens, removals |-> removals,
       palive |-> palive, xopened |-> xopened, ist |-> ist, istream |-> istream, idst |-> idst]

\* dev = the deviations that shaped this transition (empty in the ideal design)
NoAct == [act |-> "Init", cls |-> "", n |-> 0, res |-> "", reply |-> <<>>, xreply |-> <<>>, dev |-> {}]
Act(a, cls, n, reply, xreply) == [act |-> a, cls |-> cls, n |-> n, res |-> "", reply |-> reply, xreply |-> xreply, dev |-> {}]
By(a, d) == [a EXCEPT !.dev = @ \cup d]

\* u: record of the variables that change
Apply(u, a) ==
  LET v == u @@ St IN
  /\ rph' = v.rph /\ why' = v.why /\ owner' = v.owner /\ xentry' = v.xentry /\ tmp' = v.tmp /\ orphan' = v.orphan
  /\ final' = v.final /\ sent' = v.sent /\ authOK' = v.authOK /\ nclose' = v.nclose /\ nlate' = v.nlate
  /\ opens' = v.opens /\ removals' = v.removals /\ palive' = v.palive /\ xopened' = v.xopened
  /\ ist' = v.ist /\ istream' = v.istream /\ idst' = v.idst
  /\ cfg' = cfg /\ last' = a

InitFinal(c) == IF c.kind = "up" THEN [st |-> c.dest, n |-> 0] ELSE [st |-> "na", n |-> 0]
InitLocal(c) == IF c.kind = "down" /\ c.honest THEN c.ldest ELSE "na"

Init ==
  /\ cfg \in Cfgs
  /\ rph = "Idle" /\ why = "none" /\ owner = "none" /\ xentry = 0 /\ tmp = -1 /\ orphan = -1 /\ final = InitFinal(cfg)
  /\ sent = 0 /\ authOK = FALSE /\ nclose = 0 /\ nlate = 0 /\ opens = 0 /\ removals = 0 /\ palive = TRUE /\ xopened = FALSE
  /\ ist = "none" /\ istream = 0 /\ idst = InitLocal(cfg)
  /\ last = NoAct

Ended == rph \in {"Done", "Failed"}
Up == cfg.kind = "up"
ById == D("DevKeyedByStreamIdOnly")

ErrReply(r) == <<"errmeta:" \o r \o "+fin", "close">>
ToQ == <<"data:sealed+fin", "close">>   \* what a failing stream sends to the stranger (who holds no key in this model)
NChunks(k) == (k + Chunk - 1) \div Chunk
Chunks(k) == IF k <= 0 THEN <<>>
             ELSE [i \in 1..NChunks(k) |-> "data:" \o ToString(IF i * Chunk <= k THEN Chunk ELSE k - (i - 1) * Chunk)]

(* ---- building blocks of the responder's reactions (update records) ------ *)
\* cleanupFileTransferStream for the initiator's entry: entry and staging file go
Drop == [owner |-> "none", tmp |-> -1, removals |-> removals + 1]
\* closeFileTransferStream: sealed error record + STREAM_CLOSE, then the clean-up
FailU(r) == [rph |-> "Failed", why |-> r, nclose |-> nclose + 1, istream |-> 0] @@ Drop
\* the initiator (or the environment) ended the transfer: nothing is sent
EndU(r) == [rph |-> "Failed", why |-> r] @@ Drop
\* a frame hits the entry the stranger owns (bare-id table only): it does not open under the stranger's key
QFail == [owner |-> "none", removals |-> removals + 1]

(* ---- frames of the initiator -------------------------------------------- *)
Open ==
  /\ palive /\ rph = "Idle" /\ owner = "none"
  /\ Apply([rph |-> "Opened", owner |-> "p", opens |-> opens + 1, istream |-> 1,
            ist |-> IF cfg.honest THEN "active" ELSE ist],
           Act("Open", "", 0, <<"ack">>, <<>>))

\* outcome of the checks of a parsable metadata record: "ok" or the reason of the rejection
\* (validateCommon: enabled, password, path; then the size: announced for uploads, on disk for downloads)
Check(cls) ==
  IF ~cfg.enabled THEN "disabled"
  ELSE IF cls = "badpw" THEN "badpw"
  ELSE IF cls = "denied" THEN "denied"
  ELSE IF Up THEN (IF cls = "toolarge" THEN "toolarge" ELSE "ok")
  ELSE IF cfg.fsize < 0 THEN "missing"
  ELSE IF cfg.fsize > Max THEN "toolarge"
  ELSE "ok"

\* frames for a stream id nobody owns are ignored; frames that hit the stranger's entry fail under its key
NoEntry(a) ==
  IF owner = "q" /\ a.act \in {"Meta", "Data", "Fin", "Garbled"}
    THEN Apply(QFail, By([a EXCEPT !.xreply = ToQ], {"DevKeyedByStreamIdOnly"}))
  ELSE IF owner = "q" /\ a.act \in {"Close", "Reset"}
    THEN Apply(QFail, By(a, {"DevKeyedByStreamIdOnly"}))
  ELSE Apply(<<>>, a)

\* Before the open and after the end every frame of the initiator is ignored in the same way: Data(1) and Close stand
\* for all of them there (set-ups with the honest initiator allow every frame: its frames may cross the responder's
\* rejection on the wire).
Live == palive /\ owner = "p" /\ ~Ended
Stray == owner # "p" /\ (owner = "q" \/ ~xopened)

Meta(cls) ==
  /\ palive
  /\ \/ cfg.honest /\ owner # "p" /\ NoEntry(Act("Meta", cls, 0, <<>>, <<>>))
     \/ /\ Live /\ rph = "Opened"
        /\ (cls = "toolarge") => Up
        /\ LET r == IF cls = "malformed" THEN "malformed" ELSE Check(cls) IN
           IF r # "ok"
             THEN \* rejected: nothing is written, nothing is read
                  Apply((IF D("DevWriteBeforeAuth") /\ Up /\ cls # "malformed" THEN [tmp |-> 0, owner |-> "none"] ELSE <<>>)
                        @@ FailU(r),
                        By(Act("Meta", cls, 0, ErrReply(r), <<>>),
                           IF D("DevWriteBeforeAuth") /\ Up /\ cls # "malformed" THEN {"DevWriteBeforeAuth"} ELSE {}))
           ELSE IF Up
             THEN Apply([rph |-> "MetaReceived", tmp |-> 0, authOK |-> TRUE], Act("Meta", cls, 0, <<>>, <<>>))
             ELSE \* download: response metadata, the file in chunks, STREAM_CLOSE; then the entry is removed
                  Apply([rph |-> "Done", authOK |-> TRUE, sent |-> cfg.fsize, nclose |-> nclose + 1, istream |-> 0] @@ Drop,
                        Act("Meta", cls, 0, <<"respmeta:" \o ToString(cfg.fsize)>> \o Chunks(cfg.fsize) \o <<"close">>, <<>>))

\* the staged upload is finished: copy to the final name under the limit on the actual size
Finish(total, a) ==
  IF cfg.dest = "dir"
    THEN \* the final name cannot be written
         IF D("DevResultAsOpenErr")
           THEN Apply([rph |-> "Failed", why |-> "write", nlate |-> nlate + 1, sent |-> total] @@ Drop,
                      By([a EXCEPT !.reply = <<"operr:write">>], {"DevResultAsOpenErr"}))
           ELSE Apply([sent |-> total] @@ FailU("write"), [a EXCEPT !.reply = ErrReply("write")])
  ELSE IF total <= Max \/ D("DevSizeLimitOnAnnouncedOnly")
    THEN Apply([rph |-> "Done", final |-> [st |-> "new", n |-> total], sent |-> total, nclose |-> nclose + 1, istream |-> 0] @@ Drop,
               By([a EXCEPT !.reply = <<"close">>], IF total > Max THEN {"DevSizeLimitOnAnnouncedOnly"} ELSE {}))
  ELSE LET f == IF D("DevPartialFileLeftOnAbort") THEN [st |-> "trunc", n |-> Max] ELSE final
           d == IF D("DevPartialFileLeftOnAbort") THEN {"DevPartialFileLeftOnAbort"} ELSE {} IN
       IF D("DevResultAsOpenErr")
         THEN Apply([rph |-> "Failed", why |-> "toolarge", nlate |-> nlate + 1, final |-> f, sent |-> total] @@ Drop,
                    By([a EXCEPT !.reply = <<"operr:toolarge">>], d \cup {"DevResultAsOpenErr"}))
         ELSE Apply([final |-> f, sent |-> total] @@ FailU("toolarge"), By([a EXCEPT !.reply = ErrReply("toolarge")], d))

Content(name, n, fin) ==
  /\ palive
  /\ \/ Stray /\ ((n = 1 /\ ~fin) \/ cfg.honest) /\ NoEntry(Act(name, "", n, <<>>, <<>>))
     \/ /\ Live
        /\ CASE rph = "Opened" ->
                  \* "data before the metadata": the frame is taken for the metadata record and does not parse
                  Apply(FailU("malformed"), Act(name, "", n, ErrReply("malformed"), <<>>))
             [] rph \in {"MetaReceived", "Transferring"} ->
                  /\ tmp + n <= MaxRecv
                  /\ IF fin THEN Finish(tmp + n, Act(name, "", n, <<>>, <<>>))
                     ELSE Apply([rph |-> "Transferring", tmp |-> tmp + n, sent |-> sent + n], Act(name, "", n, <<>>, <<>>))

Data(n) == Content("Data", n, FALSE)
Fin(n) == Content("Fin", n, TRUE)

Garbled ==
  /\ palive
  /\ Live /\ Apply(FailU("garbled"), Act("Garbled", "", 0, ErrReply("garbled"), <<>>))

Teardown(name) ==
  /\ palive
  /\ \/ Stray /\ (name = "Close" \/ cfg.honest) /\ NoEntry(Act(name, "", 0, <<>>, <<>>))
     \/ /\ Live
        /\ IF name = "Reset" /\ D("DevEntryLeakOnReset")
             THEN Apply([rph |-> "Failed", why |-> "reset", istream |-> 0], By(Act(name, "", 0, <<>>, <<>>), {"DevEntryLeakOnReset"}))
             ELSE Apply([istream |-> 0] @@ EndU(IF name = "Close" THEN "closed" ELSE "reset"), Act(name, "", 0, <<>>, <<>>))

(* ---- environment -------------------------------------------------------- *)
PeerGone ==
  /\ palive /\ rph # "Idle" /\ ~Ended
  /\ IF owner = "p" /\ ~D("DevEntryLeakOnPeerGone")
       THEN Apply([palive |-> FALSE, istream |-> 0] @@ EndU("peergone"), Act("PeerGone", "", 0, <<>>, <<>>))
       ELSE Apply([palive |-> FALSE, istream |-> 0],
                  By(Act("PeerGone", "", 0, <<>>, <<>>), IF owner = "p" THEN {"DevEntryLeakOnPeerGone"} ELSE {}))

(* ---- the stranger: another peer connection using the same stream id ----- *)
\* the stranger's frames are modelled while they can meet something: a running transfer, an entry of its own
XLive == palive /\ rph # "Idle" /\ (~Ended \/ xentry = 1 \/ owner = "q")

XOpen ==
  /\ palive /\ rph # "Idle" /\ ~xopened
  /\ IF ById
       THEN \* the entry is overwritten: the initiator's staging file is orphaned, its transfer is dead
            Apply([owner |-> "q", tmp |-> -1, orphan |-> IF owner = "p" /\ tmp >= 0 THEN tmp ELSE orphan, xopened |-> TRUE,
                   opens |-> opens + 1]
                  @@ (IF owner = "p" THEN [rph |-> "Failed", why |-> "stranger"] ELSE <<>>),
                  By(Act("XOpen", "", 0, <<>>, <<"ack">>), {"DevKeyedByStreamIdOnly"}))
       ELSE Apply([xentry |-> 1, xopened |-> TRUE], Act("XOpen", "", 0, <<>>, <<"ack">>))

XClose ==
  /\ XLive
  /\ IF ById
       THEN IF owner = "p" THEN Apply(EndU("stranger"), By(Act("XClose", "", 0, <<>>, <<>>), {"DevKeyedByStreamIdOnly"}))
            ELSE IF owner = "q" THEN Apply(QFail, By(Act("XClose", "", 0, <<>>, <<>>), {"DevKeyedByStreamIdOnly"}))
            ELSE Apply(<<>>, Act("XClose", "", 0, <<>>, <<>>))
       ELSE Apply([xentry |-> 0], Act("XClose", "", 0, <<>>, <<>>))

XData ==
  /\ XLive
  /\ IF ById
       THEN IF owner = "p" THEN Apply([why |-> "stranger"] @@ FailU("garbled"),
                                       By(Act("XData", "", 0, ErrReply("garbled"), <<>>), {"DevKeyedByStreamIdOnly"}))
            ELSE IF owner = "q" THEN Apply(QFail, By(Act("XData", "", 0, <<>>, ToQ), {"DevKeyedByStreamIdOnly"}))
            ELSE Apply(<<>>, Act("XData", "", 0, <<>>, <<>>))
       ELSE IF xentry = 1 THEN Apply([xentry |-> 0], Act("XData", "", 0, <<>>, ToQ))
            ELSE Apply(<<>>, Act("XData", "", 0, <<>>, <<>>))

(* ---- the honest initiator's call returns -------------------------------- *)
IReturn(res, dst) ==
  /\ cfg.honest /\ ist = "active"
  /\ res = "ok" =>
       \/ rph = "Done" /\ dst = (IF Up THEN "na" ELSE "complete")
       \/ D("DevDownloadIgnoresRemoteError") /\ ~Up /\ rph = "Failed" /\ why \in MetaReasons /\ dst = "empty"
  /\ res = "err" =>
       /\ \/ owner # "p" /\ istream = 0
          \/ D("DevAbortNotSignalled")
          \/ D("DevResultAsOpenErr") /\ nlate > 0 /\ owner # "p"
       /\ \/ dst = InitLocal(cfg)
          \/ D("DevDownloadTruncatesLocalFirst") /\ ~Up /\ rph = "Done" /\ dst = "empty"
  /\ Apply([ist |-> res, idst |-> dst], [Act("IReturn", "", 0, <<>>, <<>>) EXCEPT !.res = res, !.cls = dst])

Next ==
  \/ Open \/ Garbled \/ Teardown("Close") \/ Teardown("Reset") \/ PeerGone \/ XOpen \/ XClose \/ XData
  \/ \E c \in MetaClasses : Meta(c)
  \/ \E n \in DataN : Data(n)
  \/ \E n \in FinN : Fin(n)
  \/ \E res \in {"ok", "err"}, dst \in {"na", "absent", "old", "complete", "empty"} : IReturn(res, dst)

Spec == Init /\ [][Next]_vars

(* ---- properties --------------------------------------------------------- *)
TypeOK ==
  /\ rph \in {"Idle", "Opened", "MetaReceived", "Transferring", "Done", "Failed"}
  /\ owner \in {"none", "p", "q"} /\ xentry \in {0, 1} /\ tmp \in -1..MaxRecv /\ orphan \in -1..MaxRecv
  /\ ist \in {"none", "active", "ok", "err"} /\ istream \in {0, 1}

\* nothing is written to / read from the file system before a metadata frame passed all checks
NoFsBeforeAuth ==
  (tmp >= 0 \/ orphan >= 0 \/ final # InitFinal(cfg) \/ (~Up /\ sent > 0)) => authOK

\* bytes written = bytes sent, in order; the file is complete exactly when the success result was sent
WrittenIsSent ==
  /\ (Up /\ rph = "Done") => final = [st |-> "new", n |-> sent]
  /\ final.st = "new" => rph = "Done"
  /\ (tmp >= 0 /\ owner = "p") => tmp = sent
  /\ (~Up /\ rph = "Done") => sent = cfg.fsize

\* a failed or aborted upload leaves nothing under the final name (and what was there before is still there)
NoPartialFile ==
  /\ final.st # "trunc"
  /\ rph # "Done" => final = InitFinal(cfg)

\* the limit holds for the ACTUAL number of bytes
SizeLimit ==
  /\ final.st \in {"new", "trunc"} => final.n <= Max /\ final.st = "new"
  /\ rph = "Done" => sent <= Max

\* every transfer the responder ends itself ends with exactly one result + STREAM_CLOSE towards the initiator, never with
\* an OPEN_ERR on the established stream; at most one in any case
OneResult ==
  /\ nclose <= 1 /\ nlate = 0
  /\ (rph = "Done" \/ (rph = "Failed" /\ why \notin {"closed", "reset", "peergone", "stranger"})) => nclose = 1

\* the table entry is removed exactly once; nothing is left after the end, a reset, a close, a dead connection
EntryOnce ==
  /\ (IF owner = "none" THEN 0 ELSE 1) + removals = opens
  /\ Ended => owner # "p"
  /\ ~palive => owner # "p"
  /\ tmp >= 0 => owner = "p"
  /\ orphan = -1

\* frames before the metadata or after the end are rejected without side effects
Frozen == [][Ended => (final' = final /\ tmp' = tmp /\ orphan' = orphan /\ nclose' = nclose /\ nlate' = nlate)]_vars

\* another peer's frames never touch the transfer
Isolation == [][(last'.act \in {"XOpen", "XClose", "XData"}) =>
                   (rph' = rph /\ owner' = owner /\ tmp' = tmp /\ final' = final /\ last'.reply = <<>>)]_vars

\* ---- the initiator's side of the contract (honest initiator)
Agreement == ist = "ok" => (rph = "Done" /\ (~Up => idst = "complete"))
NoOrphan == ist \in {"ok", "err"} => (owner # "p" /\ tmp = -1 /\ istream = 0)
LocalIntact == ist = "err" => idst = InitLocal(cfg)

State == [cfg |-> cfg] @@ St
EmitEdge == Emit => PrintT("EDGE " \o ToJson([s |-> State, a |-> last', t |-> State']))
=============================================================================
