------------------------------- MODULE HttpApi -------------------------------
(***************************************************************************)
(* HTTP API of the agent (internal/health/server.go) as a decision table   *)
(* (C24): request = route x path spelling x method x token presentation,   *)
(* configuration = token configured? x the three endpoint-group flags.     *)
(*                                                                         *)
(* ORACLE (from the statement):                                            *)
(*   MUST401  token configured, the request addresses a non-exempt         *)
(*            endpoint and carries no valid token: status 401, no action   *)
(*   NOT401   the exempt endpoints (health and readiness probes, splash    *)
(*            page, logo) in their canonical spelling never answer 401     *)
(*   MUST404  the request (authorised) addresses an endpoint of a disabled *)
(*            group: 404 (possibly after the path-cleaning redirect), no   *)
(*            action                                                       *)
(*   NOACT    without a valid token (token configured) no provider is      *)
(*            called at all, except the health/readiness providers when    *)
(*            the request addresses an exempt endpoint                     *)
(* IMPL is a transcription of NewServer's wiring: requireAuth (exact match *)
(* of the decoded path against authExemptPaths, then bearer token from the *)
(* header or the query) in front of a ServeMux (path cleaning redirect,    *)
(* then routing; disabled groups are registered as 404 handlers).          *)
(* TLC checks IMPL against the ORACLE for every case and prints one VEC    *)
(* record per case; the harness runs each case against the real handler.   *)
(*                                                                         *)
(* Path spellings of a route with canonical path P:                        *)
(*   exact P | query P?x=1 | pct (one letter percent-encoded) |            *)
(*   dot /./P | dotdot /zz/../P | dslash //P | cross /<other>/../P where   *)
(*   <other> is an exempt path for a non-exempt P and vice versa           *)
(*     -> these address the endpoint P (decoding / cleaning gives P)       *)
(*   slash P/ | upper (first letter upper-cased) | ext Px | pctslash (a    *)
(*   slash written %2F) | sub P/extra                                      *)
(*     -> these address no registered endpoint ("unknown")                 *)
(*   sfxpng P.png | sfxico P.ico | sublogo P/logo.png | subhealth P/health *)
(*     (spellings that END like an exempt endpoint or a static asset)      *)
(*     -> unknown, except below a subtree pattern whose handler dispatches *)
(*        by prefix (/agents/{id}/..., /debug/pprof/...): there they still *)
(*        address that non-exempt handler                                  *)
(*                                                                         *)
(* The server is long-lived: a request may follow another one on the same  *)
(* server.  The oracle is history-free (every request is judged alone), so *)
(* SEQ records pair every priming request (each token presentation, on an  *)
(* exempt and on a non-exempt endpoint) with every probe request; the      *)
(* harness sends both to one fresh server and judges the probe.            *)
(***************************************************************************)
EXTENDS Naturals, Sequences, FiniteSets, TLC, Json

CONSTANTS Size,   \* "quick" | "thorough" | "tiny" (sensitivity runs)
          Dev     \* deviations of the transcription (sensitivity of the oracle)

DevNames == {"DevExemptByPrefix",      \* a path is exempt when it starts with an exempt path
             "DevGateBeforeAuth",      \* disabled groups answer 404 before the token is checked
             "DevFlagIgnored"}         \* the dashboard flag is not consulted
ASSUME Dev \subseteq DevNames
Quick == Size \in {"quick", "tiny"}
Tiny  == Size = "tiny"

(* ---- routes: id, group, exempt, subtree (pattern ends with "/") -------------*)
Rt(id, g, ex, sub) == [id |-> id, grp |-> g, exempt |-> ex, sub |-> sub]
Routes == {
  Rt("health", "core", TRUE, FALSE), Rt("healthz", "core", TRUE, FALSE), Rt("ready", "core", TRUE, FALSE),
  Rt("root", "core", TRUE, FALSE), Rt("logo", "core", TRUE, FALSE),
  Rt("agents", "remote", FALSE, FALSE), Rt("agents_", "remote", FALSE, TRUE),
  Rt("agent_id", "remote", FALSE, TRUE), Rt("agent_routes", "remote", FALSE, TRUE), Rt("agent_peers", "remote", FALSE, TRUE),
  Rt("agent_shell", "remote", FALSE, TRUE), Rt("agent_icmp", "remote", FALSE, TRUE),
  Rt("agent_upload", "remote", FALSE, TRUE), Rt("agent_download", "remote", FALSE, TRUE),
  Rt("agent_browse", "remote", FALSE, TRUE), Rt("agent_routes_manage", "remote", FALSE, TRUE),
  Rt("agent_forward_manage", "remote", FALSE, TRUE), Rt("agent_name_manage", "remote", FALSE, TRUE),
  Rt("routes_advertise", "remote", FALSE, FALSE), Rt("routes_manage", "remote", FALSE, FALSE),
  Rt("forward_manage", "remote", FALSE, FALSE), Rt("name_manage", "remote", FALSE, FALSE),
  Rt("sleep", "remote", FALSE, FALSE), Rt("sleep_status", "remote", FALSE, FALSE), Rt("wake", "remote", FALSE, FALSE),
  Rt("api_topology", "dashboard", FALSE, FALSE), Rt("api_dashboard", "dashboard", FALSE, FALSE),
  Rt("api_nodes", "dashboard", FALSE, FALSE), Rt("api_meshtest", "dashboard", FALSE, FALSE),
  Rt("pprof_index", "pprof", FALSE, TRUE), Rt("pprof_cmdline", "pprof", FALSE, FALSE),
  Rt("pprof_profile", "pprof", FALSE, FALSE), Rt("pprof_symbol", "pprof", FALSE, FALSE),
  Rt("pprof_trace", "pprof", FALSE, FALSE), Rt("pprof_heap", "pprof", FALSE, TRUE) }

Addressing == {"exact", "query", "pct", "dot", "dotdot", "dslash", "cross"}   \* spellings that address the endpoint
Unknowns   == {"slash", "upper", "ext", "pctslash", "sub"}
Suffixed   == {"sfxpng", "sfxico", "sublogo", "subhealth"}
Variants   == Addressing \cup Unknowns \cup Suffixed
Cleaned    == {"dot", "dotdot", "dslash", "cross"}            \* ServeMux answers these with a redirect to the clean path
\* spellings that exist for a route
HasVariant(r, v) ==
  /\ (r.id = "root") => v \in {"exact", "query", "dot", "dslash", "ext", "cross"}
  /\ (r.id = "agents_") => v \notin {"sublogo", "subhealth"}   \* would be "/agents//health"
  /\ (v = "slash") => ~r.sub \/ r.id \notin {"agents_", "pprof_index"}
  /\ (r.id \in {"agents_", "pprof_index"}) => v # "slash"
  /\ r.sub => v \notin {"slash", "ext", "sub"}          \* these stay inside the subtree handler
  /\ (r.id = "agents") => v \notin {"slash", "sub", "sublogo", "subhealth"}   \* /agents/... is the subtree /agents/

Methods == IF Tiny THEN {"GET"} ELSE IF Quick THEN {"GET", "POST", "CONNECT"} ELSE {"GET", "POST", "DELETE", "CONNECT"}
Pres == {"none", "hvalid", "hinvalid", "qvalid", "qinvalid", "basic", "empty", "both"}
   \* no token | Authorization: Bearer <valid|invalid> | ?token=<valid|invalid> | Authorization: Basic <valid token> |
   \* "Bearer " with an empty token and ?token=<invalid> | Bearer <invalid> with ?token=<valid>
ValidPres(p) == p \in {"hvalid", "qvalid"}      \* what the implementation accepts
\* "both" carries the valid token in the query and a wrong one in the header: the statement promises nothing for it
\* (the implementation lets the header win and refuses); the oracle demands nothing but NOT401 there.
Ambiguous(p) == p = "both"

Flags == [pprof : BOOLEAN, dashboard : BOOLEAN, remote : BOOLEAN]
Enabled(g, f) == CASE g = "remote" -> f.remote [] g = "dashboard" -> f.dashboard [] g = "pprof" -> f.pprof [] OTHER -> TRUE
AllOn  == [pprof |-> TRUE, dashboard |-> TRUE, remote |-> TRUE]
AllOff == [pprof |-> FALSE, dashboard |-> FALSE, remote |-> FALSE]

Case(r, v, m, p, t, f) == [r |-> r.id, grp |-> r.grp, exempt |-> r.exempt, sub |-> r.sub, v |-> v, m |-> m, p |-> p, tok |-> t, fl |-> f]

\* the quick instance keeps all 8 flag combinations for the canonical spelling (with no / a valid header token) and the
\* two extreme combinations elsewhere; CONNECT only where the mux treats it differently
QuickOK(vv, m, p, f) ==
  /\ (f \in {AllOn, AllOff} \/ (vv = "exact" /\ p \in {"none", "hvalid"}))
  /\ (m = "CONNECT" => vv \in Cleaned \cup {"exact"})
  /\ (m = "POST" => vv \in {"exact", "cross", "pct"} \cup Suffixed)
  /\ (p \in {"empty", "both"} => vv = "exact")

CasesFor(r) ==
  LET vs == {vv \in Variants : HasVariant(r, vv)} IN
  {c \in {Case(r, vv, m, p, TRUE, f) : vv \in vs, m \in Methods, p \in IF Tiny THEN {"none", "hvalid"} ELSE Pres,
                                        f \in IF Tiny THEN {AllOn, AllOff} ELSE Flags} :
        (Quick => QuickOK(c.v, c.m, c.p, c.fl)) /\ (c.m = "DELETE" => c.v \in {"exact", "cross"})}
  \cup   \* no token configured: the presentation is irrelevant
  {c \in {Case(r, vv, m, "none", FALSE, f) : vv \in vs, m \in Methods, f \in IF Tiny THEN {AllOn, AllOff} ELSE Flags} :
        (Quick => QuickOK(c.v, c.m, c.p, c.fl)) /\ (c.m = "DELETE" => c.v \in {"exact", "cross"})}

Cases == UNION {CasesFor(r) : r \in Routes}

(* ---- oracle --------------------------------------------------------------------*)
\* the request addresses endpoint c.r (or, for the suffixed spellings, the prefix-dispatching handler c.r lives in)
Addresses(c)  == c.v \in Addressing \/ (c.v \in Suffixed /\ c.sub)
Canonical(c)  == c.v \in {"exact", "query"}
Authorised(c) == ~c.tok \/ ValidPres(c.p)
Unclear(c)    == c.tok /\ Ambiguous(c.p)
Must401(c) == c.tok /\ ~ValidPres(c.p) /\ ~Unclear(c) /\ Addresses(c) /\ ~c.exempt
Not401(c)  == c.exempt /\ Canonical(c)
Must404(c) == Authorised(c) /\ Addresses(c) /\ ~c.exempt /\ ~Enabled(c.grp, c.fl)
\* which provider calls are acceptable: "none" | "probe" (health/readiness providers only) | "any"
ActLimit(c) == IF Unclear(c) THEN "any"
               ELSE IF Must401(c) \/ Must404(c) THEN "none"
               ELSE IF ~Authorised(c) THEN (IF Addresses(c) /\ c.exempt THEN "probe" ELSE "none")
               ELSE "any"

(* ---- transcription of the implementation ------------------------------------------*)
\* requireAuth: authExemptPaths[r.URL.Path] - the decoded path, compared exactly
ExemptPath(c) ==
  \/ c.exempt /\ c.v \in {"exact", "query", "pct"}
  \/ "DevExemptByPrefix" \in Dev /\ ( (c.exempt /\ c.v \in {"slash", "ext", "sub", "pctslash"} /\ c.r # "root")
                                      \/ (~c.exempt /\ c.v = "cross") )
GroupOn(c) == Enabled(c.grp, c.fl) \/ ("DevFlagIgnored" \in Dev /\ c.grp = "dashboard")
\* kind of answer: "401" | "redirect" (301 to the cleaned path, then decided again as "exact") | "404" | "handler"
Impl(c) ==
  LET pass == ~c.tok \/ ExemptPath(c) \/ ValidPres(c.p)
      gated == Addresses(c) /\ ~c.exempt /\ ~GroupOn(c)
  IN IF "DevGateBeforeAuth" \in Dev /\ gated /\ c.v \notin Cleaned THEN "404"
     ELSE IF ~pass THEN "401"
     ELSE IF c.v \in Cleaned /\ c.m # "CONNECT" THEN "redirect"
     ELSE IF c.v \in Cleaned                             \* CONNECT: no cleaning; the unclean path matches "/" only,
       THEN (IF c.v = "cross" /\ c.exempt /\ c.fl.remote  \* except /agents/../P which lies in the subtree /agents/
               THEN "handler" ELSE "404")
     ELSE IF ~Addresses(c) THEN "404"                    \* unknown path: catch-all "/" -> handleSplash -> 404
                                                         \* (or a disabled group's subtree handler)
     ELSE IF gated THEN "404"
     ELSE "handler"
\* the decision for the target of the redirect (same request, clean spelling)
ImplFinal(c) == IF Impl(c) = "redirect" THEN Impl([c EXCEPT !.v = "exact"]) ELSE Impl(c)

ImplMeetsOracle(c) ==
  /\ Must401(c) => Impl(c) = "401"
  /\ Not401(c) => Impl(c) # "401"
  /\ Must404(c) => ImplFinal(c) = "404" /\ Impl(c) \in {"404", "redirect"}
  /\ (ActLimit(c) = "none") => ImplFinal(c) # "handler" \/ (Impl(c) = "redirect" /\ Authorised(c) /\ ~Must404(c))
  /\ (ActLimit(c) = "probe") => (Impl(c) = "handler" => c.exempt)

(* ---- request sequences on one server -------------------------------------------------*)
Primes == {Case(r, "exact", "GET", p, TRUE, AllOn) : r \in {rr \in Routes : rr.id \in {"health", "routes_advertise"}}, p \in Pres}
IsProbe(c) == /\ c.tok /\ c.fl = AllOn /\ c.v = "exact" /\ c.m \in {"GET", "POST"}
              /\ c.r \in {"routes_advertise", "api_nodes", "agent_id", "healthz", "pprof_cmdline"}

(* ---- enumeration ---------------------------------------------------------------------*)
VARIABLE v
Init == v \in Cases
Next == UNCHANGED v
Holds == ImplMeetsOracle(v)
EmitVec == PrintT("VEC " \o ToJson([c |-> v, impl |-> Impl(v), final |-> ImplFinal(v),
                                    o |-> [must401 |-> Must401(v), not401 |-> Not401(v), must404 |-> Must404(v),
                                           act |-> ActLimit(v)]]))
           /\ (IsProbe(v) => \A pc \in Primes : PrintT("SEQ " \o ToJson([prime |-> pc, c |-> v, impl |-> Impl(v),
                   final |-> ImplFinal(v),
                   o |-> [must401 |-> Must401(v), not401 |-> Not401(v), must404 |-> Must404(v), act |-> ActLimit(v)]])))
=============================================================================
