----------------------------- MODULE Reconnect -----------------------------
(***************************************************************************)
(* Reconnection with pause and bounded exponential backoff (C31).          *)
(* Code: internal/peer/reconnect.go (Reconnector) and its use by           *)
(* internal/peer/manager.go (handleDisconnect -> Schedule; the callback    *)
(* handleReconnect -> connectWithTransport, which on failure itself calls  *)
(* Schedule before the error reaches the reconnector).                     *)
(*                                                                         *)
(* One action = one critical section of the code (r.mu):                   *)
(*   Schedule / CbSchedule  Reconnector.Schedule (CbSchedule = the same    *)
(*                          call made from inside a running callback)      *)
(*   TimerFire              the runtime starts the timer's goroutine; it   *)
(*                          sits in front of attemptReconnect's lock (the  *)
(*                          hook point reconnect.attempt.enter): `gate`    *)
(*   Release                first critical section of attemptReconnect:    *)
(*                          the attempt BEGINS (counter and next delay     *)
(*                          advance, callback invoked) or is SKIPPED       *)
(*   AttemptEnd(ok|fail)    second critical section, after the callback    *)
(*   Pause Resume ResetAll Cancel Stop                                     *)
(*                                                                         *)
(* A timer carries the backoff index d it was armed with (its delay is     *)
(* min(Initial * Multiplier^d, Max) +- jitter) and `cur`: it is the timer  *)
(* armed last for the state that is in the map (state.timerSeq); a timer   *)
(* that was superseded, or whose state was removed, does nothing when it   *)
(* fires.  An in-flight attempt carries n = number of attempts before it   *)
(* (its ordinal in the run of consecutive retries), the index d of the     *)
(* timer that started it, and `own`: its state object is still the one in  *)
(* the map.                                                                *)
(*                                                                         *)
(* C31:  NoAttemptWhilePaused  an attempt never begins while paused        *)
(*       OneTimer              at most one pending timer per address       *)
(*       Backoff               the n-th consecutive attempt was started by *)
(*                             a timer armed with index min(n, Cap)        *)
(*                                                                         *)
(* The backoff index is the abstraction of the delay the code keeps in     *)
(* state.nextDelay; `nd` is that value itself (milliseconds), computed the  *)
(* way the code computes it (multiply, then clamp) for the configuration   *)
(* Initial, MulN/MulD, MaxDelay.  Instances whose MaxDelay is NOT          *)
(* Initial * Multiplier^n are part of every run: only there does the clamp *)
(* matter.  `cons` (ghost) is the number of consecutive attempts since the *)
(* address was last scheduled afresh, cancelled, reset or CONNECTED: the k *)
(* of the statement restarts after a success.                              *)
(*                                                                         *)
(* Deviations (what the pinned code does instead):                         *)
(*   DevNoPauseCheckInAttempt  attemptReconnect never looks at `paused`:   *)
(*       a timer that fired just before Pause still starts its attempt,    *)
(*       and a failed attempt re-arms a timer while paused                 *)
(*   DevDoubleTimer            timers are never superseded: every fired    *)
(*       timer starts an attempt while the state exists, and the failure   *)
(*       path arms a timer without stopping the one armed meanwhile (by a  *)
(*       Schedule from inside the callback)                                *)
(*   DevAggressiveReconnectIgnoresSleep  (agent level, see below)          *)
(*   DevNoClamp                the product nextDelay*Multiplier is not     *)
(*       clamped to MaxDelay (growth merely stops once the cap is reached) *)
(*   DevSuccessKeepsState      a successful attempt keeps the state (and   *)
(*       its grown delay) when a timer was armed while the callback ran    *)
(*                                                                         *)
(* Agent level (WithAgent = TRUE), internal/agent/agent.go: the reconnector*)
(* is paused because the AGENT is asleep.  The agent drives it only through*)
(*   AgentSleep      enterSleep: peerMgr.DisconnectAll -> Pause            *)
(*   AgentWake       exitSleep: peerMgr.ReconnectAll (= ResetAll ; Resume ;*)
(*                   one dial per configured peer, a failed one is         *)
(*                   scheduled) and the start of a bounded "aggressive     *)
(*                   reconnect" activity (a goroutine with a ticker)       *)
(*   AggressiveTick  one tick of such an activity: ReconnectAll again      *)
(* C31 at this level: no connection attempt begins - by a timer, by        *)
(* ReconnectAll or by an aggressive tick - while the agent is asleep       *)
(* (AgentNoDialWhileAsleep), and the reconnector stays paused for as long  *)
(* as the agent sleeps (AsleepPaused).  The ideal activity ends at its     *)
(* first tick that finds the agent no longer awake.                        *)
(*   DevAggressiveReconnectIgnoresSleep: the activity started by a Wake    *)
(*   keeps ticking after a following Sleep: every tick resumes the         *)
(*   reconnector and dials the peers of the sleeping agent.                *)
(***************************************************************************)
EXTENDS Naturals, Sequences, FiniteSets, TLC, Json

CONSTANTS Addr,         \* peer addresses
          Cap,          \* largest backoff index (Initial * Multiplier^Cap = Max delay)
          MaxAttempts,  \* cfg.MaxAttempts; 0 = unlimited
          AttBound,     \* with MaxAttempts = 0: explore attempts counters up to this bound
          MaxGate,      \* fired timers waiting in front of the lock, per address
          MaxInfl,      \* attempts in flight, per address
          MaxPend,      \* pending timers per address (only a deviation can exceed 1)
          Initial, MulN, MulD, MaxDelay,  \* delays in ms: Initial, multiplier MulN/MulD, cap
          WithStop,     \* model Stop()
          WithAgent,    \* model the agent-level actors (then Pause/Resume/ResetAll only happen through them)
          MaxTicks,     \* ticks of one aggressive-reconnect activity
          MaxAggr,      \* activities running at the same time
          Dev,
          Emit

DevNames == {"DevNoPauseCheckInAttempt", "DevDoubleTimer", "DevNoClamp", "DevSuccessKeepsState",
             "DevAggressiveReconnectIgnoresSleep"}
ASSUME Dev \subseteq DevNames

VARIABLES paused, closed,
          ex,     \* [Addr -> BOOLEAN]   a reconnectState exists
          att,    \* [Addr -> Nat]       state.attempts
          idx,    \* [Addr -> 0..Cap]    state.nextDelay = min(Initial * Multiplier^idx, MaxDelay)
          nd,     \* [Addr -> Nat]       state.nextDelay itself, in ms (0 = no state)
          cons,   \* [Addr -> Nat]       ghost: consecutive attempts of the current run of retries
          pend,   \* [Addr -> Seq([d, cur])]  armed timers that have not fired and were not stopped
          gate,   \* [Addr -> Seq([d, cur])]  fired timers in front of attemptReconnect's lock (arrival order)
          infl,   \* [Addr -> Seq([n, d, own])] attempts whose callback is running (begin order)
          asleep, \* the agent's sleep state is SLEEPING
          aggr,   \* Seq(Nat): remaining ticks of every running aggressive-reconnect activity
          last

vars == <<paused, closed, ex, att, idx, nd, cons, pend, gate, infl, asleep, aggr, last>>
view == <<paused, closed, ex, att, idx, nd, cons, pend, gate, infl, asleep, aggr>>

Min(a, b) == IF a < b THEN a ELSE b
\* the statement's delay of the k-th consecutive retry (before jitter)
RECURSIVE Delay(_)
Delay(k) == IF k = 0 THEN Initial ELSE Min((Delay(k - 1) * MulN) \div MulD, MaxDelay)
\* Cap is the index at which the delay saturates
ASSUME Delay(Cap) = MaxDelay /\ (Cap > 0 => Delay(Cap - 1) < MaxDelay) /\ MulN > MulD
\* what attemptReconnect does to state.nextDelay
Grow(x) == IF "DevNoClamp" \in Dev
             THEN (IF x < MaxDelay THEN (x * MulN) \div MulD ELSE x)
             ELSE Min((x * MulN) \div MulD, MaxDelay)
RemoveAt(s, i) == SubSeq(s, 1, i - 1) \o SubSeq(s, i + 1, Len(s))
Stale(s) == [i \in 1..Len(s) |-> [s[i] EXCEPT !.cur = FALSE]]
Disown(s) == [i \in 1..Len(s) |-> [s[i] EXCEPT !.own = FALSE]]
Superseding == "DevDoubleTimer" \notin Dev

Init ==
  /\ paused = FALSE /\ closed = FALSE
  /\ ex = [a \in Addr |-> FALSE] /\ att = [a \in Addr |-> 0] /\ idx = [a \in Addr |-> 0]
  /\ nd = [a \in Addr |-> 0] /\ cons = [a \in Addr |-> 0]
  /\ pend = [a \in Addr |-> <<>>] /\ gate = [a \in Addr |-> <<>>] /\ infl = [a \in Addr |-> <<>>]
  /\ asleep = FALSE /\ aggr = <<>>
  /\ last = [act |-> "Init"]

(* ---- building blocks ----------------------------------------------------*)
\* armTimer: stop the timer armed before (it is the only one that can be pending), arm a new current one
Arm(a, i) ==
  /\ pend' = [pend EXCEPT ![a] = <<[d |-> i, cur |-> TRUE]>>]
  /\ gate' = [gate EXCEPT ![a] = IF Superseding THEN Stale(@) ELSE @]

\* the state of `a` leaves the map; its pending timer is stopped
Forget(a) ==
  /\ ex' = [ex EXCEPT ![a] = FALSE] /\ att' = [att EXCEPT ![a] = 0] /\ idx' = [idx EXCEPT ![a] = 0]
  /\ nd' = [nd EXCEPT ![a] = 0] /\ cons' = [cons EXCEPT ![a] = 0]
  /\ pend' = [pend EXCEPT ![a] = <<>>]
  /\ gate' = [gate EXCEPT ![a] = IF Superseding THEN Stale(@) ELSE @]

Exhausted(a, n) == MaxAttempts > 0 /\ n >= MaxAttempts

(* ---- Schedule -----------------------------------------------------------*)
ScheduleBody(a, name) ==
  IF closed \/ paused
    THEN /\ UNCHANGED <<paused, closed, ex, att, idx, nd, cons, pend, gate, infl>>
         /\ last' = [act |-> name, a |-> a, res |-> "ignored"]
    ELSE IF ex[a] /\ Exhausted(a, att[a])
      THEN /\ Forget(a)
           /\ infl' = [infl EXCEPT ![a] = Disown(@)]
           /\ UNCHANGED <<paused, closed>>
           /\ last' = [act |-> name, a |-> a, res |-> "exhausted"]
      ELSE /\ ex' = [ex EXCEPT ![a] = TRUE]
           /\ nd' = [nd EXCEPT ![a] = IF ex[a] THEN @ ELSE Initial]
           /\ Arm(a, idx[a])
           /\ UNCHANGED <<paused, closed, att, idx, cons, infl>>
           /\ last' = [act |-> name, a |-> a, res |-> "armed", d |-> idx[a]]

Schedule(a) == ScheduleBody(a, "Schedule")
\* the manager's callback calls Schedule itself before it returns its error
CbSchedule(a) == Len(infl[a]) > 0 /\ ScheduleBody(a, "CbSchedule")

(* ---- timers -------------------------------------------------------------*)
TimerFire(a, i) ==
  /\ i \in 1..Len(pend[a]) /\ Len(gate[a]) < MaxGate
  /\ gate' = [gate EXCEPT ![a] = Append(@, pend[a][i])]
  /\ pend' = [pend EXCEPT ![a] = RemoveAt(@, i)]
  /\ UNCHANGED <<paused, closed, ex, att, idx, nd, cons, infl>>
  /\ last' = [act |-> "TimerFire", a |-> a, i |-> i, d |-> pend[a][i].d]

Begins(a, g) ==
  /\ ex[a] /\ ~closed
  /\ (paused => "DevNoPauseCheckInAttempt" \in Dev)
  /\ (g.cur \/ ~Superseding)

Release(a, i) ==
  /\ i \in 1..Len(gate[a])
  /\ LET g == gate[a][i] IN
     IF Begins(a, g)
       THEN /\ Len(infl[a]) < MaxInfl
            /\ (MaxAttempts = 0 => att[a] < AttBound)
            /\ att' = [att EXCEPT ![a] = @ + 1]
            /\ idx' = [idx EXCEPT ![a] = Min(@ + 1, Cap)]
            /\ nd' = [nd EXCEPT ![a] = Grow(@)]
            /\ cons' = [cons EXCEPT ![a] = @ + 1]
            /\ infl' = [infl EXCEPT ![a] = Append(@, [n |-> att[a], d |-> g.d, own |-> TRUE])]
            /\ gate' = [gate EXCEPT ![a] = RemoveAt(@, i)]
            /\ UNCHANGED <<paused, closed, ex, pend>>
            /\ last' = [act |-> "Release", a |-> a, i |-> i, res |-> "begin", n |-> att[a], k |-> cons[a], d |-> g.d,
                        paused |-> paused]
       ELSE /\ gate' = [gate EXCEPT ![a] = RemoveAt(@, i)]
            /\ UNCHANGED <<paused, closed, ex, att, idx, nd, cons, pend, infl>>
            /\ last' = [act |-> "Release", a |-> a, i |-> i, res |-> "skip"]

(* ---- end of an attempt --------------------------------------------------*)
AttemptEnd(a, j, ok) ==
  /\ j \in 1..Len(infl[a])
  /\ LET x == infl[a][j]
         rest == RemoveAt(infl[a], j) IN
     IF closed \/ ~x.own
       THEN \* Stop() was called, or the state was cancelled / reset / replaced while the callback ran
            /\ infl' = [infl EXCEPT ![a] = rest]
            /\ UNCHANGED <<paused, closed, ex, att, idx, nd, cons, pend, gate>>
            /\ last' = [act |-> "AttemptEnd", a |-> a, j |-> j, ok |-> ok, res |-> "detached"]
       ELSE IF ok /\ "DevSuccessKeepsState" \in Dev /\ Len(pend[a]) > 0
         THEN \* deviation: connected, but the state and its grown delay survive (the run of retries is over all the same)
              /\ infl' = [infl EXCEPT ![a] = rest]
              /\ cons' = [cons EXCEPT ![a] = 0]
              /\ UNCHANGED <<paused, closed, ex, att, idx, nd, pend, gate>>
              /\ last' = [act |-> "AttemptEnd", a |-> a, j |-> j, ok |-> ok, res |-> "connected", dev |-> "DevSuccessKeepsState"]
       ELSE IF ok \/ Exhausted(a, att[a])
         THEN /\ Forget(a)
              /\ infl' = [infl EXCEPT ![a] = Disown(rest)]
              /\ UNCHANGED <<paused, closed>>
              /\ last' = [act |-> "AttemptEnd", a |-> a, j |-> j, ok |-> ok,
                          res |-> IF ok THEN "connected" ELSE "exhausted"]
         ELSE IF paused /\ "DevNoPauseCheckInAttempt" \notin Dev
           THEN /\ infl' = [infl EXCEPT ![a] = rest]
                /\ UNCHANGED <<paused, closed, ex, att, idx, nd, cons, pend, gate>>
                /\ last' = [act |-> "AttemptEnd", a |-> a, j |-> j, ok |-> ok, res |-> "paused"]
           ELSE /\ infl' = [infl EXCEPT ![a] = rest]
                /\ IF Superseding
                     THEN Arm(a, idx[a])
                     ELSE /\ Len(pend[a]) < MaxPend
                          /\ pend' = [pend EXCEPT ![a] = Append(@, [d |-> idx[a], cur |-> TRUE])]
                          /\ UNCHANGED gate
                /\ UNCHANGED <<paused, closed, ex, att, idx, nd, cons>>
                /\ last' = [act |-> "AttemptEnd", a |-> a, j |-> j, ok |-> ok, res |-> "armed", d |-> idx[a]]

(* ---- pause / resume / reset ---------------------------------------------*)
Pause ==
  /\ IF paused \/ closed
       THEN UNCHANGED <<paused, pend>>
       ELSE paused' = TRUE /\ pend' = [a \in Addr |-> <<>>]
  /\ UNCHANGED <<closed, ex, att, idx, nd, cons, gate, infl>>
  /\ last' = [act |-> "Pause"]

Resume ==
  /\ paused' = FALSE
  /\ UNCHANGED <<closed, ex, att, idx, nd, cons, pend, gate, infl>>
  /\ last' = [act |-> "Resume"]

ForgetAll ==
  /\ ex' = [a \in Addr |-> FALSE] /\ att' = [a \in Addr |-> 0] /\ idx' = [a \in Addr |-> 0]
  /\ nd' = [a \in Addr |-> 0] /\ cons' = [a \in Addr |-> 0]
  /\ pend' = [a \in Addr |-> <<>>]
  /\ gate' = [a \in Addr |-> IF Superseding THEN Stale(gate[a]) ELSE gate[a]]
  /\ infl' = [a \in Addr |-> Disown(infl[a])]

ResetAll ==
  /\ ForgetAll
  /\ UNCHANGED <<paused, closed>>
  /\ last' = [act |-> "ResetAll"]

Cancel(a) ==
  /\ IF ex[a]
       THEN Forget(a) /\ infl' = [infl EXCEPT ![a] = Disown(@)]
       ELSE UNCHANGED <<ex, att, idx, nd, cons, pend, gate, infl>>
  /\ UNCHANGED <<paused, closed>>
  /\ last' = [act |-> "Cancel", a |-> a]

Stop ==
  /\ WithStop /\ ~closed
  /\ closed' = TRUE
  /\ ForgetAll
  /\ UNCHANGED paused
  /\ last' = [act |-> "Stop"]

(* ---- the agent ------------------------------------------------------------*)
\* peer.Manager.ReconnectAll: ResetAll ; Resume ; dial every configured peer; F = the peers whose dial fails
\* (connectWithTransport and ReconnectAll both call Schedule for them: one armed timer, index 0)
ReconnectAllBody(F) ==
  /\ paused' = FALSE
  /\ ex' = [a \in Addr |-> a \in F /\ ~closed]
  /\ att' = [a \in Addr |-> 0] /\ idx' = [a \in Addr |-> 0] /\ cons' = [a \in Addr |-> 0]
  /\ nd' = [a \in Addr |-> IF a \in F /\ ~closed THEN Initial ELSE 0]
  /\ pend' = [a \in Addr |-> IF a \in F /\ ~closed THEN <<[d |-> 0, cur |-> TRUE]>> ELSE <<>>]
  /\ gate' = [a \in Addr |-> IF Superseding THEN Stale(gate[a]) ELSE gate[a]]
  /\ infl' = [a \in Addr |-> Disown(infl[a])]
  /\ UNCHANGED closed

Running(s) == SelectSeq(s, LAMBDA x : x > 0)

AgentSleep ==
  /\ WithAgent /\ ~asleep
  /\ asleep' = TRUE
  /\ IF paused \/ closed
       THEN UNCHANGED <<paused, pend>>
       ELSE paused' = TRUE /\ pend' = [a \in Addr |-> <<>>]
  /\ UNCHANGED <<closed, ex, att, idx, nd, cons, gate, infl, aggr>>
  /\ last' = [act |-> "AgentSleep"]

AgentWake(F) ==
  /\ WithAgent /\ asleep /\ Len(aggr) < MaxAggr
  /\ asleep' = FALSE
  /\ ReconnectAllBody(F)
  /\ aggr' = Append(aggr, MaxTicks)
  /\ last' = [act |-> "AgentWake", failed |-> F, asleep |-> FALSE]

AggressiveTick(i, F) ==
  /\ WithAgent /\ i \in 1..Len(aggr)
  /\ IF asleep /\ "DevAggressiveReconnectIgnoresSleep" \notin Dev
       THEN \* the agent is no longer awake: the activity ends without touching anything
            /\ F = {}
            /\ aggr' = Running([aggr EXCEPT ![i] = 0])
            /\ UNCHANGED <<paused, closed, ex, att, idx, nd, cons, pend, gate, infl>>
            /\ last' = [act |-> "AggressiveTick", i |-> i, res |-> "stopped", asleep |-> asleep]
       ELSE /\ ReconnectAllBody(F)
            /\ aggr' = Running([aggr EXCEPT ![i] = @ - 1])
            /\ last' = [act |-> "AggressiveTick", i |-> i, res |-> "dialed", failed |-> F, asleep |-> asleep]
  /\ UNCHANGED asleep

AgentNext ==
  \/ AgentSleep
  \/ \E F \in SUBSET Addr : AgentWake(F)
  \/ \E i \in 1..MaxAggr, F \in SUBSET Addr : AggressiveTick(i, F)

ReconnectorNext ==
  \/ \E a \in Addr : Schedule(a) \/ CbSchedule(a) \/ Cancel(a)
  \/ \E a \in Addr, i \in 1..MaxPend : TimerFire(a, i)
  \/ \E a \in Addr, i \in 1..MaxGate : Release(a, i)
  \/ \E a \in Addr, j \in 1..MaxInfl, ok \in BOOLEAN : AttemptEnd(a, j, ok)
  \/ (~WithAgent /\ (Pause \/ Resume \/ ResetAll))
  \/ Stop

Next == (ReconnectorNext /\ UNCHANGED <<asleep, aggr>>) \/ AgentNext

Spec == Init /\ [][Next]_vars

(* ---- properties ---------------------------------------------------------*)
TypeOK ==
  /\ paused \in BOOLEAN /\ closed \in BOOLEAN
  /\ \A a \in Addr : /\ idx[a] \in 0..Cap
                     /\ (ex[a] => idx[a] = Min(att[a], Cap))
                     /\ (~ex[a] => att[a] = 0 /\ idx[a] = 0 /\ nd[a] = 0 /\ Len(pend[a]) = 0)

\* C31 (1): no new connection attempt starts while reconnection is paused
NoAttemptWhilePaused ==
  [][(last'.act = "Release" /\ last'.res = "begin") => ~paused]_vars
\* while paused (or stopped) no timer is pending either
NoTimerWhilePaused == (paused \/ closed) => \A a \in Addr : Len(pend[a]) = 0
\* at most one pending timer per address
OneTimer == \A a \in Addr : Len(pend[a]) <= 1
\* C31 (2): the k-th consecutive attempt waited for the delay of index min(k, Cap) ...
Backoff ==
  [][(last'.act = "Release" /\ last'.res = "begin") => last'.d = Min(last'.k, Cap)]_vars
\* ... and the delay the next timer will be armed with is min(Initial * Multiplier^k, MaxDelay), k = consecutive
\* attempts so far (the code's own counter must be that k: it restarts after a success)
NextDelayOK == \A a \in Addr : ex[a] => (nd[a] = Delay(cons[a]) /\ att[a] = cons[a])
\* C31 (1) at agent level: nothing dials while the agent is asleep, and the reconnector stays paused meanwhile
AgentNoDialWhileAsleep ==
  [][/\ ((last'.act = "AggressiveTick" /\ last'.res = "dialed") => ~asleep)
     /\ ((last'.act = "Release" /\ last'.res = "begin") => ~asleep)]_vars
AsleepPaused == asleep => (paused \/ closed)
\* every timer is armed with the state's current index
ArmIndex ==
  [][(last'.act \in {"Schedule", "CbSchedule", "AttemptEnd"} /\ last'.res = "armed") => last'.d = Min(att[last'.a], Cap)]_vars

EmitEdge ==
  Emit => PrintT("EDGE " \o ToJson([
            s |-> [paused |-> paused, closed |-> closed, ex |-> ex, att |-> att, idx |-> idx, nd |-> nd,
                   pend |-> pend, gate |-> gate, infl |-> infl, asleep |-> asleep, aggr |-> aggr],
            a |-> last',
            t |-> [paused |-> paused', closed |-> closed', ex |-> ex', att |-> att', idx |-> idx', nd |-> nd',
                   pend |-> pend', gate |-> gate', infl |-> infl', asleep |-> asleep', aggr |-> aggr']]))
=============================================================================
