------------------------------ MODULE Socks5Req ------------------------------
(***************************************************************************)
(* SOCKS5 request handling as a function (C23):                            *)
(*     request bytes (possibly truncated)  |->  reply code, executed cmd   *)
(* The module defines                                                      *)
(*   - the bounded input domain: request SHAPES = version x command byte x *)
(*     address type x address length x address class x port x truncation   *)
(*     offset (every offset for the base shapes, the structural boundaries *)
(*     for the variants) x environment (UDP/ICMP handlers enabled or not); *)
(*   - the ORACLE taken from the property statement: which reply codes     *)
(*     and which executions are acceptable for a shape (sets: the          *)
(*     statement leaves choices);                                          *)
(*   - IMPL, a transcription of Handler.readRequest + the dispatch in      *)
(*     Handler.Handle (internal/socks5/handler.go).                        *)
(* TLC checks Impl against the oracle on every shape and prints one VEC    *)
(* record per shape; the Go harness materialises the bytes, runs the real  *)
(* handler and compares with the oracle (verdict) and with Impl (binding). *)
(* The byte-level parts of the oracle (reply grammar, "dials exactly the   *)
(* encoded address") are evaluated by the harness on the real bytes.       *)
(***************************************************************************)
EXTENDS Naturals, Sequences, FiniteSets, TLC, Json

CONSTANTS Size,   \* "quick" | "thorough"
          Dev     \* deviations of the transcription (sensitivity of the oracle)

DevNames == {"DevUnsupportedAtypAsCommand",   \* reply 7 instead of 8 for an unsupported address type
             "DevExecuteBeforePort"}          \* CONNECT dispatched although the port bytes are missing
ASSUME Dev \subseteq DevNames

Quick == Size = "quick"
NoRep == 99      \* "no reply written"

CmdBytes  == IF Quick THEN {0, 1, 2, 3, 4, 9} ELSE {0, 1, 2, 3, 4, 5, 9, 255}
AtypBytes == IF Quick THEN {0, 1, 2, 3, 4, 5} ELSE {0, 1, 2, 3, 4, 5, 255}
DomLens   == IF Quick THEN {0, 1, 11, 255} ELSE {0, 1, 2, 11, 63, 128, 255}
Ports     == IF Quick THEN {0, 80, 65535} ELSE {0, 80, 443, 65535}
Envs      == {"all", "none"}   \* UDP and ICMP handlers enabled / disabled

Classes(atyp) ==
  CASE atyp = 1 -> {"rand", "zero", "loop", "bcast"}
    [] atyp = 4 -> {"rand", "zero", "loop", "mapped"}
    [] atyp = 3 -> {"alnum", "colon", "ip4text", "ip6text", "nul", "utf8", "space", "punct",
                    "bracketed",    \* "[name]": as a host:port string it reads as "name"
                    "unbalanced"}   \* "n]ame": cannot be written as host:port at all
    [] OTHER -> {"junk"}
BaseClass(atyp) == CASE atyp \in {1, 4} -> "rand" [] atyp = 3 -> "alnum" [] OTHER -> "junk"
Lens(atyp) == CASE atyp = 1 -> {4} [] atyp = 4 -> {16} [] atyp = 3 -> DomLens [] OTHER -> {6}

SupportedAtyp(a) == a \in {1, 3, 4}
\* bytes after the 4-byte header up to the end of the port (for unsupported types: 6 arbitrary bytes follow)
TailLen(atyp, alen) == IF atyp = 3 THEN 1 + alen + 2 ELSE IF SupportedAtyp(atyp) THEN alen + 2 ELSE alen
Total(atyp, alen) == 4 + TailLen(atyp, alen)

Shape(v, c, a, l, cl, p, k, e) ==
  [ver |-> v, cmd |-> c, atyp |-> a, alen |-> l, acls |-> cl, port |-> p, cut |-> k, env |-> e]

KeyCuts(a, l) == {0, 1, 3, 4, 5, Total(a, l) - 3, Total(a, l) - 2, Total(a, l) - 1, Total(a, l)} \cap 0..Total(a, l)

ClassesFor(a, l) == IF a = 3 /\ l = 0 THEN {"alnum"}
                    ELSE IF a = 3 /\ l < 3 THEN Classes(a) \ {"ip4text", "ip6text", "bracketed"}
                    ELSE IF a = 3 /\ l # 11 THEN Classes(a) \ {"ip4text", "ip6text"}
                    ELSE Classes(a)

\* in the quick instance only one dimension at a time leaves its base value
QuickOK(v, a, cl, p, e) ==
  /\ (v = 5 \/ (p = 80 /\ cl = BaseClass(a) /\ e = "all"))
  /\ (p = 80 \/ (cl = BaseClass(a) /\ e = "all"))

ShapesFor(c, a, l) ==
  \* base shapes: every truncation offset
  {Shape(5, c, a, l, BaseClass(a), 80, k, "all") : k \in 0..Total(a, l)}
  \cup
  \* variants: version, address class, port, environment at the structural boundaries
  {sh \in {Shape(v, c, a, l, cl, p, k, e) : v \in {5, 4}, cl \in ClassesFor(a, l), p \in Ports,
                                            k \in KeyCuts(a, l), e \in Envs} :
      /\ Quick => QuickOK(sh.ver, a, sh.acls, sh.port, sh.env)
      /\ (sh.ver = 5 \/ (sh.port = 80 /\ sh.acls = BaseClass(a) /\ sh.env = "all"))}

Domain == UNION {UNION {ShapesFor(c, a, l) : l \in Lens(a)} : c \in CmdBytes, a \in AtypBytes}

(* ---- predicates of the statement ------------------------------------------*)
Complete(s)  == s.cut = Total(s.atyp, s.alen)
Valid(s)     == s.ver = 5 /\ SupportedAtyp(s.atyp) /\ ~(s.atyp = 3 /\ s.alen = 0)
KnownCmd(c)  == c \in {1, 3, 4}        \* CONNECT, UDP ASSOCIATE, ICMP ECHO (custom)
CmdName(c)   == CASE c = 1 -> "connect" [] c = 3 -> "udp" [] c = 4 -> "icmp" [] OTHER -> "none"
AnyRep       == (0..8) \cup {NoRep}

\* acceptable reply codes
AllowedReps(s) ==
  IF s.ver # 5 \/ s.cut < 4 THEN AnyRep \ {0}
  ELSE IF ~SupportedAtyp(s.atyp) THEN (IF KnownCmd(s.cmd) THEN {8} ELSE {7, 8})   \* unsupported address type
  ELSE IF ~Complete(s) THEN AnyRep \ {0}                                           \* nothing to succeed on
  ELSE IF ~Valid(s) THEN AnyRep \ {0}                                              \* zero-length domain name
  ELSE IF ~KnownCmd(s.cmd) THEN {7}                                                \* unsupported command
  ELSE IF s.cmd \in {3, 4} /\ s.env = "none" THEN {7, 2, 1}                        \* command switched off
  ELSE AnyRep
\* acceptable executions: only a complete, valid request with a supported command may reach the mesh
AllowedExec(s) ==
  IF Complete(s) /\ Valid(s) /\ KnownCmd(s.cmd) /\ (s.cmd = 1 \/ s.env = "all")
    THEN {"none", CmdName(s.cmd)} ELSE {"none"}

(* ---- transcription of the implementation -----------------------------------*)
Out(r, x) == [rep |-> r, exec |-> x]
Impl(s) ==
  IF s.cut < 4 THEN Out(NoRep, "none")                         \* io.ReadFull(header) fails
  ELSE IF s.ver # 5 THEN Out(NoRep, "none")                    \* "unsupported SOCKS version"
  ELSE IF ~SupportedAtyp(s.atyp)                               \* default branch of the address switch
    THEN Out(IF "DevUnsupportedAtypAsCommand" \in Dev THEN 7 ELSE 8, "none")
  ELSE IF s.atyp = 3 /\ s.cut < 5 THEN Out(NoRep, "none")      \* length byte missing
  ELSE IF s.atyp = 3 /\ s.alen = 0 THEN Out(1, "none")         \* "invalid zero-length domain name"
  ELSE IF ~Complete(s)                                         \* address or port truncated
    THEN (IF "DevExecuteBeforePort" \in Dev /\ s.cmd = 1 /\ s.cut + 2 >= Total(s.atyp, s.alen)
            THEN Out(0, "connect") ELSE Out(NoRep, "none"))
  ELSE CASE s.cmd = 1 -> IF s.acls \in {"bracketed", "unbalanced"}
                           THEN Out(4, "none")                  \* name does not survive the host:port encoding
                           ELSE Out(0, "connect")               \* the harness' dialer succeeds
         [] s.cmd = 3 -> IF s.env = "all" THEN Out(0, "udp") ELSE Out(7, "none")
         [] s.cmd = 4 -> IF s.env = "none" THEN Out(7, "none")
                         ELSE IF s.atyp = 3 \/ s.acls = "zero" THEN Out(8, "none")   \* ICMP needs a specified IP
                         ELSE Out(0, "icmp")
         [] OTHER -> Out(7, "none")

(* ---- enumeration --------------------------------------------------------------*)
VARIABLE v
Init == v \in Domain
Next == UNCHANGED v

ImplMeetsOracle == Impl(v).rep \in AllowedReps(v) /\ Impl(v).exec \in AllowedExec(v)
\* the oracle is not vacuous: it constrains something for this shape, or the shape may execute
EmitVec == PrintT("VEC " \o ToJson([s |-> v, impl |-> Impl(v), reps |-> AllowedReps(v), execs |-> AllowedExec(v)]))
=============================================================================
