CONSTANTS Scope = "trace" Dev = {} Emit = FALSE MaxDgrams = 1000000 MaxReplies = 1000000
INIT TraceInit
NEXT TraceNext
CONSTRAINT HighWater
INVARIANTS ExecRequiresAuth NoAuthOnlyWhenOff AuthedIsGenuine OnlyOwnerRelayed RepliesOnlyToOwner ClientIsOwner OneReply
POSTCONDITION TraceAccepted
