------------------------------- MODULE System -------------------------------
(***************************************************************************)
(* COMPOSED SYSTEM MODEL: a small mesh of whole Muti-Metroo agents.  The   *)
(* state is the product of what PeerReg, Flood, Relay and SleepFSM describe *)
(* separately, at a coarser grain, with the things they share made          *)
(* explicit: agents, potential links, and CONNECTION GENERATIONS.           *)
(*                                                                         *)
(*   connections (PeerReg)  gen[l]   connections made so far on link l      *)
(*                          live[l]  generation of the transport connection *)
(*                                   that is alive (0 = none)               *)
(*                          reg[a][b] generation registered at a for peer b *)
(*                                   (peer.Manager.peers), 0 = none         *)
(*                          gone     <<a,b,g>>: a's connection g to b died, *)
(*                                   handleDisconnect(+agent callback) at a *)
(*                                   has not run yet                        *)
(*                          torn     subset of gone: the clean-up of that   *)
(*                                   connection has already been done when  *)
(*                                   the peer was registered again (a       *)
(*                                   connection the agent dropped itself -  *)
(*                                   Sleep - and that reconnected before    *)
(*                                   its read loop reported: peer.Manager   *)
(*                                   .awaitingTeardown); the late PeerGone  *)
(*                                   is a no-op                             *)
(*                          pend     <<a,b>>: handlePeerConnected at a for  *)
(*                                   b has not run yet (SendFullTable)      *)
(*   routes (Flood)         ctr, seen, tbl; entries                          *)
(*                          [o, r ("x" exit route | "p" presence), nh, g,    *)
(*                           path, seq]; g = generation of the connection    *)
(*                          the entry was learned over; metric = Len(path)  *)
(*   tunnels (Relay)        tun[t] endpoint view of tunnel t, ingr[a] /     *)
(*                          relay[a] / exr[a] = ingress stream records,      *)
(*                          relay entries [t, up, ug, dn, dg], exit          *)
(*                          connection records [t, peer, g]; the generation  *)
(*                          tags are ghosts (the code keys by identity and   *)
(*                          bare stream id).  Tables are keyed by (peer, t): *)
(*                          stream ids never collide here - the bare-id     *)
(*                          collisions are the subject of Relay.tla (C16).  *)
(*   sleep (SleepFSM)       awake[a]; wann[a] = exitSleep still owes its    *)
(*                          AnnounceLocalRoutes                              *)
(*   network                q[<<a,b>>] FIFO queue of frames a -> b; a frame  *)
(*                          carries the generation g of the connection it   *)
(*                          was written to                                  *)
(*                                                                         *)
(* System-level actions (one per operation of an agent / the environment): *)
(*   Connect(l)        a new connection on link l is registered at both ends*)
(*   LinkFail(l)       the transport connection dies; frames in flight lost *)
(*   PeerGone(a,b,g)   a's read loop notices: handleDisconnect +            *)
(*                     handlePeerDisconnect (each end separately)           *)
(*   Replay(a,b)       handlePeerConnected: SendFullTable                   *)
(*   Announce(a)       AnnounceLocalRoutes (TriggerRouteAdvertise / timer)  *)
(*   Deliver(s,d)      d processes the head frame of s -> d                 *)
(*   OpenTunnel(t,i,x) Agent.Dial at i towards the exit route of x          *)
(*   TunnelData(t,dir) the ingress application writes one unit / the target *)
(*                     (an echo server) answers one unit                    *)
(*   CloseTunnel(t)    meshConn.Close at the ingress                        *)
(*   OpenTimeout(t)    pending open given up; ExitIdle: orphaned exit record*)
(*                     reclaimed by the handler's idle timeout              *)
(*   Sleep(a), Wake(a), WakeAnnounce(a)   enterSleep (DisconnectAll),       *)
(*                     exitSleep (reconnect = later Connect steps,          *)
(*                     re-announce)                                         *)
(*   ExpireRoutes(a)   CleanupStale*Routes after the route TTL              *)
(*                                                                         *)
(* What the code does and the model keeps: routes of a lost peer stay until*)
(* that end's PeerGone; a replayed announcement that the receiver has      *)
(* already seen is dropped - the disconnect handling therefore forgets the *)
(* seen-cache entries of the routes it removes (since 0a48014), so that    *)
(* the table replay of the reconnecting peer restores them; a route lost   *)
(* at b is NOT restored from another neighbour that still holds it (no     *)
(* replay without a reconnect): it comes back with the origin's next       *)
(* announcement; frames are sent BY IDENTITY over whatever connection is   *)
(* registered; nobody tells the endpoints of a tunnel that a hop was lost: *)
(* ingress stream records live until the application closes, exit records  *)
(* until the next failed write / idle timeout.  Such a left-over record is *)
(* DEAD in the design described here: data is handed to an endpoint record *)
(* only when it arrives over the connection the record was created on.     *)
(*                                                                         *)
(* Deviations (Dev): DevRouteKeptAfterDisconnect, DevRelayKeptAfterDisconnect,*)
(* DevTunnelOverUnregistered (frames of a dead connection are still        *)
(* processed), DevSkipCleanupWhenSuperseded (registration does not finish   *)
(* the clean-up of a connection the agent dropped itself, and the late      *)
(* disconnect callback is skipped because a newer connection of the same    *)
(* identity is registered - the code before 3c80d8e, see PeerReg.tla /      *)
(* peer.Manager.handleDisconnect),                                          *)
(* DevSleepKeepsConnections, DevRelayDuplicatesData,                       *)
(* DevNoForwardToReconnected (flooding uses the peer set of start-up),     *)
(* DevEndpointSurvivesReconnect (an ingress / exit record whose connection *)
(* is gone still takes data that arrives over the NEXT connection of the   *)
(* same peer - the pinned code finds the record by the bare stream id; a   *)
(* one-hop tunnel goes on after a reconnect, without what was in flight).  *)
(***************************************************************************)
EXTENDS Integers, Sequences, FiniteSets, TLC, Json

CONSTANTS Agent,        \* agent names
          LinkSets,     \* alternatives for the set of potential links ({a,b} sets)
          ExitSets,     \* alternatives for the set of agents with an exit route (one CIDR each) + exit handler
          SleeperSets,  \* alternatives for the set of agents with sleep mode enabled
          IngressSets,  \* alternatives for the set of agents whose application opens tunnels
          MaxGen,       \* connections per link
          MaxAnn,       \* explicit announcements (all agents together)
          MaxFail,      \* link failures
          MaxSleep,     \* Sleep calls
          MaxTun,       \* tunnels
          MaxData,      \* data units per tunnel written by the ingress application
          MaxExpire,    \* route TTL clean-ups
          QuietOnly,    \* names of environment actions that are taken only when the mesh is quiescent (bounds the
                        \* interleavings of the smaller instances; {} = every interleaving)
          Dev

DevNames == {"DevRouteKeptAfterDisconnect", "DevRelayKeptAfterDisconnect", "DevTunnelOverUnregistered",
             "DevSkipCleanupWhenSuperseded", "DevSleepKeepsConnections", "DevRelayDuplicatesData",
             "DevNoForwardToReconnected", "DevEndpointSurvivesReconnect"}
ASSUME Dev \subseteq DevNames

Pairs == {p \in SUBSET Agent : Cardinality(p) = 2}
Dirs  == {d \in Agent \X Agent : d[1] # d[2]}
Tunnels == 1..MaxTun

VARIABLES topo,    \* [links, exits, sleepers, ingress]; never changes (a variable so that recorded executions with
                   \* different set-ups are validated in one TLC run)
          awake, wann, gen, live, reg, gone, torn, pend,
          ctr, seen, tbl, clean,
          q,
          tun, relay, ingr, exr, sentN, rcvX, echoN, rcvI,
          bud, last

connVars  == <<topo, awake, wann, gen, live, reg, gone, torn, pend>>
floodVars == <<ctr, seen, tbl, clean>>
tunVars   == <<tun, relay, ingr, exr, sentN, rcvX, echoN, rcvI>>
vars == <<connVars, floodVars, q, tunVars, bud, last>>
view == <<connVars, floodVars, q, tunVars, bud>>

Range(s) == {s[i] : i \in 1..Len(s)}
RECURSIVE SetToSeq(_)
SetToSeq(S) == IF S = {} THEN <<>> ELSE LET x == CHOOSE x \in S : TRUE IN <<x>> \o SetToSeq(S \ {x})

NoTun == [st |-> "idle", i |-> "-", x |-> "-", nh |-> "-", g |-> 0, path |-> <<>>]

\* the initial values of all variables for the set-up tp
Blank(tp) ==
  [topo |-> tp,
   awake |-> [a \in Agent |-> TRUE], wann |-> [a \in Agent |-> FALSE],
   gen |-> [p \in Pairs |-> 0], live |-> [p \in Pairs |-> 0],
   reg |-> [a \in Agent |-> [b \in Agent |-> 0]],
   ctr |-> [a \in Agent |-> 0], seen |-> [a \in Agent |-> {}], tbl |-> [a \in Agent |-> {}],
   clean |-> [a \in Agent |-> FALSE],
   q |-> [d \in Dirs |-> <<>>],
   tun |-> [t \in Tunnels |-> NoTun],
   none |-> [a \in Agent |-> {}],
   zero |-> [t \in Tunnels |-> 0], nil |-> [t \in Tunnels |-> <<>>],
   bud |-> [ann |-> 0, fail |-> 0, sleep |-> 0, exp |-> 0]]

InitWith(tp) ==
  LET b == Blank(tp) IN
  /\ topo = b.topo /\ awake = b.awake /\ wann = b.wann /\ gen = b.gen /\ live = b.live /\ reg = b.reg
  /\ gone = {} /\ torn = {} /\ pend = {}
  /\ ctr = b.ctr /\ seen = b.seen /\ tbl = b.tbl /\ clean = b.clean /\ q = b.q
  /\ tun = b.tun /\ relay = b.none /\ ingr = b.none /\ exr = b.none
  /\ sentN = b.zero /\ echoN = b.zero /\ rcvX = b.nil /\ rcvI = b.nil
  /\ bud = b.bud
  /\ last = [act |-> "Init"]

\* the same as a step (trace validation: a new recorded execution starts)
ResetTo(tp) ==
  LET b == Blank(tp) IN
  /\ topo' = b.topo /\ awake' = b.awake /\ wann' = b.wann /\ gen' = b.gen /\ live' = b.live /\ reg' = b.reg
  /\ gone' = {} /\ torn' = {} /\ pend' = {}
  /\ ctr' = b.ctr /\ seen' = b.seen /\ tbl' = b.tbl /\ clean' = b.clean /\ q' = b.q
  /\ tun' = b.tun /\ relay' = b.none /\ ingr' = b.none /\ exr' = b.none
  /\ sentN' = b.zero /\ echoN' = b.zero /\ rcvX' = b.nil /\ rcvI' = b.nil
  /\ bud' = b.bud
  /\ last' = [act |-> "Init"]

Init == \E l \in LinkSets, x \in ExitSets, s \in SleeperSets, i \in IngressSets :
          InitWith([links |-> l, exits |-> x, sleepers |-> s, ingress |-> i])

(* ---- sending: by identity, over the connection registered now ------------*)
CanSend(a, b) == reg[a][b] > 0 /\ live[{a, b}] = reg[a][b]
Put(qq, a, b, m) == IF CanSend(a, b) THEN [qq EXCEPT ![<<a, b>>] = Append(@, [m EXCEPT !.g = reg[a][b]])] ELSE qq
\* one frame mk(n) to every agent n of T
PutSet(qq, a, T, mk(_)) ==
  [d \in Dirs |-> IF d[1] = a /\ d[2] \in T /\ CanSend(a, d[2])
                  THEN Append(qq[d], [mk(d[2]) EXCEPT !.g = reg[a][d[2]]]) ELSE qq[d]]
RECURSIVE PutSeq(_, _, _, _)
PutSeq(qq, a, b, ms) == IF ms = <<>> THEN qq ELSE PutSeq(Put(qq, a, b, Head(ms)), a, b, Tail(ms))

Adv(o, sq, path, sb, rs) == [k |-> "adv", g |-> 0, o |-> o, seq |-> sq, path |-> path, sb |-> sb, rs |-> rs]
OwnRoutes(o) == IF o \in topo.exits THEN {"x", "p"} ELSE {"p"}

(* ---- connections ----------------------------------------------------------*)
\* what handlePeerDisconnect removes at a for the connections G (generations) to peer b: relay entries, routes, and
\* the seen-cache entries of the announcements those routes came from (so that the peer's table replay can restore them)
codeLike == "DevSkipCleanupWhenSuperseded" \in Dev       \* the clean-up is keyed by identity, as in the code
RmRoutes(a, b, G) == {e \in tbl[a] : e.nh = b /\ (codeLike \/ e.g \in G)}
RmRelays(a, b, G) == {e \in relay[a] : (e.up = b /\ (codeLike \/ e.ug \in G)) \/ (e.dn = b /\ (codeLike \/ e.dg \in G))}
TblAfter(a, b, G) == IF "DevRouteKeptAfterDisconnect" \in Dev THEN tbl[a] ELSE tbl[a] \ RmRoutes(a, b, G)
SeenAfter(a, b, G) == IF "DevRouteKeptAfterDisconnect" \in Dev THEN seen[a] ELSE seen[a] \ {<<e.o, e.seq>> : e \in RmRoutes(a, b, G)}
RelayAfter(a, b, G) == IF "DevRelayKeptAfterDisconnect" \in Dev THEN relay[a] ELSE relay[a] \ RmRelays(a, b, G)

\* connections of a to b that a dropped itself and whose disconnect handling has not run yet (reg[a][b] = 0 already)
Dropped(a, b) == {x \in gone \ torn : x[1] = a /\ x[2] = b}

(* A new connection on link l is registered at both ends (registerConnection).  An end that still has a dropped, not *)
(* yet torn down connection to this peer first runs that connection's disconnect clean-up: afterwards its late        *)
(* handleDisconnect would count as superseded and could not clean up any more.                                       *)
Connect(l) ==
  /\ l \in topo.links /\ live[l] = 0 /\ gen[l] < MaxGen
  /\ \A a \in l : awake[a]
  /\ \A a \in l, b \in l : a # b => reg[a][b] = 0         \* a dial is rejected while the old connection is registered
  /\ "DevTunnelOverUnregistered" \in Dev \/ \A a \in l, b \in l : a # b => q[<<a, b>>] = <<>>
  /\ LET g == gen[l] + 1
         Oth(a) == CHOOSE b \in l : b # a
         D(a) == IF a \in l /\ ~codeLike THEN Dropped(a, Oth(a)) ELSE {}
         G(a) == {x[3] : x \in D(a)}
     IN
     /\ gen' = [gen EXCEPT ![l] = g]
     /\ live' = [live EXCEPT ![l] = g]
     /\ reg' = [a \in Agent |-> [b \in Agent |-> IF a \in l /\ b \in l /\ a # b THEN g ELSE reg[a][b]]]
     /\ torn' = torn \cup UNION {D(a) : a \in l}
     /\ tbl' = [a \in Agent |-> IF D(a) # {} THEN TblAfter(a, Oth(a), G(a)) ELSE tbl[a]]
     /\ seen' = [a \in Agent |-> IF D(a) # {} THEN SeenAfter(a, Oth(a), G(a)) ELSE seen[a]]
     /\ relay' = [a \in Agent |-> IF D(a) # {} THEN RelayAfter(a, Oth(a), G(a)) ELSE relay[a]]
     /\ last' = [act |-> "Connect", l |-> l, g |-> g, tornDown |-> UNION {D(a) : a \in l}]
  /\ pend' = pend \cup ({<<a, b>> : a \in l, b \in l} \ {<<a, a>> : a \in l})
  /\ clean' = [a \in Agent |-> FALSE]
  /\ UNCHANGED <<topo, awake, wann, gone, ctr, q, tun, ingr, exr, sentN, rcvX, echoN, rcvI, bud>>

KeepStale == "DevTunnelOverUnregistered" \in Dev
\* frames in flight on a dead connection are lost (the deviation keeps the tunnel frames: they are processed later
\* although their connection is no longer the registered one)
Lost(s) == IF KeepStale THEN SelectSeq(s, LAMBDA m : m.k # "adv") ELSE <<>>
EmptyLink(qq, l) == [d \in Dirs |-> IF {d[1], d[2]} = l THEN Lost(qq[d]) ELSE qq[d]]

LinkFail(l) ==
  /\ l \in topo.links /\ live[l] > 0 /\ bud.fail < MaxFail
  /\ live' = [live EXCEPT ![l] = 0]
  /\ gone' = gone \cup {x \in {<<a, b, live[l]>> : a \in l, b \in l} : x[1] # x[2] /\ reg[x[1]][x[2]] = live[l]}
  /\ q' = EmptyLink(q, l)
  /\ clean' = [a \in Agent |-> FALSE]
  /\ bud' = [bud EXCEPT !.fail = @ + 1]
  /\ last' = [act |-> "LinkFail", l |-> l, g |-> live[l]]
  /\ UNCHANGED <<topo, awake, wann, gen, reg, torn, pend, ctr, seen, tbl, tunVars>>

\* handleDisconnect(conn g) + handlePeerDisconnect at a for peer b
PeerGone(a, b, g) ==
  /\ <<a, b, g>> \in gone
  /\ gone' = gone \ {<<a, b, g>>}
  /\ torn' = torn \ {<<a, b, g>>}
  /\ IF <<a, b, g>> \in torn
     THEN \* the clean-up was done when b was registered again: nothing is left to do
          /\ UNCHANGED <<reg, pend, tbl, seen, relay>>
          /\ last' = [act |-> "PeerGone", a |-> a, b |-> b, g |-> g, superseded |-> TRUE, done |-> TRUE]
     ELSE LET superseded == reg[a][b] \notin {0, g}
              skip == codeLike /\ superseded          \* (the callback is not run for a superseded connection)
          IN /\ reg' = [reg EXCEPT ![a][b] = IF @ = g THEN 0 ELSE @]
             /\ pend' = IF reg[a][b] = g THEN pend \ {<<a, b>>} ELSE pend
             /\ tbl' = IF skip THEN tbl ELSE [tbl EXCEPT ![a] = TblAfter(a, b, {g})]
             /\ seen' = IF skip THEN seen ELSE [seen EXCEPT ![a] = SeenAfter(a, b, {g})]
             /\ relay' = IF skip THEN relay ELSE [relay EXCEPT ![a] = RelayAfter(a, b, {g})]
             /\ last' = [act |-> "PeerGone", a |-> a, b |-> b, g |-> g, superseded |-> superseded, done |-> FALSE]
  /\ UNCHANGED <<topo, awake, wann, gen, live, ctr, clean, q, tun, ingr, exr, sentN, rcvX, echoN, rcvI, bud>>

(* ---- flooding ---------------------------------------------------------------*)
Nbrs(a) == {b \in Agent \ {a} : reg[a][b] > 0}

AnnounceBody(o) ==
  /\ ctr' = [ctr EXCEPT ![o] = @ + 1]
  /\ q' = PutSet(q, o, Nbrs(o), LAMBDA n : Adv(o, ctr[o] + 1, <<o>>, <<o>>, OwnRoutes(o)))
  /\ clean' = [clean EXCEPT ![o] = TRUE]

Announce(o) ==
  /\ bud.ann < MaxAnn
  /\ AnnounceBody(o)
  /\ bud' = [bud EXCEPT !.ann = @ + 1]
  /\ last' = [act |-> "Announce", a |-> o]
  /\ UNCHANGED <<connVars, seen, tbl, tunVars>>

Key(e) == IF e.r = "p" THEN <<e.o, "p", e.nh>> ELSE <<e.o, "x", "-">>
Accept(c, e) == c.seq > e.seq \/ (c.seq = e.seq /\ Len(c.path) < Len(e.path))
Store(T, s, m) ==
  LET C == {[o |-> m.o, r |-> r, nh |-> s, g |-> m.g, path |-> m.path, seq |-> m.seq] : r \in m.rs}
      acc == {c \in C : \A e \in T : Key(e) = Key(c) => Accept(c, e)}
  IN {e \in T : \A c \in acc : Key(c) # Key(e)} \cup acc

DeliverAdv(s, d, m, rest) ==
  /\ IF <<m.o, m.seq>> \in seen[d]
     THEN /\ q' = rest /\ UNCHANGED <<seen, tbl>>
          /\ last' = [act |-> "Deliver", k |-> "adv", s |-> s, d |-> d, res |-> "seen"]
     ELSE /\ seen' = [seen EXCEPT ![d] = @ \cup {<<m.o, m.seq>>}]
          /\ IF d \in Range(m.sb) \/ m.o = d \/ d \in Range(m.path)
             THEN /\ q' = rest /\ UNCHANGED tbl
                  /\ last' = [act |-> "Deliver", k |-> "adv", s |-> s, d |-> d, res |-> "loop"]
             ELSE LET sb2 == Append(m.sb, d)
                      T == {n \in Nbrs(d) \ {s} : n \notin Range(sb2)
                                                   /\ ("DevNoForwardToReconnected" \in Dev => reg[d][n] <= 1)}
                  IN /\ tbl' = [tbl EXCEPT ![d] = Store(@, s, m)]
                     /\ q' = PutSet(rest, d, T, LAMBDA n : Adv(m.o, m.seq, <<d>> \o m.path, sb2, m.rs))
                     /\ last' = [act |-> "Deliver", k |-> "adv", s |-> s, d |-> d, res |-> "new"]
  /\ UNCHANGED <<connVars, ctr, clean, tunVars, bud>>

(* SendFullTable(p) at n: own exit routes as a genuine announcement under a *)
(* fresh sequence (never the own presence route); learned routes with next  *)
(* hop # p per original announcement <<origin, seq>>, path <<n>> \o stored   *)
(* path (of the exit-route entry, else of a best presence entry).           *)
Replay(n, p) ==
  /\ <<n, p>> \in pend
  /\ pend' = pend \ {<<n, p>>}
  /\ LET E == {e \in tbl[n] : e.nh # p}
         G == {<<e.o, e.seq>> : e \in E}
         Ents(g) == {e \in E : e.o = g[1] /\ e.seq = g[2]}
         Src(g) == LET X == {e \in Ents(g) : e.r = "x"}
                       P == {e \in Ents(g) : e.r = "p"}
                   IN IF X # {} THEN {e.path : e \in X}
                      ELSE {e.path : e \in {x \in P : \A y \in P : Len(x.path) <= Len(y.path)}}
         Amb == {g \in G : Cardinality(Src(g)) > 1}
         own == IF n \in topo.exits THEN <<Adv(n, ctr[n] + 1, <<n>>, <<n>>, {"x"})>> ELSE <<>>
     IN \E amb \in [Amb -> UNION {Src(g) : g \in Amb}] :
          /\ \A g \in Amb : amb[g] \in Src(g)
          /\ LET pth(g) == IF g \in Amb THEN amb[g] ELSE CHOOSE x \in Src(g) : TRUE
                 msgs == {Adv(g[1], g[2], <<n>> \o pth(g), <<n>>, {e.r : e \in Ents(g)}) : g \in G}
             IN q' = PutSeq(q, n, p, own \o SetToSeq(msgs))
  /\ ctr' = IF n \in topo.exits /\ CanSend(n, p) THEN [ctr EXCEPT ![n] = @ + 1] ELSE ctr
  /\ last' = [act |-> "Replay", a |-> n, b |-> p]
  /\ UNCHANGED <<topo, awake, wann, gen, live, reg, gone, torn, seen, tbl, clean, tunVars, bud>>

ExpireRoutes(a) ==
  /\ bud.exp < MaxExpire /\ tbl[a] # {}
  /\ tbl' = [tbl EXCEPT ![a] = {}]
  /\ clean' = [x \in Agent |-> FALSE]
  /\ bud' = [bud EXCEPT !.exp = @ + 1]
  /\ last' = [act |-> "ExpireRoutes", a |-> a]
  /\ UNCHANGED <<connVars, ctr, seen, q, tunVars>>

(* ---- tunnels ------------------------------------------------------------------*)
Msg(k, t) == [k |-> k, g |-> 0, t |-> t]
OpenMsg(t, rem) == [k |-> "open", g |-> 0, t |-> t, rem |-> rem]
DataMsg(t, dir, n) == [k |-> "data", g |-> 0, t |-> t, dir |-> dir, n |-> n]
NextIdle(t) == tun[t].st = "idle" /\ \A u \in Tunnels : u < t => tun[u].st # "idle"

\* Agent.Dial: route lookup; no route or next hop not connected -> direct dial (no tunnel)
RouteTo(i, x) == {e \in tbl[i] : e.o = x /\ e.r = "x"}
OpenTunnel(t, i, x) ==
  /\ NextIdle(t) /\ i \in topo.ingress /\ x \in topo.exits /\ i # x
  /\ RouteTo(i, x) # {}
  /\ LET e == CHOOSE e \in RouteTo(i, x) : TRUE IN
     /\ reg[i][e.nh] > 0
     /\ IF CanSend(i, e.nh)
        THEN /\ tun' = [tun EXCEPT ![t] = [st |-> "opening", i |-> i, x |-> x, nh |-> e.nh, g |-> reg[i][e.nh], path |-> e.path]]
             /\ q' = Put(q, i, e.nh, OpenMsg(t, Tail(e.path)))
        ELSE /\ tun' = [tun EXCEPT ![t] = [NoTun EXCEPT !.st = "failed", !.i = i, !.x = x]]    \* the write fails
             /\ q' = q
     /\ last' = [act |-> "OpenTunnel", t |-> t, i |-> i, x |-> x, res |-> "mesh", awake |-> awake[i]]
  /\ UNCHANGED <<connVars, floodVars, relay, ingr, exr, sentN, rcvX, echoN, rcvI, bud>>

UpEntry(d, s, t) == {e \in relay[d] : e.t = t /\ e.up = s}
DnEntry(d, s, t) == {e \in relay[d] : e.t = t /\ e.dn = s}

DeliverOpen(s, d, m, rest) ==
  /\ IF m.rem = <<>> \/ m.rem = <<d>>
     THEN \* exit: exit.Handler.HandleStreamOpen (dial, record, ACK); the record is dropped when the ACK cannot be written
          /\ IF CanSend(d, s) /\ d \in topo.exits
             THEN /\ exr' = [exr EXCEPT ![d] = @ \cup {[t |-> m.t, peer |-> s, g |-> m.g]}]
                  /\ q' = Put(rest, d, s, Msg("ack", m.t))
             ELSE /\ q' = rest /\ UNCHANGED exr
          /\ UNCHANGED relay
          /\ last' = [act |-> "Deliver", k |-> "open", s |-> s, d |-> d, res |-> "exit"]
     ELSE LET nh == Head(m.rem) IN
          IF CanSend(d, nh)
          THEN /\ relay' = [relay EXCEPT ![d] = @ \cup {[t |-> m.t, up |-> s, ug |-> m.g, dn |-> nh, dg |-> reg[d][nh]]}]
               /\ q' = Put(rest, d, nh, OpenMsg(m.t, Tail(m.rem)))
               /\ UNCHANGED exr
               /\ last' = [act |-> "Deliver", k |-> "open", s |-> s, d |-> d, res |-> "relay"]
          ELSE /\ q' = Put(rest, d, s, Msg("err", m.t))
               /\ UNCHANGED <<relay, exr>>
               /\ last' = [act |-> "Deliver", k |-> "open", s |-> s, d |-> d, res |-> "no-next-hop"]
  /\ UNCHANGED <<connVars, floodVars, tun, ingr, sentN, rcvX, echoN, rcvI, bud>>

DeliverAckErr(s, d, m, rest) ==
  /\ IF DnEntry(d, s, m.t) # {}
     THEN LET e == CHOOSE e \in DnEntry(d, s, m.t) : TRUE IN
          /\ q' = Put(rest, d, e.up, Msg(m.k, m.t))
          /\ relay' = IF m.k = "err" THEN [relay EXCEPT ![d] = @ \ {e}] ELSE relay
          /\ UNCHANGED <<tun, ingr>>
          /\ last' = [act |-> "Deliver", k |-> m.k, s |-> s, d |-> d, res |-> "relay"]
     ELSE IF tun[m.t].st = "opening" /\ tun[m.t].i = d
     THEN /\ q' = rest /\ UNCHANGED relay
          /\ IF m.k = "ack"
             THEN /\ tun' = [tun EXCEPT ![m.t].st = "open"]
                  /\ ingr' = [ingr EXCEPT ![d] = @ \cup {[t |-> m.t, nh |-> tun[m.t].nh, g |-> tun[m.t].g]}]
                  /\ last' = [act |-> "Deliver", k |-> m.k, s |-> s, d |-> d, res |-> "established", t |-> m.t]
             ELSE /\ tun' = [tun EXCEPT ![m.t].st = "failed"]
                  /\ UNCHANGED ingr
                  /\ last' = [act |-> "Deliver", k |-> m.k, s |-> s, d |-> d, res |-> "refused", t |-> m.t]
     ELSE /\ q' = rest /\ UNCHANGED <<relay, tun, ingr>>
          /\ last' = [act |-> "Deliver", k |-> m.k, s |-> s, d |-> d, res |-> "drop"]
  /\ UNCHANGED <<connVars, floodVars, exr, sentN, rcvX, echoN, rcvI, bud>>

\* an endpoint record takes data only from the connection it was created on
EndpointLive(r, m) == r.g = m.g \/ "DevEndpointSurvivesReconnect" \in Dev
Twice(qq, a, b, m) == IF "DevRelayDuplicatesData" \in Dev THEN Put(Put(qq, a, b, m), a, b, m) ELSE Put(qq, a, b, m)

DeliverData(s, d, m, rest) ==
  /\ IF UpEntry(d, s, m.t) # {}
     THEN /\ q' = Twice(rest, d, (CHOOSE e \in UpEntry(d, s, m.t) : TRUE).dn, m)
          /\ UNCHANGED <<rcvX, rcvI>>
          /\ last' = [act |-> "Deliver", k |-> "data", s |-> s, d |-> d, res |-> "relay-down"]
     ELSE IF DnEntry(d, s, m.t) # {}
     THEN /\ q' = Put(rest, d, (CHOOSE e \in DnEntry(d, s, m.t) : TRUE).up, m)
          /\ UNCHANGED <<rcvX, rcvI>>
          /\ last' = [act |-> "Deliver", k |-> "data", s |-> s, d |-> d, res |-> "relay-up"]
     ELSE IF m.dir = "f" /\ \E r \in exr[d] : r.t = m.t /\ EndpointLive(r, m)
     THEN /\ rcvX' = [rcvX EXCEPT ![m.t] = Append(@, m.n)]
          /\ q' = rest /\ UNCHANGED rcvI
          /\ last' = [act |-> "Deliver", k |-> "data", s |-> s, d |-> d, res |-> "exit"]
     ELSE IF m.dir = "r" /\ \E r \in ingr[d] : r.t = m.t /\ EndpointLive(r, m)
     THEN /\ rcvI' = [rcvI EXCEPT ![m.t] = Append(@, m.n)]
          /\ q' = rest /\ UNCHANGED rcvX
          /\ last' = [act |-> "Deliver", k |-> "data", s |-> s, d |-> d, res |-> "ingress"]
     ELSE /\ q' = rest /\ UNCHANGED <<rcvX, rcvI>>
          /\ last' = [act |-> "Deliver", k |-> "data", s |-> s, d |-> d, res |-> "drop"]
  /\ UNCHANGED <<connVars, floodVars, tun, relay, ingr, exr, sentN, echoN, bud>>

\* STREAM_CLOSE: relay entry popped and the close forwarded; exit record removed (the CLOSE the exit answers with finds
\* nothing upstream and is not modelled); ingress stream removed
DeliverClose(s, d, m, rest) ==
  /\ IF UpEntry(d, s, m.t) \cup DnEntry(d, s, m.t) # {}
     THEN LET e == CHOOSE e \in UpEntry(d, s, m.t) \cup DnEntry(d, s, m.t) : TRUE IN
          /\ relay' = [relay EXCEPT ![d] = @ \ {e}]
          /\ q' = Put(rest, d, IF e.up = s THEN e.dn ELSE e.up, Msg("close", m.t))
          /\ UNCHANGED <<tun, ingr, exr>>
          /\ last' = [act |-> "Deliver", k |-> "close", s |-> s, d |-> d, res |-> "relay"]
     ELSE IF \E r \in exr[d] : r.t = m.t
     THEN /\ exr' = [exr EXCEPT ![d] = {r \in @ : r.t # m.t}]
          /\ q' = rest /\ UNCHANGED <<relay, tun, ingr>>
          /\ last' = [act |-> "Deliver", k |-> "close", s |-> s, d |-> d, res |-> "exit"]
     ELSE IF \E r \in ingr[d] : r.t = m.t
     THEN /\ ingr' = [ingr EXCEPT ![d] = {r \in @ : r.t # m.t}]
          /\ tun' = [tun EXCEPT ![m.t].st = "rclosed"]
          /\ q' = rest /\ UNCHANGED <<relay, exr>>
          /\ last' = [act |-> "Deliver", k |-> "close", s |-> s, d |-> d, res |-> "ingress"]
     ELSE /\ q' = rest /\ UNCHANGED <<relay, tun, ingr, exr>>
          /\ last' = [act |-> "Deliver", k |-> "close", s |-> s, d |-> d, res |-> "drop"]
  /\ UNCHANGED <<connVars, floodVars, sentN, rcvX, echoN, rcvI, bud>>

\* d processes the head frame of s -> d.  A frame of a connection that is not the registered one is never processed
\* (its read loop is gone); in the ideal design such frames do not exist (LinkFail / Sleep lose them).
Deliver(s, d) ==
  /\ q[<<s, d>>] # <<>>
  /\ LET m == Head(q[<<s, d>>])
         rest == [q EXCEPT ![<<s, d>>] = Tail(@)] IN
     /\ m.g = reg[d][s] \/ KeepStale
     /\ CASE m.k = "adv" -> DeliverAdv(s, d, m, rest)
          [] m.k = "open" -> DeliverOpen(s, d, m, rest)
          [] m.k \in {"ack", "err"} -> DeliverAckErr(s, d, m, rest)
          [] m.k = "data" -> DeliverData(s, d, m, rest)
          [] OTHER -> DeliverClose(s, d, m, rest)

DropStale(s, d) ==
  /\ q[<<s, d>>] # <<>> /\ ~KeepStale /\ Head(q[<<s, d>>]).g # reg[d][s]
  /\ q' = [q EXCEPT ![<<s, d>>] = Tail(@)]
  /\ last' = [act |-> "DropStale", s |-> s, d |-> d]
  /\ UNCHANGED <<connVars, floodVars, tunVars, bud>>

\* the ingress application writes unit n (meshConn.Write: one DATA frame to the next hop, by identity)
DataFwd(t) ==
  /\ tun[t].st = "open" /\ sentN[t] < MaxData /\ CanSend(tun[t].i, tun[t].nh)
  /\ sentN' = [sentN EXCEPT ![t] = @ + 1]
  /\ q' = Put(q, tun[t].i, tun[t].nh, DataMsg(t, "f", sentN[t] + 1))
  /\ last' = [act |-> "TunnelData", t |-> t, dir |-> "f", n |-> sentN[t] + 1]
  /\ UNCHANGED <<connVars, floodVars, tun, relay, ingr, exr, rcvX, echoN, rcvI, bud>>

\* the target echoes the next unit it received: exit read loop -> WriteStreamData to its record's peer;
\* a failed write ends the read loop, which removes the record
DataRev(t) ==
  /\ echoN[t] < Len(rcvX[t])
  /\ \E x \in Agent : \E r \in exr[x] :
       /\ r.t = t
       /\ echoN' = [echoN EXCEPT ![t] = @ + 1]
       /\ IF CanSend(x, r.peer)
          THEN /\ q' = Put(q, x, r.peer, DataMsg(t, "r", rcvX[t][echoN[t] + 1]))
               /\ UNCHANGED exr
               /\ last' = [act |-> "TunnelData", t |-> t, dir |-> "r", n |-> rcvX[t][echoN[t] + 1]]
          ELSE /\ exr' = [exr EXCEPT ![x] = @ \ {r}]
               /\ q' = q
               /\ last' = [act |-> "TunnelData", t |-> t, dir |-> "r", n |-> 0]
  /\ UNCHANGED <<connVars, floodVars, tun, relay, ingr, sentN, rcvX, rcvI, bud>>

TunnelData(t, dir) == IF dir = "f" THEN DataFwd(t) ELSE DataRev(t)

CloseTunnel(t) ==
  /\ tun[t].st \in {"open", "rclosed"}
  /\ tun' = [tun EXCEPT ![t].st = "closed"]
  /\ ingr' = [ingr EXCEPT ![tun[t].i] = {r \in @ : r.t # t}]
  /\ q' = IF tun[t].st = "open" THEN Put(q, tun[t].i, tun[t].nh, Msg("close", t)) ELSE q
  /\ last' = [act |-> "CloseTunnel", t |-> t]
  /\ UNCHANGED <<connVars, floodVars, relay, exr, sentN, rcvX, echoN, rcvI, bud>>

InFlight(t) == \E d \in Dirs : \E j \in 1..Len(q[d]) : q[d][j].k \in {"open", "ack", "err"} /\ q[d][j].t = t
OpenTimeout(t) ==
  /\ tun[t].st = "opening" /\ ~InFlight(t)          \* 30 s: every frame of the open is long gone
  /\ tun' = [tun EXCEPT ![t].st = "failed"]
  /\ last' = [act |-> "OpenTimeout", t |-> t]
  /\ UNCHANGED <<connVars, floodVars, q, relay, ingr, exr, sentN, rcvX, echoN, rcvI, bud>>

\* an exit record whose connection is gone is reclaimed by the handler's idle timeout
ExitIdle(x, t) ==
  /\ \E r \in exr[x] : r.t = t /\ reg[x][r.peer] # r.g
  /\ exr' = [exr EXCEPT ![x] = {r \in @ : r.t # t}]
  /\ last' = [act |-> "ExitIdle", a |-> x, t |-> t]
  /\ UNCHANGED <<connVars, floodVars, q, tun, relay, ingr, sentN, rcvX, echoN, rcvI, bud>>

(* ---- sleep ---------------------------------------------------------------------*)
\* enterSleep: DisconnectAll clears the registrations at once and closes the connections; both ends' read loops
\* run their disconnect handling later
Sleep(a) ==
  /\ a \in topo.sleepers /\ awake[a] /\ bud.sleep < MaxSleep
  /\ awake' = [awake EXCEPT ![a] = FALSE]
  /\ wann' = [wann EXCEPT ![a] = FALSE]
  /\ bud' = [bud EXCEPT !.sleep = @ + 1]
  /\ last' = [act |-> "Sleep", a |-> a]
  /\ IF "DevSleepKeepsConnections" \in Dev
     THEN UNCHANGED <<live, reg, gone, pend, q, clean>>
     ELSE /\ reg' = [reg EXCEPT ![a] = [b \in Agent |-> 0]]
          /\ live' = [p \in Pairs |-> IF a \in p /\ \E b \in p \ {a} : reg[a][b] = live[p] THEN 0 ELSE live[p]]
          /\ gone' = gone \cup {<<a, b, reg[a][b]>> : b \in {n \in Agent : reg[a][n] > 0}}
                          \cup {<<b, a, reg[a][b]>> : b \in {n \in Agent : reg[a][n] > 0 /\ reg[n][a] = reg[a][n]}}
          /\ pend' = {x \in pend : x[1] # a}
          /\ q' = [d \in Dirs |-> IF a \in {d[1], d[2]} THEN Lost(q[d]) ELSE q[d]]
          /\ clean' = [x \in Agent |-> FALSE]
  /\ UNCHANGED <<topo, gen, torn, ctr, seen, tbl, tunVars>>

Wake(a) ==
  /\ ~awake[a]
  /\ awake' = [awake EXCEPT ![a] = TRUE]
  /\ wann' = [wann EXCEPT ![a] = a \in topo.exits]      \* exitSleep re-announces when the agent has local routes
  /\ last' = [act |-> "Wake", a |-> a]
  /\ UNCHANGED <<topo, gen, live, reg, gone, torn, pend, floodVars, q, tunVars, bud>>

WakeAnnounce(a) ==
  /\ wann[a] /\ awake[a]
  /\ wann' = [wann EXCEPT ![a] = FALSE]
  /\ AnnounceBody(a)
  /\ last' = [act |-> "WakeAnnounce", a |-> a]
  /\ UNCHANGED <<topo, awake, gen, live, reg, gone, torn, pend, seen, tbl, tunVars, bud>>

Quiescent ==
  /\ \A d \in Dirs : q[d] = <<>>
  /\ pend = {} /\ gone = {}
  /\ \A a \in Agent : ~wann[a]
  /\ \A t \in Tunnels : echoN[t] < Len(rcvX[t]) => ~\E x \in Agent : \E r \in exr[x] : r.t = t

(* ---- next-state relation -----------------------------------------------------------*)
\* steps the agents take by themselves once the environment stops acting
Internal ==
  \/ \E d \in Dirs : Deliver(d[1], d[2]) \/ DropStale(d[1], d[2])
  \/ \E x \in gone : PeerGone(x[1], x[2], x[3])
  \/ \E x \in pend : Replay(x[1], x[2])
  \/ \E a \in Agent : WakeAnnounce(a)
  \/ \E t \in Tunnels : DataRev(t)

Free(name) == name \notin QuietOnly \/ Quiescent
Env ==
  \/ \E l \in Pairs : (Free("Connect") /\ Connect(l)) \/ (Free("LinkFail") /\ LinkFail(l))
  \/ \E a \in Agent : (Free("Announce") /\ Announce(a)) \/ (Free("Sleep") /\ Sleep(a)) \/ (Free("Wake") /\ Wake(a))
                        \/ (Free("ExpireRoutes") /\ ExpireRoutes(a))
  \/ \E t \in Tunnels, i \in Agent, x \in Agent : Free("OpenTunnel") /\ OpenTunnel(t, i, x)
  \/ \E t \in Tunnels : (Free("TunnelData") /\ DataFwd(t)) \/ (Free("CloseTunnel") /\ CloseTunnel(t)) \/ OpenTimeout(t)
  \/ \E t \in Tunnels, x \in Agent : ExitIdle(x, t)

Next == Internal \/ Env
Spec == Init /\ [][Next]_vars

(* ---- properties ------------------------------------------------------------------------*)
TypeOK ==
  /\ torn \subseteq gone
  /\ \A p \in Pairs : live[p] <= gen[p] /\ gen[p] <= MaxGen /\ (live[p] > 0 => p \in topo.links)
  /\ \A a \in Agent, b \in Agent : reg[a][b] > 0 => (a # b /\ reg[a][b] <= gen[{a, b}])
  /\ \A a \in Agent : \A e \in tbl[a] : e.o # a /\ e.nh # a /\ Len(e.path) >= 1 /\ e.path[1] = e.nh
                                          /\ e.path[Len(e.path)] = e.o /\ a \notin Range(e.path)
  /\ \A a \in Agent : \A e, f \in tbl[a] : Key(e) = Key(f) => e = f
QueueBound == \A d \in Dirs : Len(q[d]) <= 12

\* a live transport connection is registered at both ends (Connect is atomic at this grain) unless an end closed it
LiveRegistered == \A p \in Pairs : live[p] > 0 => \A a \in p, b \in p : a # b => reg[a][b] = live[p]

(* S1 - a tunnel is built only over registered connections:                 *)
(*  (create) every ingress / relay / exit record is created over the        *)
(*  connections registered at that agent at that moment (generations        *)
(*  recorded);                                                              *)
(*  (establish) when the ingress sees the tunnel established, its first-hop *)
(*  connection is the registered one and the hop records that exist form a  *)
(*  chain of matching generations from the ingress to the exit.  (A hop may *)
(*  already have been lost again behind the acknowledgement: asynchrony.)   *)
S1create ==
  [][\A a \in Agent :
       /\ \A e \in relay'[a] \ relay[a] : e.ug > 0 /\ e.ug = reg[a][e.up] /\ e.dg > 0 /\ e.dg = reg[a][e.dn]
       /\ \A r \in exr'[a] \ exr[a] : r.g > 0 /\ r.g = reg[a][r.peer]
       /\ \A r \in ingr'[a] \ ingr[a] : r.g > 0 /\ r.g = reg[a][r.nh]]_vars
Hops(t) == <<tun[t].i>> \o tun[t].path
ChainOK(t) ==
  LET h == Hops(t)  k == Len(h) IN
  /\ tun[t].g = reg[h[1]][h[2]]
  /\ \A j \in 2..(k - 1) : \A e \in relay[h[j]] : e.t = t =>
        /\ e.up = h[j - 1] /\ e.dn = h[j + 1]
        /\ (j = 2 => e.ug = tun[t].g)
        /\ (j > 2 => \A f \in relay[h[j - 1]] : f.t = t => f.dg = e.ug)
  /\ \A r \in exr[h[k]] : r.t = t =>
        /\ r.peer = h[k - 1]
        /\ (k = 2 => r.g = tun[t].g)
        /\ (k > 2 => \A f \in relay[h[k - 1]] : f.t = t => f.dg = r.g)
S1establish == [][\A t \in Tunnels : (tun'[t].st = "open" /\ tun[t].st # "open") => ChainOK(t)']_vars

(* S2 - nothing outlives the handling of a disconnect: a route's next hop   *)
(* is a registered neighbour, a relay entry refers to the registered        *)
(* connections of the generations it was created over - or the disconnect   *)
(* handling of that connection is still pending at this agent.              *)
S2routes == \A a \in Agent : \A e \in tbl[a] : reg[a][e.nh] > 0 \/ \E g \in 1..MaxGen : <<a, e.nh, g>> \in gone \ torn
S2relay  == \A a \in Agent : \A e \in relay[a] :
               /\ (reg[a][e.up] = e.ug \/ <<a, e.up, e.ug>> \in gone \ torn)
               /\ (reg[a][e.dn] = e.dg \/ <<a, e.dn, e.dg>> \in gone \ torn)

(* S3 - routes converge again: at quiescence every agent holds the routes   *)
(* of every origin that announced after the last change (clean), as far as  *)
(* live links reach.  (Stronger, "what a connected neighbour holds is known *)
(* here too", does not hold and is not what the code promises: triangle     *)
(* a,b,c, exit c; b holds c's route of a newer sequence directly and has    *)
(* marked a's replayed older copy as seen; link b-c fails: b drops the      *)
(* route, a still has one, nothing replays it to b.)                        *)
RECURSIVE ReachFrom(_)
ReachFrom(S) == LET S2 == S \cup {n \in Agent : \E x \in S : x # n /\ live[{x, n}] > 0} IN IF S2 = S THEN S ELSE ReachFrom(S2)
Learned(a, o) == \A r \in OwnRoutes(o) : \E e \in tbl[a] : e.o = o /\ e.r = r
S3converged == Quiescent => \A o \in Agent : clean[o] => \A a \in ReachFrom({o}) \ {o} : Learned(a, o)

(* S4 - bytes delivered are a prefix of the bytes sent, in both directions   *)
IsCount(s) == \A j \in 1..Len(s) : s[j] = j
S4prefix == \A t \in Tunnels : IsCount(rcvX[t]) /\ Len(rcvX[t]) <= sentN[t] /\ IsCount(rcvI[t]) /\ Len(rcvI[t]) <= Len(rcvX[t])

(* S5 - a sleeping agent has no registered connections, originates no tunnel *)
S5sleeping == \A a \in Agent : ~awake[a] => \A b \in Agent : reg[a][b] = 0
S5noOpen == [][(last'.act = "OpenTunnel" /\ last'.res = "mesh") => last'.awake]_vars

=============================================================================
