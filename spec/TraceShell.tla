----------------------------- MODULE TraceShell -----------------------------
(* Trace validation of the session counter (C25): executions recorded from a real shell.Handler + Executor with   *)
(* concurrent streams (ndjson: call / return events with a global order taken under the recorder's lock) must be    *)
(* behaviours of Shell (part S).  The linearisation points (Acquire, Refuse, Deny, StartFail, Release, ObsLin) are  *)
(* not in the trace: TLC searches for their positions between the calls and returns.                                *)
EXTENDS Shell, IOUtils

VARIABLE l
Trace == ndJsonDeserialize(IOEnv.TRACE_FILE)
ev == Trace[l]
\* Streams / Observers = the names occurring in the trace (written into the cfg by checks/_shell.py)

TraceInit == SInit /\ l = 1 /\ TLCSet(1, 1)
Consume(name) == l <= Len(Trace) /\ ev.ev = name /\ l' = l + 1

TOpenCall   == Consume("OpenCall") /\ OpenCall(ev.t)
\* live = number of stub processes really alive when the ACK was seen (measured by the harness with slack)
TOpenRetOk  == Consume("OpenRetOk") /\ OpenRetOk(ev.t) /\ (Max = 0 \/ ev.live <= Max)
TOpenRetMax == Consume("OpenRetMax") /\ OpenRetMax(ev.t)
TOpenRetErr == Consume("OpenRetErr") /\ OpenRetErr(ev.t)
TExitSent   == Consume("ExitSent") /\ ExitSent(ev.t)
TCloseCall  == Consume("CloseCall") /\ CloseCall(ev.t)
TCloseRet   == Consume("CloseRet") /\ CloseRet(ev.t)
TStreamClosed == Consume("StreamClosed") /\ StreamClosed(ev.t)
TObsCall    == Consume("ObsCall") /\ ObsCall(ev.w)
TObsRet     == Consume("ObsRet") /\ ObsRet(ev.w) /\ last'.n = ev.n
\* quiescent point between two recorded executions: everything was closed, the real counter must be back at 0
TReset      == Consume("Reset") /\ sessions = ev.n
               /\ sessions' = 0 /\ pc' = [t \in Streams |-> "idle"] /\ obs' = [w \in Observers |-> [st |-> "idle", n |-> 0]]
               /\ opens' = 0 /\ last' = [act |-> "Init"] /\ UNCHANGED c
\* A linearisation point lies between its call and its return, and the call events do not read the counter: it is
\* enough to look for it immediately before some return event (this keeps the search small).
RetEvents == {"OpenRetOk", "OpenRetMax", "OpenRetErr", "CloseRet", "StreamClosed", "ObsRet", "Reset"}
TInternal   == /\ l <= Len(Trace) /\ ev.ev \in RetEvents
               /\ \/ \E t \in Streams : Internal(t)
                  \/ \E w \in Observers : ObsLin(w)
               /\ UNCHANGED l

TraceNext == TOpenCall \/ TOpenRetOk \/ TOpenRetMax \/ TOpenRetErr \/ TExitSent \/ TCloseCall \/ TCloseRet
             \/ TStreamClosed \/ TObsCall \/ TObsRet \/ TReset \/ TInternal

HighWater == TLCSet(1, IF l > TLCGet(1) THEN l ELSE TLCGet(1))
TraceAccepted == /\ PrintT("HW " \o ToString(TLCGet(1)))
                 /\ PrintT("LEN " \o ToString(Len(Trace)))
                 /\ TLCGet(1) = Len(Trace) + 1
=============================================================================
