---- MODULE MCSleepCmd ----
(* Sample instance of SleepCmd (the quick "flood" instance of checks/_sleepcmd.py, which generates this module   *)
(* and its cfg for every instance it checks).  Run:  tlc -config MCSleepCmd.cfg MCSleepCmd.tla                   *)
EXTENDS SleepCmd
MCGenuine == {[id |-> "a", ts |-> 3], [id |-> "b", ts |-> 0]}
====
