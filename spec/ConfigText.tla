----------------------------- MODULE ConfigText -----------------------------
(***************************************************************************)
(* Text-level behaviour of internal/config/config.go                       *)
(*                                                                         *)
(* Part "redact"  (C35)  Config.Redacted / Config.String                   *)
(*   A configuration is abstracted to its string slots: the SECRET slots   *)
(*   named by the property (kind x list position) and all other strings.   *)
(*   Every populated slot carries a VALUE CLASS (what kind of text it      *)
(*   holds).  Redacted(c) = mask(copy(c)); the copy of the pinned code is  *)
(*   a YAML marshal/unmarshal round trip that FAILS for some value classes *)
(*   (CopyBreaking) and the code then returns the original configuration   *)
(*   unmasked (deviation DevFailOpenCopy).  The ideal design copies        *)
(*   structurally (cannot fail).  DevShallowCopy is the classic mistake of *)
(*   a structural copy: list elements shared with the original get masked  *)
(*   in place.                                                             *)
(*                                                                         *)
(* Part "expand"  (C37)  expandEnvVars                                     *)
(*   Texts are sequences of characters, built from TOKENS of the           *)
(*   documented forms (literal, lone dollar, $NAME, ${NAME},               *)
(*   ${NAME:-default}); environments map the names to values that may      *)
(*   themselves contain references.  Oracle = token-wise substitution,     *)
(*   never re-expanded; Impl = transcription of the leftmost-first regular *)
(*   expression scan (braced form first, then dollar + identifier) with    *)
(*   the replacement function of the code.                                 *)
(***************************************************************************)
EXTENDS Integers, Sequences, FiniteSets, TLC, Json

CONSTANTS Part,    \* "redact" | "expand"
          Dev,     \* enabled deviations
          Emit,    \* TRUE: print VEC records
          Wide     \* TRUE: larger domains (thorough tier)

DevNames == {"DevFailOpenCopy", "DevShallowCopy", "DevSkipRefShaped", "DevReexpand", "DevUnsetToEmpty",
             "DevDefaultWhenEmpty"}
ASSUME Dev \subseteq DevNames /\ Part \in {"redact", "expand"}

(* ====================================================================== *)
(* Part "redact"                                                           *)
(* ====================================================================== *)
SingleKinds == {"tls.key_pem", "agent.private_key", "shell.password_hash", "file_transfer.password_hash",
                "management.private_key", "management.signing_private_key"}
ListKinds   == {"peers.proxy_auth.password", "peers.tls.key_pem", "listeners.tls.key_pem",
                "socks5.auth.users.password", "socks5.auth.users.password_hash"}
Positions   == {"first", "middle", "last"}
\* index of a position in a list of n entries (0 = the position does not exist)
PosIndex(pos, n) == CASE pos = "first" -> 1 [] pos = "last" -> IF n >= 2 THEN n ELSE 0 [] pos = "middle" -> IF n >= 3 THEN 2 ELSE 0

Classes == {"ascii", "yamlspecial", "control", "leadnl", "nonutf8", "long"}
\* values shaped like something the configuration code itself gives a meaning to.  Whole value = one variable
\* reference of the expansion syntax (the text a secret has when it was written as a reference, or a password
\* that just looks like one):
\*   "dollarname"  $NAME               "braceref"  ${NAME}          "bracedef"  ${NAME:-default}
\*   "bracewild"   ${ + arbitrary bytes without a closing brace inside + }      "braceopen"  ${ + bytes, never closed
\*   "regexmatch"  a whole-value match of any regular expression compiled in config.go
\*   "constlike"   a string constant of config.go ("[REDACTED]", "auto", "*", ...) with text around it
RefShaped   == {"dollarname", "braceref", "bracedef", "bracewild", "regexmatch"}   \* whole-value matches
CodeClasses == RefShaped \cup {"braceopen", "constlike"}
SecretClasses == Classes \cup CodeClasses
\* value classes whose YAML rendering cannot be parsed back (observed on gopkg.in/yaml.v3; the harness measures the
\* set on the real library and the check compares)
CopyBreaking == {"leadnl"}

\* secret slots of a configuration whose three lists have n entries
SecretSlots(n) == {[kind |-> k, idx |-> 0] : k \in SingleKinds} \cup
                  {[kind |-> k, idx |-> i] : k \in ListKinds, i \in 1..n}

BgClasses == IF Wide THEN Classes \cup {"empty"} ELSE {"empty", "ascii", "leadnl"}
\* (focus class, class of the other secrets, class of the other strings): all text classes against each other; the
\* code-meaningful classes in the focus secret (and, thorough tier, in the other secrets) with a few backgrounds
ClassCombos ==
  {<<fc, bg, oc>> : fc \in Classes, bg \in BgClasses, oc \in Classes}
  \cup {<<fc, bg, oc>> : fc \in CodeClasses, bg \in {"empty", "ascii"}, oc \in {"ascii", "leadnl"}}
  \cup (IF Wide THEN {<<fc, bg, oc>> : fc \in CodeClasses, bg \in CodeClasses, oc \in {"ascii", "yamlspecial"}} ELSE {})
RedactCases ==
  {[focus |-> [kind |-> k, idx |-> 0], fclass |-> cc[1], bg |-> cc[2], others |-> cc[3], n |-> 2] :
       k \in SingleKinds, cc \in ClassCombos}
  \cup
  UNION {{[focus |-> [kind |-> k, idx |-> PosIndex(pn[1], pn[2])], fclass |-> cc[1], bg |-> cc[2], others |-> cc[3],
           n |-> pn[2]] : k \in ListKinds, cc \in ClassCombos} :
         pn \in {q \in Positions \X (1..3) : PosIndex(q[1], q[2]) > 0}}

\* the abstract configuration of a case: class of every secret slot ("empty" = not populated), class of the rest
ConfigOf(c) == [secret |-> [s \in SecretSlots(c.n) |-> IF s = c.focus THEN c.fclass ELSE c.bg], others |-> c.others]

CopyOK(cfg) == cfg.others \notin CopyBreaking /\ \A s \in DOMAIN cfg.secret : cfg.secret[s] \notin CopyBreaking

\* DevSkipRefShaped: values that are, as a whole, one variable reference are taken for unresolved placeholders and
\* left as they are
Mask(cfg) == [cfg EXCEPT !.secret = [s \in DOMAIN cfg.secret |->
                 IF cfg.secret[s] = "empty" THEN "empty"
                 ELSE IF "DevSkipRefShaped" \in Dev /\ cfg.secret[s] \in RefShaped THEN cfg.secret[s]
                 ELSE "masked"]]
IsList(s) == s.idx > 0

\* result of producing the redacted rendering: what is rendered, and the original configuration afterwards
Redact(cfg) ==
  IF "DevFailOpenCopy" \in Dev /\ ~CopyOK(cfg) THEN [out |-> cfg, orig |-> cfg]            \* "return c"
  ELSE IF "DevShallowCopy" \in Dev
         THEN [out |-> Mask(cfg),
               orig |-> [cfg EXCEPT !.secret = [s \in DOMAIN cfg.secret |->
                                     IF IsList(s) /\ cfg.secret[s] # "empty" THEN "masked" ELSE cfg.secret[s]]]]
  ELSE [out |-> Mask(cfg), orig |-> cfg]

\* C35
NoSecretRendered(cfg) == LET r == Redact(cfg) IN \A s \in DOMAIN cfg.secret : r.out.secret[s] \in {"empty", "masked"}
OriginalUnchanged(cfg) == Redact(cfg).orig = cfg
\* and redaction does not invent or drop values: non-secret text is rendered as it is
OthersKept(cfg) == Redact(cfg).out.others = cfg.others

(* ====================================================================== *)
(* Part "expand"                                                           *)
(* ====================================================================== *)
Names      == {"A", "B"}                       \* variable names (one abstract character each)
IdentStart == {"A", "B", "x", "_"}             \* [A-Za-z_]
IdentChar  == IdentStart \cup {"9"}            \* [A-Za-z0-9_]

Lits == IF Wide THEN {<<"x">>, <<"9">>, <<"_">>, <<" ">>, <<"{">>, <<"}">>, <<":", "-">>, <<"x", "}">>}
        ELSE {<<"x">>, <<"9">>, <<" ">>, <<"{">>, <<"}">>}
Defaults == IF Wide THEN {<< >>, <<"d">>, <<"x", " ">>} ELSE {<< >>, <<"d">>}
Tokens == {[k |-> "lit", name |-> "", s |-> l] : l \in Lits}
          \cup {[k |-> "dollar", name |-> "", s |-> << >>]}
          \cup {[k |-> "ref", name |-> n, s |-> << >>] : n \in Names}
          \cup {[k |-> "bref", name |-> n, s |-> << >>] : n \in Names}
          \cup {[k |-> "bdef", name |-> n, s |-> d] : n \in Names, d \in Defaults}

\* environment: value of a name, or unset.  Values contain references themselves.
Unset == [set |-> FALSE, v |-> << >>]
Val(v) == [set |-> TRUE, v |-> v]
ValuesA == {Unset, Val(<< >>), Val(<<"v">>), Val(<<"$", "B">>), Val(<<"$", "{", "B", ":", "-", "q", "}">>)}
           \cup (IF Wide THEN {Val(<<"$", "{", "A", "}">>), Val(<<"$">>), Val(<<"}", "$", "A">>)} ELSE {})
ValuesB == {Unset, Val(<<"w">>), Val(<<"$", "A">>)}
Envs == {[A |-> a, B |-> b] : a \in ValuesA, b \in ValuesB}

Text(tok) ==
  CASE tok.k = "lit"    -> tok.s
    [] tok.k = "dollar" -> <<"$">>
    [] tok.k = "ref"    -> <<"$", tok.name>>
    [] tok.k = "bref"   -> <<"$", "{", tok.name, "}">>
    [] tok.k = "bdef"   -> <<"$", "{", tok.name, ":", "-">> \o tok.s \o <<"}">>
RECURSIVE Concat(_, _)
Concat(toks, i) == IF i > Len(toks) THEN << >> ELSE Text(toks[i]) \o Concat(toks, i + 1)

\* adjacent tokens keep their identity in the concatenated text (only the documented forms are generated)
Separated(a, b) ==
  /\ a.k = "ref"    => ~(b.k = "lit" /\ b.s[1] \in IdentChar)
  /\ a.k = "dollar" => ~(b.k = "lit" /\ (b.s[1] \in IdentStart \/ b.s[1] = "{"))
WellSeparated(toks) == \A i \in 1..(Len(toks) - 1) : Separated(toks[i], toks[i + 1])

RECURSIVE SeqsUpTo(_, _)
SeqsUpTo(S, n) == IF n = 0 THEN {<< >>} ELSE LET R == SeqsUpTo(S, n - 1) IN R \cup {Append(r, x) : r \in {q \in R : Len(q) = n - 1}, x \in S}
\* token identity is a matter of adjacent pairs: all sequences up to length 2 over all tokens; length 3 over all
\* tokens in the thorough tier, over one token of each kind in the quick tier
Tokens3 == IF Wide THEN Tokens
           ELSE {t \in Tokens : t.name \in {"", "A"} /\ (t.k = "lit" => t.s \in {<<"x">>, <<"}">>}) /\ (t.k = "bdef" => t.s = <<"d">>)}
TokenSeqs == SeqsUpTo(Tokens, 2) \cup {q \in SeqsUpTo(Tokens3, 3) : Len(q) = 3}
ExpandCases == {[toks |-> t, env |-> e] : t \in {q \in TokenSeqs : q # << >> /\ WellSeparated(q)}, e \in Envs}

(* ---- oracle: the property statement, token by token; a set of acceptable results ---- *)
OracleTok(tok, env) ==
  CASE tok.k \in {"lit", "dollar"} -> {Text(tok)}
    [] tok.k \in {"ref", "bref"}   -> IF env[tok.name].set THEN {env[tok.name].v} ELSE {Text(tok)}     \* left as written
    \* "an unset variable with a default takes the default"; a variable set to the empty string is SET: it is
    \* replaced by its (empty) value like in the other two forms (the documentation only says "if not set")
    [] tok.k = "bdef"              -> IF env[tok.name].set THEN {env[tok.name].v} ELSE {tok.s}
RECURSIVE Oracle(_, _, _)
Oracle(toks, env, i) ==
  IF i > Len(toks) THEN {<< >>}
  ELSE {h \o t : h \in OracleTok(toks[i], env), t \in Oracle(toks, env, i + 1)}

(* ---- implementation: regexp scan + replacement function, transcribed ---- *)
Lookup(name, env) == IF Len(name) = 1 /\ name[1] \in Names THEN env[name[1]] ELSE Unset
\* first index >= i with t[j] = "}" (0 if none)
RECURSIVE FirstClose(_, _)
FirstClose(t, j) == IF j > Len(t) THEN 0 ELSE IF t[j] = "}" THEN j ELSE FirstClose(t, j + 1)
\* end of the longest identifier starting at j (j - 1 if none)
RECURSIVE IdentEnd(_, _)
IdentEnd(t, j) == IF j <= Len(t) /\ t[j] \in IdentChar THEN IdentEnd(t, j + 1) ELSE j - 1
\* first index of ":-" in body (0 if none)
RECURSIVE IndexDef(_, _)
IndexDef(b, j) == IF j + 1 > Len(b) THEN 0 ELSE IF b[j] = ":" /\ b[j + 1] = "-" THEN j ELSE IndexDef(b, j + 1)

RECURSIVE Expand(_, _, _)
Replace(match, name, env, depth) ==
  LET d == IndexDef(name, 1)
      sub(v) == IF "DevReexpand" \in Dev /\ depth > 0 THEN Expand(v, env, depth - 1) ELSE v IN
  IF d > 0
    THEN LET e == Lookup(SubSeq(name, 1, d - 1), env) IN
         \* DevDefaultWhenEmpty: shell ":-" semantics, an empty value counts as unset
         IF e.set /\ ~("DevDefaultWhenEmpty" \in Dev /\ e.v = << >>) THEN sub(e.v) ELSE SubSeq(name, d + 2, Len(name))
    ELSE LET e == Lookup(name, env) IN
         IF e.set THEN sub(e.v) ELSE IF "DevUnsetToEmpty" \in Dev THEN << >> ELSE match
\* one left-to-right pass over t
RECURSIVE Scan(_, _, _, _)
Scan(t, i, env, depth) ==
  IF i > Len(t) THEN << >>
  ELSE IF t[i] # "$" THEN <<t[i]>> \o Scan(t, i + 1, env, depth)
  ELSE LET c == IF i + 1 <= Len(t) /\ t[i + 1] = "{" THEN FirstClose(t, i + 2) ELSE 0 IN
       IF c >= i + 3                                     \* dollar, open brace, one or more non-brace-close characters, close brace
         THEN Replace(SubSeq(t, i, c), SubSeq(t, i + 2, c - 1), env, depth) \o Scan(t, c + 1, env, depth)
       ELSE IF i + 1 <= Len(t) /\ t[i + 1] \in IdentStart \* dollar, identifier start, identifier characters (greedy)
         THEN LET e == IdentEnd(t, i + 1) IN
              Replace(SubSeq(t, i, e), SubSeq(t, i + 1, e), env, depth) \o Scan(t, e + 1, env, depth)
       ELSE <<"$">> \o Scan(t, i + 1, env, depth)
Expand(t, env, depth) == Scan(t, 1, env, depth)
Impl(toks, env) == Expand(Concat(toks, 1), env, 2)

(* ====================================================================== *)
(* The enumeration as a one-step state machine                             *)
(* ====================================================================== *)
VARIABLE vec
Init == IF Part = "redact" THEN vec \in RedactCases ELSE vec \in ExpandCases
Next == UNCHANGED vec

\* C35 on the model
RedactNoSecret      == Part = "redact" => NoSecretRendered(ConfigOf(vec))
RedactOrigUnchanged == Part = "redact" => OriginalUnchanged(ConfigOf(vec))
RedactOthersKept    == Part = "redact" => OthersKept(ConfigOf(vec))
\* C37 on the model
ExpandOK == Part = "expand" => Impl(vec.toks, vec.env) \in Oracle(vec.toks, vec.env, 1)

EmitVec ==
  Emit =>
    IF Part = "redact"
      THEN LET cfg == ConfigOf(vec) IN
           PrintT("VEC " \o ToJson([c |-> vec, copyok |-> CopyOK(cfg),
                                    leak |-> ~NoSecretRendered(cfg), origchanged |-> ~OriginalUnchanged(cfg)]))
      ELSE PrintT("VEC " \o ToJson([toks |-> vec.toks, env |-> vec.env, text |-> Concat(vec.toks, 1),
                                    impl |-> Impl(vec.toks, vec.env), oracle |-> Oracle(vec.toks, vec.env, 1)]))
=============================================================================
