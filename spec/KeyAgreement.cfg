\* reference configuration (the checks generate their cfgs; see checks/_keyagreement.py)
CONSTANTS NT = 1
 Kinds1 = {"tcp-ip", "tcp-domain", "forward", "udp", "icmp", "shell", "shell-tty", "file-upload", "file-download"}
 Kinds2 = {"tcp-ip"}
 RIDs = {1} MaxData = 1 Classes = {} Adversary = FALSE EphPool = {} Lifecycle = FALSE Dev = {} EmitVec = FALSE
INIT Init
NEXT Next
INVARIANTS TypeOK KeysAgree DistinctInputsDistinctKeys DegenerateRefused TransitSeesOnlyCiphertext TransitNeverHoldsKey PayloadIntact
