------------------------------- MODULE Shell -------------------------------
(***************************************************************************)
(* Remote shell of Muti-Metroo (internal/shell: executor.go, handler.go,   *)
(* pty_unix.go).                                                           *)
(*                                                                         *)
(* Part D (decision): the authorisation decision of                        *)
(* Executor.validateAndAcquire as a function of the configuration and the  *)
(* request.  Strings are sequences of one-character strings, so that       *)
(* "contains a slash", "has a metacharacter", "is a prefix of a            *)
(* whitelisted name" are real predicates.  Oracle = the property           *)
(* statement; Impl = transcription of the code (with named deviations).    *)
(* TLC checks Impl => Oracle over the whole bounded domain and prints      *)
(* every case as a VEC record for the Go harness.                          *)
(*                                                                         *)
(* Part S (sessions): the session counter of the executor as used by the   *)
(* stream handler.  One spec "thread" per shell stream:                    *)
(*   OpenCall -> [Acquire | Refuse | Deny] -> (StartFail) -> OpenRet       *)
(*   running  -> [Release] (own exit, or inside CloseCall..CloseRet)       *)
(* Acquire / Refuse / Release / ObsLin are the linearisation points        *)
(* (critical sections under Executor.mu); they are internal steps, the     *)
(* calls and returns around them are the observable events.                *)
(***************************************************************************)
EXTENDS Naturals, Sequences, FiniteSets, TLC, Json

CONSTANTS Dev, Part,
          \* part D
          Whitelists, Cmds, ArgVecs,          \* sets of: sets of strings / strings / sequences of strings
          AuthCmds, AuthArgVecs,              \* the small sub-domain combined with every enabled/password case
          CmdSliceArgs, ArgSliceWls, ArgSliceCmds,   \* see Cases
          \* part S
          Streams, Observers, Max, MaxOpens

DevNames == {"DevPrefixMatch", "DevBaseOfPath", "DevNoArgCheck", "DevEmptyPasswordOK", "DevCaseFold", "DevArgValueOnly",
             "DevAuthDependsOnHistory",
             "DevCheckThenAct", "DevDoubleRelease", "DevOffByOne"}
ASSUME Dev \subseteq DevNames /\ Part \in {"D", "H", "S"}

(***************************************************************************)
(* Part D                                                                  *)
(***************************************************************************)
\* the characters the statement calls shell metacharacters (operators, expansion, globbing, quoting by backslash);
\* quotes, '#', '=', '%', '^', blanks and newlines are left to the implementation (no shell is involved: exec)
Meta == {";", "&", "|", "$", "`", "(", ")", "{", "}", "[", "]", "<", ">", "\\", "!", "*", "?", "~"}
Star == <<"*">>
Has(s, chars) == \E i \in 1..Len(s) : s[i] \in chars
IsAbsArg(a)   == Len(a) > 0 /\ a[1] = "/"                    \* filepath.IsAbs on unix
IsPrefixS(a, b) == Len(a) <= Len(b) /\ SubSeq(b, 1, Len(a)) = a
Lower(ch) == CASE ch = "L" -> "l" [] ch = "S" -> "s" [] OTHER -> ch
LowerS(s) == [i \in 1..Len(s) |-> Lower(s[i])]
RECURSIVE BaseOf(_)
BaseOf(s) == IF ~Has(s, {"/"}) THEN s
             ELSE BaseOf(Tail(s))

PwCases == {<<"none", "absent">>, <<"none", "given">>, <<"set", "absent">>, <<"set", "match">>, <<"set", "wrong">>}
CaseRec(en, pw, wl, cmd, args) == [enabled |-> en, pwcfg |-> pw[1], pw |-> pw[2], wl |-> wl, cmd |-> cmd, args |-> args]
\* the domain is a union of three slices (with CmdSliceArgs = ArgVecs, ArgSliceWls = Whitelists and ArgSliceCmds = Cmds
\* the last two are the full product):
\*   every enabled / password case          x every whitelist x AuthCmds x AuthArgVecs
\*   password not configured / matching     x every whitelist x every command form x CmdSliceArgs
\*   password not configured                x ArgSliceWls x ArgSliceCmds x every argument vector
Cases ==
  {CaseRec(en, pw, wl, cmd, args) : en \in BOOLEAN, pw \in PwCases, wl \in Whitelists, cmd \in AuthCmds, args \in AuthArgVecs}
  \cup
  {CaseRec(TRUE, pw, wl, cmd, args) : pw \in {<<"none", "absent">>, <<"set", "match">>}, wl \in Whitelists, cmd \in Cmds,
                                      args \in CmdSliceArgs}
  \cup
  {CaseRec(TRUE, <<"none", "absent">>, wl, cmd, args) : wl \in ArgSliceWls, cmd \in ArgSliceCmds, args \in ArgVecs}

\* ---- the oracle: the property statement
AuthOK(c) == c.pwcfg = "none" \/ c.pw = "match"
Wildcard(wl) == Star \in wl
ArgsClean(args) == \A i \in 1..Len(args) : ~Has(args[i], Meta) /\ ~IsAbsArg(args[i])
MayStart(c) ==
  /\ c.enabled
  /\ AuthOK(c)
  /\ \/ Wildcard(c.wl)
     \/ /\ c.cmd \in c.wl /\ ~Has(c.cmd, {"/", "\\"})          \* exactly a whitelisted base name
        /\ ArgsClean(c.args)

\* ---- the implementation: Executor.validateAndAcquire up to AcquireSession (D: the enabled deviations)
ImplAuthD(c, D) ==                                               \* ValidateAuth
  IF c.pwcfg = "none" THEN TRUE
  ELSE IF c.pw = "absent" THEN "DevEmptyPasswordOK" \in D
  ELSE c.pw = "match"
ImplCmdD(c, D) ==                                                \* IsCommandAllowed
  IF c.wl = {} THEN FALSE
  ELSE IF Wildcard(c.wl) THEN TRUE
  ELSE IF "DevBaseOfPath" \in D THEN BaseOf(c.cmd) \in c.wl
  ELSE IF Has(c.cmd, {"/", "\\"}) THEN FALSE
  ELSE IF "DevPrefixMatch" \in D THEN \E w \in c.wl : IsPrefixS(w, c.cmd)
  ELSE IF "DevCaseFold" \in D THEN \E w \in c.wl : LowerS(w) = LowerS(c.cmd)
  ELSE c.cmd \in c.wl
\* deviation: only the part after the first '=' of an argument (the "value" of --key=value) is inspected
RECURSIVE AfterEq(_)
AfterEq(a) == IF a = <<>> THEN <<>> ELSE IF Head(a) = "=" THEN Tail(a) ELSE AfterEq(Tail(a))
ValueOf(a) == IF Has(a, {"="}) THEN AfterEq(a) ELSE a
ImplArgsD(c, D) ==                                               \* ValidateArgs
  IF Wildcard(c.wl) \/ "DevNoArgCheck" \in D THEN TRUE
  ELSE IF "DevArgValueOnly" \in D THEN ArgsClean([i \in 1..Len(c.args) |-> ValueOf(c.args[i])])
  ELSE ArgsClean(c.args)
ImplD(c, D) == c.enabled /\ ImplAuthD(c, D) /\ ImplCmdD(c, D) /\ ImplArgsD(c, D)
Impl(c) == ImplD(c, Dev)

\* sensitivity of the decision domain, decided in the same TLC run: for every decision deviation a case of the domain
\* in which the deviating implementation starts a process the statement forbids ("" if the domain has none)
DDevs == {"DevPrefixMatch", "DevBaseOfPath", "DevNoArgCheck", "DevEmptyPasswordOK", "DevCaseFold", "DevArgValueOnly"}
DevWitness(d) == LET bad == {x \in Cases : ImplD(x, {d}) /\ ~MayStart(x)} IN
                 IF bad = {} THEN [found |-> FALSE] ELSE [found |-> TRUE, n |-> Cardinality(bad), c |-> CHOOSE x \in bad : TRUE]
DevReport == PrintT("DEVCHK " \o ToJson([d \in DDevs |-> DevWitness(d)]))

\* why the oracle forbids the start (for the harness' report), "" when allowed
Why(c) == IF ~c.enabled THEN "disabled" ELSE IF ~AuthOK(c) THEN "auth"
          ELSE IF Wildcard(c.wl) THEN ""
          ELSE IF ~(c.cmd \in c.wl /\ ~Has(c.cmd, {"/", "\\"})) THEN "command" ELSE IF ~ArgsClean(c.args) THEN "args" ELSE ""

VARIABLES c,                 \* D: the case
          sessions, pc, obs, opens,   \* S
          last
vars == <<c, sessions, pc, obs, opens, last>>

DInit ==
  /\ c \in Cases
  /\ PrintT("VEC " \o ToJson([c |-> [enabled |-> c.enabled, pwcfg |-> c.pwcfg, pw |-> c.pw, wl |-> c.wl,
                                     cmd |-> c.cmd, args |-> c.args],
                              oracle |-> MayStart(c), impl |-> Impl(c), why |-> Why(c)]))
  /\ sessions = 0 /\ pc = <<>> /\ obs = <<>> /\ opens = 0 /\ last = <<>>
DNext == FALSE /\ UNCHANGED vars
\* C25 (decision): a process may start only when the statement allows it
OnlyAuthorised == Impl(c) => MayStart(c)
\* not part of the property (used to report over-restriction as a binding note): the code is not stricter than needed
NotStricter == MayStart(c) => Impl(c)

(***************************************************************************)
(* Part H (history): request SEQUENCES on one live executor whose          *)
(* password is configured.  The authorisation decision must not depend on  *)
(* what was presented before: a request is authorised iff its own password *)
(* matches.  The state is the sequence of passwords presented so far       *)
(* (variable c), bounded by MaxOpens; HPws are abstract password classes   *)
(* ("match", a proper "prefix" / "suffix" of the real password, the real   *)
(* password with something appended "longer", "wrong", "absent").          *)
(***************************************************************************)
HPws == {"match", "prefix", "suffix", "longer", "wrong", "absent"}
HInit == /\ c = <<>> /\ sessions = 0 /\ pc = <<>> /\ obs = <<>> /\ opens = 0 /\ last = [act |-> "Init"]
\* deviation: once the real password has been verified, a prefix of it is accepted (a cache compared on a common length)
HAccept(hist, pw) ==
  \/ pw = "match"
  \/ /\ "DevAuthDependsOnHistory" \in Dev /\ pw = "prefix"
     /\ \E i \in 1..Len(hist) : hist[i] = "match"
HRequest(pw) ==
  /\ Len(c) < MaxOpens
  /\ c' = Append(c, pw)
  /\ last' = [act |-> "Request", pw |-> pw, ok |-> HAccept(c, pw)]
  /\ UNCHANGED <<sessions, pc, obs, opens>>
HNext == \E pw \in HPws : HRequest(pw)
\* C25 (history-free authorisation): whatever came before, only the matching password starts a process
HOnlyMatching == last.act = "Request" /\ last.ok => last.pw = "match"
HEmitEdge == PrintT("EDGE " \o ToJson([s |-> c, a |-> last', t |-> c']))

(***************************************************************************)
(* Part S                                                                  *)
(***************************************************************************)
Holding == {"held", "running", "exiting", "closing", "closingx"}     \* the stream owns a slot of the counter
SInit ==
  /\ sessions = 0
  /\ pc = [t \in Streams |-> "idle"]
  /\ obs = [w \in Observers |-> [st |-> "idle", n |-> 0]]
  /\ opens = 0
  /\ c = <<>> /\ last = [act |-> "Init"]

Step(t, to, act) == pc' = [pc EXCEPT ![t] = to] /\ last' = [act |-> act, t |-> t] /\ UNCHANGED <<c, obs>>

\* the metadata frame of stream t reaches handleMetadata -> NewSession / NewPTYSession
OpenCall(t) == pc[t] = "idle" /\ opens < MaxOpens /\ opens' = opens + 1 /\ Step(t, "calling", "OpenCall") /\ UNCHANGED sessions
\* validateAndAcquire rejects before the counter (disabled, auth, whitelist, arguments)
Deny(t)    == pc[t] = "calling" /\ Step(t, "denied", "Deny") /\ UNCHANGED <<sessions, opens>>
\* AcquireSession, one critical section: test and increment
Limit == IF "DevOffByOne" \in Dev THEN Max + 1 ELSE Max
Acquire(t) == /\ pc[t] = "calling" /\ "DevCheckThenAct" \notin Dev
              /\ (Max = 0 \/ sessions < Limit)
              /\ sessions' = sessions + 1 /\ Step(t, "held", "Acquire") /\ UNCHANGED opens
Refuse(t)  == /\ pc[t] = "calling" /\ Max > 0 /\ sessions >= Limit
              /\ Step(t, "refused", "Refuse") /\ UNCHANGED <<sessions, opens>>
\* deviation: the test and the increment are two critical sections
DevCheck(t) == /\ "DevCheckThenAct" \in Dev /\ pc[t] = "calling" /\ (Max = 0 \/ sessions < Max)
               /\ Step(t, "checked", "DevCheck") /\ UNCHANGED <<sessions, opens>>
DevIncr(t)  == /\ pc[t] = "checked" /\ sessions' = sessions + 1 /\ Step(t, "held", "DevIncr") /\ UNCHANGED opens
\* the process could not be started after the slot was taken (exec failure): the slot is given back
StartFail(t) == pc[t] = "held" /\ sessions' = sessions - 1 /\ Step(t, "startfailed", "StartFail") /\ UNCHANGED opens
\* the answer to the client: ACK (process running) or ERROR
OpenRetOk(t)   == pc[t] = "held" /\ Step(t, "running", "OpenRetOk") /\ UNCHANGED <<sessions, opens>>
OpenRetMax(t)  == pc[t] = "refused" /\ Step(t, "idle", "OpenRetMax") /\ UNCHANGED <<sessions, opens>>
OpenRetErr(t)  == pc[t] \in {"denied", "startfailed"} /\ Step(t, "idle", "OpenRetErr") /\ UNCHANGED <<sessions, opens>>
\* releaseSession (first caller only: ShellStream.Released): process killed and reaped, then ReleaseSession.
\* Happens on the stream's own exit path (waitForExit / pumpPTYOutput -> closeStream) or inside HandleStreamClose.
\* the stub process of the harness exits only when told to: ExitSent marks that the client wrote the line it waits for
\* "closingx": the client's close call and the process' own exit are both under way (in either order).
ExitSent(t) == /\ pc[t] \in {"running", "closing", "closingreleased", "closed"}
               /\ Step(t, CASE pc[t] = "running" -> "exiting" [] pc[t] = "closing" -> "closingx" [] OTHER -> pc[t], "ExitSent")
               /\ UNCHANGED <<sessions, opens>>
Release(t) == /\ pc[t] \in {"exiting", "closing", "closingx"}
              /\ sessions' = IF sessions > 0 THEN sessions - 1 ELSE 0
              /\ Step(t, IF pc[t] = "exiting" THEN "released" ELSE "closingreleased", "Release") /\ UNCHANGED opens
DevReleaseAgain(t) == /\ "DevDoubleRelease" \in Dev /\ pc[t] \in {"released", "closingreleased", "closed"}
                      /\ sessions' = IF sessions > 0 THEN sessions - 1 ELSE 0
                      /\ Step(t, "gone", "DevReleaseAgain") /\ UNCHANGED opens
CloseCall(t) == /\ pc[t] \in {"running", "exiting", "released"}
                /\ Step(t, CASE pc[t] = "released" -> "closingreleased" [] pc[t] = "exiting" -> "closingx" [] OTHER -> "closing",
                        "CloseCall")
                /\ UNCHANGED <<sessions, opens>>
\* HandleStreamClose returns after the release - except when the stream's own exit path (closeStream) has already
\* removed the stream from the handler's table: then the call finds nothing, returns at once, and the exit path
\* releases the slot afterwards (a late release; the slot is still counted, so the maximum is not exceeded)
CloseRet(t)  == \/ pc[t] = "closingreleased" /\ Step(t, "closed", "CloseRet") /\ UNCHANGED <<sessions, opens>>
                \/ pc[t] = "closingx" /\ Step(t, "exiting", "CloseRet") /\ UNCHANGED <<sessions, opens>>
\* the handler's WriteStreamClose for the stream (after its own exit path released it)
StreamClosed(t) == pc[t] \in {"released", "closed", "closingreleased"} /\ Step(t, pc[t], "StreamClosed") /\ UNCHANGED <<sessions, opens>>
\* ActiveSessions(): call, linearisation, return
ObsCall(w) == obs[w].st = "idle" /\ obs' = [obs EXCEPT ![w] = [st |-> "called", n |-> 0]]
              /\ last' = [act |-> "ObsCall", w |-> w] /\ UNCHANGED <<c, sessions, pc, opens>>
ObsLin(w)  == obs[w].st = "called" /\ obs' = [obs EXCEPT ![w] = [st |-> "read", n |-> sessions]]
              /\ last' = [act |-> "ObsLin", w |-> w] /\ UNCHANGED <<c, sessions, pc, opens>>
ObsRet(w)  == obs[w].st = "read" /\ obs' = [obs EXCEPT ![w] = [st |-> "idle", n |-> 0]]
              /\ last' = [act |-> "ObsRet", w |-> w, n |-> obs[w].n] /\ UNCHANGED <<c, sessions, pc, opens>>

Internal(t) == Deny(t) \/ Acquire(t) \/ Refuse(t) \/ DevCheck(t) \/ DevIncr(t) \/ StartFail(t) \/ Release(t)
               \/ DevReleaseAgain(t)
SNext == \/ \E t \in Streams : \/ OpenCall(t) \/ Internal(t) \/ OpenRetOk(t) \/ OpenRetMax(t) \/ OpenRetErr(t)
                               \/ ExitSent(t) \/ CloseCall(t) \/ CloseRet(t) \/ StreamClosed(t)
         \/ \E w \in Observers : ObsCall(w) \/ ObsLin(w) \/ ObsRet(w)

\* C25 (sessions): the counter never exceeds the maximum, it counts exactly the streams that own a slot, hence
\* the processes alive (streams between ACK and release) never exceed the maximum
CounterLeMax == Max > 0 => sessions <= Max
CounterExact == sessions = Cardinality({t \in Streams : pc[t] \in Holding})
LiveLeMax    == Max > 0 => Cardinality({t \in Streams : pc[t] \in {"running", "exiting", "closing", "closingx"}}) <= Max
=============================================================================
