------------------------ MODULE TraceDatagramSession ------------------------
(* Trace validation: histories recorded from the real udp.Handler / icmp.Handler (ndjson, many histories               *)
(* concatenated, separated by Reset events) must be behaviours of DatagramSession.  Every event carries the action, its *)
(* arguments, the result class of the call and the projected state after it (what the harness observes: table lookups *)
(* by stream id, request-id index, object states, sockets, expiry, ActiveCount, frames per (peer, id), datagrams seen by *)
(* the destination), so the search is linear in the length of the trace.                                                *)
EXTENDS DatagramSession, IOUtils

VARIABLES l
Trace == ndJsonDeserialize(IOEnv.TRACE_FILE)
ev == Trace[l]

\* the harness' projection of a specification state (bad = frames / datagrams it could not attribute: never any)
Proj == [look |-> [s \in Slots |-> Look(s)], byreq |-> byreq, obj |-> obj, sock |-> sock,
         nsock |-> Cardinality({s \in Slots : sock[s]}) + leak,
         exp |-> [s \in Slots |-> exp[s] /\ obj[s] \in Live], count |-> Count,
         ackN |-> ackN, errN |-> errN, closeN |-> closeN, din |-> din, dout |-> dout, bad |-> 0, enabled |-> FALSE]

TraceInit == Init /\ l = 1 /\ TLCSet(1, 1)
Consume == l <= Len(Trace) /\ l' = l + 1

TraceStep ==
  /\ Consume /\ ev.ev \notin {"Reset", "Settle"}
  /\ \/ ev.ev = "OpenBegin" /\ OpenBegin(ev.s, ev.m)
     \/ ev.ev = "OpenAck" /\ OpenAck(ev.s)
     \/ ev.ev = "DgIn" /\ DgIn(ev.s, ev.m = "rep")
     \/ ev.ev = "DgOut" /\ DgOut(ev.s)
     \/ ev.ev = "IdleTick" /\ IdleTick
     \/ ev.ev = "Cleanup" /\ Cleanup
     \/ ev.ev = "CloseFromPeer" /\ CloseFromPeer(ev.s)
     \/ ev.ev = "HandlerClose" /\ HandlerClose
     \/ ev.ev = "PeerGone" /\ PeerGone(ev.s)
  /\ last'.res = ev.res
  /\ Proj' = ev.st

\* end of a history: nothing arrived late
TraceSettle == Consume /\ ev.ev = "Settle" /\ UNCHANGED vars /\ Proj = ev.st

TraceReset ==
  /\ Consume /\ ev.ev = "Reset"
  /\ enabled' = ev.enabled /\ hup' = TRUE /\ peerUp' = [p \in Peers |-> TRUE]
  /\ tab' = [k \in Keys |-> NoSlot] /\ byreq' = Fn(FALSE) /\ obj' = Fn("None") /\ sock' = Fn(FALSE) /\ rl' = Fn(FALSE)
  /\ exp' = Fn(FALSE) /\ pend' = Fn(FALSE) /\ enc' = Fn(FALSE)
  /\ ackN' = Fn(0) /\ errN' = Fn(0) /\ closeN' = Fn(0) /\ din' = Fn(0) /\ dout' = Fn(0) /\ ndg' = 0 /\ nerr' = 0
  /\ infl' = Fn(FALSE) /\ clear' = 0 /\ leak' = 0
  /\ life' = Fn("None") /\ why' = Fn("-") /\ fresh' = Fn(FALSE)
  /\ last' = [act |-> "Init"]
  /\ Proj' = ev.st

TraceNext == TraceStep \/ TraceSettle \/ TraceReset
TraceSpec == TraceInit /\ [][TraceNext]_<<vars, l>>

HighWater == TLCSet(1, IF l > TLCGet(1) THEN l ELSE TLCGet(1))
TraceAccepted == /\ PrintT("HW " \o ToString(TLCGet(1)))
                 /\ PrintT("LEN " \o ToString(Len(Trace)))
                 /\ TLCGet(1) = Len(Trace) + 1
=============================================================================
