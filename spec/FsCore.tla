------------------------------ MODULE FsCore ------------------------------
(***************************************************************************)
(* A small POSIX-like file system with symbolic and hard links, as pure    *)
(* operators (no variables).  Used by FileAccess.tla (C26, C27).           *)
(*                                                                         *)
(* A path is a sequence of component strings, absolute from the abstract   *)
(* root <<>> (bound to a private temp directory by the Go harness).        *)
(* A file system f is a function  [existing paths -> Node]; the root is an *)
(* implicit directory.  Keys of f are always REAL (physical) paths: no     *)
(* proper prefix of a key is a symbolic link.                              *)
(* Regular files carry an inode number i (hard links share it); contents   *)
(* live in a separate function data: [inode -> content].                   *)
(*                                                                         *)
(* The operators below follow the semantics of the Linux system calls that *)
(* the Go standard library issues (os.Stat/Lstat/Mkdir/MkdirAll/OpenFile/  *)
(* Remove/RemoveAll/Symlink/Link/ReadDir/Chmod, filepath.EvalSymlinks):    *)
(* symbolic links are followed component-wise in every non-final           *)
(* component, ".." is physical, the final component is followed or not     *)
(* depending on the call.                                                  *)
(***************************************************************************)
EXTENDS Naturals, Sequences, FiniteSets

Fuel == 10     \* symlink follows per resolution (stands for the kernel's 40: ELOOP)

DirN        == [k |-> "dir",  i |-> 0, abs |-> FALSE, t |-> <<>>, m |-> "d"]
FileN(i)    == [k |-> "file", i |-> i, abs |-> FALSE, t |-> <<>>, m |-> "d"]
LinkN(a, t) == [k |-> "link", i |-> 0, abs |-> a,     t |-> t,    m |-> "d"]

Dirname(p) == IF p = <<>> THEN <<>> ELSE SubSeq(p, 1, Len(p) - 1)
Base(p)    == p[Len(p)]
IsPrefix(a, b) == Len(a) <= Len(b) /\ SubSeq(b, 1, Len(a)) = a
Exists(f, p) == p = <<>> \/ p \in DOMAIN f
Kind(f, p)   == IF p = <<>> THEN "dir" ELSE f[p].k
Children(f, p) == {q \in DOMAIN f : Len(q) = Len(p) + 1 /\ IsPrefix(p, q)}
Subtree(f, p)  == {q \in DOMAIN f : IsPrefix(p, q)}
Put(f, p, n)   == [q \in DOMAIN f \cup {p} |-> IF q = p THEN n ELSE f[q]]
Del(f, S)      == [q \in DOMAIN f \ S |-> f[q]]

(* ---- lexical cleaning (filepath.Clean) ---------------------------------*)
RECURSIVE CleanStk(_, _, _)
\* stk: components kept so far; abs: absolute path (".." at the root is dropped) or relative (leading ".." kept)
CleanStk(stk, rest, abs) ==
  IF rest = <<>> THEN stk
  ELSE LET c == Head(rest) tl == Tail(rest) IN
       IF c = "." \/ c = "" THEN CleanStk(stk, tl, abs)
       ELSE IF c = ".." THEN
              IF stk # <<>> /\ stk[Len(stk)] # ".." THEN CleanStk(SubSeq(stk, 1, Len(stk) - 1), tl, abs)
              ELSE IF abs THEN CleanStk(stk, tl, abs)
              ELSE CleanStk(Append(stk, ".."), tl, abs)
       ELSE CleanStk(Append(stk, c), tl, abs)
CleanAbs(p) == CleanStk(<<>>, p, TRUE)
CleanRel(p) == CleanStk(<<>>, p, FALSE)     \* <<>> stands for "."

(* ---- path resolution ---------------------------------------------------*)
RECURSIVE Walk(_, _, _, _, _)
\* Resolve `rest` starting in the real directory `cur`.  follow: follow a symbolic link in the FINAL component.
\* Result [st, p, final]:
\*   "ok"     p = real path of the node reached (never a link when follow)
\*   "noent"  a component does not exist; final = TRUE: it is the last one and p is the real path it would have
\*   "notdir" a non-final component is not a directory;  "loop" too many links
Walk(f, cur, rest, follow, fuel) ==
  IF rest = <<>> THEN [st |-> "ok", p |-> cur, final |-> FALSE]
  ELSE IF Kind(f, cur) # "dir" THEN [st |-> "notdir", p |-> cur, final |-> FALSE]
  ELSE LET c == Head(rest) tl == Tail(rest) IN
    IF c = "." \/ c = "" THEN Walk(f, cur, tl, follow, fuel)
    ELSE IF c = ".." THEN Walk(f, Dirname(cur), tl, follow, fuel)
    ELSE LET q == Append(cur, c) IN
      IF ~Exists(f, q) THEN [st |-> "noent", p |-> q, final |-> (tl = <<>>)]
      ELSE IF f[q].k = "link" /\ (tl # <<>> \/ follow) THEN
             IF fuel = 0 THEN [st |-> "loop", p |-> q, final |-> FALSE]
             ELSE Walk(f, IF f[q].abs THEN <<>> ELSE cur, f[q].t \o tl, follow, fuel - 1)
      ELSE IF tl = <<>> THEN [st |-> "ok", p |-> q, final |-> FALSE]
      ELSE Walk(f, q, tl, follow, fuel)

Stat(f, p)  == Walk(f, <<>>, p, TRUE, Fuel)      \* stat(2), open(2), chmod(2), opendir: final link followed
Lstat(f, p) == Walk(f, <<>>, p, FALSE, Fuel)     \* lstat, mkdir, unlink, rmdir, symlink, link, readlink
IsDirAt(f, p)  == LET r == Stat(f, p) IN r.st = "ok" /\ Kind(f, r.p) = "dir"
\* filepath.EvalSymlinks: the real path of an existing object (error otherwise)
EvalSymlinks(f, p) == Stat(f, p)

(* ---- system calls: results [ok, f] (+ fields) ; failed calls leave f unchanged ---*)
SysMkdirM(f, p, m) ==
  LET r == Lstat(f, p) IN
  IF r.st = "noent" /\ r.final THEN [ok |-> TRUE, f |-> Put(f, r.p, [DirN EXCEPT !.m = m]), at |-> r.p]
  ELSE [ok |-> FALSE, f |-> f, at |-> <<>>]
SysMkdir(f, p) == SysMkdirM(f, p, "d")

RECURSIVE MkdirAllM(_, _, _)
\* os.MkdirAll(p, mode) (fast path Stat; parent first; Mkdir; on failure accept an existing directory); every
\* directory it creates gets the mode class m, existing ones are left alone
MkdirAllM(f, p, m) ==
  LET s == Stat(f, p) IN
  IF s.st = "ok" THEN [ok |-> Kind(f, s.p) = "dir", f |-> f]
  ELSE LET par == IF p = <<>> THEN [ok |-> TRUE, f |-> f] ELSE MkdirAllM(f, Dirname(p), m) IN
       IF ~par.ok THEN [ok |-> FALSE, f |-> par.f]
       ELSE LET mk == SysMkdirM(par.f, p, m) IN
            IF mk.ok THEN [ok |-> TRUE, f |-> mk.f]
            ELSE LET l == Lstat(par.f, p) IN
                 [ok |-> (l.st = "ok" /\ Kind(par.f, l.p) = "dir"), f |-> par.f]
MkdirAll(f, p) == MkdirAllM(f, p, "d")

\* os.OpenFile(p, O_CREATE|O_WRONLY|O_TRUNC) followed by writing content c.
\* A dangling symbolic link in the final component is followed: the file is created at the link's target.
\* Result additionally: d (new data), ni (next free inode), at (real path written), created
OpenWrite(f, d, ni, p, c) ==
  LET r == Stat(f, p) IN
  IF r.st = "ok" /\ Kind(f, r.p) = "file"
    THEN [ok |-> TRUE, f |-> f, d |-> [d EXCEPT ![f[r.p].i] = c], ni |-> ni, at |-> r.p, created |-> FALSE]
  ELSE IF r.st = "noent" /\ r.final
    THEN [ok |-> TRUE, f |-> Put(f, r.p, FileN(ni)), d |-> [j \in DOMAIN d \cup {ni} |-> IF j = ni THEN c ELSE d[j]],
          ni |-> ni + 1, at |-> r.p, created |-> TRUE]
  ELSE [ok |-> FALSE, f |-> f, d |-> d, ni |-> ni, at |-> <<>>, created |-> FALSE]

\* os.Remove: unlink, or rmdir of an empty directory; never follows the final component
SysRemove(f, p) ==
  LET r == Lstat(f, p) IN
  IF r.st = "ok" /\ r.p # <<>> /\ (Kind(f, r.p) # "dir" \/ Children(f, r.p) = {})
    THEN [ok |-> TRUE, f |-> Del(f, {r.p}), at |-> {r.p}]
  ELSE [ok |-> FALSE, f |-> f, at |-> {}]

\* os.RemoveAll: parent resolved through links, the object itself and everything below never followed;
\* a missing path is success
SysRemoveAll(f, p) ==
  LET r == Lstat(f, p) IN
  IF r.st = "ok" /\ r.p # <<>> THEN [ok |-> TRUE, f |-> Del(f, Subtree(f, r.p)), at |-> Subtree(f, r.p)]
  ELSE IF r.st = "noent" THEN [ok |-> TRUE, f |-> f, at |-> {}]
  ELSE [ok |-> FALSE, f |-> f, at |-> {}]

SysSymlink(f, abs, target, p) ==
  LET r == Lstat(f, p) IN
  IF r.st = "noent" /\ r.final THEN [ok |-> TRUE, f |-> Put(f, r.p, LinkN(abs, target)), at |-> r.p]
  ELSE [ok |-> FALSE, f |-> f, at |-> <<>>]

\* link(2) as issued by os.Link: the old path's final symbolic link is NOT followed (the link itself is linked)
SysLink(f, old, new) ==
  LET ro == Lstat(f, old) rn == Lstat(f, new) IN
  IF ro.st = "ok" /\ Kind(f, ro.p) # "dir" /\ rn.st = "noent" /\ rn.final
    THEN [ok |-> TRUE, f |-> Put(f, rn.p, f[ro.p]), at |-> rn.p, src |-> ro.p]
  ELSE [ok |-> FALSE, f |-> f, at |-> <<>>, src |-> <<>>]

SysChmod(f, p, m) ==
  LET r == Stat(f, p) IN
  IF r.st = "ok" /\ r.p # <<>> THEN [ok |-> TRUE, f |-> [f EXCEPT ![r.p].m = m], at |-> r.p]
  ELSE [ok |-> FALSE, f |-> f, at |-> <<>>]
=============================================================================
