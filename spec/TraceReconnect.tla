-------------------------- MODULE TraceReconnect --------------------------
(* Trace validation for C31: executions recorded from the real Reconnector   *)
(* (random schedules over several addresses, real timers firing in whatever  *)
(* order they fire) and from the real peer.Manager against a dead address    *)
(* must be behaviours of Reconnect.  One event per spec action; `st` is the  *)
(* projected real state after the event (compared when cmp = TRUE; a count   *)
(* of -1 means "not observable here").  Executions are separated by Reset.   *)
EXTENDS Reconnect, IOUtils, Integers

VARIABLE l
Trace == ndJsonDeserialize(IOEnv.TRACE_FILE)
ev == Trace[l]

TraceInit == Init /\ l = 1 /\ TLCSet(1, 1)

Consume(name) == l <= Len(Trace) /\ ev.ev = name /\ l' = l + 1

Matches ==
  ev.cmp =>
    /\ paused' = ev.st.paused /\ closed' = ev.st.closed
    /\ \A a \in Addr :
         /\ ex'[a] = ev.st.ex[a] /\ att'[a] = ev.st.att[a] /\ idx'[a] = ev.st.idx[a]
         /\ (ev.st.gate[a] >= 0 => Len(gate'[a]) = ev.st.gate[a])
         /\ (ev.st.infl[a] >= 0 => Len(infl'[a]) = ev.st.infl[a])

ResIs == ev.res # "" => last'.res = ev.res

Same == UNCHANGED <<asleep, aggr>>
TraceSchedule   == Consume("Schedule") /\ Schedule(ev.a) /\ ResIs /\ Matches /\ Same
TraceCbSchedule == Consume("CbSchedule") /\ CbSchedule(ev.a) /\ ResIs /\ Matches /\ Same
TraceTimerFire  == Consume("TimerFire") /\ TimerFire(ev.a, ev.i) /\ Matches /\ Same
TraceRelease    == Consume("Release") /\ Release(ev.a, ev.i) /\ ResIs /\ Matches /\ Same
TraceAttemptEnd == Consume("AttemptEnd") /\ AttemptEnd(ev.a, ev.j, ev.ok) /\ ResIs /\ Matches /\ Same
TracePause      == Consume("Pause") /\ Pause /\ Matches /\ Same
TraceResume     == Consume("Resume") /\ Resume /\ Matches /\ Same
TraceResetAll   == Consume("ResetAll") /\ ResetAll /\ Matches /\ Same
TraceCancel     == Consume("Cancel") /\ Cancel(ev.a) /\ Matches /\ Same
TraceStop       == Consume("Stop") /\ Stop /\ Matches /\ Same

\* agent level (cmesh): observed are the agent's sleep state, whether its reconnector is paused, and every dial
\* of its transport; `failed` lists the peers whose dial failed
AgentMatches == ev.cmp => (paused' = ev.st.paused /\ asleep' = ev.st.asleep)
FailedSet == {ev.failed[k] : k \in 1..Len(ev.failed)}
TraceAgentSleep == Consume("AgentSleep") /\ AgentSleep /\ AgentMatches
TraceAgentWake  == Consume("AgentWake") /\ AgentWake(FailedSet) /\ AgentMatches
\* a tick that dialed; ticks that end an activity silently are not observable and need no event (MaxTicks is large)
TraceAggrTick   == Consume("AggressiveTick") /\ (\E i \in 1..Len(aggr) : AggressiveTick(i, FailedSet)) /\ ResIs /\ AgentMatches
TraceReset ==
  /\ Consume("Reset")
  /\ paused' = FALSE /\ closed' = FALSE
  /\ ex' = [a \in Addr |-> FALSE] /\ att' = [a \in Addr |-> 0] /\ idx' = [a \in Addr |-> 0]
  /\ nd' = [a \in Addr |-> 0] /\ cons' = [a \in Addr |-> 0]
  /\ pend' = [a \in Addr |-> <<>>] /\ gate' = [a \in Addr |-> <<>>] /\ infl' = [a \in Addr |-> <<>>]
  /\ asleep' = FALSE /\ aggr' = <<>>
  /\ last' = [act |-> "Init"]

TraceNext == \/ TraceSchedule \/ TraceCbSchedule \/ TraceTimerFire \/ TraceRelease \/ TraceAttemptEnd
             \/ TracePause \/ TraceResume \/ TraceResetAll \/ TraceCancel \/ TraceStop \/ TraceReset
             \/ TraceAgentSleep \/ TraceAgentWake \/ TraceAggrTick

HighWater == TLCSet(1, IF l > TLCGet(1) THEN l ELSE TLCGet(1))
TraceAccepted == /\ PrintT("HW " \o ToString(TLCGet(1)))
                 /\ PrintT("LEN " \o ToString(Len(Trace)))
                 /\ TLCGet(1) = Len(Trace) + 1
=============================================================================
