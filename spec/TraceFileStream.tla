-------------------------- MODULE TraceFileStream --------------------------
(* Trace validation for FileStream (G05): runs of the project's OWN        *)
(* initiator (Agent.UploadFile / DownloadFile / DownloadFileStream) against *)
(* a real responder through a real transit.  The harness                   *)
(* (harness/agent/filestream_test.go, TestZZVFileStreamHonest) decrypts    *)
(* every frame on the responder's link with the session key captured at    *)
(* the crypto.derive hook and logs one event per frame of the initiator    *)
(* (consecutive data frames are one Data event) with the class of the      *)
(* frames the responder sent in reaction (rc), and one IReturn event with  *)
(* the result of the API call, the destination file, the responder's table *)
(* and staging directory and the initiator's stream table.  Many scenarios *)
(* are concatenated; a Start event carries the set-up record.              *)
EXTENDS FileStream, IOUtils

VARIABLES l
Trace == ndJsonDeserialize(IOEnv.TRACE_FILE)
ev == Trace[l]

TraceInit == Init /\ l = 1 /\ TLCSet(1, 1)
Consume(name) == l <= Len(Trace) /\ ev.ev = name /\ l' = l + 1

\* class of the responder's reaction, as the harness computes it from the frames
RC == LET r == last'.reply IN
      IF r = <<>> THEN "none"
      ELSE IF r = <<"ack">> THEN "ack"
      ELSE IF r = <<"close">> THEN "closed"
      ELSE IF r = ErrReply(why') THEN "rejected:" \o why'
      ELSE IF r = <<"operr:" \o why'>> THEN "operr:" \o why'
      ELSE IF Head(r) = "respmeta:" \o ToString(cfg.fsize) /\ r[Len(r)] = "close" THEN "served"
      ELSE "other"

TraceStart ==
  /\ Consume("Start")
  /\ cfg' = ev.cfg
  /\ rph' = "Idle" /\ why' = "none" /\ owner' = "none" /\ xentry' = 0 /\ tmp' = -1 /\ orphan' = -1 /\ final' = InitFinal(ev.cfg)
  /\ sent' = 0 /\ authOK' = FALSE /\ nclose' = 0 /\ nlate' = 0 /\ opens' = 0 /\ removals' = 0 /\ palive' = TRUE
  /\ xopened' = FALSE /\ ist' = "none" /\ istream' = 0 /\ idst' = InitLocal(ev.cfg)
  /\ last' = NoAct

TraceFrame ==
  /\ \/ Consume("Open") /\ Open
     \/ Consume("Meta") /\ Meta(ev.cls)
     \/ Consume("Data") /\ Data(ev.n)
     \/ Consume("Fin") /\ Fin(ev.n)
     \/ Consume("Close") /\ Teardown("Close")
     \/ Consume("Reset") /\ Teardown("Reset")
  /\ RC = ev.rc

\* the remote destination of an upload as the harness classifies it
RemoteOK(d) == CASE d = "na" -> TRUE
                 [] d = "complete" -> final'.st = "new"
                 [] d \in {"old", "absent", "dir"} -> final'.st = d
                 [] OTHER -> FALSE

TraceReturn ==
  /\ Consume("IReturn")
  /\ IReturn(ev.res, ev.dst)
  /\ (owner' = "p") <=> (ev.table = 1)
  /\ (tmp' >= 0 \/ orphan' >= 0) <=> (ev.tmp = 1)
  /\ istream' = ev.istream
  /\ RemoteOK(ev.rdst)

TraceNext == TraceStart \/ TraceFrame \/ TraceReturn
TraceSpec == TraceInit /\ [][TraceNext]_<<vars, l>>

HighWater == TLCSet(1, IF l > TLCGet(1) THEN l ELSE TLCGet(1))
TraceAccepted == /\ PrintT("HW " \o ToString(TLCGet(1)))
                 /\ PrintT("LEN " \o ToString(Len(Trace)))
                 /\ TLCGet(1) = Len(Trace) + 1
=============================================================================
