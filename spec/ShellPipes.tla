----------------------------- MODULE ShellPipes -----------------------------
(***************************************************************************)
(* Flow control of one streaming shell session at the exit (C07, shell     *)
(* stdin path): bytes written to the tunnel must reach the command and the *)
(* command's output must reach the client, for ANY size -- also when the   *)
(* command copies its input to its output (cat, tee, head, sed ...).       *)
(*                                                                         *)
(* Threads of shell.Handler for one ShellStream ss:                        *)
(*   handler  the peer's frame loop: HandleStreamData -> handleStdin(ss)   *)
(*            takes ss.mu, writes the message to the command's stdin pipe  *)
(*            (the write BLOCKS while the pipe is full)                    *)
(*   pump     pumpOutput: every iteration takes ss.mu to look at           *)
(*            ss.Session, releases it, then reads the stdout pipe and      *)
(*            sends what it got                                            *)
(*   command  reads its stdin pipe into a buffer, writes the buffer to its *)
(*            stdout pipe (blocks while that pipe is full)                 *)
(* Pipes have a finite capacity (64 KiB on Linux).  The ideal design       *)
(* releases ss.mu before the blocking write.                               *)
(***************************************************************************)
EXTENDS Integers, TLC

CONSTANTS N,        \* bytes of stdin the client sends
          Msg,      \* bytes per stdin message (shell client: 4096)
          CapIn, CapOut,   \* capacities of the stdin / stdout pipes
          CmdBuf,   \* buffer of the command
          PumpBuf,  \* buffer of the output pump
          Dev

DevNames == {"DevStdinWriteUnderLock"}
ASSUME Dev \subseteq DevNames

Min(a, b) == IF a < b THEN a ELSE b

VARIABLES toSend,   \* stdin bytes still in frames that the handler has not taken
          h, hrem,  \* handler: "idle" | "locked" (holds ss.mu) | "writing" (lock released) ; bytes of the message left
          lock,     \* ss.mu: "free" | "handler" | "pump"
          pin, pout,\* bytes in the stdin / stdout pipe
          cbuf,     \* bytes the command has read and not yet written
          p,        \* pump: "wait" (wants ss.mu) | "locked" | "read" (blocking read of the stdout pipe)
          delivered \* bytes of output sent to the client

vars == <<toSend, h, hrem, lock, pin, pout, cbuf, p, delivered>>

Init == /\ toSend = N /\ h = "idle" /\ hrem = 0 /\ lock = "free" /\ pin = 0 /\ pout = 0 /\ cbuf = 0
        /\ p = "wait" /\ delivered = 0

UnderLock == "DevStdinWriteUnderLock" \in Dev

HandlerTake ==      \* next MsgStdin frame: ss.mu.Lock()
  /\ h = "idle" /\ toSend > 0 /\ lock = "free"
  /\ lock' = "handler" /\ h' = "locked" /\ hrem' = Min(Msg, toSend) /\ toSend' = toSend - Min(Msg, toSend)
  /\ UNCHANGED <<pin, pout, cbuf, p, delivered>>

HandlerRelease ==   \* ideal: remember the session, ss.mu.Unlock(), then write
  /\ ~UnderLock /\ h = "locked"
  /\ lock' = "free" /\ h' = "writing"
  /\ UNCHANGED <<toSend, hrem, pin, pout, cbuf, p, delivered>>

HandlerWrite ==     \* Session.Stdin().Write: proceeds as far as the pipe has room
  /\ h = (IF UnderLock THEN "locked" ELSE "writing") /\ pin < CapIn
  /\ LET k == Min(hrem, CapIn - pin) IN
       /\ pin' = pin + k /\ hrem' = hrem - k
       /\ IF hrem - k = 0
            THEN h' = "idle" /\ lock' = (IF UnderLock THEN "free" ELSE lock)   \* deferred Unlock
            ELSE UNCHANGED <<h, lock>>
  /\ UNCHANGED <<toSend, pout, cbuf, p, delivered>>

PumpLock   == p = "wait" /\ lock = "free" /\ lock' = "pump" /\ p' = "locked"
              /\ UNCHANGED <<toSend, h, hrem, pin, pout, cbuf, delivered>>
PumpUnlock == p = "locked" /\ lock' = "free" /\ p' = "read"
              /\ UNCHANGED <<toSend, h, hrem, pin, pout, cbuf, delivered>>
PumpRead   == /\ p = "read" /\ pout > 0
              /\ pout' = pout - Min(PumpBuf, pout) /\ delivered' = delivered + Min(PumpBuf, pout) /\ p' = "wait"
              /\ UNCHANGED <<toSend, h, hrem, lock, pin, cbuf>>

CmdRead  == cbuf = 0 /\ pin > 0 /\ cbuf' = Min(CmdBuf, pin) /\ pin' = pin - Min(CmdBuf, pin)
            /\ UNCHANGED <<toSend, h, hrem, lock, pout, p, delivered>>
CmdWrite == cbuf > 0 /\ pout < CapOut /\ pout' = pout + Min(cbuf, CapOut - pout) /\ cbuf' = cbuf - Min(cbuf, CapOut - pout)
            /\ UNCHANGED <<toSend, h, hrem, lock, pin, p, delivered>>

Next == HandlerTake \/ HandlerRelease \/ HandlerWrite \/ PumpLock \/ PumpUnlock \/ PumpRead \/ CmdRead \/ CmdWrite
Spec == Init /\ [][Next]_vars

TypeOK == /\ toSend \in 0..N /\ hrem \in 0..Msg /\ pin \in 0..CapIn /\ pout \in 0..CapOut /\ cbuf \in 0..CmdBuf
          /\ delivered \in 0..N /\ lock \in {"free", "handler", "pump"}
\* no byte is lost or invented on the way
Conservation == toSend + hrem + pin + cbuf + pout + delivered = N
\* C07 (shell path): whatever the size, the session can always make progress until every byte is delivered
NoStall == delivered = N \/ ENABLED Next
\* mutual exclusion of ss.mu
LockOK == (lock = "handler") = (h = "locked") /\ (lock = "pump") = (p = "locked")
=============================================================================
