---------------------------- MODULE FileAccess ----------------------------
(***************************************************************************)
(* File transfer / remote browsing / archive extraction of Muti-Metroo     *)
(* (internal/filetransfer: stream.go, browse.go, tar.go) over the small    *)
(* file system of FsCore.tla.                                              *)
(*                                                                         *)
(* Part X (C27): UntarDirectory.  A behaviour is  Begin, Extract(e1),      *)
(* Extract(e2), ...: the extraction of the archive <<e1, e2, ...>> into    *)
(* the destination directory Dest; every archive over the entry alphabet   *)
(* (Kinds x Names x Targets) up to MaxEntries entries is a behaviour.      *)
(* Invariant NoEscape: nothing outside Dest is created, modified, hard-    *)
(* linked or deleted.                                                      *)
(*                                                                         *)
(* Part A (C26): the transfer / browse operations under an allowed-path    *)
(* configuration (see the second half of the module).                      *)
(*                                                                         *)
(* The ideal actions transcribe the code as repaired (symbolic links are   *)
(* resolved before a path is validated / used); the deviations (constant   *)
(* Dev) transcribe what the pinned tree did:                               *)
(*   DevLexicalOnly         paths are validated only lexically             *)
(*   DevFinalComponentOnly  download checks a symbolic link only in the    *)
(*                          final component of the requested path          *)
(*   DevNoLinkChecks        the second extractor of the pinned tree        *)
(*                          (health.extractTarWithFallback): only          *)
(*                          Clean(Join(dest, name)) is tested for          *)
(*                          containment, symbolic links are created with   *)
(*                          any target, hard links are skipped             *)
(*   DevPrefixNoSeparator   "inside the destination" tested as a string    *)
(*                          prefix without the path separator: the sibling *)
(*                          /w/ox counts as inside /w/o                    *)
(*   DevChmodDir            a directory entry's mode is applied with       *)
(*                          chmod after MkdirAll (follows a final link)    *)
(***************************************************************************)
EXTENDS FsCore, TLC, Json

CONSTANTS Dev,         \* enabled deviations
          Emit,        \* TRUE: print every transition as JSON
          Part,        \* "X" archive extraction, "A" access operations
          \* ---- part X
          Kinds,       \* subset of {"dir","file","sym","hard"}
          Names,       \* entry names: set of component sequences (may contain "..", ".")
          Targets,     \* symbolic link targets: <<"rel"|"abs", c1, c2, ...>>
          MaxEntries,
          ModeNames,   \* names for which a directory entry with a non-default mode ("dirc") is enumerated
          Only,        \* {} or a set of archives: only their prefixes are extracted (classification of observed runs)
          \* ---- part A
          Trees,       \* "enum": Init enumerates trees; otherwise unused
          Slots,       \* candidate paths below the abstract root that a tree may populate
          LinkTargets, \* targets of symbolic links in trees: <<"rel"|"abs", c1, ...>>
          MaxLinks, MaxNodes,
          Patterns,    \* allowed-path configurations: each a set of patterns (sequences; "*" / "**" components)
          Requests,    \* requested paths: <<"abs"|"rel", c1, ...>> (components may be "..", ".", "\001")
          Ops,         \* subset of {"upload","uploaddir","download","list","stat","chmod","delete","rdelete"}
          MaxOps

DevNames == {"DevLexicalOnly", "DevFinalComponentOnly", "DevNoLinkChecks", "DevPrefixNoSeparator", "DevChmodDir"}
ASSUME Dev \subseteq DevNames /\ Part \in {"X", "A"}

VARIABLES fs, data, nino,   \* file system (FsCore), file contents per inode, next free inode
          st,               \* X: "new" | "open" | "err" (extraction stopped with an error) ; A: "run"
          n,                \* number of entries extracted / operations performed
          pats,             \* A: the allowed-path configuration
          touched,          \* A ghost: set of [v, p]: verb and REAL path touched by the operations so far
          hist, last        \* observation only (hidden by VIEW)

vars == <<fs, data, nino, st, n, pats, touched, hist, last>>
view == <<fs, data, nino, st, n, pats, touched>>
viewH == <<fs, data, nino, st, n, pats, touched, hist>>

TAbs(t)   == t[1] = "abs"
TComps(t) == Tail(t)

\* JSON projection of a file system: one record per node, file content inlined
Nodes(f, d) == {[p |-> q, k |-> f[q].k, i |-> f[q].i, abs |-> f[q].abs, t |-> f[q].t, m |-> f[q].m,
                 c |-> IF f[q].k = "file" THEN d[f[q].i] ELSE ""] : q \in DOMAIN f}

Fail(f, d, ni) == [ok |-> FALSE, f |-> f, d |-> d, ni |-> ni]
Good(f, d, ni) == [ok |-> TRUE, f |-> f, d |-> d, ni |-> ni]

(***************************************************************************)
(* Part X: archive extraction                                              *)
(***************************************************************************)
Dest == <<"w", "o">>
Within(p) == IsPrefix(Dest, p)

\* the world before extraction: sentinels next to the destination and one level further out; the sibling directory
\* "ox" has the destination's name as a string prefix
XWorld == (<<"s">> :> FileN(1)) @@ (<<"w">> :> DirN) @@ (<<"w", "s">> :> FileN(2)) @@
          (<<"w", "t">> :> DirN) @@ (<<"w", "t", "s">> :> FileN(3)) @@
          (<<"w", "ox">> :> DirN) @@ (<<"w", "ox", "s">> :> FileN(4))
XData  == (1 :> "s") @@ (2 :> "s") @@ (3 :> "s") @@ (4 :> "s")
\* what the code's containment tests accept (NoEscape itself always uses Within)
In(p) == Within(p) \/ ("DevPrefixNoSeparator" \in Dev /\ IsPrefix(<<"w", "ox">>, p))

Entries ==
  {[kind |-> "dir",  name |-> nm, target |-> <<>>] : nm \in IF "dir" \in Kinds THEN Names ELSE {}} \cup
  \* "dirc": a directory entry with a non-default mode (0750)
  {[kind |-> "dirc", name |-> nm, target |-> <<>>] : nm \in IF "dirc" \in Kinds THEN Names \cap ModeNames ELSE {}} \cup
  {[kind |-> "file", name |-> nm, target |-> <<>>] : nm \in IF "file" \in Kinds THEN Names ELSE {}} \cup
  {[kind |-> "sym",  name |-> nm, target |-> t] : nm \in IF "sym" \in Kinds THEN Names ELSE {}, t \in Targets} \cup
  {[kind |-> "hard", name |-> nm, target |-> t] : nm \in IF "hard" \in Kinds THEN Names ELSE {}, t \in Names}

\* tar.go sanitizeTarPath: Clean, no absolute names (not in the alphabet), no leading "..", joined to the destination
San(name) == LET c == CleanRel(name) IN
             IF c # <<>> /\ c[1] = ".." THEN [ok |-> FALSE, p |-> <<>>] ELSE [ok |-> TRUE, p |-> Dest \o c]

\* tar.go validateSymlink: no absolute target; Clean(Join(Dir(link), target)) lexically inside the destination
SymlinkOK(linkPath, t) == ~TAbs(t) /\ In(CleanAbs(Dirname(linkPath) \o TComps(t)))

\* Repaired code, resolveInDest: the physical location of a lexically sanitised path.  Walks the components below
\* the (real) destination; an existing symbolic link component is resolved with EvalSymlinks and must stay inside
\* the destination; components that do not exist yet are taken literally (they will be created as directories);
\* the final component is never examined.
RECURSIVE RID(_, _, _)
RID(f, cur, rest) ==
  IF Len(rest) = 1 THEN [ok |-> TRUE, p |-> Append(cur, rest[1])]
  ELSE LET next == Append(cur, Head(rest))
           l == Lstat(f, next) IN
       IF l.st = "noent" THEN [ok |-> TRUE, p |-> next \o Tail(rest)]
       ELSE IF l.st # "ok" THEN [ok |-> FALSE, p |-> <<>>]
       ELSE IF f[next].k = "link" THEN
              LET e == EvalSymlinks(f, next) IN
              IF e.st # "ok" \/ ~In(e.p) THEN [ok |-> FALSE, p |-> <<>>] ELSE RID(f, e.p, Tail(rest))
       ELSE RID(f, next, Tail(rest))
ResolveInDest(f, tp) == IF tp = Dest THEN [ok |-> TRUE, p |-> Dest]
                        ELSE RID(f, Dest, SubSeq(tp, Len(Dest) + 1, Len(tp)))

\* where an entry is extracted: lexical target path (pinned tree) or its physical location (repaired)
NoChecks == "DevNoLinkChecks" \in Dev
Lexical  == "DevLexicalOnly" \in Dev \/ NoChecks
\* pinned health extractor: filepath.Join(dest, name) (cleaned) must have the destination as prefix
SanJoin(name) == LET tp == CleanAbs(Dest \o name) IN [ok |-> Within(tp), p |-> tp]
Locate(f, name) ==
  LET s == IF NoChecks THEN SanJoin(name) ELSE San(name) IN
  IF ~s.ok THEN s
  ELSE IF Lexical THEN s ELSE ResolveInDest(f, s.p)

\* os.MkdirAll(target, header.Mode): missing directories are created with the entry's mode, an existing one is kept
ExDir(f, d, ni, tp, mode) ==
  LET m == MkdirAllM(f, tp, mode) IN
  IF m.ok /\ "DevChmodDir" \in Dev
    THEN LET c == SysChmod(m.f, tp, mode) IN [ok |-> c.ok, f |-> c.f, d |-> d, ni |-> ni]
    ELSE [ok |-> m.ok, f |-> m.f, d |-> d, ni |-> ni]

ExFile(f, d, ni, tp) ==
  LET m == MkdirAll(f, Dirname(tp)) IN
  IF ~m.ok THEN Fail(m.f, d, ni)
  ELSE LET l == Lstat(m.f, tp)
           \* repaired: a symbolic link in the final component is replaced, not written through
           f1 == IF ~Lexical /\ l.st = "ok" /\ Kind(m.f, l.p) = "link"
                   THEN SysRemove(m.f, tp).f ELSE m.f
           w == OpenWrite(f1, d, ni, tp, "n") IN
       [ok |-> w.ok, f |-> w.f, d |-> w.d, ni |-> w.ni]

ExSym(f, d, ni, tp, t) ==
  IF ~NoChecks /\ ~SymlinkOK(tp, t) THEN Fail(f, d, ni)
  ELSE LET m == MkdirAll(f, Dirname(tp)) IN
       IF ~m.ok THEN Fail(m.f, d, ni)
       ELSE LET r == SysRemove(m.f, tp)                       \* result ignored by the code
                s == SysSymlink(r.f, TAbs(t), TComps(t), tp) IN
            [ok |-> s.ok, f |-> s.f, d |-> d, ni |-> ni]

ExHard(f, d, ni, tp, lname) ==
  LET src == Locate(f, lname) IN
  IF ~src.ok THEN Fail(f, d, ni)
  ELSE LET m == MkdirAll(f, Dirname(tp)) IN
       IF ~m.ok THEN Fail(m.f, d, ni)
       ELSE LET r == SysRemove(m.f, tp)
                s == SysLink(r.f, src.p, tp) IN
            [ok |-> s.ok, f |-> s.f, d |-> d, ni |-> ni]

ExtractEntry(f, d, ni, e) ==
  LET loc == Locate(f, e.name) IN
  IF ~loc.ok THEN Fail(f, d, ni)
  ELSE CASE e.kind = "dir"  -> ExDir(f, d, ni, loc.p, "d")
         [] e.kind = "dirc" -> ExDir(f, d, ni, loc.p, "c")
         [] e.kind = "file" -> ExFile(f, d, ni, loc.p)
         [] e.kind = "sym"  -> ExSym(f, d, ni, loc.p, e.target)
         [] e.kind = "hard" -> IF NoChecks THEN Good(f, d, ni)       \* entry type not handled: skipped
                               ELSE ExHard(f, d, ni, loc.p, e.target)

XInit ==
  /\ fs = XWorld /\ data = XData /\ nino = 5
  /\ st = "new" /\ n = 0 /\ pats = {} /\ touched = {}
  /\ hist = <<>> /\ last = [act |-> "Init"]

\* UntarDirectory up to its loop: MkdirAll(destDir) (the gzip/tar readers have no file system effect)
Begin ==
  /\ st = "new"
  /\ LET m == IF NoChecks THEN [ok |-> TRUE, f |-> fs]      \* (that extractor expects an existing directory)
              ELSE MkdirAll(fs, Dest) IN
     /\ fs' = m.f
     /\ st' = IF m.ok THEN "open" ELSE "err"
     /\ last' = [act |-> "Begin", ok |-> m.ok]
  /\ UNCHANGED <<data, nino, n, pats, touched, hist>>

Extract(e) ==
  /\ st = "open" /\ n < MaxEntries
  /\ Only = {} \/ \E a \in Only : IsPrefix(Append(hist, e), a)
  /\ LET r == ExtractEntry(fs, data, nino, e) IN
     /\ fs' = r.f /\ data' = r.d /\ nino' = r.ni
     /\ st' = IF r.ok THEN "open" ELSE "err"
     /\ last' = [act |-> "Extract", e |-> e, ok |-> r.ok]
  /\ n' = n + 1
  /\ hist' = Append(hist, e)
  /\ UNCHANGED <<pats, touched>>

XNext == Begin \/ \E e \in Entries : Extract(e)

\* C27: everything outside the destination is as it was: same nodes, same contents, and no path inside the
\* destination is a hard link to a file outside
Outside(f) == {q \in DOMAIN f : ~Within(q)}
NoEscapeOf(f, d) ==
  /\ Outside(f) = Outside(XWorld)
  /\ \A q \in Outside(f) : f[q] = XWorld[q]
  /\ \A i \in DOMAIN XData : d[i] = XData[i]
  /\ \A q \in DOMAIN f : Within(q) /\ f[q].k = "file" => f[q].i \notin DOMAIN XData
NoEscape == NoEscapeOf(fs, data)

\* sanity of the model: keys are physical paths, parents are directories, inodes have contents
WellFormed ==
  /\ \A q \in DOMAIN fs : Exists(fs, Dirname(q)) /\ Kind(fs, Dirname(q)) = "dir"
  /\ \A q \in DOMAIN fs : fs[q].k = "file" => fs[q].i \in DOMAIN data

XEmitEdge ==
  Emit => PrintT("EDGE " \o ToJson([arch |-> hist', a |-> last', st |-> st', esc |-> ~NoEscapeOf(fs', data'),
                                     t |-> Nodes(fs', data')]))

(***************************************************************************)
(* Part A: file transfer and remote browsing under an allowed-path         *)
(* configuration (stream.go, browse.go, called from agent.go as            *)
(*   upload:   ValidateUploadMetadata   then WriteUploadedFile             *)
(*   download: ValidateDownloadMetadata then ReadFileForDownload           *)
(*   list / stat / chmod / delete: Browse).                                *)
(* An initial state is a directory tree (every assignment of absent / file *)
(* / dir / symbolic link to the Slots with at most MaxLinks links and      *)
(* MaxNodes nodes) below the allowed root /r, a fixed sentinel tree /o     *)
(* outside it, and an allowed-path configuration; Access(op, req) is one   *)
(* request.  `touched` records the REAL paths an operation read, listed or *)
(* modified.                                                               *)
(***************************************************************************)
AWorld == (<<"r">> :> DirN) @@ (<<"o">> :> DirN) @@ (<<"o", "a">> :> FileN(1)) @@
          (<<"o", "b">> :> DirN) @@ (<<"o", "b", "a">> :> FileN(2))
NSlots == Len(Slots)
Choices == {<<"absent">>, <<"file">>, <<"dir">>} \cup {<<"link">> \o t : t \in LinkTargets}
SlotNode(i, c) == IF c[1] = "file" THEN FileN(2 + i)
                  ELSE IF c[1] = "dir" THEN DirN
                  ELSE LinkN(c[2] = "abs", SubSeq(c, 3, Len(c)))
ValidAsg(asg) ==
  /\ \A i \in 1..NSlots : asg[i][1] # "absent" =>
        \/ Dirname(Slots[i]) \in DOMAIN AWorld
        \/ \E j \in 1..NSlots : Slots[j] = Dirname(Slots[i]) /\ asg[j][1] = "dir"
  /\ Cardinality({i \in 1..NSlots : asg[i][1] = "link"}) <= MaxLinks
  /\ Cardinality({i \in 1..NSlots : asg[i][1] # "absent"}) <= MaxNodes
BuildFs(asg) ==
  LET used == {i \in 1..NSlots : asg[i][1] # "absent"}
      idx(q) == CHOOSE i \in used : Slots[i] = q IN
  [q \in DOMAIN AWorld \cup {Slots[i] : i \in used} |->
      IF q \in DOMAIN AWorld THEN AWorld[q] ELSE SlotNode(idx(q), asg[idx(q)])]
AData == [i \in 1..(2 + NSlots) |-> ToString(i)]

(* ---- lexical validation: stream.go validatePath / isPathAllowed ---------*)
ReqComps(r) == Tail(r)
Wild == <<"rel", "*">>
Dangerous(r) == \E i \in 1..Len(ReqComps(r)) : ReqComps(r)[i] = "^A"      \* a control character in the path
MatchP(pc, path) == Len(pc) = Len(path) /\ \A i \in 1..Len(pc) : pc[i] = "*" \/ pc[i] = path[i]
HasGlob(pc) == \E i \in 1..Len(pc) : pc[i] = "*"
\* isPathAllowed(path, pattern) for a cleaned absolute path
PathAllowed(path, pat) ==
  LET pc == CleanAbs(Tail(pat)) IN
  IF pat[1] # "abs" THEN FALSE
  ELSE IF pc # <<>> /\ pc[Len(pc)] = "**" THEN IsPrefix(SubSeq(pc, 1, Len(pc) - 1), path)
  ELSE IF HasGlob(pc) THEN \E k \in 1..Len(path) : MatchP(pc, SubSeq(path, 1, k))   \* the path or an ancestor
  ELSE IsPrefix(pc, path)
LexPath(path, ps) == \E pat \in ps : pat = Wild \/ PathAllowed(path, pat)
Lex(req, ps) == ~Dangerous(req) /\ req[1] = "abs" /\ LexPath(CleanAbs(ReqComps(req)), ps)

(* ---- repaired code: resolve, then validate the real path ----------------*)
\* resolveExisting: the real path of p; where p does not exist yet, the real path of its deepest existing ancestor
\* plus the remaining elements; a dangling symbolic link is refused
RECURSIVE RE(_, _)
RE(f, p) ==
  LET e == EvalSymlinks(f, p) IN
  IF e.st = "ok" THEN [ok |-> TRUE, p |-> e.p]
  ELSE IF e.st # "noent" \/ p = <<>> THEN [ok |-> FALSE, p |-> <<>>]
  ELSE LET d == RE(f, Dirname(p)) IN
       IF ~d.ok THEN d
       ELSE LET q == Append(d.p, Base(p)) IN
            IF Exists(f, q) /\ f[q].k = "link" THEN [ok |-> FALSE, p |-> <<>>] ELSE [ok |-> TRUE, p |-> q]
\* patternBaseDir, and the pattern with its base directory resolved (an allowed root may itself be a link)
PatBase(pc) == IF pc # <<>> /\ pc[Len(pc)] = "**" THEN SubSeq(pc, 1, Len(pc) - 1)
               ELSE IF HasGlob(pc) THEN SubSeq(pc, 1, (CHOOSE i \in 1..Len(pc) : pc[i] = "*" /\ \A j \in 1..(i - 1) : pc[j] # "*") - 1)
               ELSE pc
PatResolved(f, pat) ==
  IF pat[1] # "abs" THEN pat
  ELSE LET pc == CleanAbs(Tail(pat))
           b == PatBase(pc)
           e == EvalSymlinks(f, b) IN
       IF e.st = "ok" /\ e.p # b THEN <<"abs">> \o e.p \o SubSeq(pc, Len(b) + 1, Len(pc)) ELSE pat
\* "inside the configured allowed paths, after symbolic links are resolved" (also the oracle of the invariant)
RealAllowed(f, ps, real) == \E pat \in ps : pat = Wild \/ PathAllowed(real, pat) \/ PathAllowed(real, PatResolved(f, pat))
Full(f, ps, req) ==
  /\ Lex(req, ps)
  /\ LET cp == CleanAbs(ReqComps(req)) r == RE(f, cp) IN r.ok /\ (r.p = cp \/ RealAllowed(f, ps, r.p))
\* stream.go validateSymlinkTarget (download): only a symbolic link in the final component is resolved and checked
FinalCheck(f, ps, cp) ==
  LET l == Lstat(f, cp) IN
  IF l.st # "ok" \/ Kind(f, l.p) # "link" THEN TRUE
  ELSE LET e == EvalSymlinks(f, cp) IN e.st = "ok" /\ LexPath(e.p, ps)

Validate(f, ps, op, req) ==
  IF op = "download"
    THEN /\ IF "DevFinalComponentOnly" \in Dev THEN Lex(req, ps) ELSE Full(f, ps, req)
         /\ FinalCheck(f, ps, CleanAbs(ReqComps(req)))     \* kept by the repaired code (purely lexical on the target)
    ELSE IF "DevLexicalOnly" \in Dev THEN Lex(req, ps) ELSE Full(f, ps, req)

(* ---- the operations on the (lexically cleaned) path, as the OS executes them ---*)
LinkText(nd) == IF nd.k = "link" THEN <<IF nd.abs THEN "abs" ELSE "rel">> \o nd.t ELSE <<>>
\* browse.go buildFileEntry / statPath: a link entry reports the type of its target (when it resolves)
EntryOf(f, q) ==
  LET nd == f[q] IN
  [link |-> nd.k = "link", lt |-> LinkText(nd),
   dir |-> IF nd.k = "link" THEN IsDirAt(f, q) ELSE nd.k = "dir"]
NoRet == [kind |-> "none"]
ARes(ok, f, d, ni, ret, extra) == [ok |-> ok, f |-> f, d |-> d, ni |-> ni, ret |-> ret, extra |-> extra]

OpUpload(f, d, ni, cp) ==                   \* WriteUploadedFile: MkdirAll(Dir), OpenFile(O_CREATE|O_TRUNC), copy
  LET m == MkdirAll(f, Dirname(cp)) IN
  IF ~m.ok THEN ARes(FALSE, m.f, d, ni, NoRet, {})
  ELSE LET w == OpenWrite(m.f, d, ni, cp, "n") IN ARes(w.ok, w.f, w.d, w.ni, NoRet, {})

OpDownload(f, d, ni, cp) ==                 \* os.Stat; file: Open + read; directory: TarDirectory (Walk, no follow)
  LET s == Stat(f, cp) IN
  IF s.st # "ok" THEN ARes(FALSE, f, d, ni, NoRet, {})
  ELSE IF Kind(f, s.p) = "file"
    THEN ARes(TRUE, f, d, ni, [kind |-> "file", c |-> d[f[s.p].i]], {[v |-> "read", p |-> s.p]})
  ELSE IF Kind(f, Lstat(f, cp).p) = "link"
    \* quirk: filepath.Walk does not descend into a root that is itself a symbolic link: empty archive
    THEN ARes(TRUE, f, d, ni, [kind |-> "dir", ents |-> {}], {})
  ELSE LET sub == Subtree(f, s.p) \ {s.p} IN
       ARes(TRUE, f, d, ni,
            [kind |-> "dir",
             ents |-> {[p |-> SubSeq(q, Len(s.p) + 1, Len(q)), k |-> f[q].k, lt |-> LinkText(f[q]),
                        c |-> IF f[q].k = "file" THEN d[f[q].i] ELSE ""] : q \in sub}],
            {[v |-> "list", p |-> s.p]} \cup {[v |-> "list", p |-> q] : q \in {x \in sub : f[x].k = "dir"}}
              \cup {[v |-> "read", p |-> q] : q \in {x \in sub : f[x].k = "file"}})

OpList(f, d, ni, cp) ==                     \* os.Stat must be a directory; os.ReadDir; one entry per child
  LET s == Stat(f, cp) IN
  IF s.st # "ok" \/ Kind(f, s.p) # "dir" THEN ARes(FALSE, f, d, ni, NoRet, {})
  ELSE ARes(TRUE, f, d, ni,
            [kind |-> "list", ents |-> {[name |-> Base(q), e |-> EntryOf(f, q)] : q \in Children(f, s.p)}],
            {[v |-> "list", p |-> s.p]})

OpStat(f, d, ni, cp) ==                     \* statPath: Lstat
  LET l == Lstat(f, cp) IN
  IF l.st # "ok" \/ l.p = <<>> THEN ARes(FALSE, f, d, ni, NoRet, {})
  ELSE ARes(TRUE, f, d, ni, [kind |-> "entry", e |-> EntryOf(f, l.p)], {[v |-> "stat", p |-> l.p]})

OpChmod(f, d, ni, cp) ==                    \* os.Chmod (follows a final link), then statPath
  LET c == SysChmod(f, cp, "c") IN
  IF ~c.ok THEN ARes(FALSE, f, d, ni, NoRet, {})
  ELSE LET l == Lstat(c.f, cp) IN
       ARes(TRUE, c.f, d, ni, [kind |-> "entry", e |-> EntryOf(c.f, l.p)], {})

OpDelete(f, d, ni, cp, rec) ==              \* statPath; directory: ReadDir, refuse non-empty unless recursive; Remove / RemoveAll
  LET l == Lstat(f, cp) IN
  IF l.st # "ok" \/ l.p = <<>> THEN ARes(FALSE, f, d, ni, NoRet, {})
  ELSE LET isdir == EntryOf(f, l.p).dir
           rd == Stat(f, cp) IN
       IF isdir /\ Children(f, rd.p) # {} /\ ~rec THEN ARes(FALSE, f, d, ni, NoRet, {[v |-> "stat", p |-> rd.p]})
       ELSE LET r == IF rec /\ isdir THEN SysRemoveAll(f, cp) ELSE SysRemove(f, cp) IN
            ARes(r.ok, r.f, d, ni, NoRet, IF isdir THEN {[v |-> "stat", p |-> rd.p]} ELSE {})

Perform(op, f, d, ni, cp) ==
  CASE op = "upload"   -> OpUpload(f, d, ni, cp)
    [] op = "download" -> OpDownload(f, d, ni, cp)
    [] op = "list"     -> OpList(f, d, ni, cp)
    [] op = "stat"     -> OpStat(f, d, ni, cp)
    [] op = "chmod"    -> OpChmod(f, d, ni, cp)
    [] op = "delete"   -> OpDelete(f, d, ni, cp, FALSE)
    [] op = "rdelete"  -> OpDelete(f, d, ni, cp, TRUE)

\* real paths whose node appeared, disappeared or changed (kind, link target, mode, content)
Mod(f, d, f2, d2) ==
  {[v |-> "mod", p |-> q] : q \in {x \in DOMAIN f \cup DOMAIN f2 :
      \/ x \notin DOMAIN f \/ x \notin DOMAIN f2
      \/ f[x] # f2[x]
      \/ f[x].k = "file" /\ d[f[x].i] # d2[f2[x].i]}}

AInit ==
  /\ \E asg \in [1..NSlots -> Choices] : ValidAsg(asg) /\ fs = BuildFs(asg)
  /\ data = AData /\ nino = 3 + NSlots
  /\ pats \in Patterns
  /\ st = "run" /\ n = 0 /\ touched = {}
  /\ hist = <<>> /\ last = [act |-> "Init"]

Access(op, req) ==
  /\ st = "run" /\ n < MaxOps
  /\ LET cp == CleanAbs(ReqComps(req))
         valid == Validate(fs, pats, op, req)
         r == IF valid THEN Perform(op, fs, data, nino, cp) ELSE ARes(FALSE, fs, data, nino, NoRet, {})
         tch == r.extra \cup Mod(fs, data, r.f, r.d)
         tgt == RE(fs, cp)
         \* creating the missing parent directories of an allowed destination is part of creating that destination
         \* (a pattern such as /r/*/a does not match the intermediate directory /r/x itself)
         ImpliedDir(q) == /\ q \notin DOMAIN fs /\ q \in DOMAIN r.f /\ r.f[q].k = "dir"
                          /\ tgt.ok /\ IsPrefix(q, tgt.p) /\ q # tgt.p /\ RealAllowed(fs, pats, tgt.p) IN
     /\ fs' = r.f /\ data' = r.d /\ nino' = r.ni
     /\ touched' = touched \cup {[v |-> t.v, p |-> t.p,
                                  allowed |-> RealAllowed(fs, pats, t.p) \/ (t.v = "mod" /\ ImpliedDir(t.p))] : t \in tch}
     /\ last' = [act |-> "Access", op |-> op, req |-> req, valid |-> valid, ok |-> r.ok, ret |-> r.ret]
  /\ n' = n + 1
  /\ hist' = hist
  /\ UNCHANGED <<st, pats>>

ANext == \E op \in Ops, req \in Requests : Access(op, req)

\* C26: whatever is read, listed, written, created, chmod-ed or deleted lies inside the allowed paths after
\* resolution; with no allowed paths nothing at all is touched (not even stat-ed)
AccessInv ==
  /\ \A t \in touched : t.v \in {"mod", "read", "list"} => t.allowed
  /\ pats = {} => touched = {}

AEmitEdge ==
  Emit => PrintT("EDGE " \o ToJson([tree |-> Nodes(fs, data), pats |-> pats, a |-> last',
                                     t |-> IF fs' = fs /\ data' = data THEN {} ELSE Nodes(fs', data'),
                                     same |-> (fs' = fs /\ data' = data),
                                     tch |-> touched' \ touched]))
=============================================================================
