---------------------------- MODULE FileAccess ----------------------------
(***************************************************************************)
(* File transfer / remote browsing / archive extraction of Muti-Metroo     *)
(* (internal/filetransfer: stream.go, browse.go, tar.go) over the small    *)
(* file system of FsCore.tla.                                              *)
(*                                                                         *)
(* Part X (C27): UntarDirectory.  A behaviour is  Begin, Extract(e1),      *)
(* Extract(e2), ...: the extraction of the archive <<e1, e2, ...>> into    *)
(* the destination directory Dest; every archive over the entry alphabet   *)
(* (Kinds x Names x Targets) up to MaxEntries entries is a behaviour.      *)
(* Invariant NoEscape: nothing outside Dest is created, modified, hard-    *)
(* linked or deleted.                                                      *)
(*                                                                         *)
(* Part A (C26): the transfer / browse operations under an allowed-path    *)
(* configuration (see the second half of the module).                      *)
(*                                                                         *)
(* The ideal actions transcribe the code as repaired (symbolic links are   *)
(* resolved before a path is validated / used); the deviations (constant   *)
(* Dev) transcribe what the pinned tree did:                               *)
(*   DevLexicalOnly         paths are validated only lexically             *)
(*   DevFinalComponentOnly  download checks a symbolic link only in the    *)
(*                          final component of the requested path          *)
(***************************************************************************)
EXTENDS FsCore, TLC, Json

CONSTANTS Dev,         \* enabled deviations
          Emit,        \* TRUE: print every transition as JSON
          Part,        \* "X" archive extraction, "A" access operations
          \* ---- part X
          Kinds,       \* subset of {"dir","file","sym","hard"}
          Names,       \* entry names: set of component sequences (may contain "..", ".")
          Targets,     \* symbolic link targets: <<"rel"|"abs", c1, c2, ...>>
          MaxEntries,
          \* ---- part A
          Trees,       \* "enum": Init enumerates trees; otherwise unused
          Slots,       \* candidate paths below the abstract root that a tree may populate
          LinkTargets, \* targets of symbolic links in trees: <<"rel"|"abs", c1, ...>>
          MaxLinks, MaxNodes,
          Patterns,    \* allowed-path configurations: each a set of patterns (sequences; "*" / "**" components)
          Requests,    \* requested paths: <<"abs"|"rel", c1, ...>> (components may be "..", ".", "\001")
          Ops,         \* subset of {"upload","uploaddir","download","list","stat","chmod","delete","rdelete"}
          MaxOps

DevNames == {"DevLexicalOnly", "DevFinalComponentOnly"}
ASSUME Dev \subseteq DevNames /\ Part \in {"X", "A"}

VARIABLES fs, data, nino,   \* file system (FsCore), file contents per inode, next free inode
          st,               \* X: "new" | "open" | "err" (extraction stopped with an error) ; A: "run"
          n,                \* number of entries extracted / operations performed
          pats,             \* A: the allowed-path configuration
          touched,          \* A ghost: set of [v, p]: verb and REAL path touched by the operations so far
          hist, last        \* observation only (hidden by VIEW)

vars == <<fs, data, nino, st, n, pats, touched, hist, last>>
view == <<fs, data, nino, st, n, pats, touched>>

TAbs(t)   == t[1] = "abs"
TComps(t) == Tail(t)

\* JSON projection of a file system: one record per node, file content inlined
Nodes(f, d) == {[p |-> q, k |-> f[q].k, i |-> f[q].i, abs |-> f[q].abs, t |-> f[q].t, m |-> f[q].m,
                 c |-> IF f[q].k = "file" THEN d[f[q].i] ELSE ""] : q \in DOMAIN f}

Fail(f, d, ni) == [ok |-> FALSE, f |-> f, d |-> d, ni |-> ni]
Good(f, d, ni) == [ok |-> TRUE, f |-> f, d |-> d, ni |-> ni]

(***************************************************************************)
(* Part X: archive extraction                                              *)
(***************************************************************************)
Dest == <<"w", "o">>
Within(p) == IsPrefix(Dest, p)

\* the world before extraction: sentinels next to the destination and one level further out
XWorld == (<<"s">> :> FileN(1)) @@ (<<"w">> :> DirN) @@ (<<"w", "s">> :> FileN(2)) @@
          (<<"w", "t">> :> DirN) @@ (<<"w", "t", "s">> :> FileN(3))
XData  == (1 :> "s") @@ (2 :> "s") @@ (3 :> "s")

Entries ==
  {[kind |-> "dir",  name |-> nm, target |-> <<>>] : nm \in IF "dir" \in Kinds THEN Names ELSE {}} \cup
  {[kind |-> "file", name |-> nm, target |-> <<>>] : nm \in IF "file" \in Kinds THEN Names ELSE {}} \cup
  {[kind |-> "sym",  name |-> nm, target |-> t] : nm \in IF "sym" \in Kinds THEN Names ELSE {}, t \in Targets} \cup
  {[kind |-> "hard", name |-> nm, target |-> t] : nm \in IF "hard" \in Kinds THEN Names ELSE {}, t \in Names}

\* tar.go sanitizeTarPath: Clean, no absolute names (not in the alphabet), no leading "..", joined to the destination
San(name) == LET c == CleanRel(name) IN
             IF c # <<>> /\ c[1] = ".." THEN [ok |-> FALSE, p |-> <<>>] ELSE [ok |-> TRUE, p |-> Dest \o c]

\* tar.go validateSymlink: no absolute target; Clean(Join(Dir(link), target)) lexically inside the destination
SymlinkOK(linkPath, t) == ~TAbs(t) /\ Within(CleanAbs(Dirname(linkPath) \o TComps(t)))

\* Repaired code, resolveInDest: the physical location of a lexically sanitised path.  Walks the components below
\* the (real) destination; an existing symbolic link component is resolved with EvalSymlinks and must stay inside
\* the destination; components that do not exist yet are taken literally (they will be created as directories);
\* the final component is never examined.
RECURSIVE RID(_, _, _)
RID(f, cur, rest) ==
  IF Len(rest) = 1 THEN [ok |-> TRUE, p |-> Append(cur, rest[1])]
  ELSE LET next == Append(cur, Head(rest))
           l == Lstat(f, next) IN
       IF l.st = "noent" THEN [ok |-> TRUE, p |-> next \o Tail(rest)]
       ELSE IF l.st # "ok" THEN [ok |-> FALSE, p |-> <<>>]
       ELSE IF f[next].k = "link" THEN
              LET e == EvalSymlinks(f, next) IN
              IF e.st # "ok" \/ ~Within(e.p) THEN [ok |-> FALSE, p |-> <<>>] ELSE RID(f, e.p, Tail(rest))
       ELSE RID(f, next, Tail(rest))
ResolveInDest(f, tp) == IF tp = Dest THEN [ok |-> TRUE, p |-> Dest]
                        ELSE RID(f, Dest, SubSeq(tp, Len(Dest) + 1, Len(tp)))

\* where an entry is extracted: lexical target path (pinned tree) or its physical location (repaired)
Locate(f, name) ==
  LET s == San(name) IN
  IF ~s.ok THEN s
  ELSE IF "DevLexicalOnly" \in Dev THEN s ELSE ResolveInDest(f, s.p)

ExDir(f, d, ni, tp) == LET m == MkdirAll(f, tp) IN [ok |-> m.ok, f |-> m.f, d |-> d, ni |-> ni]

ExFile(f, d, ni, tp) ==
  LET m == MkdirAll(f, Dirname(tp)) IN
  IF ~m.ok THEN Fail(m.f, d, ni)
  ELSE LET l == Lstat(m.f, tp)
           \* repaired: a symbolic link in the final component is replaced, not written through
           f1 == IF "DevLexicalOnly" \notin Dev /\ l.st = "ok" /\ Kind(m.f, l.p) = "link"
                   THEN SysRemove(m.f, tp).f ELSE m.f
           w == OpenWrite(f1, d, ni, tp, "n") IN
       [ok |-> w.ok, f |-> w.f, d |-> w.d, ni |-> w.ni]

ExSym(f, d, ni, tp, t) ==
  IF ~SymlinkOK(tp, t) THEN Fail(f, d, ni)
  ELSE LET m == MkdirAll(f, Dirname(tp)) IN
       IF ~m.ok THEN Fail(m.f, d, ni)
       ELSE LET r == SysRemove(m.f, tp)                       \* result ignored by the code
                s == SysSymlink(r.f, FALSE, TComps(t), tp) IN
            [ok |-> s.ok, f |-> s.f, d |-> d, ni |-> ni]

ExHard(f, d, ni, tp, lname) ==
  LET src == Locate(f, lname) IN
  IF ~src.ok THEN Fail(f, d, ni)
  ELSE LET m == MkdirAll(f, Dirname(tp)) IN
       IF ~m.ok THEN Fail(m.f, d, ni)
       ELSE LET r == SysRemove(m.f, tp)
                s == SysLink(r.f, src.p, tp) IN
            [ok |-> s.ok, f |-> s.f, d |-> d, ni |-> ni]

ExtractEntry(f, d, ni, e) ==
  LET loc == Locate(f, e.name) IN
  IF ~loc.ok THEN Fail(f, d, ni)
  ELSE CASE e.kind = "dir"  -> ExDir(f, d, ni, loc.p)
         [] e.kind = "file" -> ExFile(f, d, ni, loc.p)
         [] e.kind = "sym"  -> ExSym(f, d, ni, loc.p, e.target)
         [] e.kind = "hard" -> ExHard(f, d, ni, loc.p, e.target)

XInit ==
  /\ fs = XWorld /\ data = XData /\ nino = 4
  /\ st = "new" /\ n = 0 /\ pats = {} /\ touched = {}
  /\ hist = <<>> /\ last = [act |-> "Init"]

\* UntarDirectory up to its loop: MkdirAll(destDir) (the gzip/tar readers have no file system effect)
Begin ==
  /\ st = "new"
  /\ LET m == MkdirAll(fs, Dest) IN
     /\ fs' = m.f
     /\ st' = IF m.ok THEN "open" ELSE "err"
     /\ last' = [act |-> "Begin", ok |-> m.ok]
  /\ UNCHANGED <<data, nino, n, pats, touched, hist>>

Extract(e) ==
  /\ st = "open" /\ n < MaxEntries
  /\ LET r == ExtractEntry(fs, data, nino, e) IN
     /\ fs' = r.f /\ data' = r.d /\ nino' = r.ni
     /\ st' = IF r.ok THEN "open" ELSE "err"
     /\ last' = [act |-> "Extract", e |-> e, ok |-> r.ok]
  /\ n' = n + 1
  /\ hist' = Append(hist, e)
  /\ UNCHANGED <<pats, touched>>

XNext == Begin \/ \E e \in Entries : Extract(e)

\* C27: everything outside the destination is as it was: same nodes, same contents, and no path inside the
\* destination is a hard link to a file outside
Outside(f) == {q \in DOMAIN f : ~Within(q)}
NoEscape ==
  /\ Outside(fs) = Outside(XWorld)
  /\ \A q \in Outside(fs) : fs[q] = XWorld[q]
  /\ \A i \in DOMAIN XData : data[i] = XData[i]
  /\ \A q \in DOMAIN fs : Within(q) /\ fs[q].k = "file" => fs[q].i \notin DOMAIN XData

\* sanity of the model: keys are physical paths, parents are directories, inodes have contents
WellFormed ==
  /\ \A q \in DOMAIN fs : Exists(fs, Dirname(q)) /\ Kind(fs, Dirname(q)) = "dir"
  /\ \A q \in DOMAIN fs : fs[q].k = "file" => fs[q].i \in DOMAIN data

XEmitEdge ==
  Emit => PrintT("EDGE " \o ToJson([arch |-> hist', a |-> last', st |-> st',
                                     t |-> Nodes(fs', data')]))
=============================================================================
