------------------------------ MODULE ExitConn ------------------------------
(***************************************************************************)
(* Half-close and close at the EXIT side of a tunnel (internal/exit        *)
(* Handler), the counterpart of Stream.tla (C18).                          *)
(*                                                                         *)
(* Two exit connections "p" and "q" of one exit.Handler, each a TCP socket *)
(* to a destination, opened by a STREAM_OPEN (real dial, real key          *)
(* exchange).  Frames from the ingress (Handler.HandleStreamData):         *)
(*   Frame(c, pl, fin)   pl = "none"  (no payload),                        *)
(*                            "empty" (an encrypted EMPTY chunk: what the  *)
(*                                     project's own ingress sends with a  *)
(*                                     FIN),                               *)
(*                            "data"  (an encrypted chunk),                *)
(*                       fin = the FIN_WRITE flag.  The payload is written *)
(*                       to the destination, THEN the destination socket   *)
(*                       is half-closed.  A chunk (even an empty one) after*)
(*                       the FIN cannot be written any more: the           *)
(*                       connection is closed.                             *)
(*   Close(c), Reset(c)  Handler.HandleStreamClose / HandleStreamReset     *)
(* The destination:                                                        *)
(*   DestSend(c)         writes a chunk: the handler's read loop encrypts  *)
(*                       it and sends it back as a STREAM_DATA frame       *)
(*   DestFin(c)          half-closes: the read loop sends an (empty)       *)
(*                       FIN_WRITE frame and then closes the connection    *)
(*                       (STREAM_CLOSE) - this is what the code does       *)
(* All of them also for a connection that is gone (unknown stream).        *)
(*                                                                         *)
(* Deviations:                                                             *)
(*   DevExitFinDropsPayload  a FIN-flagged frame half-closes the           *)
(*                           destination without writing its payload       *)
(*   DevExitCloseAll         a close / reset closes every connection       *)
(***************************************************************************)
EXTENDS Naturals, Sequences, FiniteSets, TLC, Json

CONSTANTS MaxFrames,  \* frames from the ingress (both connections together)
          MaxDest,    \* chunks a destination sends
          Dev, Emit

Conns == {"p", "q"}
Other(c) == IF c = "p" THEN "q" ELSE "p"
Payloads == {"none", "empty", "data"}
DevNames == {"DevExitFinDropsPayload", "DevExitCloseAll"}
ASSUME Dev \subseteq DevNames
FIN == 0   \* marker of the FIN_WRITE frame in `back`

VARIABLES up,      \* [Conns -> BOOLEAN]  connection registered at the handler
          wfin,    \* [Conns -> BOOLEAN]  the destination socket's write side has been shut (FIN forwarded)
          recv,    \* [Conns -> Seq(Nat)] chunks the destination has received, in order
          deof,    \* [Conns -> BOOLEAN]  the destination has seen end-of-stream
          nin,     \* [Conns -> Nat]      data chunks sent by the ingress to a live connection (numbers the chunks)
          dfin,    \* [Conns -> BOOLEAN]  the destination has half-closed
          nout,    \* [Conns -> Nat]      chunks written by the destination
          back,    \* [Conns -> Seq(Nat)] what the ingress got back: chunk numbers, FIN (0) for the FIN_WRITE frame
          bclose,  \* [Conns -> Nat]      STREAM_CLOSE frames sent to the ingress
          nframes,
          \* ghosts
          arrived, \* [Conns -> Seq(Nat)] chunks that arrived before or together with the first FIN frame
          finSeen,
          last

core == <<up, wfin, recv, deof, nin, dfin, nout, back, bclose, nframes>>
ghost == <<arrived, finSeen>>
vars == <<core, ghost, last>>
view == <<core, ghost>>

Init ==
  /\ up = [c \in Conns |-> TRUE] /\ wfin = [c \in Conns |-> FALSE] /\ recv = [c \in Conns |-> <<>>]
  /\ deof = [c \in Conns |-> FALSE] /\ nin = [c \in Conns |-> 0] /\ dfin = [c \in Conns |-> FALSE]
  /\ nout = [c \in Conns |-> 0] /\ back = [c \in Conns |-> <<>>] /\ bclose = [c \in Conns |-> 0] /\ nframes = 0
  /\ arrived = [c \in Conns |-> <<>>] /\ finSeen = [c \in Conns |-> FALSE]
  /\ last = [act |-> "Init"]

\* closeConnection for the set V of connections
CloseSet(V) ==
  /\ up' = [x \in Conns |-> up[x] /\ x \notin V]
  /\ deof' = [x \in Conns |-> deof[x] \/ (x \in V /\ up[x])]
  /\ bclose' = [x \in Conns |-> IF x \in V /\ up[x] THEN bclose[x] + 1 ELSE bclose[x]]

(* Handler.HandleStreamData *)
Frame(c, pl, fin) ==
  /\ nframes < MaxFrames /\ nframes' = nframes + 1
  /\ IF ~up[c]
       THEN /\ UNCHANGED <<up, wfin, recv, deof, nin, dfin, nout, back, bclose, ghost>>
            /\ last' = [act |-> "Frame", c |-> c, pl |-> pl, fin |-> fin, res |-> "unknown"]
       ELSE LET k == IF pl = "data" THEN nin[c] + 1 ELSE 0 IN
            /\ nin' = [nin EXCEPT ![c] = IF pl = "data" THEN @ + 1 ELSE @]
            /\ arrived' = IF pl = "data" /\ ~finSeen[c] THEN [arrived EXCEPT ![c] = Append(@, k)] ELSE arrived
            /\ finSeen' = [finSeen EXCEPT ![c] = @ \/ fin]
            /\ UNCHANGED <<dfin, nout, back>>
            /\ IF "DevExitFinDropsPayload" \in Dev /\ fin
                 THEN /\ wfin' = [wfin EXCEPT ![c] = TRUE] /\ deof' = [deof EXCEPT ![c] = TRUE]
                      /\ UNCHANGED <<up, recv, bclose>>
                      /\ last' = [act |-> "Frame", c |-> c, pl |-> pl, fin |-> fin, res |-> "ok"]
                 ELSE IF pl # "none" /\ wfin[c]
                   THEN \* the destination's write side is shut: the write (also of an empty chunk, e.g. a second FIN
                        \* from the ingress) fails, the connection is closed
                        /\ CloseSet({c}) /\ UNCHANGED <<wfin, recv>>
                        /\ last' = [act |-> "Frame", c |-> c, pl |-> pl, fin |-> fin, res |-> "err"]
                   ELSE /\ recv' = IF pl = "data" THEN [recv EXCEPT ![c] = Append(@, k)] ELSE recv
                        /\ wfin' = [wfin EXCEPT ![c] = @ \/ fin]
                        /\ deof' = [deof EXCEPT ![c] = @ \/ fin]
                        /\ UNCHANGED <<up, bclose>>
                        /\ last' = [act |-> "Frame", c |-> c, pl |-> pl, fin |-> fin, res |-> "ok"]

(* Handler.HandleStreamClose / HandleStreamReset *)
Teardown(c, kind) ==
  /\ CloseSet(IF "DevExitCloseAll" \in Dev /\ up[c] THEN Conns ELSE {c})
  /\ UNCHANGED <<wfin, recv, nin, dfin, nout, back, nframes, ghost>>
  /\ last' = [act |-> kind, c |-> c, pl |-> "none", fin |-> FALSE, res |-> IF up[c] THEN "ok" ELSE "noop"]

(* the destination writes a chunk *)
DestSend(c) ==
  /\ up[c] /\ ~dfin[c] /\ nout[c] < MaxDest
  /\ nout' = [nout EXCEPT ![c] = @ + 1]
  /\ back' = [back EXCEPT ![c] = Append(@, nout[c] + 1)]
  /\ UNCHANGED <<up, wfin, recv, deof, nin, dfin, bclose, nframes, ghost>>
  /\ last' = [act |-> "DestSend", c |-> c, pl |-> "none", fin |-> FALSE, res |-> "ok"]

(* the destination half-closes: FIN_WRITE frame to the ingress, then the handler closes the connection *)
DestFin(c) ==
  /\ up[c] /\ ~dfin[c]
  /\ dfin' = [dfin EXCEPT ![c] = TRUE]
  /\ back' = [back EXCEPT ![c] = Append(@, FIN)]
  /\ CloseSet({c})
  /\ UNCHANGED <<wfin, recv, nin, nout, nframes, ghost>>
  /\ last' = [act |-> "DestFin", c |-> c, pl |-> "none", fin |-> FALSE, res |-> "ok"]

Next ==
  \/ \E c \in Conns, pl \in Payloads, fin \in BOOLEAN : Frame(c, pl, fin)
  \/ \E c \in Conns : Teardown(c, "Close") \/ Teardown(c, "Reset") \/ DestSend(c) \/ DestFin(c)

Spec == Init /\ [][Next]_vars

(* ---- properties ----------------------------------------------------------- *)
TypeOK == /\ up \in [Conns -> BOOLEAN] /\ wfin \in [Conns -> BOOLEAN] /\ \A c \in Conns : bclose[c] <= 1
\* the destination sees end-of-stream (caused by the FIN) only after all data that arrived before or with the FIN
DestDataBeforeEOF == \A c \in Conns : wfin[c] => recv[c] = arrived[c]
\* in order, no gaps, no duplicates - towards the destination and back
DestFifo == \A c \in Conns : \A i \in 1..Len(recv[c]) : recv[c][i] = i
BackFifo == \A c \in Conns : \A i \in 1..Len(back[c]) :
               IF back[c][i] = FIN THEN i = Len(back[c]) ELSE back[c][i] = i
\* a close / reset touches only the addressed connection
PerConn(x) == <<up[x], wfin[x], recv[x], deof[x], back[x], bclose[x]>>
Isolation == [][\A c \in Conns : (last'.act \in {"Close", "Reset"} /\ last'.c = c)
                   => PerConn(Other(c))' = PerConn(Other(c))]_vars

State == [up |-> up, wfin |-> wfin, recv |-> recv, deof |-> deof, nin |-> nin, dfin |-> dfin, nout |-> nout,
          back |-> back, bclose |-> bclose, nframes |-> nframes, arrived |-> arrived, finSeen |-> finSeen]
EmitEdge == Emit => PrintT("EDGE " \o ToJson([s |-> State, a |-> last', t |-> State']))
=============================================================================
