------------------------- MODULE TraceKeyAgreement -------------------------
(* Trace validation (code -> spec) for KeyAgreement: what the cmesh harness  *)
(* observed on the links and at the `crypto.derive` hook of REAL agents must *)
(* be a behaviour of the spec.  One ndjson event per spec action:            *)
(*   Open   an OPEN frame (STREAM_OPEN / UDP_OPEN / ICMP_OPEN) on link `hop` *)
(*          decoded: rid, ephemeral key, per-hop stream id, from, to         *)
(*   Derive a key derivation: the arguments DeriveSessionKey was called with *)
(*          and the fingerprint of its result                                *)
(*   Ack / Err   the answer frames, decoded                                  *)
(*   Data   a data-carrying frame: `ct` identifies the ciphertext bytes,     *)
(*          `sealed` = it decrypts under a key derived for this tunnel,      *)
(*          `marker` = the frame contains the plaintext marker               *)
(*   Recv   the frame reached the endpoint of the tunnel                     *)
(*   Close  a CLOSE / RESET frame of the tunnel on the last link towards the *)
(*          exit; what the exit still sends afterwards must be sealed under  *)
(*          the tunnel key (never plaintext, never a wiped key)              *)
(*   Timeout the ingress gave up waiting for the answer to its OPEN (a data  *)
(*          frame of that tunnel afterwards - or before any key is held -    *)
(*          has no matching action: rejected)                                *)
(*   Reset  next scenario                                                    *)
(* Identifiers (request ids, stream ids, key fingerprints) are strings; the  *)
(* private key of an endpoint is represented by the fingerprint of its       *)
(* public key.  Required, because the spec's actions are re-used:            *)
(*   responder derives with exactly (rid, ipub) of the OPEN that reached it  *)
(*   and the rpub that its ACK then carries; initiator derives with its own  *)
(*   rid / ipub and the ACK's rpub; equal inputs <=> equal key fingerprints; *)
(*   at most one derivation per endpoint, none by anybody else; every data   *)
(*   frame on every link sealed under the tunnel key, marker never visible;  *)
(*   relays forward rid / keys / ciphertexts unchanged.                      *)
EXTENDS KeyAgreement, IOUtils

VARIABLES l,      \* next event
          fpOf    \* set of <<symbolic key, fingerprint>> seen so far (kept across scenarios)

Trace == ndJsonDeserialize(IOEnv.TRACE_FILE)
ev == Trace[l]

TraceInit == Init /\ l = 1 /\ fpOf = {} /\ TLCSet(1, 1)
Consume(name) == l <= Len(Trace) /\ ev.ev = name /\ l' = l + 1

Fwd(h) == ev.from = Path[h] /\ ev.to = Path[h + 1]
Bwd(h) == ev.from = Path[h + 1] /\ ev.to = Path[h]
BodyId(b) == IF "k" \in DOMAIN b THEN b.c ELSE b.plain

\* `degenerate`: the key in the frame is all-zero or another degenerate encoding.  The endpoints of a traced tunnel are
\* honest real agents: they must always offer a real key (for every kind), and relays must not replace it.
TraceOpen ==
  /\ Consume("Open") /\ UNCHANGED fpOf /\ Fwd(ev.hop)
  /\ ev.degenerate = FALSE
  /\ IF ev.hop = 1
       THEN IngressOpen(ev.t, ev.kind, ev.rid, ev.sid, ev.ipub, "honest")
       ELSE \E f \in links[ev.hop - 1] :
               /\ f.t = ev.t /\ f.typ = "OPEN" /\ f.rid = Id(ev.rid) /\ f.pub = Pub(ev.ipub)
               /\ RelayOpen(ev.hop, f, ev.sid)

\* the key as the symbolic function of the arguments the code really passed
Logged == KDF([dh |-> {ev.ipub, ev.rpub}], Id(ev.rid), Pub(ev.ipub), Pub(ev.rpub))

TraceDerive ==
  /\ Consume("Derive")
  /\ IF ev.init
       THEN /\ ev.agent = "I"
            /\ \E f \in links[1] : f.t = ev.t /\ InitDerive(ev.t, f)
            /\ tun'[ev.t].ikey = Logged
       ELSE /\ ev.agent = "X"
            /\ \E f \in links[LastHop] :
                  /\ f.t = ev.t
                  \* the exit's own key is the logged one that is not the key it received
                  /\ RespondDerive(f, IF Pub(ev.ipub) = f.pub THEN ev.rpub ELSE ev.ipub)
            /\ tun'[ev.t].xkey = Logged
  \* equal inputs <=> equal fingerprints, over the whole run
  /\ \A b \in fpOf : (b[1] = Logged) <=> (b[2] = ev.key)
  /\ fpOf' = fpOf \cup {<<Logged, ev.key>>}

TraceAck ==
  /\ Consume("Ack") /\ UNCHANGED fpOf /\ Bwd(ev.hop)
  /\ ev.degenerate = FALSE
  /\ IF ev.hop = LastHop
       THEN /\ tun[ev.t].xrid = Id(ev.rid) /\ tun[ev.t].rk = Id(ev.rpub) /\ tun[ev.t].xsid = Id(ev.sid)
            /\ ExitAck(ev.t)
       ELSE \E f \in links[ev.hop + 1] :
               /\ f.t = ev.t /\ f.typ = "ACK" /\ f.rid = Id(ev.rid) /\ f.pub = Pub(ev.rpub)
               /\ \E e \in relay[ev.hop + 1] : e.down = f.sid /\ e.up = ev.sid
               /\ RelayBack(ev.hop + 1, f)

TraceErr ==
  /\ Consume("Err") /\ UNCHANGED fpOf /\ Bwd(ev.hop)
  /\ IF ev.hop = LastHop
       THEN IF tun[ev.t].xst = "derived"
              THEN ExitOpenErr(ev.t) /\ tun[ev.t].xrid = Id(ev.rid) /\ tun[ev.t].xsid = Id(ev.sid)
              ELSE \E f \in links[LastHop] : f.t = ev.t /\ f.rid = Id(ev.rid) /\ f.sid = ev.sid /\ ExitReject(f)
       ELSE \E f \in links[ev.hop + 1] :
               /\ f.t = ev.t /\ f.typ = "ERR" /\ f.rid = Id(ev.rid)
               /\ \E e \in relay[ev.hop + 1] : e.down = f.sid /\ e.up = ev.sid
               /\ RelayBack(ev.hop + 1, f)

\* the ingress consumed the error answer (its open call returned the error)
TraceFail ==
  /\ Consume("Fail") /\ UNCHANGED fpOf
  /\ \E f \in links[1] : f.t = ev.t /\ f.typ = "ERR" /\ InitFail(ev.t, f)

\* the open call of the ingress returned because its deadline expired / it was cancelled; no key is held
TraceTimeout ==
  /\ Consume("Timeout") /\ UNCHANGED fpOf
  /\ IngressOpenTimeout(ev.t)

\* a CLOSE / RESET of the tunnel has been written on the last link towards the exit
TraceClose ==
  /\ Consume("Close") /\ UNCHANGED fpOf
  /\ tun' = [tun EXCEPT ![ev.t] = [@ EXCEPT !.xst = IF @ = "open" THEN "closed" ELSE @]]
  /\ UNCHANGED <<links, relay, usedSid, knows, derivs>>

TraceData ==
  /\ Consume("Data") /\ UNCHANGED fpOf
  /\ ev.marker = FALSE                         \* plaintext never visible on a link
  /\ IF ev.dir = "fwd" THEN Fwd(ev.hop) ELSE Bwd(ev.hop)
  /\ IF ev.dir = "fwd" /\ ev.hop = 1
       THEN /\ tun[ev.t].isid = Id(ev.sid)
            /\ ev.sealed = (tun[ev.t].ist = "open")
            /\ SendData(ev.t, "I", ev.ct)
     ELSE IF ev.dir = "bwd" /\ ev.hop = LastHop
       THEN /\ tun[ev.t].xsid = Id(ev.sid)
            /\ IF tun[ev.t].xst = "closed"
                 \* the teardown has reached the exit: bytes it had already read (ExitRead ; ExitSeal)
                 THEN /\ ev.sealed = IsSealedUnder(ExitBody(ev.t, ev.ct), tun[ev.t].xkey)
                      /\ links' = [links EXCEPT ![LastHop] = @ \cup {Frame("DATA", "bwd", ev.sid, ev.t, NoVal, NoVal, ExitBody(ev.t, ev.ct))}]
                      /\ tun' = [tun EXCEPT ![ev.t] = [@ EXCEPT !.sentX = @ + 1]]
                      /\ UNCHANGED <<relay, usedSid, knows, derivs>>
                 ELSE /\ ev.sealed = (tun[ev.t].xst = "open")
                      /\ SendData(ev.t, "X", ev.ct)
     ELSE LET src == IF ev.dir = "fwd" THEN ev.hop - 1 ELSE ev.hop + 1
              p == IF ev.dir = "fwd" THEN ev.hop ELSE ev.hop + 1
          IN \E f \in links[src] :
               /\ f.t = ev.t /\ f.typ = "DATA" /\ f.dir = ev.dir
               /\ BodyId(f.body) = ev.ct                     \* ciphertext relayed unchanged
               /\ ev.sealed = ("k" \in DOMAIN f.body)
               /\ \E e \in relay[p] : e.t = ev.t /\ (IF ev.dir = "fwd" THEN e.down ELSE e.up) = ev.sid
               /\ RelayData(p, f)

TraceRecv ==
  /\ Consume("Recv") /\ UNCHANGED fpOf
  /\ \E f \in links[IF ev.side = "X" THEN LastHop ELSE 1] :
        f.t = ev.t /\ f.typ = "DATA" /\ BodyId(f.body) = ev.ct /\ RecvData(ev.side, f)

TraceReset ==
  /\ Consume("Reset") /\ UNCHANGED fpOf
  /\ tun' = [t \in Tunnels |-> NoTunnel]
  /\ links' = [h \in Hops |-> {}]
  /\ relay' = [p \in TransitPos |-> {}]
  /\ usedSid' = [h \in Hops |-> {}]
  /\ knows' = [a \in Agents |-> {}]
  /\ derivs' = {}

TraceNext == TraceOpen \/ TraceDerive \/ TraceAck \/ TraceErr \/ TraceFail \/ TraceTimeout \/ TraceClose \/ TraceData \/ TraceRecv
             \/ TraceReset
TraceSpec == TraceInit /\ [][TraceNext]_<<vars, l, fpOf>>

HighWater == TLCSet(1, IF l > TLCGet(1) THEN l ELSE TLCGet(1))
TraceAccepted == /\ PrintT("HW " \o ToString(TLCGet(1)))
                 /\ PrintT("LEN " \o ToString(Len(Trace)))
                 /\ TLCGet(1) = Len(Trace) + 1
=============================================================================
