------------------------------ MODULE Persist ------------------------------
(***************************************************************************)
(* Persistent agent state under process death (C34).                       *)
(*                                                                         *)
(* The data directory holds                                                *)
(*   id / idtmp      agent_id, agent_id.tmp           (identity.go)        *)
(*   key / keytmp    agent_key, agent_key.tmp         (keypair.go)         *)
(*   pub / pubtmp    agent_key.pub, agent_key.pub.tmp                      *)
(*   ss / sstmp      sleep_state.json, sleep_state.json.tmp  (sleep.go)    *)
(* A file is "absent", "empty" (created / truncated, nothing written yet)  *)
(* or holds a value: "g<n>" = the n-th identity / key pair ever generated  *)
(* (a public key file holding "g<n>" matches the private key "g<n>"),      *)
(* "AWAKE" / "SLEEPING" for the sleep state.                               *)
(*                                                                         *)
(* One agent process runs at a time.  `pc` is its position; every Step is  *)
(* ONE file-system call on a data-dir file, in the order the code issues   *)
(* them (validated against an strace log of the real code):                *)
(*   start-up  (agent.New / Agent.Start)                                   *)
(*     I1 Read(id)              identity.LoadOrCreate: load ...            *)
(*     I2 Mkdir  I3 OpenTrunc(idtmp)  I4 Write(idtmp)  I5 Rename(idtmp,id) *)
(*                              ... or create (MkdirAll only if needed)    *)
(*     K1 Read(key)  K2 Read(pub)      identity.LoadOrCreateKeypair: load  *)
(*     K3 Mkdir  K4 OpenTrunc(keytmp) K5 Write K6 Rename(keytmp,key)       *)
(*               K7 OpenTrunc(pubtmp) K8 Write K9 Rename(pubtmp,pub)       *)
(*     S1 Read(ss)              sleep.Manager.LoadState (failure = AWAKE)  *)
(*   saving the sleep state (Sleep / Wake / end of a poll: persistState)   *)
(*     W1 OpenTrunc(sstmp)  W2 Write(sstmp)  W3 Rename(sstmp, ss)          *)
(* Crash = the process dies before its next call (between any two calls);  *)
(* the next process is again a start-up, which can crash as well.          *)
(*                                                                         *)
(* Deviations (each REPLACES the ideal behaviour at its site):             *)
(*   DevInPlaceWrite     the sleep state is written in place:              *)
(*                       W1 OpenTrunc(ss), W2 Write(ss)                    *)
(*   DevIdInPlace        the identity is written in place                  *)
(*   DevPubMissingFatal  a missing public key file is an error instead of  *)
(*                       "not found -> regenerate"                         *)
(***************************************************************************)
EXTENDS Naturals, Sequences, FiniteSets, TLC, Json

CONSTANTS MaxCrashes,  \* process deaths
          MaxSaves,    \* sleep-state saves (all processes together)
          MaxExits,    \* orderly process ends (the process stops between two procedures)
          Dev, Emit

DevNames == {"DevInPlaceWrite", "DevIdInPlace", "DevPubMissingFatal"}
ASSUME Dev \subseteq DevNames

Files == {"dir", "id", "idtmp", "key", "keytmp", "pub", "pubtmp", "ss", "sstmp"}
G(n) == "g" \o ToString(n)

VARIABLES disk,     \* [Files -> value]
          pc,       \* "none" (no process) | "idle" (started, between procedures) | a label
          mem,      \* what the running process holds: [id, key, sleep, want]  ("-" = nothing)
          nid,      \* identities generated so far
          nkey,     \* key pairs generated so far
          crashes, saves, exits,
          \* ---- ghosts -----------------------------------------------------
          stored,   \* the identity whose creation completed (returned to the caller) first, "-" if none yet
          okSleep,  \* sleep states a start-up may load now: {before} or {before, after} of an interrupted save
          failed,   \* a start-up failed
          replaced, \* a start-up returned an identity different from `stored`
          wrongSleep, \* a start-up loaded a sleep state outside okSleep
          badKey,   \* a start-up returned a key pair whose public key does not match the private key
          last

core == <<disk, pc, mem, nid, nkey, crashes, saves, exits>>
ghost == <<stored, okSleep, failed, replaced, wrongSleep, badKey>>
vars == <<core, ghost, last>>
view == <<core, ghost>>

NoMem == [id |-> "-", key |-> "-", sleep |-> "-", want |-> "-"]

Init ==
  /\ disk = [f \in Files |-> "absent"]
  /\ pc = "none" /\ mem = NoMem /\ nid = 0 /\ nkey = 0 /\ crashes = 0 /\ saves = 0 /\ exits = 0
  /\ stored = "-" /\ okSleep = {"AWAKE"} /\ failed = FALSE /\ replaced = FALSE /\ wrongSleep = FALSE /\ badKey = FALSE
  /\ last = [act |-> "Init"]

Op(name, f, g) == [act |-> "Step", op |-> name, f |-> f, g |-> g]
MkdirNext(a, b) == IF disk["dir"] = "absent" THEN a ELSE b   \* os.MkdirAll issues mkdir only if the directory is missing

(* ---- a process starts --------------------------------------------------- *)
Begin ==
  /\ pc = "none"
  /\ pc' = "I1" /\ mem' = NoMem
  /\ UNCHANGED <<disk, nid, nkey, crashes, saves, exits, ghost>>
  /\ last' = [act |-> "Begin", op |-> "-", f |-> "-", g |-> "-"]

Fail == /\ pc' = "none" /\ mem' = NoMem /\ failed' = TRUE

(* ---- start-up: identity -------------------------------------------------- *)
I1 == /\ pc = "I1"
      /\ last' = Op("Read", "id", "-")
      /\ UNCHANGED <<disk, nid, nkey, crashes, saves, exits, stored, okSleep, wrongSleep, badKey>>
      /\ CASE disk["id"] = "absent" -> /\ pc' = MkdirNext("I2", "I3") /\ UNCHANGED <<mem, failed, replaced>>
           [] disk["id"] = "empty"  -> Fail /\ UNCHANGED replaced
           [] OTHER -> /\ pc' = "K1" /\ mem' = [mem EXCEPT !.id = disk["id"]]
                       /\ replaced' = (replaced \/ (stored # "-" /\ stored # disk["id"]))
                       /\ UNCHANGED failed
I2 == /\ pc = "I2" /\ pc' = "I3" /\ disk' = [disk EXCEPT !["dir"] = "present"]
      /\ last' = Op("Mkdir", "dir", "-")
      /\ UNCHANGED <<mem, nid, nkey, crashes, saves, exits, ghost>>
IdTarget == IF "DevIdInPlace" \in Dev THEN "id" ELSE "idtmp"
I3 == /\ pc = "I3" /\ pc' = "I4" /\ disk' = [disk EXCEPT ![IdTarget] = "empty"]
      /\ nid' = nid + 1 /\ mem' = [mem EXCEPT !.want = G(nid + 1)]
      /\ last' = Op("OpenTrunc", IdTarget, "-")
      /\ UNCHANGED <<nkey, crashes, saves, exits, ghost>>
\* the new identity counts as stored when its creation completes (the call returns it)
Returned == /\ mem' = [mem EXCEPT !.id = mem.want, !.want = "-"]
            /\ stored' = IF stored = "-" THEN mem.want ELSE stored
            /\ replaced' = (replaced \/ (stored # "-" /\ stored # mem.want))
I4 == /\ pc = "I4" /\ disk' = [disk EXCEPT ![IdTarget] = mem.want]
      /\ last' = Op("Write", IdTarget, "-")
      /\ UNCHANGED <<nid, nkey, crashes, saves, exits, okSleep, failed, wrongSleep, badKey>>
      /\ IF "DevIdInPlace" \in Dev THEN pc' = "K1" /\ Returned
                                   ELSE pc' = "I5" /\ UNCHANGED <<mem, stored, replaced>>
I5 == /\ pc = "I5" /\ pc' = "K1"
      /\ disk' = [disk EXCEPT !["id"] = disk["idtmp"], !["idtmp"] = "absent"]
      /\ Returned
      /\ last' = Op("Rename", "idtmp", "id")
      /\ UNCHANGED <<nid, nkey, crashes, saves, exits, okSleep, failed, wrongSleep, badKey>>

(* ---- start-up: key pair -------------------------------------------------- *)
K1 == /\ pc = "K1"
      /\ last' = Op("Read", "key", "-")
      /\ UNCHANGED <<disk, nid, nkey, crashes, saves, exits, stored, okSleep, replaced, wrongSleep, badKey>>
      /\ CASE disk["key"] = "absent" -> /\ pc' = MkdirNext("K3", "K4") /\ UNCHANGED <<mem, failed>>
           [] disk["key"] = "empty"  -> Fail
           [] OTHER -> /\ pc' = "K2" /\ mem' = [mem EXCEPT !.want = disk["key"]] /\ UNCHANGED failed
K2 == /\ pc = "K2"
      /\ last' = Op("Read", "pub", "-")
      /\ UNCHANGED <<disk, nid, nkey, crashes, saves, exits, stored, okSleep, replaced, wrongSleep>>
      /\ CASE disk["pub"] = "absent" ->
                IF "DevPubMissingFatal" \in Dev THEN Fail /\ UNCHANGED badKey
                ELSE /\ pc' = MkdirNext("K3", "K4") /\ mem' = [mem EXCEPT !.want = "-"] /\ UNCHANGED <<failed, badKey>>
           [] disk["pub"] = "empty" -> Fail /\ UNCHANGED badKey
           [] disk["pub"] # mem.want -> Fail /\ UNCHANGED badKey      \* "public key does not match private key"
           [] OTHER -> /\ pc' = "S1" /\ mem' = [mem EXCEPT !.key = mem.want, !.want = "-"]
                       /\ UNCHANGED <<failed, badKey>>
K3 == /\ pc = "K3" /\ pc' = "K4" /\ disk' = [disk EXCEPT !["dir"] = "present"]
      /\ last' = Op("Mkdir", "dir", "-")
      /\ UNCHANGED <<mem, nid, nkey, crashes, saves, exits, ghost>>
K4 == /\ pc = "K4" /\ pc' = "K5" /\ disk' = [disk EXCEPT !["keytmp"] = "empty"]
      /\ nkey' = nkey + 1 /\ mem' = [mem EXCEPT !.want = G(nkey + 1)]
      /\ last' = Op("OpenTrunc", "keytmp", "-")
      /\ UNCHANGED <<nid, crashes, saves, exits, ghost>>
K5 == /\ pc = "K5" /\ pc' = "K6" /\ disk' = [disk EXCEPT !["keytmp"] = mem.want]
      /\ last' = Op("Write", "keytmp", "-")
      /\ UNCHANGED <<mem, nid, nkey, crashes, saves, exits, ghost>>
K6 == /\ pc = "K6" /\ pc' = "K7"
      /\ disk' = [disk EXCEPT !["key"] = disk["keytmp"], !["keytmp"] = "absent"]
      /\ last' = Op("Rename", "keytmp", "key")
      /\ UNCHANGED <<mem, nid, nkey, crashes, saves, exits, ghost>>
K7 == /\ pc = "K7" /\ pc' = "K8" /\ disk' = [disk EXCEPT !["pubtmp"] = "empty"]
      /\ last' = Op("OpenTrunc", "pubtmp", "-")
      /\ UNCHANGED <<mem, nid, nkey, crashes, saves, exits, ghost>>
K8 == /\ pc = "K8" /\ pc' = "K9" /\ disk' = [disk EXCEPT !["pubtmp"] = mem.want]
      /\ last' = Op("Write", "pubtmp", "-")
      /\ UNCHANGED <<mem, nid, nkey, crashes, saves, exits, ghost>>
K9 == /\ pc = "K9" /\ pc' = "S1"
      /\ disk' = [disk EXCEPT !["pub"] = disk["pubtmp"], !["pubtmp"] = "absent"]
      /\ mem' = [mem EXCEPT !.key = mem.want, !.want = "-"]
      /\ badKey' = (badKey \/ disk["key"] # disk["pubtmp"])
      /\ last' = Op("Rename", "pubtmp", "pub")
      /\ UNCHANGED <<nid, nkey, crashes, saves, exits, stored, okSleep, failed, replaced, wrongSleep>>

(* ---- start-up: sleep state (a file that cannot be read or parsed is logged and the agent starts AWAKE) ---------- *)
Loaded == IF disk["ss"] \in {"absent", "empty"} THEN "AWAKE" ELSE disk["ss"]
S1 == /\ pc = "S1" /\ pc' = "idle"
      /\ mem' = [mem EXCEPT !.sleep = Loaded]
      /\ wrongSleep' = (wrongSleep \/ Loaded \notin okSleep)
      /\ okSleep' = {Loaded}
      /\ last' = Op("Read", "ss", "-")
      /\ UNCHANGED <<disk, nid, nkey, crashes, saves, exits, stored, failed, replaced, badKey>>

(* ---- saving the sleep state ------------------------------------------------ *)
\* Sleep() from AWAKE, Wake() from SLEEPING, end of a poll: SLEEPING saved over SLEEPING
SaveBegin(x) ==
  /\ pc = "idle" /\ saves < MaxSaves
  /\ (mem.sleep = "AWAKE" => x = "SLEEPING")
  /\ pc' = "W1" /\ mem' = [mem EXCEPT !.want = x] /\ saves' = saves + 1
  /\ okSleep' = {mem.sleep, x}
  /\ UNCHANGED <<disk, nid, nkey, crashes, exits, stored, failed, replaced, wrongSleep, badKey>>
  /\ last' = [act |-> "SaveBegin", op |-> x, f |-> "-", g |-> "-"]
SsTarget == IF "DevInPlaceWrite" \in Dev THEN "ss" ELSE "sstmp"
SaveDone == /\ pc' = "idle" /\ mem' = [mem EXCEPT !.sleep = mem.want, !.want = "-"] /\ okSleep' = {mem.want}
W1 == /\ pc = "W1" /\ pc' = "W2" /\ disk' = [disk EXCEPT ![SsTarget] = "empty"]
      /\ last' = Op("OpenTrunc", SsTarget, "-")
      /\ UNCHANGED <<mem, nid, nkey, crashes, saves, exits, ghost>>
W2 == /\ pc = "W2" /\ disk' = [disk EXCEPT ![SsTarget] = mem.want]
      /\ last' = Op("Write", SsTarget, "-")
      /\ UNCHANGED <<nid, nkey, crashes, saves, exits, stored, failed, replaced, wrongSleep, badKey>>
      /\ IF "DevInPlaceWrite" \in Dev THEN SaveDone ELSE pc' = "W3" /\ UNCHANGED <<mem, okSleep>>
W3 == /\ pc = "W3"
      /\ disk' = [disk EXCEPT !["ss"] = disk["sstmp"], !["sstmp"] = "absent"]
      /\ SaveDone
      /\ last' = Op("Rename", "sstmp", "ss")
      /\ UNCHANGED <<nid, nkey, crashes, saves, exits, stored, failed, replaced, wrongSleep, badKey>>

Step == I1 \/ I2 \/ I3 \/ I4 \/ I5 \/ K1 \/ K2 \/ K3 \/ K4 \/ K5 \/ K6 \/ K7 \/ K8 \/ K9 \/ S1 \/ W1 \/ W2 \/ W3

(* ---- the process dies before its next file-system call ---------------------- *)
Crash ==
  /\ pc \notin {"none", "idle"} /\ crashes < MaxCrashes
  /\ crashes' = crashes + 1 /\ pc' = "none" /\ mem' = NoMem
  /\ UNCHANGED <<disk, nid, nkey, saves, exits, ghost>>
  /\ last' = [act |-> "Crash", op |-> "-", f |-> "-", g |-> "-"]

(* ---- the process ends between two procedures -------------------------------- *)
Exit ==
  /\ pc = "idle" /\ exits < MaxExits
  /\ exits' = exits + 1 /\ pc' = "none" /\ mem' = NoMem
  /\ UNCHANGED <<disk, nid, nkey, crashes, saves, ghost>>
  /\ last' = [act |-> "Exit", op |-> "-", f |-> "-", g |-> "-"]

Next == Begin \/ Step \/ Crash \/ Exit \/ \E x \in {"AWAKE", "SLEEPING"} : SaveBegin(x)

Spec == Init /\ [][Next]_vars

(* ---- properties (C34) --------------------------------------------------------- *)
\* the next start still succeeds
RestartSucceeds == ~failed
\* ... with an identity that is never silently replaced once stored
IdentityKept == ~replaced
\* ... whose public key matches the private key
KeyPairConsistent == ~badKey /\ (pc \in {"none", "idle"} /\ disk["key"] \notin {"absent", "empty"}
                                  /\ disk["pub"] \notin {"absent", "empty"} => disk["key"] = disk["pub"])
\* ... and a sleep state equal to the state before or after the interrupted save
SleepBeforeOrAfter == ~wrongSleep
\* the final files are never seen half written (what makes the above true)
FinalFilesWhole == disk["id"] # "empty" /\ disk["key"] # "empty" /\ disk["pub"] # "empty" /\ disk["ss"] # "empty"

(* ---- edge emission ------------------------------------------------------------- *)
State == [disk |-> disk, pc |-> pc, mem |-> mem, nid |-> nid, nkey |-> nkey, crashes |-> crashes, saves |-> saves,
          exits |-> exits, stored |-> stored, okSleep |-> okSleep, failed |-> failed, replaced |-> replaced,
          wrongSleep |-> wrongSleep, badKey |-> badKey]
EmitEdge == Emit => PrintT("EDGE " \o ToJson([s |-> State, a |-> last', t |-> State']))
=============================================================================
