CONSTANTS MaxAlloc = 1073741824 MaxSkip = 1073741824 Threads = {} Dev = {} Ghost = FALSE Emit = FALSE
INIT TraceInit
NEXT TraceNext
CONSTRAINT HighWater
INVARIANTS NonZeroLast ParityLast
POSTCONDITION TraceAccepted
