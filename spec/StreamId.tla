------------------------------ MODULE StreamId ------------------------------
(***************************************************************************)
(* Stream identifier allocation of one peer connection (C38).              *)
(*                                                                         *)
(* Code: internal/transport/transport.go StreamIDAllocator (one per        *)
(* peer.Connection, created in peer.NewConnection from PeerConn.IsDialer). *)
(* The two ends of a connection are "D" (the side that dialed) and "A"     *)
(* (the side that accepted).  Each end owns one counter; `Next` is ONE     *)
(* atomic step (atomic.Uint64.Add), so any number of concurrent callers    *)
(* are interleavings of Next steps (threads only matter for the deviation  *)
(* DevNonAtomic that splits the step into a read and a write).             *)
(*                                                                         *)
(* The statement does not require identifiers to be consecutive, only      *)
(* nonzero, unique per end, and of the role's parity.  The specification   *)
(* is therefore the most general allocator of that kind: a step takes      *)
(* id = next[e] + 2*k for some k in 0..MaxSkip and sets next[e] = id + 2.  *)
(* The code is the refinement k = 0; the binding measures k (gaps) but a   *)
(* gap is not a violation.                                                 *)
(*                                                                         *)
(* Close(e): the connection end is closed (peer.Connection.Close).  The    *)
(* API still hands out an identifier afterwards (NextStreamID returns only *)
(* an id, no error), so the statement keeps applying: identifiers          *)
(* allocated after - or racing with - Close are nonzero and unique too.    *)
(* Closing changes nothing in the ideal allocator.                         *)
(*                                                                         *)
(* Deviations: DevNonAtomic (Next = load ; store), DevSameParity,          *)
(* DevStartZero, DevStepOne, and                                           *)
(*   DevLazySeed       the counter starts unseeded (0); Next = "if the     *)
(*                     counter is 0 store the first id" ; atomic add.  The *)
(*                     check-then-store is not atomic: concurrent FIRST    *)
(*                     allocations of a fresh end re-seed the counter      *)
(*                     after another caller has already allocated          *)
(*   DevZeroAfterClose Next on a closed end returns 0 and consumes nothing *)
(***************************************************************************)
EXTENDS Naturals, Sequences, FiniteSets, TLC, Json

CONSTANTS MaxAlloc,   \* allocations per end (bound of the model)
          MaxSkip,    \* largest k (0 = exactly the code's arithmetic)
          Threads,    \* caller identities (used by DevNonAtomic only)
          Dev,        \* enabled deviations
          Ghost,      \* TRUE: keep the ghost set of handed-out identifiers (model checking); FALSE for long traces
          Emit        \* TRUE: print every transition as JSON

End == {"D", "A"}
DevNames == {"DevNonAtomic", "DevSameParity", "DevStartZero", "DevStepOne", "DevLazySeed", "DevZeroAfterClose"}
ASSUME Dev \subseteq DevNames

First(e) == IF e = "D" THEN 1
            ELSE IF "DevSameParity" \in Dev THEN 1
            ELSE IF "DevStartZero" \in Dev THEN 0 ELSE 2
NoLoc == [e |-> "none", v |-> 0]
Lazy == "DevLazySeed" \in Dev
Step == IF "DevStepOne" \in Dev THEN 1 ELSE 2

VARIABLES next,   \* [End -> Nat]  the counter
          ids,    \* [End -> SUBSET Nat]  ghost: identifiers handed out
          cnt,    \* [End -> Nat]  ghost: number of completed Next calls
          loc,    \* [Threads -> [e, v]] (NoLoc = idle)  value read by a non-atomic caller (DevNonAtomic);
                  \*   DevLazySeed: v = 1 "saw the counter unseeded, will store", v = 2 "will add"
          open,   \* [End -> BOOLEAN]  the connection end has not been closed
          last

vars == <<next, ids, cnt, loc, open, last>>
view == <<next, ids, cnt, loc, open>>

Init ==
  /\ next = [e \in End |-> IF Lazy THEN 0 ELSE First(e)]
  /\ open = [e \in End |-> TRUE]
  /\ ids = [e \in End |-> {}]
  /\ cnt = [e \in End |-> 0]
  /\ loc = [t \in Threads |-> NoLoc]
  /\ last = [act |-> "Init"]

Hand(e, id) ==
  /\ ids' = IF Ghost THEN [ids EXCEPT ![e] = @ \cup {id}] ELSE ids
  /\ cnt' = [cnt EXCEPT ![e] = @ + 1]

\* one atomic allocation (open or closed end alike)
Next(e, k) ==
  /\ ~Lazy
  /\ cnt[e] < MaxAlloc
  /\ IF "DevZeroAfterClose" \in Dev /\ ~open[e]
       THEN /\ Hand(e, 0) /\ UNCHANGED next
            /\ last' = [act |-> "Next", e |-> e, id |-> 0, k |-> k, dev |-> "DevZeroAfterClose"]
       ELSE LET id == next[e] + Step * k IN
            /\ Hand(e, id)
            /\ next' = [next EXCEPT ![e] = id + Step]
            /\ last' = [act |-> "Next", e |-> e, id |-> id, k |-> k]
  /\ UNCHANGED <<loc, open>>

Close(e) ==
  /\ open[e]
  /\ open' = [open EXCEPT ![e] = FALSE]
  /\ UNCHANGED <<next, ids, cnt, loc>>
  /\ last' = [act |-> "Close", e |-> e]

(* ---- deviation: lazily seeded counter ------------------------------------*)
LazyCheck(t, e) ==
  /\ Lazy /\ loc[t] = NoLoc /\ cnt[e] < MaxAlloc
  /\ loc' = [loc EXCEPT ![t] = [e |-> e, v |-> IF next[e] = 0 THEN 1 ELSE 2]]
  /\ UNCHANGED <<next, ids, cnt, open>>
  /\ last' = [act |-> "LazyCheck", t |-> t, e |-> e]
LazyStore(t) ==
  /\ Lazy /\ loc[t] # NoLoc /\ loc[t].v = 1
  /\ next' = [next EXCEPT ![loc[t].e] = First(loc[t].e)]
  /\ loc' = [loc EXCEPT ![t] = [@ EXCEPT !.v = 2]]
  /\ UNCHANGED <<ids, cnt, open>>
  /\ last' = [act |-> "LazyStore", t |-> t]
LazyAdd(t) ==
  /\ Lazy /\ loc[t] # NoLoc /\ loc[t].v = 2
  /\ LET e == loc[t].e  id == next[e] IN
       /\ Hand(e, id)
       /\ next' = [next EXCEPT ![e] = id + Step]
       /\ last' = [act |-> "Next", e |-> e, id |-> id, k |-> 0, dev |-> "DevLazySeed"]
  /\ loc' = [loc EXCEPT ![t] = NoLoc]
  /\ UNCHANGED open

(* ---- deviation: Next as load ; store (lost update) ----------------------*)
DevRead(t, e) ==
  /\ "DevNonAtomic" \in Dev
  /\ loc[t] = NoLoc /\ cnt[e] < MaxAlloc
  /\ loc' = [loc EXCEPT ![t] = [e |-> e, v |-> next[e]]]
  /\ UNCHANGED <<next, ids, cnt, open>>
  /\ last' = [act |-> "DevRead", t |-> t, e |-> e]

DevWrite(t) ==
  /\ "DevNonAtomic" \in Dev
  /\ loc[t] # NoLoc
  /\ LET e == loc[t].e  id == loc[t].v IN
       /\ Hand(e, id)
       /\ next' = [next EXCEPT ![e] = id + Step]
       /\ last' = [act |-> "Next", e |-> e, id |-> id, k |-> 0, dev |-> "DevNonAtomic"]
  /\ loc' = [loc EXCEPT ![t] = NoLoc]
  /\ UNCHANGED open

NextStep ==
  \/ \E e \in End, k \in 0..MaxSkip : Next(e, k)
  \/ \E t \in Threads, e \in End : DevRead(t, e)
  \/ \E t \in Threads : DevWrite(t)
  \/ \E e \in End : Close(e)
  \/ \E t \in Threads, e \in End : LazyCheck(t, e)
  \/ \E t \in Threads : LazyStore(t) \/ LazyAdd(t)

Spec == Init /\ [][NextStep]_vars

(* ---- C38 ----------------------------------------------------------------*)
NonZero      == \A e \in End : 0 \notin ids[e]
UniquePerEnd == \A e \in End : Cardinality(ids[e]) = cnt[e]
Parity       == /\ \A i \in ids["D"] : i % 2 = 1
                /\ \A i \in ids["A"] : i % 2 = 0
Disjoint     == ids["D"] \cap ids["A"] = {}
\* the counter is always ahead of everything handed out (what makes the next id fresh)
CounterAhead == \A e \in End : \A i \in ids[e] : i < next[e]
\* the same per step, without the ghost set (used on long recorded executions; uniqueness then
\* follows from CounterAhead: every identifier is >= the counter value before its step)
NonZeroLast == last.act = "Next" => last.id # 0
ParityLast  == last.act = "Next" => last.id % 2 = (IF last.e = "D" THEN 1 ELSE 0)

EmitEdge ==
  Emit => PrintT("EDGE " \o ToJson([s |-> [next |-> next, open |-> open], a |-> last',
                                     t |-> [next |-> next', open |-> open']]))
=============================================================================
