----------------------------- MODULE WindowSeq -----------------------------
(***************************************************************************)
(* C33, second part: a WindowCalculator is a PURE function of (identity,   *)
(* instant).  The statement quantifies over every instant, so the answer   *)
(* for an instant must not depend on which instants (or identities) the    *)
(* same live calculator was asked about before.                            *)
(*                                                                         *)
(* This wrapper models one live calculator that is asked a SEQUENCE of     *)
(* queries [t, b] (instant, which of two agents) and checks every answer   *)
(* against the oracle of Window.tla.  The ideal calculator has no state.   *)
(* Deviation DevMemoisedLastWindow: NextWindow remembers its last result   *)
(* (per agent) and reuses it for every instant in (start - C, end], which  *)
(* is one window length too wide: an earlier instant inside the previous   *)
(* window gets the later window.  It needs two queries in a particular     *)
(* order; no single query on a fresh calculator shows it.                  *)
(***************************************************************************)
EXTENDS Window

CONSTANTS SeqMaxCycle,  \* cycles MinCycle..SeqMaxCycle
          SeqLen        \* sequences of 2..SeqLen queries

VARIABLES q,     \* queries still to be asked
          memo,  \* what the (deviating) calculator remembers
          res    \* the last answer

svars == <<vec, q, memo, res>>

Cfgs == {v \in [c : MinCycle..SeqMaxCycle, w : 1..SeqMaxCycle, tol : {0}, off : 0..SeqMaxCycle, t : {0}] :
           v.w < v.c /\ v.off < v.c - v.w}
\* the second agent's offset
Off2(v) == (v.off + 1) % (v.c - v.w)
Queries(v) == [t : (-2 * v.c)..(3 * v.c), b : {0, 1}]
Seqs(v) == UNION {[1..n -> Queries(v)] : n \in 2..SeqLen}
NoMemo == [valid |-> FALSE, b |-> 0, start |-> 0]

SeqInit == /\ vec \in Cfgs
           /\ q \in Seqs(vec)
           /\ memo = NoMemo
           /\ res = [k |-> "none"]

At(v, x) == [v EXCEPT !.t = x.t, !.off = IF x.b = 0 THEN v.off ELSE Off2(v)]

Ask ==
  /\ q # <<>>
  /\ LET x == Head(q)
         v == At(vec, x)
         memoising == "DevMemoisedLastWindow" \in Dev
         hit == /\ memoising /\ memo.valid /\ memo.b = x.b
                /\ x.t > memo.start - vec.c /\ x.t <= memo.start + vec.w
         r == IF hit THEN memo.start ELSE ImplNext(v, Dev)
     IN /\ res' = [k |-> "next", t |-> x.t, b |-> x.b, start |-> r, ok |-> (r \in OracleNext(v))]
        /\ memo' = IF memoising /\ ~hit THEN [valid |-> TRUE, b |-> x.b, start |-> r] ELSE memo
  /\ q' = Tail(q)
  /\ UNCHANGED vec

SeqNext == Ask \/ (q = <<>> /\ UNCHANGED svars)

\* every answer of the live calculator is an acceptable answer for its instant, whatever was asked before
HistoryFree == res.k = "next" => res.ok
=============================================================================
