\* reference configuration for one transit (the checks generate NT = 1 / NT = 2 variants)
CONSTANTS NT = 1
 Kinds1 = {"tcp-ip", "tcp-domain", "forward", "udp", "icmp", "shell", "shell-tty", "file-upload", "file-download"}
 Kinds2 = {"tcp-ip", "tcp-domain", "forward", "udp", "icmp", "shell", "shell-tty", "file-upload", "file-download"}
 RIDs = {} MaxData = 1000000 Classes = {} Adversary = FALSE EphPool = {} Lifecycle = FALSE Dev = {} EmitVec = FALSE
INIT TraceInit
NEXT TraceNext
CONSTRAINT HighWater
INVARIANTS KeysAgree DistinctInputsDistinctKeys DegenerateRefused TransitSeesOnlyCiphertext TransitNeverHoldsKey PayloadIntact
POSTCONDITION TraceAccepted
