# ExitConn.tla <-> internal/exit Handler   (C18, exit side of the half-close)
import os
import vf, _replay as R

MODULE = "ExitConn"
INVS = "TypeOK DestDataBeforeEOF DestFifo BackFifo"
PROPS = "Isolation"
DEVS = ["DevExitFinDropsPayload", "DevExitCloseAll"]
DEV_CAUGHT_BY = {"DevExitFinDropsPayload": "DestDataBeforeEOF", "DevExitCloseAll": "Isolation"}
SITE = {"DevExitFinDropsPayload": "exit.Handler.HandleStreamData", "DevExitCloseAll": "exit.Handler.closeConnection"}
HFILES = ["common/common_test.go.tmpl", "exit/halfclose_test.go"]
CONNS = ("p", "q")


def consts(ctx):
    return {"MaxFrames": 2, "MaxDest": 1} if ctx.quick() else {"MaxFrames": 3, "MaxDest": 2}


def base_act(a):
    return {k: a.get(k) for k in ("act", "c", "pl", "fin")}


def proj(t):
    return {"up": t["up"], "recv": t["recv"], "deof": t["deof"], "back": t["back"], "bclose": t["bclose"]}


def same_result(a, mm):
    return a.get("res") == mm.get("real_res")


def is_init(t):
    return t["nframes"] == 0 and all(t["up"][c] and not t["dfin"][c] and not t["recv"][c] and not t["back"][c]
                                     and t["nout"][c] == 0 and t["bclose"][c] == 0 for c in CONNS)


def jobs(ctx):
    """TLC jobs: ideal relation (edges emitted) + one small run per deviation"""
    c = consts(ctx)
    small = {"MaxFrames": 2, "MaxDest": 1}
    js = [dict(module=MODULE, name="exitIdeal", workers=2, cfg=R.cfg_text(c, emit=True, invs=INVS, props=PROPS))]
    for d in DEVS:
        js.append(dict(module=MODULE, name="exitDev" + d, workers=1, expect_violation=True,
                       cfg=R.cfg_text(small, dev=[d], emit=False, invs=INVS, props=PROPS)))
    return js


def results(res):
    ideal = res[0]
    if ideal.violated:
        raise vf.Infra("ideal ExitConn spec violates %s (specification error)" % ideal.violated)
    caught = {}
    for d, r in zip(DEVS, res[1:1 + len(DEVS)]):
        caught[d] = r.violated
        if r.violated != DEV_CAUGHT_BY[d]:
            raise vf.Infra("deviation %s: TLC reported %s, expected a violation of %s" % (d, r.violated, DEV_CAUGHT_BY[d]))
    return ideal, caught


def describe(mm):
    a = mm.get("a", {})
    sched = " ".join("%s(%s%s%s)" % (x.get("act"), x.get("c"), ("," + x["pl"]) if x.get("act") == "Frame" else "",
                                     ",FIN" if x.get("fin") else "") for x in mm.get("prefix", []))
    return ("exit.Handler schedule [%s]: last step per specification -> %s, destinations/ingress %s ; real code -> %s, %s "
            "(recv = chunks the destination received, deof = destination saw EOF, back = chunks / FIN(0) returned to the "
            "ingress)" % (sched, mm.get("spec_res"), vf.canon(mm.get("spec_proj")), mm.get("real_res"),
                          vf.canon(mm.get("real_t"))))


def run(ctx, explained, res):
    """replay the transition graph of ExitConn.tla on a real exit.Handler; res = TLC results of jobs(ctx)"""
    c = consts(ctx)
    ideal, caught = results(res)
    binpath = R.build_test_binary(ctx, "exit", HFILES, name="exit")
    doc, npaths, nnodes, nedges, nsteps = R.compact_paths(ideal.edges, is_init)
    env = {"ZZV_CORRUPT": os.environ.get("VERIF_CORRUPT_EXIT", "0")}
    summ, mism = R.replay_parallel(ctx, binpath, "^TestZZVExitReplay$", doc, "exit_ideal", nproc=4 if ctx.quick() else 8,
                                   env=env)
    if R.total(summ, "steps") < nsteps and not mism:
        raise vf.Infra("exit replay executed %d of %d steps without reporting a mismatch" % (R.total(summ, "steps"), nsteps))
    if mism:
        rr = R.tlc_many(ctx, [dict(module=MODULE, name="exitRel" + d, workers=1, cfg=R.cfg_text(c, dev=[d], emit=True))
                              for d in DEVS])
        dev_ix = {d: R.index_relation(r.edges, base_act) for d, r in zip(DEVS, rr)}
        ideal_ix = R.index_relation(ideal.edges, base_act)
        for mm in sorted(mism, key=lambda m: len(m.get("prefix", []))):
            devs = R.classify(mm, dev_ix, base_act, proj, same_result, ideal_ix)
            a = mm.get("a", {})
            key = ("ExitConn:%s:%s" % (devs[0], SITE[devs[0]])) if devs else \
                "ExitConn:unexplained:%s:%s" % (a.get("act"), mm.get("real_res"))
            explained[key] = explained.get(key, 0) + 1
            ctx.finding(key, describe(mm), mm)
    sample = R.expand_path(doc, len(doc["paths"]) // 2)
    return {"constants": c, "states": ideal.distinct, "transitions": nedges, "paths": npaths,
            "steps": R.total(summ, "steps"), "mismatches": len(mism),
            "fin_frames_with_payload_replayed": R.total(summ, "fin_frames_with_payload"), "deviations_caught": caught,
            "sample_path": [s["a"] for s in sample["steps"]][:12]}
