# G04 (growth, not one of the 39 listed properties) - the state queue for sleeping peers, QUEUED_STATE delivery and its
# receiver (internal/sleep/queue.go, sleep.Manager.Queue*ForPeer / GetQueuedState, protocol.QueuedState,
# agent.handleQueuedState, agent.handlePeerConnected / handlePeerDisconnect as far as a sleeping peer is concerned).
#
# What is decided (spec/SleepQueue.tla, invariants / step properties in brackets):
#  * the queue never exceeds MaxQueuedMessages per kind and peer [QueueBounded]; announcements / withdrawals are
#    deduplicated on (origin, sequence), one node info per origin [WellFormed]; an older node info never replaces a newer
#    one [InfoNewestKept]; queued items keep their arrival order [FifoKept]; at the bound the OLDEST item makes room and
#    only then [OverflowKeepsNewest EvictionOnlyAtBound]; queues are per peer [PerPeer];
#  * nothing is queued for a peer that is awake [NothingQueuedForAwake]; a delivered queue is cleared exactly once
#    [DeliveredOnce]; every QUEUED_STATE fits one frame, a longer queue goes out in several [FrameFits FrameAlwaysSendable];
#  * nothing is lost except at the bound or when the holder itself slept [NoNeedlessLoss]; once the sleeper is back in sync
#    it knows what the newest live frames say, unless that very frame fell out at the bound [SleeperLearnsNewest];
#  * the receiver: per origin the newest statement it has handled wins - no resurrection of withdrawn routes, a withdrawal
#    never removes a newer announcement [ReceiverExact NoResurrection WithdrawRespectsSequence].
#
# Interpretation (permissive, written down because the statement is ours):
#  * The IDEAL design is the documented one (Architecture.md "State Queue" / "QUEUED_STATE"): route frames are
#    deduplicated on (origin, sequence) and NOT superseded per origin (an origin's route set may be split over several
#    announcements; a withdrawal names single routes), only node infos have a newest-per-origin rule.
#  * The pinned agent never uses the queue (agent.go calls neither Queue*ForPeer nor GetQueuedState and never sends
#    QUEUED_STATE); a reconnecting peer gets the full table instead.  That is reported (KNOWN-FINDING, documentation and
#    dead configuration knob), and the as-built resync is specified and bound as what the code does (Dev = AS_BUILT_A).
#  * Whether a reconnecting peer re-learns an UNCHANGED route (seen cache vs. replay under the origin's sequence) is probed
#    on the real agents first; both behaviours have their as-built relation, the check raises no alarm for either.
#  * A difference between the code and an as-built relation is a violation unless the code does exactly what the IDEAL
#    relation says at that step (a deviation was repaired).
#
# Binding: every relation is TLC's complete transition graph of the bounded instance.
#  (a) harness/sleep/sleepqueue_test.go: edge cover of the ideal and of the as-built relation on the real sleep.Manager /
#      StateQueue + QUEUED_STATE codec (projected queue after every step, decoded frame on delivery);
#  (b) harness/agent/sleepqueue_test.go TestZZVSQHolder: puppet mesh - real agent A - real sleeper S on cmesh;
#  (c) TestZZVSQReceiver: real StateQueue -> QUEUED_STATE -> real agent X (handleQueuedState) with an observer peer.
# Differences of the ideal replays must be explained by the as-built relation's labelled edges -> KNOWN-FINDING;
# the as-built replays must be exact.
import os, random, json
import vf, _replay as R, _sleepqueue as Q

NEED_OUTCOMES = ("sent", "none", "enqueue", "duplicate", "supersede", "stale", "overflow", "deliver-sent", "deliver-sent-more")
NEED_ACTS = ("Live", "PeerSleeps", "PeerPolls", "Deliver", "ReceiverApply", "HolderSeenExpire", "HolderWakes")
FULLTABLE_OK = {"SleeperLearnsNewest"}   # see "full-table design" below


def run(ctx):
    from concurrent.futures import ThreadPoolExecutor
    quick = ctx.quick()
    rng = random.Random(ctx.seed)
    cq = Q.consts(ctx.tier, "replay")
    ca = dict(cq, MaxHolderWake=0)

    # ---------------------------------------------------------------- TLC: ideal / as-built relations + sensitivity
    # the emitting runs leave the ghost variables out; the invariants that need them (SleeperLearnsNewest, DeliveredOnce,
    # NoNeedlessLoss) are checked by the sensitivity run (its deviation set {} is the ideal design on a smaller instance)
    # and, in the thorough tier, by "check" on the replay instance and by the bigger models
    jobs = [
        Q.job("ideal-emit", cq, (), True, Q.INVS, Q.PROPS),
        Q.job("builtQ-emit", cq, Q.AS_BUILT_Q, True, Q.INVS_BUILT_Q, Q.PROPS_BUILT_Q),
        Q.job("builtA-emit", ca, Q.AS_BUILT_A, True, Q.INVS_BUILT_A, Q.PROPS_BUILT_A),
        Q.job("builtA2-emit", ca, Q.AS_BUILT_A_REPAIRED, True, Q.INVS_BUILT_A, Q.PROPS_BUILT_A),
        Q.sens_job(),
    ]
    names = ["ideal", "builtQ", "builtA", "builtA2", "sens"]
    bigs = []
    if not quick:
        bigs.append(("check", cq))
        cb = Q.consts(ctx.tier, "big")
        bigs += [("big-2peers", dict(cb, MaxLive=3)), ("big-1peer", dict(cb, Peers=Q.S(["s"]), MaxLive=4))]
        for n, c in bigs:
            jobs.append(Q.job(n, c, (), False, Q.INVS, Q.PROPS, workers=4, heap="8g"))
    res = dict(zip(names + [n for n, _ in bigs], R.tlc_many(ctx, jobs)))
    for n, r in res.items():
        if r.violated:
            raise vf.Infra("SleepQueue spec (%s) violates %s: specification error" % (n, r.violated))
    ideal, builtQ, builtA, builtA2 = (res[n] for n in names[:4])
    acts, outs = Q.outcomes(ideal.edges)
    missing = [x for x in NEED_OUTCOMES if not outs.get(x)] + [x for x in NEED_ACTS if not acts.get(x)]
    if missing:
        raise vf.Infra("bounded instance is vacuous: %s never happen" % missing)
    caught = Q.caught(res["sens"])
    if caught.get(frozenset()):
        raise vf.Infra("sensitivity run: the ideal design is caught by %s" % sorted(caught[frozenset()]))
    sens = {}
    for ch in Q.SENS_CHOICES[2:]:
        by = caught.get(frozenset(ch))
        if not by:
            raise vf.Infra("deviation %s is not detected by any invariant (vacuous model)" % ch)
        sens["+".join(ch)] = sorted(by)
    ft = caught.get(frozenset(Q.FULLTABLE), set())
    if not ft <= FULLTABLE_OK:
        raise vf.Infra("the full-table design is caught by %s (expected at most %s)" % (sorted(ft), sorted(FULLTABLE_OK)))

    # ---------------------------------------------------------------- covers
    ix = {(n, w): Q.index(res[n].edges, w) for n, w in (("ideal", "type"), ("ideal", "holder"), ("ideal", "receiver"),
                                                        ("builtQ", "type"), ("builtQ", "receiver"), ("builtA", "holder"),
                                                        ("builtA2", "holder"))}
    d_ideal, st_ideal = Q.doc_of(ideal.edges, cq, "ideal")
    d_builtQ, st_builtQ = Q.doc_of(builtQ.edges, cq, "builtQ")
    d_builtA, st_builtA = Q.doc_of(builtA.edges, ca, "builtA")
    d_builtA2, st_builtA2 = Q.doc_of(builtA2.edges, ca, "builtA2")
    n_h, n_r, per_cls = (45, 45, 4) if quick else (900, 700, 40)
    fd_q = Q.first_dev(d_ideal, ix[("builtQ", "receiver")], "receiver")
    fd_a = Q.first_dev(d_ideal, ix[("builtA", "holder")], "holder")
    agent_level = {"DevAgentNeverQueues", "DevSleeperDropsTable", "DevSeenBlocksResync"}
    # the receiver's deviations on frames that arrive LIVE are G01's (FloodInfo.tla): here only what QUEUED_STATE adds
    keep_h = lambda devs, a: bool(set(devs) & agent_level)
    keep_r = lambda devs, a: not (a["act"] == "Live" and "sent" in a["out"].values())
    # (a): the whole ideal cover and the whole as-built cover
    docs_a = [d_ideal, d_builtQ]
    # (c): as-built sample + ideal paths cut at their first departure (per deviation class)
    c_built = Q.pick_cover(d_builtQ, n_r, rng)
    c_ideal, c_exp = Q.sample(dict(d_ideal, label="ideal"), fd_q, per_cls, 6 if quick else 60, rng, keep=keep_r)
    # (b): both as-built variants (the harness probes which one applies) + ideal paths cut at their first departure
    h_v1 = Q.pick_cover(d_builtA, n_h, rng)
    h_v2 = Q.pick_cover(d_builtA2, n_h, rng)
    h_ideal, h_exp = Q.sample(dict(d_ideal, label="ideal"), fd_a, per_cls, 0, rng, keep=keep_h)
    fa = vf.write_json(os.path.join(ctx.work, "type.json"), {"rels": docs_a})
    fh = vf.write_json(os.path.join(ctx.work, "holder.json"), {"probe": True, "variants": [[h_v1], [h_v2]], "rels": [h_ideal]})
    fr = vf.write_json(os.path.join(ctx.work, "receiver.json"), {"rels": [c_built, c_ideal]})

    # ---------------------------------------------------------------- replays (spec -> code), side by side
    def harness(pkg, files, rx, env, timeout):
        g = ctx.gotest(pkg, files, rx, env=env, timeout=timeout, allow_fail=True)
        if g.rc != 0:   # t.Fatal of a harness = it could not drive the code (never a verdict): show why
            why = [l.strip() for l in g.out.splitlines() if "zzv:" in l or "--- FAIL" in l or "panic" in l or "fatal error" in l]
            raise vf.Infra("go harness failed (%s %s) rc=%d:\n%s" % (pkg, rx, g.rc, "\n".join(why[:25]) or g.out[-3000:]))
        return g

    def run_type():
        return harness("sleep", ["common/common_test.go.tmpl", "sleep/sleepqueue_test.go"], "^TestZZVSQReplay$",
                       {"ZZV_IN": fa}, 1800)

    def run_mesh():
        return harness("agent", ["common/common_test.go.tmpl", "agent/cmesh_test.go", "agent/sleepqueue_test.go"],
                       "^TestZZVSQ(Holder|Receiver)$", {"ZZV_IN_HOLDER": fh, "ZZV_IN_RECEIVER": fr}, 3000)

    with ThreadPoolExecutor(max_workers=2) as ex:
        f1, f2 = ex.submit(run_type), ex.submit(run_mesh)
        gt, gm = f1.result(), f2.result()

    summ = {}
    for g in (gt, gm):
        for s in g.of("summary"):
            summ[(s.get("world", "type"), s["rel"])] = s
    probe = gm.of("probe")
    if not probe:
        raise vf.Infra("holder harness did not report its probe:\n" + gm.out[-2000:])
    relearned = bool(probe[0]["relearned"])
    hv_doc, hv_name = (h_v2, "builtA2") if relearned else (h_v1, "builtA")
    want = [("type", "ideal"), ("type", "builtQ"), ("holder", hv_name), ("holder", "ideal"), ("receiver", "builtQ"), ("receiver", "ideal")]
    for k in want:
        if k not in summ:
            raise vf.Infra("harness produced no summary for %s/%s:\n%s" % (k[0], k[1], (gt.out + gm.out)[-2500:]))

    # ---------------------------------------------------------------- verdicts
    seen_dev, repaired, unexplained = {}, {}, 0
    docs = {("type", "ideal"): (d_ideal, "builtQ"), ("type", "builtQ"): (d_builtQ, "ideal"),
            ("holder", "ideal"): (h_ideal, hv_name), ("holder", hv_name): (hv_doc, "ideal"),
            ("receiver", "ideal"): (c_ideal, "builtQ"), ("receiver", "builtQ"): (c_built, "ideal")}
    counts = {}
    for g, world0 in ((gt, "type"), (gm, None)):
        for mm in g.of("mismatch"):
            world = world0 or mm["world"]
            rel = mm["rel"]
            if (world, rel) not in docs:
                raise vf.Infra("mismatch record of an unknown relation %s/%s" % (world, rel))
            doc, other = docs[(world, rel)]
            if mm.get("problem"):
                s, a = None, (mm.get("a") or {})
                devs = None
            else:
                s, a, devs = Q.explain(mm, doc, ix[(other, world)], world)
            counts[(world, rel)] = counts.get((world, rel), 0) + 1
            art = {"world": world, "relation": rel, "path": mm["path"], "step": mm["step"], "action": a, "spec": mm.get("spec"),
                   "real": mm.get("real"), "obs": mm.get("obs"), "problem": mm.get("problem"),
                   "history": [st["a"] for st in doc["paths"][mm["path"]]["steps"][:max(0, mm["step"])]][-10:]}
            if rel == "ideal":
                if devs:
                    for d in devs:
                        # the receiver's deviations on LIVE frames (the holder's own tables) are G01's findings; G04 reports
                        # them where QUEUED_STATE is involved (receiver binding)
                        if world == "holder" and d in Q.RECV_BUILT:
                            continue
                        seen_dev.setdefault(d, (world, a, art))
                    continue
                what = "real code departs from the ideal SleepQueue.tla at %s (%s binding) and the as-built relation does not explain it: %s" % (
                    Q.slim(a or {}), world, (mm.get("problem") or describe(mm)))
            else:
                if devs is not None:
                    # the code does what the IDEAL relation says at a step where the as-built relation departs from it
                    lab = ",".join((a or {}).get("dev", [])) or "?"
                    repaired.setdefault(lab, (world, a))
                    continue
                what = "real code departs from SleepQueue.tla with Dev = AS_BUILT (%s) at %s (%s binding): %s" % (
                    rel, Q.slim(a or {}), world, (mm.get("problem") or describe(mm)))
            unexplained += 1
            ctx.finding("SleepQueue:unexplained:%s:%s:%s" % (world, rel, (a or {}).get("act", "?")), what, art)

    if not relearned:
        seen_dev.setdefault("DevSeenBlocksResync", ("holder", {"act": "PeerPolls"}, {"probe": probe[0]}))
    texts = {
        "DevAgentNeverQueues": "the agent never uses the state queue: no frame is queued while a peer sleeps (queued_peers stays 0, "
                               "sleep.max_queued_messages has no effect) and no QUEUED_STATE frame is ever sent; a reconnecting peer gets "
                               "the pending wake command, the full routing table and all node infos instead (documented: Architecture.md "
                               "'State Queue' / 'Poll Cycle')",
        "DevSleeperDropsTable": "the sleeping peer drops every route learned via the neighbour when it disconnects (handlePeerDisconnect): "
                                "as built the resync on reconnect is a full-table replay, not the documented queue of changes",
        "DevSeenBlocksResync": "a peer that reconnects (poll / wake) does not re-learn a route whose origin has not announced again: the "
                               "replay keeps the origin's sequence and the peer's seen cache still holds <origin,sequence> although "
                               "handlePeerDisconnect removed the route",
        "DevNoCommandSlot": "StateQueue has no slot for sleep / wake commands (documented: 'latest command retained'; "
                            "QueuedState.SleepCmd / WakeCmd are never filled)",
        "DevNoFrameSplit": "GetAndClear returns the whole queue as one QueuedState whatever its size: beyond MaxPayloadSize "
                           "Frame.Encode fails and the already cleared state is lost (default bound 1000 items per kind)",
        "DevWithdrawIgnoresSequence": "handleQueuedState applies all Routes, then all Withdraws: a withdrawal that was queued BEFORE a newer "
                                      "announcement of the same origin is applied after it and removes the newer route "
                                      "(HandleRouteWithdraw ignores the sequence, G01)",
        "DevReplayResurrectsWithdrawn": "an older announcement delivered after the withdrawal re-installs the withdrawn route (no memory of "
                                        "processed withdrawals, G01)",
    }
    for d, (world, a, art) in sorted(seen_dev.items()):
        ctx.finding(Q.key_of(d), "%s [%s binding, at %s]" % (texts.get(d, d), world, Q.slim(a or {})), art)

    exact = {k: counts.get(k, 0) for k in docs if k[1] != "ideal"}
    ctx.evidence(
        "model_checking",
        assumptions=[
            "bounded instance: holder A, one sleeping peer (two in the thorough model-checking runs), origins o1 o2 with sequences "
            "1..%s (o1's sequence %s is a withdrawal), node infos of o1, one command, queue bound %s per kind, %s items per frame, "
            "<= %s live frames, <= %s sleeps, one seen-cache expiry of the holder, one sleep/wake of the holder" % (
                cq["MaxSeq"], cq["WdSeqs"], cq["Bound"], cq["FrameCap"], cq["MaxLive"], cq["MaxSleeps"]),
            "sequence numbers of an origin identify its frames (announcements and withdrawals draw from one counter)",
            "the receiver's own seen caches do not expire inside a behaviour; the holder's route seen cache may (ClearSeenCache)",
            "cmesh bindings replay a seeded selection of the covers in the quick tier (every action / outcome class at least once), "
            "the type-level binding replays every edge",
            "commands inside QUEUED_STATE are bound by C28/C29 (SleepCmd.tla); here only their queue slot and forwarding"],
        states=sum(r.distinct for r in res.values()), transitions=sum(r.generated for r in res.values()),
        traces_validated_against_impl=sum(s["paths"] for s in summ.values()),
        exhaustive=True,
        sensitivity_run={"states": res["sens"].distinct, "transitions": res["sens"].generated, "deviation_sets": len(Q.SENS_CHOICES)},
        relations={n: {"states": res[n].distinct, "transitions": res[n].generated} for n in ("ideal", "builtQ", "builtA", "builtA2")},
        covers={"ideal": st_ideal, "builtQ": st_builtQ, "builtA": st_builtA, "builtA2": st_builtA2},
        replay={"%s/%s" % k: {x: s.get(x) for x in ("paths", "steps", "mismatches", "deliveries", "max_payload", "too_large",
                                                   "queued_state_frames", "acts")} for k, s in sorted(summ.items())},
        replayed_steps=sum(s["steps"] for s in summ.values()),
        asbuilt_replay_differences={"%s/%s" % k: v for k, v in exact.items()}, ideal_replay_differences={"%s/%s" % k: v for k, v in counts.items() if k[1] == "ideal"},
        deviations_seen=sorted(seen_dev), deviations_repaired=sorted(repaired), unexplained=unexplained,
        resync_probe=probe[0], holder_relation=hv_name,
        sensitivity=sens, fulltable_design_caught_by=sorted(ft), outcomes=outs, actions=acts,
        bigger_models=[{"name": n, "states": res[n].distinct, "transitions": res[n].generated} for n, _ in bigs],
        samples=[{"binding": "type", "path": [Q.slim(st["a"]) for st in d_builtQ["paths"][min(7, len(d_builtQ["paths"]) - 1)]["steps"]][:12]},
                 {"binding": "holder", "path": [Q.slim(st["a"]) for st in hv_doc["paths"][0]["steps"]][:12]},
                 {"binding": "receiver", "path": [Q.slim(st["a"]) for st in c_built["paths"][0]["steps"]][:12]}])


def describe(mm):
    spec, real = mm.get("spec") or {}, mm.get("real") or {}
    diff = [k for k in sorted(set(spec) | set(real)) if vf.canon(spec.get(k)) != vf.canon(real.get(k))]
    out = "; ".join("%s: spec %s real %s" % (k, json.dumps(spec.get(k))[:160], json.dumps(real.get(k))[:160]) for k in diff)
    if mm.get("obs"):
        out += "; observed %s" % json.dumps(mm["obs"])[:300]
    return out or "observation differs"
