# Reconnect.tla <-> internal/peer Reconnector / Manager   (C31)
import os, json
import vf

DEVS = ["DevNoPauseCheckInAttempt", "DevDoubleTimer"]
HF = ["common/common_test.go.tmpl", "peer/reconnect_test.go"]
INVS = "TypeOK OneTimer NoTimerWhilePaused"
PROPS = "NoAttemptWhilePaused Backoff ArmIndex"

# mismatch kinds that are violations of the statement (the others are binding drift -> exit 2)
VIOLATION_KINDS = {
    "begin-while-paused": "DevNoPauseCheckInAttempt",   # a connection attempt started while paused
    "extra-timer": "DevDoubleTimer",                    # more than one timer pending / a timer armed while paused
    "begin-unexpected": "DevDoubleTimer",               # a superseded timer started an attempt (an extra retry, wrong delay)
    "early-timer": "delay-too-short",                   # delay below nominal*(1-jitter)
    "backoff-state": "backoff-index",                   # next delay is not min(initial*mult^attempts, max)
}


def cfg(addrs, cap_, maxatt, attbound, maxgate, maxinfl, withstop, dev=(), emit=True, invs=INVS, props=PROPS):
    return ("CONSTANTS Addr = {%s} Cap = %d MaxAttempts = %d AttBound = %d MaxGate = %d MaxInfl = %d MaxPend = 2 "
            "WithStop = %s Dev = {%s} Emit = %s\nINIT Init\nNEXT Next\nVIEW view\nACTION_CONSTRAINT EmitEdge\n%s%s" % (
                ",".join('"%s"' % a for a in addrs), cap_, maxatt, attbound, maxgate, maxinfl,
                "TRUE" if withstop else "FALSE", ",".join('"%s"' % d for d in dev), "TRUE" if emit else "FALSE",
                ("INVARIANTS " + invs + "\n") if invs else "", ("PROPERTIES " + props + "\n") if props else ""))


def is_init(s):
    return (not s["paused"] and not s["closed"] and not any(s["ex"].values())
            and all(len(v) == 0 for v in s["gate"].values()) and all(len(v) == 0 for v in s["infl"].values())
            and all(len(v) == 0 for v in s["pend"].values()))


def sensitivity(ctx, base):
    """every deviation must be caught by TLC, by each of the invariants that is meant to exclude it"""
    caught = {}
    want = {"DevNoPauseCheckInAttempt": [("", "NoAttemptWhilePaused"), ("NoTimerWhilePaused", "")],
            "DevDoubleTimer": [("OneTimer", ""), ("", "Backoff")]}
    for d, checks in want.items():
        for invs, props in checks:
            r = ctx.tlc("Reconnect", "MCdev.cfg", files={"MCdev.cfg": cfg(*base, dev=[d], emit=False, invs=invs, props=props)},
                        expect_violation=True)
            if not r.violated:
                raise vf.Infra("deviation %s is not caught by %s (vacuous model)" % (d, invs or props))
            caught.setdefault(d, []).append(r.violated)
    return caught


def replay(ctx, name, consts, initial_ms=20, jitter=0.2, max_len=100, par=24):
    """consts = (addrs, cap, maxatt, attbound, maxgate, maxinfl, withstop).  Returns dict with TLC result and harness records."""
    ideal = ctx.tlc("Reconnect", "MC%s.cfg" % name, files={"MC%s.cfg" % name: cfg(*consts)})
    if ideal.violated:
        raise vf.Infra("ideal Reconnect spec violates %s (specification error)" % ideal.violated)
    paths, nnodes, nedges = vf.path_cover(ideal.edges, init_pred=is_init, max_len=max_len)
    inp = vf.write_json(os.path.join(ctx.work, "recon_paths_%s.json" % name),
                        {"addrs": list(consts[0]), "cap": consts[1], "max_attempts": consts[2], "initial_ms": initial_ms,
                         "jitter": jitter, "paths": paths})
    r = ctx.gotest("peer", HF, "^TestZZVReconReplay$", env={"ZZV_IN": inp, "ZZV_PAR": par}, timeout=1500)
    summ = (r.of("summary") or [None])[0]
    if not summ:
        raise vf.Infra("replay harness produced no summary:\n" + r.out[-3000:])
    if summ["infra"]:
        raise vf.Infra("replay harness could not drive the code: %s" % summ["infra"][:3])
    return {"ideal": ideal, "paths": paths, "nodes": nnodes, "edges": nedges, "summary": summ, "mismatches": r.of("mismatch")}


def report(ctx, res, where):
    """turn harness mismatches into findings; returns the drift (non-violation) mismatches"""
    drift = []
    for mm in res["mismatches"]:
        kind = mm["kind"]
        a = mm["a"]
        if kind not in VIOLATION_KINDS:
            drift.append(mm)
            continue
        dev = VIOLATION_KINDS[kind]
        if kind == "extra-timer" and mm["real_t"].get("paused"):
            dev = "DevNoPauseCheckInAttempt"
        key = "Reconnect:%s:%s:%s" % (dev, kind, where)
        what = "%s: %s at step %d (%s %s -> spec %s): %s; schedule: %s" % (
            where, kind, mm["step"], a.get("act"), a.get("a", ""), a.get("res", ""), mm["detail"],
            " ".join("%s%s" % (x["act"], ("(" + x.get("res", "") + ")") if x.get("res") else "") for x in mm.get("prefix", [])[-14:]))
        ctx.finding(key, what, mm)
    return drift
