# Reconnect.tla <-> internal/peer Reconnector / Manager   (C31)
import os, json
import vf

DEVS = ["DevNoPauseCheckInAttempt", "DevDoubleTimer", "DevNoClamp", "DevSuccessKeepsState",
        "DevAggressiveReconnectIgnoresSleep"]
HF_AGENT = ["common/common_test.go.tmpl", "agent/cmesh_test.go", "agent/reconnect_agent_test.go"]
# delay instances (Initial ms, MulN, MulD, MaxDelay ms) per saturation index Cap; the cap is deliberately NOT
# Initial*Multiplier^n (only then does clamping the product matter).  The harness replays every path on one of several
# real configurations with the same saturation index (multipliers 1.5, 2, 3, 4; see zzvRcDefaultDelays).
DELAYS = {2: (20, 2, 1, 70), 3: (20, 3, 2, 60), 1: (20, 4, 1, 50)}
HF = ["common/common_test.go.tmpl", "peer/reconnect_test.go"]
INVS = "TypeOK OneTimer NoTimerWhilePaused NextDelayOK AsleepPaused"
PROPS = "NoAttemptWhilePaused Backoff ArmIndex AgentNoDialWhileAsleep"

# mismatch kinds that are violations of the statement (the others are binding drift -> exit 2)
VIOLATION_KINDS = {
    "begin-while-paused": "DevNoPauseCheckInAttempt",   # a connection attempt started while paused
    "extra-attempt": "DevDoubleTimer",                  # a second timer of the address fired and started an attempt of its own
    "backoff-order": "DevDoubleTimer",                  # n-th consecutive attempt started by a timer armed with another index
    "early-timer": "delay-too-short",                   # delay below nominal*(1-jitter)
    "dial-while-asleep": "DevAggressiveReconnectIgnoresSleep",   # the sleeping agent dialed (>= 2 dials while SLEEPING)
    "backoff-state": "backoff-index",                   # next delay is not min(initial*mult^k, max), k = consecutive attempts
                                                        # since the last success / cancel / reset
}
# drift (the code differs from the spec without breaking the statement): begin-unexpected (a superseded timer started
# the attempt instead of the current one), skip-unexpected, state, timer-missing, extra-timer-harmless


def cfg(addrs, cap_, maxatt, attbound, maxgate, maxinfl, withstop, dev=(), emit=True, invs=INVS, props=PROPS, delays=None,
        agent=False):
    ini, mn, md, mx = delays or DELAYS[cap_]
    return ("CONSTANTS Addr = {%s} Cap = %d MaxAttempts = %d AttBound = %d MaxGate = %d MaxInfl = %d MaxPend = 2 "
            "Initial = %d MulN = %d MulD = %d MaxDelay = %d WithAgent = %s MaxTicks = 2 MaxAggr = 2 "
            "WithStop = %s Dev = {%s} Emit = %s\nINIT Init\nNEXT Next\nVIEW view\nACTION_CONSTRAINT EmitEdge\n%s%s" % (
                ",".join('"%s"' % a for a in addrs), cap_, maxatt, attbound, maxgate, maxinfl, ini, mn, md, mx,
                "TRUE" if agent else "FALSE",
                "TRUE" if withstop else "FALSE", ",".join('"%s"' % d for d in dev), "TRUE" if emit else "FALSE",
                ("INVARIANTS " + invs + "\n") if invs else "", ("PROPERTIES " + props + "\n") if props else ""))


# agent-level model: (addrs, Cap, MaxAttempts, AttBound, MaxGate, MaxInfl, WithStop) with WithAgent = TRUE
AGENT_MODEL = (["a"], 2, 3, 0, 1, 1, False)


def is_init(s):
    return (not s["paused"] and not s["closed"] and not any(s["ex"].values())
            and all(len(v) == 0 for v in s["gate"].values()) and all(len(v) == 0 for v in s["infl"].values())
            and all(len(v) == 0 for v in s["pend"].values()))


def sensitivity(ctx, base, separately):
    """every deviation must be caught by TLC (separately: by each of the invariants that is meant to exclude it)"""
    caught = {}
    want = {"DevNoPauseCheckInAttempt": [("", "NoAttemptWhilePaused"), ("NoTimerWhilePaused", "")],
            "DevDoubleTimer": [("OneTimer", ""), ("", "Backoff")],
            "DevNoClamp": [("NextDelayOK", "")],
            "DevSuccessKeepsState": [("NextDelayOK", ""), ("", "Backoff")],
            "DevAggressiveReconnectIgnoresSleep": [("AsleepPaused", ""), ("", "AgentNoDialWhileAsleep")]}
    for d, checks in want.items():
        if not separately:
            checks = [(INVS, PROPS)]
        agent = d == "DevAggressiveReconnectIgnoresSleep"
        b = AGENT_MODEL if agent else base
        for invs, props in checks:
            r = ctx.tlc("Reconnect", "MCdev.cfg", expect_violation=True,
                        files={"MCdev.cfg": cfg(*b, dev=[d], emit=False, invs=invs, props=props, agent=agent)})
            if not r.violated:
                raise vf.Infra("deviation %s is not caught by %s (vacuous model)" % (d, invs or props))
            caught.setdefault(d, []).append(r.violated)
    return caught


def replay(ctx, runs, initial_ms=20, jitter=0.2, max_len=100, par=24):
    """runs = [(name, (addrs, cap, maxatt, attbound, maxgate, maxinfl, withstop))]: one TLC run + path cover each, all
    replayed by one harness invocation.  Returns dict with per-run TLC results and the harness records."""
    models, inp = {}, []
    for name, consts in runs:
        ideal = ctx.tlc("Reconnect", "MC%s.cfg" % name, files={"MC%s.cfg" % name: cfg(*consts)})
        if ideal.violated:
            raise vf.Infra("ideal Reconnect spec violates %s (specification error)" % ideal.violated)
        paths, nnodes, nedges = vf.path_cover(ideal.edges, init_pred=is_init, max_len=max_len)
        models[name] = {"ideal": ideal, "paths": paths, "nodes": nnodes, "edges": nedges}
        inp.append({"name": name, "addrs": list(consts[0]), "cap": consts[1], "max_attempts": consts[2],
                    "configs": [], "jitter": jitter, "paths": paths})   # configs: the harness' list for this saturation index
    fn = vf.write_json(os.path.join(ctx.work, "recon_paths.json"), {"runs": inp})
    r = ctx.gotest("peer", HF, "^TestZZVReconReplay$", env={"ZZV_IN": fn, "ZZV_PAR": par, "ZZV_CORRUPT": os.environ.get("ZZV_CORRUPT", "")}, timeout=1500)
    summ = (r.of("summary") or [None])[0]
    if not summ:
        raise vf.Infra("replay harness produced no summary:\n" + r.out[-3000:])
    if summ["infra"]:
        raise vf.Infra("replay harness could not drive the code: %s" % summ["infra"][:3])
    return {"models": models, "summary": summ, "mismatches": r.of("mismatch")}


def report(ctx, res, where):
    """turn harness mismatches into findings; returns the drift (non-violation) mismatches"""
    drift = []
    for mm in res["mismatches"]:
        kind = mm["kind"]
        a = mm["a"]
        if kind not in VIOLATION_KINDS:
            drift.append(mm)
            continue
        dev = VIOLATION_KINDS[kind]
        key = "Reconnect:%s:%s:%s" % (dev, kind, where)
        what = "%s: %s at step %d (%s %s -> spec %s): %s; schedule: %s" % (
            where, kind, mm["step"], a.get("act"), a.get("a", ""), a.get("res", ""), mm["detail"],
            " ".join("%s%s" % (x["act"], ("(" + x.get("res", "") + ")") if x.get("res") else "") for x in mm.get("prefix", [])[-14:]))
        ctx.finding(key, what, mm)
    return drift


def trace_cfg(addrs, cap_, maxatt, agent=False):
    ini, mn, md, mx = DELAYS[cap_]   # the recorded executions use several real configurations; the trace compares indices
    return ("CONSTANTS Addr = {%s} Cap = %d MaxAttempts = %d AttBound = 1000000 MaxGate = 1000000 MaxInfl = 1000000 "
            "MaxPend = 1000000 Initial = %d MulN = %d MulD = %d MaxDelay = %d WithAgent = %s MaxTicks = 1000000 MaxAggr = 1000 "
            "WithStop = TRUE Dev = {} Emit = FALSE\n"
            "INIT TraceInit\nNEXT TraceNext\nCONSTRAINT HighWater\n"
            "INVARIANTS TypeOK OneTimer NoTimerWhilePaused NextDelayOK AsleepPaused\nPOSTCONDITION TraceAccepted\n" % (
                ",".join('"%s"' % a for a in addrs), cap_, maxatt, ini, mn, md, mx, "TRUE" if agent else "FALSE"))


def _validate(ctx, name, tracefile, addrs, cap_, maxatt, where, agent=False):
    """TLC decides whether the recorded execution is a behaviour of Reconnect.tla; a rejection is classified by the
    event that could not be matched."""
    cfgname = "Trace_%s.cfg" % name
    e = {"TRACE_FILE": tracefile}
    res = ctx.tlc("TraceReconnect", cfgname, files={cfgname: trace_cfg(addrs, cap_, maxatt, agent)}, workers=1, env=e,
                  expect_violation=True, name=name, dump_trace=False, tags=("HW", "LEN"))
    hw = [o for t, o in res.prints if t == "HW"]
    ln = [o for t, o in res.prints if t == "LEN"]
    events = [json.loads(l) for l in open(tracefile) if l.strip()]
    if res.violated and res.violated != "postcondition":
        ctx.finding("Reconnect:trace-invariant:%s:%s" % (res.violated, where),
                    "%s: a recorded execution violates %s of Reconnect.tla" % (where, res.violated), {"tlc_tail": res.out[-3000:]})
        return {"accepted": False, "hw": hw[-1] if hw else 0, "len": len(events)}
    if not hw or not ln:
        raise vf.Infra("trace validation did not reach its postcondition:\n" + res.out[-3000:])
    h = hw[-1]
    if h == ln[-1] + 1:
        return {"accepted": True, "hw": h, "len": ln[-1]}
    ev = events[h - 1] if 0 < h <= len(events) else None
    ctxt = events[max(0, h - 9):h]
    # classification of the event that is not a step of the specification
    name_ = ev and ev.get("ev")
    kind, dev = "unmatched-%s" % name_, None
    if name_ == "AggressiveTick" and ev.get("res") == "dialed" and ev.get("st", {}).get("asleep"):
        kind, dev = "dial-while-asleep", "DevAggressiveReconnectIgnoresSleep"
    if name_ == "TimerFire":
        # a timer the specification does not have: a violation if it goes on to start an attempt
        for nx in events[h:]:
            if nx.get("ev") == "Reset":
                break
            if nx.get("ev") == "Release" and nx.get("a") == ev.get("a"):
                if nx.get("res") == "begin":
                    kind, dev = "extra-attempt", ("DevNoPauseCheckInAttempt" if nx.get("st", {}).get("paused") else "DevDoubleTimer")
                break
    elif name_ == "Release" and ev.get("res") == "begin":
        # the specification says this fired timer does not start an attempt
        paused_before = False
        for x in reversed(ctxt[:-1]):
            if x.get("cmp"):
                paused_before = x["st"]["paused"]
                break
        if paused_before or ev.get("st", {}).get("paused"):
            kind, dev = "begin-while-paused", "DevNoPauseCheckInAttempt"
    if dev is None and ev and ev.get("cmp"):
        # the logged state by itself: the delay the next timer is armed with must be min(initial*mult^k, max)
        # (idx = position of state.nextDelay on that ladder, -1 = not on it), k = the code's own counter;
        # and a successful attempt ends the run of consecutive retries
        st = ev.get("st", {})
        for a_ in addrs:
            if st.get("ex", {}).get(a_):
                i_, n_ = st["idx"][a_], st["att"][a_]
                if i_ != min(n_, cap_):
                    kind, dev = "backoff-state", "backoff-index"
                elif name_ == "AttemptEnd" and ev.get("ok") and ev.get("a") == a_ and i_ > 0:
                    kind, dev = "backoff-state", "success-keeps-backoff"
    rec = {"event_index": h, "event": ev, "context": ctxt}
    if dev:
        ctx.finding("Reconnect:%s:%s:%s" % (dev, kind, where),
                    "%s: recorded execution is not a behaviour of Reconnect.tla: event #%d %s (%s); preceding events: %s" % (
                        where, h, {k: ev[k] for k in ("ev", "a", "i", "res")}, kind,
                        " ".join("%s%s" % (x["ev"], "(" + x["res"] + ")" if x.get("res") else "") for x in ctxt[:-1])), rec)
        return {"accepted": False, "hw": h, "len": ln[-1]}
    return {"accepted": False, "hw": h, "len": ln[-1], "drift": rec}


def _direct(ctx, recs, where):
    for d in recs:
        kind = d.get("kind")
        if kind == "infra":
            raise vf.Infra("%s harness: %s" % (where, d))
        if kind in VIOLATION_KINDS:
            dev = VIOLATION_KINDS[kind]
            extra = {k: v for k, v in d.items() if k not in ("k", "kind", "detail")}
            ctx.finding("Reconnect:%s:%s:%s" % (dev, kind, where), "%s: %s %s %s" % (where, kind, d.get("detail", ""), vf.canon(extra)), d)


def manager(ctx, rounds, k):
    """real peer.Manager, persistent peer at a dead address (gated dialer)"""
    out = os.path.join(ctx.work, "recon_manager.ndjson")
    r = ctx.gotest("peer", HF, "^TestZZVReconManager$", env={"ZZV_OUT": out, "ZZV_ROUNDS": rounds, "ZZV_K": k, "ZZV_CAP": 3})
    summ = (r.of("summary") or [None])[0]
    if not summ:
        raise vf.Infra("manager harness produced no summary:\n" + r.out[-3000:])
    direct = r.of("direct")
    _direct(ctx, direct, "Manager")
    v = _validate(ctx, "manager", out, ["a"], 3, 0, "Manager")
    timer_missing = [d for d in direct if d.get("kind") in ("timer-missing", "skip-unexpected")]
    return summ, v, timer_missing


def random_traces(ctx, name, ntraces, nops, maxatt, par=16):
    out = os.path.join(ctx.work, "recon_trace_%s.ndjson" % name)
    r = ctx.gotest("peer", HF, "^TestZZVReconTrace$", timeout=1500,
                   env={"ZZV_OUT": out, "ZZV_TRACES": ntraces, "ZZV_OPS": nops, "ZZV_MAXATT": maxatt, "ZZV_CAP": 2, "ZZV_PAR": par,
                        "ZZV_CORRUPT": os.environ.get("ZZV_CORRUPT", "")})
    summ = (r.of("summary") or [None])[0]
    if not summ:
        raise vf.Infra("trace harness produced no summary:\n" + r.out[-3000:])
    _direct(ctx, r.of("direct"), "Reconnector")
    v = _validate(ctx, "trace_" + name, out, ["a", "b"], 2, maxatt, "Reconnector")
    return summ, v


def agent_model(ctx):
    """TLC on the agent-level instance (AgentSleep / AgentWake / AggressiveTick on top of the reconnector)"""
    r = ctx.tlc("Reconnect", "MCagent.cfg", files={"MCagent.cfg": cfg(*AGENT_MODEL, emit=False, agent=True)})
    if r.violated:
        raise vf.Infra("ideal agent-level Reconnect spec violates %s (specification error)" % r.violated)
    return r


def agent_cmesh(ctx, rounds):
    """real agents on the controlled in-memory mesh: Sleep, Wake, Sleep inside the aggressive-reconnect window"""
    out = os.path.join(ctx.work, "recon_agent.ndjson")
    r = ctx.gotest("agent", HF_AGENT, "^TestZZVReconAgent$", env={"ZZV_OUT": out, "ZZV_ROUNDS": rounds}, timeout=900)
    summ = (r.of("summary") or [None])[0]
    if not summ:
        raise vf.Infra("agent harness produced no summary:\n" + r.out[-3000:])
    _direct(ctx, r.of("direct"), "Agent")
    v = _validate(ctx, "agent", out, ["a"], 2, 0, "Agent", agent=True)
    return summ, v
