# helpers shared by _control.py (C39) and _peerreg.py (C32)
import copy, concurrent.futures, itertools, os
import vf

_slot = itertools.count(1)


def par(ctx, jobs):
    """Run jobs (callables taking a ctx) concurrently.  Each job gets a shallow copy of ctx with its own scratch
    numbering and scratch directory below ctx.work (ctx.tlc / ctx.gotest number their scratch files with a plain
    counter and generate overlay files there), sharing findings and logging.  Returns the results in order; the first exception is re-raised."""
    def run(job):
        c = copy.copy(ctx)
        k = next(_slot)
        c._n = 1000 * k
        c.work = os.path.join(ctx.work, "job%d" % k)     # own scratch (generated overlay files are per work dir)
        os.makedirs(c.work, exist_ok=True)
        return job(c)
    if len(jobs) == 1:
        return [run(jobs[0])]
    with concurrent.futures.ThreadPoolExecutor(len(jobs)) as ex:
        futs = [ex.submit(run, j) for j in jobs]
        return [f.result() for f in futs]


def trace_actions(res):
    """the `last` records along a TLC counterexample (-dumpTrace json)"""
    if not res.trace:
        raise vf.Infra("TLC reported %s but produced no counterexample trace" % res.violated)
    states = res.trace.get("counterexample", {}).get("state", [])
    acts = [st[1]["last"] for st in states if st[1].get("last", {}).get("act") != "Init"]
    if not acts:
        raise vf.Infra("empty counterexample")
    return acts


def path_cover(edges, max_len=400):
    """Same contract as vf.path_cover (every distinct edge occurs in at least one path that starts in the initial
    state), but linear-ish: shortest-path tree from the initial state computed once, then each path = tree path to
    a state that still has an uncovered out-edge + a greedy walk along uncovered edges.  Used for the large
    (thorough) instances, where vf.path_cover's repeated breadth-first searches take too long."""
    nodes, out, uniq = {}, {}, {}
    for e in edges:
        ks, kt = vf.canon(e["s"]), vf.canon(e["t"])
        nodes.setdefault(ks, e["s"])
        nodes.setdefault(kt, e["t"])
        ek = (ks, vf.canon(e["a"]), kt)
        if ek not in uniq:
            uniq[ek] = e
            out.setdefault(ks, []).append(ek)
    has_in = set(k[2] for k in uniq if k[0] != k[2])
    inits = [k for k in nodes if k not in has_in]
    if len(inits) != 1:
        raise vf.Infra("path_cover: %d initial states" % len(inits))
    init = inits[0]
    parent = {init: None}
    order, q = [init], [init]
    while q:
        nq = []
        for u in q:
            for ek in out.get(u, []):
                if ek[2] not in parent:
                    parent[ek[2]] = ek
                    nq.append(ek[2])
                    order.append(ek[2])
        q = nq
    if len(parent) != len(nodes):
        raise vf.Infra("path_cover: %d states unreachable from the initial state" % (len(nodes) - len(parent)))
    nxt = {u: 0 for u in nodes}          # index of the first possibly uncovered out-edge
    covered = set()

    def uncovered(u):
        lst = out.get(u, [])
        i = nxt[u]
        while i < len(lst) and lst[i] in covered:
            i += 1
        nxt[u] = i
        return lst[i] if i < len(lst) else None
    paths = []
    for u in order:                      # shallow states first: short prefixes, long walks along uncovered edges
        while uncovered(u) is not None:
            pre, x = [], u
            while parent[x] is not None:
                pre.append(parent[x])
                x = parent[x][0]
            pre.reverse()
            covered.update(pre)
            steps, cur = pre, u
            while len(steps) < max_len:
                ek = uncovered(cur)
                if ek is None:
                    # bounded search below cur for a state that still has an uncovered out-edge
                    seen, fr, hop, found = {cur: None}, [cur], 0, None
                    while fr and found is None and len(seen) < 400:
                        nf = []
                        for x in fr:
                            for e2 in out.get(x, []):
                                v = e2[2]
                                if v in seen:
                                    continue
                                seen[v] = e2
                                if uncovered(v) is not None:
                                    found = v
                                    break
                                nf.append(v)
                            if found is not None:
                                break
                        fr = nf
                    if found is None:
                        break
                    link, x = [], found
                    while seen[x] is not None:
                        link.append(seen[x])
                        x = seen[x][0]
                    link.reverse()
                    if len(steps) + len(link) >= max_len:
                        break
                    steps.extend(link)
                    cur = found
                    continue
                covered.add(ek)
                steps.append(ek)
                cur = ek[2]
            paths.append({"init": nodes[init], "steps": [{"a": uniq[ek]["a"], "t": nodes[ek[2]]} for ek in steps]})
    if len(covered) != len(uniq):
        raise vf.Infra("path_cover: %d of %d edges not covered" % (len(uniq) - len(covered), len(uniq)))
    return paths, len(nodes), len(uniq)
