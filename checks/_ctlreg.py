# helpers shared by _control.py (C39) and _peerreg.py (C32)
import copy, concurrent.futures, itertools, os
import vf

_slot = itertools.count(1)


def par(ctx, jobs):
    """Run jobs (callables taking a ctx) concurrently.  Each job gets a shallow copy of ctx with its own scratch
    numbering and scratch directory below ctx.work (ctx.tlc / ctx.gotest number their scratch files with a plain
    counter and generate overlay files there), sharing findings and logging.  Returns the results in order; the first exception is re-raised."""
    def run(job):
        c = copy.copy(ctx)
        k = next(_slot)
        c._n = 1000 * k
        c.work = os.path.join(ctx.work, "job%d" % k)     # own scratch (generated overlay files are per work dir)
        os.makedirs(c.work, exist_ok=True)
        return job(c)
    if len(jobs) == 1:
        return [run(jobs[0])]
    with concurrent.futures.ThreadPoolExecutor(len(jobs)) as ex:
        futs = [ex.submit(run, j) for j in jobs]
        return [f.result() for f in futs]


def trace_actions(res):
    """the `last` records along a TLC counterexample (-dumpTrace json)"""
    if not res.trace:
        raise vf.Infra("TLC reported %s but produced no counterexample trace" % res.violated)
    states = res.trace.get("counterexample", {}).get("state", [])
    acts = [st[1]["last"] for st in states if st[1].get("last", {}).get("act") != "Init"]
    if not acts:
        raise vf.Infra("empty counterexample")
    return acts
