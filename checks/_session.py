# Session.tla <-> internal/crypto SessionKey   (C01, C02)
import os, json
import vf

INVS = "TypeOK Authentic IncreasingOnce WindowBehindSender NonceUnique CountersConsecutive"
DEVS = ["DevAcceptReflected", "DevAdvanceWindowBeforeAuth"]
HFILES = ["common/common_test.go.tmpl", "crypto/session_test.go"]


def cfg(maxc, maxmsgs, dev=(), emit=True, invs=INVS, props=True, view="view"):
    return ("CONSTANTS MaxC = %d MaxMsgs = %d Dev = {%s} Emit = %s\nINIT Init\nNEXT Next\nVIEW %s\n"
            "ACTION_CONSTRAINT EmitEdge\n%s%s" % (
                maxc, maxmsgs, ",".join('"%s"' % d for d in dev), "TRUE" if emit else "FALSE", view,
                ("INVARIANTS " + invs + "\n") if invs else "",
                "PROPERTIES RejectedChangesNothing\n" if props else ""))


def base_act(a):
    return {k: v for k, v in a.items() if k not in ("res", "dev")}


def model(ctx, want_invs):
    """TLC: ideal spec holds; each deviation is caught; returns (ideal result, dev edge relation)."""
    maxc, maxmsgs = (3, 2) if ctx.quick() else (4, 3)
    ideal = ctx.tlc("Session", "MC.cfg", files={"MC.cfg": cfg(maxc, maxmsgs)}, coverage=False)
    if ideal.violated:
        raise vf.Infra("ideal Session spec violates %s (specification error)" % ideal.violated)
    # sensitivity: every deviation must be caught by the invariants this property relies on
    caught = {}
    for d in DEVS:
        r = ctx.tlc("Session", "MCdev.cfg", files={"MCdev.cfg": cfg(maxc, maxmsgs, dev=[d], emit=False)},
                    expect_violation=True)
        caught[d] = r.violated
        if not r.violated:
            raise vf.Infra("deviation %s not detected by the invariants (vacuous model)" % d)
    # relation with all deviations enabled, used to classify replay mismatches
    devrel = ctx.tlc("Session", "MCall.cfg",
                     files={"MCall.cfg": cfg(maxc, maxmsgs, dev=DEVS, emit=True, invs="", props=False, view="viewCore")})
    return maxc, maxmsgs, ideal, caught, devrel


def classify(mm, devrel):
    """Which deviation action explains the real transition (s, a, real_t)?"""
    s, a, rt, rres = vf.canon(mm["s"]), vf.canon(base_act_go(mm["a"])), vf.canon(mm["real_t"]), mm["real_res"]
    for e in devrel.edges:
        if "dev" not in e["a"]:
            continue
        if vf.canon(e["s"]) == s and vf.canon(base_act(e["a"])) == a and vf.canon(e["t"]) == rt and e["a"].get("res") == rres:
            return e["a"]["dev"]
    return None


def base_act_go(a):
    # the Go side serialises every field of its action struct; drop empty ones to compare with TLC's record
    out = {}
    for k, v in a.items():
        if k in ("res", "dev"):
            continue
        if k == "kind" and v == "":
            continue
        out[k] = v
    return out


def replay(ctx, maxc, ideal, devrel):
    paths, nnodes, nedges = vf.path_cover(ideal.edges, init_pred=None)
    inp = os.path.join(ctx.work, "session_paths.json")
    vf.write_json(inp, {"maxc": maxc, "paths": paths})
    tot_steps = 0
    mismatches = []
    for region in ("low", "high"):
        r = ctx.gotest("crypto", HFILES, "^TestZZVSessionReplay$", env={"ZZV_IN": inp, "ZZV_REGION": region})
        summ = r.of("summary")
        if not summ:
            raise vf.Infra("replay harness produced no summary:\n" + r.out[-2000:])
        tot_steps += summ[0]["steps"]
        for mm in r.of("mismatch"):
            mismatches.append(mm)
    return paths, nnodes, nedges, tot_steps, mismatches


def report(ctx, mismatches, devrel, relevant):
    """relevant(dev_or_None, mismatch) -> bool : does this mismatch concern the calling property?"""
    for mm in mismatches:
        dev = classify(mm, devrel) if mm.get("step", -1) >= 0 else None
        if not relevant(dev, mm):
            continue
        a = mm.get("a", {})
        if mm.get("step", 0) < 0:
            ctx.finding("Session:counter-range",
                        "a SessionKey cannot hold counters near 2^64 (state after setting the counters: real %s, "
                        "spec %s): nonces repeat / the window breaks long before 2^64 messages" % (
                            vf.canon(mm.get("real")), vf.canon(mm.get("spec"))), mm)
            continue
        key = "Session:%s" % (dev or ("unexplained:%s:%s" % (a.get("act"), mm.get("real_res"))))
        what = "SessionKey %s(%s dir=%s ctr=%s %s) in state %s: spec %s -> %s, real %s -> %s (%s)" % (
            a.get("act"), a.get("e"), a.get("dir"), a.get("ctr"), a.get("kind", ""), vf.canon(mm.get("s")),
            mm.get("spec_res"), vf.canon(mm.get("spec_t")), mm.get("real_res"), vf.canon(mm.get("real_t")),
            mm.get("region"))
        ctx.finding(key, what, mm)


def traces(ctx, test, env, name, cfg="TraceSession.cfg", dfs=False):
    out = os.path.join(ctx.work, name + ".ndjson")
    e = dict(env)
    e["ZZV_OUT"] = out
    conc = (test == "TestZZVSessionConc")
    r = ctx.gotest("crypto", HFILES, "^%s$" % test, env=e, race=conc, allow_fail=conc)
    summ = r.of("summary")
    if conc and summ:
        # the race detector fails the test binary; a race inside SessionKey is reported by the caller
        summ[0]["data_race"] = ("WARNING: DATA RACE" in r.out and "SessionKey" in r.out)
        summ[0]["race_excerpt"] = r.out[r.out.find("WARNING: DATA RACE"):][:1500] if summ[0]["data_race"] else ""
        if r.rc != 0 and not summ[0]["data_race"]:
            raise vf.Infra("concurrent harness failed:\n" + r.out[-2000:])
    if not summ:
        raise vf.Infra("trace harness produced no summary")
    res = ctx.tlc("TraceSession", cfg, workers=1, env={"TRACE_FILE": out}, expect_violation=True,
                  tags=("HW", "LEN"), name=name, queue_dfs=dfs, dump_trace=False)
    hw = [o for t, o in res.prints if t == "HW"]
    ln = [o for t, o in res.prints if t == "LEN"]
    if not hw or not ln:
        raise vf.Infra("trace validation did not reach its postcondition:\n" + res.out[-3000:])
    events = []
    with open(out) as f:
        for line in f:
            events.append(json.loads(line))
    return summ[0], res, hw[-1], ln[-1], events
