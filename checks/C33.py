# C33 - Deterministic listening windows are computed correctly at every instant
#
# Interpretation (permissive side), see also the header of spec/Window.tla:
#  * "has not yet ended" at the exact instant t = end of a window: either that window or the following one is accepted
#    as the next window; likewise PreviousWindow at t = start.
#  * "in window" at the two boundary instants start-tolerance and end+tolerance: either answer is accepted.
#  * TimeUntilWindow / PreviousWindow / the consistency of GetWindowInfo's fields are not named by the statement; they
#    share the same arithmetic (cycleStart) and are bound too.  A violation seen ONLY there is reported under its own
#    key (function names are part of the key).
#  * the offset of an identity is whatever windowOffset() returns; the statement's "windows recur exactly once per cycle
#    and each fits inside its cycle" is checked as 0 <= offset and offset + window <= cycle, and the same offset on every
#    call.
# Level: exploration (E4 vectors).
import os
import vf

HF = ["common/common_test.go.tmpl", "sleep/window_test.go"]
DEVS = ["DevTruncDiv", "DevNoTrailingTolerance"]


def cfg(lo, hi, tol, dev=(), emit=False):
    return ("CONSTANTS MinCycle = %d MaxCycle = %d MaxTol = %d Dev = {%s} Emit = %s\nINIT Init\nNEXT Next\n"
            "INVARIANTS NextOK InOK PrevOK UntilOK FitsOK EmitVec\n" % (
                lo, hi, tol, ",".join('"%s"' % d for d in dev), "TRUE" if emit else "FALSE"))


def run(ctx):
    q = ctx.quick()
    lo, hi, tol = (2, 6, 2) if q else (2, 8, 3)
    ideal = ctx.tlc("Window", "MC.cfg", files={"MC.cfg": cfg(lo, hi, tol, emit=True)}, tags=("VEC",))
    if ideal.violated:
        raise vf.Infra("ideal Window transcription violates %s (specification error)" % ideal.violated)
    uniq = {}
    for t, v in ideal.prints:
        if t == "VEC":
            uniq[(v["c"], v["w"], v["tol"], v["off"], v["t"])] = v
    vecs = [uniq[k] for k in sorted(uniq)]
    if len(vecs) != ideal.distinct:
        raise vf.Infra("TLC reported %d vectors but %d VEC records were collected" % (ideal.distinct, len(vecs)))
    caught = {}
    for d in DEVS:
        r = ctx.tlc("Window", "MCdev.cfg", files={"MCdev.cfg": cfg(lo, hi, tol, dev=[d])}, expect_violation=True, tags=("VEC",))
        if not r.violated:
            raise vf.Infra("deviation %s is not caught by the oracle (vacuous)" % d)
        caught[d] = r.violated

    inp = vf.write_json(os.path.join(ctx.work, "window_vecs.json"), {"vecs": vecs})
    r1 = ctx.gotest("sleep", HF, "^TestZZVWindowVectors$", env={"ZZV_IN": inp, "ZZV_CORRUPT": os.environ.get("ZZV_CORRUPT", "")})
    s1 = (r1.of("summary") or [None])[0]
    if not s1:
        raise vf.Infra("vector harness produced no summary:\n" + r1.out[-3000:])
    if s1["oracle_diff"]:
        raise vf.Infra("Go transcription of the oracle differs from TLC's oracle on %d vectors: %s" % (
            s1["oracle_diff"], r1.of("oraclediff")[:1]))
    n = 100000 if q else 3000000
    r2 = ctx.gotest("sleep", HF, "^TestZZVWindowRandom$", env={"ZZV_N": n}, timeout=1500)
    s2 = (r2.of("summary") or [None])[0]
    if not s2:
        raise vf.Infra("random harness produced no summary:\n" + r2.out[-3000:])

    # query sequences on one live calculator (WindowSeq.tla): the answer for an instant must not depend on the history
    sq = (3, 2) if q else (4, 3)
    seqcfg = lambda dev: ("CONSTANTS MinCycle = 2 MaxCycle = %d MaxTol = %d SeqMaxCycle = %d SeqLen = %d Dev = {%s} Emit = FALSE\n"
                          "INIT SeqInit\nNEXT SeqNext\nINVARIANTS HistoryFree\n" % (hi, tol, sq[0], sq[1], dev))
    seq_ideal = ctx.tlc("WindowSeq", "MCseq.cfg", files={"MCseq.cfg": seqcfg("")})
    if seq_ideal.violated:
        raise vf.Infra("ideal WindowSeq violates %s (specification error)" % seq_ideal.violated)
    rs = ctx.tlc("WindowSeq", "MCseqdev.cfg", files={"MCseqdev.cfg": seqcfg('"DevMemoisedLastWindow"')}, expect_violation=True)
    if not rs.violated:
        raise vf.Infra("deviation DevMemoisedLastWindow is not caught by HistoryFree (vacuous)")
    caught["DevMemoisedLastWindow"] = rs.violated
    r3 = ctx.gotest("sleep", HF, "^TestZZVWindowSeq$", env={"ZZV_IN": inp, "ZZV_TRIPLES": 200 if q else 3000}, timeout=1500)
    s3 = (r3.of("summary") or [None])[0]
    if not s3:
        raise vf.Infra("sequence harness produced no summary:\n" + r3.out[-3000:])

    for rec in r1.of("bad") + r2.of("bad") + r3.of("bad"):
        prim = [f for f in ("NextWindow", "IsInWindow", "PreviousWindow", "TimeUntilWindow", "GetWindowInfo", "windowOffset")
                if f in rec["funcs"]][0]
        key = "Window:%s:%s" % (rec["class"], prim)   # class of the failing input + first function that is wrong
        if "cycle_s" in rec:
            where = "cycle %ss window %ss tolerance %ss offset %ss, instant %+ds relative to the epoch %s" % (
                rec["cycle_s"], rec["window_s"], rec["tolerance_s"], rec["offset_s"], rec["t_s"], rec["epoch"])
        else:
            where = "cycle %sns window %sns tolerance %sns offset %sns (agent %s), instant %sns relative to the epoch %s" % (
                rec["cycle_ns"], rec["window_ns"], rec["tolerance_ns"], rec["offset_ns"], rec.get("agent"), rec.get("t_ns"),
                rec["epoch"])
        hist = ""
        if rec.get("history_dependent"):
            hist = (" - a fresh calculator answers this instant correctly; the live calculator had been asked before: %s"
                    % vf.canon(rec.get("asked_before_on_the_same_calculator")))
        ctx.finding(key, "%s: %s wrong: real %s, acceptable next-window starts %s, acceptable in-window answers %s%s%s" % (
            where, ",".join(rec["funcs"]), vf.canon(rec.get("real")), rec.get("oracle_next"), rec.get("oracle_in"),
            " (exactly the deviating transcription)" if rec.get("as_dev") else "", hist), rec)

    drift = r1.of("drift")
    if drift and not ctx.violations:
        raise vf.Infra("binding drift: the real WindowCalculator satisfies the oracle but no longer follows the transcription "
                       "in Window.tla on %d vectors, e.g. %s" % (s1["drift"], vf.canon(drift[0])[:900]))

    ctx.evidence("exploration",
                 assumptions=["grid: one model time unit = 1 s; epochs 1970-01-01, 2026-03-01 and 1999-12-31 (+03:00)",
                              "instants within +-100 years of the epoch (time.Duration saturates at +-292 years)",
                              "the identity enters only through windowOffset(); identifiers are crafted (grid) or random"],
                 evaluations=s1["evaluations"] + s2["evaluations"] + s3["queries"],
                 distinct_nontrivial=s1["classes"] + s2["classes"] + s3["classes"],
                 rule="TLC enumerates cycle %d..%d, window < cycle, tolerance 0..%d, every offset 0..cycle-window-1 and every "
                      "instant -2*cycle..3*cycle (%d vectors), checks transcription-vs-oracle and prints oracle sets; each vector "
                      "runs on the real WindowCalculator for 3 epochs; then %d seeded random cases (ns-granular cycles up to "
                      "3 days, random identifiers, instants up to +-100 years, half of them on/next to window and tolerance "
                      "boundaries) against the Go transcription of the oracle (cross-checked with TLC's on the grid).  "
                      "Then query SEQUENCES on one live calculator per configuration: every ordered pair of instants (same "
                      "agent; a third of them alternating with a second agent), all triples for cycles <= 3 and seeded random "
                      "triples otherwise, every answer judged by the oracle of its own instant (WindowSeq.tla: history freedom); "
                      "each random case is followed by an earlier/later instant and the first instant again on the same calculator.  "
                      "distinct_nontrivial counts distinct (before/at/after epoch, oracle answer sets, epoch) classes."
                      % (lo, hi, tol, len(vecs), n),
                 exhaustive=False, tlc_vectors=len(vecs), deviations_caught=caught,
                 sequence_model_states=seq_ideal.distinct, live_calculators=s3["calculators"], query_sequences=s3["sequences"],
                 sequence_queries=s3["queries"], sequence_bad=s3["bad"], sequence_bad_classes=s3["bad_classes"],
                 vector_evaluations=s1["evaluations"], vector_bad=s1["bad"], vector_bad_classes=s1["bad_classes"],
                 transcription_drift=s1["drift"], random_cases=n, random_bad=s2["bad"], random_bad_classes=s2["bad_classes"],
                 samples=(s1.get("samples") or [])[:3] + (s2.get("samples") or [])[:2] + (s3.get("samples") or [])[:2])
