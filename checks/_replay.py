# Shared helpers for the replay bindings of concurrent objects (Stream.tla / C18, SleepFSM.tla / C30).
#
#   relation(...)      run TLC with edge emission and return the labelled transition relation
#   compact_paths(...) path cover of a relation written as {states:[...], paths:[{init:i, steps:[{a:.., t:i}]}]}
#                      (states are stored once and referenced by index: the path files stay small)
#   classify(...)      findings protocol (DESIGN 1.6/1.8): look a replay mismatch (s, a, real t) up in the relation TLC
#                      emits with exactly one deviation enabled
import json, os
import vf


def cfg_text(consts, dev=(), emit=True, invs="", props="", view="view", constraint=None):
    c = " ".join("%s = %s" % (k, v) for k, v in consts.items())
    out = "CONSTANTS %s Dev = {%s} Emit = %s\nINIT Init\nNEXT Next\nVIEW %s\nACTION_CONSTRAINT EmitEdge\n" % (
        c, ",".join('"%s"' % d for d in dev), "TRUE" if emit else "FALSE", view)
    if constraint:
        out += "CONSTRAINT %s\n" % constraint
    if invs:
        out += "INVARIANTS %s\n" % invs
    if props:
        out += "PROPERTIES %s\n" % props
    return out


def relation(ctx, module, consts, dev, name, workers=4, timeout=1800):
    """transition relation of the bounded model with the deviations `dev` enabled (no properties checked)"""
    fn = "MCrel_%s.cfg" % name
    return ctx.tlc(module, fn, files={fn: cfg_text(consts, dev=dev, emit=True)}, workers=workers, name=name,
                   timeout=timeout, heap="12g")


def cover(edges, is_init, max_len=400, probe=300):
    """Path cover of the transition graph: every distinct edge (s, a, t) occurs in at least one path; each path starts
    in an initial state.  One BFS tree from the initial states gives the shortest prefix to every state; a path is
    prefix(u) + a greedy walk along uncovered edges (bounded local search for the next state that still has one).
    Returns (paths, nnodes, nedges) with paths = [{"init": state, "steps": [{"a":..,"t":..}]}] (state objects shared)."""
    nodes, out, uniq = {}, {}, {}
    for e in edges:
        ks, kt = vf.canon(e["s"]), vf.canon(e["t"])
        nodes.setdefault(ks, e["s"])
        nodes.setdefault(kt, e["t"])
        ek = (ks, vf.canon(e["a"]), kt)
        if ek in uniq:
            continue
        uniq[ek] = e["a"]
        out.setdefault(ks, []).append(ek)
    inits = [k for k, s in nodes.items() if is_init(s)]
    if not inits:
        raise vf.Infra("cover: no initial state among the emitted states")
    parent = {k: None for k in inits}
    order = list(inits)
    q = list(inits)
    while q:
        nq = []
        for u in q:
            for ek in out.get(u, []):
                if ek[2] not in parent:
                    parent[ek[2]] = ek
                    nq.append(ek[2])
                    order.append(ek[2])
        q = nq
    if len(parent) < len(nodes):
        raise vf.Infra("cover: %d emitted states are unreachable from the initial states" % (len(nodes) - len(parent)))

    def prefix(u):
        p = []
        while parent[u] is not None:
            p.append(parent[u])
            u = parent[u][0]
        p.reverse()
        return u, p

    covered = set()
    left = {u: len(l) for u, l in out.items()}      # uncovered out-edges per node

    def take(ek):
        if ek not in covered:
            covered.add(ek)
            left[ek[0]] -= 1

    def nearest(u):
        seen = {u: None}
        q, n = [u], 0
        while q and n < probe:
            nq = []
            for x in q:
                n += 1
                if left.get(x, 0) > 0:
                    p = []
                    while seen[x] is not None:
                        p.append(seen[x])
                        x = seen[x][0]
                    p.reverse()
                    return p
                for ek in out.get(x, []):
                    if ek[2] not in seen:
                        seen[ek[2]] = ek
                        nq.append(ek[2])
            q = nq
        return None

    paths = []
    for u in order:
        while left.get(u, 0) > 0:
            init, steps = prefix(u)
            for ek in steps:
                take(ek)
            cur = u
            while len(steps) < max_len:
                nxt = None
                if left.get(cur, 0) > 0:
                    # self-loops first, so that one visit exhausts them
                    cand = [ek for ek in out[cur] if ek not in covered]
                    loops = [ek for ek in cand if ek[2] == cur]
                    nxt = [loops[0] if loops else cand[0]]
                else:
                    nxt = nearest(cur)
                if not nxt or len(steps) + len(nxt) > max_len:
                    break
                for ek in nxt:
                    take(ek)
                    steps.append(ek)
                    cur = ek[2]
            paths.append({"init": nodes[init], "steps": [{"a": uniq[ek], "t": nodes[ek[2]]} for ek in steps]})
    if len(covered) < len(uniq):
        raise vf.Infra("cover: %d of %d edges not covered" % (len(uniq) - len(covered), len(uniq)))
    return paths, len(nodes), len(uniq)


def compact_paths(edges, is_init, max_len=400):
    """-> (doc, npaths, nnodes, nedges, nsteps); doc = {"states": [...], "paths": [...]}"""
    paths, nnodes, nedges = cover(edges, is_init, max_len=max_len)
    idx, states = {}, []

    def ref(st):
        k = id(st)
        if k not in idx:
            idx[k] = len(states)
            states.append(st)
        return idx[k]

    out, nsteps = [], 0
    for p in paths:
        out.append({"init": ref(p["init"]), "steps": [{"a": s["a"], "t": ref(s["t"])} for s in p["steps"]]})
        nsteps += len(p["steps"])
    return {"states": states, "paths": out}, len(paths), nnodes, nedges, nsteps


def expand_path(doc, i):
    p = doc["paths"][i]
    return {"init": doc["states"][p["init"]], "steps": [{"a": s["a"], "t": doc["states"][s["t"]]} for s in p["steps"]]}


def split_doc(doc, nparts):
    """split the paths of a compact document into nparts documents (states shared in each)"""
    n = len(doc["paths"])
    nparts = max(1, min(nparts, n))
    out = []
    for k in range(nparts):
        out.append({"states": doc["states"], "paths": doc["paths"][k::nparts]})
    return out


def index_relation(edges, base_act):
    """(canon(s), canon(base action)) -> list of edges"""
    ix = {}
    for e in edges:
        ix.setdefault((vf.canon(e["s"]), vf.canon(base_act(e["a"]))), []).append(e)
    return ix


def classify(mm, dev_ix, base_act, proj, same_result, ideal_ix=None):
    """mm: mismatch record of a harness {s, a, real_t, real_res, ...}; dev_ix: {dev name: index_relation(...)}.
    Returns the list of deviations whose relation contains the transition the real code took.  A transition that the
    ideal relation contains as well is not explained by any deviation (the deviation relations share all unaffected
    transitions with the ideal one): such a mismatch stays unexplained."""
    if "s" not in mm or "a" not in mm:
        return []
    key = (vf.canon(mm["s"]), vf.canon(base_act(mm["a"])))
    rt = vf.canon(mm["real_t"])

    def has(ix):
        return any(vf.canon(proj(e["t"])) == rt and same_result(e["a"], mm) for e in ix.get(key, []))
    if ideal_ix is not None and has(ideal_ix):
        return []
    return [dev for dev, ix in dev_ix.items() if has(ix)]


# ------------------------------------------------------------------ test binaries
def build_test_binary(ctx, pkg, files, tags="verif", race=False, name=None):
    """go test -c with the harness files injected by -overlay; returns the path of the test binary"""
    import subprocess, time
    ov = ctx.overlay({pkg: list(files)})
    out = os.path.join(ctx.work, (name or pkg.replace("/", "_")) + ".test")
    cmd = ["go", "test", "-c", "-o", out, "-overlay", ov, "-vet=off"]
    if tags:
        cmd += ["-tags", tags]
    if race:
        cmd.append("-race")
    cmd.append("./internal/" + pkg + "/")
    t = time.time()
    try:
        p = subprocess.run(cmd, cwd=ctx.repo, env=vf.goenv(), stdout=subprocess.PIPE, stderr=subprocess.STDOUT,
                           timeout=900, text=True, errors="replace")
    except subprocess.TimeoutExpired:
        raise vf.Infra("go test -c timeout (%s)" % pkg)
    if p.returncode != 0 or not os.path.exists(out):
        raise vf.Infra("go build failed for %s:\n%s" % (pkg, "\n".join(p.stdout.splitlines()[-60:])))
    ctx.log("go test -c %s: %.1fs" % (pkg, time.time() - t))
    return out


def run_test_binary(ctx, binpath, run, env=None, timeout=900, cwd=None, prefix=None, quiet=False):
    """run a test binary (optionally under a prefix command such as strace); returns vf.GoResult; never raises on a
    non-zero exit (the caller decides), raises Infra on timeout"""
    import subprocess, time
    cmd = list(prefix or []) + [binpath, "-test.run", run, "-test.v", "-test.timeout", "%ds" % timeout]
    e = vf.goenv(env)
    e["VERIF_SEED"] = str(ctx.seed)
    e["VERIF_TIER"] = ctx.tier
    e["ZZV_WORK"] = ctx.work
    t = time.time()
    try:
        p = subprocess.run(cmd, cwd=cwd or ctx.work, env=e, stdout=subprocess.PIPE, stderr=subprocess.STDOUT,
                           timeout=timeout + 60, text=True, errors="replace")
    except subprocess.TimeoutExpired:
        raise vf.Infra("test binary timeout (%s)" % run)
    r = vf.GoResult()
    r.rc, r.out, r.wall = p.returncode, p.stdout, time.time() - t
    for line in p.stdout.splitlines():
        i = line.find("ZZV {")
        if i >= 0:
            try:
                r.records.append(json.loads(line[i + 4:]))
            except Exception:
                pass
    if not quiet:
        ctx.log("test binary -run %s: rc=%d, %d records, %.1fs" % (run, r.rc, len(r.records), r.wall))
    return r


def replay_parallel(ctx, binpath, run, doc, tag, nproc=4, env=None, timeout=1500):
    """split the paths of a compact document over nproc processes of the test binary; returns (summaries, mismatches)"""
    from concurrent.futures import ThreadPoolExecutor
    parts = split_doc(doc, nproc)
    files = []
    for i, d in enumerate(parts):
        fn = os.path.join(ctx.work, "%s_%d.json" % (tag, i))
        vf.write_json(fn, d)
        files.append(fn)

    def one(fn):
        e = {"ZZV_IN": fn}
        e.update(env or {})
        return run_test_binary(ctx, binpath, run, env=e, timeout=timeout, quiet=True)

    with ThreadPoolExecutor(max_workers=len(files)) as ex:
        results = list(ex.map(one, files))
    summ, mism = [], []
    for r in results:
        s = r.of("summary")
        if r.rc != 0 or not s:
            raise vf.Infra("replay harness %s failed rc=%s:\n%s" % (run, r.rc, "\n".join(r.out.splitlines()[-40:])))
        summ.append(s[0])
        mism.extend(r.of("mismatch"))
    stalls = sum(s.get("stalls", 0) for s in summ)
    if stalls and not mism:   # a stalled driver alone is never a verdict
        raise vf.Infra("replay harness %s: %d paths stalled (no holding point reached) and no mismatch was observed" % (run, stalls))
    ctx.log("replay %s: %d processes, %d paths, %d steps, %d mismatches, %.1fs" % (
        tag, len(files), sum(s["paths"] for s in summ), sum(s["steps"] for s in summ), len(mism),
        max(r.wall for r in results)))
    return summ, mism


def collect(r, what):
    s = r.of("summary")
    if not s:
        raise vf.Infra("%s harness produced no summary:\n%s" % (what, r.out[-3000:]))
    return s[0], r.of("mismatch")


def total(summ, key):
    return sum(s.get(key, 0) for s in summ)


# ------------------------------------------------------------------ several TLC runs side by side
def tlc_many(ctx, jobs, timeout=1800):
    """jobs: list of dict(module, cfg (text), name, workers=2, heap="4g", expect_violation=False).  Runs them
    concurrently (the small sensitivity runs cost mostly JVM start-up) and returns the TLCResults in order.
    Same conventions as vf.Ctx.tlc: Infra on parse errors / unfinished runs, violations are returned."""
    import subprocess, shutil, glob, time
    from concurrent.futures import ThreadPoolExecutor

    def one(job):
        d = ctx.scratch("tlcp_" + job["name"])
        for f in glob.glob(os.path.join(vf.SPEC, "*")):
            if os.path.isfile(f):
                shutil.copy(f, d)
        with open(os.path.join(d, "MC.cfg"), "w") as f:
            f.write(job["cfg"])
        tracefile = os.path.join(d, "cex.json")
        cmd = ["java", "-XX:+UseParallelGC", "-Xss64m", "-Xmx%s" % job.get("heap", "4g"), "-cp", vf.TLA_CP, "tlc2.TLC",
               "-config", "MC.cfg", "-metadir", os.path.join(d, "states"), "-workers", str(job.get("workers", 2)),
               "-noGenerateSpecTE", "-deadlock", "-dumpTrace", "json", tracefile, job["module"] + ".tla"]
        e = dict(os.environ)
        e.pop("JAVA_TOOL_OPTIONS", None)
        t = time.time()
        try:
            p = subprocess.run(cmd, cwd=d, env=e, stdout=subprocess.PIPE, stderr=subprocess.STDOUT, timeout=timeout,
                               text=True, errors="replace")
        except subprocess.TimeoutExpired:
            raise vf.Infra("TLC timeout on %s/%s" % (job["module"], job["name"]))
        res = vf.TLCResult()
        res.rc, res.out, res.wall = p.returncode, p.stdout, time.time() - t
        vf.parse_tlc_output(p.stdout, res)
        if os.path.exists(tracefile):
            try:
                with open(tracefile) as f:
                    res.trace = json.load(f)
            except Exception:
                res.trace = None
        bad = None
        for pat in ("Parsing or semantic analysis failed", "java.lang.OutOfMemoryError", "StackOverflowError",
                    "TLC threw an unexpected exception", "Error: TLC encountered", "was not found", "Error: Evaluating",
                    "Error: The configuration file", "Error: In evaluation", "Error: Attempted to", "Error: The invariant",
                    "Error: TLC was unable", "Unknown operator", "Error: Parsing"):
            if pat in p.stdout:
                bad = pat
                break
        if (bad and res.violated is None) or (not res.ok and res.violated is None):
            ctx._keep_log(d, p.stdout, job["name"])
            raise vf.Infra("TLC failure (%s) on %s/%s:\n%s" % (bad or "did not finish", job["module"], job["name"],
                                                             "\n".join(p.stdout.splitlines()[-40:])))
        ctx.log("TLC %s/%s: %d generated, %d distinct, %d edges, %.1fs%s" % (
            job["module"], job["name"], res.generated, res.distinct, len(res.edges), res.wall,
            (" VIOLATED " + str(res.violated)) if res.violated else ""))
        if res.violated and not job.get("expect_violation"):
            ctx._keep_log(d, p.stdout, job["name"])
        return res

    with ThreadPoolExecutor(max_workers=max(1, min(len(jobs), 6))) as ex:
        return list(ex.map(one, jobs))
