# C24 - HTTP API enforces bearer-token auth and endpoint gating
#
# Interpretation (permissive side):
#  * a request "addresses" an endpoint if its path is the endpoint's path, possibly with a query, one percent-encoded
#    letter, or unclean segments ("/./", "/zz/../", "//", "/<other endpoint>/../") that clean to it.  Other spellings
#    (trailing slash, changed case, appended characters, an encoded slash, an extra segment, a ".png" / ".ico" /
#    "/logo.png" / "/health" ending) address no endpoint: for them only "no provider is called without a valid token"
#    is demanded (401, 404, 400 or a redirect are all fine) - except below a subtree pattern whose handler dispatches by
#    prefix (/agents/{id}/..., /debug/pprof/...): those endings still address that non-exempt handler (MUST401).
#  * the server is long-lived and every request is judged on its own: no earlier request (with whatever token
#    presentation) may change the verdict for a later one; two-request sequences on a fresh server are enumerated.
#  * MUST401 (token configured, non-exempt endpoint addressed, no valid token): status exactly 401 and no provider call.
#  * NOT401: /health, /healthz, /ready, / and /logo.png in canonical spelling (any method, any token presentation).
#    Non-canonical spellings of exempt endpoints may answer 401 or not; without a valid token they may reach only the
#    health/readiness providers.
#  * MUST404 (authorised, endpoint of a disabled group addressed): 404 directly, or the mux's redirect to the clean path
#    followed with the same credentials ends in 404; no provider call.  A redirect itself is neither an action nor a
#    bypass.
#  * valid token = "Authorization: Bearer <token>" or ?token=<token>; "Basic <token>", an empty bearer token and wrong
#    tokens are invalid.  A request with a wrong header token AND the valid token in the query is ambiguous (the code lets
#    the header win): nothing is demanded for it.  Scheme-case variants ("bearer") are not generated (RFC 7235 makes the
#    scheme case-insensitive, so accepting them would not violate the statement).
#  * action = any call of a provider (stats, remote status, route trigger, sleep, route / forward / display-name
#    management, file browse, shell, ICMP); for the provider-less pprof group a 200 answer.
import os
import vf

HF = ["common/common_test.go.tmpl", "health/httpapi_test.go"]
DEVS = ["DevExemptByPrefix", "DevGateBeforeAuth", "DevFlagIgnored"]


def cfg(size, dev=(), emit=True):
    return 'CONSTANTS Size = "%s" Dev = {%s}\nINIT Init\nNEXT Next\nINVARIANTS Holds%s\n' % (
        size, ",".join('"%s"' % d for d in dev), " EmitVec" if emit else "")


def harness(ctx, inp, wire):
    r = ctx.gotest("health", HF, "^TestZZVHttpApi$", env={"ZZV_IN": inp, "ZZV_WIRE": "1" if wire else "0"}, timeout=1500)
    summ = (r.of("summary") or [None])[0]
    if not summ:
        raise vf.Infra("HTTP API harness produced no summary:\n" + r.out[-3000:])
    for x in r.of("violation"):
        c = x["case"]
        pr = x.get("prime")
        ctx.finding("HttpApi:%s:%s:%s:%s%s" % ("|".join(w.split(":")[0] for w in x["why"]), c["r"], c["v"], c["p"],
                                               (":after-%s-%s" % (pr["r"], pr["p"])) if pr else ""),
                    "%s%s (token configured %s, flags %s): %s" % (
                        ("after a %s request with token presentation %s on the same server: " % (pr["r"], pr["p"])) if pr else "",
                        x["request"].split("\r\n")[0], c["tok"], vf.canon(c["fl"]), "; ".join(x["why"])), x)
    return summ, r.of("drift")


def run(ctx):
    size = "quick" if ctx.quick() else "thorough"
    res = ctx.tlc("HttpApi", "MC.cfg", files={"MC.cfg": cfg(size)}, tags=("VEC",), dump_trace=False, timeout=1500)
    if res.violated:
        raise vf.Infra("the transcription of the HTTP API wiring violates the oracle in the model: specification error")
    vecs = [o for t, o in res.prints if t == "VEC"]
    if len(vecs) != res.distinct:
        raise vf.Infra("TLC printed %d vectors for %d cases" % (len(vecs), res.distinct))
    seqs = [o for t, o in res.prints if t == "SEQ"]
    if not seqs:
        raise vf.Infra("TLC printed no request sequences")
    caught = {}
    for d in DEVS:
        r = ctx.tlc("HttpApi", "MCdev.cfg", files={"MCdev.cfg": cfg("tiny", [d], emit=False)}, expect_violation=True,
                    dump_trace=False)
        if not r.violated:
            raise vf.Infra("deviation %s is not rejected by the oracle (vacuous oracle)" % d)
        caught[d] = r.violated
    vecs.sort(key=vf.canon)
    seqs.sort(key=vf.canon)
    nsingle = len(vecs)
    vecs = vecs + seqs      # sequences: priming request + judged request on one fresh server
    inp = os.path.join(ctx.work, "c24cases.json")
    vf.write_json(inp, vecs)
    summ, drift = harness(ctx, inp, False)
    wsum = None
    if not ctx.quick():
        sample = [vecs[i] for i in sorted(ctx.rng.sample(range(len(vecs)), min(len(vecs), 20000)))]
        winp = os.path.join(ctx.work, "c24wire.json")
        vf.write_json(winp, sample)
        wsum, wdrift = harness(ctx, winp, True)
        drift = drift + wdrift
    if not ctx.violations and drift:
        raise vf.Infra("HttpApi.Impl is not a faithful transcription of the server wiring (oracle still satisfied): %d cases "
                       "differ, first %s" % (summ["drift"] + (wsum["drift"] if wsum else 0), vf.canon(drift[0])))
    n = {k: sum(1 for v in vecs if v["o"][k]) for k in ("must401", "not401", "must404")}
    ctx.evidence("exploration",
                 assumptions=["providers are recorders (every provider interface of health.Server is set); bcrypt is assumed "
                              "correct (token hash with minimal cost)",
                              "requests are parsed by net/http's own request reader and served by Server.Handler() in memory; "
                              "the thorough tier also sends a sample over TCP to the started server",
                              "path spellings per route: exact, query, one percent-encoded letter, /./, /zz/../, //, "
                              "/<other>/../, trailing slash, upper case, appended character, %2F, extra segment"],
                 evaluations=summ["cases"] + (wsum["cases"] if wsum else 0),
                 distinct_nontrivial=len(summ["classes"]),
                 rule="cases = 35 routes (every registered pattern, every /agents/{id}/... sub-route, pprof profiles) x 16 path "
                      "spellings x methods x 8 token presentations x token configured x 8 flag combinations, enumerated by TLC "
                      "from HttpApi.tla (%s: %d cases) plus %d two-request sequences on one server (every token presentation "
                      "as priming request x every probe); oracle predicates MUST401/NOT401/MUST404/NOACTION from the "
                      "statement" % (size, nsingle, len(seqs)),
                 oracle_cases=n, outcome_classes=summ["classes"], cases_reaching_an_action=summ["with_action"],
                 redirected=summ["redirected"], request_sequences=summ["sequences"], transcription_drift=summ["drift"], deviations_caught=caught,
                 wire=wsum, samples=[vecs[len(vecs) // 5], vecs[len(vecs) // 2], vecs[-7]])
