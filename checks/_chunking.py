# Chunking.tla <-> the data paths of whole agents on cmesh (C07)
import os
import vf
from _exitpolicy import par_tlc, q

INVS = "TypeOK FrameLimit WholeCiphertexts NoLoss InOrderPrefix Complete Progress"
DEVS = ["DevChunkBeforeOverhead", "DevMeshChunkIsMax", "DevFileNoSlackNoOverhead", "DevBalancedLastChunk"]
# data path of the code each deviation lives on (scenario kinds of the harness)
DEV_KINDS = {"DevChunkBeforeOverhead": ("shellout", "shellin"), "DevMeshChunkIsMax": ("tcp", "forward"),
             "DevFileNoSlackNoOverhead": ("upload", "download"), "DevBalancedLastChunk": ("tcp", "forward")}
PIPE_DEVS = ["DevStdinWriteUnderLock"]
PIPE_INVS = "TypeOK Conservation NoStall LockOK"
HFILES = ["common/common_test.go.tmpl", "agent/cmesh_test.go", "agent/frames_test.go"]
KINDS = ["tcp", "forward", "shellout", "shellin", "upload", "download"]
REAL = dict(Max=16384, Ovh=28, Slack=100, MsgHdr=1, ClientBuf=4096)


def cfg(max_=8, ovh=3, slack=1, msghdr=1, clientbuf=2, maxwrite=24, window=2, big=(), dev=(), init="Init", nxt="Next",
        invs=INVS, view=True):
    t = ("CONSTANTS Max = %d Ovh = %d Slack = %d MsgHdr = %d ClientBuf = %d MaxWrite = %d Window = %d Big = {%s} Dev = %s "
         "Emit = FALSE\nINIT %s\nNEXT %s\n" % (max_, ovh, slack, msghdr, clientbuf, maxwrite, window,
                                              ",".join(str(b) for b in big), q(dev), init, nxt))
    if view:
        t += "VIEW view\n"
    return t + "INVARIANTS %s\n" % invs


def model(ctx):
    quick = ctx.quick()
    # seeded random write sizes up to ~200 KiB (TLC evaluates the vectors for them too)
    rnd = sorted({ctx.rng.randrange(2, 200 * 1024) for _ in range(24 if quick else 60)})
    big = tuple(rnd) + ((1 << 20,) if quick else (1 << 20, 5 << 20))
    scaled = dict(max_=8, ovh=3, maxwrite=24, window=2) if quick else dict(max_=10, ovh=3, slack=2, clientbuf=3, maxwrite=30, window=3)
    jobs = {"ideal": dict(module="Chunking", cfg="MC.cfg", files={"MC.cfg": cfg(**scaled)}, name="ideal", workers=4),
            "vecs": dict(module="Chunking", cfg="Vec.cfg", name="vecs", workers=1, tags=("VEC", "VSUM"), files={"Vec.cfg": cfg(
                max_=REAL["Max"], ovh=REAL["Ovh"], slack=REAL["Slack"], msghdr=REAL["MsgHdr"], clientbuf=REAL["ClientBuf"],
                maxwrite=0, big=big, init="VecInit", nxt="VecNext", invs="VecInv", view=False)})}
    for d in DEVS:
        jobs[d] = dict(module="Chunking", cfg="MC-%s.cfg" % d, files={"MC-%s.cfg" % d: cfg(dev=[d], **scaled)}, name=d,
                       workers=1, expect_violation=True)
    # flow control of a shell session whose command echoes its input (ShellPipes.tla): every size, no stall
    pn = 12 if quick else 20
    for tag, dev in (("pipes", ()), ("pipes-dev", PIPE_DEVS)):
        jobs[tag] = dict(module="ShellPipes", cfg="%s.cfg" % tag, name=tag, workers=1, expect_violation=bool(dev), files={
            "%s.cfg" % tag: "CONSTANTS N = %d Msg = 2 CapIn = 3 CapOut = 2 CmdBuf = 2 PumpBuf = 2 Dev = %s\nINIT Init\nNEXT Next\n"
                            "INVARIANTS %s\n" % (pn, q(dev), PIPE_INVS)})
    res = par_tlc(ctx, jobs)
    if res["pipes"].violated:
        raise vf.Infra("ideal ShellPipes spec violates %s (specification error)" % res["pipes"].violated)
    if not res["pipes-dev"].violated:
        raise vf.Infra("deviation DevStdinWriteUnderLock not detected (vacuous model)")
    if res["ideal"].violated:
        raise vf.Infra("ideal Chunking spec violates %s (specification error)" % res["ideal"].violated)
    if res["vecs"].violated:
        raise vf.Infra("Chunking vectors for the real constants violate %s" % res["vecs"].violated)
    caught = {"DevStdinWriteUnderLock": res["pipes-dev"].violated}
    for d in DEVS:
        if not res[d].violated:
            raise vf.Infra("deviation %s not detected (vacuous model)" % d)
        caught[d] = res[d].violated
    vecs = [o for t, o in res["vecs"].prints if t == "VEC"]
    vsum = [o for t, o in res["vecs"].prints if t == "VSUM"]
    if not vecs or not vsum or vsum[0]["vecs"] != len(vecs):
        raise vf.Infra("Chunking: incomplete VEC output")
    res["ideal"].pipes_states = res["pipes"].distinct
    res["ideal"].random_sizes = rnd
    return res["ideal"], vecs, vsum[0], caught, scaled


def plan_sizes(ctx, vecs, vsum, rnd):
    """Which write sizes each data path is driven with.
    All sizes = boundary sizes, every size within 4 bytes of k*P (k = 1..10), the seeded random sizes, 1 MiB (5 MiB).
    The paths through meshConn.Write (tcp, forward: cheap, deterministic chunker) always get ALL of them; the other
    paths get all of them in the thorough tier and, in the quick tier, the boundary sizes plus a seeded sample."""
    P = vsum["p"]
    allsz = sorted({v["n"] for v in vecs})
    base = [0, 1, P - 1, P, P + 1, 2 * P - 1, 2 * P, 2 * P + 1] + [x for x in allsz if x >= (1 << 20)]
    near = [x for x in allsz if x not in base and x not in rnd]
    out = {}
    for k in KINDS:
        if k in ("tcp", "forward") or not ctx.quick():
            out[k] = allsz
        else:
            out[k] = sorted(set(base) | set(ctx.rng.sample(near, min(10, len(near)))) | set(ctx.rng.sample(rnd, min(4, len(rnd)))))
    return allsz, out


def drive(ctx, vecs, vsum, rnd, corrupt=None):
    sizes, by_kind = plan_sizes(ctx, vecs, vsum, rnd)
    inp = os.path.join(ctx.work, "chunk_vecs.json")
    vf.write_json(inp, {"max": vsum["max"], "ovh": vsum["ovh"], "sizes": sizes, "sizes_by_kind": by_kind, "kinds": KINDS,
                        "vecs": vecs})
    env = {"ZZV_IN": inp}
    if corrupt:
        env["ZZV_CORRUPT"] = corrupt
    r = ctx.gotest("agent", HFILES, "^TestZZVFrames$", env=env, timeout=2400)
    summ = r.of("summary")
    if not summ:
        raise vf.Infra("frames harness produced no summary:\n" + r.out[-3000:])
    return sizes, summ[0], r.of("scenario")
